(** C01 — simulated PCRs agree with the simulator's own event log, command log
    and data.  Only the property theorems, each closed by [exact].

    Vocabulary (Model/BootSim.v, Proofs/BootSim.v; TPM = Model/TPM.v (C02),
    replay routines = Model/EventLog.v (C12), reference bytes = Model/Refs.v (C11)):
    - a flow is the list of its executed steps (the order is C09's business),
      a step a list of items: [IInit l] (TPMInit action), [IInitTPM l withLog]
      (tpmsteps.InitTPM), [ILogInit l] (tpmsteps.LogInit), [IEvent p src ty evd]
      (TPMEvent / tpmsteps.Measure: TPM2_PCR_Event), [IExtend p src a] (bare
      TPMExtend: TPM2_PCR_Extend), [ILogAdd p a digest ty evd] (bare
      TPMEventLogAdd), [IPCR0Data refs1 refs256] (intelsteps.MeasurePCR0DATA), [IPanic]
      (commonsteps.Panic);
      a data source [src] is [DS (mkData refs converter)], an error or a panic;
    - [run_flow ref bytes_of H sim0 fl] runs the flow on a new state with a new TPM
      and returns the final state ([s_tpm]: the TPM with [pcrs], [cmdlog],
      [evlog]; [s_meas]: MeasuredData) and, per step, how each action ended;
    - [H alg msg] is the hash function, only [length (H a x) = hsize a] is assumed;
      [bytes_of r] is Reference.RawBytes (any function; [C01_bytes_are_refs_bytes]
      instantiates it with C11's model);
    - [EL.replay H log p a] = tpmeventlog.Replay, [EL.tpm_replay H entries p a loc]
      = tpm.EventLog.Replay(p, a, loc) (defined for PCR0 only: it panics otherwise,
      C12_tpmReplay_panics_iff); [to_parsed] / [to_entries] present the TPM's
      event log to them;
    - [reexec H fresh cmds] applies the commands one by one with [Command.Apply],
      [commands_apply] is [tpm.Commands.Apply] (stops at the first error);
    - [wf_flow ref bytes_of H l logged fl]: the class of flows of the property's
      quantifier.  The items of the flow, in order and however grouped in steps, are
      one startup at locality [l] ([startup_form]: InitTPM(l,true); or
      InitTPM(l,false) / TPMInit(l) alone; or one of these with a separate
      LogInit(l) step before or after) followed by measurements ([meas_body]),
      each of which extends and logs the same digest:
        TPM2_PCR_Event style: TPMEvent / tpmsteps.Measure with an event type other
          than EV_NO_ACTION -- or typed EV_NO_ACTION but leaving no trace ([traceless]:
          PCR index other than 0/1, or data that cannot be obtained).  The only
          TPMEvents outside the class are thus those typed EV_NO_ACTION whose extend
          the TPM accepts: exactly the flows of C01_evlog_replay_noaction_type_refuted;
        TPM2_PCR_Extend style: TPMExtend of data whose converted bytes are a digest
          [dg] of the bank's size into PCR 0 or 1, directly followed by
          TPMEventLogAdd of the same [dg] (event type other than EV_NO_ACTION);
        the PCR0_DATA pair with readable references;
      Panic steps and further TPMInit / InitTPM(_, false) items (refused: the TPM
      is already initialised), which do nothing to PCRs and event log, may be
      interspersed.  Measurements may fail (data source error or panic,
      unreadable reference, PCR index other than 0/1): they then leave no trace
      in PCRs or event log.

    - a boot may run on a TPM object that served earlier boots: [reuse] says how the
      object was obtained ([RNew] NewTPM(); the object of the earlier boots after
      [RReset] Reset(), [RResetNoInit] DoNotUse_ResetNoInit(), [RResetNoInitAlgos]
      DoNotUse_ResetNoInit() + SupportedAlgos restored, as pcrbruteforcer does);
      [recycle H prev r] is the recycled object, [boot_start r] the state the boot
      starts from, [run_boots] a session of boots on one object (section 5); one
      level lower, [grun_boots] (Model/BootSimGen.v) is the same session on the
      buffer-level TPM of Model/TPMSlices.v (C02), where the PCR bytes of the
      earlier boots physically remain in the arrays the next boot re-uses;
    - [logged_flow ref bytes_of H l fl]: every extend is logged.  The items, in
      order and however grouped in steps: before the startup anything that cannot
      touch a PCR ([pre_item]: LogInit, EV_NO_ACTION entries, Panic, and TPMEvent /
      TPMExtend, which a TPM that was not started refuses); the startup TPMInit(l) /
      InitTPM(l, withLog); then ([logged_body]) the measurements of [wf_flow]
      (extend+log of the same bytes, of any length for the TPMExtend/TPMEventLogAdd
      pair) and, in any order and number, LogInit at any locality, further
      InitTPM(_, _), bare TPMEventLogAdd of EV_NO_ACTION entries.  Every [wf_flow] is
      a [logged_flow]; so is InitTPM(l,false); Measure; LogInit(l); Measure.

    - the ledger (Model/BootSimLedger.v, section 7): [flow_ledger al started fl] lists, per
      executed step and action, the commands the action sends ([al_cmds]), whether it
      returns nil ([al_ok]) and what it adds to MeasuredData ([al_meas]) -- a function of
      the items, of SupportedAlgos [al] and of whether the TPM was started, without any
      TPM state; [led_cmds] / [led_meas] / [led_issues] / [led_tagged] flatten it;
      [run_flow_tagged] is the run that also keeps, beside every command, the coordinates
      (executed step, action of the step) of the action that caused it (what
      TPM.TPMExecute records as CauseCoordinates); [answers r fl] are the answers the TPM
      gave to the commands of the log while the flow ran;
    - data sources (Model/BootSimSrc.v, section 8): [src_data P s] is DataSource.Data for
      StaticData / Bytes / MemRanges / Concat (and [SReported] for sources whose lookup is
      third-party), [P] the platform (is there a BIOS image; how Bytes and MemRanges make
      their reference; which bytes a reference forces); [resolve_flow P fl] is the flow of
      sections 1-7 for a flow whose measurements name their source.

    Naming: [_partial] = the statement carries a hypothesis the property text
    does not have (said in the comment above it); [_refuted] = closed witness that
    the statement without that hypothesis is false of the faithful model. *)
From CSS Require Import Lib.Base Model.TPM Proofs.TPM Model.BootSim Proofs.BootSim.
From CSS Require Import Model.TPMSlices Proofs.TPMSlices Model.BootSimGen Proofs.BootSimSlices.
From CSS Require Import Model.BootSimObjs Proofs.BootSimObjs.
From CSS Require Import Model.BootSimLedger Proofs.BootSimLedger Model.BootSimSrc Proofs.BootSimSrc.
From CSS Require Model.Ranges.
Module RG := CSS.Model.Ranges.

(** * 1. Command log *)

(** Re-executing the recorded command log on a new TPM gives the same PCR bank
    values (all of them: the whole [pcrs] table) and the same event log — for
    every flow at all, failing actions included.  Through TPMExecute the whole
    TPM object is rebuilt, command log included. *)
Theorem C01_cmdlog_replay : forall ref bytes_of H fl,
  let t := s_tpm (fst (run_flow ref bytes_of H sim0 fl)) in
  run H fresh (cmdlog t) = t /\
  pcrs (reexec H fresh (cmdlog t)) = pcrs t /\ evlog (reexec H fresh (cmdlog t)) = evlog t.
Proof.
  exact (fun ref bytes_of H fl =>
    conj (cmdlog_replay_exact ref bytes_of H fl) (cmdlog_replay ref bytes_of H fl)).
Qed.
Print Assumptions C01_cmdlog_replay.

(** [tpm.Commands.Apply] (the batch routine; it gives up at the first command
    that returns an error) reproduces them for the flows that ran without a step
    issue.  PARTIAL: the hypothesis [no_issues] is not in the property text; the
    command log also records the commands that failed, and ... *)
Theorem C01_cmdlog_apply_partial : forall ref bytes_of H fl,
  let t := s_tpm (fst (run_flow ref bytes_of H sim0 fl)) in
  no_issues (snd (run_flow ref bytes_of H sim0 fl)) ->
  exists t', commands_apply H fresh (cmdlog t) = (t', Ok tt) /\ pcrs t' = pcrs t /\ evlog t' = evlog t.
Proof. exact cmdlog_apply. Qed.
Print Assumptions C01_cmdlog_apply_partial.

(** ... on such a log Commands.Apply does not get through: after InitTPM, a
    second TPMInit (refused, but logged) and a measurement, it stops at the second
    TPMInit and the measurement is never re-executed (re-executing command by
    command, C01_cmdlog_replay, is not affected). *)
Theorem C01_cmdlog_apply_refuted :
  exists t' e, commands_apply toy_hash fresh (cmdlog (toy_run fl_double_init)) = (t', Err e) /\
               pcrs t' <> pcrs (toy_run fl_double_init).
Proof. exact commands_apply_stops. Qed.
Print Assumptions C01_cmdlog_apply_refuted.

(** EXACTLY when it does.  [tpm.Commands.Apply] on the recorded command log of any boot
    (any flow, new or recycled TPM object, no hypothesis on the hash) returns nil if
    and only if the TPM refused none of the recorded commands while the flow ran; it
    then reproduces all PCR bank values and the event log.  Step issues that sent no
    command (a data source that failed, data that cannot be read, Panic steps) do
    not matter: [no_issues] of C01_cmdlog_apply_partial is sufficient, not necessary
    (Example below).  This is the full form of C01_cmdlog_apply_partial /
    C01_cmdlog_apply_any_boot_partial, which stay for their simpler hypothesis; what
    the property text says without any hypothesis is false of the code
    (C01_cmdlog_apply_refuted) because the command log also records refused commands. *)
Theorem C01_cmdlog_apply_iff : forall ref bytes_of H r fl,
  let t := s_tpm (fst (run_flow ref bytes_of H (boot_start r) fl)) in
  ((exists t', commands_apply H fresh (cmdlog t) = (t', Ok tt)) <-> Forall ok (answers ref bytes_of H r fl)) /\
  (forall t', commands_apply H fresh (cmdlog t) = (t', Ok tt) -> pcrs t' = pcrs t /\ evlog t' = evlog t).
Proof. exact cmdlog_apply_iff. Qed.
Print Assumptions C01_cmdlog_apply_iff.

(** ... and otherwise it stops at the FIRST refused command, returns that command's
    error, and leaves the new TPM with the PCR values and the event log of the
    commands before it: nothing after it is re-executed. *)
Theorem C01_cmdlog_apply_stops_at_first_refused : forall ref bytes_of H r fl pre c post,
  let t := s_tpm (fst (run_flow ref bytes_of H (boot_start r) fl)) in
  cmdlog t = pre ++ c :: post ->
  Forall ok (results H fresh pre) ->
  snd (step H (run H fresh pre) c) <> Ok tt ->
  exists t', commands_apply H fresh (cmdlog t) = (t', snd (step H (run H fresh pre) c)) /\
             pcrs t' = pcrs (reexec H fresh pre) /\ evlog t' = evlog (reexec H fresh pre).
Proof. exact cmdlog_apply_stops. Qed.
Print Assumptions C01_cmdlog_apply_stops_at_first_refused.

(** a flow with step issues (a source that fails, a Panic step) none of whose commands
    was refused: [no_issues] is false, Commands.Apply reproduces the TPM all the same;
    and the premises of C01_cmdlog_apply_stops_at_first_refused are met by
    [fl_double_init] (the second TPMInit is the refused command) *)
Example C01_cmdlog_apply_iff_needs_less :
  let fl := [[IInitTPM 3 true]; [IEvent 0 DSErr 1 None; IPanic]; [IEvent 0 toy_data 1 None]] in
  ~ no_issues (snd (run_flow (list Z) lit_bytes toy_hash sim0 fl)) /\
  Forall ok (answers (list Z) lit_bytes toy_hash RNew fl) /\
  exists t', commands_apply toy_hash fresh (cmdlog (toy_run fl)) = (t', Ok tt) /\ pcrs t' = pcrs (toy_run fl).
Proof.
  cbv zeta. split; [|split].
  - vm_compute. intros F. inversion F as [|? ? _ F1]; subst. inversion F1 as [|? ? F2 _]; subst.
    inversion F2 as [|? ? F3 _]; subst. discriminate F3.
  - vm_compute. repeat constructor.
  - eexists. split; vm_compute; reflexivity.
Qed.

Example C01_cmdlog_apply_stops_premises :
  exists pre c post,
    cmdlog (toy_run fl_double_init) = pre ++ c :: post /\ Forall ok (results toy_hash fresh pre) /\
    snd (step toy_hash (run toy_hash fresh pre) c) <> Ok tt /\ post <> [].
Proof.
  exists [Startup 0], (Startup 0). eexists. split; [vm_compute; reflexivity|].
  split; [vm_compute; repeat constructor|]. split; [vm_compute; discriminate|discriminate].
Qed.

(** * 2. Event log, the routine that knows only the log (tpmeventlog.Replay) *)

(** Both banks, both PCRs, every locality; startup logged, or at locality 0 (the
    restriction the property text itself makes for this routine).
    PARTIAL only in this: [wf_flow] excludes the TPMEvents typed EV_NO_ACTION whose
    extend the TPM accepts (readable data into PCR 0 or 1; a TPMEvent typed
    EV_NO_ACTION that leaves no trace -- other PCR index, failing source, unreadable
    data -- is inside: Example C01_wf_flow_traceless_noaction), which the property
    text ("arbitrary" measurements) does not.  For exactly those the statement is
    false of the code (finding C01-noaction-typed-event-extended, refuted statement
    below: such an event is extended but both replays skip / reject its entry), so
    the missing clause cannot be had for the code as it is; it would hold once
    TPMEvent.Apply does not extend EV_NO_ACTION events (or the replays fold them).
    The rest of [wf_flow] is the property's class of flows: one TPM startup, then
    measurements that extend and log; the three witnesses after it show that a
    flow which extends without logging, logs without extending, or starts at an
    unlogged non-zero locality is rightly outside. *)
Theorem C01_evlog_replay_partial : forall ref bytes_of H,
  (forall a x, length (H a x) = hsize a) ->
  forall fl l logged p a,
  wf_flow ref bytes_of H l logged fl ->
  logged = true \/ (logged = false /\ l = 0) ->
  (p = 0 \/ p = 1) -> is_supported a = true ->
  exists v, get (pcrs (s_tpm (fst (run_flow ref bytes_of H sim0 fl)))) p a = Ok v /\
            EL.replay H (to_parsed (evlog (s_tpm (fst (run_flow ref bytes_of H sim0 fl))))) p a = Ok v.
Proof. exact evlog_replay. Qed.
Print Assumptions C01_evlog_replay_partial.

(** What is outside the class.  A bare TPMExtend has no log entry: PCR0 differs
    from both replays ... *)
Theorem C01_evlog_replay_bare_extend_refuted :
  exists v v', get (pcrs (toy_run fl_bare_extend)) 0 ALG_SHA1 = Ok v /\
               EL.replay toy_hash (to_parsed (evlog (toy_run fl_bare_extend))) 0 ALG_SHA1 = Ok v' /\
               EL.tpm_replay toy_hash (to_entries (evlog (toy_run fl_bare_extend))) 0 ALG_SHA1 0 = Ok v' /\
               v <> v'.
Proof. exact bare_extend_differs. Qed.
Print Assumptions C01_evlog_replay_bare_extend_refuted.

(** ... a bare TPMEventLogAdd has no extend ... *)
Theorem C01_evlog_replay_log_only_refuted :
  exists v v', get (pcrs (toy_run fl_log_only)) 0 ALG_SHA1 = Ok v /\
               EL.replay toy_hash (to_parsed (evlog (toy_run fl_log_only))) 0 ALG_SHA1 = Ok v' /\ v <> v'.
Proof. exact log_only_differs. Qed.
Print Assumptions C01_evlog_replay_log_only_refuted.

(** ... a TPMEvent of type EV_NO_ACTION (InitTPM(0, false), then
    tpmsteps.Measure(0 | 1, EV_NO_ACTION, data); flows.AMDGenoaLocality0V2 has such
    a step) is extended into the PCR by TPMEvent.Apply, but tpm.EventLog.Replay
    skips its log entry and tpmeventlog.Replay rejects the log (it accepts an
    EV_NO_ACTION entry only as the startup-locality entry): neither replay of the
    simulator's own log gives the PCR value.  Known finding
    C01-noaction-typed-event-extended ... *)
Theorem C01_evlog_replay_noaction_type_refuted :
  exists v0 v1,
    get (pcrs (toy_run fl_noaction_type)) 0 ALG_SHA1 = Ok v0 /\
    get (pcrs (toy_run fl_noaction_type)) 1 ALG_SHA1 = Ok v1 /\
    EL.tpm_replay toy_hash (to_entries (evlog (toy_run fl_noaction_type))) 0 ALG_SHA1 0 <> Ok v0 /\
    EL.replay toy_hash (to_parsed (evlog (toy_run fl_noaction_type))) 0 ALG_SHA1 <> Ok v0 /\
    EL.replay toy_hash (to_parsed (evlog (toy_run fl_noaction_type))) 1 ALG_SHA1 <> Ok v1.
Proof. exact noaction_type_differs. Qed.
Print Assumptions C01_evlog_replay_noaction_type_refuted.

(** ... a startup at locality 3 that is not logged (the case the property excludes) ... *)
Theorem C01_evlog_replay_unlogged_locality_refuted :
  exists v v', get (pcrs (toy_run fl_unlogged_3)) 0 ALG_SHA1 = Ok v /\
               EL.replay toy_hash (to_parsed (evlog (toy_run fl_unlogged_3))) 0 ALG_SHA1 = Ok v' /\ v <> v'.
Proof. exact unlogged_locality_differs. Qed.
Print Assumptions C01_evlog_replay_unlogged_locality_refuted.

(** A logged startup at locality 200 replays (fixed in /repo: LogInit used to
    format the locality with "%c", two UTF-8 bytes from 128 on, and ParseLocality
    rejected the entry the simulator itself emitted). *)
Example C01_evlog_replay_locality_200 :
  exists v, get (pcrs (toy_run fl_locality_200)) 0 ALG_SHA1 = Ok v /\
            EL.replay toy_hash (to_parsed (evlog (toy_run fl_locality_200))) 0 ALG_SHA1 = Ok v.
Proof. exact locality_200_replays. Qed.

(** * 3. Event log, the in-simulator routine seeded with the startup locality *)

(** tpm.EventLog.Replay(0, a, l): every locality, logged startup or not (the
    EV_NO_ACTION entries are skipped), both banks; PCR0 is the only PCR it accepts.
    PARTIAL as C01_evlog_replay_partial (event types other than EV_NO_ACTION);
    C01_evlog_replay_bare_extend_refuted covers this routine as well. *)
Theorem C01_tpmReplay_partial : forall ref bytes_of H,
  (forall a x, length (H a x) = hsize a) ->
  forall fl l logged a,
  wf_flow ref bytes_of H l logged fl -> is_supported a = true ->
  exists v, get (pcrs (s_tpm (fst (run_flow ref bytes_of H sim0 fl)))) 0 a = Ok v /\
            EL.tpm_replay H (to_entries (evlog (s_tpm (fst (run_flow ref bytes_of H sim0 fl))))) 0 a l = Ok v.
Proof. exact tpm_replay_eq. Qed.
Print Assumptions C01_tpmReplay_partial.

(** The same on EVERY flow in which every extend is logged ([logged_flow]: the
    startup entries of LogInit and other EV_NO_ACTION entries may be anywhere --
    the event log may be set up later, or earlier, than the TPM --, at any
    locality, in any number, or absent), on every boot of a session ([r]: new or
    recycled TPM object).  EV_NO_ACTION entries are informational: the routine
    must fold none of them and take nothing from them.  Subsumes
    C01_tpmReplay_partial ([C01_wf_flow_is_logged_flow]); PARTIAL in the same
    respect only (TPMEvents typed EV_NO_ACTION). *)
Theorem C01_tpmReplay_every_extend_logged_partial : forall ref bytes_of H,
  (forall a x, length (H a x) = hsize a) ->
  forall r fl l a,
  logged_flow ref bytes_of H l fl -> is_supported a = true ->
  exists v, get (pcrs (s_tpm (fst (run_flow ref bytes_of H (boot_start r) fl)))) 0 a = Ok v /\
            EL.tpm_replay H (to_entries (evlog (s_tpm (fst (run_flow ref bytes_of H (boot_start r) fl))))) 0 a l = Ok v.
Proof. exact tpm_replay_logged. Qed.
Print Assumptions C01_tpmReplay_every_extend_logged_partial.

Theorem C01_wf_flow_is_logged_flow : forall ref bytes_of H l logged fl,
  wf_flow ref bytes_of H l logged fl -> logged_flow ref bytes_of H l fl.
Proof. exact wf_flow_logged. Qed.
Print Assumptions C01_wf_flow_is_logged_flow.

(** InitTPM(3,false); Measure(PCR0); LogInit(3); Measure(PCR0); LogInit(9) and a bare
    EV_NO_ACTION entry: a [logged_flow] that is no [wf_flow]; tpm.EventLog.Replay(0,
    SHA1, 3) gives PCR0 (not the startup value).  The routine that knows only the
    log is rightly not claimed here: it rejects a log whose startup entry follows
    a measurement of the same bank ('already initialized'). *)
Example C01_logged_flow_satisfiable : logged_flow (list Z) lit_bytes toy_hash 3 fl_late_loginit.
Proof. exact late_loginit_logged. Qed.

Theorem C01_evlog_replay_late_loginit_refuted :
  exists v, get (pcrs (toy_run fl_late_loginit)) 0 ALG_SHA1 = Ok v /\
            EL.tpm_replay toy_hash (to_entries (evlog (toy_run fl_late_loginit))) 0 ALG_SHA1 3 = Ok v /\
            v <> repeat 0 19 ++ [3] /\
            (forall v', EL.replay toy_hash (to_parsed (evlog (toy_run fl_late_loginit))) 0 ALG_SHA1 <> Ok v').
Proof. exact late_loginit_values. Qed.
Print Assumptions C01_evlog_replay_late_loginit_refuted.

(** * 4. Digests *)

(** Every command in the command log was issued by an item of the flow, and its
    digest is what [item_cmd] says: for TPMEvent, [H a (convert (concat bytes))]
    in BOTH the extend and the log-add, for every bank; for the PCR0_DATA pair
    [H a (concat bytes)] in both; for a bare TPMExtend the converted bytes
    themselves; [bytes] being the bytes of the references in reference order
    ([denotes]).  For every flow, failing actions included. *)
Theorem C01_digest_is_hash_of_bytes : forall ref bytes_of H fl c,
  In c (cmdlog (s_tpm (fst (run_flow ref bytes_of H sim0 fl)))) ->
  exists it, In it (concat fl) /\
  match it with
  | IInit l => c = Startup l
  | IInitTPM l wl => c = Startup l \/ (wl = true /\ startup_logadd l c)
  | ILogInit l => startup_logadd l c
  | IEvent p src ty evd =>
      exists d raw a, src = DS d /\ denotes ref bytes_of (d_refs d) raw /\ In a supported /\
      (c = Extend p a (H a (convert H (d_conv d) raw)) \/
       c = LogAdd p a (H a (convert H (d_conv d) raw)) ty evd)
  | IExtend p src a =>
      exists d raw, src = DS d /\ denotes ref bytes_of (d_refs d) raw /\
      c = Extend p a (convert H (d_conv d) raw)
  | ILogAdd p a dg ty evd => c = LogAdd p a dg ty evd
  | IPCR0Data r1 r256 =>
      exists a rs raw, ((a = ALG_SHA1 /\ r1 = Some rs) \/ (a = ALG_SHA256 /\ r256 = Some rs)) /\
      denotes ref bytes_of rs raw /\
      (c = Extend 0 a (H a raw) \/
       c = LogAdd 0 a (H a raw) EV_S_CRTM_CONTENTS (Some (pcr0_data_descr a)))
  | IPanic => False
  end.
Proof. exact digest_is_hash_of_bytes. Qed.
Print Assumptions C01_digest_is_hash_of_bytes.

(** the same for the entries of the event log *)
Theorem C01_evlog_digest_is_hash_of_bytes : forall ref bytes_of H fl p a dg ty evd,
  In (EV p a dg ty evd) (evlog (s_tpm (fst (run_flow ref bytes_of H sim0 fl)))) ->
  exists it, In it (concat fl) /\ item_cmd ref bytes_of H it (LogAdd p a dg ty evd).
Proof. exact evlog_digest_is_hash_of_bytes. Qed.
Print Assumptions C01_evlog_digest_is_hash_of_bytes.

(** "the bytes the references denote, concatenated in reference order" *)
Theorem C01_denotes_is_concat : forall ref bytes_of rs b,
  denotes ref bytes_of rs b <->
  exists bs, Forall2 (fun r x => bytes_of r = Ok x) rs bs /\ b = concat bs.
Proof. exact (fun ref bytes_of rs b => conj (fun x => x) (fun x => x)). Qed.
Print Assumptions C01_denotes_is_concat.

(** ... and with C11's model of Reference.RawBytes (ranges of one reference
    sorted and merged, resolved by its mapper, read from its artifact) they are
    what References.RawBytes returns. *)
Theorem C01_bytes_are_refs_bytes : forall rs b,
  denotes RF.ref RF.ref_rawbytes rs b <-> RF.refs_rawbytes rs = Ok b.
Proof. exact denotes_refs. Qed.
Print Assumptions C01_bytes_are_refs_bytes.

(** * 5. Boots on a TPM object that served earlier boots *)

(** The object a boot starts on does not depend on what the earlier boots left
    in it, and every boot of a session is the boot of its flow from [boot_start]
    (= [sim0], a new TPM, unless the object was recycled with
    DoNotUse_ResetNoInit() alone: then SupportedAlgos is empty and LogInit writes
    nothing). *)
Theorem C01_recycled_tpm_boots : forall ref bytes_of H prev,
  (forall r, recycle H prev r = start_of r) /\
  (forall bs, run_boots ref bytes_of H prev bs =
              map (fun b => run_flow ref bytes_of H (boot_start (fst b)) (snd b)) bs) /\
  (forall r, r <> RResetNoInit -> @boot_start ref r = sim0).
Proof.
  intros ref bytes_of H prev. split; [exact (recycle_start H prev)|].
  split; [intros bs; exact (run_boots_each ref bytes_of H bs prev)|].
  intros r Hr. destruct r; try reflexivity. contradiction.
Qed.
Print Assumptions C01_recycled_tpm_boots.

(** Buffer level.  A session on ONE buffer-level TPM object (Model/TPMSlices.v:
    explicit backing arrays; Reset / DoNotUse_ResetNoInit re-slice to [:0] and
    keep the arrays with the old PCR bytes, CommandInit.Apply re-slices them to
    their capacity and zeroes them in place, CommandExtend.Apply hashes in
    place), starting from ANY state [x0] the object can be in ([swf]: C02's slice
    invariant, which holds of a new object and after any commands and resets,
    [C01_recycled_object_reachable]): after every boot the object shows exactly
    the TPM of that boot's flow run from [boot_start] (PCR values, event log,
    command log, SupportedAlgos), with the same MeasuredData and the same step
    issues.  So nothing of the earlier boots -- the PCR1 value they ended with,
    for one -- can reach a later boot, and every theorem above holds of every
    boot of a session. *)
Theorem C01_recycled_object_boots : forall ref bytes_of H,
  (forall a x, length (H a x) = hsize a) ->
  forall grow x0 bs,
  swf x0 ->
  Forall2 (fun gres b =>
             let res := run_flow ref bytes_of H (boot_start (fst b)) (snd b) in
             abs (g_tpm (fst gres)) = s_tpm (fst res) /\
             g_meas (fst gres) = s_meas (fst res) /\
             snd gres = snd res)
          (grun_boots ref bytes_of H sstate (sstep H grow) salgos snew sset_algos x0 bs) bs.
Proof. exact recycled_object_boots. Qed.
Print Assumptions C01_recycled_object_boots.

Theorem C01_recycled_object_reachable : forall H,
  (forall a x, length (H a x) = hsize a) -> forall grow h, swf (srun H grow snew h).
Proof. exact reachable_swf. Qed.
Print Assumptions C01_recycled_object_reachable.

(** Section 1 for every boot of a session: the command log of the boot, executed
    again on the recycled object, rebuilds it; re-executed command by command on
    a NEW TPM it gives the same PCR bank values and event log; ... *)
Theorem C01_cmdlog_replay_any_boot : forall ref bytes_of H r fl,
  let t := s_tpm (fst (run_flow ref bytes_of H (boot_start r) fl)) in
  run H (start_of r) (cmdlog t) = t /\
  pcrs (reexec H fresh (cmdlog t)) = pcrs t /\ evlog (reexec H fresh (cmdlog t)) = evlog t.
Proof. exact cmdlog_replay_boot. Qed.
Print Assumptions C01_cmdlog_replay_any_boot.

(** ... tpm.Commands.Apply on a new TPM for the boots without step issues (PARTIAL as
    C01_cmdlog_apply_partial). *)
Theorem C01_cmdlog_apply_any_boot_partial : forall ref bytes_of H r fl,
  let t := s_tpm (fst (run_flow ref bytes_of H (boot_start r) fl)) in
  no_issues (snd (run_flow ref bytes_of H (boot_start r) fl)) ->
  exists t', commands_apply H fresh (cmdlog t) = (t', Ok tt) /\ pcrs t' = pcrs t /\ evlog t' = evlog t.
Proof. exact cmdlog_apply_boot. Qed.
Print Assumptions C01_cmdlog_apply_any_boot_partial.

(** Section 2 for every boot whose object has its SupportedAlgos (PARTIAL as
    C01_evlog_replay_partial). *)
Theorem C01_evlog_replay_any_boot_partial : forall ref bytes_of H,
  (forall a x, length (H a x) = hsize a) ->
  forall r fl l logged p a,
  r <> RResetNoInit ->
  wf_flow ref bytes_of H l logged fl ->
  logged = true \/ (logged = false /\ l = 0) ->
  (p = 0 \/ p = 1) -> is_supported a = true ->
  exists v, get (pcrs (s_tpm (fst (run_flow ref bytes_of H (boot_start r) fl)))) p a = Ok v /\
            EL.replay H (to_parsed (evlog (s_tpm (fst (run_flow ref bytes_of H (boot_start r) fl))))) p a = Ok v.
Proof. exact evlog_replay_boot. Qed.
Print Assumptions C01_evlog_replay_any_boot_partial.

(** Section 4 for every boot: the commands and log entries of a boot are those of
    the items of ITS flow (nothing of an earlier boot's logs survives). *)
Theorem C01_digest_is_hash_of_bytes_any_boot : forall ref bytes_of H r fl c,
  In c (cmdlog (s_tpm (fst (run_flow ref bytes_of H (boot_start r) fl)))) ->
  exists it, In it (concat fl) /\ item_cmd ref bytes_of H it c.
Proof. exact digest_is_hash_of_bytes_boot. Qed.
Print Assumptions C01_digest_is_hash_of_bytes_any_boot.

Theorem C01_evlog_digest_is_hash_of_bytes_any_boot : forall ref bytes_of H r fl p a dg ty evd,
  In (EV p a dg ty evd) (evlog (s_tpm (fst (run_flow ref bytes_of H (boot_start r) fl)))) ->
  exists it, In it (concat fl) /\ item_cmd ref bytes_of H it (LogAdd p a dg ty evd).
Proof. exact evlog_digest_is_hash_of_bytes_boot. Qed.
Print Assumptions C01_evlog_digest_is_hash_of_bytes_any_boot.

(** * 6. Converter objects held by several measurements; digests read after the flow

    One level below sections 1-5 (Model/BootSimObjs.v): a converter is an OBJECT
    (dataconverters.Hasher: a hash.Hash with its running state) that any number of
    measurements, of this boot and of earlier ones, may hold -- a data object names
    its converter by its number in the pool [pl] --; a digest is a slice of an array
    in memory [hp], and CommandLog / EventLog keep the slices they were given.
    [oboot r pl hp fl] is the boot; [read_cdig] / [read_edig] / [read_cmdlog] /
    [read_evlog] are what somebody who reads the logs AFTER the boot finds there;
    [rflow (map hs_alg pl) fl] is the flow as sections 1-5 see it (the algorithm of
    the object in place of its number). *)

(** For converter objects in any state (whatever earlier conversions or boots left
    in them), shared by the measurements in any way, and any memory around: the
    boot does what Model/BootSim.v says -- same TPM (PCRs, command log, event log
    with every digest as it was extended), MeasuredData, step issues -- and the
    Digest fields read after the boot are those digests.  The objects keep their
    algorithms and no array that existed is written. *)
Theorem C01_shared_converter_objects : forall ref bytes_of H r pl hp fl,
  let o := oboot ref bytes_of H r pl hp fl in
  let v := run_flow ref bytes_of H (boot_start r) (rflow ref (map hs_alg pl) fl) in
  o_sim (fst o) = fst v /\ snd o = snd v /\
  read_cdig (fst o) = digests_of (cmdlog (s_tpm (fst v))) /\
  read_edig (fst o) = map ev_digest (evlog (s_tpm (fst v))) /\
  map hs_alg (o_pool (fst o)) = map hs_alg pl /\ hext hp (o_heap (fst o)).
Proof. exact oboot_is_boot. Qed.
Print Assumptions C01_shared_converter_objects.

(** Hence the command log and the event log AS READ after the boot are the logs
    sections 1-5 speak about ... *)
Theorem C01_logs_read_after_boot : forall ref bytes_of H r pl hp fl,
  let o := fst (oboot ref bytes_of H r pl hp fl) in
  let t := s_tpm (fst (run_flow ref bytes_of H (boot_start r) (rflow ref (map hs_alg pl) fl))) in
  s_tpm (o_sim o) = t /\ read_cmdlog o = cmdlog t /\ read_evlog o = evlog t.
Proof. exact read_logs_are_logs. Qed.
Print Assumptions C01_logs_read_after_boot.

(** ... re-executing the command log as read after the boot rebuilds the TPM ... *)
Theorem C01_cmdlog_replay_shared_converters : forall ref bytes_of H r pl hp fl,
  let o := fst (oboot ref bytes_of H r pl hp fl) in
  let t := s_tpm (o_sim o) in
  run H (start_of r) (read_cmdlog o) = t /\
  pcrs (reexec H fresh (read_cmdlog o)) = pcrs t /\ evlog (reexec H fresh (read_cmdlog o)) = evlog t.
Proof. exact read_cmdlog_replay. Qed.
Print Assumptions C01_cmdlog_replay_shared_converters.

(** ... and every command read there was issued by an item of the flow and carries,
    for a measurement, the hash of exactly the bytes its references denote. *)
Theorem C01_digest_is_hash_of_bytes_shared_converters : forall ref bytes_of H r pl hp fl c,
  In c (read_cmdlog (fst (oboot ref bytes_of H r pl hp fl))) ->
  exists it, In it (concat (rflow ref (map hs_alg pl) fl)) /\ item_cmd ref bytes_of H it c.
Proof. exact read_digest_is_hash_of_bytes. Qed.
Print Assumptions C01_digest_is_hash_of_bytes_shared_converters.

(** The digests a boot recorded still read the same after any later boot that goes
    on with the same converter objects and the same memory (a caller that kept
    CommandLog.Commands() of the earlier boot to re-execute it later). *)
Theorem C01_recorded_digests_survive_later_boots : forall ref bytes_of H r pl hp fl r' fl',
  let o := fst (oboot ref bytes_of H r pl hp fl) in
  let o' := fst (oboot ref bytes_of H r' (o_pool o) (o_heap o) fl') in
  map (deref (o_heap o')) (o_cdig o) = digests_of (cmdlog (s_tpm (o_sim o))) /\
  map (deref (o_heap o')) (o_edig o) = map ev_digest (evlog (s_tpm (o_sim o))).
Proof. exact recorded_digests_survive. Qed.
Print Assumptions C01_recorded_digests_survive_later_boots.

(** What [Hasher.Convert] returns depends on the algorithm of the object and on the
    input only, not on what the object converted before, and is a new array. *)
Theorem C01_hasher_convert_independent : forall H hp h inp,
  hasher_convert H hp h inp = (hp ++ [H (hs_alg h) inp], mkHasher (hs_alg h) inp, length hp).
Proof. exact hasher_convert_spec. Qed.
Print Assumptions C01_hasher_convert_independent.

(** The statements above are not vacuous: for a Hasher that keeps its result buffer
    and returns it from every Convert (not the code; Model/BootSimObjs.v
    [rhasher_convert]) the array recorded for a first conversion reads, after a
    second one, as the digest of the second. *)
Example C01_buffer_keeping_hasher_overwrites :
  exists (H : Z -> list Z -> list Z) hp1 h1 a1 hp2 h2 a2,
    rhasher_convert H [] (mkRHasher 4 None) [1] = (hp1, h1, a1) /\
    rhasher_convert H hp1 h1 [2] = (hp2, h2, a2) /\
    deref hp1 a1 = H 4 [1] /\ deref hp2 a1 <> H 4 [1] /\ deref hp2 a1 = H 4 [2] /\ a1 = a2.
Proof. exact reusing_buffer_overwrites. Qed.

(** A concrete boot: ONE SHA1 Hasher object (left with some running state by an
    earlier conversion) converts the data of two TPM2_PCR_Extend-style measurements
    and of one TPM2_PCR_Event-style measurement; the digests read after the boot are
    the hashes of the respective data. *)
Example C01_shared_converter_example :
  let fl := [[IInitTPM 3 false];
             [IExtend 0 (DS (mkData [[1; 2]] (Some 0))) ALG_SHA1; ILogAdd 0 ALG_SHA1 (toy_hash 4 [1; 2]) 7 None];
             [IExtend 1 (DS (mkData [[5]; [6]] (Some 0))) ALG_SHA1; ILogAdd 1 ALG_SHA1 (toy_hash 4 [5; 6]) 7 None];
             [IEvent 0 (DS (mkData [[9]] (Some 0))) 1 None]] in
  let o := fst (oboot (list Z) lit_bytes toy_hash RNew [mkHasher 4 [7; 7; 7]] [] fl) in
  read_cdig o = [toy_hash 4 [1; 2]; toy_hash 4 [1; 2]; toy_hash 4 [5; 6]; toy_hash 4 [5; 6];
                 toy_hash 4 (toy_hash 4 [9]); toy_hash 4 (toy_hash 4 [9]);
                 toy_hash 11 (toy_hash 4 [9]); toy_hash 11 (toy_hash 4 [9])] /\
  map hs_state (o_pool o) = [[9]] /\ length (o_heap o) = 8%nat.
Proof. vm_compute. repeat split. Qed.

(** * 7. The command log is the ledger of the flow's items; causes

    Sections 1-6 say that what is in the logs is right (every command came from an item
    and carries the right digest) and that the logs agree with the PCRs.  This section
    says that the logs are COMPLETE and IN ORDER: on every boot (any flow, failing
    actions included; new or recycled TPM object) the command log is, command for
    command, what the items of the flow send -- TPMInit one init command whether or
    not the TPM accepts it; TPMEventLogAdd its entry; TPMExtend of readable data one
    extend of the converted bytes; TPMEvent of readable data, on a started TPM and
    PCR 0/1, extend and log-add of H(SHA1, bytes) then extend and log-add of
    H(SHA256, bytes), otherwise the one refused SHA1 extend; nothing for data that
    cannot be read, a failing source or a Panic --, the event log is the log-add
    commands of it in order, MeasuredData the data of exactly the measurement actions
    that returned nil, in order, and an issue is recorded for exactly the actions the
    ledger says fail.  The ledger never looks at a TPM state. *)
Theorem C01_boot_is_its_ledger : forall ref bytes_of H,
  (forall a x, length (H a x) = hsize a) ->
  forall r fl,
  let res := run_flow ref bytes_of H (boot_start r) fl in
  let t := s_tpm (fst res) in
  let L := flow_ledger ref bytes_of H (algos (start_of r)) false fl in
  cmdlog t = led_cmds L /\ evlog t = events_of (led_cmds L) /\
  s_meas (fst res) = led_meas L /\ map (map failed) (snd res) = led_issues L.
Proof. exact boot_is_ledger. Qed.
Print Assumptions C01_boot_is_its_ledger.

(** ... on every boot of a session on ONE TPM object ([run_boots], section 5), whatever
    the earlier boots were and however the object was recycled between them. *)
Theorem C01_session_is_its_ledgers : forall ref bytes_of H,
  (forall a x, length (H a x) = hsize a) ->
  forall bs prev,
  Forall2 (fun res b =>
             let L := flow_ledger ref bytes_of H (algos (start_of (fst b))) false (snd b) in
             cmdlog (s_tpm (fst res)) = led_cmds L /\ evlog (s_tpm (fst res)) = events_of (led_cmds L) /\
             s_meas (fst res) = led_meas L /\ map (map failed) (snd res) = led_issues L)
          (run_boots ref bytes_of H prev bs) bs.
Proof. exact session_is_ledgers. Qed.
Print Assumptions C01_session_is_its_ledgers.

(** The cause recorded beside every command.  The run that keeps, for every command,
    the coordinates of the action being applied when TPMExecute appended it is the run
    of sections 1-6; its command column is the command log; its coordinate column is the
    ledger's ... *)
Theorem C01_command_causes : forall ref bytes_of H,
  (forall a x, length (H a x) = hsize a) ->
  forall r fl,
  let res := run_flow_tagged ref bytes_of H (boot_start r) 0 fl in
  fst res = fst (run_flow ref bytes_of H (boot_start r) fl) /\
  snd res = led_tagged 0 (flow_ledger ref bytes_of H (algos (start_of r)) false fl) /\
  map snd (snd res) = cmdlog (s_tpm (fst (run_flow ref bytes_of H (boot_start r) fl))).
Proof. exact tagged_is_ledger. Qed.
Print Assumptions C01_command_causes.

(** ... and names the action that sent the command: step [i] of the flow compiles
    (against the SupportedAlgos the boot started with) to actions of which number [j]
    issues [c] ([act_cmd]: for a measurement, with the hash of the converted bytes). *)
Theorem C01_cause_is_the_sender : forall ref bytes_of H,
  (forall a x, length (H a x) = hsize a) ->
  forall r fl i j c,
  In (i, j, c) (snd (run_flow_tagged ref bytes_of H (boot_start r) 0 fl)) ->
  exists its acts a, nth_error fl i = Some its /\
    compile_step ref bytes_of H (start_of r) its = Ok acts /\ nth_error acts j = Some a /\
    act_cmd ref bytes_of H a c.
Proof. exact tagged_cause. Qed.
Print Assumptions C01_cause_is_the_sender.

(** The ledger of [example_flow] (defined below): 19 commands; the PCR-7 measurement
    leaves its one refused extend, no log entry and no MeasuredData; the refused second
    TPMInit leaves its command; causes in step/action order. *)
Example C01_ledger_example :
  let L := flow_ledger (list Z) lit_bytes toy_hash supported false
             [ [IInitTPM 3 true; IEvent 0 (DS (mkData [[1; 2; 3]; [4]] None)) 1 (Some [9])];
               [IEvent 7 (DS (mkData [[1; 2; 3]; [4]] None)) 1 None; IInit 0];
               [IEvent 1 DSErr 1 None; IPanic] ] in
  map fst (led_tagged 0 L) =
    [(0, 0); (0, 1); (0, 2); (0, 3); (0, 3); (0, 3); (0, 3); (1, 0); (1, 1)]%nat /\
  led_issues L = [[false; false; false; false]; [true; true]; [true; true]] /\
  length (led_meas L) = 1%nat /\
  nth 7 (led_cmds L) Reset = Extend 7 ALG_SHA1 (toy_hash ALG_SHA1 [1; 2; 3; 4]).
Proof. vm_compute. repeat split. Qed.

(** a concrete run with causes: InitTPM(3, true) and a measurement in ONE step (four
    actions: TPMInit, two startup entries, TPMEvent), then a measurement into PCR 7 and a
    refused TPMInit in the next: the coordinates beside the nine commands *)
Example C01_causes_example :
  let fl := [ [IInitTPM 3 true; IEvent 0 toy_data 1 (Some [9])]; [IEvent 7 toy_data 1 None; IInit 0] ] in
  let res := run_flow_tagged (list Z) lit_bytes toy_hash (boot_start RNew) 0 fl in
  map fst (snd res) = [(0, 0); (0, 1); (0, 2); (0, 3); (0, 3); (0, 3); (0, 3); (1, 0); (1, 1)]%nat /\
  In (1%nat, 0%nat, Extend 7 ALG_SHA1 (toy_hash ALG_SHA1 [1; 2; 3; 4])) (snd res) /\
  map snd (snd res) = cmdlog (toy_run fl).
Proof.
  cbv zeta. split; [vm_compute; reflexivity|]. split; [vm_compute; tauto|vm_compute; reflexivity].
Qed.

(** * 8. Data sources

    The measurements of sections 1-7 carry what DataSource.Data returned.  Here the
    source is part of the flow ([resolve_flow]).  Concat -- the only constructor that
    combines sources -- succeeds exactly when every sub-source succeeds with data that
    has neither forced bytes nor a converter, and then hands on the references of all
    of them in source order, without converter ... *)
Theorem C01_concat_source : forall ref (P : platform ref) l d,
  src_data ref P (SConcat l) = Ok d <->
  exists ds, Forall2 (fun s d' => src_data ref P s = Ok d') l ds /\ Forall (plain ref P) ds /\
             d = mkData (concat (map (@d_refs ref) ds)) None.
Proof. exact concat_data. Qed.
Print Assumptions C01_concat_source.

(** ... otherwise the FIRST sub-source that fails or is refused decides: its own error
    (or panic), "forced bytes", or "converter" ... *)
Theorem C01_concat_first_refusal : forall ref (P : platform ref) pre x post ds,
  Forall2 (fun s d => src_data ref P s = Ok d) pre ds -> Forall (plain ref P) ds ->
  (forall d, src_data ref P x = Ok d -> ~ plain ref P d) ->
  src_data ref P (SConcat (pre ++ x :: post)) = refusal ref P (src_data ref P x).
Proof. exact concat_first_refusal. Qed.
Print Assumptions C01_concat_first_refusal.

(** ... so that the bytes a Concat measurement covers are the bytes of its sub-sources,
    each as its own references denote them, concatenated in source order. *)
Theorem C01_concat_bytes : forall ref bytes_of (P : platform ref) l d raw,
  src_data ref P (SConcat l) = Ok d -> denotes ref bytes_of (d_refs d) raw ->
  d_conv d = None /\
  exists raws, Forall2 (fun s r => exists d', src_data ref P s = Ok d' /\ plain ref P d' /\
                                             denotes ref bytes_of (d_refs d') r) l raws /\
               raw = concat raws.
Proof. exact concat_bytes. Qed.
Print Assumptions C01_concat_bytes.

(** The digest clause for flows whose measurements name their source: every command of
    the command log of any boot was issued by an item of the flow, and for a
    measurement carries the hash of (the converter applied to) exactly the bytes the
    references of [src_data] of ITS source denote.  With C01_concat_bytes: for a Concat
    the hash of the sub-sources' bytes in order; with [C01_bytes_source]: for Bytes(b)
    the hash of [b]. *)
Theorem C01_digest_is_hash_of_source_bytes : forall ref bytes_of H (P : platform ref) r fl c,
  In c (cmdlog (s_tpm (fst (run_flow ref bytes_of H (boot_start r) (resolve_flow ref P fl))))) ->
  exists x, In x (concat fl) /\
  match x with
  | SEv p s ty evd =>
      exists d raw a, src_data ref P s = Ok d /\ denotes ref bytes_of (d_refs d) raw /\ In a supported /\
      (c = Extend p a (H a (convert H (d_conv d) raw)) \/
       c = LogAdd p a (H a (convert H (d_conv d) raw)) ty evd)
  | SEx p s a =>
      exists d raw, src_data ref P s = Ok d /\ denotes ref bytes_of (d_refs d) raw /\
      c = Extend p a (convert H (d_conv d) raw)
  | SI it => item_cmd ref bytes_of H it c
  end.
Proof. exact source_digest. Qed.
Print Assumptions C01_digest_is_hash_of_source_bytes.

(** Bytes(b) hands on ONE reference, without converter (none at all for a nil slice);
    MemRanges one reference into the image when the State has one, else an error; the
    bytes of a Bytes measurement are [b] whenever reading NewReference(b) gives [b]
    (C11's subject; Example below for C11's model). *)
Theorem C01_bytes_source : forall ref bytes_of (P : platform ref) b raw,
  src_data ref P (SBytes (Some b)) = Ok (mkData [p_bytes_ref P b] None) /\
  src_data ref P (SBytes None) = Ok (mkData [] None) /\
  (forall rs, src_data ref P (SMemRanges rs) =
              if p_image P then Ok (mkData [p_mem_ref P rs] None) else Err ERR_SOURCE) /\
  (denotes ref bytes_of [p_bytes_ref P b] raw -> bytes_of (p_bytes_ref P b) = Ok b -> raw = b).
Proof.
  intros ref bytes_of P b raw. split; [reflexivity|]. split; [reflexivity|]. split; [reflexivity|].
  exact (bytes_source_digest ref bytes_of P b raw).
Qed.
Print Assumptions C01_bytes_source.

(** the premises of this section are met by concrete values: a platform over literal
    references (a reference is its bytes, tagged "forced" or not); Concat of a
    MemRanges-like part, an EMPTY Bytes and a static part succeeds and covers the parts
    in order; with a non-empty Bytes, or a part with a converter, it is refused by that
    part, whatever follows. *)
Definition toy_plat : platform (bool * list Z) :=
  mkPlat true (fun b => (true, b)) (fun rs => (false, map fst rs))
         (fun r => if fst r then snd r else []).

Example C01_concat_example :
  let img := SMemRanges [(7, 1); (8, 1)] in
  let st := SStatic (mkData [(false, [5]); (false, [6])] None) in
  src_data _ toy_plat (SConcat [img; SBytes (Some []); st]) =
    Ok (mkData [(false, [7; 8]); (true, []); (false, [5]); (false, [6])] None) /\
  denotes _ (fun r => Ok (snd r)) [(false, [7; 8]); (true, []); (false, [5]); (false, [6])] [7; 8; 5; 6] /\
  src_data _ toy_plat (SConcat [img; SBytes (Some [1]); SReported DSPanic]) = Err ERR_FORCED /\
  src_data _ toy_plat (SConcat [SStatic (mkData [(false, [5])] (Some 4)); img]) = Err ERR_CONVERTER /\
  src_data _ toy_plat (SConcat [img; SReported DSPanic; SBytes (Some [1])]) = Panic /\
  src_data _ toy_plat (SConcat []) = Ok (mkData [] None).
Proof.
  cbv zeta. split; [reflexivity|]. split.
  - exists [[7; 8]; []; [5]; [6]]. split; [repeat constructor|reflexivity].
  - repeat split; reflexivity.
Qed.

(** a flow whose measurement names a Concat source: the extended digest is the hash of
    the sub-sources' bytes in order (the premise of C01_digest_is_hash_of_source_bytes) *)
Example C01_source_flow_example :
  let fl := [ [SI (IInitTPM 0 false)];
              [SEv 0 (SConcat [SMemRanges [(7, 1); (8, 1)]; SBytes (Some []);
                               SStatic (mkData [(false, [5]); (false, [6])] None)]) 1 None;
               SEv 1 (SConcat [SBytes (Some [1])]) 1 None] ] in
  let t := s_tpm (fst (run_flow _ (fun r => Ok (snd r)) toy_hash (boot_start RNew) (resolve_flow _ toy_plat fl))) in
  In (Extend 0 ALG_SHA1 (toy_hash ALG_SHA1 [7; 8; 5; 6])) (cmdlog t) /\ length (cmdlog t) = 5%nat.
Proof. cbv zeta. split; [vm_compute; tauto|vm_compute; reflexivity]. Qed.

(** reading the reference Bytes(b) makes gives [b] in C11's model of Reference.RawBytes
    (the premise of the last clause of C01_bytes_source) *)
Example C01_bytes_reference_reads_back :
  RF.ref_rawbytes (RF.mkRef (RF.mkArt 0 0 true [1; 2; 3]) RF.MNil [RG.mkR 0 3]) = Ok [1; 2; 3].
Proof. vm_compute. reflexivity. Qed.


(** * Examples: the hypotheses are satisfiable by non-trivial values *)

Example C01_toy_hash_length : forall a x, length (toy_hash a x) = hsize a.
Proof. exact toy_hash_length. Qed.

(** InitTPM(3, true) and a PCR0 measurement in ONE step, then the PCR0_DATA pair,
    a failing measurement (PCR 7), a PCR1 measurement with a Hasher converter, a
    refused second TPMInit, and a TPM2_PCR_Extend-style measurement: TPMExtend of
    the SHA256-converted bytes into PCR 1 and, in the next step, the log entry
    with the same digest *)
Definition example_flow : list (list (item (list Z))) :=
  [ [IInitTPM 3 true; IEvent 0 toy_data 1 (Some [9])];
    [IPCR0Data (Some [[1]; [2; 3]; [4]]) (Some [[1]; [2; 3]; [5; 6]])];
    [IEvent 7 toy_data 1 None; IEvent 1 (DS (mkData [[8; 8]] (Some ALG_SHA256))) 2147483658 None];
    [IInit 0; IExtend 1 (DS (mkData [[7]; [7; 7]] (Some ALG_SHA256))) ALG_SHA256];
    [ILogAdd 1 ALG_SHA256 (toy_hash ALG_SHA256 [7; 7; 7]) 13 (Some [1; 2])] ].

Example C01_wf_flow_satisfiable : wf_flow (list Z) lit_bytes toy_hash 3 true example_flow.
Proof.
  exists [IInitTPM 3 true]. eexists. split; [reflexivity|]. split; [constructor|].
  assert (R : forall rs, readable (list Z) lit_bytes (Some rs)).
  { intros rs. exists (concat rs). exists rs. split; [|reflexivity].
    induction rs; constructor; [reflexivity|assumption]. }
  apply MB_item; [left; unfold EV_NO_ACTION; discriminate|].
  apply MB_item; [cbn [meas_item]; split; apply R|].
  apply MB_item; [left; unfold EV_NO_ACTION; discriminate|].
  apply MB_item; [left; unfold EV_NO_ACTION; discriminate|].
  apply MB_item; [exact I|].
  apply MB_pair; [right; reflexivity|reflexivity|reflexivity|reflexivity|unfold EV_NO_ACTION; discriminate|].
  apply MB_nil.
Qed.

(** TPMEvents typed EV_NO_ACTION that leave no trace are inside [wf_flow]: into PCR 7
    (the TPM refuses the first extend), from a source that fails, of data that
    cannot be read *)
Example C01_wf_flow_traceless_noaction :
  wf_flow (list Z) (fun r => match r with [] => Panic | _ => Ok r end) toy_hash 0 false
    [ [IInitTPM 0 false];
      [IEvent 7 toy_data EV_NO_ACTION None; IEvent 0 DSErr EV_NO_ACTION None];
      [IEvent 1 (DS (mkData [[1]; []] None)) EV_NO_ACTION (Some [9]); IEvent 0 toy_data 1 None] ].
Proof.
  exists [IInitTPM 0 false]. eexists. split; [reflexivity|]. split; [constructor|].
  apply MB_item; [right; left; intros [X|X]; discriminate X|].
  apply MB_item; [right; right; intros d msg X; discriminate X|].
  apply MB_item; [right; right; intros d msg X; inversion X; subst d; vm_compute; discriminate|].
  apply MB_item; [left; unfold EV_NO_ACTION; discriminate|].
  apply MB_nil.
Qed.

Example C01_example_values :
  let t := toy_run example_flow in
  length (cmdlog t) = 19%nat /\ length (evlog t) = 9%nat /\
  get (pcrs t) 0 ALG_SHA1 = EL.replay toy_hash (to_parsed (evlog t)) 0 ALG_SHA1 /\
  get (pcrs t) 1 ALG_SHA256 = EL.replay toy_hash (to_parsed (evlog t)) 1 ALG_SHA256 /\
  get (pcrs t) 0 ALG_SHA256 = EL.tpm_replay toy_hash (to_entries (evlog t)) 0 ALG_SHA256 3 /\
  get (pcrs t) 0 ALG_SHA1 <> Ok (repeat 0 19 ++ [3]).
Proof.
  (* conjunct by conjunct: [repeat split] would try [eq_refl] on the equations by lazy conversion *)
  cbv zeta.
  split; [vm_compute; reflexivity|].
  split; [vm_compute; reflexivity|].
  split; [vm_compute; reflexivity|].
  split; [vm_compute; reflexivity|].
  split; [vm_compute; reflexivity|].
  vm_compute. discriminate.
Qed.

(** a flow with a failing action: [no_issues] is false for it, and is true for a clean one *)
Example C01_no_issues_satisfiable :
  no_issues (snd (run_flow (list Z) lit_bytes toy_hash sim0
                    [[IInitTPM 3 true]; [IEvent 0 toy_data 1 None]])) /\
  ~ no_issues (snd (run_flow (list Z) lit_bytes toy_hash sim0 example_flow)).
Proof.
  split.
  - vm_compute. repeat constructor.
  - vm_compute. intros F. inversion F as [|? ? _ F1]; subst. inversion F1 as [|? ? _ F2]; subst.
    inversion F2 as [|? ? F3 _]; subst. inversion F3 as [|? ? F4 _]; subst. discriminate F4.
Qed.
