(** C15 — parsers of untrusted platform data are total: value or error, never a
    panic, never a hang, never an allocation out of proportion to the input.
    This file holds only the property theorems, each closed by [exact], and
    examples showing that the hypotheses are satisfiable.

    Vocabulary (Model/Decoders.v, Proofs/Decoders.v):
    - a decoder is a reader program [r : rd A] over the input bytes with
      explicit results [ROk v s | RErr code s | RPanic | RFuel]; the state [s]
      counts reader operations ([s_steps], one per binary.Read / per line) and
      the bytes requested by length-prefixed [make]s and by the scratch buffers
      of binary.Read on slices ([s_alloc]);
    - [run r input] starts [r] on [input] with both counters at 0;
      [res_steps], [res_alloc] read the counters of the final state,
      [outcome_of] forgets the state;
    - [value_or_error x] := [x <> RPanic /\ x <> RFuel]: the Go function returned
      (a value or an error).  [RFuel] = a loop of the decoder ran longer than
      |input|+1 iterations, i.e. the model of "loops forever";
    - [faithful] is the code as it is; [fixes] switches the candidate repairs on:
      [fx_custom_min] (parsePolicyElementCustom rejects Size < 32), [fx_cap]
      (a count/size field larger than the bytes left in the reader is rejected
      before [make]); [all_fixed] has both, [fix_custom] only the first;
    - [txt_reg_table]: (offset, width, slices?) of the 16 registers.Read*
      functions in the order of ReadTXTRegisters; [read_reg_k d k] is the k-th.
    One model per decoder: parse_policy (tools.ParsePolicy), policy_data
    (ParsePolicyData), lookup_acm_size, acm_info (ACM.ParseACMInfo on the
    user area / serialised module), parse_txt_regs, parse_bios_data,
    read_acm_status, read_raw64_at (ReadACMPolicyStatusRaw, ReadBootStatusRaw),
    read_txt_registers / read_reg_k (pkg/registers), value_from_bytes,
    parse_registers (Registers.UnmarshalJSON after encoding/json),
    EventLog.parse_locality / parse_event_data, parse_sysfs_pcrs, local_caps
    (tpmdetection.local), bytes_range, decrypt_frame (DecryptPrivKey framing),
    pem_loop (the PEM block loop of parsePrivateKey / ReadPubKey over an
    abstract pem.Decode).

    Naming: [_partial] = needs the visible extra hypothesis, [_refuted] = closed
    witness on the faithful model (a finding of KNOWN_FINDINGS.json). *)
From CSS Require Import Lib.Base Model.Decoders.
From CSS Require Model.EventLog.
From CSS Require Import Proofs.Decoders.

(** * 1. LCP policy (tools.ParsePolicy): total, at most 15 reads, no length-prefixed allocation *)
Theorem C15_ParsePolicy_total : forall sha3 d,
  value_or_error (run (parse_policy sha3 d) d) /\ res_steps (run (parse_policy sha3 d) d) <= 15 /\
  res_alloc (run (parse_policy sha3 d) d) = 0.
Proof. exact P_parse_policy. Qed.
Print Assumptions C15_ParsePolicy_total.

(** * 2. LCP policy data (tools.ParsePolicyData) *)

(** never loops forever: every loop consumes input; at most |input|+256 reads — with or without the repairs *)
Theorem C15_ParsePolicyData_terminates : forall fx d,
  run (policy_data fx) d <> RFuel /\ res_steps (run (policy_data fx) d) <= lenZ d + 256.
Proof. exact P_policy_data_terminates. Qed.
Print Assumptions C15_ParsePolicyData_terminates.

(** value or error: REFUTED on the code as it is (finding C15-LCP-custom-size-panic) *)
Theorem C15_ParsePolicyData_refuted : exists d, lenZ d = 80 /\ run (policy_data faithful) d = RPanic.
Proof. exact P_policy_data_refuted. Qed.
Print Assumptions C15_ParsePolicyData_refuted.

(** PARTIAL: holds once parsePolicyElementCustom rejects Size < 32 *)
Theorem C15_ParsePolicyData_total_partial : forall fx d,
  fx_custom_min fx = true -> value_or_error (run (policy_data fx) d).
Proof. exact P_policy_data_partial. Qed.
Print Assumptions C15_ParsePolicyData_total_partial.

(** the panic has one site: the custom element panics only for Size < 32, and a
    custom-element parser that does not panic makes the whole decoder panic-free *)
Theorem C15_ParsePolicyData_panic_only_custom_size :
  (forall size s, elt_custom faithful size s = RPanic -> size < 32) /\
  (forall fx, (forall size s, elt_custom fx size s <> RPanic) -> forall d, run (policy_data fx) d <> RPanic).
Proof. exact P_policy_data_panic_site. Qed.
Print Assumptions C15_ParsePolicyData_panic_only_custom_size.

(** ... and the repair changes the result only on the inputs that panic today *)
Theorem C15_ParsePolicyData_fix_conservative : forall d,
  run (policy_data faithful) d = RPanic \/ run (policy_data faithful) d = run (policy_data fix_custom) d.
Proof. exact P_policy_data_fix_conservative. Qed.
Print Assumptions C15_ParsePolicyData_fix_conservative.

(** allocation in proportion to the input: REFUTED (finding C15-LCP-alloc-32bit-size): 80 bytes request 2 GiB *)
Theorem C15_ParsePolicyData_alloc_refuted : exists d, lenZ d = 80 /\
  2147483648 <= res_alloc (run (policy_data faithful) d).
Proof. exact P_policy_data_alloc_refuted. Qed.
Print Assumptions C15_ParsePolicyData_alloc_refuted.

(** PARTIAL: with the size guards (custom data length and list-2 element count
    checked against the bytes left) the length-prefixed allocations stay below
    55 bytes per input byte plus 3 MiB (65535 PCR infos announced by a 16-bit
    count at the end of the input) *)
Theorem C15_ParsePolicyData_alloc_partial : forall fx d, fx_cap fx = true ->
  res_alloc (run (policy_data fx) d) <= 55 * lenZ d + 3164040.
Proof. exact policy_data_alloc. Qed.
Print Assumptions C15_ParsePolicyData_alloc_partial.

(** * 3. ACM: tools.LookupACMSize, ACM.ParseACMInfo *)

(** PARTIAL: needs a 32-byte header (finding C15-LookupACMSize-short-header) *)
Theorem C15_LookupACMSize_total_partial : forall h, 32 <= lenZ h ->
  value_or_error (run (lookup_acm_size h) h) /\ res_steps (run (lookup_acm_size h) h) <= 1 /\
  res_alloc (run (lookup_acm_size h) h) = 0.
Proof. exact P_lookup_partial. Qed.
Print Assumptions C15_LookupACMSize_total_partial.

Theorem C15_LookupACMSize_refuted : exists h, lenZ h = 16 /\ run (lookup_acm_size h) h = RPanic.
Proof. exact P_lookup_refuted. Qed.
Print Assumptions C15_LookupACMSize_refuted.

(** exactly: every shorter buffer panics *)
Theorem C15_LookupACMSize_short_panics : forall h, lenZ h < 32 -> run (lookup_acm_size h) h = RPanic.
Proof. exact P_lookup_short. Qed.
Print Assumptions C15_LookupACMSize_short_panics.

(** ParseACMInfo returns a value or an error for every user area / module (no loops: at most 9 reads) *)
Theorem C15_ACMInfo_total : forall fx total user, value_or_error (run (acm_info fx total) user).
Proof. exact P_acm_info_total. Qed.
Print Assumptions C15_ACMInfo_total.

(** allocation: REFUTED (finding C15-ACM-alloc-size-fields): Chipsets.Count = 0x08000000 requests 2 GiB *)
Theorem C15_ACMInfo_alloc_refuted : exists total user, lenZ total = 4 /\ lenZ user = 48 /\
  2147483648 <= res_alloc (run (acm_info faithful total) user).
Proof. exact P_acm_info_alloc_refuted. Qed.
Print Assumptions C15_ACMInfo_alloc_refuted.

(** PARTIAL: with the list sizes checked against the bytes left in the module *)
Theorem C15_ACMInfo_alloc_partial : forall fx total user, fx_cap fx = true ->
  res_alloc (run (acm_info fx total) user) <= 5 * Z.max (lenZ user) (lenZ total) + 262140.
Proof. exact acm_info_alloc. Qed.
Print Assumptions C15_ACMInfo_alloc_partial.

(** * 4. TXT register space and BIOSDATA (pkg/tools/txt.go) *)

(** PARTIAL: needs an image that reaches TXT.DPR at 0x330 (finding C15-tools-TXT-short-image) *)
Theorem C15_ParseTXTRegs_total_partial : forall d, 816 <= lenZ d -> value_or_error (run (parse_txt_regs d) d).
Proof. exact P_txt_regs_partial. Qed.
Print Assumptions C15_ParseTXTRegs_total_partial.

(** unconditionally: no loop, at most 22 reads, no length-prefixed allocation *)
Theorem C15_ParseTXTRegs_bounded : forall d,
  run (parse_txt_regs d) d <> RFuel /\ res_steps (run (parse_txt_regs d) d) <= 22 /\
  res_alloc (run (parse_txt_regs d) d) = 0.
Proof. exact P_txt_regs_cost. Qed.
Print Assumptions C15_ParseTXTRegs_bounded.

Theorem C15_ParseTXTRegs_refuted : exists d, lenZ d = 16 /\ run (parse_txt_regs d) d = RPanic.
Proof. exact P_txt_regs_refuted. Qed.
Print Assumptions C15_ParseTXTRegs_refuted.

Theorem C15_ParseBIOSData_total : forall d,
  value_or_error (run parse_bios_data d) /\ res_steps (run parse_bios_data d) <= 8 /\
  res_alloc (run parse_bios_data d) = 0.
Proof. exact P_bios_data. Qed.
Print Assumptions C15_ParseBIOSData_total.

(** PARTIAL: needs an image that reaches ACM_STATUS at 0x328 *)
Theorem C15_ReadACMStatus_total_partial : forall d, 808 <= lenZ d ->
  value_or_error (run (read_acm_status d) d) /\ res_steps (run (read_acm_status d) d) <= 1 /\
  res_alloc (run (read_acm_status d) d) = 0.
Proof. exact P_acm_status_partial. Qed.
Print Assumptions C15_ReadACMStatus_total_partial.

Theorem C15_ReadACMStatus_refuted : exists d, lenZ d = 16 /\ run (read_acm_status d) d = RPanic.
Proof. exact P_acm_status_refuted. Qed.
Print Assumptions C15_ReadACMStatus_refuted.

(** ReadACMPolicyStatusRaw (offset 0x378) and ReadBootStatusRaw (0xA0) seek instead of slicing: total for every offset *)
Theorem C15_ReadRaw64_total : forall d off,
  value_or_error (run (read_raw64_at d off) d) /\ res_steps (run (read_raw64_at d off) d) <= 1 /\
  res_alloc (run (read_raw64_at d off) d) = 0.
Proof. exact P_raw64. Qed.
Print Assumptions C15_ReadRaw64_total.

(** * 5. pkg/registers *)

(** PARTIAL: ReadTXTRegisters needs an image that reaches TXT.PUBLIC.KEY at 0x400
    (finding C15-D14-ReadTXT-short-image) *)
Theorem C15_readtxt_total_partial : forall d, 1024 <= lenZ d ->
  value_or_error (run (read_txt_registers d) d) /\ res_steps (run (read_txt_registers d) d) <= 16 /\
  res_alloc (run (read_txt_registers d) d) = 0.
Proof. exact P_readtxt_partial. Qed.
Print Assumptions C15_readtxt_total_partial.

Theorem C15_readtxt_refuted : exists d, lenZ d = 16 /\ run (read_txt_registers d) d = RPanic.
Proof. exact P_readtxt_refuted. Qed.
Print Assumptions C15_readtxt_refuted.

(** PARTIAL, per Read* function: the image must reach the register's offset *)
Theorem C15_readreg_total_partial : forall d k off w sl,
  nth_error txt_reg_table (Z.to_nat k) = Some (off, w, sl) -> off <= lenZ d ->
  value_or_error (run (read_reg_k d k) d) /\ res_steps (run (read_reg_k d k) d) <= 1 /\
  res_alloc (run (read_reg_k d k) d) = 0.
Proof. exact P_readreg_partial. Qed.
Print Assumptions C15_readreg_total_partial.

(** the one reader that seeks (ReadACMPolicyStatusRegister) is total as stated *)
Theorem C15_readreg_seek_total : forall d k off w,
  nth_error txt_reg_table (Z.to_nat k) = Some (off, w, false) -> value_or_error (run (read_reg_k d k) d).
Proof. exact P_readreg_seek. Qed.
Print Assumptions C15_readreg_seek_total.

(** the fifteen that slice panic on every image shorter than their offset *)
Theorem C15_readreg_short_panics : forall d k off w,
  nth_error txt_reg_table (Z.to_nat k) = Some (off, w, true) -> lenZ d < off -> run (read_reg_k d k) d = RPanic.
Proof. exact P_readreg_short. Qed.
Print Assumptions C15_readreg_short_panics.

Theorem C15_ValueFromBytes_total : forall id b,
  value_or_error (run (value_from_bytes id b) b) /\ res_steps (run (value_from_bytes id b) b) <= 1 /\
  res_alloc (run (value_from_bytes id b) b) = 0.
Proof. exact P_value_from_bytes. Qed.
Print Assumptions C15_ValueFromBytes_total.

(** Registers.UnmarshalJSON after encoding/json: [enc] frames the (id, value) entries *)
Theorem C15_JSONRegisters_total : forall enc,
  value_or_error (run (parse_registers (S (length enc)) enc []) []).
Proof. exact json_registers_total. Qed.
Print Assumptions C15_JSONRegisters_total.

(** * 6. event data (tpmeventlog.ParseLocality, ParseEventData; model shared with C12) *)
Theorem C15_EventData_total : forall d e isz,
  (EventLog.parse_locality d <> Panic /\ EventLog.parse_locality d <> OutOfFuel) /\
  (EventLog.parse_event_data e isz <> Panic /\ EventLog.parse_event_data e isz <> OutOfFuel).
Proof. exact P_event_data. Qed.
Print Assumptions C15_EventData_total.

(** * 7. sysfs PCR dump and TPM capability file: one step per line *)
Theorem C15_sysfs_total : forall d,
  value_or_error (run (parse_sysfs_pcrs d) d) /\ res_steps (run (parse_sysfs_pcrs d) d) <= lenZ d + 1 /\
  res_alloc (run (parse_sysfs_pcrs d) d) = 0.
Proof. exact P_sysfs. Qed.
Print Assumptions C15_sysfs_total.

(** the index check added by the fix dd4f7e1 is what the theorem rests on: without it a 25th line panics *)
Theorem C15_sysfs_needs_index_guard : exists d,
  run (parse_sysfs_pcrs_g false d) d = RPanic /\ outcome_of (run (parse_sysfs_pcrs d) d) = Err E_OTHER.
Proof. exact P_sysfs_guard. Qed.
Print Assumptions C15_sysfs_needs_index_guard.

Theorem C15_LocalCaps_total : forall d,
  value_or_error (run (local_caps d) d) /\ res_steps (run (local_caps d) d) <= lenZ d + 1 /\
  res_alloc (run (local_caps d) d) = 0.
Proof. exact P_local_caps. Qed.
Print Assumptions C15_LocalCaps_total.

(** * 8. check.BytesRange, bootguard.DecryptPrivKey (framing) *)
Theorem C15_BytesRange_total : forall len a b i, value_or_error (run (bytes_range len a b) i).
Proof. exact P_bytes_range. Qed.
Print Assumptions C15_BytesRange_total.

(** PARTIAL: with a password the data must hold the 12-byte nonce (finding C15-DecryptPrivKey-short-data) *)
Theorem C15_DecryptPrivKey_total_partial : forall pw d, (pw = true -> 12 <= lenZ d) ->
  value_or_error (run (decrypt_frame pw d) d).
Proof. exact P_decrypt_partial. Qed.
Print Assumptions C15_DecryptPrivKey_total_partial.

Theorem C15_DecryptPrivKey_refuted : exists d, lenZ d = 3 /\ run (decrypt_frame true d) d = RPanic.
Proof. exact P_decrypt_refuted. Qed.
Print Assumptions C15_DecryptPrivKey_refuted.

Theorem C15_DecryptPrivKey_short_panics : forall d, lenZ d < 12 -> run (decrypt_frame true d) d = RPanic.
Proof. exact P_decrypt_short. Qed.
Print Assumptions C15_DecryptPrivKey_short_panics.

(** The loop of parsePrivateKey / ReadPubKey over the PEM blocks of a file.
    PARTIAL: encoding/pem.Decode is third-party; the hypothesis is its contract
    (the rest it returns is strictly shorter than what it was given). *)
Theorem C15_pem_loop_terminates_partial : forall decode,
  (forall raw c rest, decode raw = Some (c, rest) -> (length rest < length raw)%nat) ->
  forall raw, pem_loop decode (S (length raw)) raw <> OutOfFuel /\ pem_loop decode (S (length raw)) raw <> Panic.
Proof. exact P_pem_loop. Qed.
Print Assumptions C15_pem_loop_terminates_partial.

(** ... and the loop does rest on it: a decoder that hands back its input makes it spin *)
Theorem C15_pem_loop_needs_progress : exists decode raw, forall fuel, pem_loop decode fuel raw = OutOfFuel.
Proof. exact P_pem_loop_needs_progress. Qed.
Print Assumptions C15_pem_loop_needs_progress.

(** * Examples: the hypotheses above are satisfiable by non-trivial values *)

(** a 32-byte ACM header whose Size field is 0x102 dwords *)
Example C15_ex_lookup : 32 <= lenZ (repeat 0 24 ++ [2; 1; 0; 0] ++ repeat 0 4) /\
  outcome_of (run (lookup_acm_size (repeat 0 24 ++ [2; 1; 0; 0] ++ repeat 0 4)) (repeat 0 24 ++ [2; 1; 0; 0] ++ repeat 0 4)) = Ok [1032].
Proof. exact ex_lookup. Qed.
(** the repairs exist, reject exactly the two hostile witnesses and leave a well-formed file alone *)
Example C15_ex_fixes : fx_custom_min all_fixed = true /\ fx_cap all_fixed = true /\
  outcome_of (run (policy_data all_fixed) (custom_witness [20; 0; 0; 0])) = Err E_FIX /\
  outcome_of (run (policy_data all_fixed) (custom_witness [0; 0; 0; 64])) = Err E_FIX /\
  outcome_of (run (policy_data all_fixed) custom_ok) = outcome_of (run (policy_data faithful) custom_ok) /\
  (exists v, outcome_of (run (policy_data faithful) custom_ok) = Ok v) /\
  res_alloc (run (policy_data faithful) custom_ok) = 88.
Proof. exact ex_fixes. Qed.
Example C15_ex_readreg : nth_error txt_reg_table (Z.to_nat 4) = Some (1024, 32, true) /\
  nth_error txt_reg_table (Z.to_nat 0) = Some (888, 8, false) /\ nth_error txt_reg_table (Z.to_nat 16) = None.
Proof. exact ex_readreg. Qed.
Example C15_ex_readtxt : 1024 <= lenZ (repeat 7 1056) /\
  exists v, outcome_of (run (read_txt_registers (repeat 7 1056)) (repeat 7 1056)) = Ok v.
Proof. exact ex_readtxt. Qed.
Example C15_ex_decrypt : (true = true -> 12 <= lenZ (repeat 1 12)) /\
  run (decrypt_frame true (repeat 1 12)) (repeat 1 12) <> RPanic.
Proof. exact ex_decrypt. Qed.
(** a block decoder that meets the contract: two certificates, then a key block / no key block *)
Example C15_ex_pem_decode : exists decode : list Z -> option (bool * list Z),
  (forall raw c rest, decode raw = Some (c, rest) -> (length rest < length raw)%nat) /\
  pem_loop decode 4 [1; 1; 0] = Ok true /\ pem_loop decode 3 [1; 1] = Err E_OTHER.
Proof. exact ex_pem_decode. Qed.
