(** C15 — parsers of untrusted platform data are total: value or error, never a
    panic, never a hang, never an allocation out of proportion to the input.
    This file holds only the property theorems, each closed by [exact], and
    examples showing that the hypotheses are satisfiable.

    Vocabulary (Model/Decoders.v, Proofs/Decoders.v):
    - a decoder is a reader program [r : rd A] over the input bytes with
      explicit results [ROk v s | RErr code s | RPanic | RFuel]; the state [s]
      counts reader operations ([s_steps], one per binary.Read / per line) and
      the bytes requested by length-prefixed [make]s and by the scratch buffers
      of binary.Read on slices ([s_alloc]);
    - [run r input] starts [r] on [input] with both counters at 0;
      [res_steps], [res_alloc] read the counters of the final state,
      [outcome_of] forgets the state;
    - [value_or_error x] := [x <> RPanic /\ x <> RFuel]: the Go function returned
      (a value or an error).  [RFuel] = a loop of the decoder ran longer than
      |input|+1 iterations, i.e. the model of "loops forever";
    - [faithful] is the code as it is; [legacy] is the code before the repairs of
      this property's findings (commits a533fa8, 84f1c2a, f913973, 4423a4c,
      6dfa3ec, 3c5bd57, 9c860bb), kept so that the [_needs_] theorems can state
      what each repair is there for.  [fixes] has one switch per kind of
      repair: [fx_custom_min] (parsePolicyElementCustom rejects Size < 32),
      [fx_cap] (a count/size field larger than the bytes left in the reader is
      rejected before [make]), [fx_bounds] (offsets and lengths are checked
      before slicing); [fix_custom] has only the first;
    - [txt_reg_table]: (offset, width, slices?) of the 16 registers.Read*
      functions in the order of ReadTXTRegisters; [read_reg_k fx d k] is the k-th.
    - [mul_w w a b] := (a * b) mod 2^w, the product as a [w]-bit unsigned
      multiplication computes it; [acm_info_w pw] is ParseACMInfo with the
      products [Count * entry size] of its two allocation guards computed in
      [pw] bits, [acm_info] := [acm_info_w 64] the code as it is
      ([uint64(Count)*uint64(binary.Size(T{})) > uint64(buf.Len())]);
    One model per decoder: parse_policy (tools.ParsePolicy), policy_data
    (ParsePolicyData), lookup_acm_size, acm_info (ACM.ParseACMInfo on the
    user area / serialised module), parse_txt_regs, parse_bios_data,
    read_acm_status, read_raw64_at (ReadACMPolicyStatusRaw, ReadBootStatusRaw),
    read_txt_registers / read_reg_k (pkg/registers), value_from_bytes,
    parse_registers (Registers.UnmarshalJSON after encoding/json),
    EventLog.parse_locality / parse_event_data, parse_sysfs_pcrs, local_caps
    (tpmdetection.local), bytes_range, decrypt_frame (DecryptPrivKey framing),
    pem_loop (the PEM block loop of parsePrivateKey / ReadPubKey over an
    abstract pem.Decode).
    Model/DecodersExt.v holds the repo-owned logic AROUND third-party parsers,
    driven by what the third-party call returned: [pem_run who t n] (the two
    block loops over the observed pem.Decode calls [t] of a file of [n] bytes;
    [skips_block] is the "certificate" test of each loop, [pem_code] the return
    code given which blocks the x509 parsers accept), [get_region] /
    [calc_image_offset] (tools.GetRegion / CalcImageOffset after fiano),
    [parse_acm_after subtype] (tools.ParseACM after fit.ParseSACMData),
    [local_files] (the file decisions of tpmdetection.local), [replay_w] / [replay_out]
    (tpmeventlog.Replay with its optional log writer: which write sites a log reaches).
    - [reg_width id]: the serialised width of a register id (32 for
      TXT.PUBLIC.KEY, 8/4/1 by parser table, [None] = unknown id);
      [value_from_bytes] = [value_from_bytes_g true] is the code after the repair
      4a8d65e, [value_from_bytes_g false] the code before it (trailing bytes
      ignored); [vfb_value id b] the value of exactly-wide bytes.

    The only [_partial] theorem is [C15_pem_loop_terminates_partial].  Missing
    clause: a proof that encoding/pem.Decode (Go standard library, a PEM/base64
    parser of some 150 lines over bytes.Index / base64) returns a rest strictly
    shorter than its argument.  It cannot be had here without modelling that
    parser; instead the hypothesis is CHECKED on every run: the harness records
    every pem.Decode call on every generated key file, [trace_ok] (evaluated in
    Coq per case) says each call met the contract, and for decoders defined by
    such a trace the statement is proved without hypothesis
    ([C15_pem_trace_meets_contract], [C15_pem_run_total]).

    Naming: [_partial] = needs the visible extra hypothesis; [_needs_...] = a
    closed witness (or a characterisation) showing that the code before the
    named repair violated the statement, i.e. what the full theorem rests on.
    No theorem of this file is refuted on the code as it is; the one finding
    that stays open (fiano's fit.ParseSACMData allocating Size*4 bytes behind
    tools.ParseACM) is third-party code and carries no model. *)
From CSS Require Import Lib.Base Model.Decoders Model.DecodersExt.
From CSS Require Model.EventLog.
From CSS Require Import Proofs.Decoders Proofs.DecodersExt.

(** * 1. LCP policy (tools.ParsePolicy): total, at most 15 reads, no length-prefixed allocation *)
Theorem C15_ParsePolicy_total : forall sha3 d,
  value_or_error (run (parse_policy sha3 d) d) /\ res_steps (run (parse_policy sha3 d) d) <= 15 /\
  res_alloc (run (parse_policy sha3 d) d) = 0.
Proof. exact P_parse_policy. Qed.
Print Assumptions C15_ParsePolicy_total.

(** * 2. LCP policy data (tools.ParsePolicyData) *)

(** never loops forever: every loop consumes input; at most |input|+256 reads — with or without the repairs *)
Theorem C15_ParsePolicyData_terminates : forall fx d,
  run (policy_data fx) d <> RFuel /\ res_steps (run (policy_data fx) d) <= lenZ d + 256.
Proof. exact P_policy_data_terminates. Qed.
Print Assumptions C15_ParsePolicyData_terminates.

(** value or error for every input *)
Theorem C15_ParsePolicyData_total : forall d, value_or_error (run (policy_data faithful) d).
Proof. exact P_policy_data_total. Qed.
Print Assumptions C15_ParsePolicyData_total.

(** ... which rests on the size check of repair 6dfa3ec: without it the 80-byte
    witness (custom element, Size = 20) panics; now it is an error *)
Theorem C15_ParsePolicyData_needs_size_check : exists d, lenZ d = 80 /\ run (policy_data legacy) d = RPanic /\
  outcome_of (run (policy_data faithful) d) = Err E_FIX.
Proof. exact P_policy_data_needs_size_check. Qed.
Print Assumptions C15_ParsePolicyData_needs_size_check.

(** the panic had one site: the custom element panicked only for Size < 32, and a
    custom-element parser that does not panic makes the whole decoder panic-free *)
Theorem C15_ParsePolicyData_panic_only_custom_size :
  (forall size s, elt_custom legacy size s = RPanic -> size < 32) /\
  (forall fx, (forall size s, elt_custom fx size s <> RPanic) -> forall d, run (policy_data fx) d <> RPanic).
Proof. exact P_policy_data_panic_site. Qed.
Print Assumptions C15_ParsePolicyData_panic_only_custom_size.

(** ... and that repair changed the result only on the inputs that used to panic *)
Theorem C15_ParsePolicyData_fix_conservative : forall d,
  run (policy_data legacy) d = RPanic \/ run (policy_data legacy) d = run (policy_data fix_custom) d.
Proof. exact P_policy_data_fix_conservative. Qed.
Print Assumptions C15_ParsePolicyData_fix_conservative.

(** allocation in proportion to the input: the length-prefixed allocations stay
    below 55 bytes per input byte plus 3 MiB (65535 PCR infos announced by a
    16-bit count at the end of the input) *)
Theorem C15_ParsePolicyData_alloc : forall d,
  res_alloc (run (policy_data faithful) d) <= 55 * lenZ d + 3164040.
Proof. exact P_policy_data_alloc. Qed.
Print Assumptions C15_ParsePolicyData_alloc.

(** ... which is what repair 3c5bd57 added: without it 80 bytes request 2 GiB, now 72 bytes *)
Theorem C15_ParsePolicyData_alloc_needs_size_bound : exists d, lenZ d = 80 /\
  2147483648 <= res_alloc (run (policy_data legacy) d) /\ res_alloc (run (policy_data faithful) d) = 72.
Proof. exact P_policy_data_alloc_needs_cap. Qed.
Print Assumptions C15_ParsePolicyData_alloc_needs_size_bound.

(** * 3. ACM: tools.LookupACMSize, ACM.ParseACMInfo *)

Theorem C15_LookupACMSize_total : forall h,
  value_or_error (run (lookup_acm_size faithful h) h) /\ res_steps (run (lookup_acm_size faithful h) h) <= 1 /\
  res_alloc (run (lookup_acm_size faithful h) h) = 0.
Proof. exact P_lookup_total. Qed.
Print Assumptions C15_LookupACMSize_total.

(** a buffer shorter than the 32 header bytes is an error ... *)
Theorem C15_LookupACMSize_short_is_error : forall h, lenZ h < 32 ->
  outcome_of (run (lookup_acm_size faithful h) h) = Err E_FIX.
Proof. exact P_lookup_short_error. Qed.
Print Assumptions C15_LookupACMSize_short_is_error.

(** ... since repair f913973: before it every such buffer panicked *)
Theorem C15_LookupACMSize_needs_length_check : forall h, lenZ h < 32 -> run (lookup_acm_size legacy h) h = RPanic.
Proof. exact P_lookup_needs_length_check. Qed.
Print Assumptions C15_LookupACMSize_needs_length_check.

(** exactly: 32 bytes or more give [uint32(Size) * 4] computed in uint32, Size = the four bytes at offset 24 *)
Theorem C15_LookupACMSize_exact : forall h,
  (32 <= lenZ h -> exists a r, dropZ (firstn 32 h) 24 = a ++ r /\ lenZ a = 4 /\
      outcome_of (run (lookup_acm_size faithful h) h) = Ok [wrap32 (le_val a * 4)]) /\
  (lenZ h < 32 -> outcome_of (run (lookup_acm_size faithful h) h) = Err E_FIX).
Proof. exact Q_lookup_exact. Qed.
Print Assumptions C15_LookupACMSize_exact.

Theorem C15_LookupACMSize_value_iff : forall h,
  (exists v, outcome_of (run (lookup_acm_size faithful h) h) = Ok v) <-> 32 <= lenZ h.
Proof. exact Q_lookup_value_iff. Qed.
Print Assumptions C15_LookupACMSize_value_iff.

(** ParseACMInfo returns a value or an error for every user area / module (no loops: at most 9 reads) *)
Theorem C15_ACMInfo_total : forall fx total user, value_or_error (run (acm_info fx total) user).
Proof. exact P_acm_info_total. Qed.
Print Assumptions C15_ACMInfo_total.

(** allocation in proportion to the module: at most 5 x module size + 256 KiB
    (the guards multiply in uint64: [acm_info] = [acm_info_w 64]) *)
Theorem C15_ACMInfo_alloc : forall total user,
  res_alloc (run (acm_info faithful total) user) <= 5 * Z.max (lenZ user) (lenZ total) + 262140.
Proof. exact P_acm_info_alloc. Qed.
Print Assumptions C15_ACMInfo_alloc.

(** ... proved from the width of the guard products: it holds for every width
    from 37 bits on (a 32-bit count times a 24-byte entry) ... *)
Theorem C15_ACMInfo_alloc_any_wide_product : forall pw total user, 37 <= pw ->
  res_alloc (run (acm_info_w pw faithful total) user) <= 5 * Z.max (lenZ user) (lenZ total) + 262140.
Proof. exact P_acm_info_alloc_any_wide. Qed.
Print Assumptions C15_ACMInfo_alloc_any_wide_product.

(** ... and it does need it: with the same guards computed in 32 bits an 8-byte
    module announcing 0x10000000 chipset IDs (16 * 0x10000000 = 0 mod 2^32), or a
    16-byte module announcing 0x0AAAAAAB processor IDs (24 * 0x0AAAAAAB = 8 mod
    2^32), gets past the guard and 8 GiB are requested; the code as it is
    rejects both after allocating the module buffer only *)
Theorem C15_ACMInfo_alloc_needs_wide_product :
  (exists total user, lenZ total = 8 /\ lenZ user = 48 /\
     8589934592 <= res_alloc (run (acm_info_w 32 faithful total) user) /\
     outcome_of (run (acm_info faithful total) user) = Err E_FIX /\ res_alloc (run (acm_info faithful total) user) = 8) /\
  (exists total user, lenZ total = 16 /\ lenZ user = 48 /\
     8589934592 <= res_alloc (run (acm_info_w 32 faithful total) user) /\
     outcome_of (run (acm_info faithful total) user) = Err E_FIX /\ res_alloc (run (acm_info faithful total) user) = 16).
Proof. exact P_acm_info_alloc_needs_wide_product. Qed.
Print Assumptions C15_ACMInfo_alloc_needs_wide_product.

(** ... which is what repair 9c860bb added: without it Chipsets.Count = 0x08000000 requests 2 GiB, now 4 bytes *)
Theorem C15_ACMInfo_alloc_needs_list_bound : exists total user, lenZ total = 4 /\ lenZ user = 48 /\
  2147483648 <= res_alloc (run (acm_info legacy total) user) /\ res_alloc (run (acm_info faithful total) user) = 4.
Proof. exact P_acm_info_alloc_needs_cap. Qed.
Print Assumptions C15_ACMInfo_alloc_needs_list_bound.

(** tools.ParseACM once fiano has parsed the header: an ANC module ([subtype] has bit 1) is returned without
    info tables, otherwise ParseACMInfo decides; total, same allocation bound *)
Theorem C15_ParseACM_after_total : forall subtype total user,
  value_or_error (run (parse_acm_after subtype faithful total) user) /\
  res_alloc (run (parse_acm_after subtype faithful total) user) <= 5 * Z.max (lenZ user) (lenZ total) + 262140 /\
  (0 < Z.land subtype ACMModuleSubtypeAncModule -> outcome_of (run (parse_acm_after subtype faithful total) user) = Ok ANC_MARK).
Proof. exact Q_parse_acm_after. Qed.
Print Assumptions C15_ParseACM_after_total.

(** * 4. TXT register space and BIOSDATA (pkg/tools/txt.go) *)

(** value or error for every image; no loop, at most 22 reads, no length-prefixed allocation *)
Theorem C15_ParseTXTRegs_total : forall d,
  value_or_error (run (parse_txt_regs faithful d) d) /\ res_steps (run (parse_txt_regs faithful d) d) <= 22 /\
  res_alloc (run (parse_txt_regs faithful d) d) = 0.
Proof. exact P_txt_regs_total. Qed.
Print Assumptions C15_ParseTXTRegs_total.

(** ... since repair 84f1c2a (readTXTErrorCode / readDMAProtectedRange seek instead of
    slicing): before it a 16-byte image panicked, now the read returns io.EOF *)
Theorem C15_ParseTXTRegs_needs_seek : exists d, lenZ d = 16 /\ run (parse_txt_regs legacy d) d = RPanic /\
  outcome_of (run (parse_txt_regs faithful d) d) = Err E_EOF.
Proof. exact P_txt_regs_needs_seek. Qed.
Print Assumptions C15_ParseTXTRegs_needs_seek.

(** a value iff the image reaches behind the last register read, TXT.E2STS at 0x8f0 *)
Theorem C15_ParseTXTRegs_value_iff : forall d,
  (exists v, outcome_of (run (parse_txt_regs faithful d) d) = Ok v) <-> 2296 <= lenZ d.
Proof. exact Q_txt_regs_value_iff. Qed.
Print Assumptions C15_ParseTXTRegs_value_iff.

Theorem C15_ParseBIOSData_total : forall d,
  value_or_error (run parse_bios_data d) /\ res_steps (run parse_bios_data d) <= 8 /\
  res_alloc (run parse_bios_data d) = 0.
Proof. exact P_bios_data. Qed.
Print Assumptions C15_ParseBIOSData_total.

(** a value iff the fixed part (36 bytes) is there and, from version 3 on (SinitFlags, then MleFlags), the
    flags word behind it; [bios_ver d] = the uint32 at offset 8 *)
Theorem C15_ParseBIOSData_value_iff : forall d,
  (exists v, outcome_of (run parse_bios_data d) = Ok v) <-> (36 <= lenZ d /\ (3 <= bios_ver d -> 40 <= lenZ d)).
Proof. exact Q_bios_data_value_iff. Qed.
Print Assumptions C15_ParseBIOSData_value_iff.

Theorem C15_ReadACMStatus_total : forall d,
  value_or_error (run (read_acm_status faithful d) d) /\ res_steps (run (read_acm_status faithful d) d) <= 1 /\
  res_alloc (run (read_acm_status faithful d) d) = 0.
Proof. exact P_acm_status_total. Qed.
Print Assumptions C15_ReadACMStatus_total.

Theorem C15_ReadACMStatus_needs_seek : exists d, lenZ d = 16 /\ run (read_acm_status legacy d) d = RPanic /\
  outcome_of (run (read_acm_status faithful d) d) = Err E_EOF.
Proof. exact P_acm_status_needs_seek. Qed.
Print Assumptions C15_ReadACMStatus_needs_seek.

Theorem C15_ReadACMStatus_value_iff : forall d,
  (exists v, outcome_of (run (read_acm_status faithful d) d) = Ok v) <-> 816 <= lenZ d.
Proof. exact Q_acm_status_value_iff. Qed.
Print Assumptions C15_ReadACMStatus_value_iff.

(** ReadACMPolicyStatusRaw (offset 0x378) and ReadBootStatusRaw (0xA0) seek instead of slicing: total for every offset *)
Theorem C15_ReadRaw64_total : forall d off,
  value_or_error (run (read_raw64_at d off) d) /\ res_steps (run (read_raw64_at d off) d) <= 1 /\
  res_alloc (run (read_raw64_at d off) d) = 0.
Proof. exact P_raw64. Qed.
Print Assumptions C15_ReadRaw64_total.

Theorem C15_ReadRaw64_value_iff : forall d off, 0 <= off ->
  ((exists v, outcome_of (run (read_raw64_at d off) d) = Ok v) <-> off + 8 <= lenZ d).
Proof. exact Q_raw64_value_iff. Qed.
Print Assumptions C15_ReadRaw64_value_iff.

(** * 5. pkg/registers *)

(** ReadTXTRegisters: value or error for every image, 16 reads *)
Theorem C15_readtxt_total : forall d,
  value_or_error (run (read_txt_registers faithful d) d) /\ res_steps (run (read_txt_registers faithful d) d) <= 16 /\
  res_alloc (run (read_txt_registers faithful d) d) = 0.
Proof. exact P_readtxt_total. Qed.
Print Assumptions C15_readtxt_total.

(** all sixteen registers iff the image holds 0x420 bytes (TXT.PUBLIC.KEY ends there) *)
Theorem C15_readtxt_value_iff : forall d,
  (exists v, outcome_of (run (read_txt_registers faithful d) d) = Ok v) <-> 1056 <= lenZ d.
Proof. exact Q_readtxt_value_iff. Qed.
Print Assumptions C15_readtxt_value_iff.

(** ... since repair a533fa8 (TXTConfigSpace.from): before it a 16-byte image panicked, now it is
    the collected error *)
Theorem C15_readtxt_needs_bounds_check : exists d, lenZ d = 16 /\ run (read_txt_registers legacy d) d = RPanic /\
  outcome_of (run (read_txt_registers faithful d) d) = Err E_OTHER.
Proof. exact P_readtxt_needs_bounds_check. Qed.
Print Assumptions C15_readtxt_needs_bounds_check.

(** every Read* function (k-th of the table; an index outside the table is the error of the
    dispatcher) is total *)
Theorem C15_readreg_total : forall d k,
  value_or_error (run (read_reg_k faithful d k) d) /\ res_steps (run (read_reg_k faithful d k) d) <= 1 /\
  res_alloc (run (read_reg_k faithful d k) d) = 0.
Proof. exact P_readreg_total. Qed.
Print Assumptions C15_readreg_total.

(** every Read* function, exactly: the bytes [off, off+w) when the image holds them, io.EOF when it ends at
    or before the register, io.ErrUnexpectedEOF when it ends inside it *)
Theorem C15_readreg_exact : forall d k off w sl,
  nth_error txt_reg_table (Z.to_nat k) = Some (off, w, sl) ->
  (off + w <= lenZ d ->
     exists a r, dropZ d off = a ++ r /\ lenZ a = w /\ outcome_of (run (read_reg_k faithful d k) d) = Ok (reg_summary a)) /\
  (lenZ d <= off -> outcome_of (run (read_reg_k faithful d k) d) = Err E_EOF) /\
  (off < lenZ d < off + w -> outcome_of (run (read_reg_k faithful d k) d) = Err E_UEOF).
Proof. exact Q_readreg_exact. Qed.
Print Assumptions C15_readreg_exact.

Theorem C15_readreg_value_iff_fits : forall d k off w sl,
  nth_error txt_reg_table (Z.to_nat k) = Some (off, w, sl) ->
  ((exists v, outcome_of (run (read_reg_k faithful d k) d) = Ok v) <-> off + w <= lenZ d).
Proof. exact Q_readreg_value_iff_fits. Qed.
Print Assumptions C15_readreg_value_iff_fits.

(** an image that ends at or before the register's offset gives io.EOF ... *)
Theorem C15_readreg_short_is_eof : forall d k off w sl,
  nth_error txt_reg_table (Z.to_nat k) = Some (off, w, sl) -> lenZ d <= off ->
  outcome_of (run (read_reg_k faithful d k) d) = Err E_EOF.
Proof. exact P_readreg_short_eof. Qed.
Print Assumptions C15_readreg_short_is_eof.

(** ... where before the repair the fifteen slicing readers panicked on every image shorter than their offset *)
Theorem C15_readreg_needs_bounds_check : forall d k off w,
  nth_error txt_reg_table (Z.to_nat k) = Some (off, w, true) -> lenZ d < off -> run (read_reg_k legacy d k) d = RPanic.
Proof. exact P_readreg_needs_bounds_check. Qed.
Print Assumptions C15_readreg_needs_bounds_check.

Theorem C15_ValueFromBytes_total : forall id b,
  value_or_error (run (value_from_bytes id b) b) /\ res_steps (run (value_from_bytes id b) b) <= 1 /\
  res_alloc (run (value_from_bytes id b) b) = 0.
Proof. exact P_value_from_bytes. Qed.
Print Assumptions C15_ValueFromBytes_total.

(** since the repair 4a8d65e: a value iff the number of bytes is exactly the register's width (32 for
    TXT.PUBLIC.KEY, 8 / 4 / 1 by parser table; never for an unknown id), and then it is the little-endian
    value of all the bytes (ACM_STATUS: its low 32 bits).  With [C15_ValueFromBytes_total]: never a panic. *)
Theorem C15_ValueFromBytes_value_iff_width : forall id b,
  ((exists v, outcome_of (run (value_from_bytes id b) b) = Ok v) <-> reg_width id = Some (lenZ b)) /\
  (reg_width id = Some (lenZ b) -> outcome_of (run (value_from_bytes id b) b) = Ok (vfb_value id b)).
Proof. exact Q_vfb_value_iff_width. Qed.
Print Assumptions C15_ValueFromBytes_value_iff_width.

(** ... which rests on that repair: before it TXT.ESTS = {0x01, 0xff} was accepted as TXT.ESTS = 1 *)
Theorem C15_ValueFromBytes_needs_length_check :
  reg_width ID_ESTS = Some 1 /\
  outcome_of (run (value_from_bytes_g false ID_ESTS [1; 255]) [1; 255]) = Ok [1] /\
  outcome_of (run (value_from_bytes ID_ESTS [1; 255]) [1; 255]) = Err E_OTHER /\
  outcome_of (run (value_from_bytes ID_ESTS [1]) [1]) = Ok [1].
Proof. exact Q_vfb_needs_length_check. Qed.
Print Assumptions C15_ValueFromBytes_needs_length_check.

(** ... and the repair changed the result only for values longer than the width *)
Theorem C15_ValueFromBytes_fix_conservative : forall id b,
  outcome_of (run (value_from_bytes_g false id b) b) = outcome_of (run (value_from_bytes id b) b) \/
  (exists w v, reg_width id = Some w /\ w < lenZ b /\
     outcome_of (run (value_from_bytes_g false id b) b) = Ok v /\ outcome_of (run (value_from_bytes id b) b) = Err E_OTHER).
Proof. exact Q_vfb_fix_conservative. Qed.
Print Assumptions C15_ValueFromBytes_fix_conservative.

(** Registers.UnmarshalJSON after encoding/json: [enc] frames the (id, value) entries *)
Theorem C15_JSONRegisters_total : forall enc,
  value_or_error (run (parse_registers (S (length enc)) enc []) []).
Proof. exact json_registers_total. Qed.
Print Assumptions C15_JSONRegisters_total.

(** ... and the document is accepted iff it is well framed and every entry carries exactly its register's width *)
Theorem C15_JSONRegisters_value_iff_widths : forall enc,
  (exists v, outcome_of (run (parse_registers (S (length enc)) enc []) []) = Ok v) <->
  (exists es, json_entries (S (length enc)) enc = Some es /\ Forall entry_width_ok es).
Proof. exact Q_json_value_iff_widths. Qed.
Print Assumptions C15_JSONRegisters_value_iff_widths.

(** * 6. event data (tpmeventlog.ParseLocality, ParseEventData; model shared with C12) *)
Theorem C15_EventData_total : forall d e isz,
  (EventLog.parse_locality d <> Panic /\ EventLog.parse_locality d <> OutOfFuel) /\
  (EventLog.parse_event_data e isz <> Panic /\ EventLog.parse_event_data e isz <> OutOfFuel).
Proof. exact P_event_data. Qed.
Print Assumptions C15_EventData_total.

(** * 7. sysfs PCR dump and TPM capability file: one step per line *)
Theorem C15_sysfs_total : forall d,
  value_or_error (run (parse_sysfs_pcrs d) d) /\ res_steps (run (parse_sysfs_pcrs d) d) <= lenZ d + 1 /\
  res_alloc (run (parse_sysfs_pcrs d) d) = 0.
Proof. exact P_sysfs. Qed.
Print Assumptions C15_sysfs_total.

(** the index check added by the fix dd4f7e1 is what the theorem rests on: without it a 25th line panics *)
Theorem C15_sysfs_needs_index_guard : exists d,
  run (parse_sysfs_pcrs_g false d) d = RPanic /\ outcome_of (run (parse_sysfs_pcrs d) d) = Err E_OTHER.
Proof. exact P_sysfs_guard. Qed.
Print Assumptions C15_sysfs_needs_index_guard.

Theorem C15_LocalCaps_total : forall d,
  value_or_error (run (local_caps d) d) /\ res_steps (run (local_caps d) d) <= lenZ d + 1 /\
  res_alloc (run (local_caps d) d) = 0.
Proof. exact P_local_caps. Qed.
Print Assumptions C15_LocalCaps_total.

(** tpmdetection.local with its two file decisions: no device file = no TPM, no capability file = TPM 2.0 *)
Theorem C15_LocalFiles_total : forall dm cm d,
  value_or_error (run (local_files dm cm d) d) /\ res_steps (run (local_files dm cm d) d) <= lenZ d + 1 /\
  res_alloc (run (local_files dm cm d) d) = 0 /\
  (dm = true -> outcome_of (run (local_files dm cm d) d) = Ok [TypeNoTPM]) /\
  (dm = false -> cm = true -> outcome_of (run (local_files dm cm d) d) = Ok [TypeTPM20]).
Proof. exact Q_local_files. Qed.
Print Assumptions C15_LocalFiles_total.

(** * 8. check.BytesRange, bootguard.DecryptPrivKey (framing) *)
Theorem C15_BytesRange_total : forall len a b i, value_or_error (run (bytes_range len a b) i).
Proof. exact P_bytes_range. Qed.
Print Assumptions C15_BytesRange_total.

(** DecryptPrivKey framing: value or error with and without a password *)
Theorem C15_DecryptPrivKey_total : forall pw d, value_or_error (run (decrypt_frame faithful pw d) d).
Proof. exact P_decrypt_total. Qed.
Print Assumptions C15_DecryptPrivKey_total.

(** with a password, data shorter than the 12-byte nonce is an error ... *)
Theorem C15_DecryptPrivKey_short_is_error : forall d, lenZ d < 12 ->
  outcome_of (run (decrypt_frame faithful true d) d) = Err E_FIX.
Proof. exact P_decrypt_short_error. Qed.
Print Assumptions C15_DecryptPrivKey_short_is_error.

(** ... since repair 4423a4c: before it every such key file panicked *)
Theorem C15_DecryptPrivKey_needs_length_check : forall d, lenZ d < 12 -> run (decrypt_frame legacy true d) d = RPanic.
Proof. exact P_decrypt_needs_length_check. Qed.
Print Assumptions C15_DecryptPrivKey_needs_length_check.

(** The loop of parsePrivateKey / ReadPubKey over the PEM blocks of a file.
    PARTIAL: encoding/pem.Decode is third-party; the hypothesis is its contract
    (the rest it returns is strictly shorter than what it was given). *)
Theorem C15_pem_loop_terminates_partial : forall decode,
  (forall raw c rest, decode raw = Some (c, rest) -> (length rest < length raw)%nat) ->
  forall raw, pem_loop decode (S (length raw)) raw <> OutOfFuel /\ pem_loop decode (S (length raw)) raw <> Panic.
Proof. exact P_pem_loop. Qed.
Print Assumptions C15_pem_loop_terminates_partial.

(** ... and the loop does rest on it: a decoder that hands back its input makes it spin *)
Theorem C15_pem_loop_needs_progress : exists decode raw, forall fuel, pem_loop decode fuel raw = OutOfFuel.
Proof. exact P_pem_loop_needs_progress. Qed.
Print Assumptions C15_pem_loop_needs_progress.

(** The hypothesis is checked on the real pem.Decode on every run: a recorded trace of calls that passes
    [trace_ok] (each call returned a rest strictly shorter than its argument) defines a decoder that meets
    the contract ... *)
Theorem C15_pem_trace_meets_contract : forall who t, trace_ok t = true ->
  forall raw c rest, decode_of who t raw = Some (c, rest) -> (length rest < length raw)%nat.
Proof. exact decode_of_progress. Qed.
Print Assumptions C15_pem_trace_meets_contract.

(** ... so both loops (parsePrivateKey: [who] = 0, ReadPubKey: [who] = 1) terminate on every file whose
    pem.Decode calls were observed, without hypothesis on pem.Decode ... *)
Theorem C15_pem_run_total : forall who t n, trace_ok t = true ->
  pem_run who t n <> OutOfFuel /\ pem_run who t n <> Panic.
Proof. exact Q_pem_run_total. Qed.
Print Assumptions C15_pem_run_total.

(** ... and leave exactly where the chain of rests says: at the first block the loop does not skip ([Ok]:
    handed to the x509 parsers) or when the blocks run out ([Err]: "failed to parse ... key") *)
Theorem C15_pem_run_chain : forall who t n, trace_ok t = true -> 0 <= n ->
  pem_run who t n = pem_chain who t (S (Z.to_nat n)) n.
Proof. exact Q_pem_run_chain. Qed.
Print Assumptions C15_pem_run_chain.

(** the return code of the whole function ([pem_code]: 0 = key, 1 = "failed to parse", 2 = x509 error), given
    the positions [keys] whose block the x509 parsers accept: it is 1 exactly when the loop ran out of blocks,
    and a key is returned only for a block that is not skipped and that x509 accepts *)
Theorem C15_pem_code : forall who t keys n, trace_ok t = true -> 0 <= n ->
  (pem_run who t n = Ok true <-> pem_code who t keys n <> 1) /\
  ((exists c, pem_run who t n = Err c) <-> pem_code who t keys n = 1) /\
  (pem_code who t keys n = 0 -> exists m ty r, trace_lookup t m = Some (ty, r) /\ skips_block who ty = false /\ In m keys).
Proof. exact Q_pem_code. Qed.
Print Assumptions C15_pem_code.

(** * 9. tools.GetRegion, tools.CalcImageOffset (the arithmetic after fiano) *)

(** GetRegion: a value iff fiano found a descriptor with a valid BIOS region; offset and size fit uint32,
    and for every region record fiano calls valid (base <= limit < 0xFFFF) nothing wraps *)
Theorem C15_GetRegion_total : forall found valid base limit,
  get_region found valid base limit <> Panic /\ get_region found valid base limit <> OutOfFuel /\
  ((exists v, get_region found valid base limit = Ok v) <-> found = true /\ valid = true) /\
  (forall off size, get_region found valid base limit = Ok [off; size] ->
     0 <= off < 4294967296 /\ 0 <= size < 4294967296 /\
     (0 <= base -> base <= limit -> limit < 65535 -> off = base * 4096 /\ size = (limit + 1 - base) * 4096)).
Proof. exact Q_get_region. Qed.
Print Assumptions C15_GetRegion_total.

(** CalcImageOffset: an error iff none of the three layouts was recognised; otherwise an offset in uint64
    (the sum offset + size wraps in uint32, the rest in uint64: [ex_calc_image_offset]) *)
Theorem C15_CalcImageOffset_total : forall ifd cb bios_ok len addr,
  calc_image_offset ifd cb bios_ok len addr <> Panic /\ calc_image_offset ifd cb bios_ok len addr <> OutOfFuel /\
  ((exists c, calc_image_offset ifd cb bios_ok len addr = Err c) <-> ifd = None /\ cb = None /\ bios_ok = false) /\
  (forall v, calc_image_offset ifd cb bios_ok len addr = Ok v -> 0 <= v < 18446744073709551616).
Proof. exact Q_calc_image_offset. Qed.
Print Assumptions C15_CalcImageOffset_total.

(** * 12. tpmeventlog.Replay with its optional log writer (value model shared with C12: EventLog.replay)

    [replay_w nilsafe H w log p a] is Replay with the writer [w] ([W_NIL] = logOut == nil, the way the
    caller in cmd/ uses it; [W_SINK]; [W_FAILING] = Write returns an error) and the five places where it
    writes to logOut ([W_SITE_*]); [nilsafe k] = site k copes with a nil writer.  [replay_out] =
    [replay_w all_safe] is the code as it is (nil is replaced by io.Discard on entry). *)
Theorem C15_Replay_total : forall H w log p a,
  replay_out H w log p a <> Panic /\ replay_out H w log p a <> OutOfFuel.
Proof. exact Q_replay_out_total. Qed.
Print Assumptions C15_Replay_total.

(** same value / same error whether a writer is given, fails, or is nil *)
Theorem C15_Replay_writer_independent : forall H w log p a,
  replay_out H w log p a = EventLog.replay H log p a.
Proof. exact Q_replay_out_writer. Qed.
Print Assumptions C15_Replay_writer_independent.

(** nil-safety of a write site matters for the nil writer only *)
Theorem C15_Replay_writer_given : forall nilsafe H w log p a, w <> W_NIL ->
  replay_w nilsafe H w log p a = replay_out H W_NIL log p a.
Proof. exact Q_replay_w_writer_given. Qed.
Print Assumptions C15_Replay_writer_given.

(** what the nil default is for: each of the five write sites is reached, with a nil writer, by a log
    on which Replay returns a value ([ex_site_log k]: PCR1 with no event; PCR0 starting with the
    StartupLocality event; PCR0 starting with a measurement) -- one site that does not cope with nil
    panics there, and only for the nil writer *)
Theorem C15_Replay_needs_nil_safe_writes : forall H k, 0 <= k < 5 ->
  let '(l, p) := ex_site_log k in
  replay_w (all_safe_but k) H W_NIL l p 4 = Panic /\
  (exists v, replay_out H W_NIL l p 4 = Ok v) /\
  replay_w (all_safe_but k) H W_SINK l p 4 = replay_out H W_NIL l p 4.
Proof. exact Q_replay_needs_nil_safe. Qed.
Print Assumptions C15_Replay_needs_nil_safe_writes.

(** the "no init event seen, assume zeros" site: every PCR0 log whose first selected event is a measurement *)
Theorem C15_Replay_needs_nil_safe_assume_zeros : forall H l a size e t,
  EventLog.hash_size a = Some size -> EventLog.filter_events size 0 a l = Ok (e :: t) ->
  (EventLog.ev_type e =? EventLog.EV_NO_ACTION) = false ->
  replay_w (all_safe_but W_SITE_SET_ZEROS) H W_NIL l 0 a = Panic.
Proof. exact Q_replay_site_zeros_panics. Qed.
Print Assumptions C15_Replay_needs_nil_safe_assume_zeros.

(** * Examples: non-trivial values *)

(** register widths; ACM_STATUS keeps the low 32 bits of its 8 bytes; 7 bytes / no bytes are read errors *)
Example C15_ex_value_from_bytes : reg_width ID_PUBKEY = Some 32 /\ reg_width ID_ACM_STATUS = Some 8 /\ reg_width [66; 79; 71; 85; 83] = None /\
  outcome_of (run (value_from_bytes ID_ACM_STATUS [1; 2; 3; 4; 5; 6; 7; 8]) [1; 2; 3; 4; 5; 6; 7; 8]) = Ok [67305985] /\
  outcome_of (run (value_from_bytes ID_ACM_STATUS [1; 2; 3; 4; 5; 6; 7]) [1; 2; 3; 4; 5; 6; 7]) = Err E_UEOF /\
  outcome_of (run (value_from_bytes ID_ACM_STATUS []) []) = Err E_EOF.
Proof. exact ex_vfb. Qed.
(** two JSON entries; the second one byte too long *)
Example C15_ex_json : let e1 := [8] ++ ID_ESTS ++ [1; 1] in let e2 := [8] ++ ID_ESTS ++ [2; 1; 255] in
  json_entries (S (length (e1 ++ e1))) (e1 ++ e1) = Some [(ID_ESTS, [1]); (ID_ESTS, [1])] /\
  outcome_of (run (parse_registers (S (length (e1 ++ e1))) (e1 ++ e1) []) []) = Ok [1; 1; 1; 1] /\
  outcome_of (run (parse_registers (S (length (e1 ++ e2))) (e1 ++ e2) []) []) = Err E_OTHER.
Proof. exact ex_json. Qed.
(** a trace that passes the check: CERTIFICATE, TRUSTED CERTIFICATE (skipped by ReadPubKey only), a key block *)
Example C15_ex_pem_trace : trace_ok ex_trace = true /\
  skips_block WHO_PRIVATE ty_trusted = false /\ skips_block WHO_PUBLIC ty_trusted = true /\
  pem_run WHO_PRIVATE ex_trace 300 = Ok true /\ pem_run WHO_PUBLIC ex_trace 300 = Ok true /\
  pem_run WHO_PUBLIC [(300, ty_cert, 200); (200, ty_trusted, 100)] 300 = Err E_OTHER /\
  pem_run WHO_PRIVATE [(300, ty_cert, 200)] 300 = Err E_OTHER /\
  pem_code WHO_PRIVATE ex_trace [100] 300 = 2 /\ pem_code WHO_PUBLIC ex_trace [100] 300 = 0 /\
  pem_code WHO_PRIVATE [(300, ty_cert, 200)] [100] 300 = 1.
Proof. exact ex_pem_trace. Qed.
(** a BIOS region of blocks 1024..4095 ends at 16 MiB; a coreboot area whose offset + size wraps in uint32;
    the region-only layout (address below the mapped image: the difference wraps in uint64); no layout *)
Example C15_ex_calc_image_offset :
  get_region true true 1024 4095 = Ok [4194304; 12582912] /\
  calc_image_offset (Some (4194304, 12582912)) None false 16777216 4294967280 = Ok 16777200 /\
  calc_image_offset None (Some (4294967295, 2)) false 100 4294967296 = Ok 1 /\
  calc_image_offset None None true 65536 4294901760 = Ok 0 /\
  calc_image_offset None None true 65536 0 = Ok 18446744069414649856 /\
  calc_image_offset None None false 65536 0 = Err E_OTHER.
Proof. exact ex_calc_image_offset. Qed.


(** the hypotheses of [C15_Replay_needs_nil_safe_assume_zeros] hold for a one-event SHA1 log of PCR0; and the
    three writers of a case *)
Example C15_ex_replay_first_measurement :
  let e := EventLog.mkEv 0 EventLog.EV_POST_CODE [] (Some (EventLog.mkDg 4 (repeat 17 20))) in
  EventLog.hash_size 4 = Some 20 /\ EventLog.filter_events 20 0 4 [e] = Ok [e] /\
  (EventLog.ev_type e =? EventLog.EV_NO_ACTION) = false /\
  writer_of 0 = W_NIL /\ writer_of 1 = W_SINK /\ writer_of 2 = W_FAILING.
Proof. exact ex_replay_first_measurement. Qed.
(** a 32-byte ACM header whose Size field is 0x102 dwords *)
Example C15_ex_lookup : 32 <= lenZ (repeat 0 24 ++ [2; 1; 0; 0] ++ repeat 0 4) /\
  outcome_of (run (lookup_acm_size faithful (repeat 0 24 ++ [2; 1; 0; 0] ++ repeat 0 4)) (repeat 0 24 ++ [2; 1; 0; 0] ++ repeat 0 4)) = Ok [1032].
Proof. exact ex_lookup. Qed.
(** the code as it is has all the checks; they reject the two hostile LCP witnesses and leave a
    well-formed file (one custom element with 8 data bytes: 72 + 8 + 8 bytes allocated) alone *)
Example C15_ex_fixes : fx_custom_min faithful = true /\ fx_cap faithful = true /\ fx_bounds faithful = true /\
  outcome_of (run (policy_data faithful) (custom_witness [20; 0; 0; 0])) = Err E_FIX /\
  outcome_of (run (policy_data faithful) (custom_witness [0; 0; 0; 64])) = Err E_FIX /\
  outcome_of (run (policy_data faithful) custom_ok) = outcome_of (run (policy_data legacy) custom_ok) /\
  (exists v, outcome_of (run (policy_data faithful) custom_ok) = Ok v) /\
  res_alloc (run (policy_data faithful) custom_ok) = 88.
Proof. exact ex_fixes. Qed.
(** the products of the guards: exact in 64 bits, wrapped in 32 *)
Example C15_ex_guard_products : acm_info = acm_info_w 64 /\
  mul_w 32 268435456 16 = 0 /\ mul_w 32 178956971 24 = 8 /\ mul_w 64 268435456 16 = 4294967296.
Proof. exact (conj eq_refl mul_w_wraps). Qed.
Example C15_ex_readreg : nth_error txt_reg_table (Z.to_nat 4) = Some (1024, 32, true) /\
  nth_error txt_reg_table (Z.to_nat 0) = Some (888, 8, false) /\ nth_error txt_reg_table (Z.to_nat 16) = None.
Proof. exact ex_readreg. Qed.
(** 0x420 bytes hold all sixteen registers; one byte less and TXT.PUBLIC.KEY is reported missing *)
Example C15_ex_readtxt :
  (exists v, outcome_of (run (read_txt_registers faithful (repeat 7 1056)) (repeat 7 1056)) = Ok v) /\
  outcome_of (run (read_txt_registers faithful (repeat 7 1055)) (repeat 7 1055)) = Err E_OTHER.
Proof. exact ex_readtxt. Qed.
Example C15_ex_decrypt : outcome_of (run (decrypt_frame faithful true (repeat 1 12)) (repeat 1 12)) = Ok [] /\
  outcome_of (run (decrypt_frame faithful true (repeat 1 11)) (repeat 1 11)) = Err E_FIX.
Proof. exact ex_decrypt. Qed.
(** a block decoder that meets the contract: two certificates, then a key block / no key block *)
Example C15_ex_pem_decode : exists decode : list Z -> option (bool * list Z),
  (forall raw c rest, decode raw = Some (c, rest) -> (length rest < length raw)%nat) /\
  pem_loop decode 4 [1; 1; 0] = Ok true /\ pem_loop decode 3 [1; 1] = Err E_OTHER.
Proof. exact ex_pem_decode. Qed.
