(** C19 — IBB segments, IBB digest, the independent validator and FIT stitching agree with
    the image.
    This file holds only the property theorems (each closed by [exact]; closed witnesses
    by evaluation in Proofs/IBB.v) and examples showing that the hypotheses are
    satisfiable.  Model: Model/IBB.v (pkg/provisioning/bootguard/bootguard.go
    CreateIBBSegments / GetIBBsDigest / CreateIBBDigest / IBBsMatchBPMDigest, tools.go
    StitchFITEntries, pkg/tools/ifd.go CalcImageOffset, fiano's ValidateIBB range
    computation), the code after the fixes 98fb605 (CalcImageOffset on a bare BIOS region),
    d896621 (int segment counter) and 06c79de (SM3 name).

    Vocabulary (Model/IBB.v, Proofs/IBB.v):
    - [fit_entry] = (type, address, 24-bit size) as fit.GetEntries returns them, the FIT
      header included; [is_startup e]: type 7 (BIOS startup module); [segment] = (base,
      size, flags) of an IBBSegment; [included s]: flag bit 0 clear (the segment is hashed);
    - [layout]: which of the three probes of CalcImageOffset answered: [LIFD off size]
      (flash descriptor, BIOS region), [LCoreboot off size] (FMAP area COREBOOT),
      [LBiosOnly] (bare BIOS region), [LNone]; [calc_offset l n addr] is
      CalcImageOffset(image, addr) for an image of length [n] and layout [l];
    - [spec_offset region_end addr = region_end - (4GiB - addr)]: THE address map of the
      property text: the region that ends at image offset [region_end] is mapped so that its
      end is at 4 GiB;  [anchored l n region_end]: the mapped region of an image of length
      [n] and layout [l] ends at [region_end] (< 4 GiB): the region [off, off+size) of an
      IFD / coreboot layout, the whole image ([region_end = n]) for a bare BIOS region;
    - [seg_in_region region_end img s]: the segment's base lies in the mapped window and
      its bytes [spec_offset base, + size) lie inside the image;
    - [slice img off n]: bytes [off, off+n) of the image; [zn f i]: byte i of a file
      (0 past the end); [zlen]: length as a Z;
    - digests: hash functions are a parameter [H : alg id -> message -> digest];
      [ibbs_digest H ver alg l img segs] is what GetIBBsDigest returns; the executable model
      returns the preimage, the harness hashes with Go crypto;
    - [ibbs_match l img segs]: IBBsMatchBPMDigest on the manifest GetIBBsDigest filled:
      [Ok true] iff the validator (own address map: offset = base - (4GiB - len(image)))
      hashed the same bytes;
    - [new_blob e acm bpm km]: the blob StitchFITEntries offers for entry [e] (by type;
      [[]] = none); [entry_span]: size of the entry's region: the FIT size field for KM/BPM,
      the length of the new ACM for a startup ACM (C19_stitch_acm_within_entry: the code
      only writes an ACM of exactly the size the old ACM's header declares);
      [in_entry_region re e .. i]: byte i lies in [spec_offset re (address e), + entry_span);
      [entries_in_window len fit]: every KM/BPM/ACM entry's address lies in the window
      [4GiB-len, 4GiB) mapped onto the image and its size field is 24 bit;
      [spec_targets]: the list (spec_offset address, new blob) of the targeted entries;
      [disjoint_regions]: those byte ranges are pairwise disjoint.

    - [acm_field hdr]: the little-endian 32-bit word at offset 24 of an ACM header (the size of
      the module in 4-byte units); [acm_size hdr]: what tools.LookupACMSize returns for it;
    - [dig_edit], [OEditDigs es], [edit_alg]: the caller rewrites the digest list of SE[0]
      while the object is in use: [EKeep idx alg] keeps the entry that was at position idx,
      buffer included, under the algorithm alg (the same, a shorter, a longer one), [ENew alg d]
      installs a new entry whose buffer holds the digest, made with algorithm x, of the bytes p
      ([d = Some (x, p)]) or anything else ([None]: nil, bytes of any length); a stored digest
      [(a, Some (x, p))] is the digest H x p under the entry's algorithm a;
    - [bg_state], [step], [run], [final], [segs_of], [se_count], [writes_se] (section 6): one
      BootGuard object across calls: the segment list of every SE element and the digest
      list of SE[0]; the image is an argument of every call.  Section 6 states that
      CreateIBBSegments replaces (never extends) the list, that a sequence of calls leaves the
      list of the last CreateIBBSegments, what each call may change, and that digest,
      generation chain and validator on an object with any history speak about the image the
      call is given.  That the CODE keeps no other state between calls (caches keyed by buffer
      identity, length, file name) is sampled by the harness's sequences on one object, one
      reused buffer and one reused file (harness/cmd/c19/seq.go), not proved.

    Round 5 (seeded changes C19-m8, C19-m9): section 5 now decides a startup-ACM entry
    completely for ACMs of any declared size (the whole 32-bit size field of the header
    counts: C19_acm_size_all_four_bytes, C19_stitch_acm_decided, C19_stitch_acm_reread,
    closed instance with a 256 KiB ACM), section 6 states that what a digest buffer held
    before CreateIBBDigest (nothing, an earlier digest, a longer digest of another algorithm,
    bytes of a loaded manifest) decides nothing (C19_create_digest_ignores_stored_buffers,
    C19_create_digest_stored_exact, C19_seq_pipeline_after_digest_edit).

    Round 6 (seeded change C19-m11): section 7 covers images on which more than one layout
    probe of CalcImageOffset answers (a full coreboot image: flash descriptor AND flash map,
    COREBOOT area ending below the end of the BIOS region); the order of the probes is part
    of the model ([probes], [probe_layout]) and the theorems state that the descriptor's BIOS
    region decides whenever there is a descriptor (C19_offset_probes,
    C19_offset_descriptor_decides_alone, C19_validator_accepts_descriptor_with_fmap, ...).

    No clause is partial or refuted any more: the three defects this property had found
    (KNOWN_FINDINGS.json, "fixed") are repaired in the code and the theorems that excluded or
    refuted them are now the full statements:
    - CalcImageOffset on a bare BIOS region returned 4GiB - addr (fix 98fb605): [anchored]
      now covers all three layouts (C19_offset_anchored, C19_offset_bios_only and every
      digest / validator / stitching theorem);
    - the uint8 segment counter (fix d896621): the segment theorems hold for any count;
    - the SM3 name round trip of CreateIBBDigest (fix 06c79de): C19_create_digest_total holds
      for every algorithm GetIBBsDigest offers.
    The closed witnesses of the former defects are kept as positive regression statements
    (C19_offset_bios_only_witness, C19_segments_many, C19_digest_bios_only_witness,
    C19_create_digest_sm3, C19_validator_bios_only_witness, C19_stitch_bios_only_witness).
    What remains hypothesis is listed in props/C19.json "assumptions" (the mapped region ends
    at the end of the image for validator / stitching, segments inside the image, ...). *)
From CSS Require Import Lib.Base Model.IBB Proofs.IBB Proofs.IBBCompose.

(* ================================================================== *)
(** ** 1. the address map (tools.CalcImageOffset) *)

(** Full flash images (descriptor), coreboot images and bare BIOS regions: an address in the
    mapped window translates to the offset at which the property text puts it. *)
Theorem C19_offset_anchored : forall l n region_end addr,
  anchored l n region_end -> BASE - region_end <= addr < BASE ->
  calc_offset l n addr = Ok (spec_offset region_end addr).
Proof. exact calc_offset_anchored. Qed.
Print Assumptions C19_offset_anchored.

(** BIOS-region-only images: the whole image is the region; the offset lies inside it. *)
Theorem C19_offset_bios_only : forall n addr,
  0 <= n < W32 -> BASE - n <= addr < BASE ->
  calc_offset LBiosOnly n addr = Ok (spec_offset n addr) /\ 0 <= spec_offset n addr < n.
Proof. exact calc_offset_bios_only. Qed.
Print Assumptions C19_offset_bios_only.

(** the inputs on which the code used to return the distance from the end (0x10, 0x5e0000) *)
Theorem C19_offset_bios_only_witness :
  calc_offset LBiosOnly 65536 4294967280 = Ok 65520 /\
  calc_offset LBiosOnly 6160384 4288806912 = Ok 0.
Proof. exact calc_offset_bios_only_witness. Qed.
Print Assumptions C19_offset_bios_only_witness.

(* ================================================================== *)
(** ** 2. CreateIBBSegments *)

(** Whenever the call returns a list, it holds exactly one segment per BIOS-startup-module
    entry, in FIT order, whatever the position and number of these entries (unconditional). *)
Theorem C19_segments_one_per_startup_entry : forall se_count se_idx flags fit segs,
  create_ibb_segments se_count se_idx flags (Some fit) = Ok segs ->
  segs = map (startup_seg flags) (filter is_startup fit) /\ 0 <= se_idx < se_count.
Proof. exact create_ibb_segments_ok_inv. Qed.
Print Assumptions C19_segments_one_per_startup_entry.

(** The k-th segment carries the k-th startup entry's address (as uint32), size field << 4
    and the given flags. *)
Theorem C19_segments_nth : forall flags fit segs k,
  create_segments flags fit = Ok segs -> (k < length segs)%nat ->
  length segs = length (filter is_startup fit) /\
  exists e, nth_error (filter is_startup fit) k = Some e /\
            nth_error segs k = Some (mkSeg (wrap32 (fe_addr e)) (wrap32 (fe_size e * 16)) flags).
Proof. exact create_segments_nth. Qed.
Print Assumptions C19_segments_nth.

(** The call does return, with that entry's address and size (in bytes), for every FIT (any
    number and position of startup entries) whose startup entries are below 4 GiB.
    [fit_entry_wf] (address < 2^32, size field < 2^24) is representability: IBBSegment.Base
    is a uint32 (C19_segments_address_truncated shows what happens otherwise). *)
Theorem C19_segments_exact : forall se_count se_idx flags fit,
  0 <= se_idx < se_count ->
  Forall (fun e => is_startup e = true -> fit_entry_wf e) fit ->
  create_ibb_segments se_count se_idx flags (Some fit) =
  Ok (map (fun e => mkSeg (fe_addr e) (16 * fe_size e) flags) (filter is_startup fit)).
Proof. exact create_ibb_segments_fit. Qed.
Print Assumptions C19_segments_exact.

(** 256 startup entries (where the former uint8 counter wrapped and the call panicked) and
    700 startup entries after the FIT header: one segment each. *)
Theorem C19_segments_many :
  Forall (fun e => is_startup e = true -> fit_entry_wf e) (repeat (mkFE 7 4294963200 16) 256) /\
  count_sel is_startup (repeat (mkFE 7 4294963200 16) 256) = 256 /\
  create_ibb_segments 1 0 0 (Some (repeat (mkFE 7 4294963200 16) 256)) = Ok (repeat (mkSeg 4294963200 256 0) 256) /\
  create_ibb_segments 1 0 3 (Some (mkFE 0 0 701 :: repeat (mkFE 7 4294963200 1) 700)) = Ok (repeat (mkSeg 4294963200 16 3) 700).
Proof. exact create_ibb_segments_many_witness. Qed.
Print Assumptions C19_segments_many.

(** Observation: an entry address above 4 GiB is silently truncated to 32 bits. *)
Theorem C19_segments_address_truncated : exists e,
  create_ibb_segments 1 0 0 (Some [e]) = Ok [mkSeg 4294963200 256 0] /\ fe_addr e <> 4294963200.
Proof. exact create_ibb_segments_truncates_witness. Qed.
Print Assumptions C19_segments_address_truncated.

(** coreboot images: one segment per CBFS file named fspt.bin, fallback/verstage or
    bootblock, in directory order, based at the physical address of the file's data when
    the end of the image file maps to 4 GiB, with the file's size. *)
Theorem C19_segments_cbfs_exact : forall se_count se_idx flags file_size cbfs_off files,
  0 <= se_idx < se_count ->
  0 < file_size <= BASE ->
  Forall (fun f => is_ibb_file f = true -> cbfs_file_wf file_size cbfs_off f) files ->
  create_ibb_segments_cbfs se_count se_idx flags file_size cbfs_off files =
  Ok (map (fun f => mkSeg (BASE - file_size + (cbfs_off + cf_rec f + cf_sub f)) (cf_size f) flags)
          (filter is_ibb_file files)).
Proof. exact create_ibb_segments_cbfs_exact. Qed.
Print Assumptions C19_segments_cbfs_exact.

Theorem C19_segments_cbfs_one_per_file : forall se_count se_idx flags file_size cbfs_off files segs,
  create_ibb_segments_cbfs se_count se_idx flags file_size cbfs_off files = Ok segs ->
  segs = map (cbfs_seg flags file_size cbfs_off) (filter is_ibb_file files).
Proof. exact create_ibb_segments_cbfs_ok_inv. Qed.
Print Assumptions C19_segments_cbfs_one_per_file.

(* ================================================================== *)
(** ** 3. GetIBBsDigest / CreateIBBDigest *)

(** Unconditional characterisation, any hash function, both generations, any order and
    exclusion flags: a returned digest is the hash (with the requested, offered algorithm) of
    the concatenation, in list order, of what was read for the non-excluded segments:
    [size] bytes from the offset CalcImageOffset gives for [base] (zero-filled past the end). *)
Theorem C19_digest_is_hash_of_read_bytes : forall (H : Z -> list Z -> list Z) ver alg l img segs d,
  ibbs_digest H ver alg l img segs = Ok d ->
  alg_supported ver alg = true /\
  d = H alg (concat (map (seg_bytes l img) (filter included segs))).
Proof. exact ibbs_digest_is_hash. Qed.
Print Assumptions C19_digest_is_hash_of_read_bytes.

(** Full flash, coreboot and BIOS-region-only images: for every offered algorithm the call
    succeeds and the digest is the hash of the image bytes of the non-excluded segments at
    the offsets corresponding to their physical addresses. *)
Theorem C19_digest_exact : forall (H : Z -> list Z -> list Z) ver alg l region_end img segs,
  anchored l (zlen img) region_end -> region_end <= zlen img ->
  alg_supported ver alg = true ->
  Forall (fun s => included s = true -> seg_in_region region_end img s) segs ->
  ibbs_digest H ver alg l img segs =
  Ok (H alg (concat (map (fun s => slice img (spec_offset region_end (sg_base s)) (sg_size s))
                         (filter included segs)))).
Proof. exact ibbs_digest_anchored_total. Qed.
Print Assumptions C19_digest_exact.

(** the former failing input: segment (4GiB-48, 16) of a 64-byte bare BIOS region is bytes
    [16,32) (the code used to hash [48,64)) *)
Theorem C19_digest_bios_only_witness :
  digest_preimage LBiosOnly (seqZ 0 64) [mkSeg (4294967296 - 48) 16 0] = Ok (seqZ 16 16).
Proof. exact digest_bios_only_witness. Qed.
Print Assumptions C19_digest_bios_only_witness.

(** Every hashed segment's read starts inside the image (otherwise the call fails). *)
Theorem C19_digest_reads_start_inside : forall l img segs p,
  digest_preimage l img segs = Ok p ->
  forall s, In s segs -> included s = true ->
  exists off, calc_offset l (zlen img) (sg_base s) = Ok off /\ 0 <= off < zlen img.
Proof. exact digest_preimage_starts_inside. Qed.
Print Assumptions C19_digest_reads_start_inside.

(** THE DIGEST IS COMPOSITIONAL IN THE SEGMENT LIST: what an entry contributes depends on
    that entry alone -- not on where the previous entry ended, whether it was excluded, or
    on anything before or after.  The preimage of a concatenated list is the concatenation
    of the preimages (same first error otherwise); an excluded entry ANYWHERE in the list
    changes neither the outcome (value or error kind) nor the digest; a hashed entry between
    any two lists contributes exactly the bytes it contributes alone. *)
Theorem C19_digest_preimage_app : forall l img a b,
  digest_preimage l img (a ++ b) =
  bind (digest_preimage l img a) (fun pa =>
  bind (digest_preimage l img b) (fun pb => Ok (pa ++ pb))).
Proof. exact digest_preimage_app. Qed.
Print Assumptions C19_digest_preimage_app.

Theorem C19_digest_excluded_entry_irrelevant : forall ver alg l img a s b,
  excluded s = true ->
  get_ibbs_digest ver alg l img (a ++ s :: b) = get_ibbs_digest ver alg l img (a ++ b).
Proof. exact get_ibbs_digest_excluded. Qed.
Print Assumptions C19_digest_excluded_entry_irrelevant.

Theorem C19_digest_segment_alone : forall l img a s b,
  excluded s = false ->
  digest_preimage l img (a ++ s :: b) =
  bind (digest_preimage l img a) (fun pa =>
  bind (read_segment l img s) (fun x =>
  bind (digest_preimage l img b) (fun pb => Ok (pa ++ x ++ pb)))).
Proof. exact digest_preimage_segment_alone. Qed.
Print Assumptions C19_digest_segment_alone.

(** not vacuous: an excluded entry directly followed by a hashed one that starts where it
    ends (the layout real manifests have) -- the hashed bytes are those of the second *)
Example C19_digest_excluded_then_adjacent :
  digest_preimage LBiosOnly (seqZ 0 64) [mkSeg (4294967296 - 48) 16 1; mkSeg (4294967296 - 32) 16 0] = Ok (seqZ 32 16).
Proof. vm_compute. reflexivity. Qed.

(** CreateIBBDigest: one digest per algorithm of the manifest's list, in order, all over the
    same bytes. *)
Theorem C19_create_digest_spec : forall ver l img segs algs r,
  create_ibb_digest ver algs l img segs = Ok r ->
  map fst r = algs /\
  Forall (fun ap => snd ap = concat (map (seg_bytes l img) (filter included segs))) r /\
  Forall (fun a => alg_name_roundtrips ver a = true) algs.
Proof. exact create_ibb_digest_spec. Qed.
Print Assumptions C19_create_digest_spec.

(** ... and it succeeds whenever GetIBBsDigest does, for every algorithm GetIBBsDigest
    offers: SHA1/SHA256 (both generations), SHA384 and SM3 (CBnT). *)
Theorem C19_create_digest_total : forall ver l img segs p algs,
  Forall (fun a => alg_supported ver a = true) algs ->
  digest_preimage l img segs = Ok p ->
  create_ibb_digest ver algs l img segs = Ok (map (fun a => (a, p)) algs).
Proof. exact create_ibb_digest_total. Qed.
Print Assumptions C19_create_digest_total.

(** the name round trip loses no offered algorithm *)
Theorem C19_create_digest_offers_what_get_offers : forall ver a,
  alg_name_roundtrips ver a = alg_supported ver a.
Proof. exact alg_roundtrips_iff_supported. Qed.
Print Assumptions C19_create_digest_offers_what_get_offers.

(** the former failing input: a CBnT digest list with SM3 (id 18) *)
Theorem C19_create_digest_sm3 :
  create_ibb_digest 2 [11; 18; 12] (LIFD 0 16) (seqZ 0 16) [mkSeg (4294967296 - 8) 4 0] =
  Ok [(11, seqZ 8 4); (18, seqZ 8 4); (12, seqZ 8 4)].
Proof. exact create_ibb_digest_sm3_witness. Qed.
Print Assumptions C19_create_digest_sm3.

(* ================================================================== *)
(** ** 4. the suite's independent validation accepts the generated manifest *)

(** Layouts whose mapped region ends at the end of the image (IFD BIOS region / COREBOOT area
    last, or a bare BIOS region). *)
Theorem C19_validator_accepts : forall l img segs p,
  anchored l (zlen img) (zlen img) ->
  Forall (fun s => included s = true ->
                   BASE - zlen img <= sg_base s < BASE /\ seg_inside (spec_offset (zlen img)) img s) segs ->
  digest_preimage l img segs = Ok p ->
  ibbs_match l img segs = Ok true.
Proof. exact ibbs_match_accepts. Qed.
Print Assumptions C19_validator_accepts.

(** the two address maps read the same bytes *)
Theorem C19_validator_same_bytes : forall l img segs p,
  anchored l (zlen img) (zlen img) ->
  Forall (fun s => included s = true ->
                   BASE - zlen img <= sg_base s < BASE /\ seg_inside (spec_offset (zlen img)) img s) segs ->
  digest_preimage l img segs = Ok p ->
  validator_preimage img segs = Ok p.
Proof. exact validator_agrees. Qed.
Print Assumptions C19_validator_same_bytes.

(** the former failing input is accepted *)
Theorem C19_validator_bios_only_witness :
  ibbs_match LBiosOnly (seqZ 0 64) [mkSeg (4294967296 - 48) 16 0] = Ok true.
Proof. exact ibbs_match_bios_only_witness. Qed.
Print Assumptions C19_validator_bios_only_witness.

(* ================================================================== *)
(** ** 5. StitchFITEntries *)

(** Unconditional frame in the code's own terms (every layout, success or error): a byte
    outside every range [CalcImageOffset(entry address), + len(new blob)) keeps its value. *)
Theorem C19_stitch_frame_code_offsets : forall l img fit acm bpm km i,
  0 <= i ->
  outside (match fit with Some es => targets l (zlen img) es acm bpm km | None => [] end) i ->
  zn (fst (stitch l img fit acm bpm km)) i = zn img i.
Proof. exact stitch_frame. Qed.
Print Assumptions C19_stitch_frame_code_offsets.

(** The clause of the property: only bytes inside the targeted FIT entries' regions change
    (whether the call succeeds or fails) ... *)
Theorem C19_stitch_only_entry_regions : forall l img fit acm bpm km i,
  anchored l (zlen img) (zlen img) -> entries_in_window (zlen img) fit -> 0 <= i ->
  (forall e, In e fit -> ~ in_entry_region (zlen img) e acm bpm km i) ->
  zn (fst (stitch l img (Some fit) acm bpm km)) i = zn img i.
Proof. exact stitch_frame_region. Qed.
Print Assumptions C19_stitch_only_entry_regions.

(** ... and the file keeps its length (when the new ACM, if any, ends inside the image). *)
Theorem C19_stitch_length : forall l img fit acm bpm km,
  anchored l (zlen img) (zlen img) -> entries_in_window (zlen img) fit ->
  Forall (fun e => fe_type e = T_SACM -> spec_offset (zlen img) (fe_addr e) + zlen acm <= zlen img) fit ->
  zlen (fst (stitch l img (Some fit) acm bpm km)) = zlen img.
Proof. exact stitch_length_region. Qed.
Print Assumptions C19_stitch_length.

(** A KM/BPM that is written lies at the entry's offset and inside the entry's region,
    which lies inside the image. *)
Theorem C19_stitch_manifest_within_entry : forall l orig file e new file',
  anchored l (zlen orig) (zlen orig) ->
  0 <= fe_addr e < W64 -> 0 <= fe_size e < 16777216 ->
  new <> [] ->
  stitch_manifest l orig file e new = (file', true) ->
  let off := spec_offset (zlen orig) (fe_addr e) in
  file' = write_at file off new /\
  0 <= off /\ off + zlen new <= off + fe_size e /\ off + fe_size e <= zlen orig.
Proof. exact stitch_manifest_within_entry. Qed.
Print Assumptions C19_stitch_manifest_within_entry.

(** An ACM that is written replaces, at the entry's offset, exactly as many bytes as the
    header found there declares. *)
Theorem C19_stitch_acm_within_entry : forall l n re file e new file',
  anchored l n re -> BASE - re <= fe_addr e < BASE -> new <> [] ->
  stitch_acm l n file e new = (file', true) ->
  let off := spec_offset re (fe_addr e) in
  file' = write_at file off new /\ 0 <= off < zlen file /\
  zlen new = acm_size (read_padded file off 32) /\ zlen new <> 0.
Proof. exact stitch_acm_within_entry. Qed.
Print Assumptions C19_stitch_acm_within_entry.

(** An entry whose guard fails is not written. *)
Theorem C19_stitch_failed_entry_untouched : forall l orig file e acm bpm km file',
  stitch_entry l orig file e acm bpm km = (file', false) -> file' = file.
Proof. exact stitch_entry_failed_untouched. Qed.
Print Assumptions C19_stitch_failed_entry_untouched.

(** Re-reading: after a successful call every targeted entry holds the new contents,
    provided the written ranges do not overlap (a later entry overwrites an earlier one
    otherwise). *)
Theorem C19_stitch_reread : forall l img fit acm bpm km file',
  anchored l (zlen img) (zlen img) -> entries_in_window (zlen img) fit ->
  stitch l img (Some fit) acm bpm km = (file', true) ->
  disjoint_regions (spec_targets (zlen img) fit acm bpm km) ->
  forall e, In e fit ->
  forall k, 0 <= k < zlen (new_blob e acm bpm km) ->
  zn file' (spec_offset (zlen img) (fe_addr e) + k) = zn (new_blob e acm bpm km) k.
Proof. exact stitch_reread_region. Qed.
Print Assumptions C19_stitch_reread.

(** the same in the code's own terms, for every layout *)
Theorem C19_stitch_reread_code_offsets : forall l orig acm bpm km es file file',
  stitch_loop l orig file es acm bpm km = (file', true) ->
  disjoint_regions (targets l (zlen orig) es acm bpm km) ->
  forall off new, In (off, new) (targets l (zlen orig) es acm bpm km) ->
  forall k, 0 <= k < zlen new -> zn file' (off + k) = zn new k.
Proof. exact stitch_loop_reread. Qed.
Print Assumptions C19_stitch_reread_code_offsets.

(** The size of the ACM that is in the image is taken from ALL FOUR bytes of the size field of
    its header (a 32-bit word counting 4-byte units; fields below 2^30, i.e. sizes below
    4 GiB, the range in which the code's uint32 product does not wrap) ... *)
Theorem C19_acm_size_all_four_bytes : forall hdr,
  0 <= acm_field hdr < 1073741824 ->
  acm_size hdr = 4 * nth 24 hdr 0 + 1024 * nth 25 hdr 0 + 262144 * nth 26 hdr 0 + 67108864 * nth 27 hdr 0.
Proof. exact acm_size_all_four_bytes. Qed.
Print Assumptions C19_acm_size_all_four_bytes.

(** ... so headers that differ anywhere in the field declare different sizes. *)
Theorem C19_acm_size_field_injective : forall h1 h2,
  0 <= acm_field h1 < 1073741824 -> 0 <= acm_field h2 < 1073741824 ->
  acm_size h1 = acm_size h2 -> acm_field h1 = acm_field h2.
Proof. exact acm_size_injective. Qed.
Print Assumptions C19_acm_size_field_injective.

(** A startup-ACM entry, decided completely, for an ACM of ANY declared size (256 KiB and more
    included: size field >= 0x10000): the new ACM is written at the entry's offset iff its
    length is 4 times the size field of the header found there; any other length is refused
    and the file left alone. *)
Theorem C19_stitch_acm_decided : forall l n re file e new,
  anchored l n re -> BASE - re <= fe_addr e < BASE ->
  spec_offset re (fe_addr e) < zlen file ->
  0 < acm_field (read_padded file (spec_offset re (fe_addr e)) 32) < 1073741824 ->
  new <> [] ->
  stitch_acm l n file e new =
  if zlen new =? 4 * acm_field (read_padded file (spec_offset re (fe_addr e)) 32)
  then (write_at file (spec_offset re (fe_addr e)) new, true) else (file, false).
Proof. exact stitch_acm_decided. Qed.
Print Assumptions C19_stitch_acm_decided.

(** ... and a new ACM of the declared size is accepted and reads back byte for byte. *)
Theorem C19_stitch_acm_reread : forall l n re file e new,
  anchored l n re -> BASE - re <= fe_addr e < BASE ->
  spec_offset re (fe_addr e) < zlen file ->
  0 < acm_field (read_padded file (spec_offset re (fe_addr e)) 32) < 1073741824 ->
  zlen new = 4 * acm_field (read_padded file (spec_offset re (fe_addr e)) 32) ->
  snd (stitch_acm l n file e new) = true /\
  forall k, 0 <= k < zlen new ->
  zn (fst (stitch_acm l n file e new)) (spec_offset re (fe_addr e) + k) = zn new k.
Proof. exact stitch_acm_reread. Qed.
Print Assumptions C19_stitch_acm_reread.

(** closed instance: a 256 KiB ACM (size field 0x10000: its two low bytes are zero) at offset
    4096 of a 264 KiB bare BIOS region: every new ACM of 256 KiB is accepted, every other
    length refused *)
Theorem C19_stitch_acm_256k_witness :
  let e := mkFE 2 (4294967296 - 270336 + 4096) 0 in
  zlen file_256k = 270336 /\ acm_size hdr_256k = 262144 /\
  (forall new, zlen new = 262144 ->
     stitch_acm LBiosOnly 270336 file_256k e new = (write_at file_256k 4096 new, true)) /\
  (forall new, new <> [] -> zlen new <> 262144 ->
     stitch_acm LBiosOnly 270336 file_256k e new = (file_256k, false)).
Proof. exact stitch_acm_256k_witness. Qed.
Print Assumptions C19_stitch_acm_256k_witness.

(** the former failing input: a 2-byte KM for the 16-byte KM entry at the start of a 64-byte
    bare BIOS region goes to offset 0, the file keeps its length and the entry reads back
    (the code used to append the KM at offset 64) *)
Theorem C19_stitch_bios_only_witness : exists file',
  stitch LBiosOnly (seqZ 0 64) (Some [mkFE 11 (4294967296 - 64) 16]) [] [] [255; 254] = (file', true) /\
  zlen file' = 64 /\ zn file' 0 = 255 /\ zn file' 1 = 254 /\ zn file' 2 = 2.
Proof. exact stitch_bios_only_witness. Qed.
Print Assumptions C19_stitch_bios_only_witness.

(** Observation: the call is not atomic; entries stitched before a failing one stay written
    (inside their own regions, so the frame clause is not affected). *)
Theorem C19_stitch_error_keeps_earlier_writes : exists l img fit acm bpm km file',
  stitch l img (Some fit) acm bpm km = (file', false) /\ file' <> img.
Proof. exact stitch_not_atomic_witness. Qed.
Print Assumptions C19_stitch_error_keeps_earlier_writes.

(* ================================================================== *)
(** ** 6. one BootGuard object, one buffer, one file used again and again

    [bg_state] is what the operations read and write of one BootGuard object: the segment
    list of every SE element ([segs_of st i]; [se_count st] elements) and the digest list of
    SE[0] ([bg_digs st]: algorithm, bytes the stored digest was computed over).  [step ver st
    o] is one call ([OCreateSegs se flags fit], [OCreateSegsCbfs ..], [OGetDigest alg layout
    image], [OCreateDigest layout image], [OMatch image]) or an assignment by the caller
    ([OSetSegs], [OSetAlgs], [OEditDigs]: the digest list rewritten with buffers kept, moved,
    re-labelled); [run] / [final] a sequence of them.  The image (layout, bytes,
    FIT, CBFS directory) is an argument of the call: the model has no other memory, so every
    result below is about the image the call was given, whatever was processed before. *)

(** CreateIBBSegments REPLACES the list: whatever SE[i] held before (a loaded manifest, an
    earlier call), afterwards it holds exactly one segment per startup entry of this image, in
    FIT order; no other SE element and no digest changes. *)
Theorem C19_create_segments_replaces : forall ver st i flags fit st',
  step ver st (OCreateSegs i flags (Some fit)) = (st', RUnit (Ok tt)) ->
  0 <= i < se_count st /\
  segs_of st' i = map (startup_seg flags) (filter is_startup fit) /\
  (forall j, 0 <= j -> j <> i -> segs_of st' j = segs_of st j) /\
  bg_digs st' = bg_digs st /\ se_count st' = se_count st.
Proof. exact step_create_segs_replaces. Qed.
Print Assumptions C19_create_segments_replaces.

Theorem C19_create_segments_cbfs_replaces : forall ver st i flags file_size cbfs_off files st',
  step ver st (OCreateSegsCbfs i flags file_size cbfs_off files) = (st', RUnit (Ok tt)) ->
  0 <= i < se_count st /\
  segs_of st' i = map (cbfs_seg flags file_size cbfs_off) (filter is_ibb_file files) /\
  (forall j, 0 <= j -> j <> i -> segs_of st' j = segs_of st j) /\
  bg_digs st' = bg_digs st /\ se_count st' = se_count st.
Proof. exact step_create_segs_cbfs_replaces. Qed.
Print Assumptions C19_create_segments_cbfs_replaces.

(** ... and the call succeeds on every object that has the SE element. *)
Theorem C19_create_segments_total_any_object : forall ver st i flags fit,
  0 <= i < se_count st ->
  step ver st (OCreateSegs i flags (Some fit)) =
  (put_segs st i (map (startup_seg flags) (filter is_startup fit)), RUnit (Ok tt)).
Proof. exact step_create_segs_total. Qed.
Print Assumptions C19_create_segments_total_any_object.

(** A call that fails (no FIT, no such SE element) leaves the object as it was. *)
Theorem C19_create_segments_failed_untouched : forall ver st i flags fit st' res,
  step ver st (OCreateSegs i flags fit) = (st', res) -> res <> RUnit (Ok tt) -> st' = st.
Proof. exact step_create_segs_failed_untouched. Qed.
Print Assumptions C19_create_segments_failed_untouched.

(** a manifest loaded with three stale segments in SE[0] and one in SE[1]; FIT with two
    startup entries: SE[0] holds exactly these two afterwards, SE[1] keeps its own *)
Theorem C19_create_segments_second_call_witness :
  step 2 (mkBG [[mkSeg 4294901760 4096 0; mkSeg 4294905856 256 0; mkSeg 1 2 3]; [mkSeg 7 7 7]] [(11, None)])
       (OCreateSegs 0 0 (Some [mkFE 0 2314885531223937887 4; mkFE 7 (4294967296 - 48) 1;
                               mkFE 11 (4294967296 - 16) 8; mkFE 7 (4294967296 - 32) 1])) =
  (mkBG [[mkSeg (4294967296 - 48) 16 0; mkSeg (4294967296 - 32) 16 0]; [mkSeg 7 7 7]] [(11, None)],
   RUnit (Ok tt)).
Proof. exact step_create_segs_second_call_witness. Qed.
Print Assumptions C19_create_segments_second_call_witness.

(** After ANY sequence of calls and assignments the segment list of SE[i] is the one of the
    LAST CreateIBBSegments(i, ..): one segment per startup entry of that call's image, nothing
    of earlier lists or images (as long as nobody wrote SE[i] afterwards). *)
Theorem C19_seq_segments_of_last_create : forall ver st pre i flags fit post,
  0 <= i < se_count st ->
  Forall (fun o => writes_se o <> Some i) post ->
  segs_of (final ver st (pre ++ OCreateSegs i flags (Some fit) :: post)) i =
  map (startup_seg flags) (filter is_startup fit).
Proof. exact run_segments_of_last_create. Qed.
Print Assumptions C19_seq_segments_of_last_create.

Theorem C19_seq_segments_of_last_create_cbfs : forall ver st pre i flags file_size cbfs_off files post,
  0 <= i < se_count st ->
  Forall (fun o => writes_se o <> Some i) post ->
  segs_of (final ver st (pre ++ OCreateSegsCbfs i flags file_size cbfs_off files :: post)) i =
  map (cbfs_seg flags file_size cbfs_off) (filter is_ibb_file files).
Proof. exact run_segments_of_last_create_cbfs. Qed.
Print Assumptions C19_seq_segments_of_last_create_cbfs.

(** What a call may change: only the segment list it was asked to write ... *)
Theorem C19_seq_segments_frame : forall ver st o j,
  0 <= j -> writes_se o <> Some j -> segs_of (fst (step ver st o)) j = segs_of st j.
Proof. exact step_segs_frame. Qed.
Print Assumptions C19_seq_segments_frame.

(** ... GetIBBsDigest and IBBsMatchBPMDigest nothing, CreateIBBDigest only digests,
    CreateIBBSegments no digest. *)
Theorem C19_seq_reads_only : forall ver st o,
  match o with
  | OGetDigest _ _ _ | OMatch _ => fst (step ver st o) = st
  | OCreateDigest _ _ => bg_segs (fst (step ver st o)) = bg_segs st
  | OCreateSegs _ _ _ | OCreateSegsCbfs _ _ _ _ _ | OSetSegs _ _ => bg_digs (fst (step ver st o)) = bg_digs st
  | OSetAlgs _ | OEditDigs _ => bg_segs (fst (step ver st o)) = bg_segs st
  end.
Proof. exact step_reads_only. Qed.
Print Assumptions C19_seq_reads_only.

(** GetIBBsDigest on an object with any history, on any image (any layout whose mapped
    region lies inside the image, also one that does not end at the end of the image): the
    bytes of THAT image at the offsets corresponding to the segments' addresses. *)
Theorem C19_seq_digest_exact : forall ver st alg l region_end img,
  0 < se_count st ->
  anchored l (zlen img) region_end -> region_end <= zlen img ->
  alg_supported ver alg = true ->
  Forall (fun s => included s = true -> seg_in_region region_end img s) (segs_of st 0) ->
  step ver st (OGetDigest alg l img) =
  (st, RDigest (Ok (alg, concat (map (fun s => slice img (spec_offset region_end (sg_base s)) (sg_size s))
                                     (filter included (segs_of st 0)))))).
Proof. exact step_get_digest_exact. Qed.
Print Assumptions C19_seq_digest_exact.

(** the same buffer holding two layouts one after the other *)
Theorem C19_seq_two_layouts_witness :
  snd (run 2 (mkBG [[mkSeg (4294967296 - 16) 8 0]] [(11, None)])
           [OGetDigest 11 (LIFD 16 32) (seqZ 0 64); OGetDigest 11 LBiosOnly (seqZ 0 64)]) =
  [RDigest (Ok (11, seqZ 32 8)); RDigest (Ok (11, seqZ 48 8))].
Proof. exact run_two_layouts_witness. Qed.
Print Assumptions C19_seq_two_layouts_witness.

(** The generation chain of bg-prov on an object with ANY history (segments and digests of
    other images or of earlier calls in every SE element): for one image CreateIBBSegments,
    CreateIBBDigest, IBBsMatchBPMDigest leave one segment per startup entry of THAT image, for
    every listed algorithm the hash of THAT image's bytes [p] (digest = H alg p), and the
    independent validation accepts. *)
Theorem C19_seq_pipeline_any_history : forall ver st flags fit l img,
  0 < se_count st ->
  anchored l (zlen img) (zlen img) ->
  Forall (fun e => is_startup e = true -> fit_entry_wf e) fit ->
  Forall (fun s => included s = true -> seg_in_region (zlen img) img s)
         (map (fun e => mkSeg (fe_addr e) (16 * fe_size e) flags) (filter is_startup fit)) ->
  Forall (fun ad => alg_supported ver (fst ad) = true) (bg_digs st) ->
  bg_digs st <> [] ->
  let segs := map (fun e => mkSeg (fe_addr e) (16 * fe_size e) flags) (filter is_startup fit) in
  let p := concat (map (fun s => slice img (spec_offset (zlen img) (sg_base s)) (sg_size s))
                       (filter included segs)) in
  run ver st [OCreateSegs 0 flags (Some fit); OCreateDigest l img; OMatch img] =
  (mkBG (set_nth 0 segs (bg_segs st)) (map (fun ad => (fst ad, Some (fst ad, p))) (bg_digs st)),
   [RUnit (Ok tt); RUnit (Ok tt); RBool (Ok true)]).
Proof. exact run_pipeline_any_history. Qed.
Print Assumptions C19_seq_pipeline_any_history.

(** Digest buffers the manifest already carries.  CreateIBBDigest on two objects that list the
    same algorithms but hold DIFFERENT buffers (none, the digest of an earlier call, a longer
    digest of another algorithm, bytes of any length from a loaded manifest): the same outcome
    and, on success, the same stored digests.  What a buffer held decides nothing. *)
Theorem C19_create_digest_ignores_stored_buffers : forall ver l img segs digs digs',
  map fst digs = map fst digs' ->
  snd (create_digest_loop ver l img segs digs) = snd (create_digest_loop ver l img segs digs') /\
  (snd (create_digest_loop ver l img segs digs) = Ok tt ->
   fst (create_digest_loop ver l img segs digs) = fst (create_digest_loop ver l img segs digs')).
Proof. exact create_digest_loop_ignores_old. Qed.
Print Assumptions C19_create_digest_ignores_stored_buffers.

(** Unconditional characterisation of a successful CreateIBBDigest on an object with any digest
    list: every entry keeps its algorithm (an offered one) and holds exactly the digest of
    the bytes GetIBBsDigest reads for the segment list: nothing of the old buffer. *)
Theorem C19_create_digest_stored_exact : forall ver l img segs digs d,
  create_digest_loop ver l img segs digs = (d, Ok tt) ->
  Forall (fun ad => alg_supported ver (fst ad) = true) digs /\
  (digs = [] /\ d = [] \/
   exists p, digest_preimage l img segs = Ok p /\ d = map (fun ad => (fst ad, Some (fst ad, p))) digs).
Proof. exact create_digest_loop_ok_inv. Qed.
Print Assumptions C19_create_digest_stored_exact.

(** The caller's rewrite of the digest list leaves the listed algorithms in the listed order
    and touches no segment list. *)
Theorem C19_seq_digest_edit : forall ver st es,
  let st' := fst (step ver st (OEditDigs es)) in
  map fst (bg_digs st') = map edit_alg es /\ bg_segs st' = bg_segs st /\
  snd (step ver st (OEditDigs es)) = RNone.
Proof. exact step_edit_digs. Qed.
Print Assumptions C19_seq_digest_edit.

(** The generation chain after the caller rewrote the digest list in ANY way (entries kept with
    their buffers, moved, their algorithm changed to a shorter or a longer one, new entries
    with arbitrary buffers) on an object with any history: one digest per listed algorithm,
    each the hash of THIS image's bytes [p], and the independent validation accepts. *)
Theorem C19_seq_pipeline_after_digest_edit : forall ver st es flags fit l img,
  0 < se_count st ->
  anchored l (zlen img) (zlen img) ->
  Forall (fun e => is_startup e = true -> fit_entry_wf e) fit ->
  Forall (fun s => included s = true -> seg_in_region (zlen img) img s)
         (map (fun e => mkSeg (fe_addr e) (16 * fe_size e) flags) (filter is_startup fit)) ->
  Forall (fun e => alg_supported ver (edit_alg e) = true) es ->
  es <> [] ->
  let segs := map (fun e => mkSeg (fe_addr e) (16 * fe_size e) flags) (filter is_startup fit) in
  let p := concat (map (fun s => slice img (spec_offset (zlen img) (sg_base s)) (sg_size s))
                       (filter included segs)) in
  run ver st [OEditDigs es; OCreateSegs 0 flags (Some fit); OCreateDigest l img; OMatch img] =
  (mkBG (set_nth 0 segs (bg_segs st)) (map (fun e => (edit_alg e, Some (edit_alg e, p))) es),
   [RNone; RUnit (Ok tt); RUnit (Ok tt); RBool (Ok true)]).
Proof. exact run_pipeline_after_digest_edit. Qed.
Print Assumptions C19_seq_pipeline_after_digest_edit.

(** closed instance: a CBnT manifest carrying a SHA384 digest of other bytes, bytes that are no
    digest, and an empty buffer; the caller moves the SHA384 entry to the end and relabels it
    SHA256 (a SHORTER digest than the buffer it keeps), relabels the second SHA1: after
    CreateIBBDigest every entry holds the hash of the image's bytes [16,32); accepted. *)
Theorem C19_seq_digest_edit_witness :
  run 2 (mkBG [[mkSeg (4294967296 - 48) 16 0]] [(12, Some (12, [1; 2; 3])); (11, None); (18, None)])
      [OEditDigs [EKeep 1 4; ENew 18 None; EKeep 0 11]; OCreateDigest (LIFD 16 48) (seqZ 0 64); OMatch (seqZ 0 64)] =
  (mkBG [[mkSeg (4294967296 - 48) 16 0]] [(4, Some (4, seqZ 16 16)); (18, Some (18, seqZ 16 16)); (11, Some (11, seqZ 16 16))],
   [RNone; RUnit (Ok tt); RBool (Ok true)]).
Proof. exact run_digest_edit_witness. Qed.
Print Assumptions C19_seq_digest_edit_witness.

(** Stitching the same file twice (same FIT): still no byte outside the targeted entries'
    regions of either call differs from the original file. *)
Theorem C19_stitch_twice_only_entry_regions : forall l img fit acm1 bpm1 km1 acm2 bpm2 km2 i,
  anchored l (zlen img) (zlen img) -> entries_in_window (zlen img) fit ->
  Forall (fun e => fe_type e = T_SACM -> spec_offset (zlen img) (fe_addr e) + zlen acm1 <= zlen img) fit ->
  0 <= i ->
  (forall e, In e fit -> ~ in_entry_region (zlen img) e acm1 bpm1 km1 i) ->
  (forall e, In e fit -> ~ in_entry_region (zlen img) e acm2 bpm2 km2 i) ->
  zn (fst (stitch l (fst (stitch l img (Some fit) acm1 bpm1 km1)) (Some fit) acm2 bpm2 km2)) i = zn img i.
Proof. exact stitch_twice_frame_region. Qed.
Print Assumptions C19_stitch_twice_only_entry_regions.

(* ================================================================== *)
(** ** 7. images on which more than one layout probe answers (descriptor AND flash map)

    A full coreboot image has a flash descriptor and a flash map, and parses as a bare BIOS
    region besides; the COREBOOT area need not end where the BIOS region ends (a BOOTBLOCK
    area above the CBFS).  [probes] = the answers of all three probes of CalcImageOffset,
    [probe_layout p] = the one CalcImageOffset follows (the ORDER of the probes is part of
    the model), [calc_image_offset p n addr = calc_offset (probe_layout p) n addr];
    [mapped_region p n re]: the mapped region of the property text ends at [re]: the BIOS
    region of the descriptor whenever there is a descriptor, the COREBOOT area for an image
    without descriptor, the whole image when there is neither. *)

(** every combination of answers: the address translates as the property text says *)
Theorem C19_offset_probes : forall p n region_end addr,
  mapped_region p n region_end -> BASE - region_end <= addr < BASE ->
  calc_image_offset p n addr = Ok (spec_offset region_end addr).
Proof. exact calc_image_offset_mapped. Qed.
Print Assumptions C19_offset_probes.

(** with a descriptor neither the flash map nor the BIOS-region parser has a say (unconditional) *)
Theorem C19_offset_descriptor_decides_alone : forall r fm fm' b b' n addr,
  calc_image_offset (mkPR (Some r) fm b) n addr = calc_image_offset (mkPR (Some r) fm' b') n addr.
Proof. exact calc_image_offset_descriptor_only. Qed.
Print Assumptions C19_offset_descriptor_decides_alone.

(** descriptor and ANY flash map: the end of the BIOS region is at 4 GiB *)
Theorem C19_offset_descriptor_first : forall off size fm b n addr,
  0 <= off -> 0 <= size -> off + size < W32 -> BASE - (off + size) <= addr < BASE ->
  calc_image_offset (mkPR (Some (off, size)) fm b) n addr = Ok (spec_offset (off + size) addr).
Proof. exact calc_image_offset_descriptor_first. Qed.
Print Assumptions C19_offset_descriptor_first.

(** no descriptor: the COREBOOT area decides, whether or not the image parses as a BIOS region *)
Theorem C19_offset_fmap_without_descriptor : forall off size b n addr,
  0 <= off -> 0 <= size -> off + size < W32 -> BASE - (off + size) <= addr < BASE ->
  calc_image_offset (mkPR None (Some (off, size)) b) n addr = Ok (spec_offset (off + size) addr).
Proof. exact calc_image_offset_fmap_second. Qed.
Print Assumptions C19_offset_fmap_without_descriptor.

(** closed instance: 1 MiB, BIOS region [0x1000, 1 MiB), COREBOOT area [0x10000, 0xE0000) under
    a 128 KiB BOOTBLOCK area: 4GiB-16 is offset 0xFFFF0 (with the descriptor), 0xDFFF0 (the same
    flash map without descriptor) *)
Theorem C19_offset_two_probes_witness :
  calc_image_offset (mkPR (Some (4096, 1044480)) (Some (65536, 851968)) true) 1048576 4294967280 = Ok 1048560 /\
  calc_image_offset (mkPR None (Some (65536, 851968)) true) 1048576 4294967280 = Ok 917488.
Proof. exact calc_image_offset_two_probes_witness. Qed.
Print Assumptions C19_offset_two_probes_witness.

(** the digest clause for every combination of probe answers *)
Theorem C19_digest_exact_probes : forall (H : Z -> list Z -> list Z) ver alg p region_end img segs,
  mapped_region p (zlen img) region_end -> region_end <= zlen img ->
  alg_supported ver alg = true ->
  Forall (fun s => included s = true -> seg_in_region region_end img s) segs ->
  ibbs_digest H ver alg (probe_layout p) img segs =
  Ok (H alg (concat (map (fun s => slice img (spec_offset region_end (sg_base s)) (sg_size s))
                         (filter included segs)))).
Proof. exact ibbs_digest_probes. Qed.
Print Assumptions C19_digest_exact_probes.

(** descriptor whose BIOS region ends at the end of the image and ANY flash map beside it
    (COREBOOT area ending anywhere): the independent validation accepts *)
Theorem C19_validator_accepts_descriptor_with_fmap : forall off size fm b img segs p,
  0 <= off -> 0 <= size -> off + size = zlen img -> zlen img < W32 ->
  Forall (fun s => included s = true ->
                   BASE - zlen img <= sg_base s < BASE /\ seg_inside (spec_offset (zlen img)) img s) segs ->
  digest_preimage (probe_layout (mkPR (Some (off, size)) fm b)) img segs = Ok p ->
  ibbs_match (probe_layout (mkPR (Some (off, size)) fm b)) img segs = Ok true.
Proof. exact ibbs_match_descriptor_with_fmap. Qed.
Print Assumptions C19_validator_accepts_descriptor_with_fmap.

(** ... stitching changes only the targeted entries' regions *)
Theorem C19_stitch_only_entry_regions_descriptor_with_fmap : forall off size fm b img fit acm bpm km i,
  0 <= off -> 0 <= size -> off + size = zlen img -> zlen img < W32 ->
  entries_in_window (zlen img) fit -> 0 <= i ->
  (forall e, In e fit -> ~ in_entry_region (zlen img) e acm bpm km i) ->
  zn (fst (stitch (probe_layout (mkPR (Some (off, size)) fm b)) img (Some fit) acm bpm km)) i = zn img i.
Proof. exact stitch_frame_descriptor_with_fmap. Qed.
Print Assumptions C19_stitch_only_entry_regions_descriptor_with_fmap.

(** ... and the generation chain on an object with any history yields that image's segments,
    that image's hash for every listed algorithm, and is accepted *)
Theorem C19_seq_pipeline_descriptor_with_fmap : forall ver st flags fit off size fm b img,
  0 < se_count st ->
  0 <= off -> 0 <= size -> off + size = zlen img -> zlen img < W32 ->
  Forall (fun e => is_startup e = true -> fit_entry_wf e) fit ->
  Forall (fun s => included s = true -> seg_in_region (zlen img) img s)
         (map (fun e => mkSeg (fe_addr e) (16 * fe_size e) flags) (filter is_startup fit)) ->
  Forall (fun ad => alg_supported ver (fst ad) = true) (bg_digs st) ->
  bg_digs st <> [] ->
  let l := probe_layout (mkPR (Some (off, size)) fm b) in
  let segs := map (fun e => mkSeg (fe_addr e) (16 * fe_size e) flags) (filter is_startup fit) in
  let p := concat (map (fun s => slice img (spec_offset (zlen img) (sg_base s)) (sg_size s))
                       (filter included segs)) in
  run ver st [OCreateSegs 0 flags (Some fit); OCreateDigest l img; OMatch img] =
  (mkBG (set_nth 0 segs (bg_segs st)) (map (fun ad => (fst ad, Some (fst ad, p))) (bg_digs st)),
   [RUnit (Ok tt); RUnit (Ok tt); RBool (Ok true)]).
Proof. exact run_pipeline_descriptor_with_fmap. Qed.
Print Assumptions C19_seq_pipeline_descriptor_with_fmap.

(** closed instance: 64 bytes, BIOS region [16,64), COREBOOT area [24,48): the segment
    (4GiB-48, 16) is bytes [16,32) and is accepted; the same flash map without descriptor
    maps the end of the COREBOOT area to 4 GiB (bytes [0,16)) *)
Theorem C19_digest_two_probes_witness :
  digest_preimage (probe_layout (mkPR (Some (16, 48)) (Some (24, 24)) true)) (seqZ 0 64) [mkSeg (4294967296 - 48) 16 0] = Ok (seqZ 16 16) /\
  ibbs_match (probe_layout (mkPR (Some (16, 48)) (Some (24, 24)) true)) (seqZ 0 64) [mkSeg (4294967296 - 48) 16 0] = Ok true /\
  digest_preimage (probe_layout (mkPR None (Some (24, 24)) true)) (seqZ 0 64) [mkSeg (4294967296 - 48) 16 0] = Ok (seqZ 0 16).
Proof. exact digest_two_probes_witness. Qed.
Print Assumptions C19_digest_two_probes_witness.

(* ================================================================== *)
(** ** the hypotheses are satisfiable *)

(** a 64-byte "flash image" with a descriptor-style layout: BIOS region [16, 64) *)
Example ex_anchored : anchored (LIFD 16 48) 64 64.
Proof. cbn. unfold W32. lia. Qed.

Example ex_anchored_coreboot : anchored (LCoreboot 32 32) (zlen (seqZ 0 64)) (zlen (seqZ 0 64)).
Proof. cbn. unfold W32. lia. Qed.

(** a 64-byte bare BIOS region *)
Example ex_anchored_bios_only : anchored LBiosOnly (zlen (seqZ 0 64)) (zlen (seqZ 0 64)).
Proof. cbn. unfold W32. lia. Qed.

(** a FIT with the startup entries at positions 1 and 3 of 4 *)
Example ex_fit : list fit_entry :=
  [mkFE 0 2314885531223937887 4; mkFE 7 (4294967296 - 48) 1; mkFE 11 (4294967296 - 16) 8; mkFE 7 (4294967296 - 32) 1].

Example ex_segments :
  Forall (fun e => is_startup e = true -> fit_entry_wf e) ex_fit /\
  create_ibb_segments 1 0 0 (Some ex_fit) = Ok [mkSeg (4294967296 - 48) 16 0; mkSeg (4294967296 - 32) 16 0].
Proof.
  split; [|vm_compute; reflexivity].
  repeat constructor; cbn; intros; try discriminate; unfold W32; cbn; lia.
Qed.

(** segment list in arbitrary order with an excluded segment; every included one in the region *)
Example ex_segs : list segment := [mkSeg (4294967296 - 16) 8 0; mkSeg 12345 99 1; mkSeg (4294967296 - 48) 16 2].

Example ex_digest_hyps :
  Forall (fun s => included s = true -> seg_in_region 64 (seqZ 0 64) s) ex_segs /\
  digest_preimage (LIFD 16 48) (seqZ 0 64) ex_segs = Ok (seqZ 48 8 ++ seqZ 16 16) /\
  ibbs_match (LIFD 16 48) (seqZ 0 64) ex_segs = Ok true /\
  alg_supported 1 11 = true /\ alg_supported 2 12 = true /\ alg_supported 2 18 = true /\
  alg_supported 1 12 = false.
Proof.
  split; [|vm_compute; repeat split; reflexivity].
  unfold ex_segs. repeat constructor; intros Hi; try (vm_compute in Hi; discriminate);
    unfold seg_in_region, seg_inside, spec_offset, BASE; cbn; lia.
Qed.

(** stitching a 2-byte KM into an 8-byte KM entry *)
Example ex_stitch :
  entries_in_window 64 ex_fit /\
  (let '(f, ok) := stitch (LIFD 16 48) (seqZ 0 64) (Some ex_fit) [] [] [255; 254] in
   ok = true /\ zlen f = 64 /\ zn f 48 = 255 /\ zn f 49 = 254 /\ zn f 50 = 50 /\ zn f 47 = 47) /\
  disjoint_regions (spec_targets 64 ex_fit [] [] [255; 254]) /\
  ~ in_entry_region 64 (mkFE 11 (4294967296 - 16) 8) [] [] [255; 254] 47 /\
  in_entry_region 64 (mkFE 11 (4294967296 - 16) 8) [] [] [255; 254] 48.
Proof.
  split; [|split; [vm_compute; repeat split; reflexivity|]].
  - unfold entries_in_window, ex_fit.
    repeat (apply Forall_cons;
            [intros Hi; try (vm_compute in Hi; discriminate);
             unfold entry_in_window, BASE; cbn [fe_addr fe_size]; lia|]).
    apply Forall_nil.
  - split; [vm_compute; repeat split; constructor|].
    unfold in_entry_region, entry_span, spec_offset, BASE. cbn. lia.
Qed.

(** an object with a history (stale segments in both SE elements, a digest of another image)
    on which the generation chain is run for the 64-byte image above *)
Example ex_history : bg_state :=
  mkBG [[mkSeg 1 2 3; mkSeg (4294967296 - 8) 8 0]; [mkSeg 7 7 7]] [(11, Some (12, [1; 2; 3])); (12, None)].

Example ex_pipeline_hyps :
  0 < se_count ex_history /\
  Forall (fun e => is_startup e = true -> fit_entry_wf e) ex_fit /\
  Forall (fun s => included s = true -> seg_in_region 64 (seqZ 0 64) s)
         (map (fun e => mkSeg (fe_addr e) (16 * fe_size e) 0) (filter is_startup ex_fit)) /\
  Forall (fun ad => alg_supported 2 (fst ad) = true) (bg_digs ex_history) /\
  run 2 ex_history [OCreateSegs 0 0 (Some ex_fit); OCreateDigest (LIFD 16 48) (seqZ 0 64); OMatch (seqZ 0 64)] =
  (mkBG [[mkSeg (4294967296 - 48) 16 0; mkSeg (4294967296 - 32) 16 0]; [mkSeg 7 7 7]]
        [(11, Some (11, seqZ 16 32)); (12, Some (12, seqZ 16 32))],
   [RUnit (Ok tt); RUnit (Ok tt); RBool (Ok true)]).
Proof.
  split; [vm_compute; reflexivity|].
  split; [repeat constructor; cbn; intros; try discriminate; unfold W32; cbn; lia|].
  split; [|split; [repeat constructor|vm_compute; reflexivity]].
  assert (E : map (fun e => mkSeg (fe_addr e) (16 * fe_size e) 0) (filter is_startup ex_fit) =
              [mkSeg (4294967296 - 48) 16 0; mkSeg (4294967296 - 32) 16 0]) by (vm_compute; reflexivity).
  rewrite E.
  apply Forall_cons; [|apply Forall_cons; [|apply Forall_nil]];
    intros _; unfold seg_in_region, seg_inside, spec_offset, BASE; cbn; lia.
Qed.

(** the hypotheses of the ACM theorems: the 264 KiB image of C19_stitch_acm_256k_witness *)
Example ex_acm_hyps :
  anchored LBiosOnly 270336 270336 /\
  acm_field hdr_256k = 65536 /\ 0 < acm_field hdr_256k < 1073741824 /\
  nth 24 hdr_256k 0 = 0 /\ nth 25 hdr_256k 0 = 0 /\ nth 26 hdr_256k 0 = 1.
Proof. split; [cbn; unfold W32; lia|]. vm_compute. repeat split; reflexivity || discriminate. Qed.

(** a rewrite of the digest list whose algorithms are all offered *)
Example ex_digest_edit_hyps :
  Forall (fun e => alg_supported 2 (edit_alg e) = true) [EKeep 1 4; ENew 18 None; EKeep 0 11] /\
  map fst [(12, Some [1; 2; 3]); (11, @None (list Z)); (18, None)] = map fst [(12, @None (list Z)); (11, Some [9]); (18, None)].
Proof. split; [repeat constructor|reflexivity]. Qed.

(** the three shapes of [mapped_region]: descriptor with a flash map whose COREBOOT area ends
    16 bytes below the end of the BIOS region; the flash map alone; neither *)
Example ex_mapped_region :
  mapped_region (mkPR (Some (16, 48)) (Some (24, 24)) true) 64 64 /\
  mapped_region (mkPR None (Some (24, 24)) true) 64 48 /\
  mapped_region (mkPR None None true) 64 64.
Proof. unfold mapped_region, region_ends, W32. cbn. lia. Qed.
