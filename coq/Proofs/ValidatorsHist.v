(** The verdict theorems of Proofs/Validators.v carried to EVERY run of any
    sequence of runs over one log in one memory (Proofs/ValidatorsRefine.v), with
    the file references computed by the model of datasources.UEFIFiles
    (Proofs/ValidatorsFiles.v); closed witnesses and examples. *)
From Coq Require Import Permutation.
From CSS Require Import Lib.Base Model.Ranges Model.Refs Model.Validators Model.ValidatorsHeap
  Proofs.Ranges Proofs.Refs Proofs.Validators Proofs.ValidatorsHeap Proofs.ValidatorsRefine Proofs.ValidatorsFiles.

Lemma nth_error_map_inv {A B} (f : A -> B) l k y : nth_error (map f l) k = Some y -> exists x, nth_error l k = Some x /\ y = f x.
Proof.
  revert k. induction l as [|a t IH]; intros [|k] H; cbn in H; try discriminate.
  - inversion H. exists a. split; reflexivity.
  - apply IH. exact H.
Qed.

(** the k-th run of a sequence *)
Definition kth_run (h0 : heap) (l : list hstep) (ps : list pass) (k : nat) (p : pass) (r : pres) : Prop :=
  nth_error ps k = Some p /\ nth_error (snd (run_passes h0 l ps)) k = Some r.

Lemma kth_run_first sz A h0 l ps k p r :
  WFheap h0 (windows l) -> log_sized l -> WFlog sz A (val_log h0 l) ->
  kth_run h0 l ps k p r -> r = vpass (val_log h0 l) p.
Proof.
  intros WF Sl Wl (Hp & Hr). destruct (passes_first sz A h0 l ps WF Sl Wl) as (V & _).
  rewrite V in Hr. apply nth_error_map_inv in Hr. destruct Hr as (p' & Hp' & ->). congruence.
Qed.

(** ** Actors: every run of the actors validator, alone or inside
    validator.All().Validate, whatever ran before it on the same log *)
Theorem actor_iff_every_run sz A h0 l ps k out :
  ArtsDist A -> WFheap h0 (windows l) -> log_sized l -> WFlog sz A (val_log h0 l) ->
  kth_run h0 l ps k PVap (RIss (Ok out)) ->
  forall i, (exists v, In v out /\ vi_step v = Z.of_nat i) <->
    (exists st a code, takes_over (val_log h0 l) i st a /\ s_code st = Some code /\
       exists x j, unprot sz (val_log h0 l) i code x j).
Proof.
  intros AD WF Sl Wl K. pose proof (kth_run_first sz A h0 l ps k _ _ WF Sl Wl K) as E. cbn [vpass] in E.
  inversion E as [E']. symmetry in E'. exact (actor_iff sz A _ out AD Wl E').
Qed.

Lemma vall_split files l c : vall files l = Ok c ->
  exists a b, vap l = Ok a /\ vfc files l = Ok b /\ c = chain a b (vni l).
Proof.
  unfold vall. destruct (vap l) as [a| | |]; try discriminate. cbn [bind].
  destruct (vfc files l) as [b| | |]; try discriminate. cbn [bind]. intros H. inversion H. exists a, b. repeat split.
Qed.

Theorem chain_every_run sz A h0 l ps k files c :
  WFheap h0 (windows l) -> log_sized l -> WFlog sz A (val_log h0 l) ->
  kth_run h0 l ps k (PAll files) (RChain (Ok c)) ->
  exists a b, vap (val_log h0 l) = Ok a /\ vfc files (val_log h0 l) = Ok b /\
    c = chain a b (vni (val_log h0 l)).
Proof.
  intros WF Sl Wl K. pose proof (kth_run_first sz A h0 l ps k _ _ WF Sl Wl K) as E. cbn [vpass] in E.
  inversion E as [E']. symmetry in E'. apply vall_split. exact E'.
Qed.

(** ** Final coverage with the files of the parsed image *)

(** [nodes]: the file nodes of the image; the verdict is about the bytes of the
    files that have a PE32, PIC or TE section *)
Theorem final_exact_files sz A img nodes l out :
  ArtsDist A -> In img A -> zlen (acontent img) = sz (aid img) -> sz (aid img) <= W32 ->
  Forall (node_ok sz img) nodes -> WFlog sz A l -> l <> [] ->
  vfc (uefi_files img nodes) l = Ok out ->
  exists nm measured,
    (forall a m j, den measured a m j <-> m = MNil /\ covers sz (meas_upto l) a j) /\
    (forall a m j, den nm a m j <-> m = MNil /\ (a = aid img /\ in_exec_file nodes j) /\ ~ covers sz (meas_upto l) a j) /\
    (nm = [] <-> forall j, in_exec_file nodes j -> covers sz (meas_upto l) (aid img) j) /\
    out = match nm with
          | [] => []
          | _ => [mkVI (zlen l - 1) 6 nm measured]
          end.
Proof.
  intros AD Ii Hsz Hle Fn Wl NE E.
  destruct (uefi_files_spec sz img Hsz Hle nodes Fn) as (files & Ef & Sf & If & Pf & Cf).
  rewrite Ef in E.
  assert (If' : arts_in A files).
  { eapply Forall_impl; [|exact If]. cbn beta. intros r [<- | []]. exact Ii. }
  destruct (final_exact sz A files l out AD Sf If' Pf Wl NE E) as (nm & measured & D1 & D2 & D3 & D4).
  exists nm, measured. split; [exact D1|]. split; [|split; [|exact D4]].
  - intros a m j. rewrite D2, Cf. reflexivity.
  - rewrite D3. split.
    + intros H j Hj. apply H. apply Cf. split; [reflexivity | exact Hj].
    + intros H a j Hc. apply Cf in Hc. destruct Hc as (-> & Hj). apply H. exact Hj.
Qed.

Theorem final_exact_every_run sz A img nodes h0 l ps k out :
  ArtsDist A -> In img A -> zlen (acontent img) = sz (aid img) -> sz (aid img) <= W32 ->
  Forall (node_ok sz img) nodes ->
  WFheap h0 (windows l) -> log_sized l -> WFlog sz A (val_log h0 l) -> l <> [] ->
  kth_run h0 l ps k (PVfc (uefi_files img nodes)) (RIss (Ok out)) ->
  exists nm measured,
    (forall a m j, den measured a m j <-> m = MNil /\ covers sz (meas_upto (val_log h0 l)) a j) /\
    (forall a m j, den nm a m j <-> m = MNil /\ (a = aid img /\ in_exec_file nodes j) /\ ~ covers sz (meas_upto (val_log h0 l)) a j) /\
    (nm = [] <-> forall j, in_exec_file nodes j -> covers sz (meas_upto (val_log h0 l)) (aid img) j) /\
    out = match nm with
          | [] => []
          | _ => [mkVI (zlen l - 1) 6 nm measured]
          end.
Proof.
  intros AD Ii Hsz Hle Fn WF Sl Wl NE K.
  pose proof (kth_run_first sz A h0 l ps k _ _ WF Sl Wl K) as E. cbn [vpass] in E. inversion E as [E']. symmetry in E'.
  assert (NE' : val_log h0 l <> []) by (destruct l; [congruence | discriminate]).
  replace (zlen l) with (zlen (val_log h0 l)) by (unfold zlen, val_log; rewrite map_length; reflexivity).
  exact (final_exact_files sz A img nodes _ out AD Ii Hsz Hle Fn Wl NE' E').
Qed.

(** ** Totality on every run *)
Theorem every_run_returns sz A h0 l ps k p r :
  ArtsDist A -> WFheap h0 (windows l) -> log_sized l -> WFlog sz A (val_log h0 l) ->
  kth_run h0 l ps k p r ->
  match p, r with
  | PVap, RIss o => exists out, o = Ok out
  | PSm, RRefs o => exists out, o = Ok out
  | PVfc (Err _), RIss o => exists out, o = Ok out
  | PAll (Err _), RChain o => exists out, o = Ok out
  | PVfc _, RIss _ => True
  | PAll _, RChain _ => True
  | _, _ => False
  end.
Proof.
  intros AD WF Sl Wl K. rewrite (kth_run_first sz A h0 l ps k _ _ WF Sl Wl K).
  destruct p as [|f| |f]; cbn [vpass].
  - apply (vap_total sz A AD). exact Wl.
  - destruct f; try exact Logic.I. apply (vfc_total sz A AD (Err code)); [exact Wl | exact Logic.I].
  - unfold sm_all. apply (sm_total sz A AD).
    clear -Wl. induction Wl as [|st t (_ & Im & _) Wt IH]; cbn [flat_map]; [constructor|].
    apply Forall_app. split; assumption.
  - destruct f; try exact Logic.I. unfold vall.
    destruct (vap_total sz A AD _ Wl) as (a & ->). cbn [bind].
    destruct (vfc_total sz A AD (Err code) _ Wl Logic.I) as (b & ->). cbn [bind]. eexists. reflexivity.
Qed.

(** ** MeasuredDataSlice.References() *)
Lemma mds_refs_in {T} (ds : list (list T)) x : In x (mds_refs ds) <-> exists d, In d ds /\ In x d.
Proof. unfold mds_refs. apply in_concat. Qed.
Lemma mds_refs_app {T} (d1 d2 : list (list T)) : mds_refs (d1 ++ d2) = mds_refs d1 ++ mds_refs d2.
Proof. unfold mds_refs. apply concat_app. Qed.

(** ** Closed witnesses *)

(** the log of [ok_log] satisfies the hypotheses of the history theorems; its
    memory IS written (the three ranges of step 0 are sorted by the first run that
    looks at them) and five runs of four kinds return what the first reading says *)
Lemma ok_log_hist_hyps :
  WFheap ok_heap (windows ok_log) /\ log_sized ok_log /\ ArtsDist [wimg] /\ WFlog xsz64 [wimg] (val_log ok_heap ok_log).
Proof.
  split; [exact ok_log_hyps|]. split.
  - repeat constructor.
  - split; [apply arts_distb_spec; vm_compute; reflexivity | apply wf_logb_spec; vm_compute; reflexivity].
Qed.

Definition ok_passes : list pass := [PSm; PVap; PVfc (Err 1); PAll (Err 1); PVap].

Lemma ok_log_runs :
  fst (run_passes ok_heap ok_log ok_passes) = [[]; [mkR 16 4; mkR 32 4; mkR 48 4; mkR 0 0]; [mkR 8 4]] /\
  snd (run_passes ok_heap ok_log ok_passes) =
    [RRefs (Ok [mkRef wimg MNil [mkR 8 4; mkR 16 4; mkR 32 4; mkR 48 4]]);
     RIss (Ok []);
     RIss (Ok [mkVI 1 5 [] []]);
     RChain (Ok [inl (mkVI 1 5 [] [])]);
     RIss (Ok [])].
Proof. split; vm_compute; reflexivity. Qed.

(** UEFIFiles on a concrete node list: two adjacent executable files (a TE section
    in second place; a PIC section) are merged into one range, the file whose only
    sections are RAW and DXE_DEPEX and the file without sections are left out *)
Definition ex_nodes : list fnode :=
  [mkFN 32 8 [25; 18]; mkFN 8 8 [25; 19]; mkFN 40 8 [17]; mkFN 56 4 []].
Lemma ex_nodes_ok : Forall (node_ok xsz64 ximg) ex_nodes /\
  uefi_files ximg ex_nodes = Ok [mkRef ximg MPhys [mkR (W32 - 64 + 32) 16]].
Proof.
  split; [|vm_compute; reflexivity].
  repeat constructor; unfold node_ok, xsz64; cbn; lia.
Qed.

(** without [ArtsDist]: (a) two RawBytes artifacts; bytes 0..16 of the second are
    measured, the file reference points to bytes 0..16 of the first: nothing is
    reported although no byte of the file was measured; (b) the Measured field of
    the issue for an unmeasured file of the first artifact lists bytes of the
    second one as bytes of the first *)
Definition d6_files : list ref := [mkRef xraw1 MNil [mkR 0 16]].
Definition d6_vfc_log : list step := [mkStep None None [mkRef xraw2 MNil [mkR 0 16]] []].
Theorem final_exact_refuted : exists sz A files l out,
  std_refs sz files /\ arts_in A files /\ Forall pointed files /\ WFlog sz A l /\ l <> [] /\
  vfc (Ok files) l = Ok out /\ out = [] /\
  exists a j, covers sz files a j /\ ~ covers sz (meas_upto l) a j.
Proof.
  exists xsz64, [xraw1; xraw2], d6_files, d6_vfc_log, [].
  assert (W : std_refs xsz64 d6_files /\ arts_in [xraw1; xraw2] d6_files)
    by (apply (wf_refsb_spec xsz64 [xraw1; xraw2]); vm_compute; reflexivity).
  destruct W as (W1 & W2).
  split; [exact W1|]. split; [exact W2|].
  split; [constructor; [apply pointedb_spec; vm_compute; reflexivity | constructor]|].
  split; [apply wf_logb_spec; vm_compute; reflexivity|].
  split; [discriminate|]. split; [vm_compute; reflexivity|]. split; [reflexivity|].
  exists 1, 0. split.
  - apply (coversb_true xsz64). vm_compute. reflexivity.
  - apply (coversb_false xsz64); [|vm_compute; reflexivity].
    apply (wf_refsb_spec xsz64 [xraw1; xraw2]). vm_compute. reflexivity.
Qed.

(** two instances of one non-RawBytes artifact type in one measurement history:
    compareReferenceType panics, and so do the validators (no recover) *)
Definition ximg2 : art := mkArt 2 1 false (repeat 0 64%nat).
Definition twin_log : list step :=
  [mkStep None None [mkRef ximg MNil [mkR 0 8]; mkRef ximg2 MNil [mkR 0 8]] []].
Theorem validators_return_refuted : exists sz A l,
  WFlog sz A l /\ vap l = Panic /\ vfc (Err 1) l = Panic.
Proof.
  exists xsz64, [ximg; ximg2], twin_log.
  split; [apply wf_logb_spec; vm_compute; reflexivity|]. split; vm_compute; reflexivity.
Qed.

(** the final-coverage clause with the files of [ex_nodes] (executable bytes
    32..48): the log of [ok_log] measures 8..12, 16..20, 32..36, 48..52, so 36..48
    is reported -- by the first run, and again after pcr0tool's merge has sorted
    the memory of the log *)
Lemma ok_log_files_runs :
  snd (run_passes ok_heap ok_log [PVfc (uefi_files wimg ex_nodes); PSm; PVfc (uefi_files wimg ex_nodes)]) =
    [RIss (Ok [mkVI 1 6 [mkRef wimg MNil [mkR 36 12]] [mkRef wimg MNil [mkR 8 4; mkR 16 4; mkR 32 4; mkR 48 4]]]);
     RRefs (Ok [mkRef wimg MNil [mkR 8 4; mkR 16 4; mkR 32 4; mkR 48 4]]);
     RIss (Ok [mkVI 1 6 [mkRef wimg MNil [mkR 36 12]] [mkRef wimg MNil [mkR 8 4; mkR 16 4; mkR 32 4; mkR 48 4]]])].
Proof. vm_compute. reflexivity. Qed.

(** two readings of one log that differ by an in-place sort are [sreq] *)
Lemma ok_log_sreq :
  Forall2 sreq (val_log ok_heap ok_log) (val_log (fst (run_passes ok_heap ok_log [PSm])) ok_log) /\
  val_log ok_heap ok_log <> val_log (fst (run_passes ok_heap ok_log [PSm])) ok_log.
Proof.
  split.
  - repeat constructor.
  - vm_compute. discriminate.
Qed.
