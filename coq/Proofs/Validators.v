(** Proofs about Model/Validators.v.  The reference algebra facts come from
    Proofs/Refs.v and Proofs/Ranges.v (C11); what is needed beyond them (keys,
    well-formedness and "has a byte" through SortAndMerge / Exclude, resolution of
    physical addresses) is proved here. *)
From Coq Require Import Permutation.
From CSS Require Import Lib.Base Model.Ranges Model.Refs Model.Validators Proofs.Ranges Proofs.Refs.

(** ** [sm] / [exclude] realise the relations of C11 *)

Lemma ins_ref_perm x l : Permutation (x :: l) (ins_ref x l).
Proof.
  induction l as [|y t IH]; cbn [ins_ref]; [apply Permutation_refl|].
  destruct (is_lt (cmp_ref y x)); [|apply Permutation_refl].
  eapply perm_trans; [apply perm_swap|]. apply perm_skip. exact IH.
Qed.
Lemma sort_refs_perm s : Permutation s (sort_refs s).
Proof.
  induction s as [|a t IH]; cbn [sort_refs fold_right]; [constructor|].
  eapply perm_trans; [apply perm_skip; exact IH | apply ins_ref_perm].
Qed.

Lemma sm_rel s out : sm s = Ok out -> sortmerge_rel s out.
Proof.
  unfold sm, sortmerge_rel. destruct s as [|a t].
  - intros H. inversion H. split; [reflexivity|]. exists []. split; [constructor|]. split; reflexivity.
  - destruct (has_conflict (a :: t)) eqn:C; [discriminate|].
    destruct (sorted_cmp (sort_refs (a :: t))) eqn:S; [|discriminate].
    intros H. inversion H. subst out. split; [reflexivity|].
    exists (sort_refs (a :: t)). split; [apply sort_refs_perm|]. split; [exact S | reflexivity].
Qed.

Lemma exclude_is_rel s exc out : exclude s exc = Ok out -> exclude_rel s exc out.
Proof.
  unfold exclude, exclude_rel. destruct s as [|a t].
  - intros H. inversion H. left. split; reflexivity.
  - intros H. right. split; [discriminate|].
    destruct (sm (a :: t)) as [s0| | |] eqn:E0; try discriminate. cbn [bind] in H.
    destruct (sm exc) as [s1| | |] eqn:E1; try discriminate. cbn [bind] in H.
    exists s0, s1. split; [apply sm_rel; assumption|]. split; [apply sm_rel; assumption | assumption].
Qed.

(** [Exclude()] without arguments ("a copy"): SortAndMerge of the receiver *)
Lemma excl_walk_nil s0 : excl_walk s0 [] = Ok s0.
Proof. destruct s0; reflexivity. Qed.
Lemma exclude_nil s out : exclude s [] = Ok out -> sortmerge_rel s out.
Proof.
  unfold exclude. destruct s as [|a t].
  - intros H. inversion H. apply sm_rel. reflexivity.
  - destruct (sm (a :: t)) as [s0| | |] eqn:E0; try discriminate. cbn [bind sm].
    rewrite excl_walk_nil. intros H. inversion H. subst out. apply sm_rel. exact E0.
Qed.

(** ** Properties of single references carried through SortAndMerge / Exclude *)

(** a property of references that depends on the key only and is closed under
    replacing the ranges (see the instances below) *)
Section Through.
  Variable Q : ref -> Prop.
  (** merging the ranges of a group keeps [Q] *)
  Hypothesis Q_norm : forall r, Q r -> Q (set_ranges r (ranges_sm (rranges r))).
  Hypothesis Q_join : forall c r, Q c -> Q r -> art_eqb (rart r) (rart c) = true -> mapper_eqb (rmap r) (rmap c) = true ->
    Q (set_ranges c (rranges c ++ rranges r)).

  Lemma sm_loop_Q l : forall cur, Q cur -> Forall Q l -> Forall Q (sm_loop cur l).
  Proof.
    induction l as [|r t IH]; intros cur Qc F; cbn [sm_loop].
    - constructor; [apply Q_norm; exact Qc | constructor].
    - inversion F as [|? ? Qr Ft]; subst.
      destruct (art_eqb (rart r) (rart cur) && mapper_eqb (rmap r) (rmap cur)) eqn:E.
      + apply andb_prop in E. destruct E as (E1 & E2). apply IH; [|exact Ft]. apply Q_join; assumption.
      + destruct (rranges cur) eqn:Rc; [apply IH; assumption|].
        constructor; [|apply IH; assumption]. rewrite <- Rc. apply Q_norm. exact Qc.
  Qed.

  Lemma refs_sm_sorted_Q s : Forall Q s -> Forall Q (refs_sm_sorted s).
  Proof.
    intros F. unfold refs_sm_sorted.
    assert (F' : Forall Q (map (fun r => set_ranges r (ranges_sm (rranges r))) s)).
    { induction F; cbn [map]; constructor; [apply Q_norm|]; assumption. }
    destruct (map _ s) as [|r t]; [constructor|]. inversion F'; subst. apply sm_loop_Q; assumption.
  Qed.

  Lemma sortmerge_Q s out : Forall Q s -> sortmerge_rel s out -> Forall Q out.
  Proof.
    intros F (C & s' & P & S & ->).
    apply refs_sm_sorted_Q. eapply Permutation_Forall; eassumption.
  Qed.
End Through.

(** *** okref *)
Lemma sortmerge_ok s out : NoOverflow s -> sortmerge_rel s out -> Forall okref out.
Proof.
  apply sortmerge_Q.
  - intros r O. apply okref_set_ranges. apply ranges_sm_sep. exact O.
  - intros c r Oc Or _ _. apply okref_set_ranges. apply Forall_app. split; assumption.
Qed.

(** *** keys *)
Lemma sortmerge_keys (K : art * mapper -> Prop) s out :
  Forall (fun r => K (rkey r)) s -> sortmerge_rel s out -> Forall (fun r => K (rkey r)) out.
Proof.
  apply sortmerge_Q.
  - intros r H. exact H.
  - intros c r Hc _ _ _. exact Hc.
Qed.

Lemma excl_walk_keys (K : art * mapper -> Prop) : forall s0 s1 out,
  Forall (fun r => K (rkey r)) s0 -> excl_walk s0 s1 = Ok out -> Forall (fun r => K (rkey r)) out.
Proof.
  induction s0 as [|r0 t0 IH0]; intros s1 out F0 E.
  { destruct s1; inversion E; constructor. }
  inversion F0 as [|? ? K0 Ft0]; subst.
  revert out E. induction s1 as [|r1 t1 IH1]; intros out E.
  { inversion E. subst out. exact F0. }
  rewrite excl_walk_cons in E. destruct (cmp_ref r0 r1).
  - destruct (excl_walk t0 (r1 :: t1)) as [rest| | |] eqn:E'; try discriminate. cbn [bind] in E.
    inversion E. subst out. constructor; [exact K0 | eapply IH0; eassumption].
  - destruct (excl_walk t0 t1) as [rest| | |] eqn:E'; try discriminate. cbn [bind] in E.
    pose proof (IH0 t1 rest Ft0 E') as Fr.
    destruct (exclude_ranges (rranges r0) (rranges r1)); inversion E; subst out; [exact Fr|].
    constructor; [exact K0 | exact Fr].
  - apply IH1. exact E.
  - discriminate.
Qed.

(** *** "the reference has at least one byte" *)
Definition pointed (r : ref) : Prop := exists k, in_ranges (rranges r) k.

Lemma sortmerge_pointed s out : NoOverflow s -> Forall pointed s -> sortmerge_rel s out -> Forall pointed out.
Proof.
  intros O P R.
  assert (F : Forall (fun r => okref r /\ pointed r) s).
  { unfold NoOverflow in O. apply Forall_forall. intros r I. rewrite Forall_forall in O, P. split; [apply O | apply P]; exact I. }
  assert (G : Forall (fun r => okref r /\ pointed r) out).
  { revert F R. apply sortmerge_Q.
    - intros r (Or & (k & Hk)). split; [apply okref_set_ranges; apply ranges_sm_sep; exact Or|].
      exists k. unfold set_ranges. cbn [rranges]. apply ranges_sm_den; assumption.
    - intros c r (Oc & (k & Hk)) (Or & _) _ _. split; [apply okref_set_ranges; apply Forall_app; split; assumption|].
      exists k. unfold set_ranges. cbn [rranges]. apply in_ranges_app. left. exact Hk. }
  eapply Forall_impl; [|exact G]. cbn beta. tauto.
Qed.

Lemma excl_go_len tes : forall cs ce, Forall (fun x => 0 <= rlen x) (excl_go cs ce tes).
Proof.
  assert (W : forall z, 0 <= wrap64 z) by (intros z; apply wrap64_range).
  induction tes as [|te t IH]; intros cs ce; cbn [excl_go].
  - constructor; [cbn [rlen]; apply W | constructor].
  - destruct (rend te <=? cs); [apply IH|]. destruct (ce <=? roff te); [apply IH|].
    assert (Pre : Forall (fun x => 0 <= rlen x) (if cs <? roff te then [mkR cs (wrap64 (roff te - cs))] else [])).
    { destruct (cs <? roff te); [constructor; [cbn [rlen]; apply W | constructor] | constructor]. }
    destruct (ce <=? rend te); [exact Pre|]. apply Forall_app. split; [exact Pre | apply IH].
Qed.

Lemma exclude_ranges_pointed l0 l1 y ys : exclude_ranges l0 l1 = y :: ys -> exists k, in_ranges (y :: ys) k.
Proof.
  intros E. assert (I : In y (exclude_ranges l0 l1)) by (rewrite E; left; reflexivity).
  unfold exclude_ranges in I. apply filter_In in I. destruct I as (I & NZ).
  apply in_flat_map in I. destruct I as (r & _ & I). unfold range_exclude in I.
  pose proof (excl_go_len (ranges_sm l1) (roff r) (rend r)) as L. rewrite Forall_forall in L. specialize (L y I).
  unfold nonzero in NZ. apply negb_true_iff in NZ. apply Z.eqb_neq in NZ.
  exists (roff y). apply Exists_cons. left. unfold inr. lia.
Qed.

Lemma excl_walk_pointed : forall s0 s1 out, Forall pointed s0 -> excl_walk s0 s1 = Ok out -> Forall pointed out.
Proof.
  induction s0 as [|r0 t0 IH0]; intros s1 out F0 E.
  { destruct s1; inversion E; constructor. }
  inversion F0 as [|? ? P0 Ft0]; subst.
  revert out E. induction s1 as [|r1 t1 IH1]; intros out E.
  { inversion E. subst out. exact F0. }
  rewrite excl_walk_cons in E. destruct (cmp_ref r0 r1).
  - destruct (excl_walk t0 (r1 :: t1)) as [rest| | |] eqn:E'; try discriminate. cbn [bind] in E.
    inversion E. subst out. constructor; [exact P0 | eapply IH0; eassumption].
  - destruct (excl_walk t0 t1) as [rest| | |] eqn:E'; try discriminate. cbn [bind] in E.
    pose proof (IH0 t1 rest Ft0 E') as Fr.
    destruct (exclude_ranges (rranges r0) (rranges r1)) as [|y ys] eqn:X; inversion E; subst out; [exact Fr|].
    constructor; [|exact Fr]. unfold pointed, set_ranges. cbn [rranges]. eapply exclude_ranges_pointed. exact X.
  - apply IH1. exact E.
  - discriminate.
Qed.

(** a non-empty result of Exclude over references that all have bytes denotes a byte *)
Lemma exclude_pointed s exc out : NoOverflow s -> Forall pointed s -> exclude_rel s exc out ->
  out <> [] -> exists a m k, den out a m k.
Proof.
  intros O P [(-> & ->) | (NE & s0 & s1 & R0 & R1 & W)] N; [congruence|].
  pose proof (sortmerge_pointed s s0 O P R0) as P0.
  pose proof (excl_walk_pointed s0 s1 out P0 W) as Po.
  destruct out as [|r t]; [congruence|]. inversion Po as [|? ? (k & Hk) _]; subst.
  exists (ai r), (rmap r), k. apply den_cons. left. unfold hit. tauto.
Qed.

(** *** "the list has at least one byte" as the actors validator tests it *)
Definition nonneg_ref (r : ref) : Prop := Forall (fun x => 0 <= rlen x) (rranges r).

Lemma okref_nonneg r : okref r -> nonneg_ref r.
Proof. apply Forall_impl. intros x (_ & H & _). exact H. Qed.

Lemma excl_walk_nonneg : forall s0 s1 out, Forall nonneg_ref s0 -> excl_walk s0 s1 = Ok out -> Forall nonneg_ref out.
Proof.
  induction s0 as [|r0 t0 IH0]; intros s1 out F0 E.
  { destruct s1; inversion E; constructor. }
  inversion F0 as [|? ? P0 Ft0]; subst.
  revert out E. induction s1 as [|r1 t1 IH1]; intros out E.
  { inversion E. subst out. exact F0. }
  rewrite excl_walk_cons in E. destruct (cmp_ref r0 r1).
  - destruct (excl_walk t0 (r1 :: t1)) as [rest| | |] eqn:E'; try discriminate. cbn [bind] in E.
    inversion E. subst out. constructor; [exact P0 | eapply IH0; eassumption].
  - destruct (excl_walk t0 t1) as [rest| | |] eqn:E'; try discriminate. cbn [bind] in E.
    pose proof (IH0 t1 rest Ft0 E') as Fr.
    destruct (exclude_ranges (rranges r0) (rranges r1)) as [|y ys] eqn:X; inversion E; subst out; [exact Fr|].
    constructor; [|exact Fr]. unfold nonneg_ref, set_ranges. cbn [rranges]. rewrite <- X.
    apply Forall_forall. intros x I. unfold exclude_ranges in I. apply filter_In in I. destruct I as (I & _).
    apply in_flat_map in I. destruct I as (r & _ & I). unfold range_exclude in I.
    pose proof (excl_go_len (ranges_sm (rranges r1)) (roff r) (rend r)) as L. rewrite Forall_forall in L. exact (L x I).
  - apply IH1. exact E.
  - discriminate.
Qed.

Lemma has_bytes_den s : Forall nonneg_ref s -> (has_bytes s = true <-> exists a m k, den s a m k).
Proof.
  intros F. unfold has_bytes. rewrite existsb_exists. split.
  - intros (r & I & H). apply existsb_exists in H. destruct H as (x & Ix & NZ).
    rewrite Forall_forall in F. specialize (F r I). unfold nonneg_ref in F. rewrite Forall_forall in F. specialize (F x Ix).
    unfold nonzero in NZ. apply negb_true_iff in NZ. apply Z.eqb_neq in NZ.
    exists (ai r), (rmap r), (roff x). apply den_in. exists r. split; [exact I|]. unfold hit.
    split; [reflexivity|]. split; [reflexivity|]. apply Exists_exists. exists x. split; [exact Ix|]. unfold inr. lia.
  - intros (a & m & k & D). apply den_in in D. destruct D as (r & I & (_ & _ & H)).
    exists r. split; [exact I|]. apply Exists_exists in H. destruct H as (x & Ix & Hx).
    apply existsb_exists. exists x. split; [exact Ix|]. unfold nonzero. apply negb_true_iff. apply Z.eqb_neq.
    unfold inr in Hx. lia.
Qed.

Lemma exclude_rel_nonneg s exc out : NoOverflow s -> exclude_rel s exc out -> Forall nonneg_ref out.
Proof.
  intros O [(-> & ->) | (NE & s0 & s1 & R0 & R1 & W)]; [constructor|].
  eapply excl_walk_nonneg; [|exact W].
  eapply Forall_impl; [|exact (sortmerge_ok s s0 O R0)]. intros r. apply okref_nonneg.
Qed.

(** ** References into artifacts given as image offsets or physical addresses *)

Section Sizes.
  (** [sz a]: Size() of the artifact with identity [a] *)
  Variable sz : Z -> Z.

  (** physical address of offset 0 *)
  Definition base (a : Z) : Z := W32 - sz a.

  (** offset inside artifact [a] of address [k] of address space [m] *)
  Definition off_of (m : mapper) (a k : Z) : Z :=
    match m with MPhys => k - base a | _ => k end.

  (** byte [j] of artifact [a] is referenced by [s] *)
  Definition covers (s : list ref) (a j : Z) : Prop :=
    exists m k, den s a m k /\ j = off_of m a k.

  (** a well-formed reference of the property's universe: image offsets
      (no mapper) or physical addresses inside the 4 GiB window of the image
      (biosimage.PhysMemMapper), ranges that do not wrap, and an artifact whose
      content length is what [sz] says *)
  Definition std_ref (r : ref) : Prop :=
    okref r /\ zlen (acontent (rart r)) = sz (ai r) /\ sz (ai r) <= W32 /\
    (rmap r = MNil \/ (rmap r = MPhys /\ Forall (fun x => base (ai r) <= roff x) (rranges r))).
  Definition std_refs (s : list ref) : Prop := Forall std_ref s.

  Lemma std_refs_ok s : std_refs s -> NoOverflow s.
  Proof. intros F. eapply Forall_impl; [|exact F]. intros r H. apply H. Qed.

  Lemma covers_app s1 s2 a j : covers (s1 ++ s2) a j <-> covers s1 a j \/ covers s2 a j.
  Proof.
    unfold covers. split.
    - intros (m & k & D & E). apply den_app in D. destruct D; [left | right]; exists m, k; tauto.
    - intros [(m & k & D & E) | (m & k & D & E)]; exists m, k; rewrite den_app; tauto.
  Qed.
  Lemma covers_nil a j : ~ covers [] a j.
  Proof. intros (m & k & D & _). apply den_nil in D. exact D. Qed.
  Lemma covers_ext s s' : (forall a m k, den s a m k <-> den s' a m k) -> forall a j, covers s a j <-> covers s' a j.
  Proof. intros H a j. unfold covers. split; intros (m & k & D & E); exists m, k; (split; [apply H; exact D | exact E]). Qed.

  (** *** the offsets of merged ranges are offsets of input ranges *)
  Lemma merge_go_roff (P : Z -> Prop) l : forall e, P (roff e) -> Forall (fun x => P (roff x)) l ->
    Forall (fun x => P (roff x)) (merge_go e l).
  Proof.
    induction l as [|n t IH]; intros e Pe F; cbn [merge_go].
    - constructor; [exact Pe | constructor].
    - inversion F as [|? ? Pn Ft]; subst. destruct (roff n <=? rend e).
      + apply IH; [cbn [roff]; exact Pe | exact Ft].
      + constructor; [exact Pe | apply IH; assumption].
  Qed.
  Lemma ranges_sm_roff (P : Z -> Prop) l : Forall (fun x => P (roff x)) l -> Forall (fun x => P (roff x)) (ranges_sm l).
  Proof.
    intros F. unfold ranges_sm.
    assert (F' : Forall (fun x => P (roff x)) (sort_off l)).
    { eapply Permutation_Forall; [apply Permutation_sym; apply sort_off_perm | exact F]. }
    unfold merge_ranges. destruct (sort_off l) as [|e t]; [constructor|].
    inversion F'; subst. apply merge_go_roff; assumption.
  Qed.

  (** *** SortAndMerge keeps references well-formed *)
  Lemma sortmerge_std s out : std_refs s -> sortmerge_rel s out -> std_refs out.
  Proof.
    apply sortmerge_Q.
    - intros r (O & Z1 & Z2 & M). unfold std_ref, set_ranges, ai. cbn [rart rmap rranges].
      split; [apply ranges_sm_sep; exact O|]. split; [exact Z1|]. split; [exact Z2|].
      destruct M as [M | (M & B)]; [left; exact M | right]. split; [exact M|].
      apply ranges_sm_roff. exact B.
    - intros c r (Oc & Z1 & Z2 & Mc) (Or & _ & _ & Mr) E1 E2.
      apply art_eqb_eq in E1. apply mapper_eqb_eq in E2.
      unfold std_ref, set_ranges, ai. cbn [rart rmap rranges].
      split; [apply Forall_app; split; assumption|]. split; [exact Z1|]. split; [exact Z2|].
      destruct Mc as [Mc | (Mc & Bc)]; [left; exact Mc | right]. split; [exact Mc|].
      apply Forall_app. split; [exact Bc|].
      destruct Mr as [Mr | (_ & Br)]; [congruence|]. unfold ai in Br. rewrite E1 in Br. exact Br.
  Qed.

  (** *** References.Resolve on well-formed references *)
  Definition shift (b : Z) (x : range) : range := mkR (roff x - b) (rlen x).
  Definition res_ref (r : ref) : ref :=
    match rmap r with
    | MNil => r
    | _ => mkRef (rart r) MNil (map (shift (base (ai r))) (rranges r))
    end.

  Lemma resolve_phys size b rs : 0 <= b -> b = W32 - size -> Forall okr rs -> Forall (fun x => b <= roff x) rs ->
    resolve MPhys size rs = Ok (map (shift b) rs).
  Proof.
    intros Hb Eb O B. induction rs as [|x t IH]; [reflexivity|].
    inversion O as [|? ? Ox Ot]; subst. inversion B as [|? ? Bx Bt]; subst.
    cbn [resolve resolve1 bind map]. rewrite (IH Ot Bt). cbn [bind app]. f_equal. f_equal.
    unfold shift. f_equal. destruct Ox as (x0 & x1 & x2).
    rewrite !wrap64_mod, Zplus_mod_idemp_l. replace (roff x - W32 + size) with (roff x - (W32 - size)) by lia.
    apply Z.mod_small. lia.
  Qed.

  Lemma resolve_std s : std_refs s -> refs_resolve s = (map res_ref s, false).
  Proof.
    induction 1 as [|r t (O & Z1 & Z2 & M) Ft IH]; [reflexivity|].
    cbn [refs_resolve map]. unfold res_ref at 1. destruct M as [M | (M & B)]; rewrite M; cbn [is_nil].
    - rewrite IH. reflexivity.
    - rewrite Z1. rewrite (resolve_phys (sz (ai r)) (base (ai r))); [rewrite IH; reflexivity | unfold base; lia | reflexivity | exact O | exact B].
  Qed.

  Lemma resolve_nil s : Forall (fun r => rmap r = MNil) s -> refs_resolve s = (s, false).
  Proof.
    induction 1 as [|r t M Ft IH]; [reflexivity|]. cbn [refs_resolve]. rewrite M. cbn [is_nil]. rewrite IH. reflexivity.
  Qed.

  Lemma in_ranges_shift b l j : in_ranges (map (shift b) l) j <-> in_ranges l (j + b).
  Proof.
    unfold in_ranges. rewrite !Exists_exists. split.
    - intros (y & I & H). apply in_map_iff in I. destruct I as (x & <- & I). exists x. split; [exact I|].
      unfold inr, shift in *. cbn [roff rlen] in H. lia.
    - intros (x & I & H). exists (shift b x). split; [apply in_map; exact I|].
      unfold inr, shift in *. cbn [roff rlen]. lia.
  Qed.

  Lemma res_ref_key r : rart (res_ref r) = rart r /\ rmap (res_ref r) = MNil.
  Proof. unfold res_ref. destruct (rmap r) eqn:M; cbn [rart rmap]; auto. Qed.

  Lemma res_ref_ok r : std_ref r -> okref (res_ref r).
  Proof.
    intros (O & Z1 & Z2 & M). unfold res_ref. destruct M as [M | (M & B)]; rewrite M; [exact O|].
    unfold okref. cbn [rranges]. apply Forall_forall. intros y I. apply in_map_iff in I. destruct I as (x & <- & I).
    unfold okref in O. rewrite Forall_forall in O, B. specialize (O x I). specialize (B x I).
    destruct O as (x0 & x1 & x2). unfold okr, shift. cbn [roff rlen]. unfold base in *. lia.
  Qed.

  Lemma hit_res_ref r a m j : std_ref r ->
    hit (res_ref r) a m j <-> m = MNil /\ exists k, hit r a (rmap r) k /\ j = off_of (rmap r) a k.
  Proof.
    intros (O & Z1 & Z2 & M). unfold res_ref. destruct M as [M | (M & B)]; rewrite M.
    - unfold hit, off_of. rewrite M. split.
      + intros (H1 & H2 & H3). split; [congruence|]. exists j. tauto.
      + intros (-> & k & (H1 & _ & H3) & ->). tauto.
    - unfold hit, off_of, ai. cbn [rart rmap rranges]. rewrite M. split.
      + intros (H1 & H2 & H3). split; [congruence|]. apply in_ranges_shift in H3.
        exists (j + base (aid (rart r))). subst a. split; [tauto | lia].
      + intros (-> & k & (H1 & _ & H3) & ->). subst a. split; [reflexivity|]. split; [reflexivity|].
        apply in_ranges_shift. replace (k - base (aid (rart r)) + base (aid (rart r))) with k by lia. exact H3.
  Qed.

  (** what the resolved list denotes: image offsets only, exactly the covered bytes *)
  Lemma den_resolved s a m j : std_refs s ->
    den (map res_ref s) a m j <-> m = MNil /\ covers s a j.
  Proof.
    intros F. unfold std_refs in F. unfold covers. rewrite den_in. split.
    - intros (y & I & H). apply in_map_iff in I. destruct I as (r & <- & I).
      rewrite Forall_forall in F. apply (hit_res_ref r a m j (F r I)) in H. destruct H as (-> & k & H & E).
      split; [reflexivity|]. exists (rmap r), k. split; [|exact E]. apply den_in. exists r. tauto.
    - intros (-> & m' & k & D & E). apply den_in in D. destruct D as (r & I & H).
      exists (res_ref r). split; [apply in_map; exact I|].
      rewrite Forall_forall in F. apply (hit_res_ref r a MNil j (F r I)). split; [reflexivity|].
      assert (rmap r = m') by (destruct H as (_ & H & _); exact H). subst m'. exists k. tauto.
  Qed.

  Lemma resolved_ok s : std_refs s -> Forall okref (map res_ref s).
  Proof. intros F. unfold std_refs in F. apply Forall_forall. intros y I. apply in_map_iff in I. destruct I as (r & <- & I).
    rewrite Forall_forall in F. apply res_ref_ok. apply F. exact I. Qed.

  Lemma resolved_pointed s : std_refs s -> Forall pointed s -> Forall pointed (map res_ref s).
  Proof.
    intros F P. unfold std_refs in F. apply Forall_forall. intros y I. apply in_map_iff in I. destruct I as (r & <- & I).
    rewrite Forall_forall in F, P. destruct (P r I) as (k & Hk). destruct (F r I) as (_ & _ & _ & M).
    unfold pointed, res_ref. destruct M as [M | (M & _)]; rewrite M; [exists k; exact Hk|].
    cbn [rranges]. exists (k - base (ai r)). apply in_ranges_shift. replace (k - base (ai r) + base (ai r)) with k by lia. exact Hk.
  Qed.

  (** *** artifacts that the comparator can tell apart (the hypothesis D6 needs) *)
  Definition ArtsDist (A : list art) : Prop :=
    forall a1 a2, In a1 A -> In a2 A -> (aid a1 = aid a2 <-> tname a1 = tname a2).
  (** every reference is resolved (no mapper) and points into an artifact of [A] *)
  Definition nil_over (A : list art) (s : list ref) : Prop :=
    Forall (fun r => (fun k => In (fst k) A /\ snd k = MNil) (rkey r)) s.
  Definition arts_in (A : list art) (s : list ref) : Prop := Forall (fun r => In (rart r) A) s.

  Lemma nil_over_dist A s : ArtsDist A -> nil_over A s -> Distinguishable s.
  Proof.
    intros D N. unfold Distinguishable, DistK. intros k1 k2 I1 I2.
    unfold keys in I1, I2. apply in_map_iff in I1, I2. destruct I1 as (r1 & <- & I1). destruct I2 as (r2 & <- & I2).
    unfold nil_over in N. rewrite Forall_forall in N. destruct (N r1 I1) as (A1 & M1). destruct (N r2 I2) as (A2 & M2).
    split; [apply D; assumption | intros _; congruence].
  Qed.
  Lemma nil_over_app A s1 s2 : nil_over A s1 -> nil_over A s2 -> nil_over A (s1 ++ s2).
  Proof. intros H1 H2. apply Forall_app. split; assumption. Qed.
  Lemma nil_over_nil A s : nil_over A s -> Forall (fun r => rmap r = MNil) s.
  Proof. intros N. eapply Forall_impl; [|exact N]. cbn beta. intros r (_ & M). exact M. Qed.
  Lemma resolved_nil_over A s : arts_in A s -> nil_over A (map res_ref s).
  Proof.
    intros F. apply Forall_forall. intros y I. apply in_map_iff in I. destruct I as (r & <- & I).
    unfold arts_in in F. rewrite Forall_forall in F. destruct (res_ref_key r) as (K1 & K2).
    unfold rkey. cbn [fst snd]. rewrite K1, K2. split; [apply F; exact I | reflexivity].
  Qed.
  Lemma sortmerge_arts_in A s out : arts_in A s -> sortmerge_rel s out -> arts_in A out.
  Proof. intros F R. exact (sortmerge_keys (fun k => In (fst k) A) s out F R). Qed.

  Lemma exclude_rel_keys (K : art * mapper -> Prop) s exc out :
    Forall (fun r => K (rkey r)) s -> exclude_rel s exc out -> Forall (fun r => K (rkey r)) out.
  Proof.
    intros F [(-> & ->) | (NE & s0 & s1 & R0 & R1 & W)]; [constructor|].
    eapply excl_walk_keys; [|exact W]. eapply sortmerge_keys; eassumption.
  Qed.

  (** ** The specification of the actors validator *)

  (** everything the steps of [l] measured *)
  Definition meas_upto (l : list step) : list ref := flat_map s_meas l.

  (** the actor in charge after the steps of [l] (nil gaps ignored), [p] before *)
  Fixpoint last_actor (p : option Z) (l : list step) : option Z :=
    match l with
    | [] => p
    | st :: t => last_actor (match s_actor st with Some a => Some a | None => p end) t
    end.

  (** step [i] of [L] hands control to actor [a]: [a] is in charge at its end and
      was not the actor in charge before *)
  Definition takes_over (L : list step) (i : nat) (st : step) (a : Z) : Prop :=
    nth_error L i = Some st /\ s_actor st = Some a /\ last_actor None (firstn i L) <> Some a.

  (** byte [j] of artifact [x] belongs to [code] and no step before step [i] measured it *)
  Definition unprot (L : list step) (i : nat) (code : list ref) (x j : Z) : Prop :=
    covers code x j /\ ~ covers (meas_upto (firstn i L)) x j.

  Definition wf_step (A : list art) (st : step) : Prop :=
    std_refs (s_meas st) /\ arts_in A (s_meas st) /\
    match s_code st with Some c => std_refs c /\ arts_in A c | None => True end.
  Definition inv (A : list art) (pre : list step) (measured : list ref) : Prop :=
    nil_over A measured /\ Forall okref measured /\
    forall a j, den measured a MNil j <-> covers (meas_upto pre) a j.

  Lemma meas_upto_snoc pre st : meas_upto (pre ++ [st]) = meas_upto pre ++ s_meas st.
  Proof. unfold meas_upto. rewrite flat_map_app. cbn [flat_map]. rewrite app_nil_r. reflexivity. Qed.

  Lemma last_actor_app p l1 l2 : last_actor p (l1 ++ l2) = last_actor (last_actor p l1) l2.
  Proof. revert p. induction l1 as [|st t IH]; intros p; cbn [app last_actor]; [reflexivity | apply IH]. Qed.

  Lemma opt_eqb_some a p : opt_eqb (Some a) p = true <-> p = Some a.
  Proof.
    destruct p as [b|]; cbn [opt_eqb]; [|split; discriminate].
    rewrite Z.eqb_eq. split; [intros ->; reflexivity | intros H; inversion H; reflexivity].
  Qed.

  Lemma inv_nil A : inv A [] [].
  Proof.
    split; [constructor|]. split; [constructor|]. intros a j. rewrite den_nil. split; [tauto|]. apply covers_nil.
  Qed.

  Lemma inv_step A pre measured st cur :
    inv A pre measured -> std_refs (s_meas st) -> arts_in A (s_meas st) ->
    sm (measured ++ map res_ref (s_meas st)) = Ok cur -> inv A (pre ++ [st]) cur.
  Proof.
    intros (N & O & D) S I E. apply sm_rel in E.
    assert (N' : nil_over A (measured ++ map res_ref (s_meas st))) by (apply nil_over_app; [exact N | apply resolved_nil_over; exact I]).
    assert (O' : NoOverflow (measured ++ map res_ref (s_meas st))) by (apply Forall_app; split; [exact O | apply resolved_ok; exact S]).
    split; [exact (sortmerge_keys _ _ _ N' E)|]. split; [exact (sortmerge_ok _ _ O' E)|].
    intros a j. rewrite (sortmerge_den _ _ O' E), den_app, meas_upto_snoc, covers_app, D, (den_resolved _ a MNil j S). tauto.
  Qed.

  Lemma vap_actor_spec A idx pre prev cur pa st iss pa' :
    ArtsDist A -> inv A pre prev -> wf_step A st ->
    vap_actor idx prev cur pa st = Ok (iss, pa') ->
    pa' = match s_actor st with Some a => Some a | None => pa end /\
    ((iss = [] /\
      ~ (exists a code, s_actor st = Some a /\ pa <> Some a /\ s_code st = Some code /\
           exists x j, covers code x j /\ ~ covers (meas_upto pre) x j)) \/
     (exists a code nm, s_actor st = Some a /\ pa <> Some a /\ s_code st = Some code /\
        iss = [mkVI idx 4 nm cur] /\
        (forall x m j, den nm x m j <-> m = MNil /\ covers code x j /\ ~ covers (meas_upto pre) x j) /\
        exists x j, covers code x j /\ ~ covers (meas_upto pre) x j)).
  Proof.
    intros AD (Np & Op & Dp) (_ & _ & Wc). unfold vap_actor in *.
    destruct (s_actor st) as [a|] eqn:Ea.
    2:{ intros H. inversion H. subst. split; [reflexivity|]. left. split; [reflexivity|]. intros (a & code & X & _). discriminate. }
    destruct (opt_eqb (Some a) pa) eqn:Eq.
    { apply opt_eqb_some in Eq. intros H. inversion H. subst. split; [reflexivity|]. left. split; [reflexivity|].
      intros (a' & code & X & Y & _). inversion X. subst a'. congruence. }
    assert (Npa : pa <> Some a) by (intros X; apply opt_eqb_some in X; congruence).
    destruct (s_code st) as [code|] eqn:Ec.
    2:{ intros H. inversion H. subst. split; [reflexivity|]. left. split; [reflexivity|]. intros (a' & code & _ & _ & X & _). discriminate. }
    destruct Wc as (Sc & Ic).
    destruct (exclude code []) as [arefs0| | |] eqn:E0; try discriminate. cbn [bind].
    pose proof (exclude_nil _ _ E0) as R0.
    pose proof (sortmerge_std _ _ Sc R0) as S0.
    pose proof (sortmerge_arts_in A _ _ Ic R0) as I0.
    pose proof (sortmerge_den _ _ (std_refs_ok _ Sc) R0) as D0.
    rewrite (resolve_std _ S0). cbn [fst snd].
    set (arefs := map res_ref arefs0).
    destruct (exclude arefs prev) as [nm| | |] eqn:E1; try discriminate. cbn [bind].
    pose proof (exclude_is_rel _ _ _ E1) as X1.
    assert (Na : nil_over A arefs) by (apply resolved_nil_over; exact I0).
    assert (Oa : NoOverflow arefs) by (apply resolved_ok; exact S0).
    assert (Dnm : forall x m j, den nm x m j <-> m = MNil /\ covers code x j /\ ~ covers (meas_upto pre) x j).
    { intros x m j.
      rewrite (exclude_exact arefs prev nm (nil_over_dist A _ AD (nil_over_app _ _ _ Na Np))
                 (proj2 (Forall_app _ _ _) (conj Oa Op)) X1 x m j).
      unfold arefs. rewrite (den_resolved arefs0 x m j S0), (covers_ext _ _ D0 x j).
      split.
      - intros ((-> & C) & ND). split; [reflexivity|]. split; [exact C|]. rewrite <- Dp. exact ND.
      - intros (-> & C & NC). split; [tauto|]. rewrite Dp. exact NC. }
    pose proof (has_bytes_den nm (exclude_rel_nonneg _ _ _ Oa X1)) as HB.
    destruct (has_bytes nm) eqn:Ehb.
    - assert (Nn : nil_over A nm) by (exact (exclude_rel_keys (fun k => In (fst k) A /\ snd k = MNil) _ _ _ Na X1)).
      rewrite (resolve_nil _ (nil_over_nil _ _ Nn)). cbn [fst snd app].
      intros H. inversion H. subst. split; [reflexivity|]. right.
      exists a, code, nm.
      split; [reflexivity|]. split; [exact Npa|]. split; [reflexivity|]. split; [reflexivity|]. split; [exact Dnm|].
      destruct (proj1 HB eq_refl) as (x & m & j & Dj).
      apply Dnm in Dj. exists x, j. tauto.
    - intros H. inversion H. subst. split; [reflexivity|]. left. split; [reflexivity|].
      intros (a' & code' & _ & _ & X & x & j & C & NC). inversion X. subst code'.
      assert (Dj : den nm x MNil j) by (apply Dnm; tauto).
      assert (T : false = true) by (apply HB; exists x, MNil, j; exact Dj). discriminate.
  Qed.

  Lemma zlen_snoc {T} (l : list T) x : zlen (l ++ [x]) = zlen l + 1.
  Proof. unfold zlen. rewrite app_length. cbn [length]. lia. Qed.

  Lemma nth_error_mid {T} (pre : list T) x t : nth_error (pre ++ x :: t) (length pre) = Some x.
  Proof. rewrite nth_error_app2 by lia. rewrite Nat.sub_diag. reflexivity. Qed.
  Lemma firstn_mid {T} (pre : list T) t : firstn (length pre) (pre ++ t) = pre.
  Proof. rewrite firstn_app, Nat.sub_diag, firstn_all. cbn [firstn]. apply app_nil_r. Qed.

  Lemma vap_go_spec A : ArtsDist A -> forall l pre measured out,
    Forall (wf_step A) l -> inv A pre measured ->
    vap_go (zlen pre) measured (last_actor None pre) l = Ok out ->
    (forall v, In v out -> exists i st a code,
        (length pre <= i)%nat /\ vi_step v = Z.of_nat i /\ vi_kind v = 4 /\
        takes_over (pre ++ l) i st a /\ s_code st = Some code /\
        (forall x m j, den (vi_refs v) x m j <-> m = MNil /\ unprot (pre ++ l) i code x j) /\
        (exists x j, unprot (pre ++ l) i code x j)) /\
    (forall i st a code, (length pre <= i)%nat -> takes_over (pre ++ l) i st a -> s_code st = Some code ->
        (exists x j, unprot (pre ++ l) i code x j) -> exists v, In v out /\ vi_step v = Z.of_nat i).
  Proof.
    intros AD. induction l as [|st t IH]; intros pre measured out W I E.
    { cbn [vap_go] in E. inversion E. subst out. split; [intros v []|].
      intros i st a code Hi (Hn & _) _ _. rewrite app_nil_r in Hn.
      assert (X : nth_error pre i <> None) by (rewrite Hn; discriminate). apply nth_error_Some in X. lia. }
    inversion W as [|? ? Wst Wt]; subst.
    cbn [vap_go] in E. cbv zeta in E.
    pose proof Wst as (Sm & Im & _).
    rewrite (resolve_std _ Sm) in E. cbn [fst snd app] in E.
    destruct (sm (measured ++ map res_ref (s_meas st))) as [cur| | |] eqn:Ecur; try discriminate. cbn [bind] in E.
    destruct (vap_actor (zlen pre) measured cur (last_actor None pre) st) as [[iss pa']| | |] eqn:Eact; try discriminate.
    cbn [bind] in E.
    destruct (vap_go (zlen pre + 1) cur pa' t) as [rest| | |] eqn:Erest; try discriminate. cbn [bind] in E.
    inversion E. subst out. clear E.
    pose proof (inv_step A pre measured st cur I Sm Im Ecur) as I'.
    destruct (vap_actor_spec A _ pre _ _ _ _ _ _ AD I Wst Eact) as (Epa & Cases).
    assert (Epa' : pa' = last_actor None (pre ++ [st])).
    { rewrite last_actor_app. cbn [last_actor]. exact Epa. }
    rewrite <- zlen_snoc with (x := st) in Erest. rewrite Epa' in Erest.
    specialize (IH (pre ++ [st]) cur rest Wt I' Erest).
    rewrite <- app_assoc in IH. cbn [app] in IH. destruct IH as (IH1 & IH2).
    assert (Len : length (pre ++ [st]) = S (length pre)) by (rewrite app_length; cbn [length]; lia).
    split.
    - intros v Iv. apply in_app_or in Iv. destruct Iv as [Iv | Iv].
      + destruct Cases as [(-> & _) | (a & code & nm & Ea & Npa & Ec & -> & Dnm & Pt')]; [destruct Iv|].
        destruct Iv as [<- | []]. cbn [vi_step vi_kind vi_refs].
        exists (length pre), st, a, code.
        split; [lia|]. split; [reflexivity|]. split; [reflexivity|].
        split; [unfold takes_over; rewrite nth_error_mid, firstn_mid; tauto|].
        split; [exact Ec|]. unfold unprot. rewrite firstn_mid. split; [exact Dnm | exact Pt'].
      + destruct (IH1 v Iv) as (i & st' & a & code & Hi & R). exists i, st', a, code. split; [lia | exact R].
    - intros i st' a code Hi T Ec U.
      destruct (Nat.eq_dec i (length pre)) as [-> | Ne].
      + destruct T as (Hn & Ea & Hl). rewrite nth_error_mid in Hn. inversion Hn. subst st'.
        rewrite firstn_mid in Hl. unfold unprot in U. rewrite firstn_mid in U.
        destruct Cases as [(_ & No) | (a' & code' & nm & _ & _ & _ & -> & _)].
        * exfalso. apply No. exists a, code. tauto.
        * eexists. split; [apply in_or_app; left; left; reflexivity|]. reflexivity.
      + destruct (IH2 i st' a code ltac:(lia) T Ec U) as (v & Iv & Sv).
        exists v. split; [apply in_or_app; right; exact Iv | exact Sv].
  Qed.

  (** ** The actors validator: issue at step i <-> a new actor with known code
      takes over there and some byte of its code was not measured before *)

  Definition WFlog (A : list art) (l : list step) : Prop := Forall (wf_step A) l.

  Theorem actor_sound A l out : ArtsDist A -> WFlog A l -> vap l = Ok out ->
    forall v, In v out -> exists i st a code,
      vi_step v = Z.of_nat i /\ vi_kind v = 4 /\ takes_over l i st a /\ s_code st = Some code /\
      (forall x m j, den (vi_refs v) x m j <-> m = MNil /\ unprot l i code x j) /\
      (exists x j, unprot l i code x j).
  Proof.
    intros AD W E v Iv. unfold vap in E.
    destruct (vap_go_spec A AD l [] [] out W (inv_nil A) E) as (H1 & _).
    destruct (H1 v Iv) as (i & st & a & code & _ & R). exists i, st, a, code. exact R.
  Qed.

  Theorem actor_iff A l out : ArtsDist A -> WFlog A l -> vap l = Ok out ->
    forall i, (exists v, In v out /\ vi_step v = Z.of_nat i) <->
      (exists st a code, takes_over l i st a /\ s_code st = Some code /\ exists x j, unprot l i code x j).
  Proof.
    intros AD W E i. unfold vap in E.
    destruct (vap_go_spec A AD l [] [] out W (inv_nil A) E) as (H1 & H2). cbn [app] in *. split.
    - intros (v & Iv & Sv). destruct (H1 v Iv) as (i' & st & a & code & _ & Si & _ & T & Ec & _ & U).
      assert (i' = i) by lia. subst i'. exists st, a, code. tauto.
    - intros (st & a & code & T & Ec & U). apply (H2 i st a code); [cbn; lia | assumption..].
  Qed.

  Theorem actor_exact_ranges A l out : ArtsDist A -> WFlog A l -> vap l = Ok out ->
    forall v, In v out -> exists i st a code,
      vi_step v = Z.of_nat i /\ takes_over l i st a /\ s_code st = Some code /\
      forall x m j, den (vi_refs v) x m j <-> m = MNil /\ unprot l i code x j.
  Proof.
    intros AD W E v Iv. destruct (actor_sound A l out AD W E v Iv) as (i & st & a & code & S & _ & T & Ec & D & _).
    exists i, st, a, code. tauto.
  Qed.

End Sizes.

(** ** The final-coverage validator *)

  (** the accumulation loop maintains the invariant of the actors validator:
      [measured] is resolved and denotes exactly the bytes measured so far *)
  Lemma vfc_measured_inv sz A : forall l pre measured m,
    Forall (wf_step sz A) l -> inv sz A pre measured ->
    vfc_measured measured l = Ok m -> inv sz A (pre ++ l) m.
  Proof.
    induction l as [|st t IH]; intros pre measured m W I E; cbn [vfc_measured] in E.
    { inversion E. subst m. rewrite app_nil_r. exact I. }
    inversion W as [|? ? (Sm & Im & _) Wt]; subst.
    unfold resolved in E. rewrite (resolve_std sz _ Sm) in E. cbn [fst] in E.
    destruct (sm (measured ++ map (res_ref sz) (s_meas st))) as [m1| | |] eqn:E1; try discriminate. cbn [bind] in E.
    pose proof (inv_step sz A pre measured st m1 I Sm Im E1) as I1.
    specialize (IH (pre ++ [st]) m1 m Wt I1 E). rewrite <- app_assoc in IH. exact IH.
  Qed.

  Lemma nil_over_den A s a m k : nil_over A s -> den s a m k -> m = MNil.
  Proof.
    intros N D. apply den_in in D. destruct D as (r & I & (_ & M & _)).
    unfold nil_over in N. rewrite Forall_forall in N. destruct (N r I) as (_ & Mr). unfold rkey in Mr. cbn [snd] in Mr. congruence.
  Qed.

  (** [files] = the references UEFIFiles returned (physical addresses); both sides
      are resolved before the subtraction, so the verdict is about BYTES of the
      artifacts, whatever address space a measurement was given in *)
  Theorem final_exact sz A files l out :
    ArtsDist A -> std_refs sz files -> arts_in A files -> Forall pointed files -> WFlog sz A l ->
    l <> [] -> vfc (Ok files) l = Ok out ->
    exists nm measured,
      (forall a m j, den measured a m j <-> m = MNil /\ covers sz (meas_upto l) a j) /\
      (forall a m j, den nm a m j <-> m = MNil /\ covers sz files a j /\ ~ covers sz (meas_upto l) a j) /\
      (nm = [] <-> forall a j, covers sz files a j -> covers sz (meas_upto l) a j) /\
      out = match nm with
            | [] => []
            | _ => [mkVI (zlen l - 1) 6 nm measured]
            end.
  Proof.
    intros AD Sf If Pf W NE E. unfold vfc in E. destruct l as [|st0 t0]; [congruence|].
    set (l := st0 :: t0) in *. clearbody l. clear NE.
    destruct (vfc_measured [] l) as [measured| | |] eqn:Em; try discriminate. cbn [bind] in E.
    pose proof (vfc_measured_inv sz A l [] [] measured W (inv_nil sz A) Em) as (Nm & Om & Dm). cbn [app] in Dm.
    unfold resolved in E. rewrite (resolve_std sz _ Sf) in E. cbn [fst] in E.
    set (fr := map (res_ref sz) files) in *.
    destruct (exclude fr measured) as [nm| | |] eqn:En; try discriminate. cbn [bind] in E.
    pose proof (exclude_is_rel _ _ _ En) as X.
    assert (Nf : nil_over A fr) by (apply resolved_nil_over; exact If).
    assert (Of : NoOverflow fr) by (apply resolved_ok; exact Sf).
    assert (Dmm : forall a m j, den measured a m j <-> m = MNil /\ covers sz (meas_upto l) a j).
    { intros a m j. split.
      - intros D. pose proof (nil_over_den A _ _ _ _ Nm D) as ->. split; [reflexivity|]. apply Dm. exact D.
      - intros (-> & C). apply Dm. exact C. }
    assert (Dnm : forall a m j, den nm a m j <-> m = MNil /\ covers sz files a j /\ ~ covers sz (meas_upto l) a j).
    { intros a m j.
      rewrite (exclude_exact fr measured nm (nil_over_dist A _ AD (nil_over_app _ _ _ Nf Nm))
                 (proj2 (Forall_app _ _ _) (conj Of Om)) X a m j).
      unfold fr. rewrite (den_resolved sz files a m j Sf), Dmm. tauto. }
    assert (Nn : nil_over A nm) by (exact (exclude_rel_keys (fun k => In (fst k) A /\ snd k = MNil) _ _ _ Nf X)).
    exists nm, measured. split; [exact Dmm|]. split; [exact Dnm|]. split.
    - split.
      + intros -> a j Hf. destruct (denb measured a MNil j) eqn:B; [apply Dm; apply denb_spec; exact B|].
        apply denb_false in B. exfalso.
        assert (H : den [] a MNil j) by (apply Dnm; rewrite <- Dm; tauto). rewrite den_nil in H. exact H.
      + intros H. destruct nm as [|r t]; [reflexivity|]. exfalso.
        destruct (exclude_pointed fr measured (r :: t) Of (resolved_pointed sz _ Sf Pf) X ltac:(discriminate)) as (a & m & k & Hk).
        apply Dnm in Hk. destruct Hk as (_ & Hf & Hn). apply Hn. apply H. exact Hf.
    - unfold resolved in E. rewrite (resolve_nil _ (nil_over_nil _ _ Nm)) in E.
      destruct nm as [|r t]; [inversion E; reflexivity|].
      rewrite (resolve_nil _ (nil_over_nil _ _ Nn)) in E. cbn [fst] in E. inversion E. reflexivity.
  Qed.

  Lemma final_empty_log files : vfc files [] = Ok [].
  Proof. reflexivity. Qed.

  (** when UEFIFiles fails: one issue at the last step (if SortAndMerge does not panic) *)
  Lemma final_files_error c l out : l <> [] -> vfc (Err c) l = Ok out -> out = [mkVI (zlen l - 1) 5 [] []].
  Proof.
    intros NE E. unfold vfc in E. destruct l as [|st0 t0]; [congruence|].
    destruct (vfc_measured [] (st0 :: t0)); try discriminate. cbn [bind] in E. inversion E. reflexivity.
  Qed.

  (** ** The issues validator *)

  Lemma vni_go_exact : forall l n,
    vni_go (Z.of_nat n) l =
    flat_map (fun p => map (fun x => (Z.of_nat (fst p), x)) (s_issues (snd p))) (combine (seq n (length l)) l).
  Proof.
    induction l as [|st t IH]; intros n; cbn [vni_go length seq combine flat_map fst snd]; [reflexivity|].
    f_equal. replace (Z.of_nat n + 1) with (Z.of_nat (S n)) by lia. apply IH.
  Qed.

  Theorem noissues_exact l :
    vni l = flat_map (fun p => map (fun x => (Z.of_nat (fst p), x)) (s_issues (snd p))) (combine (seq 0 (length l)) l).
  Proof. exact (vni_go_exact l 0%nat). Qed.

  Lemma vni_go_in : forall l n i x,
    In (i, x) (vni_go (Z.of_nat n) l) <->
    exists k st, i = Z.of_nat (n + k) /\ nth_error l k = Some st /\ In x (s_issues st).
  Proof.
    induction l as [|st t IH]; intros n i x; cbn [vni_go].
    - split; [intros [] | intros (k & st & _ & H & _); destruct k; discriminate].
    - rewrite in_app_iff. replace (Z.of_nat n + 1) with (Z.of_nat (S n)) by lia. rewrite IH. split.
      + intros [H | (k & st' & -> & Hn & Hx)].
        * apply in_map_iff in H. destruct H as (y & Hy & Iy). inversion Hy. subst. exists 0%nat, st.
          split; [f_equal; lia|]. split; [reflexivity | exact Iy].
        * exists (S k), st'. split; [f_equal; lia|]. split; [exact Hn | exact Hx].
      + intros ([|k] & st' & -> & Hn & Hx).
        * inversion Hn. subst st'. left. apply in_map_iff. exists x. split; [f_equal; f_equal; lia | exact Hx].
        * right. exists k, st'. split; [f_equal; lia|]. split; [exact Hn | exact Hx].
  Qed.

  Theorem noissues_in l i x :
    In (i, x) (vni l) <-> exists k st, i = Z.of_nat k /\ nth_error l k = Some st /\ In x (s_issues st).
  Proof. unfold vni. exact (vni_go_in l 0%nat i x). Qed.


(** ** Boolean checkers for the hypotheses (closed witnesses and examples) *)

Definition std_refb (sz : Z -> Z) (r : ref) : bool :=
  forallb okrb (rranges r) && (zlen (acontent (rart r)) =? sz (ai r)) && (sz (ai r) <=? W32) &&
  match rmap r with
  | MNil => true
  | MPhys => forallb (fun x => base sz (ai r) <=? roff x) (rranges r)
  | _ => false
  end.

Lemma std_refb_spec sz r : std_refb sz r = true -> std_ref sz r.
Proof.
  unfold std_refb, std_ref. intros H.
  apply andb_prop in H. destruct H as (H & H4). apply andb_prop in H. destruct H as (H & H3).
  apply andb_prop in H. destruct H as (H1 & H2).
  apply Z.eqb_eq in H2. apply Z.leb_le in H3.
  split.
  { pose proof (no_overflowb_spec [r]) as N. unfold no_overflowb in N. cbn [forallb] in N. rewrite H1 in N.
    specialize (N eq_refl). inversion N. assumption. }
  split; [exact H2|]. split; [exact H3|].
  destruct (rmap r); [left; reflexivity | right | discriminate].
  split; [reflexivity|]. apply Forall_forall. intros x I. rewrite forallb_forall in H4. apply Z.leb_le. apply H4. exact I.
Qed.

Definition pointedb (r : ref) : bool := existsb (fun x => 0 <? rlen x) (rranges r).
Lemma pointedb_spec r : pointedb r = true -> pointed r.
Proof.
  unfold pointedb, pointed. intros H. apply existsb_exists in H. destruct H as (x & I & L). apply Z.ltb_lt in L.
  exists (roff x). apply Exists_exists. exists x. split; [exact I|]. unfold inr. lia.
Qed.

Definition art_tagb (a b : art) : bool :=
  (aid a =? aid b) && (tname a =? tname b) && Bool.eqb (araw a) (araw b) && zlist_eqb (acontent a) (acontent b).
Lemma zlist_eqb_eq a : forall b, zlist_eqb a b = true -> a = b.
Proof.
  induction a as [|x t IH]; intros [|y u]; cbn [zlist_eqb]; try discriminate; [reflexivity|].
  intros H. apply andb_prop in H. destruct H as (H1 & H2). apply Z.eqb_eq in H1. rewrite (IH u H2), H1. reflexivity.
Qed.
Lemma art_tagb_eq a b : art_tagb a b = true -> a = b.
Proof.
  unfold art_tagb. intros H. apply andb_prop in H. destruct H as (H & H4). apply andb_prop in H. destruct H as (H & H3).
  apply andb_prop in H. destruct H as (H1 & H2). apply Z.eqb_eq in H1, H2. apply Bool.eqb_prop in H3. apply zlist_eqb_eq in H4.
  destruct a, b. cbn in *. congruence.
Qed.

Definition wf_refsb (sz : Z -> Z) (A : list art) (s : list ref) : bool :=
  forallb (fun r => std_refb sz r && existsb (fun a => art_tagb a (rart r)) A) s.
Lemma wf_refsb_spec sz A s : wf_refsb sz A s = true -> std_refs sz s /\ arts_in A s.
Proof.
  unfold wf_refsb, std_refs, arts_in. rewrite forallb_forall. intros H. split; apply Forall_forall; intros r I; specialize (H r I);
    apply andb_prop in H; destruct H as (H1 & H2).
  - apply std_refb_spec. exact H1.
  - apply existsb_exists in H2. destruct H2 as (a & Ia & E). apply art_tagb_eq in E. subst. exact Ia.
Qed.

Definition wf_stepb (sz : Z -> Z) (A : list art) (st : step) : bool :=
  wf_refsb sz A (s_meas st) && match s_code st with Some c => wf_refsb sz A c | None => true end.
Lemma wf_stepb_spec sz A st : wf_stepb sz A st = true -> wf_step sz A st.
Proof.
  unfold wf_stepb, wf_step. intros H. apply andb_prop in H. destruct H as (H1 & H2).
  destruct (wf_refsb_spec _ _ _ H1) as (S & I). split; [exact S|]. split; [exact I|].
  destruct (s_code st); [|exact Logic.I]. apply wf_refsb_spec. exact H2.
Qed.
Definition wf_logb (sz : Z -> Z) (A : list art) (l : list step) : bool := forallb (wf_stepb sz A) l.
Lemma wf_logb_spec sz A l : wf_logb sz A l = true -> WFlog sz A l.
Proof. unfold wf_logb, WFlog. rewrite forallb_forall. intros H. apply Forall_forall. intros st I. apply wf_stepb_spec. apply H. exact I. Qed.

Definition arts_distb (A : list art) : bool :=
  forallb (fun a1 => forallb (fun a2 => Bool.eqb (aid a1 =? aid a2) (tname a1 =? tname a2)) A) A.
Lemma arts_distb_spec A : arts_distb A = true -> ArtsDist A.
Proof.
  unfold arts_distb, ArtsDist. rewrite forallb_forall. intros H a1 a2 I1 I2. specialize (H a1 I1).
  rewrite forallb_forall in H. specialize (H a2 I2). apply Bool.eqb_prop in H. rewrite <- !Z.eqb_eq. rewrite H. tauto.
Qed.

(** boolean [covers] for a fixed byte *)
Definition coversb (sz : Z -> Z) (s : list ref) (a j : Z) : bool :=
  denb s a MNil j || denb s a MPhys (j + base sz a).
Lemma coversb_true sz s a j : coversb sz s a j = true -> covers sz s a j.
Proof.
  unfold coversb, covers. intros H. apply Bool.orb_true_iff in H. destruct H as [H | H]; apply denb_spec in H.
  - exists MNil, j. split; [exact H | reflexivity].
  - exists MPhys, (j + base sz a). split; [exact H | unfold off_of; lia].
Qed.

Lemma coversb_false sz s a j : std_refs sz s -> coversb sz s a j = false -> ~ covers sz s a j.
Proof.
  unfold coversb, covers. intros F H (m & k & D & E). apply Bool.orb_false_iff in H. destruct H as (H1 & H2).
  apply denb_false in H1. apply denb_false in H2.
  pose proof D as D'. apply den_in in D'. destruct D' as (r & I & (_ & M & _)).
  unfold std_refs in F. rewrite Forall_forall in F. destruct (F r I) as (_ & _ & _ & [Mr | (Mr & _)]); rewrite Mr in M; subst m.
  - unfold off_of in E. subst j. exact (H1 D).
  - unfold off_of in E. replace (j + base sz a) with k in H2 by lia. exact (H2 D).
Qed.

(** ** Closed witnesses *)

Definition xsz64 : Z -> Z := fun _ => 64.
Definition xraw1 : art := mkArt 1 1 true (repeat 0 64%nat).
Definition xraw2 : art := mkArt 2 1 true (repeat 0 64%nat).

(** D6: two RawBytes artifacts.  Bytes 0..16 of artifact 2 are measured, then an
    actor living in bytes 0..16 of artifact 1 takes over: nothing is reported. *)
Definition d6_log : list step :=
  [mkStep None None [mkRef xraw2 MNil [mkR 0 16]] [];
   mkStep (Some 1) (Some [mkRef xraw1 MNil [mkR 0 16]]) [] []].

Theorem actor_iff_refuted : exists sz A l out i,
  WFlog sz A l /\ vap l = Ok out /\
  (exists st a code, takes_over l i st a /\ s_code st = Some code /\ exists x j, unprot sz l i code x j) /\
  ~ (exists v, In v out /\ vi_step v = Z.of_nat i).
Proof.
  exists xsz64, [xraw1; xraw2], d6_log, [], 1%nat.
  split; [apply wf_logb_spec; vm_compute; reflexivity|].
  split; [vm_compute; reflexivity|]. split.
  - exists (mkStep (Some 1) (Some [mkRef xraw1 MNil [mkR 0 16]]) [] []), 1, [mkRef xraw1 MNil [mkR 0 16]].
    split; [split; [reflexivity|]; split; [reflexivity | cbn; discriminate]|]. split; [reflexivity|].
    exists 1, 0. split.
    + apply coversb_true. vm_compute. reflexivity.
    + apply coversb_false; [|vm_compute; reflexivity].
      apply (wf_refsb_spec xsz64 [xraw1; xraw2]). vm_compute. reflexivity.
  - intros (v & [] & _).
Qed.

(** an actor whose code reference has no byte is not reported, whether or not
    something of its artifact was measured before (the input of the former
    finding C10-empty-code-range) *)
Definition ximg : art := mkArt 1 1 false (repeat 0 64%nat).
Definition empty_code_log : list step := [mkStep (Some 1) (Some [mkRef ximg MNil [mkR 5 0]]) [] []].
Definition empty_code_log2 : list step :=
  [mkStep None None [mkRef ximg MNil [mkR 40 8]] [];
   mkStep (Some 1) (Some [mkRef ximg MNil [mkR 5 0]; mkRef ximg MNil []]) [] []].

Lemma empty_code_hyps : ArtsDist [ximg] /\ WFlog xsz64 [ximg] empty_code_log /\ WFlog xsz64 [ximg] empty_code_log2.
Proof.
  split; [apply arts_distb_spec; vm_compute; reflexivity|].
  split; apply wf_logb_spec; vm_compute; reflexivity.
Qed.
Lemma empty_code_vap : vap empty_code_log = Ok [] /\ vap empty_code_log2 = Ok [].
Proof. split; vm_compute; reflexivity. Qed.

(** final coverage: the file is given by physical addresses (as UEFIFiles does),
    the whole 64-byte image is measured by an image-offset reference: no issue
    (the input of the former finding C10-final-mixed-address-space); measured
    half by offsets and half by physical addresses: no issue either; only the
    first 16 bytes measured: bytes 16..24 of the file are reported *)
Definition mixed_files : list ref := [mkRef ximg MPhys [mkR (W32 - 64 + 8) 16]].
Definition mixed_log : list step := [mkStep None None [mkRef ximg MNil [mkR 0 64]] []].
Definition mixed_log2 : list step :=
  [mkStep None None [mkRef ximg MNil [mkR 0 12]] []; mkStep None None [mkRef ximg MPhys [mkR (W32 - 64 + 12) 52]] []].
Definition mixed_log3 : list step := [mkStep None None [mkRef ximg MNil [mkR 0 16]] []].

Lemma mixed_hyps : ArtsDist [ximg] /\ std_refs xsz64 mixed_files /\ arts_in [ximg] mixed_files /\ Forall pointed mixed_files /\
  WFlog xsz64 [ximg] mixed_log /\ WFlog xsz64 [ximg] mixed_log2 /\ WFlog xsz64 [ximg] mixed_log3.
Proof.
  split; [apply arts_distb_spec; vm_compute; reflexivity|].
  split; [apply (wf_refsb_spec xsz64 [ximg]); vm_compute; reflexivity|].
  split; [apply (wf_refsb_spec xsz64 [ximg]); vm_compute; reflexivity|].
  split; [constructor; [apply pointedb_spec; vm_compute; reflexivity | constructor]|].
  split; [|split]; apply wf_logb_spec; vm_compute; reflexivity.
Qed.
Lemma mixed_vfc :
  vfc (Ok mixed_files) mixed_log = Ok [] /\ vfc (Ok mixed_files) mixed_log2 = Ok [] /\
  vfc (Ok mixed_files) mixed_log3 = Ok [mkVI 0 6 [mkRef ximg MNil [mkR 16 8]] [mkRef ximg MNil [mkR 0 16]]].
Proof. split; [|split]; vm_compute; reflexivity. Qed.

(** ** A non-trivial log satisfying all hypotheses: the D7 pattern *)

(** step 0 measures three disjoint ranges (three references), step 1 measures the
    new actor's code AND hands control to it (physical addresses vs offsets mixed);
    step 2: the same actor again; step 3: another actor whose code was measured in
    step 0 and 1 piecewise *)
Definition ex_log : list step :=
  [mkStep None None [mkRef ximg MNil [mkR 0 1]; mkRef ximg MNil [mkR 10 1]; mkRef ximg MPhys [mkR (W32 - 64 + 20) 1]] [7];
   mkStep (Some 1) (Some [mkRef ximg MPhys [mkR (W32 - 64 + 32) 8]]) [mkRef ximg MNil [mkR 32 4]; mkRef ximg MNil [mkR 36 4]] [];
   mkStep (Some 1) (Some [mkRef ximg MPhys [mkR (W32 - 64 + 32) 8]]) [] [8; 9];
   mkStep (Some 2) (Some [mkRef ximg MNil [mkR 0 1; mkR 34 4]]) [] []].

Lemma ex_log_hyps : ArtsDist [ximg] /\ WFlog xsz64 [ximg] ex_log.
Proof.
  split; [apply arts_distb_spec; vm_compute; reflexivity | apply wf_logb_spec; vm_compute; reflexivity].
Qed.

Lemma ex_log_vap :
  vap ex_log = Ok [mkVI 1 4 [mkRef ximg MNil [mkR 32 8]]
                            [mkRef ximg MNil [mkR 0 1; mkR 10 1; mkR 20 1; mkR 32 8]]].
Proof. vm_compute. reflexivity. Qed.

Lemma ex_log_vni : vni ex_log = [(0, 7); (2, 8); (2, 9)].
Proof. vm_compute. reflexivity. Qed.
