(** Proofs for C04 — the logic around the accessors (models in Model/RegistersDec.v).

    1. [CalculateRegisterFields] on ANY table: it panics iff the offsets decrease somewhere
       ([calc_go_panics_iff]); otherwise it returns what [calc_fields] computes ([calc_go_sorted]);
       on register tables that is the partition into bit slices ([calc_go_register_table]); on
       every sorted table that stays inside the register (repeated offsets, first offset above 0,
       sizes up to 255) field [i] is (name, offset, next offset - offset, bits of the raw value
       counted from the FIRST declared offset) ([calc_sorted_exact]).
    2. The second decoder: a chain of reads returns the values of the longest fitting prefix and
       stops at the first read that does not fit ([read_seq_fst], [read_seq_snd]); [ParseTXTRegs]
       succeeds exactly from 0x8f8 bytes on ([parse_txt_ok_iff]).
    3. The two decoders agree: a slot of pkg/tools that lies inside a register of pkg/registers is
       those bytes of the register's value ([slot_in_register], [le_at_sub]); a green pair
       obligation makes the decoded fields equal for EVERY image ([pair_sound], [raw_pair_sound]).
    4. [ReadMSRRegisters] ([read_msrs_*]), [Registers.Find] ([find_reg_*], [find_in_read_txt]).
    5. The sparse evaluation of the correspondence cases is the model ([read_seq_sparse_expand]). *)
From Coq Require Import NArith Arith String List Lia Bool ZifyN ZifyNat ZifyBool.
From CSS Require Import Lib.SymBits Lib.RegTypes Lib.RegOblig Model.Registers Model.RegistersDec.
From CSS Require Import Proofs.SymBits Proofs.Registers Proofs.RegistersRead.
Import ListNotations.
Open Scope N_scope.

(** * 1. [CalculateRegisterFields] on any table *)

Lemma calc_go_aux_cons raw size total last n o t :
  calc_go_aux raw size total last ((n, o) :: t) =
  if o <? last then None else
  let bsz := match t with
             | [] => (size + 256 - o) mod 256
             | (_, o') :: _ => (o' + 256 - o) mod 256
             end in
  match calc_go_aux raw size ((total + bsz) mod 256) o t with
  | None => None
  | Some r => Some ((n, o, bsz, N.land (N.shiftr raw total) ((N.shiftl 1 bsz mod 2 ^ 64 + 2 ^ 64 - 1) mod 2 ^ 64)) :: r)
  end.
Proof. reflexivity. Qed.

(** sorted: the loop runs through and computes [calc_fields_aux] *)
Lemma calc_go_aux_sorted raw size : forall l total last,
  offsets_sorted last l = true ->
  calc_go_aux raw size total last l = Some (calc_fields_aux raw size total l).
Proof.
  induction l as [|[n o] t IH]; intros total last H; [reflexivity|].
  cbn [offsets_sorted] in H. apply andb_true_iff in H. destruct H as [H1 H2].
  rewrite calc_go_aux_cons, calc_aux_cons. cbv zeta.
  destruct (N.ltb_spec o last) as [Hlt|Hge]; [apply N.leb_le in H1; lia|].
  rewrite (IH _ _ H2). reflexivity.
Qed.

Lemma calc_go_aux_unsorted raw size : forall l total last,
  offsets_sorted last l = false -> calc_go_aux raw size total last l = None.
Proof.
  induction l as [|[n o] t IH]; intros total last H; [discriminate|].
  cbn [offsets_sorted] in H. rewrite calc_go_aux_cons. cbv zeta.
  destruct (N.ltb_spec o last) as [Hlt|Hge]; [reflexivity|].
  apply andb_false_iff in H. destruct H as [H|H]; [apply N.leb_gt in H; lia|].
  rewrite (IH _ _ H). reflexivity.
Qed.

(** The call panics iff some offset is smaller than the one before it (the first one is
    compared with 0, which never fails). *)
Theorem calc_go_panics_iff : forall raw size l,
  calc_go raw size l = None <-> offsets_sorted 0 l = false.
Proof.
  intros raw size l. unfold calc_go. destruct l as [|e t]; [split; discriminate|].
  destruct (offsets_sorted 0 (e :: t)) eqn:E.
  - rewrite (calc_go_aux_sorted raw size _ 0 0 E). split; discriminate.
  - rewrite (calc_go_aux_unsorted raw size _ 0 0 E). split; reflexivity.
Qed.

(** On a sorted table the result is what [calc_fields] computes; it is the nil slice exactly
    for the empty table. *)
Theorem calc_go_sorted : forall raw size l, offsets_sorted 0 l = true ->
  calc_go raw size l = Some (calc_fields raw size l, match l with [] => true | _ => false end).
Proof.
  intros raw size l H. unfold calc_go, calc_fields. destruct l as [|e t]; [reflexivity|].
  rewrite (calc_go_aux_sorted raw size _ 0 0 H). reflexivity.
Qed.

Lemma offsets_incr_sorted : forall l prev, offsets_incr prev l = true -> offsets_sorted prev l = true.
Proof.
  induction l as [|[n o] t IH]; intros prev H; [reflexivity|].
  cbn [offsets_incr] in H. apply andb_true_iff in H. destruct H as [H1 H2].
  cbn [offsets_sorted]. apply andb_true_iff. split; [apply N.leb_le; apply N.ltb_lt in H1; lia|].
  apply IH, H2.
Qed.

(** Register tables (what the 25 supported registers declare): no panic, not nil, and the
    result is the partition into bit slices of [C04_fields_exact]. *)
Theorem calc_go_register_table : forall t raw, table_wf t = true ->
  calc_go raw (t_bits t) (t_fields t) = Some (fields_spec raw (t_bits t) (t_fields t), false).
Proof.
  intros t raw H. pose proof (calc_fields_exact t raw H) as Hex.
  destruct (table_wf_inv t H) as (n & rest & Hf & Hinc & _).
  rewrite calc_go_sorted.
  - rewrite Hex, Hf. reflexivity.
  - rewrite Hf. cbn [offsets_sorted]. rewrite (offsets_incr_sorted _ _ Hinc). reflexivity.
Qed.

(** ** Every sorted table inside the register *)

(** the mask [(1 << size) - 1] in uint64 from 64 bits on: all ones *)
Lemma mask_wide bsz : 64 <= bsz ->
  (N.shiftl 1 bsz mod 2 ^ 64 + 2 ^ 64 - 1) mod 2 ^ 64 = N.ones 64.
Proof.
  intros H. rewrite N.shiftl_1_l.
  replace bsz with (64 + (bsz - 64)) by lia. rewrite N.pow_add_r.
  rewrite N.mul_comm, N.mod_mul by (apply N.pow_nonzero; discriminate).
  vm_compute. reflexivity.
Qed.

Lemma land_ones_wide x w : x < 2 ^ 64 -> 64 <= w -> N.land x (N.ones 64) = N.land x (N.ones w).
Proof.
  intros Hx Hw. rewrite !N.land_ones.
  rewrite (N.mod_small x (2 ^ 64)) by exact Hx.
  rewrite N.mod_small; [reflexivity|].
  apply N.lt_le_trans with (2 ^ 64); [exact Hx|]. apply N.pow_le_mono_r; lia.
Qed.

Lemma shiftr_lt64 x s : x < 2 ^ 64 -> N.shiftr x s < 2 ^ 64.
Proof.
  intros Hx. rewrite N.shiftr_div_pow2.
  apply N.le_lt_trans with x; [|exact Hx].
  apply N.div_le_upper_bound; [apply N.pow_nonzero; discriminate|].
  assert (1 <= 2 ^ s) by (apply N.lt_pred_le; apply N.neq_0_lt_0, N.pow_nonzero; discriminate). nia.
Qed.

(** the value the loop computes for a field of [bsz] bits after [total] bits *)
Lemma field_value_bits raw total bsz : raw < 2 ^ 64 ->
  N.land (N.shiftr raw total) ((N.shiftl 1 bsz mod 2 ^ 64 + 2 ^ 64 - 1) mod 2 ^ 64) = bits total bsz raw.
Proof.
  intros Hraw. unfold bits. destruct (N.le_gt_cases bsz 64) as [Hle|Hgt].
  - rewrite mask_ones by exact Hle. reflexivity.
  - rewrite mask_wide by lia. apply land_ones_wide; [apply shiftr_lt64, Hraw|lia].
Qed.

(** What the helper computes on a sorted table: sizes are differences of consecutive offsets,
    values are counted from the first declared offset [base] (the shift is the running total of
    the sizes, not the declared offset). *)
Fixpoint fields_spec_from (raw size base : N) (l : list (string * N)) : list field :=
  match l with
  | [] => []
  | (n, o) :: t =>
      let nxt := match t with [] => size | (_, o') :: _ => o' end in
      (n, o, nxt - o, bits (o - base) (nxt - o) raw) :: fields_spec_from raw size base t
  end.

Lemma calc_sorted_aux raw size base : raw < 2 ^ 64 -> size < 256 ->
  forall t n o, base <= o -> offsets_sorted o t = true ->
    forallb (fun f : string * N => snd f <=? size) ((n, o) :: t) = true ->
    calc_fields_aux raw size (o - base) ((n, o) :: t) = fields_spec_from raw size base ((n, o) :: t).
Proof.
  intros Hraw Hsz. induction t as [|[m o'] t' IH]; intros n o Hb Hs Hall.
  - cbn [forallb snd] in Hall. apply andb_true_iff in Hall. destruct Hall as [Ho _]. apply N.leb_le in Ho.
    rewrite calc_aux_cons. cbv zeta. cbn [fields_spec_from calc_fields_aux].
    replace ((size + 256 - o) mod 256) with (size - o).
    2:{ replace (size + 256 - o) with ((size - o) + 1 * 256) by lia. rewrite N.mod_add by lia.
        symmetry. apply N.mod_small. lia. }
    rewrite field_value_bits by exact Hraw. reflexivity.
  - cbn [offsets_sorted] in Hs. apply andb_true_iff in Hs. destruct Hs as [Hle Hs]. apply N.leb_le in Hle.
    cbn [forallb snd] in Hall. apply andb_true_iff in Hall. destruct Hall as [Ho Hall].
    assert (Ho' : o' <= size).
    { cbn [forallb snd] in Hall. apply andb_true_iff in Hall. destruct Hall as [Ho' _]. apply N.leb_le in Ho'. exact Ho'. }
    rewrite calc_aux_cons. cbv zeta.
    replace ((o' + 256 - o) mod 256) with (o' - o).
    2:{ replace (o' + 256 - o) with ((o' - o) + 1 * 256) by lia. rewrite N.mod_add by lia.
        symmetry. apply N.mod_small. lia. }
    rewrite field_value_bits by exact Hraw.
    replace ((o - base + (o' - o)) mod 256) with (o' - base) by (rewrite N.mod_small; lia).
    rewrite (IH m o' ltac:(lia) Hs Hall). reflexivity.
Qed.

(** Every sorted table whose offsets do not exceed the register size (uint8: below 256), every
    uint64 raw value: no panic, and field [i] is (name, declared offset, next offset - offset,
    that many bits of the raw value starting [offset - first offset] bits up).  Repeated
    offsets give empty fields (size 0, value 0); for register tables (first offset 0) this is
    [fields_spec]. *)
Theorem calc_sorted_exact : forall raw size n o t,
  raw < 2 ^ 64 -> size < 256 -> offsets_sorted o t = true ->
  forallb (fun f : string * N => snd f <=? size) ((n, o) :: t) = true ->
  calc_go raw size ((n, o) :: t) = Some (fields_spec_from raw size o ((n, o) :: t), false).
Proof.
  intros raw size n o t Hraw Hsz Hs Hall.
  rewrite calc_go_sorted.
  2:{ cbn [offsets_sorted]. rewrite Hs. destruct (N.leb_spec 0 o); [reflexivity|lia]. }
  unfold calc_fields. f_equal. f_equal.
  pose proof (calc_sorted_aux raw size o Hraw Hsz t n o (N.le_refl o) Hs Hall) as H.
  rewrite N.sub_diag in H. exact H.
Qed.

(** the hypotheses are satisfiable by tables that are NOT register tables: a repeated offset,
    a first offset above 0, a register of 200 bits *)
Example calc_sorted_exact_applies :
  calc_go 0xF0F0 200 [("a"%string, 4); ("b"%string, 8); ("c"%string, 8); ("d"%string, 100)] =
  Some ([("a"%string, 4, 4, 0); ("b"%string, 8, 0, 0); ("c"%string, 8, 92, 0xF0F); ("d"%string, 100, 100, 0)], false).
Proof. vm_compute. reflexivity. Qed.
Example calc_go_panics_example : calc_go 1 32 [("a"%string, 0); ("b"%string, 9); ("c"%string, 8)] = None.
Proof. vm_compute. reflexivity. Qed.

(** * 2. The second decoder: a chain of reads *)

(** the entries before the first one that does not fit, and that one *)
Fixpoint fitting_prefix (img : list N) (l : list entry) : list entry :=
  match l with
  | [] => []
  | e :: t => if fits img e then e :: fitting_prefix img t else []
  end.
Fixpoint first_unfit (img : list N) (l : list entry) : option entry :=
  match l with
  | [] => None
  | e :: t => if fits img e then first_unfit img t else Some e
  end.

Lemma read_le_fits_iff img off n : read_le img off n = (if fits img (EmptyString, off, n) then Some (le_at img off n) else None).
Proof. unfold read_le, fits, le_at, extent_bytes. cbn [e_off e_len fst snd]. reflexivity. Qed.

(** The values handed back are those of the longest prefix of the chain that fits, each the
    little-endian value of its own bytes ... *)
Theorem read_seq_fst : forall layout img,
  fst (read_seq layout img) =
  map (fun e => (e_id e, le_at img (e_off e) (e_len e))) (fitting_prefix img layout).
Proof.
  induction layout as [|[[s o] n] t IH]; intros img; [reflexivity|].
  cbn [read_seq fitting_prefix]. rewrite read_le_fits_iff.
  change (fits img (s, o, n)) with (fits img (EmptyString, o, n)).
  destruct (fits img (EmptyString, o, n)); [|reflexivity].
  cbn [fst map e_id e_off e_len snd]. f_equal. apply IH.
Qed.

(** ... and the error is that of the first read that does not fit: [io.EOF] when the image
    ends at or before its offset, [io.ErrUnexpectedEOF] inside it; nil when every read fits. *)
Theorem read_seq_snd : forall layout img,
  snd (read_seq layout img) =
  option_map (fun e => (e_id e, read_err_of img (e_off e))) (first_unfit img layout).
Proof.
  induction layout as [|[[s o] n] t IH]; intros img; [reflexivity|].
  cbn [read_seq first_unfit]. rewrite read_le_fits_iff.
  change (fits img (s, o, n)) with (fits img (EmptyString, o, n)).
  destruct (fits img (EmptyString, o, n)); [|reflexivity].
  cbn [snd]. apply IH.
Qed.

Lemma fitting_prefix_In img : forall l e, In e (fitting_prefix img l) -> In e l /\ fits img e = true.
Proof.
  induction l as [|a t IH]; intros e H; [contradiction|].
  cbn [fitting_prefix] in H. destruct (fits img a) eqn:E; [|contradiction].
  destruct H as [<-|H]; [split; [left; reflexivity|exact E]|].
  destruct (IH e H) as [H1 H2]. split; [right; exact H1|exact H2].
Qed.

(** every value handed back is the little-endian value of the bytes of an entry that fits *)
Theorem read_seq_values : forall layout img s v,
  In (s, v) (fst (read_seq layout img)) ->
  exists off n, In (s, off, n) layout /\ (off + n <= length img)%nat /\ v = le_at img off n.
Proof.
  intros layout img s v H. rewrite read_seq_fst in H. apply in_map_iff in H.
  destruct H as ([[s' o] n] & Heq & Hin). cbn [e_id e_off e_len fst snd] in Heq. injection Heq as -> <-.
  apply fitting_prefix_In in Hin. destruct Hin as [Hin Hf].
  exists o, n. split; [exact Hin|]. split; [|reflexivity].
  unfold fits in Hf. cbn [e_off e_len fst snd] in Hf. apply Nat.leb_le in Hf. exact Hf.
Qed.

Lemma first_unfit_none img : forall l, first_unfit img l = None <-> forall e, In e l -> fits img e = true.
Proof.
  induction l as [|a t IH]; cbn [first_unfit].
  - split; [intros _ e []|reflexivity].
  - destruct (fits img a) eqn:E.
    + rewrite IH. split.
      * intros H e [<-|He]; [exact E|apply H, He].
      * intros H e He. apply H. right. exact He.
    + split; [discriminate|]. intros H. rewrite (H a (or_introl eq_refl)) in E. discriminate.
Qed.

Lemma fitting_prefix_all img : forall l, (forall e, In e l -> fits img e = true) -> fitting_prefix img l = l.
Proof.
  induction l as [|a t IH]; intros H; [reflexivity|].
  cbn [fitting_prefix]. rewrite (H a (or_introl eq_refl)). f_equal. apply IH.
  intros e He. apply H. right. exact He.
Qed.

(** the chain succeeds iff every read fits; then every slot is reported *)
Theorem read_seq_ok_iff : forall layout img,
  snd (read_seq layout img) = None <-> forall e, In e layout -> fits img e = true.
Proof.
  intros layout img. rewrite read_seq_snd. rewrite <- first_unfit_none.
  destruct (first_unfit img layout); cbn [option_map]; split; try discriminate; reflexivity.
Qed.

Theorem read_seq_ok_all : forall layout img, snd (read_seq layout img) = None ->
  map fst (fst (read_seq layout img)) = ids layout.
Proof.
  intros layout img H. pose proof (proj1 (read_seq_ok_iff layout img) H) as H'.
  rewrite read_seq_fst, (fitting_prefix_all _ _ H'), map_map. reflexivity.
Qed.

(** a chain that fails does so at the FIRST read that does not fit: everything before it fits *)
Lemma first_unfit_split img : forall l e, first_unfit img l = Some e ->
  exists pre post, l = pre ++ e :: post /\ fitting_prefix img l = pre /\ fits img e = false.
Proof.
  induction l as [|a t IH]; intros e H; [discriminate|].
  cbn [first_unfit fitting_prefix] in *. destruct (fits img a) eqn:E.
  - destruct (IH e H) as (pre & post & -> & Hp & Hf).
    exists (a :: pre), post. split; [reflexivity|]. split; [rewrite Hp; reflexivity|exact Hf].
  - injection H as <-. exists [], t. split; [reflexivity|]. split; [reflexivity|exact E].
Qed.

Theorem read_seq_stops_at_first : forall layout img s k, snd (read_seq layout img) = Some (s, k) ->
  exists off n pre post, layout = pre ++ (s, off, n) :: post /\
    (length img < off + n)%nat /\ k = read_err_of img off /\
    map fst (fst (read_seq layout img)) = ids pre /\ forall e, In e pre -> fits img e = true.
Proof.
  intros layout img s k H. rewrite read_seq_snd in H.
  destruct (first_unfit img layout) as [[[s' o] n]|] eqn:E; [|discriminate].
  cbn [option_map e_id e_off fst snd] in H. injection H as -> <-.
  destruct (first_unfit_split _ _ _ E) as (pre & post & Hl & Hp & Hf).
  exists o, n, pre, post. split; [exact Hl|]. split.
  { unfold fits in Hf. cbn [e_off e_len fst snd] in Hf. apply Nat.leb_gt in Hf. exact Hf. }
  split; [reflexivity|]. split.
  - rewrite read_seq_fst, Hp, map_map. reflexivity.
  - intros e He. rewrite <- Hp in He. apply fitting_prefix_In in He. apply He.
Qed.

(** [ParseTXTRegs]: nil error exactly for images of at least 0x8f8 = 2296 bytes (it also reads
    TXT.E2STS at 0x8f0, far behind the registers pkg/registers supports) *)
Lemma parse_all_fit img : (2296 <= length img)%nat -> forall e, In e parse_layout -> fits img e = true.
Proof.
  intros H e He. unfold parse_layout in He. cbn [In] in He.
  repeat (destruct He as [<-|He]; [unfold fits; cbn [e_off e_len fst snd]; apply Nat.leb_le; lia|]).
  contradiction.
Qed.

Theorem parse_txt_ok_iff : forall img, snd (parse_txt img) = None <-> (2296 <= length img)%nat.
Proof.
  intros img. unfold parse_txt. rewrite read_seq_ok_iff. split.
  - intros H. specialize (H ("E2Sts"%string, 2288, 8)%nat).
    assert (Hin : In ("E2Sts"%string, 2288, 8)%nat parse_layout) by (unfold parse_layout; do 20 right; left; reflexivity).
    specialize (H Hin). unfold fits in H. cbn [e_off e_len fst snd] in H. apply Nat.leb_le in H. lia.
  - apply parse_all_fit.
Qed.

Lemma parse_slots_nodup : NoDup (ids all_tools_slots).
Proof. apply nodupb_sound. vm_compute. reflexivity. Qed.

(** * 3. The two decoders agree *)

(** ** Bytes inside bytes *)

Lemma le_value_app a b : le_value (a ++ b) = le_value a + 256 ^ N.of_nat (length a) * le_value b.
Proof.
  induction a as [|x a IH]; cbn [app le_value length].
  - change (256 ^ N.of_nat 0) with 1. lia.
  - rewrite IH, Nat2N.inj_succ, N.pow_succ_r'. lia.
Qed.

Lemma pow256_pos n : 0 < 256 ^ n.
Proof. apply N.neq_0_lt_0, N.pow_nonzero. discriminate. Qed.

(** [n] bytes taken [k] bytes into a byte string: digits [k .. k+n) of its value *)
Lemma le_value_slice l k n : (forall b, In b l -> b < 256) -> (k + n <= length l)%nat ->
  le_value (firstn n (skipn k l)) = (le_value l / 256 ^ N.of_nat k) mod 256 ^ N.of_nat n.
Proof.
  intros Hb Hlen.
  assert (H1 : le_value l / 256 ^ N.of_nat k = le_value (skipn k l)).
  { rewrite <- (firstn_skipn k l) at 1. rewrite le_value_app.
    rewrite firstn_length_le by lia.
    pose proof (le_value_bound (firstn k l) (fun b H => Hb b (In_firstn_reg _ _ _ H))) as Hlt.
    rewrite firstn_length_le in Hlt by lia.
    rewrite N.add_comm, N.mul_comm, N.div_add_l by (apply N.pow_nonzero; discriminate).
    rewrite (N.div_small _ _ Hlt). lia. }
  rewrite H1. rewrite <- (firstn_skipn n (skipn k l)) at 2. rewrite le_value_app.
  assert (Hl2 : length (firstn n (skipn k l)) = n) by (apply firstn_length_le; rewrite skipn_length; lia).
  rewrite Hl2.
  pose proof (le_value_bound (firstn n (skipn k l))
                (fun b H => Hb b (In_skipn_reg _ _ _ (In_firstn_reg _ _ _ H)))) as Hlt.
  rewrite Hl2 in Hlt.
  remember (le_value (firstn n (skipn k l))) as A. remember (le_value (skipn n (skipn k l))) as B.
  remember (256 ^ N.of_nat n) as P.
  replace (A + P * B) with (A + B * P) by lia.
  rewrite N.mod_add by (subst P; apply N.pow_nonzero; discriminate).
  symmetry. apply N.mod_small, Hlt.
Qed.

Lemma skipn_skipn_reg {A} : forall off k (l : list A), skipn k (skipn off l) = skipn (off + k) l.
Proof.
  induction off as [|off IH]; intros k l; [reflexivity|].
  destruct l as [|x l]; [rewrite !skipn_nil; reflexivity|]. cbn [skipn Nat.add]. apply IH.
Qed.

Lemma extent_bytes_sub img off m k n : (k + n <= m)%nat ->
  extent_bytes img (off + k) n = firstn n (skipn k (extent_bytes img off m)).
Proof.
  intros H. unfold extent_bytes.
  rewrite skipn_firstn_comm, firstn_firstn.
  replace (Nat.min n (m - k)) with n by lia.
  rewrite skipn_skipn_reg. reflexivity.
Qed.

Lemma extent_bytes_length img off m : (off + m <= length img)%nat -> length (extent_bytes img off m) = m.
Proof. intros H. unfold extent_bytes. apply firstn_length_le. rewrite skipn_length. lia. Qed.

Lemma extent_bytes_In img off m b : In b (extent_bytes img off m) -> In b img.
Proof. unfold extent_bytes. intros H. eapply In_skipn_reg, In_firstn_reg, H. Qed.

(** The [n] bytes at [off + k] of an image, when they lie inside the [m] bytes at [off]: bytes
    [k .. k+n) of that value. *)
Theorem le_at_sub : forall img off m k n, (forall b, In b img -> b < 256) ->
  (k + n <= m)%nat -> (off + m <= length img)%nat ->
  le_at img (off + k) n = (le_at img off m / 256 ^ N.of_nat k) mod 256 ^ N.of_nat n.
Proof.
  intros img off m k n Hb Hk Hm. unfold le_at.
  rewrite (extent_bytes_sub img off m k n Hk).
  apply le_value_slice.
  - intros b H. apply Hb. eapply extent_bytes_In, H.
  - rewrite extent_bytes_length by exact Hm. exact Hk.
Qed.

Lemma le_at_bound img off m : (forall b, In b img -> b < 256) -> (off + m <= length img)%nat ->
  le_at img off m < 256 ^ N.of_nat m.
Proof.
  intros Hb Hm. unfold le_at.
  pose proof (le_value_bound (extent_bytes img off m) (fun b H => Hb b (extent_bytes_In _ _ _ _ H))) as H.
  rewrite extent_bytes_length in H by exact Hm. exact H.
Qed.

(** ** A slot of pkg/tools inside a register of pkg/registers *)

Lemma find_entry_In : forall l s off n, find_entry s l = Some (off, n) -> In (s, off, n) l.
Proof.
  induction l as [|[[k o] m] t IH]; intros s off n H; [discriminate|].
  cbn [find_entry] in H. destruct (String.eqb_spec s k) as [->|Hne].
  - injection H as -> ->. left. reflexivity.
  - right. apply IH, H.
Qed.

(** the slot [slot] of the tools decoders lies inside the register [id], [k] bytes in *)
Definition slot_inside (slot id : string) (k : nat) : bool :=
  match find_entry slot all_tools_slots, find_entry id txt_layout with
  | Some (soff, sn), Some (roff, rn) => Nat.eqb soff (roff + k) && Nat.leb (k + sn) rn
  | _, _ => false
  end.

(** what a tools decoder (any chain [L] made of slots of pkg/tools) reported for a slot, and
    what [ReadTXTRegisters] returned for a register, on the same image *)
Lemma tools_slot_value L img slot v soff sn :
  incl L all_tools_slots -> find_entry slot all_tools_slots = Some (soff, sn) ->
  In (slot, v) (fst (read_seq L img)) -> (soff + sn <= length img)%nat /\ v = le_at img soff sn.
Proof.
  intros Hincl Hf Hin. destruct (read_seq_values _ _ _ _ Hin) as (o & n & HinL & Hfit & ->).
  apply Hincl in HinL. apply find_entry_In in Hf.
  destruct (nodup_ids_functional _ _ _ _ _ _ parse_slots_nodup Hf HinL) as [<- <-].
  split; [exact Hfit|reflexivity].
Qed.

Lemma txt_reg_value img id w roff rn :
  find_entry id txt_layout = Some (roff, rn) ->
  In (id, w) (fst (read_txt img)) -> (roff + rn <= length img)%nat /\ w = le_at img roff rn.
Proof.
  intros Hf Hin. destruct (read_regs_sound _ _ _ _ Hin) as (o & n & HinL & Hfit & ->).
  apply find_entry_In in Hf.
  destruct (nodup_ids_functional _ _ _ _ _ _ txt_ids_nodup Hf HinL) as [<- <-].
  split; [exact Hfit|reflexivity].
Qed.

(** Whenever a tools decoder reports the slot and [ReadTXTRegisters] returns the register, on
    ANY image, the slot's value is bytes [k .. k+sn) of the register's value. *)
Theorem slot_in_register : forall slot id k, slot_inside slot id k = true ->
  exists soff sn, find_entry slot all_tools_slots = Some (soff, sn) /\
  forall L img v w, incl L all_tools_slots -> (forall b, In b img -> b < 256) ->
    In (slot, v) (fst (read_seq L img)) -> In (id, w) (fst (read_txt img)) ->
    v = (w / 256 ^ N.of_nat k) mod 256 ^ N.of_nat sn.
Proof.
  intros slot id k H. unfold slot_inside in H.
  destruct (find_entry slot all_tools_slots) as [[soff sn]|] eqn:Es; [|discriminate].
  destruct (find_entry id txt_layout) as [[roff rn]|] eqn:Er; [|discriminate].
  apply andb_true_iff in H. destruct H as [H1 H2]. apply Nat.eqb_eq in H1. apply Nat.leb_le in H2.
  exists soff, sn. split; [reflexivity|].
  intros L img v w Hincl Hb Hv Hw.
  destruct (tools_slot_value _ _ _ _ _ _ Hincl Es Hv) as [_ ->].
  destruct (txt_reg_value _ _ _ _ _ Er Hw) as [Hfit ->].
  subst soff. apply le_at_sub; assumption.
Qed.

(** the 15 raw slots and the 4 quarters of the key ARE inside their registers *)
Lemma raw_slots_inside :
  forallb (fun p : string * string * nat * string => let '(s, id, k, _) := p in slot_inside s id k) raw_pairs = true.
Proof. vm_compute. reflexivity. Qed.
Lemma key_slots_inside :
  forallb (fun p : string * nat => slot_inside (fst p) "TXT.PUBLIC.KEY" (snd p)) key_slots = true.
Proof. vm_compute. reflexivity. Qed.

(** TXT.PUBLIC.KEY: the four uint64 of pkg/tools are bytes [8i, 8i+8) of the 32 key bytes of
    pkg/registers (as a little-endian number) *)
Theorem key_quarters_agree : forall slot k, In (slot, k) key_slots ->
  forall L img v w, incl L all_tools_slots -> (forall b, In b img -> b < 256) ->
    In (slot, v) (fst (read_seq L img)) -> In ("TXT.PUBLIC.KEY"%string, w) (fst (read_txt img)) ->
    v = (w / 256 ^ N.of_nat k) mod 256 ^ 8.
Proof.
  intros slot k Hin.
  assert (Hs : slot_inside slot "TXT.PUBLIC.KEY" k = true).
  { pose proof key_slots_inside as H. rewrite forallb_forall in H. apply (H (slot, k) Hin). }
  destruct (slot_in_register _ _ _ Hs) as (soff & sn & Hf & Hagree).
  assert (sn = 8%nat).
  { unfold key_slots in Hin. cbn [In] in Hin.
    repeat (destruct Hin as [Hin|Hin]; [injection Hin as <- <-; vm_compute in Hf; injection Hf as _ <-; reflexivity|]).
    contradiction. }
  subst sn. exact Hagree.
Qed.

(** ** Decoded fields *)

Lemma pow256 n : 256 ^ N.of_nat n = 2 ^ (8 * N.of_nat n).
Proof. rewrite N.pow_mul_r. reflexivity. Qed.

Lemma bits_div_mod lo w x : bits lo w x = (x / 2 ^ lo) mod 2 ^ w.
Proof. unfold bits. rewrite N.land_ones, N.shiftr_div_pow2. reflexivity. Qed.

(** a slice below bit [M] does not see the bits from [M] on *)
Lemma bits_mod_pow2 lo w M x : lo + w <= M -> bits lo w (x mod 2 ^ M) = bits lo w x.
Proof.
  intros H. apply N.bits_inj. intros j. rewrite !bits_bit.
  destruct (N.ltb_spec j w) as [Hj|Hj]; [|rewrite !andb_false_r; reflexivity].
  rewrite N.mod_pow2_bits_low by lia. reflexivity.
Qed.

Lemma spec_eqb_eq a b : spec_eqb a b = true -> a = b.
Proof.
  destruct a, b; cbn [spec_eqb]; intros H; try discriminate H; try reflexivity;
    repeat (apply andb_true_iff in H; destruct H as [H ?]);
    repeat match goal with E : N.eqb _ _ = true |- _ => apply N.eqb_eq in E; subst end; reflexivity.
Qed.

Lemma agrees_got W v s x : agrees W v s x = true -> got_at v x = expected_at W s x.
Proof.
  unfold agrees, got_at, expected_at. destruct v as [e|b].
  - destruct (spec_num s W x) as [n|]; [|discriminate]. intros H. apply N.eqb_eq in H. exact H.
  - destruct (spec_bool s x) as [r|] eqn:E; [|discriminate]. intros H. apply eqb_prop in H. subst r.
    destruct s; cbn [spec_bool] in E; try discriminate E; cbn [spec_num]; reflexivity.
Qed.

Lemma expected_slice W1 W2 s lo w x y : spec_slice s = Some (lo, w) ->
  bits lo w x = bits lo w y -> expected_at W1 s x = expected_at W2 s y.
Proof.
  intros Hs Hb. unfold expected_at.
  destruct s; cbn [spec_slice] in Hs; try discriminate Hs; injection Hs as -> ->;
    cbn [spec_num spec_bool]; rewrite Hb; reflexivity.
Qed.

(** A green pair obligation: both accessors exist in the model generated from the source, and
    on EVERY image on which the tools decoder reports the slot and [ReadTXTRegisters] returns
    the register, the two decoded fields are equal. *)
Theorem pair_sound : forall specs accs ta ra slot id,
  pair_ok specs accs (ta, ra, slot, id) = true ->
  exists at_ ar, find_accessor ta accs = Some at_ /\ find_accessor ra accs = Some ar /\
  forall L img v w, incl L all_tools_slots -> (forall b, In b img -> b < 256) ->
    In (slot, v) (fst (read_seq L img)) -> In (id, w) (fst (read_txt img)) ->
    got_at (a_val at_) v = got_at (a_val ar) w.
Proof.
  intros specs accs ta ra slot id H. unfold pair_ok in H.
  destruct (find_spec ta specs) as [[Wt st]|]; [|discriminate].
  destruct (find_spec ra specs) as [[Wr sr]|]; [|discriminate].
  destruct (find_accessor ta accs) as [at_|]; [|discriminate].
  destruct (find_accessor ra accs) as [ar|]; [|discriminate].
  destruct (find_entry slot all_tools_slots) as [[soff sn]|] eqn:Es; [|discriminate].
  destruct (find_entry id txt_layout) as [[roff rn]|] eqn:Er; [|discriminate].
  destruct (spec_slice st) as [[lo w']|] eqn:Esl.
  2:{ rewrite andb_false_r in H. discriminate. }
  repeat (apply andb_true_iff in H; destruct H as [H ?]).
  apply spec_eqb_eq in H. subst sr.
  match goal with E : Nat.eqb soff roff = true |- _ => apply Nat.eqb_eq in E; subst roff end.
  repeat match goal with E : N.eqb _ _ = true |- _ => apply N.eqb_eq in E end.
  match goal with E : (lo + w' <=? N.min Wt Wr) = true |- _ => apply N.leb_le in E; rename E into Hsl end.
  exists at_, ar. split; [reflexivity|]. split; [reflexivity|].
  intros L img v w Hincl Hb Hv Hw.
  destruct (tools_slot_value _ _ _ _ _ _ Hincl Es Hv) as [Hfv ->].
  destruct (txt_reg_value _ _ _ _ _ Er Hw) as [Hfw ->].
  assert (Hvb : le_at img soff sn < 2 ^ Wt).
  { replace Wt with (8 * N.of_nat sn) by congruence. rewrite <- pow256. apply le_at_bound; assumption. }
  assert (Hwb : le_at img soff rn < 2 ^ Wr).
  { replace Wr with (8 * N.of_nat rn) by congruence. rewrite <- pow256. apply le_at_bound; assumption. }
  rewrite (agrees_got Wt _ st _ (check_sound Wt _ _ ltac:(eassumption) _ Hvb)).
  rewrite (agrees_got Wr _ st _ (check_sound Wr _ _ ltac:(eassumption) _ Hwb)).
  apply (expected_slice Wt Wr st lo w' _ _ Esl).
  (* both values have the same low [min sn rn] bytes *)
  set (m := Nat.min sn rn).
  assert (Hm : le_at img soff sn mod 256 ^ N.of_nat m = le_at img soff rn mod 256 ^ N.of_nat m).
  { pose proof (le_at_sub img soff sn 0 m Hb ltac:(lia) Hfv) as E1.
    pose proof (le_at_sub img soff rn 0 m Hb ltac:(lia) Hfw) as E2.
    change (256 ^ N.of_nat 0) with 1 in E1, E2. rewrite N.div_1_r in E1, E2.
    rewrite <- E1, <- E2. reflexivity. }
  rewrite pow256 in Hm.
  assert (HM : lo + w' <= 8 * N.of_nat m) by (subst m; lia).
  rewrite <- (bits_mod_pow2 lo w' (8 * N.of_nat m) (le_at img soff sn) HM).
  rewrite <- (bits_mod_pow2 lo w' (8 * N.of_nat m) (le_at img soff rn) HM).
  rewrite Hm. reflexivity.
Qed.

(** A green raw-pair obligation: the accessor of pkg/registers applied to the register's value
    IS the number the tools decoder reports for the slot, on every image where both report. *)
Theorem raw_pair_sound : forall specs accs slot id k ra,
  raw_pair_ok specs accs (slot, id, k, ra) = true ->
  exists ar, find_accessor ra accs = Some ar /\
  forall L img v w, incl L all_tools_slots -> (forall b, In b img -> b < 256) ->
    In (slot, v) (fst (read_seq L img)) -> In (id, w) (fst (read_txt img)) ->
    got_at (a_val ar) w = v.
Proof.
  intros specs accs slot id k ra H. unfold raw_pair_ok in H.
  destruct (find_spec ra specs) as [[Wr sr]|]; [|discriminate].
  destruct (find_accessor ra accs) as [ar|]; [|discriminate].
  destruct (find_entry slot all_tools_slots) as [[soff sn]|] eqn:Es; [|discriminate].
  destruct (find_entry id txt_layout) as [[roff rn]|] eqn:Er; [|discriminate].
  repeat (apply andb_true_iff in H; destruct H as [H ?]).
  match goal with E : Nat.eqb soff _ = true |- _ => apply Nat.eqb_eq in E; subst soff end.
  match goal with E : Nat.leb _ rn = true |- _ => apply Nat.leb_le in E; rename E into Hk end.
  repeat match goal with E : N.eqb _ _ = true |- _ => apply N.eqb_eq in E end.
  exists ar. split; [reflexivity|].
  intros L img v w Hincl Hb Hv Hw.
  destruct (tools_slot_value _ _ _ _ _ _ Hincl Es Hv) as [_ ->].
  destruct (txt_reg_value _ _ _ _ _ Er Hw) as [Hfw ->].
  assert (Hwb : le_at img roff rn < 2 ^ Wr).
  { replace Wr with (8 * N.of_nat rn) by congruence. rewrite <- pow256. apply le_at_bound; assumption. }
  rewrite (agrees_got Wr _ sr _ (check_sound Wr _ _ ltac:(eassumption) _ Hwb)).
  rewrite (le_at_sub img roff rn k sn Hb Hk Hfw).
  destruct sr as [lo w'| | | |]; try discriminate.
  - match goal with E : _ && _ = true |- _ => apply andb_true_iff in E; destruct E as [E1 E2] end.
    apply N.eqb_eq in E1, E2. subst lo w'.
    unfold expected_at. cbn [spec_num]. rewrite bits_div_mod, !pow256. reflexivity.
  - match goal with E : _ && _ = true |- _ => apply andb_true_iff in E; destruct E as [E1 E2] end.
    apply Nat.eqb_eq in E1, E2. subst k sn.
    unfold expected_at. cbn [spec_num]. change (256 ^ N.of_nat 0) with 1. rewrite N.div_1_r.
    symmetry. apply N.mod_small. apply le_at_bound; assumption.
Qed.

(** the premises of [pair_sound] / [raw_pair_sound] are met: two accessors as the translator
    emits them, and an image on which both decoders report *)
Definition ex_accs : list accessor := [
  {| a_name := "tools.ParseTXTRegs.TxtReset"; a_width := 8; a_val := VBool (BNe (And Raw (Const 1)) (Const 0)) |};
  {| a_name := "registers.TXTErrorStatus.Reset"; a_width := 8; a_val := VBool (BNe (And Raw (Const 1)) (Const 0)) |};
  {| a_name := "registers.TXTDeviceID.DeviceID"; a_width := 64; a_val := VNum (Trunc (And (Shr Raw 16) (Const 65535)) 16) |}
]%string.
Definition ex_specs : list (string * N * aspec) := [
  ("tools.ParseTXTRegs.TxtReset", 8, Sp (SNonZero 0 1)); ("registers.TXTErrorStatus.Reset", 8, Sp (SNonZero 0 1));
  ("registers.TXTDeviceID.DeviceID", 64, Sp (SBits 16 16))
]%string.
Definition ex_image : list N := repeat 3 (N.to_nat 2296).
Lemma lookup_In : forall l s v, lookup s l = Some v -> In (s, v) l.
Proof.
  induction l as [|[k x] t IH]; intros s v H; [discriminate|].
  cbn [lookup] in H. destruct (String.eqb_spec s k) as [->|Hne].
  - injection H as ->. left. reflexivity.
  - right. apply IH, H.
Qed.
Example pair_sound_applies :
  pair_ok ex_specs ex_accs ("tools.ParseTXTRegs.TxtReset", "registers.TXTErrorStatus.Reset", "Ests", "TXT.ESTS")%string = true /\
  raw_pair_ok ex_specs ex_accs ("Did", "TXT.DIDVID", 2%nat, "registers.TXTDeviceID.DeviceID")%string = true /\
  In ("Ests"%string, 3) (fst (parse_txt ex_image)) /\ In ("TXT.ESTS"%string, 3) (fst (read_txt ex_image)) /\
  In ("Did"%string, 771) (fst (parse_txt ex_image)) /\ snd (parse_txt ex_image) = None.
Proof.
  split; [vm_compute; reflexivity|]. split; [vm_compute; reflexivity|].
  split; [apply lookup_In; vm_compute; reflexivity|]. split; [apply lookup_In; vm_compute; reflexivity|].
  split; [apply lookup_In; vm_compute; reflexivity|]. vm_compute. reflexivity.
Qed.

(** * 4. [ReadMSRRegisters] *)

Theorem read_msrs_in : forall layout rd id v,
  In (id, v) (fst (read_msrs_from layout rd)) <-> exists a, In (id, a) layout /\ rd a = Some v.
Proof.
  induction layout as [|[i a] t IH]; intros rd id v; cbn [read_msrs_from].
  - cbn [fst]. split; [contradiction|]. intros (a & H & _). contradiction.
  - destruct (rd a) as [x|] eqn:E; cbn [fst].
    + split.
      * intros [H|H].
        -- injection H as -> ->. exists a. split; [left; reflexivity|exact E].
        -- apply IH in H. destruct H as (a' & H1 & H2). exists a'. split; [right; exact H1|exact H2].
      * intros (a' & [H1|H1] & H2).
        -- injection H1 as -> ->. left. congruence.
        -- right. apply IH. exists a'. split; assumption.
    + rewrite IH. split.
      * intros (a' & H1 & H2). exists a'. split; [right; exact H1|exact H2].
      * intros (a' & [H1|H1] & H2).
        -- injection H1 as -> ->. congruence.
        -- exists a'. split; assumption.
Qed.

Theorem read_msrs_errors : forall layout rd id,
  In id (snd (read_msrs_from layout rd)) <-> exists a, In (id, a) layout /\ rd a = None.
Proof.
  induction layout as [|[i a] t IH]; intros rd id; cbn [read_msrs_from].
  - cbn [snd]. split; [contradiction|]. intros (a & H & _). contradiction.
  - destruct (rd a) as [x|] eqn:E; cbn [snd].
    + rewrite IH. split.
      * intros (a' & H1 & H2). exists a'. split; [right; exact H1|exact H2].
      * intros (a' & [H1|H1] & H2).
        -- injection H1 as -> ->. congruence.
        -- exists a'. split; assumption.
    + split.
      * intros [H|H].
        -- subst i. exists a. split; [left; reflexivity|exact E].
        -- apply IH in H. destruct H as (a' & H1 & H2). exists a'. split; [right; exact H1|exact H2].
      * intros (a' & [H1|H1] & H2).
        -- injection H1 as -> ->. left. reflexivity.
        -- right. apply IH. exists a'. split; assumption.
Qed.

(** both lists in table order; together they are the table *)
Theorem read_msrs_order : forall layout rd,
  map fst (fst (read_msrs_from layout rd)) = map fst (filter (fun e => match rd (snd e) with Some _ => true | None => false end) layout) /\
  snd (read_msrs_from layout rd) = map fst (filter (fun e => match rd (snd e) with Some _ => false | None => true end) layout) /\
  (length (fst (read_msrs_from layout rd)) + length (snd (read_msrs_from layout rd)) = length layout)%nat.
Proof.
  induction layout as [|[i a] t IH]; intros rd; [repeat split|].
  destruct (IH rd) as (H1 & H2 & H3). cbn [read_msrs_from filter snd].
  destruct (rd a); cbn [fst snd map length]; repeat split; try congruence; lia.
Qed.

Lemma msr_ids_nodup : NoDup (map fst msr_layout).
Proof. apply nodupb_sound. vm_compute. reflexivity. Qed.
Lemma msr_addrs_nodup : NoDup (map snd msr_layout).
Proof.
  unfold msr_layout. cbn [map snd].
  repeat (constructor; [cbn [In]; intros H; repeat (destruct H as [H|H]; [discriminate H|]); exact H|]).
  constructor.
Qed.

(** The clause for MSRs: every supported MSR whose read succeeds is in the result, once, with
    the value read from ITS MSR number — whatever happens to the other reads; one whose read
    fails is not in the result but in the error. *)
Theorem read_msrs_register : forall rd id a, In (id, a) msr_layout ->
  match rd a with
  | Some v => In (id, v) (fst (read_msrs rd)) /\ (forall w, In (id, w) (fst (read_msrs rd)) -> w = v) /\
              ~ In id (snd (read_msrs rd))
  | None => In id (snd (read_msrs rd)) /\ forall w, ~ In (id, w) (fst (read_msrs rd))
  end.
Proof.
  intros rd id a Hin.
  assert (Hfun : forall a', In (id, a') msr_layout -> a' = a).
  { intros a' H'. pose proof msr_ids_nodup as Hnd. revert Hin H'. generalize msr_layout as l. intros l.
    induction l as [|[i x] t IH]; intros H1 H2; [contradiction|].
    cbn [map fst] in Hnd. inversion Hnd as [|? ? Hni Hnd']; subst.
    assert (Hid : forall y, In (id, y) t -> In id (map fst t)) by (intros y Hy; change id with (fst (id, y)); apply in_map, Hy).
    destruct H1 as [H1|H1]; destruct H2 as [H2|H2].
    - congruence.
    - injection H1 as -> ->. exfalso. apply Hni, (Hid _ H2).
    - injection H2 as -> ->. exfalso. apply Hni, (Hid _ H1).
    - apply IH; assumption. }
  unfold read_msrs. destruct (rd a) as [v|] eqn:E.
  - split; [apply read_msrs_in; exists a; split; assumption|]. split.
    + intros w Hw. apply read_msrs_in in Hw. destruct Hw as (a' & H1 & H2).
      rewrite (Hfun a' H1) in H2. congruence.
    + intros H. apply read_msrs_errors in H. destruct H as (a' & H1 & H2).
      rewrite (Hfun a' H1) in H2. congruence.
  - split; [apply read_msrs_errors; exists a; split; assumption|].
    intros w Hw. apply read_msrs_in in Hw. destruct Hw as (a' & H1 & H2).
    rewrite (Hfun a' H1) in H2. congruence.
Qed.

(** the error is nil iff every one of the 8 reads succeeds; then all 8 registers come back, in
    table order *)
Theorem read_msrs_error_nil : forall rd,
  snd (read_msrs rd) = [] <-> forall id a, In (id, a) msr_layout -> rd a <> None.
Proof.
  intros rd. split.
  - intros H id a Hin E. assert (Hi : In id (snd (read_msrs rd))) by (apply read_msrs_errors; exists a; split; assumption).
    rewrite H in Hi. contradiction.
  - intros H. destruct (snd (read_msrs rd)) as [|id t] eqn:E; [reflexivity|].
    assert (Hi : In id (snd (read_msrs rd))) by (rewrite E; left; reflexivity).
    apply read_msrs_errors in Hi. destruct Hi as (a & H1 & H2). exfalso. exact (H id a H1 H2).
Qed.

(** one [Read] per table entry, in table order, with the entry's MSR number — independent of
    what the reader answers *)
Theorem msr_trace_layout : msr_trace msr_layout = [313; 314; 3200; 58; 254; 23; 498; 499].
Proof. reflexivity. Qed.

(** * 5. [Registers.Find] *)

Theorem find_reg_first : forall regs id v,
  find_reg id regs = Some v <->
  exists pre post, regs = pre ++ (id, v) :: post /\ ~ In id (map fst pre).
Proof.
  induction regs as [|[k x] t IH]; intros id v; cbn [find_reg].
  - split; [discriminate|]. intros (pre & post & H & _). destruct pre; discriminate.
  - destruct (String.eqb_spec k id) as [->|Hne].
    + split.
      * intros H. injection H as ->. exists [], t. split; [reflexivity|intros []].
      * intros (pre & post & H & Hni). destruct pre as [|[k' x'] pre].
        -- injection H as -> _. reflexivity.
        -- injection H as -> _ _. exfalso. apply Hni. left. reflexivity.
    + rewrite IH. split.
      * intros (pre & post & -> & Hni). exists ((k, x) :: pre), post. split; [reflexivity|].
        intros [H|H]; [apply Hne, H|apply Hni, H].
      * intros (pre & post & H & Hni). destruct pre as [|[k' x'] pre].
        -- injection H as -> _. congruence.
        -- injection H as -> -> ->. exists pre, post. split; [reflexivity|].
           intros Hin. apply Hni. right. exact Hin.
Qed.

Theorem find_reg_none : forall regs id, find_reg id regs = None <-> ~ In id (map fst regs).
Proof.
  induction regs as [|[k x] t IH]; intros id; cbn [find_reg map fst In].
  - split; [intros _ []|reflexivity].
  - destruct (String.eqb_spec k id) as [->|Hne].
    + split; [discriminate|]. intros H. exfalso. apply H. left. reflexivity.
    + rewrite IH. split; [intros H [H'|H']; [apply Hne, H'|apply H, H']|intros H H'; apply H; right; exact H'].
Qed.

(** with pairwise distinct IDs [Find] returns THE register with that ID *)
Theorem find_reg_unique : forall regs id v, NoDup (map fst regs) -> In (id, v) regs -> find_reg id regs = Some v.
Proof.
  induction regs as [|[k x] t IH]; intros id v Hnd Hin; [contradiction|].
  cbn [map fst] in Hnd. inversion Hnd as [|? ? Hni Hnd']; subst. cbn [find_reg].
  destruct Hin as [Hin|Hin].
  - injection Hin as -> ->. rewrite String.eqb_refl. reflexivity.
  - destruct (String.eqb_spec k id) as [->|Hne]; [|apply IH; assumption].
    exfalso. apply Hni. change id with (fst (id, v)). apply in_map, Hin.
Qed.

Lemma read_txt_ids_nodup img : NoDup (map fst (fst (read_txt img))).
Proof.
  unfold read_txt. rewrite read_regs_ids. pose proof txt_ids_nodup as H. revert H.
  generalize txt_layout as l. induction l as [|e t IH]; intros H; [constructor|].
  cbn [ids map] in H. inversion H as [|? ? Hni Hnd]; subst. cbn [filter].
  destruct (fits img e); [|apply IH, Hnd]. cbn [ids map]. constructor; [|apply IH, Hnd].
  intros Hin. apply Hni. unfold ids in *. apply in_map_iff in Hin. destruct Hin as (x & Hx & Hf).
  apply filter_In in Hf. apply in_map_iff. exists x. split; [exact Hx|apply Hf].
Qed.

(** [Find] on what [ReadTXTRegisters] returned: the little-endian value at the register's
    offset when its extent lies inside the image, nil otherwise *)
Theorem find_in_read_txt : forall img id off n, In (id, off, n) txt_layout ->
  find_reg id (fst (read_txt img)) =
  if Nat.leb (off + n) (length img) then Some (le_at img off n) else None.
Proof.
  intros img id off n Hin. destruct (Nat.leb_spec (off + n) (length img)) as [Hf|Hf].
  - apply find_reg_unique; [apply read_txt_ids_nodup|].
    apply (read_regs_fitting txt_layout img id off n txt_ids_nodup Hin Hf).
  - apply find_reg_none. intros H. apply in_map_iff in H. destruct H as ([i v] & Hi & Hv).
    cbn [fst] in Hi. subst i. destruct (read_regs_sound _ _ _ _ Hv) as (o & m & Hin' & Hfit & _).
    destruct (nodup_ids_functional _ _ _ _ _ _ txt_ids_nodup Hin Hin') as [<- <-]. lia.
Qed.

(** * 6. The sparse evaluation of the [CTools] cases is the model *)

Theorem read_seq_sparse_expand : forall layout len bytes,
  RC.read_seq_sparse layout len bytes = read_seq layout (RC.expand (N.to_nat len) bytes).
Proof.
  induction layout as [|[[s o] m] t IH]; intros len bytes; [reflexivity|].
  cbn [RC.read_seq_sparse read_seq]. rewrite IH, read_sparse_expand.
  destruct (read_le (RC.expand (N.to_nat len) bytes) o m); [reflexivity|].
  f_equal. f_equal. f_equal. unfold RC.err_sparse, read_err_of. rewrite expand_length.
  destruct (N.leb_spec len (N.of_nat o)); destruct (Nat.leb_spec (N.to_nat len) o); try lia; reflexivity.
Qed.

(** * 7. The generated obligations, as evaluated in coq/gen/Oblig_C04.v *)

Theorem pair_obligation_sound : forall specs accs ta ra slot id,
  snd (fst (oblig_pair specs accs (ta, ra, slot, id))) = true ->
  exists at_ ar, find_accessor ta accs = Some at_ /\ find_accessor ra accs = Some ar /\
  forall L img v w, incl L all_tools_slots -> (forall b, In b img -> b < 256) ->
    In (slot, v) (fst (read_seq L img)) -> In (id, w) (fst (read_txt img)) ->
    got_at (a_val at_) v = got_at (a_val ar) w.
Proof. intros specs accs ta ra slot id H. apply (pair_sound specs accs ta ra slot id). exact H. Qed.

Theorem raw_pair_obligation_sound : forall specs accs slot id k ra,
  snd (fst (oblig_raw_pair specs accs (slot, id, k, ra))) = true ->
  exists ar, find_accessor ra accs = Some ar /\
  forall L img v w, incl L all_tools_slots -> (forall b, In b img -> b < 256) ->
    In (slot, v) (fst (read_seq L img)) -> In (id, w) (fst (read_txt img)) ->
    got_at (a_val ar) w = v.
Proof. intros specs accs slot id k ra H. apply (raw_pair_sound specs accs slot id k ra). exact H. Qed.

(** the decoders of pkg/tools are chains over slots of [all_tools_slots] *)
Lemma tools_decoders_incl : forall which lay flds, tools_decoder which = Some (lay, flds) -> incl lay all_tools_slots.
Proof.
  intros which lay flds H. unfold tools_decoder in H. unfold all_tools_slots.
  destruct (String.eqb which "ParseTXTRegs"%string); [injection H as <- _; apply incl_appl, incl_refl|].
  destruct (String.eqb which "ReadACMStatus"%string); [injection H as <- _; apply incl_appr, incl_appl, incl_refl|].
  destruct (String.eqb which "ReadACMPolicyStatusRaw"%string); [injection H as <- _; apply incl_appr, incl_appr, incl_appl, incl_refl|].
  destruct (String.eqb which "ReadBootStatusRaw"%string); [injection H as <- _; apply incl_appr, incl_appr, incl_appr, incl_refl|].
  discriminate.
Qed.
