(** Proofs for C04 — the logic around the accessors (models in Model/RegistersDec.v).

    1. [CalculateRegisterFields] on ANY table: it panics iff the offsets decrease somewhere
       ([calc_go_panics_iff]); otherwise it returns what [calc_fields] computes ([calc_go_sorted]);
       on register tables that is the partition into bit slices ([calc_go_register_table]); on
       every sorted table that stays inside the register (repeated offsets, first offset above 0,
       sizes up to 255) field [i] is (name, offset, next offset - offset, bits of the raw value
       counted from the FIRST declared offset) ([calc_sorted_exact]).
    2. The second decoder: a chain of reads returns the values of the longest fitting prefix and
       stops at the first read that does not fit ([read_seq_fst], [read_seq_snd]); [ParseTXTRegs]
       succeeds exactly from 0x8f8 bytes on ([parse_txt_ok_iff]).
    3. (Proofs/RegistersAgree.v) The two decoders agree: a slot of pkg/tools that lies inside a register of pkg/registers is
       those bytes of the register's value ([slot_in_register], [le_at_sub]); a green pair
       obligation makes the decoded fields equal for EVERY image ([pair_sound], [raw_pair_sound]).
    4. (Proofs/RegistersMsr.v) [ReadMSRRegisters] ([read_msrs_*]), [Registers.Find] ([find_reg_*], [find_in_read_txt]).
    5. The sparse evaluation of the correspondence cases is the model ([read_seq_sparse_expand]). *)
From Coq Require Import NArith Arith String List Lia Bool ZifyN ZifyNat ZifyBool.
From CSS Require Import Lib.SymBits Lib.RegTypes Lib.RegOblig Model.Registers Model.RegistersDec.
From CSS Require Import Proofs.SymBits Proofs.Registers Proofs.RegistersRead.
Import ListNotations.
Open Scope N_scope.

(** * 1. [CalculateRegisterFields] on any table *)

Lemma calc_go_aux_cons raw size total last n o t :
  calc_go_aux raw size total last ((n, o) :: t) =
  if o <? last then None else
  let bsz := match t with
             | [] => (size + 256 - o) mod 256
             | (_, o') :: _ => (o' + 256 - o) mod 256
             end in
  match calc_go_aux raw size ((total + bsz) mod 256) o t with
  | None => None
  | Some r => Some ((n, o, bsz, N.land (N.shiftr raw total) ((N.shiftl 1 bsz mod 2 ^ 64 + 2 ^ 64 - 1) mod 2 ^ 64)) :: r)
  end.
Proof. reflexivity. Qed.

(** sorted: the loop runs through and computes [calc_fields_aux] *)
Lemma calc_go_aux_sorted raw size : forall l total last,
  offsets_sorted last l = true ->
  calc_go_aux raw size total last l = Some (calc_fields_aux raw size total l).
Proof.
  induction l as [|[n o] t IH]; intros total last H; [reflexivity|].
  cbn [offsets_sorted] in H. apply andb_true_iff in H. destruct H as [H1 H2].
  rewrite calc_go_aux_cons, calc_aux_cons. cbv zeta.
  destruct (N.ltb_spec o last) as [Hlt|Hge]; [apply N.leb_le in H1; lia|].
  rewrite (IH _ _ H2). reflexivity.
Qed.

Lemma calc_go_aux_unsorted raw size : forall l total last,
  offsets_sorted last l = false -> calc_go_aux raw size total last l = None.
Proof.
  induction l as [|[n o] t IH]; intros total last H; [discriminate|].
  cbn [offsets_sorted] in H. rewrite calc_go_aux_cons. cbv zeta.
  destruct (N.ltb_spec o last) as [Hlt|Hge]; [reflexivity|].
  apply andb_false_iff in H. destruct H as [H|H]; [apply N.leb_gt in H; lia|].
  rewrite (IH _ _ H). reflexivity.
Qed.

(** The call panics iff some offset is smaller than the one before it (the first one is
    compared with 0, which never fails). *)
Theorem calc_go_panics_iff : forall raw size l,
  calc_go raw size l = None <-> offsets_sorted 0 l = false.
Proof.
  intros raw size l. unfold calc_go. destruct l as [|e t]; [split; discriminate|].
  destruct (offsets_sorted 0 (e :: t)) eqn:E.
  - rewrite (calc_go_aux_sorted raw size _ 0 0 E). split; discriminate.
  - rewrite (calc_go_aux_unsorted raw size _ 0 0 E). split; reflexivity.
Qed.

(** On a sorted table the result is what [calc_fields] computes; it is the nil slice exactly
    for the empty table. *)
Theorem calc_go_sorted : forall raw size l, offsets_sorted 0 l = true ->
  calc_go raw size l = Some (calc_fields raw size l, match l with [] => true | _ => false end).
Proof.
  intros raw size l H. unfold calc_go, calc_fields. destruct l as [|e t]; [reflexivity|].
  rewrite (calc_go_aux_sorted raw size _ 0 0 H). reflexivity.
Qed.

Lemma offsets_incr_sorted : forall l prev, offsets_incr prev l = true -> offsets_sorted prev l = true.
Proof.
  induction l as [|[n o] t IH]; intros prev H; [reflexivity|].
  cbn [offsets_incr] in H. apply andb_true_iff in H. destruct H as [H1 H2].
  cbn [offsets_sorted]. apply andb_true_iff. split; [apply N.leb_le; apply N.ltb_lt in H1; lia|].
  apply IH, H2.
Qed.

(** Register tables (what the 25 supported registers declare): no panic, not nil, and the
    result is the partition into bit slices of [C04_fields_exact]. *)
Theorem calc_go_register_table : forall t raw, table_wf t = true ->
  calc_go raw (t_bits t) (t_fields t) = Some (fields_spec raw (t_bits t) (t_fields t), false).
Proof.
  intros t raw H. pose proof (calc_fields_exact t raw H) as Hex.
  destruct (table_wf_inv t H) as (n & rest & Hf & Hinc & _).
  rewrite calc_go_sorted.
  - rewrite Hex, Hf. reflexivity.
  - rewrite Hf. cbn [offsets_sorted]. rewrite (offsets_incr_sorted _ _ Hinc). reflexivity.
Qed.

(** ** Every sorted table inside the register *)

(** the mask [(1 << size) - 1] in uint64 from 64 bits on: all ones *)
Lemma mask_wide bsz : 64 <= bsz ->
  (N.shiftl 1 bsz mod 2 ^ 64 + 2 ^ 64 - 1) mod 2 ^ 64 = N.ones 64.
Proof.
  intros H. rewrite N.shiftl_1_l.
  replace bsz with (64 + (bsz - 64)) by lia. rewrite N.pow_add_r.
  rewrite N.mul_comm, N.mod_mul by (apply N.pow_nonzero; discriminate).
  vm_compute. reflexivity.
Qed.

Lemma land_ones_wide x w : x < 2 ^ 64 -> 64 <= w -> N.land x (N.ones 64) = N.land x (N.ones w).
Proof.
  intros Hx Hw. rewrite !N.land_ones.
  rewrite (N.mod_small x (2 ^ 64)) by exact Hx.
  rewrite N.mod_small; [reflexivity|].
  apply N.lt_le_trans with (2 ^ 64); [exact Hx|]. apply N.pow_le_mono_r; lia.
Qed.

Lemma shiftr_lt64 x s : x < 2 ^ 64 -> N.shiftr x s < 2 ^ 64.
Proof.
  intros Hx. rewrite N.shiftr_div_pow2.
  apply N.le_lt_trans with x; [|exact Hx].
  apply N.div_le_upper_bound; [apply N.pow_nonzero; discriminate|].
  assert (1 <= 2 ^ s) by (apply N.lt_pred_le; apply N.neq_0_lt_0, N.pow_nonzero; discriminate). nia.
Qed.

(** the value the loop computes for a field of [bsz] bits after [total] bits *)
Lemma field_value_bits raw total bsz : raw < 2 ^ 64 ->
  N.land (N.shiftr raw total) ((N.shiftl 1 bsz mod 2 ^ 64 + 2 ^ 64 - 1) mod 2 ^ 64) = bits total bsz raw.
Proof.
  intros Hraw. unfold bits. destruct (N.le_gt_cases bsz 64) as [Hle|Hgt].
  - rewrite mask_ones by exact Hle. reflexivity.
  - rewrite mask_wide by lia. apply land_ones_wide; [apply shiftr_lt64, Hraw|lia].
Qed.

(** What the helper computes on a sorted table: sizes are differences of consecutive offsets,
    values are counted from the first declared offset [base] (the shift is the running total of
    the sizes, not the declared offset). *)
Fixpoint fields_spec_from (raw size base : N) (l : list (string * N)) : list field :=
  match l with
  | [] => []
  | (n, o) :: t =>
      let nxt := match t with [] => size | (_, o') :: _ => o' end in
      (n, o, nxt - o, bits (o - base) (nxt - o) raw) :: fields_spec_from raw size base t
  end.

Lemma calc_sorted_aux raw size base : raw < 2 ^ 64 -> size < 256 ->
  forall t n o, base <= o -> offsets_sorted o t = true ->
    forallb (fun f : string * N => snd f <=? size) ((n, o) :: t) = true ->
    calc_fields_aux raw size (o - base) ((n, o) :: t) = fields_spec_from raw size base ((n, o) :: t).
Proof.
  intros Hraw Hsz. induction t as [|[m o'] t' IH]; intros n o Hb Hs Hall.
  - cbn [forallb snd] in Hall. apply andb_true_iff in Hall. destruct Hall as [Ho _]. apply N.leb_le in Ho.
    rewrite calc_aux_cons. cbv zeta. cbn [fields_spec_from calc_fields_aux].
    replace ((size + 256 - o) mod 256) with (size - o).
    2:{ replace (size + 256 - o) with ((size - o) + 1 * 256) by lia. rewrite N.mod_add by lia.
        symmetry. apply N.mod_small. lia. }
    rewrite field_value_bits by exact Hraw. reflexivity.
  - cbn [offsets_sorted] in Hs. apply andb_true_iff in Hs. destruct Hs as [Hle Hs]. apply N.leb_le in Hle.
    cbn [forallb snd] in Hall. apply andb_true_iff in Hall. destruct Hall as [Ho Hall].
    assert (Ho' : o' <= size).
    { cbn [forallb snd] in Hall. apply andb_true_iff in Hall. destruct Hall as [Ho' _]. apply N.leb_le in Ho'. exact Ho'. }
    rewrite calc_aux_cons. cbv zeta.
    replace ((o' + 256 - o) mod 256) with (o' - o).
    2:{ replace (o' + 256 - o) with ((o' - o) + 1 * 256) by lia. rewrite N.mod_add by lia.
        symmetry. apply N.mod_small. lia. }
    rewrite field_value_bits by exact Hraw.
    replace ((o - base + (o' - o)) mod 256) with (o' - base) by (rewrite N.mod_small; lia).
    rewrite (IH m o' ltac:(lia) Hs Hall). reflexivity.
Qed.

(** Every sorted table whose offsets do not exceed the register size (uint8: below 256), every
    uint64 raw value: no panic, and field [i] is (name, declared offset, next offset - offset,
    that many bits of the raw value starting [offset - first offset] bits up).  Repeated
    offsets give empty fields (size 0, value 0); for register tables (first offset 0) this is
    [fields_spec]. *)
Theorem calc_sorted_exact : forall raw size n o t,
  raw < 2 ^ 64 -> size < 256 -> offsets_sorted o t = true ->
  forallb (fun f : string * N => snd f <=? size) ((n, o) :: t) = true ->
  calc_go raw size ((n, o) :: t) = Some (fields_spec_from raw size o ((n, o) :: t), false).
Proof.
  intros raw size n o t Hraw Hsz Hs Hall.
  rewrite calc_go_sorted.
  2:{ cbn [offsets_sorted]. rewrite Hs. destruct (N.leb_spec 0 o); [reflexivity|lia]. }
  unfold calc_fields. f_equal. f_equal.
  pose proof (calc_sorted_aux raw size o Hraw Hsz t n o (N.le_refl o) Hs Hall) as H.
  rewrite N.sub_diag in H. exact H.
Qed.

(** the hypotheses are satisfiable by tables that are NOT register tables: a repeated offset,
    a first offset above 0, a register of 200 bits *)
Example calc_sorted_exact_applies :
  calc_go 0xF0F0 200 [("a"%string, 4); ("b"%string, 8); ("c"%string, 8); ("d"%string, 100)] =
  Some ([("a"%string, 4, 4, 0); ("b"%string, 8, 0, 0); ("c"%string, 8, 92, 0xF0F); ("d"%string, 100, 100, 0)], false).
Proof. vm_compute. reflexivity. Qed.
Example calc_go_panics_example : calc_go 1 32 [("a"%string, 0); ("b"%string, 9); ("c"%string, 8)] = None.
Proof. vm_compute. reflexivity. Qed.

(** * 2. The second decoder: a chain of reads *)

(** the entries before the first one that does not fit, and that one *)
Fixpoint fitting_prefix (img : list N) (l : list entry) : list entry :=
  match l with
  | [] => []
  | e :: t => if fits img e then e :: fitting_prefix img t else []
  end.
Fixpoint first_unfit (img : list N) (l : list entry) : option entry :=
  match l with
  | [] => None
  | e :: t => if fits img e then first_unfit img t else Some e
  end.

Lemma read_le_fits_iff img off n : read_le img off n = (if fits img (EmptyString, off, n) then Some (le_at img off n) else None).
Proof. unfold read_le, fits, le_at, extent_bytes. cbn [e_off e_len fst snd]. reflexivity. Qed.

(** The values handed back are those of the longest prefix of the chain that fits, each the
    little-endian value of its own bytes ... *)
Theorem read_seq_fst : forall layout img,
  fst (read_seq layout img) =
  map (fun e => (e_id e, le_at img (e_off e) (e_len e))) (fitting_prefix img layout).
Proof.
  induction layout as [|[[s o] n] t IH]; intros img; [reflexivity|].
  cbn [read_seq fitting_prefix]. rewrite read_le_fits_iff.
  change (fits img (s, o, n)) with (fits img (EmptyString, o, n)).
  destruct (fits img (EmptyString, o, n)); [|reflexivity].
  cbn [fst map e_id e_off e_len snd]. f_equal. apply IH.
Qed.

(** ... and the error is that of the first read that does not fit: [io.EOF] when the image
    ends at or before its offset, [io.ErrUnexpectedEOF] inside it; nil when every read fits. *)
Theorem read_seq_snd : forall layout img,
  snd (read_seq layout img) =
  option_map (fun e => (e_id e, read_err_of img (e_off e))) (first_unfit img layout).
Proof.
  induction layout as [|[[s o] n] t IH]; intros img; [reflexivity|].
  cbn [read_seq first_unfit]. rewrite read_le_fits_iff.
  change (fits img (s, o, n)) with (fits img (EmptyString, o, n)).
  destruct (fits img (EmptyString, o, n)); [|reflexivity].
  cbn [snd]. apply IH.
Qed.

Lemma fitting_prefix_In img : forall l e, In e (fitting_prefix img l) -> In e l /\ fits img e = true.
Proof.
  induction l as [|a t IH]; intros e H; [contradiction|].
  cbn [fitting_prefix] in H. destruct (fits img a) eqn:E; [|contradiction].
  destruct H as [<-|H]; [split; [left; reflexivity|exact E]|].
  destruct (IH e H) as [H1 H2]. split; [right; exact H1|exact H2].
Qed.

(** every value handed back is the little-endian value of the bytes of an entry that fits *)
Theorem read_seq_values : forall layout img s v,
  In (s, v) (fst (read_seq layout img)) ->
  exists off n, In (s, off, n) layout /\ (off + n <= length img)%nat /\ v = le_at img off n.
Proof.
  intros layout img s v H. rewrite read_seq_fst in H. apply in_map_iff in H.
  destruct H as ([[s' o] n] & Heq & Hin). cbn [e_id e_off e_len fst snd] in Heq. injection Heq as -> <-.
  apply fitting_prefix_In in Hin. destruct Hin as [Hin Hf].
  exists o, n. split; [exact Hin|]. split; [|reflexivity].
  unfold fits in Hf. cbn [e_off e_len fst snd] in Hf. apply Nat.leb_le in Hf. exact Hf.
Qed.

Lemma first_unfit_none img : forall l, first_unfit img l = None <-> forall e, In e l -> fits img e = true.
Proof.
  induction l as [|a t IH]; cbn [first_unfit].
  - split; [intros _ e []|reflexivity].
  - destruct (fits img a) eqn:E.
    + rewrite IH. split.
      * intros H e [<-|He]; [exact E|apply H, He].
      * intros H e He. apply H. right. exact He.
    + split; [discriminate|]. intros H. rewrite (H a (or_introl eq_refl)) in E. discriminate.
Qed.

Lemma fitting_prefix_all img : forall l, (forall e, In e l -> fits img e = true) -> fitting_prefix img l = l.
Proof.
  induction l as [|a t IH]; intros H; [reflexivity|].
  cbn [fitting_prefix]. rewrite (H a (or_introl eq_refl)). f_equal. apply IH.
  intros e He. apply H. right. exact He.
Qed.

(** the chain succeeds iff every read fits; then every slot is reported *)
Theorem read_seq_ok_iff : forall layout img,
  snd (read_seq layout img) = None <-> forall e, In e layout -> fits img e = true.
Proof.
  intros layout img. rewrite read_seq_snd. rewrite <- first_unfit_none.
  destruct (first_unfit img layout); cbn [option_map]; split; try discriminate; reflexivity.
Qed.

Theorem read_seq_ok_all : forall layout img, snd (read_seq layout img) = None ->
  map fst (fst (read_seq layout img)) = ids layout.
Proof.
  intros layout img H. pose proof (proj1 (read_seq_ok_iff layout img) H) as H'.
  rewrite read_seq_fst, (fitting_prefix_all _ _ H'), map_map. reflexivity.
Qed.

(** a chain that fails does so at the FIRST read that does not fit: everything before it fits *)
Lemma first_unfit_split img : forall l e, first_unfit img l = Some e ->
  exists pre post, l = pre ++ e :: post /\ fitting_prefix img l = pre /\ fits img e = false.
Proof.
  induction l as [|a t IH]; intros e H; [discriminate|].
  cbn [first_unfit fitting_prefix] in *. destruct (fits img a) eqn:E.
  - destruct (IH e H) as (pre & post & -> & Hp & Hf).
    exists (a :: pre), post. split; [reflexivity|]. split; [rewrite Hp; reflexivity|exact Hf].
  - injection H as <-. exists [], t. split; [reflexivity|]. split; [reflexivity|exact E].
Qed.

Theorem read_seq_stops_at_first : forall layout img s k, snd (read_seq layout img) = Some (s, k) ->
  exists off n pre post, layout = pre ++ (s, off, n) :: post /\
    (length img < off + n)%nat /\ k = read_err_of img off /\
    map fst (fst (read_seq layout img)) = ids pre /\ forall e, In e pre -> fits img e = true.
Proof.
  intros layout img s k H. rewrite read_seq_snd in H.
  destruct (first_unfit img layout) as [[[s' o] n]|] eqn:E; [|discriminate].
  cbn [option_map e_id e_off fst snd] in H. injection H as -> <-.
  destruct (first_unfit_split _ _ _ E) as (pre & post & Hl & Hp & Hf).
  exists o, n, pre, post. split; [exact Hl|]. split.
  { unfold fits in Hf. cbn [e_off e_len fst snd] in Hf. apply Nat.leb_gt in Hf. exact Hf. }
  split; [reflexivity|]. split.
  - rewrite read_seq_fst, Hp, map_map. reflexivity.
  - intros e He. rewrite <- Hp in He. apply fitting_prefix_In in He. apply He.
Qed.

(** [ParseTXTRegs]: nil error exactly for images of at least 0x8f8 = 2296 bytes (it also reads
    TXT.E2STS at 0x8f0, far behind the registers pkg/registers supports) *)
Lemma parse_all_fit img : (2296 <= length img)%nat -> forall e, In e parse_layout -> fits img e = true.
Proof.
  intros H e He. unfold parse_layout in He. cbn [In] in He.
  repeat (destruct He as [<-|He]; [unfold fits; cbn [e_off e_len fst snd]; apply Nat.leb_le; lia|]).
  contradiction.
Qed.

Theorem parse_txt_ok_iff : forall img, snd (parse_txt img) = None <-> (2296 <= length img)%nat.
Proof.
  intros img. unfold parse_txt. rewrite read_seq_ok_iff. split.
  - intros H. specialize (H ("E2Sts"%string, 2288, 8)%nat).
    assert (Hin : In ("E2Sts"%string, 2288, 8)%nat parse_layout) by (unfold parse_layout; do 20 right; left; reflexivity).
    specialize (H Hin). unfold fits in H. cbn [e_off e_len fst snd] in H. apply Nat.leb_le in H. lia.
  - apply parse_all_fit.
Qed.

Lemma parse_slots_nodup : NoDup (ids all_tools_slots).
Proof. apply nodupb_sound. vm_compute. reflexivity. Qed.

