(** Proofs about Model/Diff.v (property C20). *)
From Coq Require Import Sorting.Permutation Sorting.Sorted.
From CSS Require Import Lib.Base Model.Diff.

(** * uint64 arithmetic *)

Definition u64 (z : Z) : Prop := 0 <= z < W64.
Definition u64r (r : range) : Prop := u64 (off r) /\ u64 (len r).
(** [Offset + Length] does not overflow uint64 *)
Definition nw (r : range) : Prop := off r + len r < W64.
(** address [a] belongs to range [r] *)
Definition inr (a : Z) (r : range) : Prop := off r <= a < off r + len r.

Lemma W64_val : W64 = 18446744073709551616. Proof. reflexivity. Qed.
Lemma W32_val : W32 = 4294967296. Proof. reflexivity. Qed.

Lemma wrap64_small z : 0 <= z < W64 -> wrap64 z = z.
Proof. intros H. rewrite wrap64_mod. apply Z.mod_small. exact H. Qed.

Lemma wrap64_u64 z : u64 (wrap64 z).
Proof. unfold u64. rewrite wrap64_mod. apply Z.mod_pos_bound. reflexivity. Qed.

Lemma wrap64_hi z : W64 <= z < 2 * W64 -> wrap64 z = z - W64.
Proof.
  intros H. rewrite wrap64_mod. symmetry. apply (Z.mod_unique z W64 1 (z - W64)); lia.
Qed.

Lemma wrap64_lo z : - W64 <= z < 0 -> wrap64 z = z + W64.
Proof.
  intros H. rewrite wrap64_mod. symmetry. apply (Z.mod_unique z W64 (-1) (z + W64)); lia.
Qed.

Ltac w64 := rewrite ?W64_val, ?W32_val in *.

Ltac ulia := unfold u64r, u64, nw, inr, W64, W32 in *; cbn [off len] in *; lia.

(** * Sorting contract *)

Definition le_off (a b : range) : Prop := off a <= off b.

(** what [Ranges.Sort] (sort.Slice by Offset) guarantees *)
Definition sort_contract (srt : list range -> list range) : Prop :=
  forall l, Permutation (srt l) l /\ StronglySorted le_off (srt l).

Lemma insert_perm r l : Permutation (insert_by_off r l) (r :: l).
Proof.
  induction l as [|h t IH]; cbn [insert_by_off]; [reflexivity|].
  destruct (off r <=? off h); [reflexivity|].
  rewrite IH. apply perm_swap.
Qed.

Lemma insert_sorted r l : StronglySorted le_off l -> StronglySorted le_off (insert_by_off r l).
Proof.
  induction 1 as [|h t Hs IH Hf]; cbn [insert_by_off].
  - constructor; constructor.
  - destruct (off r <=? off h) eqn:E.
    + apply Z.leb_le in E. constructor; [constructor; assumption|].
      constructor; [exact E|].
      eapply Forall_impl; [|exact Hf]. unfold le_off. intros; lia.
    + apply Z.leb_gt in E. constructor; [exact IH|].
      eapply Permutation_Forall; [symmetry; apply insert_perm|].
      constructor; [unfold le_off; lia|exact Hf].
Qed.

Lemma isort_contract : sort_contract isort.
Proof.
  intros l. induction l as [|h t [IHp IHs]]; cbn [isort].
  - split; [reflexivity|constructor].
  - split.
    + rewrite insert_perm. constructor. exact IHp.
    + apply insert_sorted. exact IHs.
Qed.

(** * MergeRanges *)

Lemma merge_go_u64 d e rest :
  u64r e -> Forall u64r rest -> Forall u64r (merge_go d e rest).
Proof.
  revert e. induction rest as [|n t IH]; intros e He Hr; cbn [merge_go].
  - constructor; [exact He|constructor].
  - inversion Hr; subst.
    destruct (wrap64 (off e + len e + d) >=? off n).
    + apply IH; [|assumption]. split; cbn [off len]; [apply He|apply wrap64_u64].
    + constructor; [exact He|]. apply IH; assumption.
Qed.

Ltac inv_forall H a b := apply Forall_cons_iff in H; destruct H as [a b].
Ltac inv_ss H a b := apply StronglySorted_inv in H; destruct H as [a b].

(** every merged range starts at or after the running entry *)
Lemma merge_go_off d e rest :
  Forall (le_off e) rest -> StronglySorted le_off rest ->
  Forall (le_off e) (merge_go d e rest).
Proof.
  revert e. induction rest as [|n t IH]; intros e Hle Hs; cbn [merge_go].
  - constructor; [unfold le_off; lia|constructor].
  - inv_forall Hle Hen Het. inv_ss Hs Hst Hnt.
    destruct (wrap64 (off e + len e + d) >=? off n).
    + apply (IH (mkR (off e) _)); assumption.
    + constructor; [unfold le_off; lia|].
      eapply Forall_impl; [|apply IH; assumption].
      unfold le_off in *. intros; lia.
Qed.

(** separation of the output, provided no output range overflows (also with
    the merge distance added) *)
Definition sep (d : Z) (a b : range) : Prop := off a + len a + d < off b.

Definition nwd (d : Z) (m : range) : Prop := 0 <= off m + len m + d < W64.

Lemma merge_go_sep d e rest :
  Forall (le_off e) rest -> StronglySorted le_off rest ->
  Forall (nwd d) (merge_go d e rest) ->
  StronglySorted (sep d) (merge_go d e rest).
Proof.
  revert e. induction rest as [|n t IH]; intros e Hle Hs Hnw; cbn [merge_go] in *.
  - constructor; constructor.
  - inv_forall Hle Hen Het. inv_ss Hs Hst Hnt.
    destruct (wrap64 (off e + len e + d) >=? off n) eqn:E.
    + apply (IH (mkR (off e) _)); assumption.
    + inv_forall Hnw Hne Hnr.
      constructor; [apply IH; assumption|].
      rewrite wrap64_small in E by (unfold nwd, W64 in *; lia).
      eapply Forall_impl; [|apply merge_go_off; eassumption].
      unfold sep, le_off. intros; lia.
Qed.

Lemma merge_go_length d e rest : (length (merge_go d e rest) <= S (length rest))%nat.
Proof.
  revert e. induction rest as [|n t IH]; intros e; cbn [merge_go length]; [lia|].
  destruct (wrap64 (off e + len e + d) >=? off n).
  - specialize (IH (mkR (off e) (wrap64 (Z.max (wrap64 (off n + len n)) (wrap64 (off e + len e)) - off e)))). lia.
  - specialize (IH n). cbn [length]. lia.
Qed.

Lemma merge_ranges_length d l : (length (merge_ranges d l) <= length l)%nat.
Proof. destruct l as [|e t]; cbn [merge_ranges length]; [lia|apply merge_go_length]. Qed.

(** coverage: with distance 0 and no overflowing input the merged ranges cover
    exactly the addresses of the input ranges *)
Lemma merge_go_cover e rest :
  u64r e -> nw e -> Forall u64r rest -> Forall nw rest ->
  Forall (le_off e) rest -> StronglySorted le_off rest ->
  forall a, (exists r, In r (e :: rest) /\ inr a r) <-> (exists m, In m (merge_go 0 e rest) /\ inr a m).
Proof.
  revert e. induction rest as [|n t IH]; intros e Hu Hn Hur Hnr Hle Hs a; cbn [merge_go].
  - reflexivity.
  - inv_forall Hur Hun Hut. inv_forall Hnr Hnn Hnt. inv_forall Hle Hen Het. inv_ss Hs Hst Hnt'.
    assert (E1 : wrap64 (off e + len e + 0) = off e + len e) by (rewrite Z.add_0_r; apply wrap64_small; ulia).
    assert (E2 : wrap64 (off n + len n) = off n + len n) by (apply wrap64_small; ulia).
    assert (E3 : wrap64 (off e + len e) = off e + len e) by (apply wrap64_small; ulia).
    rewrite E1, E2, E3.
    destruct (off e + len e >=? off n) eqn:E.
    + assert (Hge : off n <= off e + len e) by lia.
      set (e' := mkR (off e) (wrap64 (Z.max (off n + len n) (off e + len e) - off e))).
      assert (E4 : len e' = Z.max (off n + len n) (off e + len e) - off e).
      { unfold e'; cbn [len]. apply wrap64_small. unfold le_off in *. ulia. }
      assert (Hu' : u64r e') by (split; [apply Hu|unfold e'; cbn [len]; apply wrap64_u64]).
      assert (Hn' : nw e') by (unfold nw; rewrite E4; unfold e'; cbn [off]; ulia).
      rewrite <- (IH e' Hu' Hn' Hut Hnt Het Hst a).
      split.
      * intros [r [[<-|[<-|Hin]] Hr]].
        -- exists e'. split; [left; reflexivity|]. unfold inr in *. rewrite E4. unfold e'; cbn [off]. lia.
        -- exists e'. split; [left; reflexivity|]. unfold inr, le_off in *. rewrite E4. unfold e'; cbn [off]. lia.
        -- exists r. split; [right; exact Hin|exact Hr].
      * intros [r [[<-|Hin] Hr]].
        -- unfold inr in Hr. rewrite E4 in Hr. unfold e' in Hr; cbn [off] in Hr.
           destruct (Z_lt_ge_dec a (off e + len e)).
           ++ exists e. split; [left; reflexivity|]. unfold inr. lia.
           ++ exists n. split; [right; left; reflexivity|]. unfold inr. lia.
        -- exists r. split; [right; right; exact Hin|exact Hr].
    + destruct (IH n Hun Hnn Hut Hnt Hnt' Hst a) as [IH1 IH2].
      split.
      * intros [r [[<-|Hin] Hr]].
        -- exists e. split; [left; reflexivity|exact Hr].
        -- destruct IH1 as [m [Hm1 Hm2]]; [exists r; split; assumption|].
           exists m. split; [right; exact Hm1|exact Hm2].
      * intros [r [[<-|Hin] Hr]].
        -- exists e. split; [left; reflexivity|exact Hr].
        -- destruct IH2 as [m [Hm1 Hm2]]; [exists r; split; assumption|].
           exists m. split; [right; exact Hm1|exact Hm2].
Qed.

Lemma merge_ranges_u64 d l : Forall u64r l -> Forall u64r (merge_ranges d l).
Proof.
  destruct l as [|e t]; cbn [merge_ranges]; intros H; [constructor|].
  inv_forall H He Ht. apply merge_go_u64; assumption.
Qed.

Lemma merge_ranges_sep d l :
  StronglySorted le_off l -> Forall (nwd d) (merge_ranges d l) ->
  StronglySorted (sep d) (merge_ranges d l).
Proof.
  destruct l as [|e t]; cbn [merge_ranges]; intros Hs Hn; [constructor|].
  inv_ss Hs Hst Het. apply merge_go_sep; assumption.
Qed.

Lemma merge_ranges_cover l :
  Forall u64r l -> Forall nw l -> StronglySorted le_off l ->
  forall a, (exists r, In r l /\ inr a r) <-> (exists m, In m (merge_ranges 0 l) /\ inr a m).
Proof.
  destruct l as [|e t]; cbn [merge_ranges]; intros Hu Hn Hs a; [reflexivity|].
  inv_forall Hu Hue Hut. inv_forall Hn Hne Hnt. inv_ss Hs Hst Het.
  apply merge_go_cover; assumption.
Qed.

(** * Slices as maps over addresses *)

Lemma seqZ_length s n : length (seqZ s n) = n.
Proof. revert s. induction n as [|n IH]; intros s; cbn [seqZ length]; [reflexivity|]. rewrite IH. reflexivity. Qed.

Lemma In_seqZ a s n : In a (seqZ s n) <-> s <= a < s + Z.of_nat n.
Proof.
  revert s. induction n as [|n IH]; intros s; cbn [seqZ In].
  - lia.
  - rewrite IH. lia.
Qed.

Lemma seqZ_shift c s n : map (fun x => x + c) (seqZ s n) = seqZ (s + c) n.
Proof.
  revert s. induction n as [|n IH]; intros s; cbn [seqZ map]; [reflexivity|].
  rewrite IH. f_equal. f_equal. lia.
Qed.

Lemma skipn_nth_cons (d : Z) (data : list Z) (lo : nat) :
  (lo < length data)%nat -> skipn lo data = nth lo data d :: skipn (S lo) data.
Proof.
  revert lo. induction data as [|x t IH]; intros lo H; cbn [length] in H; [lia|].
  destruct lo as [|lo]; [reflexivity|].
  cbn [skipn nth]. rewrite (IH lo) by lia. reflexivity.
Qed.

Lemma firstn_skipn_map (data : list Z) (n lo : nat) :
  (lo + n <= length data)%nat ->
  firstn n (skipn lo data) = map (fun k => nth (Z.to_nat k) data 0) (seqZ (Z.of_nat lo) n).
Proof.
  revert lo. induction n as [|n IH]; intros lo H; [reflexivity|].
  rewrite (skipn_nth_cons 0) by lia. cbn [firstn seqZ map].
  rewrite Nat2Z.id. f_equal.
  rewrite IH by lia. f_equal. f_equal. lia.
Qed.

(** byte of an image at index [i] *)
Definition byte_at (img : list Z) (i : Z) : Z := nth (Z.to_nat i) img 0.

Lemma slice_ok data lo hi s :
  slice data lo hi = Ok s ->
  0 <= lo /\ lo <= hi /\ hi <= zlen data /\
  s = map (byte_at data) (seqZ lo (Z.to_nat (hi - lo))).
Proof.
  unfold slice. destruct ((0 <=? lo) && (lo <=? hi) && (hi <=? zlen data)) eqn:E; [|discriminate].
  apply andb_true_iff in E. destruct E as [E E3]. apply andb_true_iff in E. destruct E as [E1 E2].
  apply Z.leb_le in E1, E2, E3. intros H. inversion H; subst. clear H.
  repeat split; try assumption.
  unfold zlen in E3.
  rewrite firstn_skipn_map by lia. rewrite Z2Nat.id by lia. reflexivity.
Qed.

(** * Address mapping *)

(** index into an image of [size] bytes of the byte with address [a]: the
    mathematical (unwrapped) meaning of the two mappers *)
Definition img_index (mp : mapper) (size a : Z) : Z :=
  match mp with
  | MIdentity => a
  | MPhys => a - (W32 - size)
  end.

(** the PhysMemMapper maps an image that fits below 4 GiB *)
Definition mapper_ok (mp : mapper) (good bad : list Z) : Prop :=
  mp = MIdentity \/ (zlen good <= W32 /\ zlen bad <= W32).

(** the byte pair at address [a] *)
Definition pair_at (mp : mapper) (good bad : list Z) (a : Z) : Z * Z :=
  (byte_at good (img_index mp (zlen good) a), byte_at bad (img_index mp (zlen bad) a)).

(** range [m] lies inside the image of [size] bytes *)
Definition in_image (mp : mapper) (size : Z) (m : range) : Prop :=
  0 <= img_index mp size (off m) /\ img_index mp size (off m) + len m <= size.

Lemma zlen_nonneg l : 0 <= zlen l. Proof. unfold zlen. lia. Qed.

Lemma resolve_slice mp data m s :
  u64r m -> (mp = MIdentity \/ zlen data <= W32) ->
  slice data (resolve mp (zlen data) (off m)) (wrap64 (resolve mp (zlen data) (off m) + len m)) = Ok s ->
  nw m /\ in_image mp (zlen data) m /\
  s = map (fun a => byte_at data (img_index mp (zlen data) a)) (seqZ (off m) (Z.to_nat (len m))).
Proof.
  intros [Ho Hl] Hmp H. apply slice_ok in H. destruct H as [H0 [H1 [H2 Hs]]].
  pose proof (zlen_nonneg data) as Hz.
  destruct mp; cbn [resolve img_index] in *.
  - (* identity *)
    assert (Hnw : off m + len m < W64).
    { destruct (Z_lt_ge_dec (off m + len m) W64) as [|Hge]; [assumption|].
      assert (E : wrap64 (off m + len m) = off m + len m - W64) by (apply wrap64_hi; ulia).
      rewrite E in *. ulia. }
    assert (E : wrap64 (off m + len m) = off m + len m) by (apply wrap64_small; ulia).
    rewrite E in *.
    split; [exact Hnw|]. split; [unfold in_image; cbn [img_index]; lia|].
    rewrite Hs. replace (off m + len m - off m) with (len m) by lia. reflexivity.
  - (* physical *)
    destruct Hmp as [Hmp|Hsz]; [discriminate|].
    set (og := wrap64 (off m - W32 + zlen data)) in *.
    assert (Hog : og = off m - W32 + zlen data).
    { destruct (Z_lt_ge_dec (off m - W32 + zlen data) 0) as [Hneg|Hpos].
      - exfalso.
        assert (E : og = off m - W32 + zlen data + W64) by (apply wrap64_lo; ulia).
        rewrite E in *.
        pose proof (wrap64_u64 (off m - W32 + zlen data + W64 + len m)) as Hw. ulia.
      - destruct (Z_lt_ge_dec (off m - W32 + zlen data) W64) as [Hlt|Hge].
        + unfold og. apply wrap64_small. lia.
        + exfalso. ulia. }
    rewrite Hog in *.
    assert (Hnw2 : off m - W32 + zlen data + len m < W64).
    { destruct (Z_lt_ge_dec (off m - W32 + zlen data + len m) W64) as [|Hge]; [assumption|].
      assert (E : wrap64 (off m - W32 + zlen data + len m) = off m - W32 + zlen data + len m - W64) by (apply wrap64_hi; ulia).
      rewrite E in *. ulia. }
    assert (E : wrap64 (off m - W32 + zlen data + len m) = off m - W32 + zlen data + len m) by (apply wrap64_small; ulia).
    rewrite E in *.
    split; [ulia|]. split; [unfold in_image; cbn [img_index]; ulia|].
    rewrite Hs.
    replace (off m - W32 + zlen data + len m - (off m - W32 + zlen data)) with (len m) by lia.
    replace (off m - W32 + zlen data) with (off m + (zlen data - W32)) by lia.
    rewrite <- seqZ_shift. rewrite map_map.
    apply map_ext. intros a. f_equal. lia.
Qed.

Lemma combine_map {A B C} (f : A -> B) (g : A -> C) (l : list A) :
  combine (map f l) (map g l) = map (fun x => (f x, g x)) l.
Proof. induction l as [|x t IH]; cbn [map combine]; [reflexivity|]. rewrite IH. reflexivity. Qed.

Lemma slices_ok mp good bad m ps :
  u64r m -> mapper_ok mp good bad -> slices mp good bad m = Ok ps ->
  nw m /\ in_image mp (zlen good) m /\ in_image mp (zlen bad) m /\
  ps = map (pair_at mp good bad) (seqZ (off m) (Z.to_nat (len m))).
Proof.
  intros Hu Hmp H. unfold slices in H.
  destruct (slice good _ _) as [gs| | |] eqn:Eg; cbn [bind] in H; try discriminate.
  destruct (slice bad _ _) as [bs| | |] eqn:Eb; cbn [bind] in H; try discriminate.
  inversion H; subst; clear H.
  apply resolve_slice in Eg; [|exact Hu|destruct Hmp as [->|[? ?]]; [left; reflexivity|right; assumption]].
  apply resolve_slice in Eb; [|exact Hu|destruct Hmp as [->|[? ?]]; [left; reflexivity|right; assumption]].
  destruct Eg as [Hn [Hig ->]]. destruct Eb as [_ [Hib ->]].
  repeat split; try assumption; try apply Hig; try apply Hib.
  apply combine_map.
Qed.

(** * The scanner *)

Definition pair_ign (ign : list Z) (p : Z * Z) : bool := ignored ign (fst p) (snd p).
(** an equal / a differing non-ignored byte pair *)
Definition live_eq (ign : list Z) (p : Z * Z) : bool := negb (pair_ign ign p) && (fst p =? snd p).
Definition live_diff (ign : list Z) (p : Z * Z) : bool := negb (pair_ign ign p) && negb (fst p =? snd p).

(** the scanner without machine arithmetic: [pos] is the address of the head
    of [ps], the state is [None] (matching) or [Some prev] (inside a differing
    block that began at [prev]) *)
Fixpoint scanI (ign : list Z) (ps : list (Z * Z)) (pos : Z) (st : option Z) : list range :=
  match ps with
  | [] => match st with None => [] | Some prev => [mkR prev (pos - prev)] end
  | p :: t =>
      match st with
      | None => if live_diff ign p then scanI ign t (pos + 1) (Some pos)
                else scanI ign t (pos + 1) None
      | Some prev => if live_eq ign p then mkR prev (pos - prev) :: scanI ign t (pos + 1) None
                     else scanI ign t (pos + 1) (Some prev)
      end
  end.

Lemma scan_eq ign mo ml ps : forall idx ism prev,
  0 <= mo -> 0 <= idx -> idx + Z.of_nat (length ps) = ml -> mo + ml < W64 ->
  (ism = false -> 0 <= prev <= mo + idx) ->
  scan ign mo ml ps idx ism prev = scanI ign ps (mo + idx) (if ism then None else Some prev).
Proof.
  induction ps as [|[g b] t IH]; intros idx ism prev Hmo Hidx Hlen Hnw Hprev.
  - cbn [scan scanI length] in *. destruct ism; [reflexivity|].
    specialize (Hprev eq_refl).
    replace (ml + mo) with (mo + idx) by lia.
    rewrite (wrap64_small (mo + idx)) by ulia.
    rewrite wrap64_small by ulia. reflexivity.
  - cbn [scan scanI]. cbn [length] in Hlen.
    unfold live_diff, live_eq, pair_ign. cbn [fst snd].
    replace (mo + idx + 1) with (mo + (idx + 1)) by lia.
    destruct (ignored ign g b) eqn:Ei; cbn [negb andb].
    + rewrite IH by (try lia; intros E; specialize (Hprev E); lia).
      destruct ism; reflexivity.
    + destruct (g =? b) eqn:Egb; destruct ism; cbn [Bool.eqb negb app].
      * rewrite IH by (try lia; intros E; discriminate). reflexivity.
      * specialize (Hprev eq_refl).
        rewrite (wrap64_small (mo + idx)) by ulia.
        rewrite wrap64_small by ulia.
        rewrite IH by (try lia; intros E; discriminate). reflexivity.
      * rewrite (wrap64_small (mo + idx)) by ulia.
        rewrite IH by (try lia; intros E; lia). reflexivity.
      * rewrite IH by (try lia; intros E; specialize (Hprev E); lia). reflexivity.
Qed.

Section ScanI.
  Variable ign : list Z.
  Variable f : Z -> Z * Z.

  Let run (pos : Z) (n : nat) (st : option Z) : list range := scanI ign (map f (seqZ pos n)) pos st.

  Definition st_ok (st : option Z) (pos : Z) : Prop := forall prev, st = Some prev -> prev < pos.

  Lemma live_excl p : live_eq ign p = true -> live_diff ign p = false.
  Proof.
    unfold live_eq, live_diff. destruct (pair_ign ign p); cbn [negb andb]; [discriminate|].
    intros ->. reflexivity.
  Qed.

  Lemma run_S pos n st :
    run pos (S n) st =
    match st with
    | None => if live_diff ign (f pos) then run (pos + 1) n (Some pos) else run (pos + 1) n None
    | Some prev => if live_eq ign (f pos) then mkR prev (pos - prev) :: run (pos + 1) n None
                   else run (pos + 1) n (Some prev)
    end.
  Proof. reflexivity. Qed.

  Lemma run_0 pos st :
    run pos 0 st = match st with None => [] | Some prev => [mkR prev (pos - prev)] end.
  Proof. reflexivity. Qed.

  Lemma scanI_bounds n : forall pos st r,
    In r (run pos n st) -> st_ok st pos ->
    (st = Some (off r) \/ pos <= off r) /\ 0 < len r /\ pos <= off r + len r <= pos + Z.of_nat n.
  Proof.
    induction n as [|n IH]; intros pos st r Hin Hst.
    - rewrite run_0 in Hin. destruct st as [prev|]; [|destruct Hin].
      destruct Hin as [<-|[]]. cbn [off len]. specialize (Hst prev eq_refl).
      split; [left; reflexivity|]. lia.
    - rewrite run_S in Hin. destruct st as [prev|].
      + specialize (Hst prev eq_refl). destruct (live_eq ign (f pos)).
        * destruct Hin as [<-|Hin].
          -- cbn [off len]. split; [left; reflexivity|]. lia.
          -- apply IH in Hin; [|intros ? E; discriminate].
             destruct Hin as [[E|H1] [H2 H3]]; [discriminate|].
             split; [right; lia|]. lia.
        * apply IH in Hin; [|intros ? E; inversion E; subst; lia].
          destruct Hin as [H1 [H2 H3]]. split; [|lia].
          destruct H1 as [E|H1]; [left; exact E|right; lia].
      + destruct (live_diff ign (f pos)).
        * apply IH in Hin; [|intros ? E; inversion E; subst; lia].
          destruct Hin as [H1 [H2 H3]]. split; [|lia].
          right. destruct H1 as [E|H1]; [inversion E; lia|lia].
        * apply IH in Hin; [|intros ? E; discriminate].
          destruct Hin as [[E|H1] [H2 H3]]; [discriminate|].
          split; [right; lia|]. lia.
  Qed.

  Lemma scanI_start n : forall pos st r,
    In r (run pos n st) ->
    st = Some (off r) \/ (pos <= off r /\ live_diff ign (f (off r)) = true).
  Proof.
    induction n as [|n IH]; intros pos st r Hin.
    - rewrite run_0 in Hin. destruct st as [prev|]; [|destruct Hin].
      destruct Hin as [<-|[]]. left. reflexivity.
    - rewrite run_S in Hin. destruct st as [prev|].
      + destruct (live_eq ign (f pos)).
        * destruct Hin as [<-|Hin]; [left; reflexivity|].
          apply IH in Hin. destruct Hin as [E|[H1 H2]]; [discriminate|].
          right. split; [lia|exact H2].
        * apply IH in Hin. destruct Hin as [E|[H1 H2]]; [left; exact E|].
          right. split; [lia|exact H2].
      + destruct (live_diff ign (f pos)) eqn:Ed.
        * apply IH in Hin. destruct Hin as [E|[H1 H2]].
          -- injection E as E'. right. rewrite <- E'. split; [lia|exact Ed].
          -- right. split; [lia|exact H2].
        * apply IH in Hin. destruct Hin as [E|[H1 H2]]; [discriminate|].
          right. split; [lia|exact H2].
  Qed.

  Lemma scanI_inside n : forall pos st r,
    In r (run pos n st) -> st_ok st pos ->
    forall a, pos <= a -> off r <= a < off r + len r -> live_eq ign (f a) = false.
  Proof.
    induction n as [|n IH]; intros pos st r Hin Hst a Hpa Ha.
    - pose proof (scanI_bounds 0 pos st r Hin Hst) as [_ [_ Hb]]. lia.
    - pose proof Hin as Hin0. rewrite run_S in Hin. destruct st as [prev|].
      + specialize (Hst prev eq_refl). destruct (live_eq ign (f pos)) eqn:Ee.
        * destruct Hin as [<-|Hin]; [cbn [off len] in Ha; lia|].
          pose proof (scanI_bounds n (pos + 1) None r Hin) as [[E|Hb] _]; [intros ? E; discriminate|discriminate|].
          apply (IH (pos + 1) None r Hin); [intros ? E; discriminate|lia|exact Ha].
        * destruct (Z.eq_dec a pos) as [->|Hne]; [exact Ee|].
          apply (IH (pos + 1) (Some prev) r Hin); [intros ? E; inversion E; subst; lia|lia|exact Ha].
      + destruct (live_diff ign (f pos)) eqn:Ed.
        * destruct (Z.eq_dec a pos) as [->|Hne].
          -- destruct (live_eq ign (f pos)) eqn:Ee; [|reflexivity].
             apply live_excl in Ee. congruence.
          -- apply (IH (pos + 1) (Some pos) r Hin); [intros ? E; inversion E; subst; lia|lia|exact Ha].
        * pose proof (scanI_bounds n (pos + 1) None r Hin) as [[E|Hb] _]; [intros ? E; discriminate|discriminate|].
          apply (IH (pos + 1) None r Hin); [intros ? E; discriminate|lia|exact Ha].
  Qed.

  Lemma scanI_after n : forall pos st r,
    In r (run pos n st) ->
    off r + len r = pos + Z.of_nat n \/ live_eq ign (f (off r + len r)) = true.
  Proof.
    induction n as [|n IH]; intros pos st r Hin.
    - rewrite run_0 in Hin. destruct st as [prev|]; [|destruct Hin].
      destruct Hin as [<-|[]]. cbn [off len]. left. lia.
    - rewrite run_S in Hin.
      assert (Hn : pos + Z.of_nat (S n) = pos + 1 + Z.of_nat n) by lia. rewrite Hn.
      destruct st as [prev|].
      + destruct (live_eq ign (f pos)) eqn:Ee.
        * destruct Hin as [<-|Hin]; [|apply IH in Hin; exact Hin].
          cbn [off len]. right. replace (prev + (pos - prev)) with pos by lia. exact Ee.
        * apply IH in Hin; exact Hin.
      + destruct (live_diff ign (f pos)); apply IH in Hin; exact Hin.
  Qed.

  Definition before (a b : range) : Prop := off a + len a < off b.

  Lemma scanI_sorted n : forall pos st,
    st_ok st pos -> StronglySorted before (run pos n st).
  Proof.
    induction n as [|n IH]; intros pos st Hst.
    - rewrite run_0. destruct st; repeat constructor.
    - rewrite run_S. destruct st as [prev|].
      + specialize (Hst prev eq_refl). destruct (live_eq ign (f pos)).
        * constructor; [apply IH; intros ? E; discriminate|].
          apply Forall_forall. intros r Hin.
          pose proof (scanI_bounds n (pos + 1) None r Hin) as [[E|Hb] _]; [intros ? E; discriminate|discriminate|].
          unfold before; cbn [off len]. lia.
        * apply IH. intros ? E; inversion E; subst; lia.
      + destruct (live_diff ign (f pos)); apply IH; intros ? E; inversion E; subst; lia.
  Qed.

  Lemma scanI_open n : forall pos prev,
    exists r, In r (run pos n (Some prev)) /\ off r = prev /\ pos <= off r + len r.
  Proof.
    induction n as [|n IH]; intros pos prev.
    - rewrite run_0. exists (mkR prev (pos - prev)). cbn [off len In]. split; [left; reflexivity|]. lia.
    - rewrite run_S. destruct (live_eq ign (f pos)).
      + exists (mkR prev (pos - prev)). cbn [off len In]. split; [left; reflexivity|]. lia.
      + destruct (IH (pos + 1) prev) as [r [H1 [H2 H3]]]. exists r. split; [exact H1|]. lia.
  Qed.

  Lemma scanI_complete n : forall pos st a,
    st_ok st pos -> pos <= a < pos + Z.of_nat n -> live_diff ign (f a) = true ->
    exists r, In r (run pos n st) /\ off r <= a < off r + len r.
  Proof.
    induction n as [|n IH]; intros pos st a Hst Ha Hd; [lia|].
    rewrite run_S. destruct st as [prev|].
    - specialize (Hst prev eq_refl). destruct (live_eq ign (f pos)) eqn:Ee.
      + destruct (Z.eq_dec a pos) as [->|Hne]; [apply live_excl in Ee; congruence|].
        destruct (IH (pos + 1) None a) as [r [H1 H2]]; [intros ? E; discriminate|lia|exact Hd|].
        exists r. split; [right; exact H1|exact H2].
      + destruct (Z.eq_dec a pos) as [->|Hne].
        * destruct (scanI_open n (pos + 1) prev) as [r [H1 [H2 H3]]].
          exists r. split; [exact H1|]. lia.
        * apply IH; [intros ? E; inversion E; subst; lia|lia|exact Hd].
    - destruct (live_diff ign (f pos)) eqn:Ed.
      + destruct (Z.eq_dec a pos) as [->|Hne].
        * destruct (scanI_open n (pos + 1) pos) as [r [H1 [H2 H3]]].
          exists r. split; [exact H1|]. lia.
        * apply IH; [intros ? E; inversion E; subst; lia|lia|exact Hd].
      + destruct (Z.eq_dec a pos) as [->|Hne]; [congruence|].
        apply IH; [intros ? E; discriminate|lia|exact Hd].
  Qed.
End ScanI.

(** * Diff *)

(** the byte pair at address [a] is not ignored and differs / is equal *)
Definition diff_nonign (ign : list Z) (mp : mapper) (good bad : list Z) (a : Z) : Prop :=
  ignored ign (fst (pair_at mp good bad a)) (snd (pair_at mp good bad a)) = false /\
  fst (pair_at mp good bad a) <> snd (pair_at mp good bad a).
Definition equal_nonign (ign : list Z) (mp : mapper) (good bad : list Z) (a : Z) : Prop :=
  ignored ign (fst (pair_at mp good bad a)) (snd (pair_at mp good bad a)) = false /\
  fst (pair_at mp good bad a) = snd (pair_at mp good bad a).

Lemma live_diff_iff ign p :
  live_diff ign p = true <-> ignored ign (fst p) (snd p) = false /\ fst p <> snd p.
Proof.
  unfold live_diff, pair_ign. destruct (ignored ign (fst p) (snd p)); cbn [negb andb].
  - split; [discriminate|intros [? _]; discriminate].
  - destruct (fst p =? snd p) eqn:E; cbn [negb].
    + apply Z.eqb_eq in E. split; [discriminate|intros [_ H]; contradiction].
    + apply Z.eqb_neq in E. split; [intros _; split; [reflexivity|exact E]|reflexivity].
Qed.

Lemma live_eq_iff ign p :
  live_eq ign p = true <-> ignored ign (fst p) (snd p) = false /\ fst p = snd p.
Proof.
  unfold live_eq, pair_ign. destruct (ignored ign (fst p) (snd p)); cbn [negb andb].
  - split; [discriminate|intros [? _]; discriminate].
  - rewrite Z.eqb_eq. split; [intros H; split; [reflexivity|exact H]|intros [_ H]; exact H].
Qed.

(** what one merged range contributes *)
Definition scan_of (ign : list Z) (mp : mapper) (good bad : list Z) (m : range) : list range :=
  scanI ign (map (pair_at mp good bad) (seqZ (off m) (Z.to_nat (len m)))) (off m) None.

Definition fits (mp : mapper) (good bad : list Z) (m : range) : Prop :=
  nw m /\ in_image mp (zlen good) m /\ in_image mp (zlen bad) m.

Lemma diff_go_ok ign mp good bad : forall ms out,
  Forall u64r ms -> mapper_ok mp good bad ->
  diff_go ign mp good bad ms = Ok out ->
  Forall (fits mp good bad) ms /\ out = flat_map (scan_of ign mp good bad) ms.
Proof.
  induction ms as [|m t IH]; intros out Hu Hmp H; cbn [diff_go] in H.
  - inversion H. split; [constructor|reflexivity].
  - inv_forall Hu Hum Hut.
    destruct (slices mp good bad m) as [ps| | |] eqn:Es; cbn [bind] in H; try discriminate.
    destruct (diff_go ign mp good bad t) as [rest| | |] eqn:Er; cbn [bind] in H; try discriminate.
    inversion H; subst; clear H.
    destruct (IH rest Hut Hmp eq_refl) as [IH1 IH2].
    apply slices_ok in Es; [|exact Hum|exact Hmp].
    destruct Es as [Hn [Hg [Hb Hps]]].
    split; [constructor; [unfold fits; split; [exact Hn|split; [exact Hg|exact Hb]]|exact IH1]|].
    cbn [flat_map]. rewrite <- IH2. f_equal.
    unfold scan_of. rewrite <- Hps.
    rewrite scan_eq; [rewrite Z.add_0_r; reflexivity|ulia|lia| |exact Hn|discriminate].
    rewrite Hps, map_length, seqZ_length. rewrite Z2Nat.id by ulia. lia.
Qed.

Lemma StronglySorted_app {A} (R : A -> A -> Prop) l1 l2 :
  StronglySorted R l1 -> StronglySorted R l2 ->
  (forall a b, In a l1 -> In b l2 -> R a b) -> StronglySorted R (l1 ++ l2).
Proof.
  induction l1 as [|x t IH]; intros H1 H2 H; cbn [app]; [exact H2|].
  inv_ss H1 Ht Hx. constructor.
  - apply IH; [exact Ht|exact H2|]. intros a b Ha Hb. apply H; [right; exact Ha|exact Hb].
  - apply Forall_app. split; [exact Hx|].
    apply Forall_forall. intros b Hb. apply H; [left; reflexivity|exact Hb].
Qed.

(** [r] lies inside [m] *)
Definition within (r m : range) : Prop := off m <= off r /\ off r + len r <= off m + len m.

Lemma flat_map_sorted (g : range -> list range) ms :
  StronglySorted (sep 0) ms ->
  (forall m, In m ms -> StronglySorted before (g m) /\ forall r, In r (g m) -> within r m /\ 0 < len r) ->
  StronglySorted before (flat_map g ms).
Proof.
  induction ms as [|m t IH]; intros Hs Hg; cbn [flat_map]; [constructor|].
  inv_ss Hs Hst Hm.
  apply StronglySorted_app.
  - apply Hg. left. reflexivity.
  - apply IH; [exact Hst|]. intros m' Hin. apply Hg. right. exact Hin.
  - intros a b Ha Hb. apply in_flat_map in Hb. destruct Hb as [m' [Hm' Hb]].
    destruct (Hg m (or_introl eq_refl)) as [_ Hw]. destruct (Hw a Ha) as [[Ha1 Ha2] _].
    destruct (Hg m' (or_intror Hm')) as [_ Hw']. destruct (Hw' b Hb) as [[Hb1 Hb2] _].
    rewrite Forall_forall in Hm. specialize (Hm m' Hm'). unfold sep in Hm. unfold before. lia.
Qed.

Section DiffTheorems.
  Variable srt : list range -> list range.
  Hypothesis Hsrt : sort_contract srt.

  Lemma srt_forall (P : range -> Prop) l : Forall P l -> Forall P (srt l).
  Proof. intros H. eapply Permutation_Forall; [symmetry; apply Hsrt|exact H]. Qed.

  Lemma merged_u64 ranges : Forall u64r ranges -> Forall u64r (sort_and_merge srt ranges).
  Proof. intros H. apply merge_ranges_u64. apply srt_forall. exact H. Qed.

  Variables (ranges : list range) (mp : mapper) (good bad ign : list Z) (out : list range).
  Hypothesis Hu : Forall u64r ranges.
  Hypothesis Hmp : mapper_ok mp good bad.
  Hypothesis Hok : diff_with srt ranges mp good bad ign = Ok out.

  Let merged := sort_and_merge srt ranges.

  Lemma diff_flat :
    Forall (fits mp good bad) merged /\ out = flat_map (scan_of ign mp good bad) merged.
  Proof. apply diff_go_ok; [apply merged_u64; exact Hu|exact Hmp|exact Hok]. Qed.

  Lemma merged_sep : StronglySorted (sep 0) merged.
  Proof.
    apply merge_ranges_sep; [apply Hsrt|].
    destruct diff_flat as [Hf _]. pose proof (merged_u64 ranges Hu) as Hu'.
    fold merged in Hu'. rewrite Forall_forall in *. intros m Hm.
    destruct (Hf m Hm) as [Hn _]. specialize (Hu' m Hm). unfold nwd. ulia.
  Qed.

  Lemma out_in r : In r out ->
    exists m, In m merged /\ In r (scan_of ign mp good bad m) /\ u64r m /\ fits mp good bad m.
  Proof.
    destruct diff_flat as [Hf ->]. intros Hin. apply in_flat_map in Hin.
    destruct Hin as [m [Hm Hr]]. exists m.
    split; [exact Hm|]. split; [exact Hr|]. split.
    - pose proof (merged_u64 ranges Hu) as Hu'. rewrite Forall_forall in Hu'. apply Hu'. exact Hm.
    - rewrite Forall_forall in Hf. apply Hf. exact Hm.
  Qed.

  Lemma scan_of_bounds m r : u64r m -> In r (scan_of ign mp good bad m) -> within r m /\ 0 < len r.
  Proof.
    intros Hum Hin. unfold scan_of in Hin.
    apply scanI_bounds in Hin; [|intros ? E; discriminate].
    destruct Hin as [[E|H1] [H2 H3]]; [discriminate|].
    rewrite Z2Nat.id in H3 by ulia. unfold within. lia.
  Qed.

  Lemma diff_sound r : In r out ->
    (exists m, In m merged /\ within r m) /\ 0 < len r /\
    diff_nonign ign mp good bad (off r) /\
    (forall a, inr a r -> ~ equal_nonign ign mp good bad a).
  Proof.
    intros Hin. destruct (out_in r Hin) as [m [Hm [Hr [Hum Hfit]]]].
    destruct (scan_of_bounds m r Hum Hr) as [Hw Hl].
    split; [exists m; split; assumption|]. split; [exact Hl|]. split.
    - unfold scan_of in Hr. apply scanI_start in Hr. destruct Hr as [E|[_ H]]; [discriminate|].
      apply live_diff_iff in H. exact H.
    - intros a Ha Heq. unfold scan_of in Hr.
      eapply scanI_inside with (a := a) in Hr; [|intros ? E; discriminate|unfold within, inr in *; lia|exact Ha].
      apply live_eq_iff in Heq. congruence.
  Qed.

  Lemma diff_maximal r : In r out ->
    exists m, In m merged /\ within r m /\
      (off r + len r = off m + len m \/
       (off r + len r < off m + len m /\ equal_nonign ign mp good bad (off r + len r))).
  Proof.
    intros Hin. destruct (out_in r Hin) as [m [Hm [Hr [Hum Hfit]]]].
    destruct (scan_of_bounds m r Hum Hr) as [Hw Hl].
    exists m. split; [exact Hm|]. split; [exact Hw|].
    unfold scan_of in Hr. apply scanI_after in Hr. rewrite Z2Nat.id in Hr by ulia.
    destruct Hr as [E|H]; [left; exact E|].
    destruct (Z.eq_dec (off r + len r) (off m + len m)) as [E|Hne]; [left; exact E|].
    right. split; [unfold within in Hw; lia|]. apply live_eq_iff in H. exact H.
  Qed.

  Lemma diff_sorted : StronglySorted before out.
  Proof.
    destruct diff_flat as [Hf Hout]. rewrite Hout.
    apply flat_map_sorted; [exact merged_sep|].
    intros m Hm. split.
    - unfold scan_of. apply scanI_sorted. intros ? E; discriminate.
    - intros r Hr. apply scan_of_bounds; [|exact Hr].
      pose proof (merged_u64 ranges Hu) as Hu'. rewrite Forall_forall in Hu'. apply Hu'. exact Hm.
  Qed.

  Lemma diff_complete m a : In m merged -> inr a m -> diff_nonign ign mp good bad a ->
    exists r, In r out /\ inr a r.
  Proof.
    intros Hm Ha Hd. destruct diff_flat as [Hf Hout].
    pose proof (merged_u64 ranges Hu) as Hu'. rewrite Forall_forall in Hu'. specialize (Hu' m Hm).
    destruct (scanI_complete ign (pair_at mp good bad) (Z.to_nat (len m)) (off m) None a) as [r [Hr Hin]].
    - intros ? E; discriminate.
    - rewrite Z2Nat.id by ulia. exact Ha.
    - apply live_diff_iff. exact Hd.
    - exists r. split; [|exact Hin]. rewrite Hout. apply in_flat_map. exists m. split; [exact Hm|exact Hr].
  Qed.

  (** on success every merged requested range lies inside both images *)
  Lemma diff_ok_fits : Forall (fits mp good bad) merged.
  Proof. apply diff_flat. Qed.
End DiffTheorems.

(** requested addresses = addresses of the merged ranges, when no requested
    range overflows uint64 *)
Lemma requested_cover srt ranges :
  sort_contract srt -> Forall u64r ranges -> Forall nw ranges ->
  forall a, (exists r, In r ranges /\ inr a r) <-> (exists m, In m (sort_and_merge srt ranges) /\ inr a m).
Proof.
  intros Hsrt Hu Hn a. unfold sort_and_merge.
  rewrite <- merge_ranges_cover; [|apply srt_forall; assumption|apply srt_forall; assumption|apply Hsrt].
  destruct (Hsrt ranges) as [Hp _].
  split; intros [r [Hr Ha]]; exists r; (split; [|exact Ha]).
  - eapply Permutation_in; [symmetry; exact Hp|exact Hr].
  - eapply Permutation_in; [exact Hp|exact Hr].
Qed.

(** * Analyze *)

Definition pairs_of (mp : mapper) (good bad : list Z) (r : range) : list (Z * Z) :=
  map (pair_at mp good bad) (seqZ (off r) (Z.to_nat (len r))).

Lemma entries_go_ok mp ms good bad : forall rs es,
  Forall u64r rs -> mapper_ok mp good bad ->
  entries_go mp ms good bad rs = Ok es ->
  Forall (fits mp good bad) rs /\
  es = map (fun rM => mk_entry ms rM (pairs_of mp good bad rM)) rs.
Proof.
  induction rs as [|m t IH]; intros es Hu Hmp H; cbn [entries_go] in H.
  - inversion H. split; [constructor|reflexivity].
  - inv_forall Hu Hum Hut.
    destruct (slices mp good bad m) as [ps| | |] eqn:Es; cbn [bind] in H; try discriminate.
    destruct (entries_go mp ms good bad t) as [rest| | |] eqn:Er; cbn [bind] in H; try discriminate.
    inversion H; subst; clear H.
    destruct (IH rest Hut Hmp eq_refl) as [IH1 IH2].
    apply slices_ok in Es; [|exact Hum|exact Hmp].
    destruct Es as [Hn [Hg [Hb Hps]]].
    split; [constructor; [unfold fits; split; [exact Hn|split; [exact Hg|exact Hb]]|exact IH1]|].
    cbn [map]. rewrite <- IH2. unfold pairs_of. rewrite <- Hps. reflexivity.
Qed.

(** ** specification vocabulary *)

(** bit-wise distance of the two images on range [r] *)
Definition ham_spec (mp : mapper) (good bad : list Z) (r : range) : Z :=
  sumZ (map (fun a => ham_byte (fst (pair_at mp good bad a)) (snd (pair_at mp good bad a)))
            (seqZ (off r) (Z.to_nat (len r)))).

(** the same without the addresses at which the second image holds 0x00 or 0xFF *)
Definition ham_spec_filtered (mp : mapper) (good bad : list Z) (r : range) : Z :=
  sumZ (map (fun a => if (snd (pair_at mp good bad a) =? 0) || (snd (pair_at mp good bad a) =? 255)
                      then 0
                      else ham_byte (fst (pair_at mp good bad a)) (snd (pair_at mp good bad a)))
            (seqZ (off r) (Z.to_nat (len r)))).

Lemma hamming_plain ps :
  hamming_distance [] [] ps = sumZ (map (fun p => ham_byte (fst p) (snd p)) ps).
Proof.
  induction ps as [|[a b] t IH]; cbn [hamming_distance map sumZ fold_right]; [reflexivity|].
  cbn [in_set existsb orb fst snd]. rewrite IH. reflexivity.
Qed.

Lemma hamming_filtered ps :
  hamming_distance [] [0; 255] ps =
  sumZ (map (fun p => if (snd p =? 0) || (snd p =? 255) then 0 else ham_byte (fst p) (snd p)) ps).
Proof.
  induction ps as [|[a b] t IH]; cbn [hamming_distance map sumZ fold_right]; [reflexivity|].
  cbn [in_set existsb orb fst snd]. rewrite IH. rewrite orb_false_r. reflexivity.
Qed.

Lemma reduce_small l : (length l <= 1000)%nat -> reduce_ranges l = l.
Proof.
  intros H. unfold reduce_ranges, range_threshold.
  destruct (Z.of_nat (length l) >? 1000) eqn:E; [|reflexivity]. lia.
Qed.

Lemma first_offset_spec es : forall acc,
  let m := fold_left (fun acc e => if off (e_range e) <? acc then off (e_range e) else acc) es acc in
  m <= acc /\ (forall e, In e es -> m <= off (e_range e)) /\
  (m = acc \/ exists e, In e es /\ m = off (e_range e)).
Proof.
  induction es as [|e t IH]; intros acc; cbn [fold_left].
  - split; [lia|]. split; [intros ? []|left; reflexivity].
  - destruct (off (e_range e) <? acc) eqn:E.
    + apply Z.ltb_lt in E. destruct (IH (off (e_range e))) as [H1 [H2 H3]].
      split; [lia|]. split.
      * intros e' [<-|Hin]; [exact H1|apply H2; exact Hin].
      * right. destruct H3 as [H3|[e' [Hin H3]]]; [exists e; split; [left; reflexivity|exact H3]|].
        exists e'. split; [right; exact Hin|exact H3].
    + apply Z.ltb_ge in E. destruct (IH acc) as [H1 [H2 H3]].
      split; [exact H1|]. split.
      * intros e' [<-|Hin]; [lia|apply H2; exact Hin].
      * destruct H3 as [H3|[e' [Hin H3]]]; [left; exact H3|].
        right. exists e'. split; [right; exact Hin|exact H3].
Qed.

(** ** related measurements *)

Lemma intersect_iff c r :
  u64r c -> nw c -> u64r r -> nw r ->
  (intersect c r = true <-> exists a, inr a c /\ inr a r).
Proof.
  intros Huc Hnc Hur Hnr. unfold intersect.
  rewrite (wrap64_small (off c + len c)) by ulia.
  rewrite (wrap64_small (off r + len r)) by ulia.
  destruct (len c =? 0) eqn:E1; cbn [orb].
  { apply Z.eqb_eq in E1. split; [discriminate|]. intros [a [H1 H2]]. unfold inr in *. lia. }
  destruct (len r =? 0) eqn:E2.
  { apply Z.eqb_eq in E2. split; [discriminate|]. intros [a [H1 H2]]. unfold inr in *. lia. }
  apply Z.eqb_neq in E1, E2.
  destruct (off c + len c <=? off r) eqn:E3.
  { apply Z.leb_le in E3. split; [discriminate|]. intros [a [H1 H2]]. unfold inr in *. lia. }
  apply Z.leb_gt in E3.
  destruct (off c >=? off r + len r) eqn:E4.
  { split; [discriminate|]. intros [a [H1 H2]]. unfold inr in *. lia. }
  split; [intros _|reflexivity].
  exists (Z.max (off c) (off r)). unfold inr. ulia.
Qed.

Lemma related_chunks_spec rM chunks : forall j x,
  In x (related_chunks rM j chunks) <->
  exists k c, nth_error chunks k = Some c /\ x = j + Z.of_nat k /\ intersect c rM = true.
Proof.
  induction chunks as [|c t IH]; intros j x; cbn [related_chunks].
  - split; [intros []|]. intros [k [c [H _]]]. destruct k; discriminate.
  - assert (Htail : In x (related_chunks rM (j + 1) t) <->
                    exists k c', nth_error (c :: t) (S k) = Some c' /\ x = j + Z.of_nat (S k) /\ intersect c' rM = true).
    { rewrite IH. split; intros [k [c' [H1 [H2 H3]]]]; exists k, c'; cbn [nth_error] in *; (split; [exact H1|split; [lia|exact H3]]). }
    destruct (intersect c rM) eqn:E.
    + cbn [In]. rewrite Htail. split.
      * intros [<-|[k [c' H]]]; [exists O, c; cbn [nth_error]; split; [reflexivity|split; [lia|exact E]]|exists (S k), c'; exact H].
      * intros [[|k] [c' [H1 [H2 H3]]]]; [left; cbn in H2; lia|right; exists k, c'; split; [exact H1|split; [exact H2|exact H3]]].
    + rewrite Htail. split.
      * intros [k [c' H]]. exists (S k), c'. exact H.
      * intros [[|k] [c' [H1 [H2 H3]]]]; [cbn [nth_error] in H1; inversion H1; subst; congruence|exists k, c'; split; [exact H1|split; [exact H2|exact H3]]].
Qed.

Lemma related_spec rM ms : forall i x js,
  In (x, js) (related rM i ms) <->
  exists k m, nth_error ms k = Some m /\ x = i + Z.of_nat k /\ js = related_chunks rM 0 m /\ js <> [].
Proof.
  induction ms as [|m t IH]; intros i x js; cbn [related].
  - split; [intros []|]. intros [k [m [H _]]]. destruct k; discriminate.
  - assert (Htail : In (x, js) (related rM (i + 1) t) <->
                    exists k m', nth_error (m :: t) (S k) = Some m' /\ x = i + Z.of_nat (S k) /\ js = related_chunks rM 0 m' /\ js <> []).
    { rewrite IH. split; intros [k [m' [H1 [H2 H3]]]]; exists k, m'; cbn [nth_error] in *; (split; [exact H1|split; [lia|exact H3]]). }
    destruct (related_chunks rM 0 m) as [|j0 jt] eqn:E.
    + rewrite Htail. split.
      * intros [k [m' H]]. exists (S k), m'. exact H.
      * intros [[|k] [m' [H1 [H2 [H3 H4]]]]]; [cbn [nth_error] in H1; inversion H1; subst; congruence|exists k, m'; split; [exact H1|split; [exact H2|split; [exact H3|exact H4]]]].
    + cbn [In]. rewrite Htail. split.
      * intros [Heq|[k [m' H]]]; [|exists (S k), m'; exact H].
        inversion Heq; subst. exists O, m. cbn [nth_error]. split; [reflexivity|]. split; [lia|]. split; [symmetry; exact E|discriminate].
      * intros [[|k] [m' [H1 [H2 [H3 H4]]]]]; [left|right; exists k, m'; split; [exact H1|split; [exact H2|split; [exact H3|exact H4]]]].
        cbn [nth_error] in H1. inversion H1; subst. rewrite E. f_equal. cbn. lia.
Qed.

(** no overflow in any chunk reference *)
Definition wf_measurements (ms : list measurement) : Prop :=
  Forall (Forall (fun c => u64r c /\ nw c)) ms.

Lemma related_exact rM ms i j :
  u64r rM -> nw rM -> wf_measurements ms ->
  ((exists js, In (i, js) (related rM 0 ms) /\ In j js) <->
   (0 <= i /\ 0 <= j /\ exists m c, nth_error ms (Z.to_nat i) = Some m /\ nth_error m (Z.to_nat j) = Some c /\
                         exists a, inr a c /\ inr a rM)).
Proof.
  intros Hu Hn Hwf. split.
  - intros [js [Hin Hj]]. apply related_spec in Hin.
    destruct Hin as [k [m [H1 [H2 [H3 H4]]]]]. subst js.
    apply related_chunks_spec in Hj. destruct Hj as [k' [c [G1 [G2 G3]]]].
    split; [lia|]. split; [lia|]. exists m, c.
    replace (Z.to_nat i) with k by lia. replace (Z.to_nat j) with k' by lia.
    split; [exact H1|]. split; [exact G1|].
    apply intersect_iff; try assumption.
    + unfold wf_measurements in Hwf. rewrite Forall_forall in Hwf.
      specialize (Hwf m (nth_error_In _ _ H1)). rewrite Forall_forall in Hwf.
      apply (Hwf c (nth_error_In _ _ G1)).
    + unfold wf_measurements in Hwf. rewrite Forall_forall in Hwf.
      specialize (Hwf m (nth_error_In _ _ H1)). rewrite Forall_forall in Hwf.
      apply (Hwf c (nth_error_In _ _ G1)).
  - intros [Hi [Hj [m [c [H1 [H2 H3]]]]]].
    assert (Hc : u64r c /\ nw c).
    { unfold wf_measurements in Hwf. rewrite Forall_forall in Hwf.
      specialize (Hwf m (nth_error_In _ _ H1)). rewrite Forall_forall in Hwf.
      apply (Hwf c (nth_error_In _ _ H2)). }
    apply intersect_iff in H3; [|apply Hc|apply Hc|exact Hu|exact Hn].
    assert (Hjin : In j (related_chunks rM 0 m)).
    { apply related_chunks_spec. exists (Z.to_nat j), c. split; [exact H2|]. split; [lia|exact H3]. }
    exists (related_chunks rM 0 m). split; [|exact Hjin].
    apply related_spec. exists (Z.to_nat i), m. split; [exact H1|]. split; [lia|]. split; [reflexivity|].
    intros E. rewrite E in Hjin. destruct Hjin.
Qed.

Lemma related_nonempty rM ms i js : In (i, js) (related rM 0 ms) -> js <> [].
Proof. intros H. apply related_spec in H. destruct H as [k [m [_ [_ [_ H]]]]]. exact H. Qed.

Section AnalyzeTheorems.
  Variable srt : list range -> list range.
  Hypothesis Hsrt : sort_contract srt.
  Variables (ranges : list range) (mp : mapper) (ms : list measurement) (good bad : list Z)
            (parse_ok : bool) (rep : report).
  Hypothesis Hu : Forall u64r ranges.
  Hypothesis Hmp : mapper_ok mp good bad.
  Hypothesis Hok : analyze_with srt ranges mp ms good bad parse_ok = Ok rep.

  Lemma reduce_u64 l : Forall u64r l -> Forall u64r (reduce_ranges l).
  Proof.
    intros H. unfold reduce_ranges. destruct (_ >? _); [apply merge_ranges_u64; exact H|exact H].
  Qed.

  Lemma analyze_ranges_u64 : Forall u64r (analyze_ranges srt ranges).
  Proof. apply reduce_u64. apply merge_ranges_u64. apply srt_forall; assumption. Qed.

  Lemma analyze_flat :
    Forall (fits mp good bad) (analyze_ranges srt ranges) /\
    rep = mk_report (map (fun rM => mk_entry ms rM (pairs_of mp good bad rM)) (analyze_ranges srt ranges)).
  Proof.
    unfold analyze_with in Hok. destruct (negb parse_ok); [discriminate|].
    destruct (entries_go mp ms good bad (analyze_ranges srt ranges)) as [es| | |] eqn:E; cbn [bind] in Hok; try discriminate.
    inversion Hok; subst; clear Hok.
    apply entries_go_ok in E; [|apply analyze_ranges_u64|exact Hmp].
    destruct E as [E1 E2]. split; [exact E1|]. rewrite E2. reflexivity.
  Qed.

  Lemma analyze_entries_general : map e_range (r_entries rep) = analyze_ranges srt ranges.
  Proof.
    destruct analyze_flat as [_ ->]. cbn [mk_report r_entries].
    rewrite map_map. cbn [mk_entry e_range]. apply map_id.
  Qed.

  Lemma analyze_entries : (length ranges <= 1000)%nat ->
    map e_range (r_entries rep) = sort_and_merge srt ranges.
  Proof.
    intros Hlen. rewrite analyze_entries_general. unfold analyze_ranges, sort_and_merge.
    apply reduce_small.
    pose proof (merge_ranges_length 0 (srt ranges)) as H1.
    destruct (Hsrt ranges) as [Hp _]. apply Permutation_length in Hp. lia.
  Qed.

  Lemma entry_in e : In e (r_entries rep) ->
    exists rM, In rM (analyze_ranges srt ranges) /\ e = mk_entry ms rM (pairs_of mp good bad rM) /\
               u64r rM /\ fits mp good bad rM.
  Proof.
    destruct analyze_flat as [Hf ->]. cbn [mk_report r_entries]. intros Hin.
    apply in_map_iff in Hin. destruct Hin as [rM [<- Hin]]. exists rM.
    split; [exact Hin|]. split; [reflexivity|]. split.
    - pose proof analyze_ranges_u64 as H. rewrite Forall_forall in H. apply H. exact Hin.
    - rewrite Forall_forall in Hf. apply Hf. exact Hin.
  Qed.

  Lemma analyze_totals :
    r_changed rep = sumZ (map (fun e => len (e_range e)) (r_entries rep)) /\
    (r_entries rep = [] -> r_first rep = W64 - 1) /\
    (forall e, In e (r_entries rep) -> r_first rep <= off (e_range e)) /\
    (r_entries rep <> [] -> exists e, In e (r_entries rep) /\ r_first rep = off (e_range e)).
  Proof.
    destruct analyze_flat as [Hf Hrep].
    assert (Hc : r_changed rep = sumZ (map (fun e => len (e_range e)) (r_entries rep))) by (rewrite Hrep; reflexivity).
    assert (Hfst : r_first rep = first_offset (r_entries rep)) by (rewrite Hrep; reflexivity).
    split; [exact Hc|]. rewrite Hfst. unfold first_offset.
    destruct (first_offset_spec (r_entries rep) MAXU64) as [H1 [H2 H3]]. cbv zeta in *.
    split; [intros ->; reflexivity|]. split; [exact H2|].
    intros Hne. destruct H3 as [H3|H3]; [|exact H3].
    destruct (r_entries rep) as [|e t] eqn:Ees; [contradiction|].
    exists e. split; [left; reflexivity|].
    assert (Hin : In e (r_entries rep)) by (rewrite Ees; left; reflexivity).
    destruct (entry_in e Hin) as [rM [_ [He [Hur _]]]].
    specialize (H2 e (or_introl eq_refl)).
    assert (Hoff : off (e_range e) = off rM) by (rewrite He; reflexivity).
    rewrite H3 in *. unfold MAXU64 in *. ulia.
  Qed.

  Lemma analyze_hamming :
    (forall e, In e (r_entries rep) -> e_hd e = ham_spec mp good bad (e_range e)) /\
    r_hd rep = sumZ (map e_hd (r_entries rep)).
  Proof.
    split.
    - intros e Hin. destruct (entry_in e Hin) as [rM [_ [-> _]]]. cbn [mk_entry e_hd e_range].
      rewrite hamming_plain. unfold pairs_of, ham_spec. rewrite map_map. reflexivity.
    - destruct analyze_flat as [_ ->]. reflexivity.
  Qed.

  Lemma analyze_hamming_filtered :
    (forall e, In e (r_entries rep) -> e_hdf e = ham_spec_filtered mp good bad (e_range e)) /\
    r_hdf rep = sumZ (map e_hdf (r_entries rep)).
  Proof.
    split.
    - intros e Hin. destruct (entry_in e Hin) as [rM [_ [-> _]]]. cbn [mk_entry e_hdf e_range].
      rewrite hamming_filtered. unfold pairs_of, ham_spec_filtered. rewrite map_map. reflexivity.
    - destruct analyze_flat as [_ ->]. reflexivity.
  Qed.

  Lemma analyze_related : wf_measurements ms ->
    forall e, In e (r_entries rep) ->
      (forall i js, In (i, js) (e_rel e) -> js <> []) /\
      forall i j,
        (exists js, In (i, js) (e_rel e) /\ In j js) <->
        (0 <= i /\ 0 <= j /\ exists m c, nth_error ms (Z.to_nat i) = Some m /\ nth_error m (Z.to_nat j) = Some c /\
                              exists a, inr a c /\ inr a (e_range e)).
  Proof.
    intros Hwf e Hin. destruct (entry_in e Hin) as [rM [_ [-> [Hur [Hn _]]]]]. cbn [mk_entry e_rel e_range].
    split; [intros i js H; eapply related_nonempty; exact H|].
    intros i j. apply related_exact; assumption.
  Qed.

  Lemma analyze_ok_fits : Forall (fits mp good bad) (map e_range (r_entries rep)).
  Proof. rewrite analyze_entries_general. apply analyze_flat. Qed.
End AnalyzeTheorems.

(** * The counters cannot overflow *)

Lemma merge_go_sorted_off d e rest :
  Forall (le_off e) rest -> StronglySorted le_off rest ->
  StronglySorted le_off (merge_go d e rest).
Proof.
  revert e. induction rest as [|n t IH]; intros e Hle Hs; cbn [merge_go].
  - repeat constructor.
  - inv_forall Hle Hen Het. inv_ss Hs Hst Hnt.
    destruct (wrap64 (off e + len e + d) >=? off n).
    + apply (IH (mkR (off e) _)); assumption.
    + constructor; [apply IH; assumption|].
      eapply Forall_impl; [|apply merge_go_off; eassumption].
      unfold le_off in *. intros; lia.
Qed.

Lemma merge_ranges_sorted_off d l : StronglySorted le_off l -> StronglySorted le_off (merge_ranges d l).
Proof.
  destruct l as [|e t]; cbn [merge_ranges]; intros Hs; [constructor|].
  inv_ss Hs Hst Het. apply merge_go_sorted_off; assumption.
Qed.

Lemma sep_weaken d l : 0 <= d -> StronglySorted (sep d) l -> StronglySorted (sep 0) l.
Proof.
  intros Hd. induction 1 as [|r t Hs IH Hf]; constructor; [exact IH|].
  eapply Forall_impl; [|exact Hf]. unfold sep. intros; lia.
Qed.

Lemma sum_len_bound l : forall lo hi,
  StronglySorted (sep 0) l ->
  Forall (fun r => lo <= off r /\ off r + len r <= hi /\ 0 <= len r) l -> lo <= hi ->
  sumZ (map len l) <= hi - lo.
Proof.
  induction l as [|r t IH]; intros lo hi Hs Hf Hlh; cbn [map sumZ fold_right]; [lia|].
  inv_ss Hs Hst Hrt. inv_forall Hf Hr Ht.
  specialize (IH (off r + len r) hi Hst).
  fold (sumZ (map len t)).
  assert (sumZ (map len t) <= hi - (off r + len r)); [|lia].
  apply IH; [|lia].
  rewrite Forall_forall in *. intros x Hx. specialize (Hrt x Hx). specialize (Ht x Hx).
  unfold sep in Hrt. lia.
Qed.

Lemma b2z_range b : 0 <= b2z b <= 1. Proof. destruct b; cbn; lia. Qed.

Lemma ham_byte_range x y : 0 <= ham_byte x y <= 8.
Proof.
  unfold ham_byte, popcount8.
  pose proof (b2z_range (Z.testbit (Z.lxor x y) 0)). pose proof (b2z_range (Z.testbit (Z.lxor x y) 1)).
  pose proof (b2z_range (Z.testbit (Z.lxor x y) 2)). pose proof (b2z_range (Z.testbit (Z.lxor x y) 3)).
  pose proof (b2z_range (Z.testbit (Z.lxor x y) 4)). pose proof (b2z_range (Z.testbit (Z.lxor x y) 5)).
  pose proof (b2z_range (Z.testbit (Z.lxor x y) 6)). pose proof (b2z_range (Z.testbit (Z.lxor x y) 7)).
  lia.
Qed.

Lemma sumZ_le {A} (f g : A -> Z) l :
  (forall x, In x l -> f x <= g x) -> sumZ (map f l) <= sumZ (map g l).
Proof.
  induction l as [|x t IH]; intros H; cbn [map sumZ fold_right]; [lia|].
  fold (sumZ (map f t)). fold (sumZ (map g t)).
  specialize (H x (or_introl eq_refl)) as Hx.
  assert (sumZ (map f t) <= sumZ (map g t)) by (apply IH; intros y Hy; apply H; right; exact Hy).
  lia.
Qed.

Lemma sumZ_const {A} (l : list A) c : sumZ (map (fun _ => c) l) = c * Z.of_nat (length l).
Proof.
  induction l as [|x t IH]; cbn [map sumZ fold_right length]; [lia|].
  fold (sumZ (map (fun _ : A => c) t)). rewrite IH. lia.
Qed.

Lemma sumZ_scale {A} (f : A -> Z) c l : sumZ (map (fun x => c * f x) l) = c * sumZ (map f l).
Proof.
  induction l as [|x t IH]; cbn [map sumZ fold_right]; [lia|].
  fold (sumZ (map (fun x => c * f x) t)). fold (sumZ (map f t)). rewrite IH. lia.
Qed.

Lemma ham_spec_bound mp good bad r : 0 <= len r -> 0 <= ham_spec mp good bad r <= 8 * len r.
Proof.
  intros Hl. unfold ham_spec. split.
  - etransitivity; [|apply (sumZ_le (fun _ => 0))]; [rewrite sumZ_const; lia|].
    intros a _. apply ham_byte_range.
  - etransitivity; [apply (sumZ_le _ (fun _ => 8))|].
    + intros a _. apply ham_byte_range.
    + rewrite sumZ_const, seqZ_length, Z2Nat.id by lia. lia.
Qed.

Lemma ham_filtered_le mp good bad r : 0 <= ham_spec_filtered mp good bad r <= ham_spec mp good bad r.
Proof.
  unfold ham_spec_filtered, ham_spec. split.
  - etransitivity; [|apply (sumZ_le (fun _ => 0))]; [rewrite sumZ_const; lia|].
    intros a _. cbv beta. destruct (_ || _); [lia|apply ham_byte_range].
  - apply sumZ_le. intros a _. cbv beta.
    destruct (_ || _); [apply ham_byte_range|lia].
Qed.

Section Bounded.
  Variable srt : list range -> list range.
  Hypothesis Hsrt : sort_contract srt.
  Variables (ranges : list range) (mp : mapper) (ms : list measurement) (good bad : list Z)
            (parse_ok : bool) (rep : report).
  Hypothesis Hu : Forall u64r ranges.
  Hypothesis Hmp : mapper_ok mp good bad.
  Hypothesis Hsize : zlen good + 1023 < W64.
  Hypothesis Hok : analyze_with srt ranges mp ms good bad parse_ok = Ok rep.

  Lemma fits_nwd d m : 0 <= d <= 1023 -> u64r m -> fits mp good bad m -> nwd d m.
  Proof.
    intros Hd Hum [Hn [[Hg1 Hg2] _]]. unfold nwd.
    destruct mp; cbn [img_index] in *; [ulia|].
    destruct Hmp as [E|[Hs _]]; [discriminate|ulia].
  Qed.

  Lemma analyze_ranges_sep : StronglySorted (sep 0) (analyze_ranges srt ranges).
  Proof.
    destruct (analyze_flat srt Hsrt ranges mp ms good bad parse_ok rep Hu Hmp Hok) as [Hf _].
    pose proof (analyze_ranges_u64 srt Hsrt ranges Hu) as Hu'.
    unfold analyze_ranges, reduce_ranges in *.
    assert (Hso : StronglySorted le_off (merge_ranges 0 (srt ranges))) by (apply merge_ranges_sorted_off; apply Hsrt).
    destruct (_ >? _).
    - apply (sep_weaken 1023); [lia|]. apply merge_ranges_sep; [exact Hso|].
      rewrite Forall_forall in *. intros m Hm. apply fits_nwd; [unfold reduce_distance; lia|apply Hu'; exact Hm|apply Hf; exact Hm].
    - apply merge_ranges_sep; [apply Hsrt|].
      rewrite Forall_forall in *. intros m Hm. apply fits_nwd; [unfold reduce_distance; lia|apply Hu'; exact Hm|apply Hf; exact Hm].
  Qed.

  Lemma analyze_bounded :
    0 <= r_changed rep <= zlen good /\
    0 <= r_hd rep <= 8 * zlen good /\
    0 <= r_hdf rep <= r_hd rep.
  Proof.
    destruct (analyze_flat srt Hsrt ranges mp ms good bad parse_ok rep Hu Hmp Hok) as [Hf Hrep].
    pose proof (analyze_ranges_u64 srt Hsrt ranges Hu) as Hu'.
    pose proof analyze_ranges_sep as Hsep.
    set (rs := analyze_ranges srt ranges) in *.
    assert (Hc : r_changed rep = sumZ (map len rs)).
    { rewrite Hrep. cbn [mk_report r_changed]. rewrite map_map. reflexivity. }
    assert (Hh : r_hd rep = sumZ (map (ham_spec mp good bad) rs)).
    { rewrite Hrep. cbn [mk_report r_hd]. rewrite map_map. cbn [mk_entry e_hd].
      f_equal. apply map_ext. intros r. rewrite hamming_plain. unfold pairs_of, ham_spec. rewrite map_map. reflexivity. }
    assert (Hhf : r_hdf rep = sumZ (map (ham_spec_filtered mp good bad) rs)).
    { rewrite Hrep. cbn [mk_report r_hdf]. rewrite map_map. cbn [mk_entry e_hdf].
      f_equal. apply map_ext. intros r. rewrite hamming_filtered. unfold pairs_of, ham_spec_filtered. rewrite map_map. reflexivity. }
    assert (Hlen : forall r, In r rs -> 0 <= len r).
    { intros r Hr. rewrite Forall_forall in Hu'. specialize (Hu' r Hr). ulia. }
    assert (Hsum : 0 <= sumZ (map len rs) <= zlen good).
    { split.
      - etransitivity; [|apply (sumZ_le (fun _ => 0))]; [rewrite sumZ_const; lia|exact Hlen].
      - set (base := match mp with MIdentity => 0 | MPhys => W32 - zlen good end).
        replace (zlen good) with ((base + zlen good) - base) by lia.
        apply sum_len_bound; [exact Hsep| |pose proof (zlen_nonneg good); lia].
        rewrite Forall_forall in *. intros r Hr. specialize (Hf r Hr). specialize (Hu' r Hr).
        destruct Hf as [_ [[Hg1 Hg2] _]]. unfold base. destruct mp; cbn [img_index] in *; ulia. }
    rewrite Hc, Hh, Hhf. split; [exact Hsum|]. split.
    - split.
      + etransitivity; [|apply (sumZ_le (fun _ => 0))]; [rewrite sumZ_const; lia|].
        intros r Hr. apply ham_spec_bound. apply Hlen. exact Hr.
      + etransitivity; [apply (sumZ_le _ (fun r => 8 * len r))|].
        * intros r Hr. apply ham_spec_bound. apply Hlen. exact Hr.
        * rewrite sumZ_scale. lia.
    - split.
      + etransitivity; [|apply (sumZ_le (fun _ => 0))]; [rewrite sumZ_const; lia|].
        intros r _. apply ham_filtered_le.
      + apply sumZ_le. intros r _. apply ham_filtered_le.
  Qed.
End Bounded.

(** * Witnesses *)

(** a run with an ignored pair inside (0xFF in the second image), one that ends
    with ignored pairs at the end of the merged range, physical addressing *)
Definition ex_good : list Z := [1; 2; 3; 4; 5; 6; 7; 8; 9; 10].
Definition ex_bad  : list Z := [1; 9; 255; 9; 5; 6; 9; 255; 255; 10].
Definition ex_base : Z := W32 - 10.
Definition ex_ranges : list range :=
  [mkR (ex_base + 5) 4; mkR (ex_base + 0) 0; mkR (ex_base + 0) 3; mkR (ex_base + 2) 3].

Lemma ex_diff :
  Forall u64r ex_ranges /\ mapper_ok MPhys ex_good ex_bad /\
  sort_and_merge isort ex_ranges = [mkR (ex_base + 0) 9] /\
  diff ex_ranges MPhys ex_good ex_bad [255] = Ok [mkR (ex_base + 1) 3; mkR (ex_base + 6) 3].
Proof.
  split; [repeat constructor; vm_compute; intuition discriminate|].
  split; [right; vm_compute; intuition discriminate|].
  split; vm_compute; reflexivity.
Qed.

Lemma ex_analyze :
  exists rep,
    analyze [mkR (ex_base + 6) 3; mkR (ex_base + 1) 3] MPhys
            [[mkR (ex_base + 0) 2; mkR (ex_base + 4) 2]; [mkR (ex_base + 9) 1]; [mkR (ex_base + 8) 5]]
            ex_good ex_bad true = Ok rep /\
    map e_range (r_entries rep) = [mkR (ex_base + 1) 3; mkR (ex_base + 6) 3] /\
    map e_rel (r_entries rep) = [[(0, [0])]; [(2, [0])]] /\
    r_changed rep = 6 /\ r_first rep = ex_base + 1 /\ r_hd rep = 28 /\ r_hdf rep = 9.
Proof. eexists. vm_compute. repeat split; reflexivity. Qed.

(** a requested range whose Offset+Length overflows uint64 is swallowed by its
    predecessor: address 3 is requested, differs, lies inside the image, and is
    neither in a merged range nor reported *)
Lemma requested_cover_overflow_witness :
  exists ranges good bad out a,
    Forall u64r ranges /\
    diff ranges MIdentity good bad [] = Ok out /\
    (exists r, In r ranges /\ inr a r) /\ 0 <= a < zlen good /\
    diff_nonign [] MIdentity good bad a /\
    ~ (exists m, In m (sort_and_merge isort ranges) /\ inr a m) /\
    ~ (exists r, In r out /\ inr a r).
Proof.
  exists [mkR 0 3; mkR 2 (W64 - 1)], [1; 2; 3; 4], [4; 3; 2; 9], [mkR 0 3], 3.
  split; [repeat constructor; vm_compute; intuition discriminate|].
  split; [vm_compute; reflexivity|].
  split; [exists (mkR 2 (W64 - 1)); split; [right; left; reflexivity|vm_compute; intuition discriminate]|].
  split; [vm_compute; intuition discriminate|].
  split; [split; vm_compute; [reflexivity|discriminate]|].
  split.
  - intros [m [Hm Ha]]. vm_compute in Hm. destruct Hm as [<-|[]]. unfold inr in Ha. cbn in Ha. lia.
  - intros [m [Hm Ha]]. destruct Hm as [<-|[]]. unfold inr in Ha. cbn in Ha. lia.
Qed.

(** above 1000 ranges the entries are coarser than "sorted and merged": 1001
    single bytes at the even addresses become one entry of 2001 bytes *)
Definition many_ranges : list range := map (fun i => mkR (2 * i) 1) (seqZ 0 1001).

Lemma analyze_entries_unbounded_witness :
  exists ranges good bad rep,
    Forall u64r ranges /\
    analyze ranges MIdentity [] good bad true = Ok rep /\
    map e_range (r_entries rep) = [mkR 0 2001] /\
    length (sort_and_merge isort ranges) = 1001%nat /\
    map e_range (r_entries rep) <> sort_and_merge isort ranges.
Proof.
  exists many_ranges, (repeat 1 2002), (repeat 2 2002).
  eexists. split.
  { unfold many_ranges. apply Forall_forall. intros r Hr. apply in_map_iff in Hr.
    destruct Hr as [i [<- Hi]]. apply In_seqZ in Hi. split; cbn [off len]; unfold u64, W64; lia. }
  split; [vm_compute; reflexivity|].
  split; [vm_compute; reflexivity|].
  split; [vm_compute; reflexivity|].
  intros H. apply (f_equal (@length range)) in H. vm_compute in H. discriminate.
Qed.

(** * Corollaries in terms of the requested ranges themselves *)

Lemma diff_requested srt ranges mp good bad ign out :
  sort_contract srt -> Forall u64r ranges -> Forall nw ranges -> mapper_ok mp good bad ->
  diff_with srt ranges mp good bad ign = Ok out ->
  (forall r a, In r out -> inr a r -> exists q, In q ranges /\ inr a q) /\
  (forall q a, In q ranges -> inr a q -> diff_nonign ign mp good bad a -> exists r, In r out /\ inr a r).
Proof.
  intros Hsrt Hu Hn Hmp Hok. split.
  - intros r a Hr Ha.
    destruct (diff_sound srt Hsrt ranges mp good bad ign out Hu Hmp Hok r Hr) as [[m [Hm Hw]] _].
    apply (requested_cover srt ranges Hsrt Hu Hn a). exists m. split; [exact Hm|].
    unfold within, inr in *. lia.
  - intros q a Hq Ha Hd.
    destruct (proj1 (requested_cover srt ranges Hsrt Hu Hn a)) as [m [Hm Hma]]; [exists q; split; assumption|].
    apply (diff_complete srt Hsrt ranges mp good bad ign out Hu Hmp Hok m a Hm Hma Hd).
Qed.
