(** Proofs about Model/EventLog.v (property C12). *)
From CSS Require Import Lib.Base Model.EventLog.

(** * Small facts *)

Lemma zlist_eqb_eq : forall a b, zlist_eqb a b = true <-> a = b.
Proof.
  induction a as [|x a IH]; destruct b as [|y b]; cbn [zlist_eqb]; split; intro E;
    try reflexivity; try discriminate.
  - apply andb_prop in E. destruct E as [E1 E2]. apply Z.eqb_eq in E1. apply IH in E2. congruence.
  - inversion E; subst. rewrite Z.eqb_refl. cbn [andb]. apply IH. reflexivity.
Qed.

Lemma hash_size_ge : forall a size, hash_size a = Some size -> 20 <= size.
Proof.
  intros a size. unfold hash_size.
  repeat match goal with |- context [if ?c then _ else _] => destruct c end;
    intro E; inversion E; lia.
Qed.

Lemma zeros_length : forall n, 0 <= n -> Z.of_nat (length (zeros n)) = n.
Proof. intros n Hn. unfold zeros. rewrite repeat_length. lia. Qed.

Lemma zeros_not_nil : forall n, 0 < n -> zeros n <> [].
Proof.
  intros n Hn E. apply (f_equal (@length Z)) in E. unfold zeros in E.
  rewrite repeat_length in E. cbn [length] in E. lia.
Qed.

Lemma zeros_snoc : forall n, 0 < n -> zeros n = zeros (n - 1) ++ [0].
Proof.
  intros n Hn. unfold zeros.
  replace (Z.to_nat n) with (Z.to_nat (n - 1) + 1)%nat by lia.
  rewrite repeat_app. reflexivity.
Qed.

Lemma zeros_loc_ok : forall size loc, 0 < size -> zeros_loc size loc = Ok (zeros (size - 1) ++ [loc]).
Proof.
  intros size loc Hs. unfold zeros_loc. destruct (size <=? 0) eqn:E; [apply Z.leb_le in E; lia|reflexivity].
Qed.

Lemma ev_digest_bytes_some : forall e d, ev_digest e = Some d -> ev_digest_bytes e = d_bytes d.
Proof. intros e d E. unfold ev_digest_bytes. rewrite E. reflexivity. Qed.

Lemma is_nil_true : forall A (l : list A), is_nil l = true <-> l = [].
Proof. intros A [|x l]; cbn; split; intro; congruence. Qed.

Lemma is_nil_false : forall A (l : list A), is_nil l = false <-> l <> [].
Proof. intros A [|x l]; cbn; split; intro; congruence. Qed.

(** * ParseLocality *)

Lemma split_nul_some : forall d w r, split_nul d = (w, Some r) -> d = w ++ 0 :: r.
Proof.
  induction d as [|x d IH]; intros w r E; cbn [split_nul] in E.
  - discriminate.
  - destruct (x =? 0) eqn:Ex.
    + apply Z.eqb_eq in Ex. inversion E; subst. reflexivity.
    + destruct (split_nul d) as [w' r'] eqn:Es. inversion E; subst.
      cbn [app]. f_equal. apply IH. reflexivity.
Qed.

Lemma split_nul_app : forall w r, ~ In 0 w -> split_nul (w ++ 0 :: r) = (w, Some r).
Proof.
  induction w as [|x w IH]; intros r Hn; cbn [app split_nul].
  - reflexivity.
  - destruct (x =? 0) eqn:Ex.
    + apply Z.eqb_eq in Ex. exfalso. apply Hn. left. auto.
    + rewrite IH; [reflexivity|]. intro Hi. apply Hn. right. exact Hi.
Qed.

(** ParseLocality returns a byte or ErrLocality; it never panics. *)
Lemma parse_locality_total : forall d,
  (exists b, parse_locality d = Ok b) \/ parse_locality d = Err E_LOCALITY.
Proof.
  intro d. unfold parse_locality, splitn2.
  destruct (split_nul d) as [w [r|]]; cbn [nth_error length];
    destruct (zlist_eqb w STARTUP_LOCALITY); try (right; reflexivity).
  change (1 <? Z.of_nat 2) with true. cbn iota.
  destruct r as [|b [|c r]]; cbn [length nth_error].
  - right. reflexivity.
  - left. exists b. reflexivity.
  - destruct (Z.of_nat (S (S (length r))) =? 1) eqn:E; [apply Z.eqb_eq in E; lia|]. right. reflexivity.
Qed.

Lemma parse_locality_startup : forall loc, parse_locality (startup_data loc) = Ok loc.
Proof. intro loc. reflexivity. Qed.

(** ... and it accepts exactly "StartupLocality" NUL <byte>. *)
Lemma parse_locality_exact : forall d b, parse_locality d = Ok b <-> d = startup_data b.
Proof.
  intros d b. split.
  - unfold parse_locality, splitn2.
    destruct (split_nul d) as [w [r|]] eqn:Es; cbn [nth_error length];
      destruct (zlist_eqb w STARTUP_LOCALITY) eqn:Ew; try discriminate.
    change (1 <? Z.of_nat 2) with true. cbn iota.
    destruct r as [|c [|c' r]]; cbn [length nth_error].
    + discriminate.
    + intro E. inversion E; subst. apply split_nul_some in Es. apply zlist_eqb_eq in Ew.
      subst. reflexivity.
    + destruct (Z.of_nat (S (S (length r))) =? 1) eqn:E; [apply Z.eqb_eq in E; lia|]. discriminate.
  - intro; subst. apply parse_locality_startup.
Qed.

Lemma parse_locality_no_panic : forall d, parse_locality d <> Panic /\ parse_locality d <> OutOfFuel.
Proof.
  intro d. destruct (parse_locality_total d) as [[b E]|E]; rewrite E; split; discriminate.
Qed.

(** * FilterEvents *)

Definition has_digest (size : Z) (e : event) : Prop :=
  exists d, ev_digest e = Some d /\ Z.of_nat (length (d_bytes d)) = size.

Lemma filter_events_cases : forall size p a l,
  (exists evs, filter_events size p a l = Ok evs) \/ filter_events size p a l = Err E_DIGLEN.
Proof.
  induction l as [|e l IH]; cbn [filter_events].
  - left. eexists. reflexivity.
  - destruct (negb (ev_pcr e =? p)); [exact IH|].
    destruct (ev_digest e) as [d|]; [|exact IH].
    destruct (negb (d_alg d =? a)); [exact IH|].
    destruct (negb (Z.of_nat (length (d_bytes d)) =? size)); [right; reflexivity|].
    destruct IH as [[evs E]|E]; rewrite E; cbn [bind].
    + left. eexists. reflexivity.
    + right. reflexivity.
Qed.

Lemma filter_events_ok : forall size p a l evs,
  filter_events size p a l = Ok evs ->
  evs = selected l p a /\ Forall (has_digest size) evs.
Proof.
  induction l as [|e l IH]; intros evs E; cbn [filter_events] in E.
  - inversion E. split; [reflexivity|constructor].
  - unfold selected in *. cbn [filter]. unfold sel at 1.
    destruct (ev_pcr e =? p) eqn:Ep; cbn [negb andb] in *; [|apply IH; exact E].
    destruct (ev_digest e) as [d|] eqn:Ed; [|apply IH; exact E].
    destruct (d_alg d =? a) eqn:Ea; cbn [negb] in *; [|apply IH; exact E].
    destruct (Z.of_nat (length (d_bytes d)) =? size) eqn:El; cbn [negb] in *; [|discriminate].
    destruct (filter_events size p a l) as [r| | |] eqn:Er; cbn [bind] in E; try discriminate.
    inversion E; subst. destruct (IH r eq_refl) as [I1 I2]. split.
    + f_equal. exact I1.
    + constructor; [|exact I2]. exists d. split; [exact Ed|]. apply Z.eqb_eq. exact El.
Qed.

Lemma filter_events_accepts : forall size p a l,
  Forall (right_length size) (selected l p a) ->
  filter_events size p a l = Ok (selected l p a).
Proof.
  induction l as [|e l IH]; intro Hf; cbn [filter_events].
  - reflexivity.
  - unfold selected in *. cbn [filter] in *. unfold sel at 1 2 in Hf. unfold sel at 1.
    destruct (ev_pcr e =? p) eqn:Ep; cbn [negb andb] in *; [|apply IH; exact Hf].
    destruct (ev_digest e) as [d|] eqn:Ed; [|apply IH; exact Hf].
    destruct (d_alg d =? a) eqn:Ea; cbn [negb] in *; [|apply IH; exact Hf].
    inversion Hf as [|? ? Hr Hf']; subst.
    unfold right_length, ev_digest_bytes in Hr. rewrite Ed in Hr.
    rewrite Hr, Z.eqb_refl. cbn [negb]. rewrite IH by exact Hf'. reflexivity.
Qed.

Lemma selected_has_some : forall l p a, Forall (fun e => exists d, ev_digest e = Some d) (selected l p a).
Proof.
  intros l p a. unfold selected. apply Forall_forall. intros e Hi. apply filter_In in Hi.
  destruct Hi as [_ Hs]. unfold sel in Hs. destruct (ev_digest e) as [d|]; [eexists; reflexivity|].
  rewrite andb_false_r in Hs. discriminate.
Qed.

(** * Replay *)

Section WithHash.
Variable H : Z -> list Z -> list Z.

(** What is assumed of the hash function: its output has the algorithm's digest size. *)
Definition hash_len_ok : Prop :=
  forall a size m, hash_size a = Some size -> Z.of_nat (length (H a m)) = size.

Lemma H_not_nil : hash_len_ok -> forall a size m, hash_size a = Some size -> H a m <> [].
Proof.
  intros HL a size m Hs E. pose proof (HL a size m Hs) as L. rewrite E in L. cbn in L.
  apply hash_size_ge in Hs. lia.
Qed.

Lemma tcg_fold_cons : forall a d ds s, tcg_fold H a (d :: ds) s = tcg_fold H a ds (H a (s ++ d)).
Proof. reflexivity. Qed.

Lemma tcg_fold_not_nil : hash_len_ok -> forall a size ds s,
  hash_size a = Some size -> s <> [] -> tcg_fold H a ds s <> [].
Proof.
  intros HL a size. induction ds as [|d ds IH]; intros s Hs Hn.
  - exact Hn.
  - rewrite tcg_fold_cons. apply IH; [exact Hs|]. eapply H_not_nil; eauto.
Qed.

(** Once the result is initialised, the loop accepts measurement events only and folds them. *)
Lemma replay_loop_seeded : hash_len_ok -> forall size p a evs res v,
  hash_size a = Some size -> res <> [] ->
  replay_loop H size p a evs res = Ok v ->
  all_meas evs /\ v = tcg_fold H a (map ev_digest_bytes evs) res.
Proof.
  intros HL size p a. induction evs as [|e t IH]; intros res v Hs Hn E; cbn [replay_loop] in E.
  - inversion E. split; [constructor|reflexivity].
  - apply is_nil_false in Hn. rewrite Hn in E. cbn [negb] in E.
    destruct (ev_type e =? EV_NO_ACTION) eqn:Et; [discriminate|].
    cbn [bind] in E. destruct (ev_digest e) as [d|] eqn:Ed; [|discriminate].
    apply IH in E; [|exact Hs|eapply H_not_nil; eauto].
    destruct E as [E1 E2]. split.
    + constructor; [unfold is_meas; rewrite Et; reflexivity|exact E1].
    + cbn [map]. rewrite tcg_fold_cons. rewrite (ev_digest_bytes_some _ _ Ed). exact E2.
Qed.

Lemma all_meas_filter : forall l, all_meas l -> filter is_meas l = l.
Proof.
  induction l as [|e l IH]; intro Hm; cbn [filter]; [reflexivity|].
  inversion Hm; subst. rewrite H2. f_equal. apply IH. assumption.
Qed.

Theorem replay_is_fold : hash_len_ok -> forall log p a v,
  replay H log p a = Ok v ->
  v = tcg_fold H a (meas_digests log p a) (seed log p a).
Proof.
  intros HL log p a v E. unfold replay in E. unfold meas_digests, seed.
  destruct (hash_size a) as [size|] eqn:Hs; [|discriminate].
  pose proof (hash_size_ge _ _ Hs) as Hge.
  destruct (filter_events size p a log) as [evs| | |] eqn:Ef; cbn [bind] in E; try discriminate.
  apply filter_events_ok in Ef. destruct Ef as [Esel Hdig]. rewrite <- Esel. clear Esel.
  destruct (p =? 0) eqn:Ep0.
  - (* PCR0 *)
    cbn [bind] in E. cbn [andb].
    destruct evs as [|e t].
    + cbn [replay_loop bind is_nil andb] in E. inversion E. reflexivity.
    + cbn [replay_loop is_nil negb] in E. rewrite Ep0 in E.
      destruct (ev_type e =? EV_NO_ACTION) eqn:Et.
      * destruct (parse_locality (ev_data e)) as [loc| | |] eqn:El; cbn [bind] in E; try discriminate.
        rewrite zeros_loc_ok in E by lia. cbn [bind] in E.
        destruct (replay_loop H size p a t (zeros (size - 1) ++ [loc])) as [r| | |] eqn:Er;
          cbn [bind] in E; try discriminate.
        apply replay_loop_seeded in Er; [|exact HL|exact Hs|intro C; apply app_eq_nil in C; destruct C; discriminate].
        destruct Er as [Hm Hv].
        assert (Hr : r <> []).
        { rewrite Hv. eapply tcg_fold_not_nil; eauto. intro C. apply app_eq_nil in C. destruct C; discriminate. }
        apply is_nil_false in Hr. rewrite Hr in E. cbn [andb] in E. inversion E; subst v.
        cbn [filter]. unfold is_meas at 1. rewrite Et. cbn [negb].
        rewrite all_meas_filter by exact Hm. exact Hv.
      * cbn [bind] in E. inversion Hdig as [|? ? [d [Ed _]] _]; subst. rewrite Ed in E.
        destruct (replay_loop H size p a t (H a (zeros size ++ d_bytes d))) as [r| | |] eqn:Er;
          cbn [bind] in E; try discriminate.
        apply replay_loop_seeded in Er; [|exact HL|exact Hs|eapply H_not_nil; eauto].
        destruct Er as [Hm Hv].
        assert (Hr : r <> []).
        { rewrite Hv. eapply tcg_fold_not_nil; eauto. eapply H_not_nil; eauto. }
        apply is_nil_false in Hr. rewrite Hr in E. cbn [andb] in E. inversion E; subst v.
        cbn [filter]. unfold is_meas at 1. rewrite Et. cbn [negb map].
        rewrite all_meas_filter by exact Hm. rewrite tcg_fold_cons.
        rewrite (ev_digest_bytes_some _ _ Ed). exact Hv.
  - destruct (p =? 1) eqn:Ep1; cbn [bind] in E; [|discriminate].
    destruct (replay_loop H size p a evs (zeros size)) as [r| | |] eqn:Er; cbn [bind] in E; try discriminate.
    rewrite andb_false_r in E. inversion E; subst v.
    apply replay_loop_seeded in Er; [|exact HL|exact Hs|apply zeros_not_nil; lia].
    destruct Er as [Hm Hv]. rewrite all_meas_filter by exact Hm.
    cbn [andb]. destruct evs; exact Hv.
Qed.

(** The value has the digest size of the algorithm. *)
Lemma tcg_fold_length : hash_len_ok -> forall a size ds s,
  hash_size a = Some size -> Z.of_nat (length s) = size ->
  Z.of_nat (length (tcg_fold H a ds s)) = size.
Proof.
  intros HL a size. induction ds as [|d ds IH]; intros s Hs Hl.
  - exact Hl.
  - rewrite tcg_fold_cons. apply IH; [exact Hs|]. apply HL. exact Hs.
Qed.

Lemma seed_length : forall log p a size, hash_size a = Some size ->
  Z.of_nat (length (seed log p a)) = size.
Proof.
  intros log p a size Hs. pose proof (hash_size_ge _ _ Hs). unfold seed. rewrite Hs.
  assert (Z1 : Z.of_nat (length (zeros size)) = size) by (apply zeros_length; lia).
  assert (Z2 : forall loc, Z.of_nat (length (zeros (size - 1) ++ [loc])) = size).
  { intro loc. rewrite app_length, Nat2Z.inj_add, zeros_length by lia. cbn. lia. }
  destruct (selected log p a) as [|e t]; [exact Z1|].
  destruct ((p =? 0) && (ev_type e =? EV_NO_ACTION)); [|exact Z1].
  destruct (parse_locality (ev_data e)); auto.
Qed.

Theorem replay_length : hash_len_ok -> forall log p a v,
  replay H log p a = Ok v -> exists size, hash_size a = Some size /\ Z.of_nat (length v) = size.
Proof.
  intros HL log p a v E. pose proof (replay_is_fold HL _ _ _ _ E) as Hv.
  unfold replay in E. destruct (hash_size a) as [size|] eqn:Hs; [|discriminate].
  exists size. split; [reflexivity|]. rewrite Hv.
  apply tcg_fold_length; [exact HL|exact Hs|apply seed_length; exact Hs].
Qed.

(** ** Totality: for every log, every [H] *)

Lemma replay_loop_no_panic : forall size p a evs res,
  0 < size -> Forall (has_digest size) evs ->
  replay_loop H size p a evs res <> Panic /\ replay_loop H size p a evs res <> OutOfFuel.
Proof.
  intros size p a. induction evs as [|e t IH]; intros res Hsz Hd; cbn [replay_loop].
  - split; discriminate.
  - inversion Hd as [|? ? [d [Ed _]] Hd']; subst.
    destruct (ev_type e =? EV_NO_ACTION).
    + destruct (negb (is_nil res)); [split; discriminate|].
      destruct (p =? 0); [|split; discriminate].
      destruct (parse_locality_total (ev_data e)) as [[b El]|El]; rewrite El; cbn [bind];
        [|split; discriminate].
      rewrite zeros_loc_ok by exact Hsz. cbn [bind]. apply IH; assumption.
    + destruct (is_nil res); [destruct (p =? 0)|]; cbn [bind]; try (split; discriminate);
        rewrite Ed; apply IH; assumption.
Qed.

Theorem replay_total : forall log p a,
  replay H log p a <> Panic /\ replay H log p a <> OutOfFuel.
Proof.
  intros log p a. unfold replay. destruct (hash_size a) as [size|] eqn:Hs; [|split; discriminate].
  pose proof (hash_size_ge _ _ Hs).
  destruct (filter_events_cases size p a log) as [[evs Ef]|Ef]; rewrite Ef; cbn [bind];
    [|split; discriminate].
  apply filter_events_ok in Ef. destruct Ef as [_ Hd].
  assert (forall res0, (bind (replay_loop H size p a evs res0)
            (fun res => if is_nil res && (p =? 0) then Ok (zeros size) else Ok res)) <> Panic /\
          (bind (replay_loop H size p a evs res0)
            (fun res => if is_nil res && (p =? 0) then Ok (zeros size) else Ok res)) <> OutOfFuel) as K.
  { intro res0. destruct (replay_loop_no_panic size p a evs res0 ltac:(lia) Hd) as [N1 N2].
    destruct (replay_loop H size p a evs res0); cbn [bind]; try congruence;
      try (split; discriminate).
    destruct (is_nil a0 && (p =? 0)); split; discriminate. }
  destruct (p =? 0); cbn [bind]; [apply K|].
  destruct (p =? 1); cbn [bind]; [apply K|split; discriminate].
Qed.

(** ** Acceptance *)

Lemma replay_loop_meas_ok : hash_len_ok -> forall size p a evs res,
  hash_size a = Some size -> all_meas evs -> Forall (has_digest size) evs ->
  (res <> [] \/ p = 0) ->
  exists v, replay_loop H size p a evs res = Ok v.
Proof.
  intros HL size p a. induction evs as [|e t IH]; intros res Hs Hm Hd Hr; cbn [replay_loop].
  - eexists. reflexivity.
  - inversion Hm as [|? ? Me Hm']; subst. inversion Hd as [|? ? [d [Ed _]] Hd']; subst.
    unfold is_meas in Me. apply negb_true_iff in Me. rewrite Me.
    assert (exists r, (if is_nil res then if p =? 0 then Ok (zeros size) else Err E_INDEX else Ok res) = Ok r) as [r Er].
    { destruct res as [|x res]; cbn [is_nil].
      - destruct Hr as [C|C]; [congruence|]. subst p. cbn. eexists. reflexivity.
      - eexists. reflexivity. }
    rewrite Er. cbn [bind]. rewrite Ed. apply IH; try assumption.
    left. eapply H_not_nil; eauto.
Qed.

Lemma selected_has_digest : forall l p a size,
  Forall (right_length size) (selected l p a) -> Forall (has_digest size) (selected l p a).
Proof.
  intros l p a size Hr. pose proof (selected_has_some l p a) as Hs.
  rewrite Forall_forall in *. intros e Hi. destruct (Hs e Hi) as [d Ed].
  exists d. split; [exact Ed|]. specialize (Hr e Hi). unfold right_length, ev_digest_bytes in Hr.
  rewrite Ed in Hr. exact Hr.
Qed.

Theorem wellformed_accepted : hash_len_ok -> forall log p a,
  wellformed log p a -> exists v, replay H log p a = Ok v.
Proof.
  intros HL log p a [size [Hs [Hp [Hlen Hshape]]]].
  pose proof (hash_size_ge _ _ Hs) as Hge.
  unfold replay. rewrite Hs. rewrite filter_events_accepts by exact Hlen. cbn [bind].
  pose proof (selected_has_digest _ _ _ _ Hlen) as Hd.
  assert (K : forall res0, (exists r, replay_loop H size p a (selected log p a) res0 = Ok r) ->
     exists v, bind (replay_loop H size p a (selected log p a) res0)
       (fun res => if is_nil res && (p =? 0) then Ok (zeros size) else Ok res) = Ok v).
  { intros res0 [r Er]. rewrite Er. cbn [bind]. destruct (is_nil r && (p =? 0)); eexists; reflexivity. }
  destruct Hshape as [Hm|[Hp0 [s [t [loc [Esel [Ety [Edata Hm]]]]]]]].
  - destruct Hp as [Hp|Hp]; subst p; cbn [Z.eqb bind]; apply K.
    + apply replay_loop_meas_ok; auto.
    + change (1 =? 0) with false. cbn iota. change (1 =? 1) with true. cbn iota. cbn [bind].
      apply replay_loop_meas_ok; auto. left. apply zeros_not_nil. lia.
  - subst p. cbn [Z.eqb bind]. apply K. rewrite Esel in *. cbn [replay_loop is_nil negb].
    apply Z.eqb_eq in Ety. rewrite Ety. change (0 =? 0) with true. cbn iota.
    rewrite Edata, parse_locality_startup. cbn [bind]. rewrite zeros_loc_ok by lia. cbn [bind].
    inversion Hd; subst. apply replay_loop_meas_ok; auto.
Qed.

Theorem unsupported_rejected : forall log p a,
  hash_size a = None \/ (p <> 0 /\ p <> 1) -> exists c, replay H log p a = Err c.
Proof.
  intros log p a [Hn|[H0 H1]]; unfold replay.
  - rewrite Hn. eexists. reflexivity.
  - destruct (hash_size a) as [size|]; [|eexists; reflexivity].
    destruct (filter_events_cases size p a log) as [[evs Ef]|Ef]; rewrite Ef; cbn [bind];
      [|eexists; reflexivity].
    apply Z.eqb_neq in H0. apply Z.eqb_neq in H1. rewrite H0, H1. cbn [bind]. eexists. reflexivity.
Qed.

(** ** EV_NO_ACTION digests never matter *)

Lemma same_shape_filter : forall size p a l l',
  Forall2 differ_in_noaction_digest l l' ->
  match filter_events size p a l, filter_events size p a l' with
  | Ok r, Ok r' => Forall2 differ_in_noaction_digest r r'
  | Err c, Err c' => c = c'
  | _, _ => False
  end.
Proof.
  intros size p a l l' HF. induction HF as [|e e' l l' [Ep [Et [Eda Edg]]] HF IH]; cbn [filter_events].
  - constructor.
  - rewrite <- Ep. destruct (negb (ev_pcr e =? p)); [exact IH|].
    assert (Sh : same_shape (ev_digest e) (ev_digest e')).
    { destruct (is_meas e); [|exact Edg]. rewrite <- Edg. destruct (ev_digest e); cbn; auto. }
    destruct (ev_digest e) as [d|] eqn:Ed, (ev_digest e') as [d'|] eqn:Ed'; cbn in Sh; try contradiction;
      [|exact IH].
    destruct Sh as [Sa Sl]. rewrite <- Sa, <- Sl.
    destruct (negb (d_alg d =? a)); [exact IH|].
    destruct (negb (Z.of_nat (length (d_bytes d)) =? size)); [reflexivity|].
    destruct (filter_events size p a l) as [r|c| |], (filter_events size p a l') as [r'|c'| |];
      cbn [bind]; try contradiction; try exact IH.
    constructor; [|exact IH]. repeat split; try assumption. rewrite Ed, Ed'.
    destruct (is_meas e); [exact Edg|]. cbn. auto.
Qed.

Lemma same_shape_loop : forall size p a evs evs' res,
  Forall2 differ_in_noaction_digest evs evs' ->
  replay_loop H size p a evs res = replay_loop H size p a evs' res.
Proof.
  intros size p a evs evs' res HF. revert res.
  induction HF as [|e e' l l' [Ep [Et [Eda Edg]]] HF IH]; intro res; cbn [replay_loop].
  - reflexivity.
  - rewrite <- Et, <- Eda. unfold is_meas in Edg.
    destruct (ev_type e =? EV_NO_ACTION); cbn [negb] in Edg.
    + destruct (negb (is_nil res)); [reflexivity|]. destruct (p =? 0); [|reflexivity].
      destruct (parse_locality (ev_data e)); cbn [bind]; try reflexivity.
      destruct (zeros_loc size a0); cbn [bind]; try reflexivity. apply IH.
    + rewrite <- Edg.
      destruct (if is_nil res then if p =? 0 then Ok (zeros size) else Err E_INDEX else Ok res);
        cbn [bind]; try reflexivity.
      destruct (ev_digest e); [apply IH|reflexivity].
Qed.

Theorem noaction_never_contributes : forall log log' p a,
  Forall2 differ_in_noaction_digest log log' ->
  replay H log p a = replay H log' p a.
Proof.
  intros log log' p a HF. unfold replay. destruct (hash_size a) as [size|]; [|reflexivity].
  pose proof (same_shape_filter size p a _ _ HF) as K.
  destruct (filter_events size p a log) as [r|c| |], (filter_events size p a log') as [r'|c'| |];
    try contradiction; cbn [bind]; [|congruence].
  destruct (if p =? 0 then Ok [] else if p =? 1 then Ok (zeros size) else Err E_INDEX);
    cbn [bind]; try reflexivity.
  rewrite (same_shape_loop size p a r r' a0 K). reflexivity.
Qed.

(** * tpm.EventLog.Replay *)

Lemma tpm_replay_loop_fold : forall p a l res,
  tpm_replay_loop H p a l res = tcg_fold H a (tpm_meas_digests l p a) res.
Proof.
  intros p a. induction l as [|e l IH]; intro res; cbn [tpm_replay_loop].
  - reflexivity.
  - unfold tpm_meas_digests. cbn [filter]. unfold en_sel at 1.
    destruct (en_pcr e =? p); cbn [negb orb andb]; [|apply IH].
    destruct (en_alg e =? a); cbn [negb]; [|apply IH].
    cbn [filter]. unfold en_is_meas at 1.
    destruct (en_type e =? EV_NO_ACTION); cbn [negb]; [apply IH|].
    cbn [map]. rewrite tcg_fold_cons. apply IH.
Qed.

Theorem tpm_replay_is_fold : forall l p a loc v,
  tpm_replay H l p a loc = Ok v ->
  p = 0 /\ exists size, hash_size a = Some size /\
  v = tcg_fold H a (tpm_meas_digests l 0 a) (zeros (size - 1) ++ [loc]).
Proof.
  intros l p a loc v E. unfold tpm_replay in E.
  destruct (hash_size a) as [size|] eqn:Hs; [|discriminate].
  destruct (p =? 0) eqn:Ep; cbn [negb] in E; [|discriminate].
  apply Z.eqb_eq in Ep. subst p. split; [reflexivity|]. exists size. split; [reflexivity|].
  pose proof (hash_size_ge _ _ Hs). rewrite zeros_loc_ok in E by lia. cbn [bind] in E.
  inversion E. apply tpm_replay_loop_fold.
Qed.

(** It returns for PCR0 and a supported algorithm, and panics (documented) exactly otherwise. *)
Theorem tpm_replay_panics_iff : forall l p a loc,
  (tpm_replay H l p a loc = Panic <-> (p <> 0 \/ hash_size a = None)) /\
  ((p = 0 /\ hash_size a <> None) -> exists v, tpm_replay H l p a loc = Ok v).
Proof.
  intros l p a loc. unfold tpm_replay. destruct (hash_size a) as [size|] eqn:Hs.
  - pose proof (hash_size_ge _ _ Hs). destruct (p =? 0) eqn:Ep; cbn [negb].
    + apply Z.eqb_eq in Ep. rewrite zeros_loc_ok by lia. cbn [bind]. split.
      * split; [discriminate|]. intros [C|C]; congruence.
      * intros _. eexists. reflexivity.
    + apply Z.eqb_neq in Ep. split.
      * split; auto.
      * intros [C _]. contradiction.
  - split.
    + split; auto.
    + intros [_ C]. congruence.
Qed.

(** ** The two replays agree *)

Lemma from_parsed_meas : forall l es p a,
  from_parsed l = Ok es -> tpm_meas_digests es p a = meas_digests l p a.
Proof.
  induction l as [|e l IH]; intros es p a E; cbn [from_parsed] in E.
  - inversion E. reflexivity.
  - destruct (ev_digest e) as [d|] eqn:Ed; [|discriminate].
    destruct (from_parsed l) as [r| | |] eqn:Er; cbn [bind] in E; try discriminate.
    inversion E; subst es. specialize (IH r p a eq_refl).
    unfold tpm_meas_digests, meas_digests, selected in *. cbn [filter].
    unfold en_sel at 1, sel at 1. cbn [en_pcr en_alg]. rewrite Ed.
    destruct ((ev_pcr e =? p) && (d_alg d =? a)); [|exact IH].
    cbn [filter]. unfold en_is_meas at 1, is_meas at 1. cbn [en_type].
    destruct (negb (ev_type e =? EV_NO_ACTION)); [|exact IH].
    cbn [map en_digest]. rewrite (ev_digest_bytes_some _ _ Ed). f_equal. exact IH.
Qed.

Theorem replays_agree : hash_len_ok -> forall log es a size loc v,
  replay H log 0 a = Ok v -> from_parsed log = Ok es ->
  hash_size a = Some size -> seed log 0 a = zeros (size - 1) ++ [loc] ->
  tpm_replay H es 0 a loc = Ok v.
Proof.
  intros HL log es a size loc v E Ef Hs Hseed.
  pose proof (replay_is_fold HL _ _ _ _ E) as Hv.
  pose proof (hash_size_ge _ _ Hs).
  unfold tpm_replay. rewrite Hs. cbn [Z.eqb negb]. rewrite zeros_loc_ok by lia. cbn [bind].
  rewrite tpm_replay_loop_fold, (from_parsed_meas _ _ _ _ Ef), <- Hseed, <- Hv. reflexivity.
Qed.

Lemma seed_startup : forall log a size s t loc,
  hash_size a = Some size -> selected log 0 a = s :: t ->
  ev_type s = EV_NO_ACTION -> ev_data s = startup_data loc ->
  seed log 0 a = zeros (size - 1) ++ [loc].
Proof.
  intros log a size s t loc Hs Esel Ety Eda. unfold seed. rewrite Hs, Esel.
  apply Z.eqb_eq in Ety. rewrite Ety. cbn [Z.eqb andb]. rewrite Eda, parse_locality_startup. reflexivity.
Qed.

Lemma seed_no_startup : forall log a size,
  hash_size a = Some size ->
  (forall s t, selected log 0 a = s :: t -> ev_type s <> EV_NO_ACTION) ->
  seed log 0 a = zeros (size - 1) ++ [0].
Proof.
  intros log a size Hs Hn. pose proof (hash_size_ge _ _ Hs). unfold seed. rewrite Hs.
  destruct (selected log 0 a) as [|s t] eqn:Esel; [apply zeros_snoc; lia|].
  specialize (Hn s t eq_refl). apply Z.eqb_neq in Hn. rewrite Hn. cbn [Z.eqb andb]. apply zeros_snoc; lia.
Qed.

Theorem replays_agree_startup : hash_len_ok -> forall log es a s t loc v,
  replay H log 0 a = Ok v -> from_parsed log = Ok es ->
  selected log 0 a = s :: t -> ev_type s = EV_NO_ACTION -> ev_data s = startup_data loc ->
  tpm_replay H es 0 a loc = Ok v.
Proof.
  intros HL log es a s t loc v E Ef Esel Ety Eda.
  assert (exists size, hash_size a = Some size) as [size Hs].
  { unfold replay in E. destruct (hash_size a); [eexists; reflexivity|discriminate]. }
  eapply replays_agree; eauto. eapply seed_startup; eauto.
Qed.

End WithHash.

(** * RestoreCommands *)

Theorem restore_extends : forall l,
  cmd_extends (restore_commands l) =
  map (fun e => (en_pcr e, en_alg e, en_digest e)) (filter en_is_meas l).
Proof.
  induction l as [|e l IH]; cbn [restore_commands filter].
  - reflexivity.
  - unfold en_is_meas at 1. destruct (en_type e =? EV_NO_ACTION); cbn [negb].
    + destruct (en_pcr e =? 0); [|exact IH].
      destruct (parse_locality (en_data e)); cbn [cmd_extends]; exact IH.
    + cbn [cmd_extends map]. f_equal. exact IH.
Qed.

(** * FilterEvents, ParseEventData: totality and range validity *)

Theorem filterEvents_total : forall l p a,
  filterEvents l p a <> Panic /\ filterEvents l p a <> OutOfFuel.
Proof.
  intros l p a. unfold filterEvents. destruct (hash_size a) as [size|]; [|split; discriminate].
  destruct (filter_events_cases size p a l) as [[evs E]|E]; rewrite E; split; discriminate.
Qed.

Theorem filterEvents_spec : forall l p a evs,
  filterEvents l p a = Ok evs ->
  evs = selected l p a /\
  exists size, hash_size a = Some size /\ Forall (right_length size) evs.
Proof.
  intros l p a evs E. unfold filterEvents in E. destruct (hash_size a) as [size|] eqn:Hs; [|discriminate].
  apply filter_events_ok in E. destruct E as [E1 E2]. split; [exact E1|].
  exists size. split; [reflexivity|]. eapply Forall_impl; [|exact E2].
  intros e [d [Ed El]]. unfold right_length, ev_digest_bytes. rewrite Ed. exact El.
Qed.

Lemma pairs_loop_ok : forall fuel isz data acc,
  (length data < fuel)%nat ->
  Forall (fun '(off, len) => valid_pair isz len off = true) acc ->
  exists rest ranges, pairs_loop fuel isz data acc = Ok (rest, ranges) /\
    Forall (fun '(off, len) => valid_pair isz len off = true) ranges.
Proof.
  induction fuel as [|f IH]; intros isz data acc Hl Hacc; [lia|].
  cbn [pairs_loop]. destruct (length data <? 16)%nat eqn:E16.
  - eexists. eexists. split; [reflexivity|exact Hacc].
  - apply Nat.ltb_ge in E16.
    set (off := le64 (skipn (length data - 8) data)).
    set (len := le64 (firstn 8 (skipn (length data - 16) data))).
    destruct (valid_pair isz len off) eqn:V1.
    + rewrite V1. cbn [negb]. apply IH.
      * rewrite firstn_length. lia.
      * apply Forall_app. split; [exact Hacc|]. constructor; [exact V1|constructor].
    + destruct (valid_pair isz off len) eqn:V2; cbn [negb].
      * apply IH.
        -- rewrite firstn_length. lia.
        -- apply Forall_app. split; [exact Hacc|]. constructor; [exact V2|constructor].
      * eexists. eexists. split; [reflexivity|exact Hacc].
Qed.

Theorem parse_event_data_total : forall e isz,
  parse_event_data e isz <> Panic /\ parse_event_data e isz <> OutOfFuel.
Proof.
  intros e isz. unfold parse_event_data.
  destruct (negb (ev_pcr e =? 0)); [split; discriminate|].
  destruct (ev_type e =? EV_NO_ACTION).
  - destruct (parse_locality_total (ev_data e)) as [[b E]|E]; rewrite E; cbn [bind]; split; discriminate.
  - destruct ((ev_type e =? EV_POST_CODE) || (ev_type e =? EV_EFI_PLATFORM_FIRMWARE_BLOB2));
      [|split; discriminate].
    unfold parse_blob2.
    destruct (pairs_loop_ok (S (length (ev_data e))) isz (ev_data e) [] ltac:(lia) ltac:(constructor))
      as [rest [ranges [E _]]].
    rewrite E. cbn [bind]. destruct rest as [|b0 tl]; [split; discriminate|].
    destruct (b0 =? Z.of_nat (length tl)); split; discriminate.
Qed.

Theorem parse_event_data_ranges_valid : forall e isz r,
  parse_event_data e isz = Ok r ->
  Forall (fun '(off, len) => valid_pair isz len off = true) (pr_ranges r).
Proof.
  intros e isz r. unfold parse_event_data.
  destruct (negb (ev_pcr e =? 0)); [discriminate|].
  destruct (ev_type e =? EV_NO_ACTION).
  - destruct (parse_locality (ev_data e)); cbn [bind]; try discriminate.
    intro E. inversion E. constructor.
  - destruct ((ev_type e =? EV_POST_CODE) || (ev_type e =? EV_EFI_PLATFORM_FIRMWARE_BLOB2));
      [|discriminate].
    unfold parse_blob2.
    destruct (pairs_loop_ok (S (length (ev_data e))) isz (ev_data e) [] ltac:(lia) ltac:(constructor))
      as [rest [ranges [E Hv]]].
    rewrite E. cbn [bind]. destruct rest as [|b0 tl].
    + intro K. inversion K. exact Hv.
    + destruct (b0 =? Z.of_nat (length tl)); intro K; inversion K; exact Hv.
Qed.
