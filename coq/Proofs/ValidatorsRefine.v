(** The slice-level model of the validators (Model/ValidatorsHeap.v, the one the
    correspondence check compares with the code INCLUDING the memory behind the
    log) refines the value-level model (Model/Validators.v, the one the verdict
    theorems are about) -- on every pass over one log.

    Part I (values): the value-level validators do not look at the order in which
    the ranges of a reference of the log lie in memory: two logs whose references
    differ by sorting range lists ([sreq]) get the same verdict, literally
    ([vap_req], [vfc_req]).  For offsets this is because every range list goes
    through Ranges.SortAndMerge before it is used; for physical addresses because
    PhysMemMapper is monotone on the addresses of the image's window, so
    resolving commutes with sorting.

    Part II (memory): under [WFheap] every run of References.SortAndMerge /
    Resolve / Exclude of the slice-level model returns what the value-level
    function returns on what its arguments read as when the call starts, and
    changes the memory behind the log only by sorting windows in place
    ([hsm_sim], [hresolve_sim], ...).  Induction over the log gives
    [hvap_refines], [hvfc_refines]: the issues of the slice-level validators are
    those of the value-level validators on the log as it reads when the pass starts.

    Part III (histories): any sequence of validator runs over ONE log in ONE
    memory ([run_passes]): every run returns what the value-level validator says
    about the log as it read BEFORE THE FIRST run ([passes_first]). *)
From Coq Require Import Permutation.
From CSS Require Import Lib.Base Model.Ranges Model.Refs Model.Validators Model.ValidatorsHeap
  Proofs.Ranges Proofs.Refs Proofs.Validators Proofs.ValidatorsHeap.

(** * Part I: the value-level validators are blind to the order of ranges in memory *)

(** two range lists that in-place sorting cannot tell apart *)
Definition eqs (x y : list range) : Prop := sort_off x = sort_off y.
Definition req (r r' : ref) : Prop :=
  rart r = rart r' /\ rmap r = rmap r' /\ eqs (rranges r) (rranges r').

Lemma eqs_refl x : eqs x x. Proof. reflexivity. Qed.
Lemma eqs_sym x y : eqs x y -> eqs y x. Proof. unfold eqs. congruence. Qed.
Lemma eqs_trans x y z : eqs x y -> eqs y z -> eqs x z. Proof. unfold eqs. congruence. Qed.
Lemma req_refl r : req r r. Proof. repeat split. Qed.
Lemma req_sym r r' : req r r' -> req r' r.
Proof. intros (A & M & E). repeat split; [congruence | congruence | apply eqs_sym; exact E]. Qed.
Lemma req_trans r1 r2 r3 : req r1 r2 -> req r2 r3 -> req r1 r3.
Proof. intros (A & M & E) (A' & M' & E'). repeat split; [congruence | congruence | eapply eqs_trans; eassumption]. Qed.

Lemma Forall2_refl {T} (R : T -> T -> Prop) : (forall x, R x x) -> forall l, Forall2 R l l.
Proof. intros H. induction l; constructor; auto. Qed.
Lemma Forall2_sym {T} (R : T -> T -> Prop) : (forall x y, R x y -> R y x) -> forall l l', Forall2 R l l' -> Forall2 R l' l.
Proof. intros H l l' F. induction F; constructor; auto. Qed.
Lemma Forall2_trans {T} (R : T -> T -> Prop) : (forall x y z, R x y -> R y z -> R x z) ->
  forall l1 l2, Forall2 R l1 l2 -> forall l3, Forall2 R l2 l3 -> Forall2 R l1 l3.
Proof.
  intros H l1 l2 F. induction F; intros l3 G; inversion G; subst; constructor; eauto.
Qed.
Lemma Forall2_len {T} (R : T -> T -> Prop) l l' : Forall2 R l l' -> length l = length l'.
Proof. induction 1; cbn [length]; congruence. Qed.
Lemma Forall2_map {T U} (R : U -> U -> Prop) (f g : T -> U) l : (forall x, In x l -> R (f x) (g x)) -> Forall2 R (map f l) (map g l).
Proof. induction l; cbn [map]; intros H; constructor; [apply H; left; reflexivity | apply IHl; intros; apply H; right; assumption]. Qed.

Lemma sorted_fix : forall l, sorted_off l -> sort_off l = l.
Proof.
  induction l as [|x t IH]; [reflexivity|]. intros So. cbn [sort_off fold_right].
  change (fold_right ins_off [] t) with (sort_off t).
  destruct t as [|y u]; [reflexivity|]. cbn [sorted_off sorted_lb] in So. destruct So as (Le & So).
  rewrite IH by exact So. cbn [ins_off]. destruct (roff x <=? roff y) eqn:C; [reflexivity|].
  apply Z.leb_gt in C. lia.
Qed.
Lemma sort_off_idem l : sort_off (sort_off l) = sort_off l.
Proof. apply sorted_fix, sort_off_sorted. Qed.
Lemma eqs_sort l : eqs l (sort_off l).
Proof. unfold eqs. symmetry. apply sort_off_idem. Qed.
Lemma sort_off_short l : (length l < 2)%nat -> sort_off l = l.
Proof. destruct l as [|x [|y t]]; cbn [length]; intros H; try reflexivity. lia. Qed.
Lemma ranges_sm_short l : (length l < 2)%nat -> ranges_sm l = l.
Proof. destruct l as [|x [|y t]]; cbn [length]; intros H; try reflexivity. lia. Qed.
Lemma ranges_sm_eqs x y : eqs x y -> ranges_sm x = ranges_sm y.
Proof. unfold eqs, ranges_sm. intros ->. reflexivity. Qed.
Lemma eqs_perm x y : eqs x y -> Permutation x y.
Proof.
  intros E. eapply perm_trans; [apply Permutation_sym, sort_off_perm|]. rewrite E. apply sort_off_perm.
Qed.
Lemma eqs_nil x y : eqs x y -> (x = [] <-> y = []).
Proof.
  intros E. apply eqs_perm in E. split; intros ->.
  - apply Permutation_nil. exact E.
  - apply Permutation_nil. apply Permutation_sym. exact E.
Qed.

(** the comparator looks at the artifacts only *)
Lemma cmp_ref_arts a a' b b' : rart a = rart a' -> rart b = rart b' -> cmp_ref a b = cmp_ref a' b'.
Proof. intros E1 E2. unfold cmp_ref. rewrite E1, E2. reflexivity. Qed.

Lemma existsb_req (f g : ref -> bool) : forall l l', Forall2 req l l' ->
  (forall x y, req x y -> f x = g y) -> existsb f l = existsb g l'.
Proof. intros l l' F H. induction F; cbn [existsb]; [reflexivity|]. rewrite IHF, (H _ _ H0). reflexivity. Qed.

Lemma has_conflict_req : forall s s', Forall2 req s s' -> has_conflict s = has_conflict s'.
Proof.
  intros s s' F. induction F as [|a a' t t' Ra Ft IH]; [reflexivity|]. cbn [has_conflict].
  rewrite IH. f_equal. apply existsb_req; [exact Ft|]. intros x y Rxy.
  rewrite (cmp_ref_arts a a' x y); [reflexivity | apply Ra | apply Rxy].
Qed.

Lemma ins_ref_req x x' : req x x' -> forall l l', Forall2 req l l' -> Forall2 req (ins_ref x l) (ins_ref x' l').
Proof.
  intros Rx l l' F. induction F as [|y y' t t' Ry Ft IH]; cbn [ins_ref]; [constructor; [exact Rx | constructor]|].
  rewrite (cmp_ref_arts y y' x x'); [|apply Ry | apply Rx].
  destruct (is_lt (cmp_ref y' x')).
  - constructor; [exact Ry | exact IH].
  - constructor; [exact Rx|]. constructor; [exact Ry | exact Ft].
Qed.
Lemma sort_refs_req : forall s s', Forall2 req s s' -> Forall2 req (sort_refs s) (sort_refs s').
Proof.
  intros s s' F. induction F; cbn [sort_refs fold_right]; [constructor|]. apply ins_ref_req; assumption.
Qed.
Lemma sorted_cmp_req : forall s s', Forall2 req s s' -> sorted_cmp s = sorted_cmp s'.
Proof.
  intros s s' F. induction F as [|a a' t t' Ra Ft IH]; [reflexivity|].
  destruct Ft as [|b b' u u' Rb Fu]; [reflexivity|].
  cbn [sorted_cmp] in *. rewrite IH. rewrite (cmp_ref_arts b b' a a'); [reflexivity | apply Rb | apply Ra].
Qed.
Lemma norm_req : forall s s', Forall2 req s s' ->
  map (fun r => set_ranges r (ranges_sm (rranges r))) s = map (fun r => set_ranges r (ranges_sm (rranges r))) s'.
Proof.
  intros s s' F. induction F as [|a a' t t' (A & M & E) Ft IH]; [reflexivity|]. cbn [map]. rewrite IH. f_equal.
  unfold set_ranges. rewrite A, M, (ranges_sm_eqs _ _ E). reflexivity.
Qed.

(** References.SortAndMerge *)
Lemma sm_req s s' : Forall2 req s s' -> sm s = sm s'.
Proof.
  intros F. unfold sm. destruct F as [|a a' t t' Ra Ft]; [reflexivity|].
  assert (F : Forall2 req (a :: t) (a' :: t')) by (constructor; assumption).
  rewrite (has_conflict_req _ _ F). destruct (has_conflict (a' :: t')); [reflexivity|].
  pose proof (sort_refs_req _ _ F) as Fs. rewrite (sorted_cmp_req _ _ Fs).
  destruct (sorted_cmp (sort_refs (a' :: t'))); [|reflexivity].
  unfold refs_sm_sorted. rewrite (norm_req _ _ Fs). reflexivity.
Qed.

Lemma Forall2_nil_iff {T} (R : T -> T -> Prop) l l' : Forall2 R l l' -> (l = [] <-> l' = []).
Proof. intros F. destruct F; split; congruence. Qed.

(** References.Exclude: both sides go through SortAndMerge first *)
Lemma exclude_req s s' e e' : Forall2 req s s' -> Forall2 req e e' -> exclude s e = exclude s' e'.
Proof.
  intros Fs Fe. unfold exclude. rewrite (sm_req _ _ Fs), (sm_req _ _ Fe).
  destruct Fs; reflexivity.
Qed.

Section SizesReq.
  Variable sz : Z -> Z.

  Lemma ins_off_shift b x : forall l, ins_off (shift b x) (map (shift b) l) = map (shift b) (ins_off x l).
  Proof.
    induction l as [|y t IH]; [reflexivity|]. cbn [map ins_off].
    replace (roff (shift b x) <=? roff (shift b y)) with (roff x <=? roff y).
    - destruct (roff x <=? roff y); [reflexivity|]. cbn [map]. rewrite IH. reflexivity.
    - unfold shift. cbn [roff]. destruct (Z.leb_spec (roff x) (roff y)), (Z.leb_spec (roff x - b) (roff y - b)); try reflexivity; lia.
  Qed.
  Lemma sort_off_shift b : forall l, sort_off (map (shift b) l) = map (shift b) (sort_off l).
  Proof.
    induction l as [|x t IH]; [reflexivity|]. cbn [map sort_off fold_right].
    change (fold_right ins_off [] (map (shift b) t)) with (sort_off (map (shift b) t)).
    change (fold_right ins_off [] t) with (sort_off t). rewrite IH. apply ins_off_shift.
  Qed.
  Lemma eqs_shift b x y : eqs x y -> eqs (map (shift b) x) (map (shift b) y).
  Proof. unfold eqs. rewrite !sort_off_shift. intros ->. reflexivity. Qed.

  Lemma std_ref_req r r' : req r r' -> std_ref sz r -> std_ref sz r'.
  Proof.
    intros (A & M & E) (O & Z1 & Z2 & Mp). apply eqs_perm in E.
    unfold std_ref, okref, ai in *. rewrite <- A, <- M.
    split; [eapply Permutation_Forall; [exact E | exact O]|]. split; [exact Z1|]. split; [exact Z2|].
    destruct Mp as [Mp | (Mp & B)]; [left; exact Mp | right]. split; [exact Mp|].
    eapply Permutation_Forall; [exact E | exact B].
  Qed.
  Lemma std_refs_req s s' : Forall2 req s s' -> std_refs sz s -> std_refs sz s'.
  Proof.
    intros F. induction F; intros S; [constructor|]. inversion S; subst.
    constructor; [eapply std_ref_req; eassumption | apply IHF; assumption].
  Qed.
  Lemma arts_in_req A s s' : Forall2 req s s' -> arts_in A s -> arts_in A s'.
  Proof.
    intros F. induction F as [|a a' t t' (E & _) Ft IH]; intros S; [constructor|]. inversion S; subst.
    constructor; [rewrite <- E; assumption | apply IH; assumption].
  Qed.

  Lemma res_ref_req r r' : req r r' -> req (res_ref sz r) (res_ref sz r').
  Proof.
    intros (A & M & E). unfold res_ref. rewrite <- M. destruct (rmap r) eqn:Em.
    - split; [exact A|]. split; [congruence | exact E].
    - unfold ai. rewrite <- A. split; [reflexivity|]. split; [reflexivity | apply eqs_shift; exact E].
    - unfold ai. rewrite <- A. split; [reflexivity|]. split; [reflexivity | apply eqs_shift; exact E].
  Qed.
  Lemma resolved_req s s' : Forall2 req s s' -> Forall2 req (map (res_ref sz) s) (map (res_ref sz) s').
  Proof. intros F. induction F; cbn [map]; constructor; [apply res_ref_req; assumption | assumption]. Qed.

  (** ** logs *)
  Definition oreq (c c' : option (list ref)) : Prop :=
    match c, c' with
    | Some x, Some y => Forall2 req x y
    | None, None => True
    | _, _ => False
    end.
  Definition sreq (s s' : step) : Prop :=
    s_actor s = s_actor s' /\ oreq (s_code s) (s_code s') /\ Forall2 req (s_meas s) (s_meas s') /\
    s_issues s = s_issues s'.

  Lemma wf_step_req A st st' : sreq st st' -> wf_step sz A st -> wf_step sz A st'.
  Proof.
    intros (_ & C & Mm & _) (S & I & Wc). split; [eapply std_refs_req; eassumption|].
    split; [eapply arts_in_req; eassumption|].
    destruct (s_code st) as [c|], (s_code st') as [c'|]; cbn [oreq] in C; try contradiction; [|exact Logic.I].
    destruct Wc as (Sc & Ic). split; [eapply std_refs_req; eassumption | eapply arts_in_req; eassumption].
  Qed.
  Lemma WFlog_req A l l' : Forall2 sreq l l' -> WFlog sz A l -> WFlog sz A l'.
  Proof.
    intros F. induction F; intros Wl; [constructor|]. inversion Wl; subst.
    constructor; [eapply wf_step_req; eassumption | apply IHF; assumption].
  Qed.

  (** ValidatorActorsAreProtected: the part after the measurements were merged in *)
  Lemma vap_actor_req idx prev cur pa st st' : sreq st st' ->
    vap_actor idx prev cur pa st = vap_actor idx prev cur pa st'.
  Proof.
    intros (Ea & C & _ & _). unfold vap_actor. rewrite <- Ea.
    destruct (s_actor st); [|reflexivity]. destruct (opt_eqb (Some z) pa); [reflexivity|].
    destruct (s_code st) as [c|], (s_code st') as [c'|]; cbn [oreq] in C; try contradiction; [|reflexivity].
    rewrite (exclude_req c c' [] [] C (Forall2_nil _)). reflexivity.
  Qed.

  Lemma vap_go_req A : forall l l', Forall2 sreq l l' -> WFlog sz A l ->
    forall idx measured pa, vap_go idx measured pa l = vap_go idx measured pa l'.
  Proof.
    intros l l' F. induction F as [|st st' t t' Rs Ft IH]; intros Wl idx measured pa; [reflexivity|].
    inversion Wl as [|? ? Wst Wt]; subst. cbn [vap_go]. cbv zeta.
    pose proof Wst as (Sm & _). pose proof Rs as (_ & _ & Rm & _).
    rewrite (resolve_std sz _ Sm), (resolve_std sz _ (std_refs_req _ _ Rm Sm)). cbn [fst snd].
    rewrite (sm_req (measured ++ map (res_ref sz) (s_meas st)) (measured ++ map (res_ref sz) (s_meas st')))
      by (apply Forall2_app; [apply Forall2_refl, req_refl | apply resolved_req; exact Rm]).
    destruct (sm (measured ++ map (res_ref sz) (s_meas st'))) as [cur| | |]; try reflexivity. cbn [bind].
    rewrite (vap_actor_req idx measured cur pa st st' Rs).
    destruct (vap_actor idx measured cur pa st') as [[iss pa']| | |]; try reflexivity. cbn [bind].
    rewrite (IH Wt). reflexivity.
  Qed.

  Theorem vap_req A l l' : Forall2 sreq l l' -> WFlog sz A l -> vap l = vap l'.
  Proof. intros F Wl. unfold vap. apply (vap_go_req A); assumption. Qed.

  Lemma vfc_measured_req A : forall l l', Forall2 sreq l l' -> WFlog sz A l ->
    forall measured, vfc_measured measured l = vfc_measured measured l'.
  Proof.
    intros l l' F. induction F as [|st st' t t' Rs Ft IH]; intros Wl measured; [reflexivity|].
    inversion Wl as [|? ? Wst Wt]; subst. cbn [vfc_measured]. unfold resolved.
    pose proof Wst as (Sm & _). pose proof Rs as (_ & _ & Rm & _).
    rewrite (resolve_std sz _ Sm), (resolve_std sz _ (std_refs_req _ _ Rm Sm)). cbn [fst].
    rewrite (sm_req (measured ++ map (res_ref sz) (s_meas st)) (measured ++ map (res_ref sz) (s_meas st')))
      by (apply Forall2_app; [apply Forall2_refl, req_refl | apply resolved_req; exact Rm]).
    destruct (sm (measured ++ map (res_ref sz) (s_meas st'))) as [m| | |]; try reflexivity. cbn [bind].
    apply IH. exact Wt.
  Qed.

  Theorem vfc_req A files l l' : Forall2 sreq l l' -> WFlog sz A l -> vfc files l = vfc files l'.
  Proof.
    intros F Wl. unfold vfc. pose proof (Forall2_len _ _ _ F) as Len.
    destruct F as [|st st' t t' Rs Ft]; [reflexivity|].
    assert (F : Forall2 sreq (st :: t) (st' :: t')) by (constructor; assumption).
    rewrite (vfc_measured_req A _ _ F Wl). unfold zlen. rewrite Len. reflexivity.
  Qed.

  Lemma vni_go_req : forall l l', Forall2 sreq l l' -> forall idx, vni_go idx l = vni_go idx l'.
  Proof.
    intros l l' F. induction F as [|st st' t t' (_ & _ & _ & Ei) Ft IH]; intros idx; [reflexivity|].
    cbn [vni_go]. rewrite Ei, IH. reflexivity.
  Qed.
End SizesReq.

(** * Part II: the slice-level functions return what the value-level functions return *)

Definition omap {A B} (f : A -> B) (o : outcome A) : outcome B :=
  match o with Ok a => Ok (f a) | Err c => Err c | Panic => Panic | OutOfFuel => OutOfFuel end.

(** the Size() kept beside an artifact is the length of its content *)
Definition hsized (r : href) : Prop := h_size r = zlen (acontent (h_art r)).
Definition lsized (r : lref) : Prop := l_size r = zlen (acontent (l_art r)).
Definition step_sized (st : hstep) : Prop :=
  Forall lsized (hs_meas st) /\ match hs_code st with Some c => Forall lsized c | None => True end.
Definition log_sized (l : list hstep) : Prop := Forall step_sized l.

Lemma hval_set_rs h r x : hval h (set_rs r x) = set_ranges (hval h r) (val h x).
Proof. reflexivity. Qed.
Lemma hval_alias h r : hval h (alias r) = val_lref h r.
Proof. reflexivity. Qed.
Lemma map_hval_alias h l : map (hval h) (map alias l) = map (val_lref h) l.
Proof. rewrite map_map. reflexivity. Qed.
Lemma alias_sized l : Forall lsized l -> Forall hsized (map alias l).
Proof. intros F. apply Forall_forall. intros r Hr. apply in_map_iff in Hr. destruct Hr as (x & <- & Hx).
  rewrite Forall_forall in F. exact (F x Hx). Qed.
Lemma hval_own_copy h h' r : hval h' (own_copy h r) = hval h r.
Proof. reflexivity. Qed.
Lemma map_hval_own h h' l : map (hval h') (map (own_copy h) l) = map (hval h) l.
Proof. rewrite map_map. reflexivity. Qed.
Lemma own_sized h l : Forall hsized l -> Forall hsized (map (own_copy h) l).
Proof. intros F. apply Forall_forall. intros r Hr. apply in_map_iff in Hr. destruct Hr as (x & <- & Hx).
  rewrite Forall_forall in F. exact (F x Hx). Qed.

Section Sim.
  Variable h0 : heap.
  Variable W : list sl.
  Hypothesis WF : WFheap h0 W.

  (** [h'] is [h] up to in-place sorts of windows of [W] *)
  Definition seqh (h h' : heap) : Prop :=
    (forall a, length (nth a h' []) = length (nth a h [])) /\
    forall w, In w W -> eqs (rd h w) (rd h' w).
  Definition good (h : heap) : Prop := seqh h0 h.

  Lemma seqh_refl h : seqh h h.
  Proof. split; intros; reflexivity. Qed.
  Lemma seqh_trans h1 h2 h3 : seqh h1 h2 -> seqh h2 h3 -> seqh h1 h3.
  Proof.
    intros (L1 & E1) (L2 & E2). split; [intros a; rewrite L2; apply L1|].
    intros w I. eapply eqs_trans; [apply E1 | apply E2]; exact I.
  Qed.
  Lemma good_refl : good h0. Proof. apply seqh_refl. Qed.
  Lemma good_trans h h' : good h -> seqh h h' -> good h'.
  Proof. apply seqh_trans. Qed.
  Lemma good_kept h : good h -> kept h0 W h.
  Proof. intros (L & E). split; [exact L|]. intros w I. apply eqs_perm. apply E. exact I. Qed.
  Lemma good_inb h w : good h -> In w W -> inb h w.
  Proof. intros G I. apply (kept_inb h0 W WF h w (good_kept h G) I). Qed.

  Lemma sort_seqh h s : good h -> In s W -> seqh h (wr h (sl_arr s) (sl_off s) (sort_off (rd h s))).
  Proof.
    intros G I. pose proof (good_inb h s G I) as B.
    assert (Lv : length (sort_off (rd h s)) = sl_len s).
    { rewrite (Permutation_length (sort_off_perm (rd h s))). apply rd_length. exact B. }
    split.
    - intros a. apply wr_lengths. rewrite Lv. exact B.
    - intros w Iw. destruct WF as (_ & D). destruct (D w s Iw I) as [S | S].
      + rewrite (rd_wr_same h s _ w B Lv S). rewrite (rd_same_win h w s S). apply eqs_sort.
      + rewrite (rd_wr_sep h s _ w B Lv S). apply eqs_refl.
  Qed.

  (** a window too short to be sorted reads the same *)
  Lemma rd_small_frame h h' s : good h -> seqh h h' -> In s W -> (sl_len s < 2)%nat -> rd h' s = rd h s.
  Proof.
    intros G S I T. pose proof (good_inb h s G I) as B. pose proof (good_inb h' s (good_trans _ _ G S) I) as B'.
    destruct S as (_ & E). specialize (E s I). unfold eqs in E.
    rewrite !sort_off_short in E by (rewrite rd_length; assumption). symmetry. exact E.
  Qed.

  Lemma val_frame h h' x : good h -> seqh h h' -> rok2 W x -> val h' x = val h x.
  Proof. intros G S R. destruct x as [s | l]; cbn [val]; [|reflexivity]. destruct R as (I & T). apply rd_small_frame; assumption. Qed.
  Lemma hval_frame h h' r : good h -> seqh h h' -> hok2 W r -> hval h' r = hval h r.
  Proof. intros G S R. unfold hval. rewrite (val_frame h h' (h_rs r) G S R). reflexivity. Qed.
  Lemma map_hval_frame h h' l : good h -> seqh h h' -> Forall (hok2 W) l -> map (hval h') l = map (hval h) l.
  Proof.
    intros G S F. induction F as [|r t R Ft IH]; [reflexivity|]. cbn [map]. rewrite IH, (hval_frame h h' r G S R). reflexivity.
  Qed.
  Lemma val_eqs h h' x : seqh h h' -> rok W x -> eqs (val h x) (val h' x).
  Proof. intros (_ & E) R. destruct x as [s | l]; cbn [val]; [apply E; exact R | apply eqs_refl]. Qed.
  Lemma hval_req h h' r : seqh h h' -> hok W r -> req (hval h r) (hval h' r).
  Proof. intros S R. split; [reflexivity|]. split; [reflexivity|]. cbn [hval rranges]. apply val_eqs; assumption. Qed.
  Lemma rs_len_val h x : good h -> rok W x -> rs_len x = length (val h x).
  Proof. intros G R. destruct x as [s | l]; cbn [rs_len val]; [|reflexivity]. symmetry. apply rd_length. apply good_inb; assumption. Qed.

  (** ** Ranges.SortAndMerge on a holder *)
  Lemma rsm_sim h x h' x' : good h -> rok W x -> rsm h x = (h', x') ->
    seqh h h' /\ rok2 W x' /\ val h' x' = ranges_sm (val h x).
  Proof.
    intros G R E. destruct x as [s | l]; cbn [rsm] in E.
    - destruct (sl_len s <? 2)%nat eqn:T.
      + inversion E; subst. apply Nat.ltb_lt in T. split; [apply seqh_refl|]. split; [cbn; auto|].
        cbn [val]. symmetry. apply ranges_sm_short. rewrite rd_length; [exact T | apply good_inb; assumption].
      + inversion E; subst. split; [apply sort_seqh; assumption|]. split; [exact I | reflexivity].
    - inversion E; subst. split; [apply seqh_refl|]. split; [exact I | reflexivity].
  Qed.
  Lemma rsm_small_val h x : good h -> rok2 W x ->
    exists x', rsm h x = (h, x') /\ rok2 W x' /\ val h x' = ranges_sm (val h x).
  Proof.
    intros G R. destruct x as [s | l]; cbn [rsm].
    - destruct R as (I & T). pose proof T as T'. apply Nat.ltb_lt in T'. rewrite T'. eexists. split; [reflexivity|].
      split; [cbn; auto|]. cbn [val]. symmetry. apply ranges_sm_short. rewrite rd_length; [exact T | apply good_inb; assumption].
    - eexists. split; [reflexivity|]. split; [exact I | reflexivity].
  Qed.

  Definition norm (r : ref) : ref := set_ranges r (ranges_sm (rranges r)).

  Lemma rsm_all_sim : forall l h h' l', good h -> Forall (hok W) l -> rsm_all h l = (h', l') ->
    seqh h h' /\ Forall (hok2 W) l' /\ map (hval h') l' = map norm (map (hval h) l).
  Proof.
    induction l as [|r t IH]; intros h h' l' G F E; cbn [rsm_all] in E.
    - inversion E; subst. split; [apply seqh_refl|]. split; [constructor | reflexivity].
    - inversion F as [|? ? Hr Ht]; subst.
      destruct (rsm h (h_rs r)) as (h1, x) eqn:E1.
      destruct (rsm_all h1 t) as (h2, t') eqn:E2. inversion E; subst. clear E.
      destruct (rsm_sim _ _ _ _ G Hr E1) as (S1 & R1 & V1).
      pose proof (good_trans _ _ G S1) as G1.
      destruct (IH _ _ _ G1 Ht E2) as (S2 & F2 & M2).
      split; [eapply seqh_trans; eassumption|]. split; [constructor; [exact R1 | exact F2]|].
      cbn [map]. f_equal.
      + rewrite hval_set_rs. rewrite (val_frame h1 h' x G1 S2 R1), V1. reflexivity.
      + rewrite M2. clear -Ht S1. induction Ht as [|y u Hy Hu IHu]; [reflexivity|]. cbn [map]. rewrite IHu. f_equal.
        unfold norm, set_ranges. cbn [hval rart rmap rranges].
        rewrite (ranges_sm_eqs _ _ (val_eqs h h1 (h_rs y) S1 Hy)). reflexivity.
  Qed.

  Lemma val_app_rs h x vals : val h (app_rs h x vals) = val h x ++ vals.
  Proof. unfold app_rs. destruct vals; [symmetry; apply app_nil_r | reflexivity]. Qed.

  (** the grouping loop *)
  Lemma hloop_sim : forall l h cur, good h -> hok2 W cur -> Forall (hok2 W) l ->
    exists out, hloop h cur l = (h, out) /\ Forall (hok2 W) out /\
      map (hval h) out = sm_loop (hval h cur) (map (hval h) l).
  Proof.
    induction l as [|r t IH]; intros h cur G C F; cbn [hloop map sm_loop].
    - destruct (rsm_small_val h (h_rs cur) G C) as (x & -> & R & V). eexists. split; [reflexivity|].
      split; [constructor; [exact R | constructor]|]. cbn [map]. rewrite hval_set_rs, V. reflexivity.
    - inversion F as [|? ? Hr Ht]; subst.
      change (rart (hval h r)) with (h_art r). change (rart (hval h cur)) with (h_art cur).
      change (rmap (hval h r)) with (h_map r). change (rmap (hval h cur)) with (h_map cur).
      destruct (art_eqb (h_art r) (h_art cur) && mapper_eqb (h_map r) (h_map cur)).
      + destruct (IH h (set_rs cur (app_rs h (h_rs cur) (val h (h_rs r)))) G
                    (app_small W h (h_rs cur) (val h (h_rs r)) C) Ht) as (out & E & Fo & M).
        exists out. split; [exact E|]. split; [exact Fo|]. rewrite M. rewrite hval_set_rs, val_app_rs. reflexivity.
      + rewrite (rs_len_val h (h_rs cur) G (rok2_rok W _ C)).
        change (rranges (hval h cur)) with (val h (h_rs cur)).
        destruct (val h (h_rs cur)) as [|v vs] eqn:Ev; cbn [length].
        * apply IH; assumption.
        * destruct (rsm_small_val h (h_rs cur) G C) as (x & -> & R & V).
          destruct (IH h r G Hr Ht) as (out & -> & Fo & M). eexists. split; [reflexivity|].
          split; [constructor; [exact R | exact Fo]|]. cbn [map]. rewrite M, hval_set_rs, V, Ev. reflexivity.
  Qed.

  (** the order sort.Slice produces *)
  Lemma hcmp_val h a b : hcmp a b = cmp_ref (hval h a) (hval h b).
  Proof. unfold hcmp. apply cmp_ref_arts; reflexivity. Qed.
  Lemma hins_map h x : forall l, map (hval h) (hins x l) = ins_ref (hval h x) (map (hval h) l).
  Proof.
    induction l as [|y t IH]; [reflexivity|]. cbn [hins map ins_ref]. rewrite (hcmp_val h y x).
    destruct (is_lt (cmp_ref (hval h y) (hval h x))); cbn [map]; [rewrite IH|]; reflexivity.
  Qed.
  Lemma hsort_map h : forall s, map (hval h) (hsort s) = sort_refs (map (hval h) s).
  Proof.
    induction s as [|x t IH]; [reflexivity|]. cbn [hsort sort_refs fold_right map].
    change (fold_right hins [] t) with (hsort t). change (fold_right ins_ref [] (map (hval h) t)) with (sort_refs (map (hval h) t)).
    rewrite hins_map, IH. reflexivity.
  Qed.
  Lemma hconflict_map h : forall s, hconflict s = has_conflict (map (hval h) s).
  Proof.
    induction s as [|a t IH]; [reflexivity|]. cbn [hconflict has_conflict map]. rewrite IH. f_equal.
    clear IH. induction t as [|b u IHu]; [reflexivity|]. cbn [existsb map]. rewrite IHu, (hcmp_val h a b). reflexivity.
  Qed.
  Lemma hsorted_map h : forall s, hsorted s = sorted_cmp (map (hval h) s).
  Proof.
    induction s as [|a t IH]; [reflexivity|]. destruct t as [|b u]; [reflexivity|].
    cbn [hsorted sorted_cmp map] in *. rewrite IH, (hcmp_val h b a). reflexivity.
  Qed.

  (** ** References.SortAndMerge *)
  Lemma hsm_sim h s h' o : good h -> Forall (hok W) s -> hsm h s = (h', o) ->
    seqh h h' /\ omap (map (hval h')) o = sm (map (hval h) s) /\
    forall out, o = Ok out -> Forall (hok2 W) out.
  Proof.
    intros G F E. unfold hsm in E. unfold sm.
    destruct s as [|a t]; [inversion E; subst; split; [apply seqh_refl|]; split; [reflexivity | intros out [= <-]; constructor]|].
    set (s := a :: t) in *. change (map (hval h) s) with (hval h a :: map (hval h) t).
    change (hval h a :: map (hval h) t) with (map (hval h) s).
    rewrite <- (hconflict_map h s).
    destruct (hconflict s); [inversion E; subst; split; [apply seqh_refl|]; split; [reflexivity | discriminate]|].
    rewrite <- (hsort_map h s), <- (hsorted_map h (hsort s)).
    destruct (hsorted (hsort s)); [|inversion E; subst; split; [apply seqh_refl|]; split; [reflexivity | discriminate]].
    destruct (rsm_all h (hsort s)) as (h1, s1) eqn:E1.
    destruct (rsm_all_sim _ _ _ _ G (hsort_forall _ _ F) E1) as (S1 & F1 & M1).
    pose proof (good_trans _ _ G S1) as G1.
    unfold refs_sm_sorted. fold norm. rewrite <- M1.
    destruct s1 as [|r t1]; [inversion E; subst; split; [exact S1|]; split; [reflexivity | intros out [= <-]; constructor]|].
    inversion F1 as [|? ? Hr Ht]; subst.
    destruct (hloop_sim t1 h1 r G1 Hr Ht) as (out & Eo & Fo & Mo).
    rewrite Eo in E. inversion E; subst. split; [exact S1|]. split; [cbn [omap map]; rewrite Mo; reflexivity|].
    intros out' [= <-]. exact Fo.
  Qed.

  Lemma rsm_all_P (P : href -> Prop) (HP : forall r x, P r -> P (set_rs r x)) :
    forall l h, Forall P l -> Forall P (snd (rsm_all h l)).
  Proof.
    induction l as [|r t IH]; intros h F; cbn [rsm_all]; [constructor|]. inversion F; subst.
    destruct (rsm h (h_rs r)) as (h1, x). specialize (IH h1 ltac:(assumption)).
    destruct (rsm_all h1 t) as (h2, t'). cbn [snd] in *. constructor; [apply HP; assumption | exact IH].
  Qed.
  Lemma hloop_P (P : href -> Prop) (HP : forall r x, P r -> P (set_rs r x)) :
    forall l h cur, P cur -> Forall P l -> Forall P (snd (hloop h cur l)).
  Proof.
    induction l as [|r t IH]; intros h cur C F; cbn [hloop].
    - destruct (rsm h (h_rs cur)). cbn [snd]. constructor; [apply HP; exact C | constructor].
    - inversion F; subst. destruct (art_eqb (h_art r) (h_art cur) && mapper_eqb (h_map r) (h_map cur)).
      + apply IH; [apply HP; exact C | assumption].
      + destruct (rs_len (h_rs cur)); [apply IH; assumption|].
        destruct (rsm h (h_rs cur)) as (h1, x). specialize (IH h1 r ltac:(assumption) ltac:(assumption)).
        destruct (hloop h1 r t). cbn [snd] in *. constructor; [apply HP; exact C | exact IH].
  Qed.
  Lemma hsm_P (P : href -> Prop) (HP : forall r x, P r -> P (set_rs r x)) h s out :
    Forall P s -> snd (hsm h s) = Ok out -> Forall P out.
  Proof.
    intros F E. unfold hsm in E. destruct s as [|a t]; [inversion E; constructor|].
    destruct (hconflict (a :: t)); [discriminate|]. destruct (hsorted (hsort (a :: t))); [|discriminate].
    pose proof (rsm_all_P P HP (hsort (a :: t)) h (hsort_forall _ _ F)) as F1.
    destruct (rsm_all h (hsort (a :: t))) as (h1, s1). cbn [snd] in F1.
    destruct s1 as [|r t1]; [inversion E; constructor|]. inversion F1; subst.
    pose proof (hloop_P P HP t1 h1 r ltac:(assumption) ltac:(assumption)) as F2.
    destruct (hloop h1 r t1) as (h2, o2). cbn [snd] in *. inversion E; subst. exact F2.
  Qed.
  Lemma set_rs_sized r x : hsized r -> hsized (set_rs r x).
  Proof. exact (fun H => H). Qed.
  Lemma hsm_sized h s h' out : Forall hsized s -> hsm h s = (h', Ok out) -> Forall hsized out.
  Proof. intros F E. apply (hsm_P hsized set_rs_sized h s out F). rewrite E. reflexivity. Qed.

  (** ** References.Resolve *)
  Lemma hresolve_sim h : forall s, Forall hsized s ->
    map (hval h) (fst (hresolve h s)) = fst (refs_resolve (map (hval h) s)) /\
    snd (hresolve h s) = snd (refs_resolve (map (hval h) s)) /\
    Forall hsized (fst (hresolve h s)).
  Proof.
    induction s as [|r t IH]; intros F; cbn [hresolve refs_resolve map]; [split; [reflexivity|]; split; [reflexivity | constructor]|].
    inversion F as [|? ? Sr St]; subst. destruct (IH St) as (I1 & I2 & I3).
    change (rmap (hval h r)) with (h_map r). change (rart (hval h r)) with (h_art r).
    change (rranges (hval h r)) with (val h (h_rs r)). rewrite <- Sr.
    destruct (is_nil (h_map r)).
    - destruct (hresolve h t) as (t', e). destruct (refs_resolve (map (hval h) t)) as (tv, ev).
      cbn [fst snd map] in *. rewrite I1, I2. split; [reflexivity|]. split; [reflexivity|]. constructor; assumption.
    - destruct (resolve (h_map r) (h_size r) (val h (h_rs r))) as [rs| | |];
        try (cbn [fst snd map]; split; [reflexivity|]; split; [reflexivity | exact F]).
      destruct (hresolve h t) as (t', e). destruct (refs_resolve (map (hval h) t)) as (tv, ev).
      cbn [fst snd map] in *. rewrite I1, I2. split; [reflexivity|]. split; [reflexivity|]. constructor; [exact Sr | assumption].
  Qed.

  (** ** the log as it reads in two memories *)
  Lemma lrefs_req h h' l : seqh h h' -> incl (map l_sl l) W -> Forall2 req (map (val_lref h) l) (map (val_lref h') l).
  Proof.
    intros (_ & E) I. apply Forall2_map. intros x Hx. split; [reflexivity|]. split; [reflexivity|].
    cbn [val_lref rranges]. apply E. apply I. apply in_map. exact Hx.
  Qed.
  Lemma val_step_sreq h h' st : seqh h h' -> incl (step_windows st) W -> sreq (val_step h st) (val_step h' st).
  Proof.
    intros S I. unfold step_windows in I. split; [reflexivity|]. split; [|split; [|reflexivity]].
    - cbn [val_step s_code]. destruct (hs_code st) as [c|]; cbn [option_map oreq]; [|exact Logic.I].
      apply lrefs_req; [exact S|]. intros w Hw. apply I. apply in_or_app. right. exact Hw.
    - cbn [val_step s_meas]. apply lrefs_req; [exact S|]. intros w Hw. apply I. apply in_or_app. left. exact Hw.
  Qed.
  Lemma val_log_sreq h h' : seqh h h' -> forall l, incl (windows l) W -> Forall2 sreq (val_log h l) (val_log h' l).
  Proof.
    intros S. induction l as [|st t IH]; intros I; [constructor|]. cbn [val_log map].
    constructor.
    - apply val_step_sreq; [exact S|]. intros w Hw. apply I. cbn [windows flat_map]. apply in_or_app. left. exact Hw.
    - apply IH. intros w Hw. apply I. cbn [windows flat_map]. apply in_or_app. right. exact Hw.
  Qed.
  (** ** ValidatorActorsAreProtected *)

  Lemma fail_of_omap {A B C} (f : A -> B) (o : outcome A) (k : B -> outcome C) :
    (forall a, o <> Ok a) -> fail_of o = bind (omap f o) k.
  Proof. destruct o; intros H; try reflexivity. exfalso. apply (H a). reflexivity. Qed.

  Lemma refs_resolve_cons_ne r t : fst (refs_resolve (r :: t)) <> [].
  Proof.
    cbn [refs_resolve]. destruct (is_nil (rmap r)).
    - destruct (refs_resolve t). discriminate.
    - destruct (resolve (rmap r) (zlen (acontent (rart r))) (rranges r)); try discriminate.
      destruct (refs_resolve t). discriminate.
  Qed.

  (** the part after [measured.SortAndMerge()]: returns what the value-level
      function returns on what its arguments and the step read as NOW *)
  Lemma hvap_actor_sim h idx prev cur pa st :
    good h -> incl (step_windows st) W -> step_sized st ->
    Forall (hok2 W) prev -> Forall (hok2 W) cur ->
    seqh h (fst (hvap_actor h idx prev cur pa st)) /\
    snd (hvap_actor h idx prev cur pa st) =
      vap_actor idx (map (hval h) prev) (map (hval h) cur) pa (val_step h st).
  Proof.
    intros G I (_ & Sz) Fp Fc. unfold hvap_actor, vap_actor. cbn [val_step s_actor s_code].
    destruct (hs_actor st) as [a|]; [|split; [apply seqh_refl | reflexivity]].
    destruct (opt_eqb (Some a) pa); [split; [apply seqh_refl | reflexivity]|].
    destruct (hs_code st) as [code|] eqn:Ec; cbn [option_map]; [|split; [apply seqh_refl | reflexivity]].
    assert (Ic : incl (map l_sl code) W).
    { intros w Hw. apply I. unfold step_windows. rewrite Ec. apply in_or_app. right. exact Hw. }
    destruct code as [|c ct].
    { (* no code reference at all *)
      cbn [map exclude bind refs_resolve fst snd hresolve has_bytes existsb app]. split; [apply seqh_refl | reflexivity]. }
    set (code := c :: ct) in *.
    assert (Fa : Forall (hok W) (map alias code)) by (apply alias_ok; exact Ic).
    assert (Sa : Forall hsized (map alias code)) by (apply alias_sized; exact Sz).
    destruct (hsm h (map alias code)) as (h1, o1) eqn:E1.
    destruct (hsm_sim _ _ _ _ G Fa E1) as (S1 & V1 & F1).
    rewrite map_hval_alias in V1.
    assert (Ex : exclude (map (val_lref h) code) [] = omap (map (hval h1)) o1).
    { unfold exclude. change (map (val_lref h) code) with (val_lref h c :: map (val_lref h) ct).
      change (val_lref h c :: map (val_lref h) ct) with (map (val_lref h) code).
      rewrite <- V1. destruct o1; cbn [omap bind]; try reflexivity. apply excl_walk_nil. }
    rewrite Ex. pose proof (good_trans _ _ G S1) as G1.
    destruct o1 as [arefs0| | |]; cbn [omap bind fst snd]; try (split; [exact S1 | reflexivity]).
    specialize (F1 arefs0 eq_refl).
    pose proof (hsm_sized _ _ _ _ Sa E1) as Sz0.
    destruct (hresolve_sim h1 arefs0 Sz0) as (R1 & R2 & R3).
    pose proof (hresolve_ok W h1 arefs0 (hok2_hok W _ F1)) as F2.
    destruct (hresolve h1 arefs0) as (arefs1, e2). cbn [fst snd] in *.
    rewrite <- R1, <- R2.
    destruct arefs1 as [|a1 at1].
    { cbn [map exclude bind has_bytes existsb]. split; [exact S1 | reflexivity]. }
    set (arefs1 := a1 :: at1) in *.
    destruct (hsm h1 arefs1) as (h2, o2) eqn:E2.
    destruct (hsm_sim _ _ _ _ G1 F2 E2) as (S2 & V2 & F2').
    pose proof (good_trans _ _ G1 S2) as G2.
    replace (exclude (map (hval h1) arefs1) (map (hval h) prev))
      with (bind (sm (map (hval h1) arefs1)) (fun s0 => bind (sm (map (hval h) prev)) (fun s1 => excl_walk s0 s1)))
      by reflexivity.
    rewrite <- V2.
    destruct o2 as [s0| | |]; cbn [omap bind fst snd]; try (split; [eapply seqh_trans; eassumption | reflexivity]).
    specialize (F2' s0 eq_refl).
    destruct (hsm h2 prev) as (h3, o3) eqn:E3.
    destruct (hsm_sim _ _ _ _ G2 (hok2_hok W _ Fp) E3) as (S3 & V3 & F3).
    pose proof (good_trans _ _ G2 S3) as G3.
    assert (S13 : seqh h h3) by (eapply seqh_trans; [exact S1|]; eapply seqh_trans; eassumption).
    rewrite <- (map_hval_frame h h2 prev G (seqh_trans _ _ _ S1 S2) Fp), <- V3.
    destruct o3 as [s1| | |]; cbn [omap bind fst snd]; try (split; [exact S13 | reflexivity]).
    rewrite <- (map_hval_frame h2 h3 s0 G2 S3 F2').
    destruct (excl_walk (map (hval h3) s0) (map (hval h3) s1)) as [nm| | |]; cbn [bind fst snd fail_of];
      try (split; [exact S13 | reflexivity]).
    rewrite (map_hval_frame h h3 cur G S13 Fc).
    destruct (has_bytes nm); cbn [fst snd]; split; try exact S13; reflexivity.
  Qed.

  Section Universe.
    Variable sz : Z -> Z.
    Variable A : list art.

    Lemma incl_windows_cons st t : incl (windows (st :: t)) W -> incl (step_windows st) W /\ incl (windows t) W.
    Proof.
      intros I. split; intros w Hw; apply I; cbn [windows flat_map]; apply in_or_app; [left | right]; exact Hw.
    Qed.
    Lemma incl_meas st : incl (step_windows st) W -> incl (map l_sl (hs_meas st)) W.
    Proof. intros I w Hw. apply I. unfold step_windows. apply in_or_app. left. exact Hw. Qed.

    Lemma own_ok2 h l : Forall (hok2 W) (map (own_copy h) l).
    Proof. apply Forall_forall. intros r Hr. apply in_map_iff in Hr. destruct Hr as (x & <- & _). exact Logic.I. Qed.

    (** what the step contributes to [measured]: the same in both models *)
    Lemma step_meas_sim h measured st h1 o1 :
      good h -> incl (step_windows st) W -> step_sized st ->
      Forall (hok2 W) measured -> Forall hsized measured ->
      hsm h (measured ++ fst (hresolve h (map alias (hs_meas st)))) = (h1, o1) ->
      seqh h h1 /\
      omap (map (hval h1)) o1 = sm (map (hval h) measured ++ fst (refs_resolve (s_meas (val_step h st)))) /\
      snd (hresolve h (map alias (hs_meas st))) = snd (refs_resolve (s_meas (val_step h st))) /\
      forall cur, o1 = Ok cur -> Forall (hok2 W) cur /\ Forall hsized cur.
    Proof.
      intros G I (Sm & _) Fm Sz E.
      pose proof (alias_sized _ Sm) as Sa.
      destruct (hresolve_sim h (map alias (hs_meas st)) Sa) as (R1 & R2 & R3).
      rewrite map_hval_alias in R1, R2.
      assert (Fn : Forall (hok W) (fst (hresolve h (map alias (hs_meas st))))).
      { apply hresolve_ok, alias_ok. apply incl_meas. exact I. }
      destruct (hsm_sim _ _ _ _ G (proj2 (Forall_app _ _ _) (conj (hok2_hok W _ Fm) Fn)) E) as (S1 & V1 & F1).
      rewrite map_app, R1 in V1. split; [exact S1|]. split; [exact V1|]. split; [exact R2|].
      intros cur ->. split; [apply F1; reflexivity|].
      eapply hsm_sized; [|exact E]. apply Forall_app. split; assumption.
    Qed.

    Lemma hvap_go_sim : forall l h idx measured pa,
      good h -> incl (windows l) W -> log_sized l ->
      Forall (hok2 W) measured -> Forall hsized measured -> WFlog sz A (val_log h l) ->
      seqh h (fst (hvap_go h idx measured pa l)) /\
      snd (hvap_go h idx measured pa l) = vap_go idx (map (hval h) measured) pa (val_log h l).
    Proof.
      induction l as [|st t IH]; intros h idx measured pa G I Sl Fm Sz Wl; cbn [hvap_go val_log map vap_go].
      { split; [apply seqh_refl | reflexivity]. }
      cbv zeta. destruct (incl_windows_cons _ _ I) as (Is & It).
      inversion Sl as [|? ? Sst St]; subst. inversion Wl as [|? ? Wst Wt]; subst.
      destruct (hsm h (measured ++ fst (hresolve h (map alias (hs_meas st))))) as (h1, o1) eqn:E1.
      destruct (step_meas_sim _ _ _ _ _ G Is Sst Fm Sz E1) as (S1 & V1 & R2 & F1).
      rewrite <- V1, R2. pose proof (good_trans _ _ G S1) as G1.
      destruct o1 as [cur| | |]; cbn [omap bind fst snd fail_of]; try (split; [exact S1 | reflexivity]).
      destruct (F1 cur eq_refl) as (Fc & Sc).
      destruct (hvap_actor_sim h1 idx (map (own_copy h) measured) cur pa st G1 Is Sst (own_ok2 h measured) Fc)
        as (S2 & V2).
      rewrite map_hval_own in V2.
      rewrite <- (vap_actor_req idx (map (hval h) measured) (map (hval h1) cur) pa _ _ (val_step_sreq h h1 st S1 Is)) in V2.
      destruct (hvap_actor h1 idx (map (own_copy h) measured) cur pa st) as (h2, o2). cbn [fst snd] in S2, V2.
      rewrite <- V2. pose proof (good_trans _ _ G1 S2) as G2.
      assert (S02 : seqh h h2) by (eapply seqh_trans; eassumption).
      destruct o2 as [[iss pa']| | |]; cbn [bind fst snd fail_of]; try (split; [exact S02 | reflexivity]).
      pose proof (val_log_sreq h h2 S02 t It) as Rl.
      destruct (IH h2 (idx + 1) cur pa' G2 It St Fc Sc (WFlog_req sz A _ _ Rl Wt)) as (S3 & V3).
      rewrite (map_hval_frame h1 h2 cur G1 S2 Fc) in V3.
      rewrite <- (vap_go_req sz A _ _ Rl Wt) in V3.
      destruct (hvap_go h2 (idx + 1) cur pa' t) as (h3, o3). cbn [fst snd] in S3, V3.
      change (map (val_step h) t) with (val_log h t). rewrite <- V3.
      split; [destruct o3; cbn [fst]; eapply seqh_trans; eassumption|].
      destruct o3; reflexivity.
    Qed.
  End Universe.

  (** ** ValidatorFinalCoverageIsComplete *)

  Lemma sort_inplace_seqh h x : good h -> rok W x -> seqh h (sort_inplace h x).
  Proof.
    intros G R. destruct x as [s | l]; cbn [sort_inplace]; [|apply seqh_refl].
    destruct (sl_len s <? 2)%nat; [apply seqh_refl|]. apply sort_seqh; assumption.
  Qed.
  Lemma excl_fx_seqh : forall s0 s1 h, good h -> Forall (hok W) s1 -> seqh h (excl_fx h s0 s1).
  Proof.
    induction s0 as [|r0 t0 IH0]; intros s1 h G F; [apply seqh_refl|].
    induction s1 as [|r1 t1 IH1]; [apply seqh_refl|].
    inversion F as [|? ? H1 Ht]; subst. cbn [excl_fx].
    destruct (cmp_ref r0 (hkey r1)).
    - apply IH0; assumption.
    - destruct (rranges r0); [apply IH0; assumption|].
      pose proof (sort_inplace_seqh h (h_rs r1) G H1) as S1.
      eapply seqh_trans; [exact S1|]. apply IH0; [eapply good_trans; eassumption | exact Ht].
    - apply IH1. exact Ht.
    - apply seqh_refl.
  Qed.

  Section Universe2.
    Variable sz : Z -> Z.
    Variable A : list art.

    Lemma hvfc_measured_sim : forall l h measured h' o,
      good h -> incl (windows l) W -> log_sized l -> Forall (hok2 W) measured -> Forall hsized measured ->
      WFlog sz A (val_log h l) -> hvfc_measured h measured l = (h', o) ->
      seqh h h' /\ omap (map (hval h')) o = vfc_measured (map (hval h) measured) (val_log h l) /\
      forall m, o = Ok m -> Forall (hok2 W) m.
    Proof.
      induction l as [|st t IH]; intros h measured h' o G I Sl Fm Sz Wl E; cbn [hvfc_measured val_log map vfc_measured] in *.
      { inversion E; subst. split; [apply seqh_refl|]. split; [reflexivity|]. intros m [= <-]. exact Fm. }
      destruct (incl_windows_cons _ _ I) as (Is & It).
      inversion Sl as [|? ? Sst St]; subst. inversion Wl as [|? ? Wst Wt]; subst.
      destruct (hsm h (measured ++ fst (hresolve h (map alias (hs_meas st))))) as (h1, o1) eqn:E1.
      destruct (step_meas_sim _ _ _ _ _ G Is Sst Fm Sz E1) as (S1 & V1 & _ & F1).
      unfold resolved. rewrite <- V1. pose proof (good_trans _ _ G S1) as G1.
      destruct o1 as [m| | |]; cbn [omap bind];
        try (inversion E; subst; split; [exact S1|]; split; [reflexivity | discriminate]).
      destruct (F1 m eq_refl) as (Fc & Sc).
      pose proof (val_log_sreq h h1 S1 t It) as Rl.
      destruct (IH h1 m h' o G1 It St Fc Sc (WFlog_req sz A _ _ Rl Wt) E) as (S2 & V2 & F2).
      split; [eapply seqh_trans; eassumption|]. split; [|exact F2].
      rewrite V2. symmetry. apply (vfc_measured_req sz A _ _ Rl Wt).
    Qed.

    Lemma hvfc_sim h files l :
      good h -> incl (windows l) W -> log_sized l -> WFlog sz A (val_log h l) ->
      seqh h (fst (hvfc h files l)) /\ snd (hvfc h files l) = vfc files (val_log h l).
    Proof.
      intros G I Sl Wl. unfold hvfc, vfc.
      destruct l as [|st0 t0]; [split; [apply seqh_refl | reflexivity]|].
      set (l := st0 :: t0) in *.
      change (val_log h l) with (val_step h st0 :: val_log h t0) at 1.
      cbv iota.
      replace (zlen (val_log h l)) with (zlen l) by (unfold zlen, val_log; rewrite map_length; reflexivity).
      destruct (hvfc_measured h [] l) as (h1, o) eqn:E.
      destruct (hvfc_measured_sim _ _ _ _ _ G I Sl (Forall_nil _) (Forall_nil _) Wl E) as (S1 & V1 & F1).
      cbn [map] in V1. rewrite <- V1. pose proof (good_trans _ _ G S1) as G1.
      destruct o as [measured| | |]; cbn [omap bind fst snd fail_of]; try (split; [exact S1 | reflexivity]).
      specialize (F1 measured eq_refl).
      destruct files as [frefs| | |]; try (split; [exact S1 | reflexivity]).
      destruct frefs as [|f ft]; [split; [exact S1 | reflexivity]|].
      unfold exclude. pose proof (refs_resolve_cons_ne f ft) as NE. fold (resolved (f :: ft)) in NE.
      destruct (resolved (f :: ft)) as [|rf rt] eqn:Er; [congruence|]. rewrite <- Er. clear NE.
      destruct (sm (resolved (f :: ft))) as [s0| | |]; cbn [bind fst snd fail_of]; try (split; [exact S1 | reflexivity]).
      destruct (hsm h1 measured) as (h2, o2) eqn:E2.
      destruct (hsm_sim _ _ _ _ G1 (hok2_hok W _ F1) E2) as (S2 & V2 & F2).
      rewrite <- V2. pose proof (good_trans _ _ G1 S2) as G2.
      assert (S02 : seqh h h2) by (eapply seqh_trans; eassumption).
      destruct o2 as [s1| | |]; cbn [omap bind fst snd fail_of]; try (split; [exact S02 | reflexivity]).
      specialize (F2 s1 eq_refl).
      pose proof (excl_fx_seqh s0 s1 h2 G2 (hok2_hok W _ F2)) as S3.
      destruct (excl_walk s0 (map (hval h2) s1)) as [nm| | |]; cbn [bind fst snd fail_of]; try (split; [exact S02 | reflexivity]).
      destruct nm as [|n nt]; cbn [fst snd]; (split; [eapply seqh_trans; eassumption|]); [reflexivity|].
      rewrite (map_hval_frame h1 (excl_fx h2 s0 s1) measured G1 (seqh_trans _ _ _ S2 S3) F1). reflexivity.
    Qed.

    Theorem hvap_refines h l :
      good h -> incl (windows l) W -> log_sized l -> WFlog sz A (val_log h l) ->
      seqh h (fst (hvap h l)) /\ snd (hvap h l) = vap (val_log h l).
    Proof.
      intros G I Sl Wl. unfold hvap, vap.
      exact (hvap_go_sim sz A l h 0 [] None G I Sl (Forall_nil _) (Forall_nil _) Wl).
    Qed.
  End Universe2.
  (** * Part III: any sequence of runs over one log in one memory *)

  Section Universe3.
    Variable sz : Z -> Z.
    Variable A : list art.

    Lemma flat_meas_val h : forall l, flat_map s_meas (val_log h l) = map (val_lref h) (all_meas l).
    Proof.
      induction l as [|st t IH]; [reflexivity|]. cbn [val_log map flat_map all_meas] in *.
      rewrite map_app. f_equal. exact IH.
    Qed.
    Lemma all_meas_incl l : incl (windows l) W -> incl (map l_sl (all_meas l)) W.
    Proof.
      induction l as [|st t IH]; intros I; [intros w []|]. destruct (incl_windows_cons _ _ I) as (Is & It).
      cbn [all_meas flat_map]. rewrite map_app. intros w Hw. apply in_app_or in Hw. destruct Hw as [Hw | Hw].
      - apply (incl_meas _ Is). exact Hw.
      - apply IH; assumption.
    Qed.
    Lemma flat_meas_req : forall l l', Forall2 sreq l l' -> Forall2 req (flat_map s_meas l) (flat_map s_meas l').
    Proof.
      intros l l' F. induction F as [|st st' t t' (_ & _ & Rm & _) Ft IH]; [constructor|].
      cbn [flat_map]. apply Forall2_app; assumption.
    Qed.

    Lemma hsm_all_sim h l : good h -> incl (windows l) W ->
      seqh h (fst (hsm_all h l)) /\ snd (hsm_all h l) = sm_all (val_log h l).
    Proof.
      intros G I. unfold hsm_all, sm_all.
      destruct (hsm h (map alias (all_meas l))) as (h1, o) eqn:E.
      destruct (hsm_sim _ _ _ _ G (alias_ok W _ (all_meas_incl l I)) E) as (S1 & V1 & _).
      rewrite map_hval_alias, <- flat_meas_val in V1. cbn [fst snd]. split; [exact S1|].
      rewrite <- V1. destruct o; reflexivity.
    Qed.

    Lemma hall_sim h files l :
      good h -> incl (windows l) W -> log_sized l -> WFlog sz A (val_log h l) ->
      seqh h (fst (hall h files l)) /\ snd (hall h files l) = vall files (val_log h l).
    Proof.
      intros G I Sl Wl. unfold hall, vall.
      destruct (hvap_refines sz A h l G I Sl Wl) as (S1 & V1).
      destruct (hvap h l) as (h1, o1). cbn [fst snd] in S1, V1. rewrite <- V1.
      pose proof (good_trans _ _ G S1) as G1.
      destruct o1 as [a| | |]; cbn [bind fst snd fail_of]; try (split; [exact S1 | reflexivity]).
      pose proof (val_log_sreq h h1 S1 l I) as R1.
      destruct (hvfc_sim sz A h1 files l G1 I Sl (WFlog_req sz A _ _ R1 Wl)) as (S2 & V2).
      rewrite <- (vfc_req sz A files _ _ R1 Wl) in V2.
      destruct (hvfc h1 files l) as (h2, o2). cbn [fst snd] in S2, V2. rewrite <- V2.
      assert (S02 : seqh h h2) by (eapply seqh_trans; eassumption).
      destruct o2 as [b| | |]; cbn [bind fst snd fail_of]; try (split; [exact S02 | reflexivity]).
      split; [exact S02|]. unfold vni. rewrite (vni_go_req _ _ (val_log_sreq h h2 S02 l I) 0). reflexivity.
    Qed.

    Lemma run_pass_sim h l p :
      good h -> incl (windows l) W -> log_sized l -> WFlog sz A (val_log h l) ->
      seqh h (fst (run_pass h l p)) /\ snd (run_pass h l p) = vpass (val_log h l) p.
    Proof.
      intros G I Sl Wl. destruct p as [|f| |f]; cbn [run_pass vpass].
      - destruct (hvap_refines sz A h l G I Sl Wl) as (S1 & V1). destruct (hvap h l). cbn [fst snd] in *. rewrite V1. auto.
      - destruct (hvfc_sim sz A h f l G I Sl Wl) as (S1 & V1). destruct (hvfc h f l). cbn [fst snd] in *. rewrite V1. auto.
      - destruct (hsm_all_sim h l G I) as (S1 & V1). destruct (hsm_all h l). cbn [fst snd] in *. rewrite V1. auto.
      - destruct (hall_sim h f l G I Sl Wl) as (S1 & V1). destruct (hall h f l). cbn [fst snd] in *. rewrite V1. auto.
    Qed.

    (** the value-level verdict of a pass does not depend on which of the memories
        the log is read in *)
    Lemma vpass_req l l' p : Forall2 sreq l l' -> WFlog sz A l -> vpass l p = vpass l' p.
    Proof.
      intros F Wl. destruct p as [|f| |f]; cbn [vpass].
      - rewrite (vap_req sz A _ _ F Wl). reflexivity.
      - rewrite (vfc_req sz A f _ _ F Wl). reflexivity.
      - unfold sm_all. rewrite (sm_req _ _ (flat_meas_req _ _ F)). reflexivity.
      - unfold vall, vni. rewrite (vap_req sz A _ _ F Wl), (vfc_req sz A f _ _ F Wl), (vni_go_req _ _ F 0). reflexivity.
    Qed.

    Lemma run_passes_sim l : incl (windows l) W -> log_sized l -> WFlog sz A (val_log h0 l) ->
      forall ps h, good h ->
      good (fst (run_passes h l ps)) /\ snd (run_passes h l ps) = map (vpass (val_log h0 l)) ps.
    Proof.
      intros I Sl Wl. induction ps as [|p t IH]; intros h G; cbn [run_passes map]; [split; [exact G | reflexivity]|].
      pose proof (val_log_sreq h0 h G l I) as R.
      destruct (run_pass_sim h l p G I Sl (WFlog_req sz A _ _ R Wl)) as (S1 & V1).
      rewrite <- (vpass_req _ _ p R Wl) in V1.
      destruct (run_pass h l p) as (h1, r). cbn [fst snd] in S1, V1.
      destruct (IH h1 (good_trans _ _ G S1)) as (G2 & V2).
      destruct (run_passes h1 l t) as (h2, rs). cbn [fst snd] in *. split; [exact G2|]. rewrite V1, V2. reflexivity.
    Qed.
  End Universe3.
End Sim.

(** ** The theorems *)

(** One pass: the issues of the slice-level validators are those of the
    value-level validators on the log as it reads when the pass starts. *)
Theorem heap_refines sz A h l files :
  WFheap h (windows l) -> log_sized l -> WFlog sz A (val_log h l) ->
  snd (hvap h l) = vap (val_log h l) /\ snd (hvfc h files l) = vfc files (val_log h l).
Proof.
  intros WF Sl Wl. split.
  - apply (hvap_refines h (windows l) WF sz A h l (good_refl h (windows l)) (incl_refl _) Sl Wl).
  - apply (hvfc_sim h (windows l) WF sz A h files l (good_refl h (windows l)) (incl_refl _) Sl Wl).
Qed.

(** Any sequence of runs over one log in one memory: every run returns what the
    value-level model says about the log as it read BEFORE THE FIRST RUN, and the
    memory is the first one up to in-place sorts of slices of the log. *)
Theorem passes_first sz A h0 l ps :
  WFheap h0 (windows l) -> log_sized l -> WFlog sz A (val_log h0 l) ->
  snd (run_passes h0 l ps) = map (vpass (val_log h0 l)) ps /\
  kept h0 (windows l) (fst (run_passes h0 l ps)).
Proof.
  intros WF Sl Wl.
  destruct (run_passes_sim h0 (windows l) WF sz A l (incl_refl _) Sl Wl ps h0 (good_refl h0 (windows l))) as (G & V).
  split; [exact V | apply good_kept; exact G].
Qed.
