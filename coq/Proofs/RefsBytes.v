(** Proofs about Model/RefsBytes.v: the bytes handed out by RawBytes /
    Reference.RawBytes belong to the caller -- a new array per call, never
    written by a later operation -- and programs with kept byte results are
    programs of Model/RefsHeap.v as far as the reference lists go. *)
From CSS Require Import Lib.Base Model.Ranges Model.Refs Model.RefsHeap Model.RefsBytes.

Lemma nth_error_set_nth_other {A} (l : list A) : forall i j x, i <> j ->
  nth_error (set_nth i x l) j = nth_error l j.
Proof.
  induction l as [|a t IH]; intros i j x N; [destruct i; reflexivity|].
  destruct i as [|i], j as [|j]; cbn [set_nth nth_error]; try reflexivity; [congruence|].
  apply IH. congruence.
Qed.

Lemma nth_error_set_nth_same {A} (l : list A) : forall i x y, nth_error l i = Some y ->
  nth_error (set_nth i x l) i = Some x.
Proof.
  induction l as [|a t IH]; intros i x y E; [destruct i; discriminate|].
  destruct i as [|i]; cbn [set_nth nth_error] in *; [reflexivity | eapply IH; exact E].
Qed.

Lemma set_nth_length {A} (l : list A) : forall i x, length (set_nth i x l) = length l.
Proof. induction l as [|a t IH]; intros [|i] x; cbn [set_nth length]; try reflexivity. f_equal. apply IH. Qed.

Lemma nth_error_app_some {A} (l e : list A) j b : nth_error l j = Some b -> nth_error (l ++ e) j = Some b.
Proof. intros E. rewrite nth_error_app1; [exact E | apply nth_error_Some; congruence]. Qed.

(** One operation: every byte result that exists and is not the one the caller
    overwrites is afterwards what it was. *)
Lemma bstep_bytes_kept bs o bs' r j b :
  bstep bs o = Some (bs', r) -> scribbled o <> Some j ->
  nth_error (b_bytes bs) j = Some b -> nth_error (b_bytes bs') j = Some b.
Proof.
  intros E N Hj. destruct o as [o|i pat]; cbn [bstep] in E.
  - destruct (step (b_st bs) o) as [[st' r']|]; [|discriminate]. inversion E; subst. cbn [b_bytes].
    apply nth_error_app_some. exact Hj.
  - destruct (nth_error (b_bytes bs) i) as [x|]; [|discriminate]. inversion E; subst. cbn [b_bytes].
    rewrite nth_error_set_nth_other; [exact Hj|]. cbn [scribbled] in N. congruence.
Qed.

Lemma brun_bytes_kept ops : forall bs bs' j b,
  brun bs ops = Some bs' -> ~ In j (scribbles ops) ->
  nth_error (b_bytes bs) j = Some b -> nth_error (b_bytes bs') j = Some b.
Proof.
  induction ops as [|o t IH]; intros bs bs' j b E N Hj; cbn [brun] in E.
  - inversion E; subst. exact Hj.
  - destruct (bstep bs o) as [[bs1 r]|] eqn:S; [|discriminate].
    apply (IH bs1 bs' j b E).
    + intros I. apply N. cbn [scribbles]. destruct (scribbled o); [right; exact I | exact I].
    + eapply bstep_bytes_kept; [exact S | | exact Hj].
      intros Q. apply N. cbn [scribbles]. rewrite Q. left. reflexivity.
Qed.

(** RawBytes / Reference.RawBytes hand out a NEW array: the byte heap grows by
    exactly that entry. *)
Lemma bstep_fresh bs o bs' b :
  bstep bs (BOp o) = Some (bs', RBytes (Ok b)) ->
  b_bytes bs' = b_bytes bs ++ [b] /\ step (b_st bs) o = Some (b_st bs', RBytes (Ok b)).
Proof.
  cbn [bstep]. intros E. destruct (step (b_st bs) o) as [[st' r']|]; [|discriminate].
  inversion E; subst. cbn [b_bytes b_st handed_out]. split; reflexivity.
Qed.

(** ... and it stays what it was handed out as, whatever is called afterwards,
    unless the caller overwrites it. *)
Lemma bytes_result_stays bs o bs1 b ops bs2 :
  bstep bs (BOp o) = Some (bs1, RBytes (Ok b)) -> brun bs1 ops = Some bs2 ->
  ~ In (length (b_bytes bs)) (scribbles ops) ->
  nth_error (b_bytes bs2) (length (b_bytes bs)) = Some b.
Proof.
  intros E R N. destruct (bstep_fresh _ _ _ _ E) as (F & _).
  eapply brun_bytes_kept; [exact R | exact N|]. rewrite F.
  rewrite nth_error_app2 by apply Nat.le_refl. rewrite Nat.sub_diag. reflexivity.
Qed.

(** An operation that hands out no bytes leaves the byte heap as it is (when it
    is not the caller's own write). *)
Lemma bstep_no_bytes bs o bs' r :
  bstep bs (BOp o) = Some (bs', r) -> (forall b, r <> RBytes (Ok b)) -> b_bytes bs' = b_bytes bs.
Proof.
  cbn [bstep]. intros E N. destruct (step (b_st bs) o) as [[st' r']|]; [|discriminate].
  inversion E; subst. cbn [b_bytes]. destruct r as [| |[x| | |]]; cbn [handed_out]; try apply app_nil_r.
  exfalso. exact (N x eq_refl).
Qed.

(** The caller's write changes the array it is aimed at and nothing else: no
    reference list, no range array, no other result. *)
Lemma bstep_scribble_frame bs j pat bs' r :
  bstep bs (BScribble j pat) = Some (bs', r) ->
  b_st bs' = b_st bs /\ length (b_bytes bs') = length (b_bytes bs) /\
  (exists b, nth_error (b_bytes bs) j = Some b /\ nth_error (b_bytes bs') j = Some (map (fun _ => pat) b)) /\
  (forall k, k <> j -> nth_error (b_bytes bs') k = nth_error (b_bytes bs) k).
Proof.
  cbn [bstep]. intros E. destruct (nth_error (b_bytes bs) j) as [b|] eqn:Hj; [|discriminate].
  inversion E; subst. cbn [b_st b_bytes]. split; [reflexivity|]. split; [apply set_nth_length|]. split.
  - exists b. split; [reflexivity|]. eapply nth_error_set_nth_same. exact Hj.
  - intros k N. apply nth_error_set_nth_other. congruence.
Qed.

(** As far as reference lists and range arrays go, a program with kept byte
    results (and caller's writes into them) is the program of Model/RefsHeap.v
    made of its algebra operations: every slice-level theorem applies. *)
Lemma brun_algebra ops : forall bs bs', brun bs ops = Some bs' ->
  run (b_st bs) (algebra_ops ops) = Some (b_st bs').
Proof.
  induction ops as [|o t IH]; intros bs bs' E; cbn [brun] in E.
  - inversion E. reflexivity.
  - destruct (bstep bs o) as [[bs1 r]|] eqn:S; [|discriminate]. destruct o as [o|j pat]; cbn [algebra_ops].
    + cbn [bstep] in S. destruct (step (b_st bs) o) as [[st' r']|] eqn:S'; [|discriminate].
      inversion S; subst. cbn [run]. rewrite S'. apply (IH _ _ E).
    + destruct (bstep_scribble_frame _ _ _ _ _ S) as (Q & _). rewrite <- Q. apply (IH _ _ E).
Qed.

(** the byte heap only grows *)
Lemma brun_bytes_grow ops : forall bs bs', brun bs ops = Some bs' ->
  (length (b_bytes bs) <= length (b_bytes bs'))%nat.
Proof.
  induction ops as [|o t IH]; intros bs bs' E; cbn [brun] in E.
  - inversion E. apply Nat.le_refl.
  - destruct (bstep bs o) as [[bs1 r]|] eqn:S; [|discriminate].
    apply (Nat.le_trans _ (length (b_bytes bs1))); [|apply (IH _ _ E)].
    destruct o as [o|j pat].
    + cbn [bstep] in S. destruct (step (b_st bs) o) as [[st' r']|]; [|discriminate].
      inversion S; subst. cbn [b_bytes]. rewrite app_length. apply Nat.le_add_r.
    + destruct (bstep_scribble_frame _ _ _ _ _ S) as (_ & L & _). rewrite L. apply Nat.le_refl.
Qed.

(** a closed example: two lists, the bytes of the first, of the second, of the
    first again; the caller overwrites the first result; all results are as the
    model says *)
Definition eb_raw := mkArt 1 1 true [21; 22; 23; 24; 25; 26].
Definition eb_img := mkArt 2 0 false [1; 2; 3; 4; 5; 6; 7; 8].
Definition eb_st : bstate :=
  mkB (mkSt (mkMem [[mkR 1 3]; [mkR 4 2; mkR 0 2]]
                   [[mkHdr eb_raw MNil (mkSl 0 0 1); mkHdr eb_img MNil (mkSl 1 0 2)]; [mkHdr eb_img MNil (mkSl 1 0 2)]])
            [VRefs (mkSl 0 0 2); VRefs (mkSl 1 0 1)]) [].
Definition eb_ops : list bop :=
  [BOp (ORawBytes 0); BOp (ORawBytes 1); BScribble 0 170; BOp (ORawBytes 0); BOp (ORefBytes 0 0)].
Example eb_runs : exists bs', brun eb_st eb_ops = Some bs' /\
  b_bytes bs' = [[170; 170; 170; 170; 170; 170; 170]; [1; 2; 5; 6]; [22; 23; 24; 1; 2; 5; 6]; [22; 23; 24]].
Proof. eexists. split; vm_compute; reflexivity. Qed.
