(** Proofs about Model/RegFile.v: the register-file artifacts (TXTPublic,
    AMDRegisters) and byte extraction over every kind of artifact. *)
From CSS Require Import Lib.Base Model.Ranges Model.Refs Model.RegFile Proofs.Ranges Proofs.Refs.

(** ** The generalised Reference.RawBytes IS Model.Refs.ref_rawbytes on byte artifacts *)

Lemma read_mapped_g_art a total mrs : forall cur acc,
  read_mapped_g (art_readat a) total mrs cur acc = read_mapped a total mrs cur acc.
Proof.
  induction mrs as [|mr t IH]; intros cur acc; cbn [read_mapped_g read_mapped]; [reflexivity|].
  destruct (_ || _); [reflexivity|].
  destruct (art_readat a _ _); try reflexivity.
  destruct (_ =? _); [apply IH | reflexivity].
Qed.

Lemma read_ranges_g_art r total rs : forall cur acc,
  read_ranges_g (art_readat (rart r)) (zlen (acontent (rart r))) (rmap r) total rs cur acc
  = read_ranges r total rs cur acc.
Proof.
  induction rs as [|x t IH]; intros cur acc; cbn [read_ranges_g read_ranges]; [reflexivity|].
  destruct (resolve1 _ _ _); try reflexivity.
  rewrite read_mapped_g_art. destruct (read_mapped _ _ _ _ _) as [[c a']| | |]; try reflexivity. apply IH.
Qed.

Lemma gref_bytes_is_ref_rawbytes r :
  gref_rawbytes (mkGRef (GBytes (rart r)) (rmap r) (rranges r)) = ref_rawbytes r.
Proof. unfold gref_rawbytes, rawbytes_g, ref_rawbytes. cbn [gr_art gr_map gr_ranges gart_readat gart_size]. apply read_ranges_g_art. Qed.

(** ** Lists *)

Lemma zlen_app {A} (a b : list A) : zlen (a ++ b) = zlen a + zlen b.
Proof. unfold zlen. rewrite app_length. lia. Qed.
Lemma zlen_firstn {A} n (l : list A) : 0 <= n <= zlen l -> zlen (firstn (Z.to_nat n) l) = n.
Proof. unfold zlen. intros. rewrite firstn_length. lia. Qed.
Lemma zlen_skipn {A} n (l : list A) : 0 <= n <= zlen l -> zlen (skipn (Z.to_nat n) l) = zlen l - n.
Proof. unfold zlen. intros. rewrite skipn_length. lia. Qed.
Lemma firstn_app_l {A} (a b : list A) n : n = length a -> firstn n (a ++ b) = a.
Proof. intros ->. rewrite firstn_app, Nat.sub_diag, firstn_all. cbn [firstn]. apply app_nil_r. Qed.
Lemma skipn_app_l {A} (a b : list A) n : n = length a -> skipn n (a ++ b) = b.
Proof. intros ->. rewrite skipn_app, Nat.sub_diag, skipn_all. reflexivity. Qed.
Lemma firstn_zall {A} (l : list A) n : zlen l <= n -> firstn (Z.to_nat n) l = l.
Proof. unfold zlen. intros. apply firstn_all2. lia. Qed.
Lemma skipn_zall {A} (l : list A) n : zlen l <= n -> skipn (Z.to_nat n) l = [].
Proof. unfold zlen. intros. apply skipn_all2. lia. Qed.

Lemma firstn_le_eq {A} (a b : list A) n k : (n <= k)%nat -> firstn k a = firstn k b -> firstn n a = firstn n b.
Proof. intros H E. rewrite <- (Nat.min_l n k H). rewrite <- !firstn_firstn. rewrite E. reflexivity. Qed.

Lemma skipn_skipn_add {A} (l : list A) : forall x y, skipn x (skipn y l) = skipn (y + x) l.
Proof.
  induction l as [|a t IH]; intros x y; [destruct x, y; reflexivity|].
  destruct y as [|y]; [reflexivity|]. cbn [skipn Nat.add]. apply IH.
Qed.

(** ** bytesextra.ReadWriteSeeker.Write *)

(** a write into a buffer that still has room *)
Lemma bwrite_room p pos b : 0 <= pos < zlen p ->
  let n := Z.min (zlen p - pos) (zlen b) in
  bwrite p pos b = (firstn (Z.to_nat pos) p ++ firstn (Z.to_nat n) b ++ skipn (Z.to_nat (pos + n)) p,
                    pos + n, if n <? zlen b then 3 else 0).
Proof.
  intros H n. unfold bwrite. destruct (zlen p <=? pos) eqn:E; [apply Z.leb_le in E; lia | reflexivity].
Qed.

Lemma bwrite_full p pos b : zlen p <= pos -> bwrite p pos b = (p, pos, 1).
Proof. intros H. unfold bwrite. apply Z.leb_le in H. rewrite H. reflexivity. Qed.

(** never past the end of the buffer, the buffer keeps its length, what lies
    behind the new position is untouched, what was written is a prefix of [b] *)
Lemma bwrite_spec p pos b p' pos' e : 0 <= pos -> bwrite p pos b = (p', pos', e) ->
  pos <= pos' /\ (pos <= zlen p -> pos' <= zlen p) /\ zlen p' = zlen p /\
  firstn (Z.to_nat pos) p' = firstn (Z.to_nat pos) p /\
  skipn (Z.to_nat pos') p' = skipn (Z.to_nat pos') p /\
  (pos <= zlen p ->
   firstn (Z.to_nat (pos' - pos)) (skipn (Z.to_nat pos) p') = firstn (Z.to_nat (pos' - pos)) b) /\
  pos' - pos <= zlen b.
Proof.
  intros P E. pose proof (zlen_nonneg p) as Lp. pose proof (zlen_nonneg b) as Lb.
  destruct (Z_le_gt_dec (zlen p) pos) as [F|F].
  - rewrite bwrite_full in E by exact F. inversion E; subst.
    rewrite Z.sub_diag. cbn [Z.to_nat firstn]. repeat split; try reflexivity; lia.
  - rewrite bwrite_room in E by lia. set (n := Z.min (zlen p - pos) (zlen b)) in *.
    assert (N : 0 <= n <= zlen p - pos /\ n <= zlen b) by (unfold n; lia).
    inversion E; subst p' pos' e. clear E.
    assert (L1 : length (firstn (Z.to_nat pos) p) = Z.to_nat pos) by (rewrite firstn_length; unfold zlen in *; lia).
    assert (L2 : length (firstn (Z.to_nat n) b) = Z.to_nat n) by (rewrite firstn_length; unfold zlen in *; lia).
    split; [lia|]. split; [lia|]. split.
    { rewrite !zlen_app, zlen_firstn, zlen_firstn, zlen_skipn by lia. lia. }
    split. { apply firstn_app_l. symmetry. exact L1. }
    split.
    { rewrite app_assoc. apply skipn_app_l. rewrite app_length, L1, L2. lia. }
    split; [|lia].
    intros _. replace (pos + n - pos) with n by lia.
    rewrite skipn_app_l by (symmetry; exact L1). rewrite firstn_app_l by (symmetry; exact L2).
    reflexivity.
Qed.

(** ** TXTPublic.ReadAt *)

Lemma nth_error_firstn_lt {A} (l : list A) : forall n i, (i < n)%nat -> nth_error (firstn n l) i = nth_error l i.
Proof.
  induction l as [|a t IH]; intros n i H; [destruct n, i; reflexivity|].
  destruct n as [|n]; [lia|]. destruct i as [|i]; [reflexivity|]. cbn [firstn nth_error]. apply IH. lia.
Qed.
Lemma nth_error_skipn_add {A} (l : list A) : forall n i, nth_error (skipn n l) i = nth_error l (n + i).
Proof.
  induction l as [|a t IH]; intros n i; [destruct n, i; reflexivity|].
  destruct n as [|n]; [reflexivity|]. cbn [skipn Nat.add nth_error]. apply IH.
Qed.

(** what a write leaves in the part of the buffer it covered *)
Lemma bwrite_content p pos b p' pos' e : 0 <= pos <= zlen p -> bwrite p pos b = (p', pos', e) ->
  forall i, pos <= i < pos' -> nth_error p' (Z.to_nat i) = nth_error b (Z.to_nat (i - pos)).
Proof.
  intros P W i Hi.
  destruct (bwrite_spec p pos b p' pos' e (proj1 P) W) as (_ & _ & _ & _ & _ & Fw & _).
  specialize (Fw (proj2 P)).
  replace (Z.to_nat i) with (Z.to_nat pos + Z.to_nat (i - pos))%nat by lia.
  rewrite <- nth_error_skipn_add.
  rewrite <- (nth_error_firstn_lt (skipn (Z.to_nat pos) p') (Z.to_nat (pos' - pos))) by lia.
  rewrite Fw. apply nth_error_firstn_lt. lia.
Qed.

(** the error class of a write: io.EOF iff there was no room at all; without
    error the whole of [b] was written *)
Lemma bwrite_err p pos b p' pos' e : 0 <= pos -> bwrite p pos b = (p', pos', e) ->
  (zlen p <= pos -> e = 1) /\ (e = 0 -> pos < zlen p /\ pos' = pos + zlen b).
Proof.
  intros P W. pose proof (zlen_nonneg b) as Lb. destruct (Z_le_gt_dec (zlen p) pos) as [F|F].
  - rewrite bwrite_full in W by exact F. inversion W; subst. split; [reflexivity | discriminate].
  - rewrite bwrite_room in W by lia. inversion W; subst. split; [lia|].
    destruct (Z.min (zlen p - pos) (zlen b) <? zlen b) eqn:E; [discriminate|]. apply Z.ltb_ge in E. lia.
Qed.

Lemma txt_register_at_lookup regs off r :
  txt_register_at regs off = Some r <-> (txt_lookup regs off = Some r /\ g_off r = off).
Proof.
  induction regs as [|a t IH]; cbn [txt_register_at txt_lookup].
  - split; [discriminate | intros (E & _); discriminate].
  - destruct (g_off a <? 0); [split; [discriminate | intros (E & _); discriminate]|].
    destruct ((off <? g_off a) || (g_off a + txt_width a <=? off)); [exact IH|].
    destruct (off =? g_off a) eqn:A.
    + apply Z.eqb_eq in A. split.
      * intros E. inversion E as [E']. rewrite <- E'. split; [reflexivity | symmetry; exact A].
      * intros (E & _). exact E.
    + apply Z.eqb_neq in A. split; [discriminate|]. intros (E & G). inversion E as [E']. rewrite <- E' in G. congruence.
Qed.

(** the register found starts at the address, lies in the space and is at least one byte wide *)
Lemma txt_register_at_in regs off r : txt_register_at regs off = Some r ->
  In r regs /\ g_off r = off /\ 0 <= g_off r /\ 0 < txt_width r.
Proof.
  induction regs as [|a t IH]; cbn [txt_register_at]; [discriminate|].
  destruct (g_off a <? 0) eqn:N; [discriminate|]. apply Z.ltb_ge in N.
  destruct ((off <? g_off a) || (g_off a + txt_width a <=? off)) eqn:C.
  - intros E. destruct (IH E) as (I & R). split; [right; exact I | exact R].
  - apply orb_false_iff in C. destruct C as (C1 & C2). apply Z.ltb_ge in C1. apply Z.leb_gt in C2.
    destruct (off =? g_off a) eqn:A; [|discriminate]. apply Z.eqb_eq in A.
    intros E. inversion E; subst. split; [left; reflexivity|]. split; [reflexivity|]. lia.
Qed.

Section TxtLoop.
  Variable regs : list reg.
  Variable off : Z.
  (** [P a b]: byte [b] is what address [a] may deliver *)
  Variable P : Z -> Z -> Prop.
  Hypothesis HP : forall a r k b, txt_register_at regs a = Some r ->
    nth_error (g_val r) k = Some b -> P (a + Z.of_nat k) b.

  Lemma txt_loop_spec : forall fuel p pos, 0 <= pos <= zlen p ->
    (Z.to_nat (zlen p - pos) < fuel)%nat ->
    exists rd, txt_loop fuel regs p pos off = Ok rd /\
      pos <= rd_n rd <= zlen p /\ zlen (rd_p rd) = zlen p /\
      firstn (Z.to_nat pos) (rd_p rd) = firstn (Z.to_nat pos) p /\
      skipn (Z.to_nat (rd_n rd)) (rd_p rd) = skipn (Z.to_nat (rd_n rd)) p /\
      (rd_err rd = 0 -> rd_n rd = zlen p /\ pos < zlen p) /\
      (forall i, pos <= i < rd_n rd -> exists b, nth_error (rd_p rd) (Z.to_nat i) = Some b /\ P (off + i) b).
  Proof.
    induction fuel as [|k IH]; intros p pos Pp Fu; [lia|]. cbn [txt_loop].
    destruct (txt_register_at regs (off + pos)) as [r|] eqn:R.
    2:{ eexists. split; [reflexivity|]. cbn [rd_n rd_p rd_err]. repeat split; lia. }
    destruct (txt_register_at_in _ _ _ R) as (_ & _ & _ & Wr). unfold txt_width in Wr.
    destruct (bwrite p pos (g_val r)) as [[p' pos'] e] eqn:W.
    destruct (bwrite_spec p pos (g_val r) p' pos' e (proj1 Pp) W) as (N0 & N1 & L & Fp & Sp & _ & Nb).
    specialize (N1 (proj2 Pp)).
    destruct (bwrite_err p pos (g_val r) p' pos' e (proj1 Pp) W) as (E1 & E0).
    (* what this round wrote *)
    assert (Seg : forall i, pos <= i < pos' -> exists b, nth_error p' (Z.to_nat i) = Some b /\ P (off + i) b).
    { intros i Hi. rewrite (bwrite_content p pos (g_val r) p' pos' e Pp W i Hi).
      destruct (nth_error (g_val r) (Z.to_nat (i - pos))) as [b|] eqn:Nb'.
      - exists b. split; [reflexivity|]. replace (off + i) with (off + pos + Z.of_nat (Z.to_nat (i - pos))) by lia.
        eapply HP; [exact R | exact Nb'].
      - apply nth_error_None in Nb'. unfold zlen in Nb. lia. }
    destruct (negb (e =? 0) || (zlen p <=? pos')) eqn:T.
    - eexists. split; [reflexivity|]. cbn [rd_n rd_p rd_err].
      split; [lia|]. split; [exact L|]. split; [exact Fp|]. split; [exact Sp|]. split; [|exact Seg].
      intros Z0. subst e. cbn [Z.eqb negb orb] in T. apply Z.leb_le in T.
      destruct (E0 eq_refl) as (Q & _). split; lia.
    - apply orb_false_iff in T. destruct T as (T1 & T2). apply negb_false_iff, Z.eqb_eq in T1.
      apply Z.leb_gt in T2. destruct (E0 T1) as (Q & Q').
      assert (Pp' : 0 <= pos' <= zlen p') by lia.
      assert (Fu' : (Z.to_nat (zlen p' - pos') < k)%nat) by lia.
      destruct (IH p' pos' Pp' Fu') as (rd & Er & Nn & Lr & Fr & Sr & Ee & Cr).
      exists rd. split; [exact Er|]. split; [lia|]. split; [lia|]. split.
      { rewrite <- Fp. apply (firstn_le_eq _ _ _ (Z.to_nat pos')); [lia | exact Fr]. }
      split.
      { rewrite Sr. replace (Z.to_nat (rd_n rd)) with (Z.to_nat pos' + Z.to_nat (rd_n rd - pos'))%nat by lia.
        rewrite <- !skipn_skipn_add. rewrite Sp. reflexivity. }
      split; [intros Z0; destruct (Ee Z0); split; lia|].
      intros i Hi. destruct (Z_lt_ge_dec i pos') as [Lt|Ge].
      + destruct (Seg i (conj (proj1 Hi) Lt)) as (b & Hb & Pb). exists b. split; [|exact Pb].
        rewrite <- Hb. rewrite <- (nth_error_firstn_lt (rd_p rd) (Z.to_nat pos')) by lia.
        rewrite Fr. apply nth_error_firstn_lt. lia.
      + apply Cr. lia.
  Qed.
End TxtLoop.

(** TXTPublic.ReadAt always returns (the loop ends: every round that goes on
    has written at least one byte) and honours the positional-read contract of
    io.ReaderAt: never more bytes than the buffer holds, the buffer keeps its
    length and everything behind the n bytes reported is untouched, and n <
    len(p) comes with an error -- a nil error means the WHOLE buffer was filled. *)
Theorem txt_readat_positional : forall regs p off, exists rd,
  txt_readat regs p off = Ok rd /\
  0 <= rd_n rd <= zlen p /\ zlen (rd_p rd) = zlen p /\
  skipn (Z.to_nat (rd_n rd)) (rd_p rd) = skipn (Z.to_nat (rd_n rd)) p /\
  (rd_err rd = 0 -> rd_n rd = zlen p /\ 0 < zlen p).
Proof.
  intros regs p off. pose proof (zlen_nonneg p) as Lp.
  destruct (txt_loop_spec regs off (fun _ _ => True) (fun _ _ _ _ _ _ => I) (S (length p)) p 0) as (rd & E & N & L & _ & S & Ee & _).
  - lia.
  - unfold zlen. lia.
  - exists rd. split; [exact E|]. split; [exact N|]. split; [exact L|]. split; [exact S | exact Ee].
Qed.

(** a collection of TXT registers in which no two registers claim the same
    address (a register may start exactly where another one ends) *)
Definition regs_apart (a b : reg) : Prop :=
  g_off a + txt_width a <= g_off b \/ g_off b + txt_width b <= g_off a.
Definition TxtApart (regs : list reg) : Prop := ForallOrdPairs regs_apart regs.
(** ... every register inside the space and at least one byte wide *)
Definition reg_wf (r : reg) : Prop := 0 <= g_off r /\ 0 < txt_width r.
Definition TxtWF (regs : list reg) : Prop := Forall reg_wf regs /\ TxtApart regs.

(** every address of the register found belongs to that register *)
Lemma txt_register_at_cover regs : TxtApart regs -> forall a r,
  txt_register_at regs a = Some r -> forall x, a <= x < a + txt_width r -> txt_lookup regs x = Some r.
Proof.
  induction regs as [|h t IH]; intros D a r E x Hx; [discriminate|].
  inversion D as [|? ? Dh Dt]; subst. cbn [txt_register_at txt_lookup] in *.
  destruct (g_off h <? 0); [discriminate|].
  destruct ((a <? g_off h) || (g_off h + txt_width h <=? a)) eqn:C.
  - destruct (txt_register_at_in _ _ _ E) as (I & Ga & G0 & Gw).
    assert (Ap : regs_apart h r) by (rewrite Forall_forall in Dh; apply Dh; exact I).
    assert (S : (x <? g_off h) || (g_off h + txt_width h <=? x) = true).
    { apply orb_true_iff. destruct Ap as [Ap|Ap]; [right; apply Z.leb_le; lia | left; apply Z.ltb_lt; lia]. }
    rewrite S. exact (IH Dt a r E x Hx).
  - apply orb_false_iff in C. destruct C as (C1 & C2). apply Z.ltb_ge in C1. apply Z.leb_gt in C2.
    destruct (a =? g_off h) eqn:A; [|discriminate]. apply Z.eqb_eq in A. inversion E; subst r.
    assert (S : (x <? g_off h) || (g_off h + txt_width h <=? x) = false).
    { apply orb_false_iff. split; [apply Z.ltb_ge; lia | apply Z.leb_gt; lia]. }
    rewrite S. reflexivity.
Qed.

(** Whatever TXTPublic.ReadAt reports as read is bytes of the sparse register
    space: byte i of the buffer is the byte the space holds at off+i. *)
Theorem txt_readat_space : forall regs p off rd, TxtApart regs ->
  txt_readat regs p off = Ok rd ->
  forall i, 0 <= i < rd_n rd ->
  exists b, nth_error (rd_p rd) (Z.to_nat i) = Some b /\ txt_space regs (off + i) = Some b.
Proof.
  intros regs p off rd D E. pose proof (zlen_nonneg p) as Lp.
  destruct (txt_loop_spec regs off (fun a b => txt_space regs a = Some b)) with (fuel := S (length p)) (p := p) (pos := 0)
    as (rd' & E' & _ & _ & _ & _ & _ & C).
  - intros a r k b R Nb. destruct (txt_register_at_in _ _ _ R) as (_ & Ga & _ & _).
    assert (Kl : (k < length (g_val r))%nat) by (apply nth_error_Some; congruence).
    unfold txt_space. rewrite (txt_register_at_cover regs D a r R) by (unfold txt_width, zlen; lia).
    rewrite <- Nb. f_equal. lia.
  - lia.
  - unfold zlen. lia.
  - unfold txt_readat in E. rewrite E in E'. inversion E'; subst rd'. exact C.
Qed.

(** A read across a gap -- some address of [off, off+len p) that no register
    backs -- never succeeds with len(p) bytes: it reports a short count AND an
    error. *)
Theorem txt_readat_gap : forall regs p off rd, TxtApart regs ->
  txt_readat regs p off = Ok rd ->
  (exists i, 0 <= i < zlen p /\ txt_space regs (off + i) = None) ->
  rd_n rd < zlen p /\ rd_err rd <> 0.
Proof.
  intros regs p off rd D E (i & Hi & G).
  destruct (txt_readat_positional regs p off) as (rd' & E' & N & _ & _ & Ee).
  rewrite E in E'. inversion E'; subst rd'.
  assert (Lt : rd_n rd < zlen p).
  { destruct (Z_lt_ge_dec i (rd_n rd)) as [Lt|Ge]; [|lia].
    destruct (txt_readat_space regs p off rd D E i (conj (proj1 Hi) Lt)) as (b & _ & Sb). congruence. }
  split; [exact Lt|]. intros Z0. destruct (Ee Z0). lia.
Qed.

(** *** every present register, every run of present registers is readable *)

Lemma txt_register_at_present regs r : TxtWF regs -> In r regs -> txt_register_at regs (g_off r) = Some r.
Proof.
  intros (W & D). induction regs as [|a t IH]; intros I; [inversion I|].
  inversion W as [|? ? (A0 & A1) Wt]; subst. inversion D as [|? ? Da Dt]; subst.
  cbn [txt_register_at]. destruct (g_off a <? 0) eqn:N; [apply Z.ltb_lt in N; lia|].
  destruct I as [->|I].
  - destruct (g_off r <? g_off r) eqn:E1; [apply Z.ltb_lt in E1; lia|].
    destruct (g_off r + txt_width r <=? g_off r) eqn:E2; [apply Z.leb_le in E2; lia|].
    cbn [orb]. rewrite Z.eqb_refl. reflexivity.
  - assert (Wr : reg_wf r) by (rewrite Forall_forall in Wt; apply Wt; exact I).
    destruct Wr as (R0 & R1).
    assert (Ap : regs_apart a r) by (rewrite Forall_forall in Da; apply Da; exact I).
    assert (S : (g_off r <? g_off a) || (g_off a + txt_width a <=? g_off r) = true).
    { apply orb_true_iff. destruct Ap as [Ap|Ap]; [right; apply Z.leb_le; lia | left; apply Z.ltb_lt; lia]. }
    rewrite S. apply IH; assumption.
Qed.

(** a run of registers without gaps: each starts where the previous one ends *)
Fixpoint chained (a : Z) (run : list reg) : Prop :=
  match run with
  | [] => True
  | r :: t => g_off r = a /\ chained (a + txt_width r) t
  end.
Definition sum_tw (l : list reg) : Z := fold_right (fun r s => txt_width r + s) 0 l.

Lemma sum_tw_nonneg l : 0 <= sum_tw l.
Proof.
  induction l as [|r t IH]; cbn [sum_tw fold_right]; [lia|]. fold (sum_tw t).
  unfold txt_width. pose proof (zlen_nonneg (g_val r)). lia.
Qed.

Lemma txt_loop_run regs off : TxtWF regs -> forall run fuel p pos,
  (forall r, In r run -> In r regs) -> run <> [] -> chained (off + pos) run ->
  0 <= pos -> zlen p - pos = sum_tw run -> (Z.to_nat (zlen p - pos) < fuel)%nat ->
  txt_loop fuel regs p pos off
  = Ok (mkRd (zlen p) (firstn (Z.to_nat pos) p ++ concat (map g_val run)) 0).
Proof.
  intros W. induction run as [|r t IH]; intros fuel p pos Sub NE Ch P S Fu; [congruence|].
  destruct fuel as [|k]; [lia|]. destruct Ch as (Go & Ch).
  assert (Ir : In r regs) by (apply Sub; left; reflexivity).
  assert (Wr : reg_wf r) by (destruct W as (W' & _); rewrite Forall_forall in W'; apply W'; exact Ir).
  destruct Wr as (R0 & R1). cbn [sum_tw fold_right] in S. fold (sum_tw t) in S.
  pose proof (sum_tw_nonneg t) as St. unfold txt_width in *.
  cbn [txt_loop map concat]. rewrite <- Go. rewrite (txt_register_at_present regs r W Ir).
  rewrite bwrite_room by lia.
  replace (Z.min (zlen p - pos) (zlen (g_val r))) with (zlen (g_val r)) by lia.
  rewrite Z.ltb_irrefl. rewrite (firstn_zall (g_val r)) by lia. cbn [Z.eqb negb orb].
  destruct t as [|r2 t2].
  - cbn [sum_tw fold_right] in S. cbn [map concat].
    replace (zlen p <=? pos + zlen (g_val r)) with true by (symmetry; apply Z.leb_le; lia).
    rewrite skipn_zall by lia. rewrite !app_nil_r. f_equal. f_equal. lia.
  - assert (I2 : In r2 regs) by (apply Sub; right; left; reflexivity).
    assert (W2 : reg_wf r2) by (destruct W as (W' & _); rewrite Forall_forall in W'; apply W'; exact I2).
    destruct W2 as (_ & W2). unfold txt_width in W2.
    assert (Pt : 0 < sum_tw (r2 :: t2)).
    { cbn [sum_tw fold_right]. fold (sum_tw t2). pose proof (sum_tw_nonneg t2). unfold txt_width. lia. }
    replace (zlen p <=? pos + zlen (g_val r)) with false by (symmetry; apply Z.leb_gt; lia).
    set (p' := firstn (Z.to_nat pos) p ++ g_val r ++ skipn (Z.to_nat (pos + zlen (g_val r))) p).
    assert (L' : zlen p' = zlen p).
    { unfold p'. rewrite !zlen_app, zlen_firstn, zlen_skipn by lia. lia. }
    rewrite (IH k p' (pos + zlen (g_val r))).
    + rewrite L'. f_equal. f_equal.
      assert (Fp : firstn (Z.to_nat (pos + zlen (g_val r))) p' = firstn (Z.to_nat pos) p ++ g_val r).
      { unfold p'. rewrite app_assoc. apply firstn_app_l.
        rewrite app_length, firstn_length. unfold zlen in *. lia. }
      rewrite Fp. rewrite <- app_assoc. reflexivity.
    + intros x Ix. apply Sub. right. exact Ix.
    + discriminate.
    + rewrite Z.add_assoc. exact Ch.
    + lia.
    + lia.
    + lia.
Qed.

(** A read that starts at a present register and is as long as a run of present
    registers without gaps delivers exactly their values, back to back, without
    error -- whatever else the collection holds, in whatever order. *)
Theorem txt_readat_run : forall regs run p off, TxtWF regs ->
  (forall r, In r run -> In r regs) -> run <> [] -> chained off run -> zlen p = sum_tw run ->
  txt_readat regs p off = Ok (mkRd (zlen p) (concat (map g_val run)) 0).
Proof.
  intros regs run p off W Sub NE Ch L. unfold txt_readat.
  rewrite (txt_loop_run regs off W run (S (length p)) p 0 Sub NE); try lia.
  - reflexivity.
  - rewrite Z.add_0_r. exact Ch.
  - unfold zlen. lia.
Qed.

(** Every present register is readable at its address, whatever its neighbours
    and whatever its BitSize() says (TXT.PUBLIC.KEY: 256 bits, BitSize() = 0): a
    buffer of exactly its width receives exactly its value, without error. *)
Corollary txt_readat_register_exact : forall regs r, TxtWF regs -> In r regs ->
  txt_readat regs (repeat 0 (Z.to_nat (txt_width r))) (g_off r) = Ok (mkRd (txt_width r) (g_val r) 0).
Proof.
  intros regs r W I.
  assert (Wr : reg_wf r) by (destruct W as (W' & _); rewrite Forall_forall in W'; apply W'; exact I).
  destruct Wr as (R0 & R1).
  assert (Lp : zlen (repeat 0 (Z.to_nat (txt_width r))) = txt_width r) by (apply zlen_repeat; lia).
  rewrite (txt_readat_run regs [r] _ (g_off r) W).
  - rewrite Lp. cbn [map concat]. rewrite app_nil_r. reflexivity.
  - intros x [<-|[]]. exact I.
  - discriminate.
  - cbn [chained]. split; [reflexivity | trivial].
  - rewrite Lp. cbn [sum_tw fold_right]. lia.
Qed.

(** ... and a buffer that is not longer than the register receives its first
    len(p) bytes (io.ErrShortWrite when shorter, io.EOF when empty). *)
Theorem txt_readat_register : forall regs r p, TxtWF regs -> In r regs -> zlen p <= txt_width r ->
  txt_readat regs p (g_off r) = Ok (let '(p', n, e) := bwrite p 0 (g_val r) in mkRd n p' e).
Proof.
  intros regs r p W I Sh. unfold txt_readat. cbn [txt_loop]. rewrite Z.add_0_r.
  rewrite (txt_register_at_present regs r W I).
  destruct (bwrite p 0 (g_val r)) as [[p' pos'] e] eqn:Wb.
  pose proof (zlen_nonneg p) as Lp. unfold txt_width in Sh.
  destruct (Z_le_gt_dec (zlen p) 0) as [Z0|Z0].
  - rewrite bwrite_full in Wb by exact Z0. inversion Wb; subst. reflexivity.
  - rewrite bwrite_room in Wb by lia. inversion Wb; subst.
    assert (T : (zlen p <=? Z.min (zlen p - 0) (zlen (g_val r))) = true) by (apply Z.leb_le; lia).
    rewrite T, orb_true_r. reflexivity.
Qed.

(** ** Reference.RawBytes over an arbitrary artifact: what it returns *)

Section Sound.
  Variable rdat : list Z -> Z -> outcome readres.
  Variable size : Z.
  Variable m : mapper.
  (** [F off len]: what a FULL read of [len] bytes at [off] leaves in the buffer *)
  Variable F : Z -> Z -> list Z.
  Hypothesis HF : forall len off rd, 0 <= len < W64 ->
    rdat (repeat 0 (Z.to_nat len)) off = Ok rd -> rd_n rd = to_i64 len -> rd_p rd = F off len.

  Definition read_of (mr : range) : list Z := F (to_i64 (roff mr)) (rlen mr).
  Definition mapped1 (x : range) : list range :=
    match resolve1 m size x with Ok l => l | _ => [] end.

  Lemma read_mapped_g_sound total mrs : forall cur acc cur' acc', Forall inb64 mrs ->
    read_mapped_g rdat total mrs cur acc = Ok (cur', acc') ->
    acc' = acc ++ flat_map read_of mrs.
  Proof.
    induction mrs as [|mr t IH]; intros cur acc cur' acc' Fi E; cbn [read_mapped_g] in E.
    - inversion E. cbn [flat_map]. rewrite app_nil_r. reflexivity.
    - inversion Fi as [|? ? ((L0 & L1) & _) Ft]; subst.
      destruct (_ || _); [discriminate|].
      destruct (rdat _ _) as [rd| | |] eqn:R; try discriminate.
      destruct (rd_n rd =? to_i64 (rlen mr)) eqn:N; [|discriminate]. apply Z.eqb_eq in N.
      rewrite (IH _ _ _ _ Ft E). rewrite (HF _ _ _ (conj L0 L1) R N).
      cbn [flat_map]. unfold read_of at 2. rewrite app_assoc. reflexivity.
  Qed.

  Lemma read_ranges_g_sound total rs : forall cur acc bs, Forall okr rs ->
    read_ranges_g rdat size m total rs cur acc = Ok bs ->
    bs = acc ++ flat_map read_of (flat_map mapped1 rs).
  Proof.
    induction rs as [|x t IH]; intros cur acc bs Fo E; cbn [read_ranges_g] in E.
    - inversion E. cbn [flat_map]. rewrite app_nil_r. reflexivity.
    - inversion Fo as [|? ? (X0 & X1 & X2) Ft]; subst.
      cbn [flat_map]. unfold mapped1 at 1.
      destruct (resolve1 m size x) as [mrs| | |] eqn:R; try discriminate.
      destruct (read_mapped_g rdat total mrs cur acc) as [[cur' acc']| | |] eqn:M; try discriminate.
      assert (Fm : Forall inb64 mrs) by (eapply resolve1_inb64; [| |exact R]; lia).
      rewrite (read_mapped_g_sound _ _ _ _ _ _ Fm M) in E.
      rewrite (IH _ _ _ Ft E). rewrite flat_map_app, app_assoc. reflexivity.
  Qed.

  (** the bytes of a reference: the resolved ranges of its sorted-merged ranges, read in that order *)
  Theorem rawbytes_g_sound rs bs : Forall okr rs -> rawbytes_g rdat size m rs = Ok bs ->
    bs = flat_map read_of (flat_map mapped1 (ranges_sm rs)).
  Proof.
    intros O E. unfold rawbytes_g in E. apply read_ranges_g_sound in E; [exact E | apply ranges_sm_sep; exact O].
  Qed.

  Lemma read_mapped_g_no_err total mrs : forall cur acc,
    (exists v, read_mapped_g rdat total mrs cur acc = Ok v) \/ read_mapped_g rdat total mrs cur acc = Panic.
  Proof.
    induction mrs as [|mr t IH]; intros cur acc; cbn [read_mapped_g]; [left; eexists; reflexivity|].
    destruct (_ || _); [right; reflexivity|].
    destruct (rdat _ _); try (right; reflexivity).
    destruct (_ =? _); [apply IH | right; reflexivity].
  Qed.
  (** bytes or a panic, never an error value *)
  Lemma rawbytes_g_no_err rs : (exists v, rawbytes_g rdat size m rs = Ok v) \/ rawbytes_g rdat size m rs = Panic.
  Proof.
    unfold rawbytes_g. generalize (total_len (ranges_sm rs)) as total, 0 as cur, (@nil Z) as acc.
    induction (ranges_sm rs) as [|x t IH]; intros total cur acc; cbn [read_ranges_g]; [left; eexists; reflexivity|].
    destruct (resolve1 _ _ _) as [mrs| | |]; try (right; reflexivity).
    destruct (read_mapped_g_no_err total mrs cur acc) as [((c & v) & ->) | ->]; [apply IH | right; reflexivity].
  Qed.
End Sound.

(** *** TXT register file: a full read delivers the bytes of the register space *)

Definition txt_full (regs : list reg) (off len : Z) : list Z :=
  map (fun a => match txt_space regs a with Some b => b | None => 0 end) (seqZ off (Z.to_nat len)).

Lemma seqZ_length s n : length (seqZ s n) = n.
Proof. revert s. induction n as [|n IH]; intros s; cbn [seqZ length]; [reflexivity | f_equal; apply IH]. Qed.
Lemma seqZ_nth s n : forall i, (i < n)%nat -> nth_error (seqZ s n) i = Some (s + Z.of_nat i).
Proof.
  revert s. induction n as [|n IH]; intros s i H; [lia|]. destruct i as [|i]; cbn [seqZ nth_error].
  - f_equal. lia.
  - rewrite IH by lia. f_equal. lia.
Qed.
Lemma nth_error_ext {A} (l1 : list A) : forall l2, length l1 = length l2 ->
  (forall i, (i < length l1)%nat -> nth_error l1 i = nth_error l2 i) -> l1 = l2.
Proof.
  induction l1 as [|a t IH]; intros [|b u] L H; cbn [length] in L; try discriminate; [reflexivity|].
  assert (H0 := H 0%nat). cbn [nth_error length] in H0. assert (a = b) by (assert (Some a = Some b) by (apply H0; lia); congruence).
  subst b. f_equal. apply IH; [lia|]. intros i Hi. apply (H (S i)). cbn [length]. lia.
Qed.

Lemma txt_full_read regs : TxtApart regs -> forall len off rd, 0 <= len < W64 ->
  txt_readat regs (repeat 0 (Z.to_nat len)) off = Ok rd -> rd_n rd = to_i64 len ->
  rd_p rd = txt_full regs off len.
Proof.
  intros D len off rd L E N. set (p := repeat 0 (Z.to_nat len)) in *.
  assert (Lp : zlen p = len) by (apply zlen_repeat; lia).
  destruct (txt_readat_positional regs p off) as (rd' & E' & N0 & Lp' & _).
  rewrite E in E'. inversion E'; subst rd'.
  destruct (to_i64_nonneg len L) as (El & _); [lia|].
  assert (Nl : rd_n rd = len) by congruence.
  apply nth_error_ext.
  - unfold txt_full. rewrite map_length, seqZ_length. unfold zlen in *. lia.
  - intros i Hi.
    destruct (txt_readat_space regs p off rd D E (Z.of_nat i)) as (b & Hb & Sb); [unfold zlen in *; lia|].
    rewrite Nat2Z.id in Hb. rewrite Hb. unfold txt_full.
    rewrite nth_error_map, seqZ_nth by (unfold zlen in *; lia). cbn [option_map]. rewrite Sb. reflexivity.
Qed.

(** If a reference to a TXT register file has bytes, they are -- merged range by
    merged range, through the address space -- the bytes the sparse register
    space holds at the resolved offsets: nothing but register content is ever
    delivered. *)
Theorem txt_bytes_sound : forall regs m rs bs, TxtApart regs -> Forall okr rs ->
  rawbytes_g (txt_readat regs) txt_size m rs = Ok bs ->
  bs = flat_map (fun mr => txt_full regs (to_i64 (roff mr)) (rlen mr))
                (flat_map (mapped1 txt_size m) (ranges_sm rs)).
Proof.
  intros regs m rs bs D O E.
  exact (rawbytes_g_sound (txt_readat regs) txt_size m (txt_full regs) (txt_full_read regs D) rs bs O E).
Qed.

(** A reference whose ONE range covers a run of present registers without gaps
    (what Reference.RawBytes makes of adjacent ranges) has the bytes of those
    registers, back to back. *)
Theorem txt_reference_run : forall regs run off, TxtWF regs ->
  (forall r, In r run -> In r regs) -> run <> [] -> chained off run ->
  0 <= off -> off + sum_tw run < 9223372036854775808 ->
  rawbytes_g (txt_readat regs) txt_size MNil [mkR off (sum_tw run)] = Ok (concat (map g_val run)).
Proof.
  intros regs run off W Sub NE Ch O B. pose proof (sum_tw_nonneg run) as S0.
  unfold rawbytes_g. change (ranges_sm [mkR off (sum_tw run)]) with [mkR off (sum_tw run)].
  cbn [total_len fold_left read_ranges_g resolve1 read_mapped_g roff rlen].
  assert (Wl : wrap64 (0 + sum_tw run) = sum_tw run).
  { rewrite wrap64_mod. apply Z.mod_small. unfold W64. lia. }
  rewrite Wl. rewrite Z.ltb_irrefl.
  destruct (sum_tw run <? 0) eqn:E0; [apply Z.ltb_lt in E0; lia|]. cbn [orb].
  assert (To : to_i64 off = off).
  { unfold to_i64. destruct (off <? 9223372036854775808) eqn:E; [reflexivity | apply Z.ltb_ge in E; lia]. }
  assert (Tl : to_i64 (sum_tw run) = sum_tw run).
  { unfold to_i64. destruct (sum_tw run <? 9223372036854775808) eqn:E; [reflexivity | apply Z.ltb_ge in E; lia]. }
  rewrite To, Tl.
  assert (Lp : zlen (repeat 0 (Z.to_nat (sum_tw run))) = sum_tw run) by (apply zlen_repeat; lia).
  rewrite (txt_readat_run regs run _ off W Sub NE Ch) by exact Lp. cbn [rd_n rd_p].
  rewrite Lp, Z.eqb_refl. reflexivity.
Qed.

(** A reference to exactly one present register has the bytes of that register. *)
Corollary txt_reference_one_register : forall regs r, TxtWF regs -> In r regs ->
  g_off r + txt_width r < 9223372036854775808 ->
  rawbytes_g (txt_readat regs) txt_size MNil [mkR (g_off r) (txt_width r)] = Ok (g_val r).
Proof.
  intros regs r W I B.
  assert (Wr : reg_wf r) by (destruct W as (W' & _); rewrite Forall_forall in W'; apply W'; exact I).
  destruct Wr as (R0 & R1).
  replace (txt_width r) with (sum_tw [r]) by (cbn [sum_tw fold_right]; lia).
  rewrite (txt_reference_run regs [r] (g_off r) W).
  - cbn [map concat]. apply f_equal, app_nil_r.
  - intros x [<-|[]]. exact I.
  - discriminate.
  - cbn [chained]. split; [reflexivity | trivial].
  - exact R0.
  - cbn [sum_tw fold_right]. lia.
Qed.

(** two adjacent ranges, in either order, are one range after Ranges.SortAndMerge *)
Lemma ranges_sm_neighbours a b : 0 <= roff a -> 0 < rlen a -> 0 <= rlen b ->
  roff b = roff a + rlen a -> roff a + rlen a + rlen b < W64 ->
  ranges_sm [a; b] = [mkR (roff a) (rlen a + rlen b)] /\ ranges_sm [b; a] = [mkR (roff a) (rlen a + rlen b)].
Proof.
  intros A0 A1 B0 Nb Bd.
  assert (Ws : forall z, 0 <= z < W64 -> wrap64 z = z) by (intros z Hz; rewrite wrap64_mod; apply Z.mod_small; exact Hz).
  assert (M : merge_ranges [a; b] = [mkR (roff a) (rlen a + rlen b)]).
  { cbn [merge_ranges merge_go]. unfold rend. rewrite (Ws (roff a + rlen a)) by lia.
    replace (roff b <=? roff a + rlen a) with true by (symmetry; apply Z.leb_le; lia).
    rewrite (Ws (roff b + rlen b)) by lia. f_equal. f_equal. rewrite Ws by lia. lia. }
  unfold ranges_sm, sort_off. cbn [fold_right ins_off].
  replace (roff a <=? roff b) with true by (symmetry; apply Z.leb_le; lia).
  replace (roff b <=? roff a) with false by (symmetry; apply Z.leb_gt; lia).
  split; exact M.
Qed.

(** ONE reference naming two present registers that are neighbours in the
    register space -- two ranges, in either order -- has the bytes of the lower
    one followed by the bytes of the upper one (the former finding
    C11-TXTPublic-neighbouring-registers-one-reference, repaired in /repo
    9b9036f). *)
Theorem txt_reference_neighbours : forall regs r1 r2, TxtWF regs -> In r1 regs -> In r2 regs ->
  g_off r2 = g_off r1 + txt_width r1 -> g_off r2 + txt_width r2 < 9223372036854775808 ->
  rawbytes_g (txt_readat regs) txt_size MNil [mkR (g_off r1) (txt_width r1); mkR (g_off r2) (txt_width r2)]
    = Ok (g_val r1 ++ g_val r2) /\
  rawbytes_g (txt_readat regs) txt_size MNil [mkR (g_off r2) (txt_width r2); mkR (g_off r1) (txt_width r1)]
    = Ok (g_val r1 ++ g_val r2).
Proof.
  intros regs r1 r2 W I1 I2 Nb B.
  assert (W1 : reg_wf r1) by (destruct W as (W' & _); rewrite Forall_forall in W'; apply W'; exact I1).
  assert (W2 : reg_wf r2) by (destruct W as (W' & _); rewrite Forall_forall in W'; apply W'; exact I2).
  destruct W1 as (A0 & A1). destruct W2 as (B0 & B1).
  destruct (ranges_sm_neighbours (mkR (g_off r1) (txt_width r1)) (mkR (g_off r2) (txt_width r2))) as (S1 & S2);
    cbn [roff rlen]; try (unfold W64; lia).
  assert (G : rawbytes_g (txt_readat regs) txt_size MNil [mkR (g_off r1) (sum_tw [r1; r2])] = Ok (concat (map g_val [r1; r2]))).
  { apply txt_reference_run; try assumption.
    - intros x [<-|[<-|[]]]; assumption.
    - discriminate.
    - cbn [chained]. split; [reflexivity|]. split; [exact Nb | trivial].
    - cbn [sum_tw fold_right]. lia. }
  cbn [sum_tw fold_right map concat] in G. rewrite Z.add_0_r, app_nil_r in G.
  unfold rawbytes_g in *. cbn [roff rlen] in S1, S2. rewrite S1, S2.
  change (ranges_sm [mkR (g_off r1) (txt_width r1 + txt_width r2)]) with [mkR (g_off r1) (txt_width r1 + txt_width r2)] in G.
  split; exact G.
Qed.

(** ** AMDRegisters.ReadAt *)

(** the loop once curOffset = offset: every remaining register is written *)
Fixpoint amd_write (regs : list reg) (p : list Z) (pos : Z) : outcome readres :=
  match regs with
  | [] => Ok (mkRd 0 p 2)
  | r :: t =>
      let '(p', pos', e) := bwrite p pos (g_val r) in
      if zlen p <=? pos' then Ok (mkRd pos' p' e) else amd_write t p' pos'
  end.

Lemma amd_loop_matched regs : forall p pos off, amd_loop regs p pos off off = amd_write regs p pos.
Proof.
  induction regs as [|r t IH]; intros p pos off; cbn [amd_loop amd_write]; [reflexivity|].
  rewrite Z.eqb_refl. cbn [negb]. destruct (bwrite p pos (g_val r)) as [[p' pos'] e].
  destruct (zlen p <=? pos'); [reflexivity | apply IH].
Qed.

Lemma amd_from_matched regs : forall off, amd_from regs off off = concat (map g_val regs).
Proof.
  induction regs as [|r t IH]; intros off; cbn [amd_from map concat]; [reflexivity|].
  rewrite Z.eqb_refl, IH. reflexivity.
Qed.

(** what the writing phase returns: either the buffer is full -- then all of it
    from [pos] on is the values of the registers, back to back -- or the
    registers ran out: (0, error) *)
Lemma amd_write_spec regs : forall p pos rd, 0 <= pos <= zlen p ->
  amd_write regs p pos = Ok rd ->
  zlen (rd_p rd) = zlen p /\ firstn (Z.to_nat pos) (rd_p rd) = firstn (Z.to_nat pos) p /\
  ((rd_n rd = 0 /\ rd_err rd = 2) \/
   (rd_n rd = zlen p /\
    skipn (Z.to_nat pos) (rd_p rd) = firstn (Z.to_nat (zlen p - pos)) (concat (map g_val regs)) /\
    zlen p - pos <= zlen (concat (map g_val regs)))).
Proof.
  induction regs as [|r t IH]; intros p pos rd P E; cbn [amd_write] in E.
  - inversion E; subst. cbn [rd_n rd_p rd_err]. split; [reflexivity|]. split; [reflexivity|]. left. split; reflexivity.
  - destruct (bwrite p pos (g_val r)) as [[p' pos'] e] eqn:W.
    destruct (bwrite_spec p pos (g_val r) p' pos' e (proj1 P) W) as (N0 & N1 & L & Fp & Sp & Fw & Nb).
    specialize (N1 (proj2 P)). specialize (Fw (proj2 P)).
    cbn [map concat]. pose proof (zlen_nonneg (concat (map g_val t))) as Lc.
    destruct (zlen p <=? pos') eqn:Full.
    + apply Z.leb_le in Full. assert (pos' = zlen p) by lia. subst pos'.
      inversion E; subst rd. cbn [rd_n rd_p rd_err]. split; [exact L|]. split; [exact Fp|].
      right. split; [reflexivity|]. rewrite zlen_app. split; [|lia].
      rewrite firstn_app.
      replace (Z.to_nat (zlen p - pos) - length (g_val r))%nat with 0%nat by (unfold zlen in *; lia).
      cbn [firstn]. rewrite app_nil_r. rewrite <- Fw.
      symmetry. apply firstn_all2. rewrite skipn_length. unfold zlen in *. lia.
    + apply Z.leb_gt in Full.
      assert (P' : 0 <= pos' <= zlen p') by lia.
      destruct (IH p' pos' rd P' E) as (L' & F' & H). split; [lia|]. split.
      { rewrite <- Fp. apply (firstn_le_eq _ _ _ (Z.to_nat pos')); [lia | exact F']. }
      destruct H as [H|(Hn & Hs & Hl)]; [left; exact H|]. right. rewrite L in *.
      split; [exact Hn|]. rewrite zlen_app. split; [|lia].
      (* the written part: [pos, pos') from this register, [pos', len) from the rest *)
      assert (Split : skipn (Z.to_nat pos) (rd_p rd) =
                firstn (Z.to_nat (pos' - pos)) (skipn (Z.to_nat pos) (rd_p rd)) ++ skipn (Z.to_nat pos') (rd_p rd)).
      { rewrite <- (firstn_skipn (Z.to_nat (pos' - pos)) (skipn (Z.to_nat pos) (rd_p rd))) at 1.
        rewrite skipn_skipn_add. do 2 f_equal. lia. }
      rewrite Split, Hs.
      assert (Wr : firstn (Z.to_nat (pos' - pos)) (skipn (Z.to_nat pos) (rd_p rd)) = g_val r).
      { (* the register was written in full: the buffer was not full afterwards *)
        assert (Wn : pos' - pos = zlen (g_val r)).
        { destruct (Z_le_gt_dec (zlen p) pos) as [G|G]; [lia|].
          rewrite bwrite_room in W by lia. inversion W. lia. }
        assert (Eq : firstn (Z.to_nat (pos' - pos)) (skipn (Z.to_nat pos) (rd_p rd))
                     = firstn (Z.to_nat (pos' - pos)) (skipn (Z.to_nat pos) p')).
        { assert (G : forall l : list Z, firstn (Z.to_nat (pos' - pos)) (skipn (Z.to_nat pos) l)
                       = skipn (Z.to_nat pos) (firstn (Z.to_nat pos') l)).
          { intros l. rewrite firstn_skipn_comm. do 2 f_equal. lia. }
          rewrite !G, F'. reflexivity. }
        rewrite Eq, Fw, Wn. apply firstn_zall. lia. }
      rewrite Wr. rewrite firstn_app.
      assert (Wn : pos' - pos = zlen (g_val r)).
      { destruct (Z_le_gt_dec (zlen p) pos) as [G|G]; [lia|].
        rewrite bwrite_room in W by lia. inversion W. lia. }
      rewrite (@firstn_all2 _ _ (g_val r)) by (unfold zlen in *; lia). f_equal. f_equal. unfold zlen in *. lia.
Qed.

(** Positional-read contract of the AMD register file: never more bytes than the
    buffer holds; when bytes are reported, the WHOLE buffer was filled with the
    values of the registers laid out back to back from the one that starts at
    [off] on. *)
Lemma amd_loop_positional regs : forall cur p off rd,
  amd_loop regs p 0 cur off = Ok rd ->
  0 <= rd_n rd <= zlen p /\ zlen (rd_p rd) = zlen p /\
  (0 < rd_n rd -> rd_n rd = zlen p /\ rd_p rd = firstn (Z.to_nat (zlen p)) (amd_from regs cur off)).
Proof.
  induction regs as [|r t IH]; intros cur p off rd E.
  - cbn [amd_loop] in E. inversion E; subst. cbn [rd_n rd_p]. pose proof (zlen_nonneg p).
    split; [lia|]. split; [reflexivity|]. intros X. lia.
  - destruct (Z.eq_dec cur off) as [C|C].
    + subst cur. rewrite amd_loop_matched in E. rewrite amd_from_matched.
      pose proof (zlen_nonneg p) as Lp.
      destruct (amd_write_spec (r :: t) p 0 rd (conj (Z.le_refl 0) Lp) E) as (L & _ & H).
      destruct H as [(N & _)|(N & S & _)].
      * rewrite N. split; [lia|]. split; [exact L|]. intros X. lia.
      * rewrite Z.sub_0_r in S. cbn [Z.to_nat skipn] in S. split; [lia|]. split; [exact L|].
        intros _. split; [exact N | exact S].
    + cbn [amd_loop amd_from] in *. apply Z.eqb_neq in C. rewrite C in *. cbn [negb] in E.
      apply IH. exact E.
Qed.

Theorem amd_readat_positional : forall regs p off rd,
  amd_readat regs p off = Ok rd ->
  0 <= rd_n rd <= zlen p /\ zlen (rd_p rd) = zlen p /\
  (0 < rd_n rd -> rd_n rd = zlen p /\ rd_p rd = firstn (Z.to_nat (zlen p)) (amd_from regs 0 off)).
Proof. intros regs p off rd. apply amd_loop_positional. Qed.

(** a collection as amdregisters.New makes it: every register has a width > 0
    and its value is that wide *)
Definition amd_wf (r : reg) : Prop := 0 < amd_width r /\ zlen (g_val r) = amd_width r.
Definition sum_width (l : list reg) : Z := fold_right (fun r s => amd_width r + s) 0 l.

Lemma sum_width_nonneg l : Forall amd_wf l -> 0 <= sum_width l.
Proof. induction 1 as [|r t (W & _) _ IH]; cbn [sum_width fold_right]; [lia | fold (sum_width t); lia]. Qed.

Lemma amd_write_run mid : forall post p pos, Forall amd_wf mid -> mid <> [] ->
  0 <= pos -> zlen p - pos = sum_width mid ->
  amd_write (mid ++ post) p pos
  = Ok (mkRd (zlen p) (firstn (Z.to_nat pos) p ++ concat (map g_val mid)) 0).
Proof.
  induction mid as [|r t IH]; intros post p pos W NE P S; [congruence|].
  inversion W as [|? ? (W0 & W1) Wt]; subst. cbn [sum_width fold_right] in S. fold (sum_width t) in S.
  pose proof (sum_width_nonneg t Wt) as St.
  cbn [app amd_write map concat].
  rewrite bwrite_room by lia. rewrite W1.
  replace (Z.min (zlen p - pos) (amd_width r)) with (amd_width r) by lia.
  rewrite Z.ltb_irrefl. rewrite <- W1. rewrite (firstn_zall (g_val r)) by lia.
  destruct t as [|r2 t2].
  - cbn [sum_width fold_right] in S. cbn [app map concat].
    replace (zlen p <=? pos + zlen (g_val r)) with true by (symmetry; apply Z.leb_le; lia).
    rewrite skipn_zall by lia. rewrite !app_nil_r. f_equal. f_equal. lia.
  - assert (Pt : 0 < sum_width (r2 :: t2)).
    { inversion Wt as [|? ? (V0 & _) Wt2]; subst. cbn [sum_width fold_right]. fold (sum_width t2).
      pose proof (sum_width_nonneg t2 Wt2). lia. }
    replace (zlen p <=? pos + zlen (g_val r)) with false by (symmetry; apply Z.leb_gt; lia).
    set (p' := firstn (Z.to_nat pos) p ++ g_val r ++ skipn (Z.to_nat (pos + zlen (g_val r))) p).
    assert (L' : zlen p' = zlen p).
    { unfold p'. rewrite !zlen_app, zlen_firstn, zlen_skipn by lia. lia. }
    rewrite (IH post p' (pos + zlen (g_val r))); [|exact Wt | discriminate | lia | lia].
    rewrite L'. f_equal. f_equal.
    assert (Fp : firstn (Z.to_nat (pos + zlen (g_val r))) p' = firstn (Z.to_nat pos) p ++ g_val r).
    { unfold p'. rewrite app_assoc. apply firstn_app_l.
      rewrite app_length, firstn_length. unfold zlen in *. lia. }
    rewrite Fp. rewrite <- app_assoc. reflexivity.
Qed.

(** A read that starts where a register starts and is as long as a run of
    registers delivers exactly their values, back to back, without error (this is
    what a reference to MP0_C2P_MSG_37 and MP0_C2P_MSG_38 -- two adjacent ranges,
    merged into one by Reference.RawBytes -- relies on). *)
Theorem amd_readat_run : forall pre mid post p, Forall amd_wf (pre ++ mid ++ post) -> mid <> [] ->
  zlen p = sum_width mid ->
  amd_readat (pre ++ mid ++ post) p (sum_width pre)
  = Ok (mkRd (zlen p) (concat (map g_val mid)) 0).
Proof.
  intros pre mid post p W NE L. unfold amd_readat.
  assert (G : forall cur, amd_loop (pre ++ mid ++ post) p 0 cur (cur + sum_width pre)
                          = amd_write (mid ++ post) p 0).
  { induction pre as [|r t IH]; intros cur.
    - cbn [app sum_width fold_right]. rewrite Z.add_0_r. apply amd_loop_matched.
    - cbn [app] in W. inversion W as [|? ? (W0 & _) Wt]; subst.
      assert (St : 0 <= sum_width t).
      { apply sum_width_nonneg. apply Forall_app in Wt. apply Wt. }
      cbn [app amd_loop sum_width fold_right]. fold (sum_width t).
      replace (cur =? cur + (amd_width r + sum_width t)) with false by (symmetry; apply Z.eqb_neq; lia).
      cbn [negb]. rewrite <- (IH Wt (cur + amd_width r)). f_equal. lia. }
  rewrite <- (Z.add_0_l (sum_width pre)). rewrite G.
  apply Forall_app in W. destruct W as (_ & W). apply Forall_app in W. destruct W as (Wm & _).
  rewrite (amd_write_run mid post p 0 Wm NE (Z.le_refl 0)) by lia. reflexivity.
Qed.

(** *** AMD register file: what a reference's bytes are *)

Definition amd_full (regs : list reg) (off len : Z) : list Z :=
  firstn (Z.to_nat len) (amd_from regs 0 off).

Lemma amd_full_read regs len off rd : 0 <= len < W64 ->
  amd_readat regs (repeat 0 (Z.to_nat len)) off = Ok rd -> rd_n rd = to_i64 len ->
  rd_p rd = amd_full regs off len.
Proof.
  intros L E N. set (p := repeat 0 (Z.to_nat len)) in *.
  assert (Lp : zlen p = len) by (apply zlen_repeat; lia).
  destruct (amd_readat_positional regs p off rd E) as (N0 & Lp' & H).
  destruct (Z_le_gt_dec (rd_n rd) 0) as [Z0|Pn].
  - assert (Hn : rd_n rd = 0) by lia. assert (Hl : len = 0) by (apply to_i64_zero; [lia | congruence]).
    assert (P0 : rd_p rd = []).
    { destruct (rd_p rd) as [|b l]; [reflexivity|]. unfold zlen in *. cbn [length] in Lp'. lia. }
    rewrite P0. unfold amd_full. rewrite Hl. reflexivity.
  - apply Z.gt_lt in Pn. destruct (H Pn) as (_ & ->). unfold amd_full. rewrite Lp. reflexivity.
Qed.

(** If a reference to an AMD register file has bytes, every resolved range
    starts at a register and holds the values of the registers from there on,
    back to back. *)
Theorem amd_bytes_sound : forall regs m rs bs, Forall okr rs ->
  rawbytes_g (amd_readat regs) (amd_size regs) m rs = Ok bs ->
  bs = flat_map (fun mr => amd_full regs (to_i64 (roff mr)) (rlen mr))
                (flat_map (mapped1 (amd_size regs) m) (ranges_sm rs)).
Proof.
  intros regs m rs bs O E.
  exact (rawbytes_g_sound (amd_readat regs) (amd_size regs) m (amd_full regs) (amd_full_read regs) rs bs O E).
Qed.

(** ** Lists over artifacts of every kind: concatenation in list order *)

Lemma grefs_rawbytes_concat s bs :
  grefs_rawbytes s = Ok bs <->
  exists parts, Forall2 (fun r b => gref_rawbytes r = Ok b) s parts /\ bs = concat parts.
Proof.
  revert bs. induction s as [|r t IH]; intros bs; cbn [grefs_rawbytes].
  - split.
    + intros E. inversion E. exists []. split; [constructor | reflexivity].
    + intros (parts & F & ->). inversion F. reflexivity.
  - split.
    + intros E. destruct (gref_rawbytes r) as [a| | |] eqn:Er; try discriminate. cbn [bind] in E.
      destruct (grefs_rawbytes t) as [b| | |] eqn:Et; try discriminate. cbn [bind] in E. inversion E.
      destruct (proj1 (IH b) eq_refl) as (parts & F & ->).
      exists (a :: parts). split; [constructor; assumption | reflexivity].
    + intros (parts & F & ->). inversion F as [|? b ? ps Hr Ft]; subst. rewrite Hr. cbn [bind].
      rewrite (proj2 (IH (concat ps))); [reflexivity|]. exists ps. split; [assumption | reflexivity].
Qed.

Lemma gref_rawbytes_no_err r : (exists v, gref_rawbytes r = Ok v) \/ gref_rawbytes r = Panic.
Proof. apply rawbytes_g_no_err. Qed.
