(** Proofs about Model/RegFile.v: the register-file artifacts (TXTPublic,
    AMDRegisters) and byte extraction over every kind of artifact. *)
From CSS Require Import Lib.Base Model.Ranges Model.Refs Model.RegFile Proofs.Ranges Proofs.Refs.

(** ** The generalised Reference.RawBytes IS Model.Refs.ref_rawbytes on byte artifacts *)

Lemma read_mapped_g_art a total mrs : forall cur acc,
  read_mapped_g (art_readat a) total mrs cur acc = read_mapped a total mrs cur acc.
Proof.
  induction mrs as [|mr t IH]; intros cur acc; cbn [read_mapped_g read_mapped]; [reflexivity|].
  destruct (_ || _); [reflexivity|].
  destruct (art_readat a _ _); try reflexivity.
  destruct (_ =? _); [apply IH | reflexivity].
Qed.

Lemma read_ranges_g_art r total rs : forall cur acc,
  read_ranges_g (art_readat (rart r)) (zlen (acontent (rart r))) (rmap r) total rs cur acc
  = read_ranges r total rs cur acc.
Proof.
  induction rs as [|x t IH]; intros cur acc; cbn [read_ranges_g read_ranges]; [reflexivity|].
  destruct (resolve1 _ _ _); try reflexivity.
  rewrite read_mapped_g_art. destruct (read_mapped _ _ _ _ _) as [[c a']| | |]; try reflexivity. apply IH.
Qed.

Lemma gref_bytes_is_ref_rawbytes r :
  gref_rawbytes (mkGRef (GBytes (rart r)) (rmap r) (rranges r)) = ref_rawbytes r.
Proof. unfold gref_rawbytes, rawbytes_g, ref_rawbytes. cbn [gr_art gr_map gr_ranges gart_readat gart_size]. apply read_ranges_g_art. Qed.

(** ** Lists *)

Lemma zlen_app {A} (a b : list A) : zlen (a ++ b) = zlen a + zlen b.
Proof. unfold zlen. rewrite app_length. lia. Qed.
Lemma zlen_firstn {A} n (l : list A) : 0 <= n <= zlen l -> zlen (firstn (Z.to_nat n) l) = n.
Proof. unfold zlen. intros. rewrite firstn_length. lia. Qed.
Lemma zlen_skipn {A} n (l : list A) : 0 <= n <= zlen l -> zlen (skipn (Z.to_nat n) l) = zlen l - n.
Proof. unfold zlen. intros. rewrite skipn_length. lia. Qed.
Lemma firstn_app_l {A} (a b : list A) n : n = length a -> firstn n (a ++ b) = a.
Proof. intros ->. rewrite firstn_app, Nat.sub_diag, firstn_all. cbn [firstn]. apply app_nil_r. Qed.
Lemma skipn_app_l {A} (a b : list A) n : n = length a -> skipn n (a ++ b) = b.
Proof. intros ->. rewrite skipn_app, Nat.sub_diag, skipn_all. reflexivity. Qed.
Lemma firstn_zall {A} (l : list A) n : zlen l <= n -> firstn (Z.to_nat n) l = l.
Proof. unfold zlen. intros. apply firstn_all2. lia. Qed.
Lemma skipn_zall {A} (l : list A) n : zlen l <= n -> skipn (Z.to_nat n) l = [].
Proof. unfold zlen. intros. apply skipn_all2. lia. Qed.

Lemma firstn_le_eq {A} (a b : list A) n k : (n <= k)%nat -> firstn k a = firstn k b -> firstn n a = firstn n b.
Proof. intros H E. rewrite <- (Nat.min_l n k H). rewrite <- !firstn_firstn. rewrite E. reflexivity. Qed.

Lemma skipn_skipn_add {A} (l : list A) : forall x y, skipn x (skipn y l) = skipn (y + x) l.
Proof.
  induction l as [|a t IH]; intros x y; [destruct x, y; reflexivity|].
  destruct y as [|y]; [reflexivity|]. cbn [skipn Nat.add]. apply IH.
Qed.

(** ** bytesextra.ReadWriteSeeker.Write *)

(** a write into a buffer that still has room *)
Lemma bwrite_room p pos b : 0 <= pos < zlen p ->
  let n := Z.min (zlen p - pos) (zlen b) in
  bwrite p pos b = (firstn (Z.to_nat pos) p ++ firstn (Z.to_nat n) b ++ skipn (Z.to_nat (pos + n)) p,
                    pos + n, if n <? zlen b then 3 else 0).
Proof.
  intros H n. unfold bwrite. destruct (zlen p <=? pos) eqn:E; [apply Z.leb_le in E; lia | reflexivity].
Qed.

Lemma bwrite_full p pos b : zlen p <= pos -> bwrite p pos b = (p, pos, 1).
Proof. intros H. unfold bwrite. apply Z.leb_le in H. rewrite H. reflexivity. Qed.

(** never past the end of the buffer, the buffer keeps its length, what lies
    behind the new position is untouched, what was written is a prefix of [b] *)
Lemma bwrite_spec p pos b p' pos' e : 0 <= pos -> bwrite p pos b = (p', pos', e) ->
  pos <= pos' /\ (pos <= zlen p -> pos' <= zlen p) /\ zlen p' = zlen p /\
  firstn (Z.to_nat pos) p' = firstn (Z.to_nat pos) p /\
  skipn (Z.to_nat pos') p' = skipn (Z.to_nat pos') p /\
  (pos <= zlen p ->
   firstn (Z.to_nat (pos' - pos)) (skipn (Z.to_nat pos) p') = firstn (Z.to_nat (pos' - pos)) b) /\
  pos' - pos <= zlen b.
Proof.
  intros P E. pose proof (zlen_nonneg p) as Lp. pose proof (zlen_nonneg b) as Lb.
  destruct (Z_le_gt_dec (zlen p) pos) as [F|F].
  - rewrite bwrite_full in E by exact F. inversion E; subst.
    rewrite Z.sub_diag. cbn [Z.to_nat firstn]. repeat split; try reflexivity; lia.
  - rewrite bwrite_room in E by lia. set (n := Z.min (zlen p - pos) (zlen b)) in *.
    assert (N : 0 <= n <= zlen p - pos /\ n <= zlen b) by (unfold n; lia).
    inversion E; subst p' pos' e. clear E.
    assert (L1 : length (firstn (Z.to_nat pos) p) = Z.to_nat pos) by (rewrite firstn_length; unfold zlen in *; lia).
    assert (L2 : length (firstn (Z.to_nat n) b) = Z.to_nat n) by (rewrite firstn_length; unfold zlen in *; lia).
    split; [lia|]. split; [lia|]. split.
    { rewrite !zlen_app, zlen_firstn, zlen_firstn, zlen_skipn by lia. lia. }
    split. { apply firstn_app_l. symmetry. exact L1. }
    split.
    { rewrite app_assoc. apply skipn_app_l. rewrite app_length, L1, L2. lia. }
    split; [|lia].
    intros _. replace (pos + n - pos) with n by lia.
    rewrite skipn_app_l by (symmetry; exact L1). rewrite firstn_app_l by (symmetry; exact L2).
    reflexivity.
Qed.

(** ** TXTPublic.ReadAt *)

(** Positional-read contract of the TXT register file: never more bytes than the
    buffer holds; the rest of the buffer is untouched; whatever is reported as read
    starts at the address of the first register of the collection that contains
    [off], and is a prefix of that register's value. *)
Theorem txt_readat_positional : forall regs p off rd,
  txt_readat regs p off = Ok rd ->
  0 <= rd_n rd <= zlen p /\ zlen (rd_p rd) = zlen p /\
  skipn (Z.to_nat (rd_n rd)) (rd_p rd) = skipn (Z.to_nat (rd_n rd)) p /\
  (0 < rd_n rd -> exists r, txt_lookup regs off = Some r /\ g_off r = off /\
       rd_n rd = Z.min (zlen p) (zlen (g_val r)) /\
       firstn (Z.to_nat (rd_n rd)) (rd_p rd) = firstn (Z.to_nat (rd_n rd)) (g_val r)).
Proof.
  induction regs as [|r t IH]; intros p off rd E; cbn [txt_readat txt_lookup] in *.
  - inversion E; subst. cbn [rd_n rd_p]. pose proof (zlen_nonneg p). repeat split; try lia.
  - pose proof (zlen_nonneg p) as Lp.
    destruct (g_off r <? 0); [inversion E; subst; cbn [rd_n rd_p]; repeat split; lia|].
    destruct ((off <? g_off r) || (g_off r + g_bits r / 8 <=? off)); [apply IH; exact E|].
    destruct (off =? g_off r) eqn:A; cbn [negb] in E; [|inversion E; subst; cbn [rd_n rd_p]; repeat split; lia].
    apply Z.eqb_eq in A.
    destruct (bwrite p 0 (g_val r)) as [[p' n] e] eqn:W. inversion E; subst rd. cbn [rd_n rd_p].
    destruct (bwrite_spec p 0 (g_val r) p' n e (Z.le_refl 0) W) as (N0 & N1 & L & _ & S & F & Nb).
    rewrite Z.sub_0_r in F, Nb. cbn [Z.to_nat skipn] in F.
    split; [lia|]. split; [exact L|]. split; [exact S|].
    intros Pn. exists r. split; [reflexivity|]. split; [symmetry; exact A|]. split; [|apply F; lia].
    destruct (Z_le_gt_dec (zlen p) 0) as [Z0|Z0].
    + rewrite bwrite_full in W by exact Z0. inversion W. lia.
    + rewrite bwrite_room in W by lia. inversion W. lia.
Qed.

(** a collection of TXT registers as the platform reports them: every register
    inside the space, BitSize()/8 = the width of the value > 0, no two registers
    claim the same address *)
Definition reg_wf (r : reg) : Prop :=
  0 <= g_off r /\ 0 < g_bits r / 8 /\ zlen (g_val r) = g_bits r / 8.
Definition regs_apart (a b : reg) : Prop :=
  g_off a + g_bits a / 8 <= g_off b \/ g_off b + g_bits b / 8 <= g_off a.
Definition TxtWF (regs : list reg) : Prop :=
  Forall reg_wf regs /\ ForallOrdPairs regs_apart regs.

Lemma txt_lookup_present regs r : TxtWF regs -> In r regs -> txt_lookup regs (g_off r) = Some r.
Proof.
  intros (W & D). induction regs as [|a t IH]; intros I; [inversion I|].
  inversion W as [|? ? (A0 & A1 & A2) Wt]; subst. inversion D as [|? ? Da Dt]; subst.
  cbn [txt_lookup]. destruct (g_off a <? 0) eqn:N; [apply Z.ltb_lt in N; lia|].
  destruct I as [->|I].
  - destruct (g_off r <? g_off r) eqn:E1; [apply Z.ltb_lt in E1; lia|].
    destruct (g_off r + g_bits r / 8 <=? g_off r) eqn:E2; [apply Z.leb_le in E2; lia|]. reflexivity.
  - assert (Wr : reg_wf r) by (rewrite Forall_forall in Wt; apply Wt; exact I).
    destruct Wr as (R0 & R1 & R2).
    assert (Ap : regs_apart a r) by (rewrite Forall_forall in Da; apply Da; exact I).
    assert (S : (g_off r <? g_off a) || (g_off a + g_bits a / 8 <=? g_off r) = true).
    { apply orb_true_iff. destruct Ap as [Ap|Ap]; [right; apply Z.leb_le; lia | left; apply Z.ltb_lt; lia]. }
    rewrite S. apply IH; assumption.
Qed.

Lemma txt_readat_lookup regs p off r : txt_lookup regs off = Some r -> off = g_off r ->
  txt_readat regs p off = Ok (let '(p', n, e) := bwrite p 0 (g_val r) in mkRd n p' e).
Proof.
  induction regs as [|a t IH]; intros L A; cbn [txt_lookup txt_readat] in *; [discriminate|].
  destruct (g_off a <? 0); [discriminate|].
  destruct ((off <? g_off a) || (g_off a + g_bits a / 8 <=? off)); [apply IH; assumption|].
  inversion L; subst a. rewrite A, Z.eqb_refl. cbn [negb].
  destruct (bwrite p 0 (g_val r)) as [[p' n] e]. reflexivity.
Qed.

(** Every present register is readable at its address, whatever its neighbours
    are (a register may start exactly where another one ends): the read delivers
    the first min(len p, width) bytes of the value; io.ErrShortWrite when the
    buffer is shorter than the register, io.EOF when it is empty. *)
Theorem txt_readat_register : forall regs r p, TxtWF regs -> In r regs ->
  txt_readat regs p (g_off r) = Ok (let '(p', n, e) := bwrite p 0 (g_val r) in mkRd n p' e).
Proof. intros regs r p W I. apply txt_readat_lookup; [apply txt_lookup_present; assumption | reflexivity]. Qed.

(** ... in particular a buffer of exactly its width receives exactly its value, without error *)
Corollary txt_readat_register_exact : forall regs r, TxtWF regs -> In r regs ->
  txt_readat regs (repeat 0 (Z.to_nat (g_bits r / 8))) (g_off r)
  = Ok (mkRd (g_bits r / 8) (g_val r) 0).
Proof.
  intros regs r W I. rewrite txt_readat_register by assumption.
  assert (Wr : reg_wf r) by (destruct W as (W & _); rewrite Forall_forall in W; apply W; exact I).
  destruct Wr as (R0 & R1 & R2).
  assert (Lp : zlen (repeat 0 (Z.to_nat (g_bits r / 8))) = g_bits r / 8) by (apply zlen_repeat; lia).
  rewrite bwrite_room by lia. rewrite Lp, Z.sub_0_r, R2, Z.min_id, Z.add_0_l, Z.ltb_irrefl.
  cbn [Z.to_nat firstn app]. rewrite <- R2 at 2. rewrite firstn_zall by lia.
  rewrite skipn_zall by lia. rewrite app_nil_r. reflexivity.
Qed.

(** ** Reference.RawBytes over an arbitrary artifact: what it returns *)

Section Sound.
  Variable rdat : list Z -> Z -> outcome readres.
  Variable size : Z.
  Variable m : mapper.
  (** [F off len]: what a FULL read of [len] bytes at [off] leaves in the buffer *)
  Variable F : Z -> Z -> list Z.
  Hypothesis HF : forall len off rd, 0 <= len < W64 ->
    rdat (repeat 0 (Z.to_nat len)) off = Ok rd -> rd_n rd = to_i64 len -> rd_p rd = F off len.

  Definition read_of (mr : range) : list Z := F (to_i64 (roff mr)) (rlen mr).
  Definition mapped1 (x : range) : list range :=
    match resolve1 m size x with Ok l => l | _ => [] end.

  Lemma read_mapped_g_sound total mrs : forall cur acc cur' acc', Forall inb64 mrs ->
    read_mapped_g rdat total mrs cur acc = Ok (cur', acc') ->
    acc' = acc ++ flat_map read_of mrs.
  Proof.
    induction mrs as [|mr t IH]; intros cur acc cur' acc' Fi E; cbn [read_mapped_g] in E.
    - inversion E. cbn [flat_map]. rewrite app_nil_r. reflexivity.
    - inversion Fi as [|? ? ((L0 & L1) & _) Ft]; subst.
      destruct (_ || _); [discriminate|].
      destruct (rdat _ _) as [rd| | |] eqn:R; try discriminate.
      destruct (rd_n rd =? to_i64 (rlen mr)) eqn:N; [|discriminate]. apply Z.eqb_eq in N.
      rewrite (IH _ _ _ _ Ft E). rewrite (HF _ _ _ (conj L0 L1) R N).
      cbn [flat_map]. unfold read_of at 2. rewrite app_assoc. reflexivity.
  Qed.

  Lemma read_ranges_g_sound total rs : forall cur acc bs, Forall okr rs ->
    read_ranges_g rdat size m total rs cur acc = Ok bs ->
    bs = acc ++ flat_map read_of (flat_map mapped1 rs).
  Proof.
    induction rs as [|x t IH]; intros cur acc bs Fo E; cbn [read_ranges_g] in E.
    - inversion E. cbn [flat_map]. rewrite app_nil_r. reflexivity.
    - inversion Fo as [|? ? (X0 & X1 & X2) Ft]; subst.
      cbn [flat_map]. unfold mapped1 at 1.
      destruct (resolve1 m size x) as [mrs| | |] eqn:R; try discriminate.
      destruct (read_mapped_g rdat total mrs cur acc) as [[cur' acc']| | |] eqn:M; try discriminate.
      assert (Fm : Forall inb64 mrs) by (eapply resolve1_inb64; [| |exact R]; lia).
      rewrite (read_mapped_g_sound _ _ _ _ _ _ Fm M) in E.
      rewrite (IH _ _ _ Ft E). rewrite flat_map_app, app_assoc. reflexivity.
  Qed.

  (** the bytes of a reference: the resolved ranges of its sorted-merged ranges, read in that order *)
  Theorem rawbytes_g_sound rs bs : Forall okr rs -> rawbytes_g rdat size m rs = Ok bs ->
    bs = flat_map read_of (flat_map mapped1 (ranges_sm rs)).
  Proof.
    intros O E. unfold rawbytes_g in E. apply read_ranges_g_sound in E; [exact E | apply ranges_sm_sep; exact O].
  Qed.

  Lemma read_mapped_g_no_err total mrs : forall cur acc,
    (exists v, read_mapped_g rdat total mrs cur acc = Ok v) \/ read_mapped_g rdat total mrs cur acc = Panic.
  Proof.
    induction mrs as [|mr t IH]; intros cur acc; cbn [read_mapped_g]; [left; eexists; reflexivity|].
    destruct (_ || _); [right; reflexivity|].
    destruct (rdat _ _); try (right; reflexivity).
    destruct (_ =? _); [apply IH | right; reflexivity].
  Qed.
  (** bytes or a panic, never an error value *)
  Lemma rawbytes_g_no_err rs : (exists v, rawbytes_g rdat size m rs = Ok v) \/ rawbytes_g rdat size m rs = Panic.
  Proof.
    unfold rawbytes_g. generalize (total_len (ranges_sm rs)) as total, 0 as cur, (@nil Z) as acc.
    induction (ranges_sm rs) as [|x t IH]; intros total cur acc; cbn [read_ranges_g]; [left; eexists; reflexivity|].
    destruct (resolve1 _ _ _) as [mrs| | |]; try (right; reflexivity).
    destruct (read_mapped_g_no_err total mrs cur acc) as [((c & v) & ->) | ->]; [apply IH | right; reflexivity].
  Qed.
End Sound.

(** *** TXT register file: a full read delivers a prefix of the register that starts there *)

Definition txt_full (regs : list reg) (off len : Z) : list Z :=
  match txt_lookup regs off with
  | Some r => firstn (Z.to_nat len) (g_val r)
  | None => []
  end.

Lemma txt_full_read regs len off rd : 0 <= len < W64 ->
  txt_readat regs (repeat 0 (Z.to_nat len)) off = Ok rd -> rd_n rd = to_i64 len ->
  rd_p rd = txt_full regs off len.
Proof.
  intros L E N. set (p := repeat 0 (Z.to_nat len)) in *.
  assert (Lp : zlen p = len) by (apply zlen_repeat; lia).
  destruct (txt_readat_positional regs p off rd E) as (N0 & Lp' & S & H).
  destruct (Z_le_gt_dec (rd_n rd) 0) as [Z0|Pn].
  - assert (Hn : rd_n rd = 0) by lia. assert (Hl : len = 0) by (apply to_i64_zero; [lia | congruence]).
    assert (P0 : rd_p rd = []).
    { destruct (rd_p rd) as [|b l]; [reflexivity|]. unfold zlen in *. cbn [length] in Lp'. lia. }
    rewrite P0. unfold txt_full. rewrite Hl. destruct (txt_lookup regs off); reflexivity.
  - apply Z.gt_lt in Pn. destruct (H Pn) as (r & Lk & A & Nm & Fi). unfold txt_full. rewrite Lk.
    destruct (to_i64_nonneg len L) as (El & _); [lia|].
    assert (rd_n rd = len) by congruence.
    rewrite <- (firstn_zall (rd_p rd) (rd_n rd)) by lia. rewrite Fi. congruence.
Qed.

(** If a reference to a TXT register file has bytes, they are -- merged range by
    merged range, through the address space -- prefixes of the values of the
    registers that start at the resolved offsets: nothing but register content
    is ever delivered. *)
Theorem txt_bytes_sound : forall regs m rs bs, Forall okr rs ->
  rawbytes_g (txt_readat regs) txt_size m rs = Ok bs ->
  bs = flat_map (fun mr => txt_full regs (to_i64 (roff mr)) (rlen mr))
                (flat_map (mapped1 txt_size m) (ranges_sm rs)).
Proof.
  intros regs m rs bs O E.
  exact (rawbytes_g_sound (txt_readat regs) txt_size m (txt_full regs) (txt_full_read regs) rs bs O E).
Qed.

(** A reference to exactly one present register (no address mapper) has the bytes
    of that register -- whatever the register's neighbours are. *)
Theorem txt_reference_one_register : forall regs r, TxtWF regs -> In r regs ->
  g_off r + g_bits r / 8 < 9223372036854775808 ->
  rawbytes_g (txt_readat regs) txt_size MNil [mkR (g_off r) (g_bits r / 8)] = Ok (g_val r).
Proof.
  intros regs r W I B.
  assert (Wr : reg_wf r) by (destruct W as (W' & _); rewrite Forall_forall in W'; apply W'; exact I).
  destruct Wr as (R0 & R1 & R2).
  unfold rawbytes_g. change (ranges_sm [mkR (g_off r) (g_bits r / 8)]) with [mkR (g_off r) (g_bits r / 8)].
  cbn [total_len fold_left read_ranges_g resolve1 read_mapped_g roff rlen].
  assert (Wl : wrap64 (0 + g_bits r / 8) = g_bits r / 8).
  { rewrite wrap64_mod. apply Z.mod_small. unfold W64. lia. }
  rewrite Wl. rewrite Z.ltb_irrefl.
  destruct (g_bits r / 8 <? 0) eqn:E0; [apply Z.ltb_lt in E0; lia|]. cbn [orb].
  assert (To : to_i64 (g_off r) = g_off r).
  { unfold to_i64. destruct (g_off r <? 9223372036854775808) eqn:E; [reflexivity | apply Z.ltb_ge in E; lia]. }
  assert (Tl : to_i64 (g_bits r / 8) = g_bits r / 8).
  { unfold to_i64. destruct (g_bits r / 8 <? 9223372036854775808) eqn:E; [reflexivity | apply Z.ltb_ge in E; lia]. }
  rewrite To, Tl. rewrite txt_readat_register_exact by assumption. cbn [rd_n rd_p].
  rewrite Z.eqb_refl. reflexivity.
Qed.

(** ** AMDRegisters.ReadAt *)

(** the loop once curOffset = offset: every remaining register is written *)
Fixpoint amd_write (regs : list reg) (p : list Z) (pos : Z) : outcome readres :=
  match regs with
  | [] => Ok (mkRd 0 p 2)
  | r :: t =>
      let '(p', pos', e) := bwrite p pos (g_val r) in
      if zlen p <=? pos' then Ok (mkRd pos' p' e) else amd_write t p' pos'
  end.

Lemma amd_loop_matched regs : forall p pos off, amd_loop regs p pos off off = amd_write regs p pos.
Proof.
  induction regs as [|r t IH]; intros p pos off; cbn [amd_loop amd_write]; [reflexivity|].
  rewrite Z.eqb_refl. cbn [negb]. destruct (bwrite p pos (g_val r)) as [[p' pos'] e].
  destruct (zlen p <=? pos'); [reflexivity | apply IH].
Qed.

Lemma amd_from_matched regs : forall off, amd_from regs off off = concat (map g_val regs).
Proof.
  induction regs as [|r t IH]; intros off; cbn [amd_from map concat]; [reflexivity|].
  rewrite Z.eqb_refl, IH. reflexivity.
Qed.

(** what the writing phase returns: either the buffer is full -- then all of it
    from [pos] on is the values of the registers, back to back -- or the
    registers ran out: (0, error) *)
Lemma amd_write_spec regs : forall p pos rd, 0 <= pos <= zlen p ->
  amd_write regs p pos = Ok rd ->
  zlen (rd_p rd) = zlen p /\ firstn (Z.to_nat pos) (rd_p rd) = firstn (Z.to_nat pos) p /\
  ((rd_n rd = 0 /\ rd_err rd = 2) \/
   (rd_n rd = zlen p /\
    skipn (Z.to_nat pos) (rd_p rd) = firstn (Z.to_nat (zlen p - pos)) (concat (map g_val regs)) /\
    zlen p - pos <= zlen (concat (map g_val regs)))).
Proof.
  induction regs as [|r t IH]; intros p pos rd P E; cbn [amd_write] in E.
  - inversion E; subst. cbn [rd_n rd_p rd_err]. split; [reflexivity|]. split; [reflexivity|]. left. split; reflexivity.
  - destruct (bwrite p pos (g_val r)) as [[p' pos'] e] eqn:W.
    destruct (bwrite_spec p pos (g_val r) p' pos' e (proj1 P) W) as (N0 & N1 & L & Fp & Sp & Fw & Nb).
    specialize (N1 (proj2 P)). specialize (Fw (proj2 P)).
    cbn [map concat]. pose proof (zlen_nonneg (concat (map g_val t))) as Lc.
    destruct (zlen p <=? pos') eqn:Full.
    + apply Z.leb_le in Full. assert (pos' = zlen p) by lia. subst pos'.
      inversion E; subst rd. cbn [rd_n rd_p rd_err]. split; [exact L|]. split; [exact Fp|].
      right. split; [reflexivity|]. rewrite zlen_app. split; [|lia].
      rewrite firstn_app.
      replace (Z.to_nat (zlen p - pos) - length (g_val r))%nat with 0%nat by (unfold zlen in *; lia).
      cbn [firstn]. rewrite app_nil_r. rewrite <- Fw.
      symmetry. apply firstn_all2. rewrite skipn_length. unfold zlen in *. lia.
    + apply Z.leb_gt in Full.
      assert (P' : 0 <= pos' <= zlen p') by lia.
      destruct (IH p' pos' rd P' E) as (L' & F' & H). split; [lia|]. split.
      { rewrite <- Fp. apply (firstn_le_eq _ _ _ (Z.to_nat pos')); [lia | exact F']. }
      destruct H as [H|(Hn & Hs & Hl)]; [left; exact H|]. right. rewrite L in *.
      split; [exact Hn|]. rewrite zlen_app. split; [|lia].
      (* the written part: [pos, pos') from this register, [pos', len) from the rest *)
      assert (Split : skipn (Z.to_nat pos) (rd_p rd) =
                firstn (Z.to_nat (pos' - pos)) (skipn (Z.to_nat pos) (rd_p rd)) ++ skipn (Z.to_nat pos') (rd_p rd)).
      { rewrite <- (firstn_skipn (Z.to_nat (pos' - pos)) (skipn (Z.to_nat pos) (rd_p rd))) at 1.
        rewrite skipn_skipn_add. do 2 f_equal. lia. }
      rewrite Split, Hs.
      assert (Wr : firstn (Z.to_nat (pos' - pos)) (skipn (Z.to_nat pos) (rd_p rd)) = g_val r).
      { (* the register was written in full: the buffer was not full afterwards *)
        assert (Wn : pos' - pos = zlen (g_val r)).
        { destruct (Z_le_gt_dec (zlen p) pos) as [G|G]; [lia|].
          rewrite bwrite_room in W by lia. inversion W. lia. }
        assert (Eq : firstn (Z.to_nat (pos' - pos)) (skipn (Z.to_nat pos) (rd_p rd))
                     = firstn (Z.to_nat (pos' - pos)) (skipn (Z.to_nat pos) p')).
        { assert (G : forall l : list Z, firstn (Z.to_nat (pos' - pos)) (skipn (Z.to_nat pos) l)
                       = skipn (Z.to_nat pos) (firstn (Z.to_nat pos') l)).
          { intros l. rewrite firstn_skipn_comm. do 2 f_equal. lia. }
          rewrite !G, F'. reflexivity. }
        rewrite Eq, Fw, Wn. apply firstn_zall. lia. }
      rewrite Wr. rewrite firstn_app.
      assert (Wn : pos' - pos = zlen (g_val r)).
      { destruct (Z_le_gt_dec (zlen p) pos) as [G|G]; [lia|].
        rewrite bwrite_room in W by lia. inversion W. lia. }
      rewrite (@firstn_all2 _ _ (g_val r)) by (unfold zlen in *; lia). f_equal. f_equal. unfold zlen in *. lia.
Qed.

(** Positional-read contract of the AMD register file: never more bytes than the
    buffer holds; when bytes are reported, the WHOLE buffer was filled with the
    values of the registers laid out back to back from the one that starts at
    [off] on. *)
Lemma amd_loop_positional regs : forall cur p off rd,
  amd_loop regs p 0 cur off = Ok rd ->
  0 <= rd_n rd <= zlen p /\ zlen (rd_p rd) = zlen p /\
  (0 < rd_n rd -> rd_n rd = zlen p /\ rd_p rd = firstn (Z.to_nat (zlen p)) (amd_from regs cur off)).
Proof.
  induction regs as [|r t IH]; intros cur p off rd E.
  - cbn [amd_loop] in E. inversion E; subst. cbn [rd_n rd_p]. pose proof (zlen_nonneg p).
    split; [lia|]. split; [reflexivity|]. intros X. lia.
  - destruct (Z.eq_dec cur off) as [C|C].
    + subst cur. rewrite amd_loop_matched in E. rewrite amd_from_matched.
      pose proof (zlen_nonneg p) as Lp.
      destruct (amd_write_spec (r :: t) p 0 rd (conj (Z.le_refl 0) Lp) E) as (L & _ & H).
      destruct H as [(N & _)|(N & S & _)].
      * rewrite N. split; [lia|]. split; [exact L|]. intros X. lia.
      * rewrite Z.sub_0_r in S. cbn [Z.to_nat skipn] in S. split; [lia|]. split; [exact L|].
        intros _. split; [exact N | exact S].
    + cbn [amd_loop amd_from] in *. apply Z.eqb_neq in C. rewrite C in *. cbn [negb] in E.
      apply IH. exact E.
Qed.

Theorem amd_readat_positional : forall regs p off rd,
  amd_readat regs p off = Ok rd ->
  0 <= rd_n rd <= zlen p /\ zlen (rd_p rd) = zlen p /\
  (0 < rd_n rd -> rd_n rd = zlen p /\ rd_p rd = firstn (Z.to_nat (zlen p)) (amd_from regs 0 off)).
Proof. intros regs p off rd. apply amd_loop_positional. Qed.

(** a collection as amdregisters.New makes it: every register has a width > 0
    and its value is that wide *)
Definition amd_wf (r : reg) : Prop := 0 < amd_width r /\ zlen (g_val r) = amd_width r.
Definition sum_width (l : list reg) : Z := fold_right (fun r s => amd_width r + s) 0 l.

Lemma sum_width_nonneg l : Forall amd_wf l -> 0 <= sum_width l.
Proof. induction 1 as [|r t (W & _) _ IH]; cbn [sum_width fold_right]; [lia | fold (sum_width t); lia]. Qed.

Lemma amd_write_run mid : forall post p pos, Forall amd_wf mid -> mid <> [] ->
  0 <= pos -> zlen p - pos = sum_width mid ->
  amd_write (mid ++ post) p pos
  = Ok (mkRd (zlen p) (firstn (Z.to_nat pos) p ++ concat (map g_val mid)) 0).
Proof.
  induction mid as [|r t IH]; intros post p pos W NE P S; [congruence|].
  inversion W as [|? ? (W0 & W1) Wt]; subst. cbn [sum_width fold_right] in S. fold (sum_width t) in S.
  pose proof (sum_width_nonneg t Wt) as St.
  cbn [app amd_write map concat].
  rewrite bwrite_room by lia. rewrite W1.
  replace (Z.min (zlen p - pos) (amd_width r)) with (amd_width r) by lia.
  rewrite Z.ltb_irrefl. rewrite <- W1. rewrite (firstn_zall (g_val r)) by lia.
  destruct t as [|r2 t2].
  - cbn [sum_width fold_right] in S. cbn [app map concat].
    replace (zlen p <=? pos + zlen (g_val r)) with true by (symmetry; apply Z.leb_le; lia).
    rewrite skipn_zall by lia. rewrite !app_nil_r. f_equal. f_equal. lia.
  - assert (Pt : 0 < sum_width (r2 :: t2)).
    { inversion Wt as [|? ? (V0 & _) Wt2]; subst. cbn [sum_width fold_right]. fold (sum_width t2).
      pose proof (sum_width_nonneg t2 Wt2). lia. }
    replace (zlen p <=? pos + zlen (g_val r)) with false by (symmetry; apply Z.leb_gt; lia).
    set (p' := firstn (Z.to_nat pos) p ++ g_val r ++ skipn (Z.to_nat (pos + zlen (g_val r))) p).
    assert (L' : zlen p' = zlen p).
    { unfold p'. rewrite !zlen_app, zlen_firstn, zlen_skipn by lia. lia. }
    rewrite (IH post p' (pos + zlen (g_val r))); [|exact Wt | discriminate | lia | lia].
    rewrite L'. f_equal. f_equal.
    assert (Fp : firstn (Z.to_nat (pos + zlen (g_val r))) p' = firstn (Z.to_nat pos) p ++ g_val r).
    { unfold p'. rewrite app_assoc. apply firstn_app_l.
      rewrite app_length, firstn_length. unfold zlen in *. lia. }
    rewrite Fp. rewrite <- app_assoc. reflexivity.
Qed.

(** A read that starts where a register starts and is as long as a run of
    registers delivers exactly their values, back to back, without error (this is
    what a reference to MP0_C2P_MSG_37 and MP0_C2P_MSG_38 -- two adjacent ranges,
    merged into one by Reference.RawBytes -- relies on). *)
Theorem amd_readat_run : forall pre mid post p, Forall amd_wf (pre ++ mid ++ post) -> mid <> [] ->
  zlen p = sum_width mid ->
  amd_readat (pre ++ mid ++ post) p (sum_width pre)
  = Ok (mkRd (zlen p) (concat (map g_val mid)) 0).
Proof.
  intros pre mid post p W NE L. unfold amd_readat.
  assert (G : forall cur, amd_loop (pre ++ mid ++ post) p 0 cur (cur + sum_width pre)
                          = amd_write (mid ++ post) p 0).
  { induction pre as [|r t IH]; intros cur.
    - cbn [app sum_width fold_right]. rewrite Z.add_0_r. apply amd_loop_matched.
    - cbn [app] in W. inversion W as [|? ? (W0 & _) Wt]; subst.
      assert (St : 0 <= sum_width t).
      { apply sum_width_nonneg. apply Forall_app in Wt. apply Wt. }
      cbn [app amd_loop sum_width fold_right]. fold (sum_width t).
      replace (cur =? cur + (amd_width r + sum_width t)) with false by (symmetry; apply Z.eqb_neq; lia).
      cbn [negb]. rewrite <- (IH Wt (cur + amd_width r)). f_equal. lia. }
  rewrite <- (Z.add_0_l (sum_width pre)). rewrite G.
  apply Forall_app in W. destruct W as (_ & W). apply Forall_app in W. destruct W as (Wm & _).
  rewrite (amd_write_run mid post p 0 Wm NE (Z.le_refl 0)) by lia. reflexivity.
Qed.

(** *** AMD register file: what a reference's bytes are *)

Definition amd_full (regs : list reg) (off len : Z) : list Z :=
  firstn (Z.to_nat len) (amd_from regs 0 off).

Lemma amd_full_read regs len off rd : 0 <= len < W64 ->
  amd_readat regs (repeat 0 (Z.to_nat len)) off = Ok rd -> rd_n rd = to_i64 len ->
  rd_p rd = amd_full regs off len.
Proof.
  intros L E N. set (p := repeat 0 (Z.to_nat len)) in *.
  assert (Lp : zlen p = len) by (apply zlen_repeat; lia).
  destruct (amd_readat_positional regs p off rd E) as (N0 & Lp' & H).
  destruct (Z_le_gt_dec (rd_n rd) 0) as [Z0|Pn].
  - assert (Hn : rd_n rd = 0) by lia. assert (Hl : len = 0) by (apply to_i64_zero; [lia | congruence]).
    assert (P0 : rd_p rd = []).
    { destruct (rd_p rd) as [|b l]; [reflexivity|]. unfold zlen in *. cbn [length] in Lp'. lia. }
    rewrite P0. unfold amd_full. rewrite Hl. reflexivity.
  - apply Z.gt_lt in Pn. destruct (H Pn) as (_ & ->). unfold amd_full. rewrite Lp. reflexivity.
Qed.

(** If a reference to an AMD register file has bytes, every resolved range
    starts at a register and holds the values of the registers from there on,
    back to back. *)
Theorem amd_bytes_sound : forall regs m rs bs, Forall okr rs ->
  rawbytes_g (amd_readat regs) (amd_size regs) m rs = Ok bs ->
  bs = flat_map (fun mr => amd_full regs (to_i64 (roff mr)) (rlen mr))
                (flat_map (mapped1 (amd_size regs) m) (ranges_sm rs)).
Proof.
  intros regs m rs bs O E.
  exact (rawbytes_g_sound (amd_readat regs) (amd_size regs) m (amd_full regs) (amd_full_read regs) rs bs O E).
Qed.

(** ** Lists over artifacts of every kind: concatenation in list order *)

Lemma grefs_rawbytes_concat s bs :
  grefs_rawbytes s = Ok bs <->
  exists parts, Forall2 (fun r b => gref_rawbytes r = Ok b) s parts /\ bs = concat parts.
Proof.
  revert bs. induction s as [|r t IH]; intros bs; cbn [grefs_rawbytes].
  - split.
    + intros E. inversion E. exists []. split; [constructor | reflexivity].
    + intros (parts & F & ->). inversion F. reflexivity.
  - split.
    + intros E. destruct (gref_rawbytes r) as [a| | |] eqn:Er; try discriminate. cbn [bind] in E.
      destruct (grefs_rawbytes t) as [b| | |] eqn:Et; try discriminate. cbn [bind] in E. inversion E.
      destruct (proj1 (IH b) eq_refl) as (parts & F & ->).
      exists (a :: parts). split; [constructor; assumption | reflexivity].
    + intros (parts & F & ->). inversion F as [|? b ? ps Hr Ft]; subst. rewrite Hr. cbn [bind].
      rewrite (proj2 (IH (concat ps))); [reflexivity|]. exists ps. split; [assumption | reflexivity].
Qed.

Lemma gref_rawbytes_no_err r : (exists v, gref_rawbytes r = Ok v) \/ gref_rawbytes r = Panic.
Proof. apply rawbytes_g_no_err. Qed.
