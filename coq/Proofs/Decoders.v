(** C15 — proofs about the decoder models of Model/Decoders.v.

    Three compositional judgements on readers, each closed under the
    combinators of the reader monad:
      [nopanic r]  : r never returns [RPanic];
      [nofuel r]   : r never runs out of loop fuel (termination of the Go loop);
      [cons k r]   : r never moves the reader backwards and consumes at least
                     [k] bytes when it succeeds (what makes |rest|+1 fuel enough);
    plus [cost], a Hoare-style judgement for steps and allocation of
    straight-line readers; [agree] (the repair 6dfa3ec is conservative); [J]/[JT]
    (allocation paid for by consumed input) and [AB] (allocation of the ACM
    info decoder).  The per-decoder theorems are assembled from them; the
    statements used by Props/C15.v are the [P_*] lemmas at the end. *)
From CSS Require Import Lib.Base Model.Decoders.
From CSS Require Model.EventLog Proofs.EventLog.
From Coq Require Import Lia ZArith List Bool.

(** * Lists *)

Lemma takeZ_some : forall l n a r, takeZ l n = Some (a, r) ->
  l = a ++ r /\ (0 < n -> (length r < length l)%nat) /\ (length r <= length l)%nat /\ lenZ a = Z.max 0 n.
Proof.
  induction l as [|x t IH]; intros n a r H.
  - cbn [takeZ] in H. destruct (n <=? 0) eqn:E; [|discriminate]. inversion H; subst.
    apply Z.leb_le in E. unfold lenZ. cbn. repeat split; lia.
  - cbn [takeZ] in H. destruct (n <=? 0) eqn:E.
    + inversion H; subst. apply Z.leb_le in E. unfold lenZ. cbn. repeat split; lia.
    + apply Z.leb_gt in E. destruct (takeZ t (n - 1)) as [[a' r']|] eqn:T; [|discriminate].
      inversion H; subst. destruct (IH _ _ _ T) as (E1 & _ & E3 & E4).
      unfold lenZ in *. cbn [length app].
      split; [now rewrite E1 at 1|].
      split; [intros; lia|]. split; [lia|]. rewrite Nat2Z.inj_succ. lia.
Qed.

Lemma has_len_true : forall l n, has_len l n = true <-> n <= lenZ l.
Proof.
  unfold lenZ. induction l as [|x t IH]; intros n; cbn [has_len length].
  - destruct (n <=? 0) eqn:E; [apply Z.leb_le in E | apply Z.leb_gt in E]; split; intros; try lia; try discriminate; auto.
  - destruct (n <=? 0) eqn:E; [apply Z.leb_le in E | apply Z.leb_gt in E].
    + split; intros; auto. lia.
    + rewrite IH. rewrite Nat2Z.inj_succ. lia.
Qed.

Lemma dropZ_length : forall l n, (length (dropZ l n) <= length l)%nat.
Proof.
  induction l as [|x t IH]; intros n; cbn [dropZ]; destruct (n <=? 0); cbn; auto.
Qed.

Lemma dropZ_lenZ : forall l n, 0 <= n -> lenZ (dropZ l n) = Z.max 0 (lenZ l - n).
Proof.
  unfold lenZ. induction l as [|x t IH]; intros n Hn; cbn [dropZ].
  - destruct (n <=? 0); cbn; lia.
  - destruct (n <=? 0) eqn:E; [apply Z.leb_le in E | apply Z.leb_gt in E].
    + assert (n = 0) by lia. subst. cbn [length]. lia.
    + rewrite IH by lia. cbn [length]. rewrite Nat2Z.inj_succ. lia.
Qed.

Lemma le_val_bounds : forall l, 0 <= le_val l < 256 ^ lenZ l.
Proof.
  unfold lenZ. induction l as [|x t IH]; cbn [le_val fold_right length].
  - cbn. lia.
  - fold (le_val t). rewrite Nat2Z.inj_succ, Z.pow_succ_r by lia.
    pose proof (Z.mod_pos_bound x 256 ltac:(lia)). lia.
Qed.

Lemma be_val_acc_bounds : forall l acc, 0 <= acc ->
  0 <= fold_left (fun a x => a * 256 + x mod 256) l acc < (acc + 1) * 256 ^ lenZ l.
Proof.
  unfold lenZ. induction l as [|x t IH]; intros acc Ha; cbn [fold_left length].
  - cbn. lia.
  - pose proof (Z.mod_pos_bound x 256 ltac:(lia)).
    specialize (IH (acc * 256 + x mod 256) ltac:(lia)).
    rewrite Nat2Z.inj_succ, Z.pow_succ_r by lia.
    assert (0 < 256 ^ Z.of_nat (length t)) by (apply Z.pow_pos_nonneg; lia). nia.
Qed.
Lemma be_val_bounds : forall l, 0 <= be_val l < 256 ^ lenZ l.
Proof. intros. unfold be_val. pose proof (be_val_acc_bounds l 0 ltac:(lia)). lia. Qed.

(** * The judgements *)

Definition nopanic {A} (r : rd A) : Prop := forall s, r s <> RPanic.
Definition nofuel {A} (r : rd A) : Prop := forall s, r s <> RFuel.
Definition cons {A} (k : nat) (r : rd A) : Prop := forall s,
  match r s with
  | ROk _ s' => (length (s_rest s') + k <= length (s_rest s))%nat
  | RErr _ s' => (length (s_rest s') <= length (s_rest s))%nat
  | _ => True
  end.

Lemma cons_weaken {A} (k k' : nat) (r : rd A) : cons k r -> (k' <= k)%nat -> cons k' r.
Proof. intros H Hk s. specialize (H s). destruct (r s); auto. lia. Qed.

(** ** ret / fail / bind *)
Lemma nopanic_ret {A} (a : A) : nopanic (ret a). Proof. intros s; discriminate. Qed.
Lemma nofuel_ret {A} (a : A) : nofuel (ret a). Proof. intros s; discriminate. Qed.
Lemma cons_ret {A} (a : A) : cons 0 (ret a). Proof. intros s; cbn; lia. Qed.
Lemma nopanic_fail {A} c : nopanic (@fail A c). Proof. intros s; discriminate. Qed.
Lemma nofuel_fail {A} c : nofuel (@fail A c). Proof. intros s; discriminate. Qed.
Lemma cons_fail {A} k c : cons k (@fail A c). Proof. intros s; cbn; lia. Qed.
Lemma nofuel_panic {A} : nofuel (@panic A). Proof. intros s; discriminate. Qed.
Lemma cons_panic {A} k : cons k (@panic A). Proof. intros s; exact I. Qed.

Lemma nopanic_bind {A B} (r : rd A) (f : A -> rd B) :
  nopanic r -> (forall a, nopanic (f a)) -> nopanic (bind r f).
Proof. intros Hr Hf s. unfold bind. specialize (Hr s). destruct (r s); try discriminate; auto. apply Hf. Qed.
Lemma nofuel_bind {A B} (r : rd A) (f : A -> rd B) :
  nofuel r -> (forall a, nofuel (f a)) -> nofuel (bind r f).
Proof. intros Hr Hf s. unfold bind. specialize (Hr s). destruct (r s); try discriminate; auto. apply Hf. Qed.
Lemma cons_bind {A B} (k1 k2 : nat) (r : rd A) (f : A -> rd B) :
  cons k1 r -> (forall a, cons k2 (f a)) -> cons (k1 + k2) (bind r f).
Proof.
  intros Hr Hf s. unfold bind. specialize (Hr s). destruct (r s) as [a s1|c s1| |]; auto.
  specialize (Hf a s1). destruct (f a s1); auto; lia.
Qed.

(** ** primitives *)
Lemma nopanic_read_n n : nopanic (read_n n).
Proof. intros s. unfold read_n. destruct (n <=? 0); [discriminate|]. destruct (s_rest s); [discriminate|]. destruct (takeZ _ _) as [[? ?]|]; discriminate. Qed.
Lemma nofuel_read_n n : nofuel (read_n n).
Proof. intros s. unfold read_n. destruct (n <=? 0); [discriminate|]. destruct (s_rest s); [discriminate|]. destruct (takeZ _ _) as [[? ?]|]; discriminate. Qed.
Lemma cons_read_n0 n : cons 0 (read_n n).
Proof.
  intros s. unfold read_n. destruct (n <=? 0); [cbn; lia|]. destruct (s_rest s) eqn:E; [cbn; rewrite E; cbn; lia|].
  rewrite <- E. destruct (takeZ (s_rest s) n) as [[a r]|] eqn:T; cbn.
  - apply takeZ_some in T. lia.
  - lia.
Qed.
Lemma cons_read_n1 n : 0 < n -> cons 1 (read_n n).
Proof.
  intros Hn s. unfold read_n. destruct (n <=? 0) eqn:E0; [apply Z.leb_le in E0; lia|].
  destruct (s_rest s) eqn:E; [cbn; rewrite E; cbn; lia|].
  rewrite <- E. destruct (takeZ (s_rest s) n) as [[a r]|] eqn:T; cbn.
  - apply takeZ_some in T. destruct T as (_ & T & _). specialize (T Hn). lia.
  - lia.
Qed.

Lemma nopanic_read_le n : nopanic (read_le n).
Proof. apply nopanic_bind; [apply nopanic_read_n | intros; apply nopanic_ret]. Qed.
Lemma nofuel_read_le n : nofuel (read_le n).
Proof. apply nofuel_bind; [apply nofuel_read_n | intros; apply nofuel_ret]. Qed.
Lemma cons_read_le0 n : cons 0 (read_le n).
Proof. apply (cons_bind 0 0); [apply cons_read_n0 | intros; apply cons_ret]. Qed.
Lemma cons_read_le1 n : 0 < n -> cons 1 (read_le n).
Proof. intros. apply (cons_bind 1 0); [now apply cons_read_n1 | intros; apply cons_ret]. Qed.
Lemma nopanic_read_be n : nopanic (read_be n).
Proof. apply nopanic_bind; [apply nopanic_read_n | intros; apply nopanic_ret]. Qed.
Lemma nofuel_read_be n : nofuel (read_be n).
Proof. apply nofuel_bind; [apply nofuel_read_n | intros; apply nofuel_ret]. Qed.
Lemma cons_read_be0 n : cons 0 (read_be n).
Proof. apply (cons_bind 0 0); [apply cons_read_n0 | intros; apply cons_ret]. Qed.
Lemma cons_read_be1 n : 0 < n -> cons 1 (read_be n).
Proof. intros. apply (cons_bind 1 0); [now apply cons_read_n1 | intros; apply cons_ret]. Qed.

Lemma nopanic_alloc n e : nopanic (alloc n e). Proof. intros s; discriminate. Qed.
Lemma nofuel_alloc n e : nofuel (alloc n e). Proof. intros s; discriminate. Qed.
Lemma cons_alloc n e : cons 0 (alloc n e). Proof. intros s; cbn; lia. Qed.
Lemma nopanic_alloc_chk n e : n <? 0 = false -> nopanic (alloc_chk n e).
Proof. intros H s. unfold alloc_chk. rewrite H. discriminate. Qed.
Lemma nofuel_alloc_chk n e : nofuel (alloc_chk n e).
Proof. intros s. unfold alloc_chk. destruct (n <? 0); discriminate. Qed.
Lemma cons_alloc_chk n e : cons 0 (alloc_chk n e).
Proof. intros s. unfold alloc_chk. destruct (n <? 0); cbn; auto; lia. Qed.

Lemma nopanic_read_slice n : nopanic (read_slice n).
Proof. unfold read_slice. destruct (n <=? 0); [apply nopanic_ret|]. apply nopanic_bind; [apply nopanic_alloc | intros; apply nopanic_read_n]. Qed.
Lemma nofuel_read_slice n : nofuel (read_slice n).
Proof. unfold read_slice. destruct (n <=? 0); [apply nofuel_ret|]. apply nofuel_bind; [apply nofuel_alloc | intros; apply nofuel_read_n]. Qed.
Lemma cons_read_slice n : cons 0 (read_slice n).
Proof. unfold read_slice. destruct (n <=? 0); [apply cons_ret|]. apply (cons_bind 0 0); [apply cons_alloc | intros; apply cons_read_n0]. Qed.

Lemma nopanic_seek w o : nopanic (seek w o). Proof. intros s; discriminate. Qed.
Lemma nofuel_seek w o : nofuel (seek w o). Proof. intros s; discriminate. Qed.
Lemma nofuel_slice_from w o : nofuel (slice_from w o).
Proof. intros s. unfold slice_from. destruct (has_len w o); discriminate. Qed.
Lemma nofuel_slice_at fx w o : nofuel (slice_at fx w o).
Proof. unfold slice_at. destruct (fx_bounds fx); [apply nofuel_seek | apply nofuel_slice_from]. Qed.
Lemma nopanic_slice_at fx w o : fx_bounds fx = true -> nopanic (slice_at fx w o).
Proof. intros H. unfold slice_at. rewrite H. apply nopanic_seek. Qed.
Lemma nopanic_slice_from w o : o <= lenZ w -> nopanic (slice_from w o).
Proof. intros H s. unfold slice_from. apply has_len_true in H. rewrite H. discriminate. Qed.

Lemma nopanic_cap_guard fx n : nopanic (cap_guard fx n).
Proof. intros s. unfold cap_guard. destruct (_ && _); discriminate. Qed.
Lemma nofuel_cap_guard fx n : nofuel (cap_guard fx n).
Proof. intros s. unfold cap_guard. destruct (_ && _); discriminate. Qed.
Lemma cons_cap_guard fx n : cons 0 (cap_guard fx n).
Proof. intros s. unfold cap_guard. destruct (_ && _); cbn; lia. Qed.

Lemma nopanic_or_else {A} (r h : rd A) : nopanic r -> nopanic h -> nopanic (or_else r h).
Proof. intros Hr Hh s. unfold or_else. specialize (Hr s). destruct (r s); try discriminate; auto. Qed.
Lemma nofuel_or_else {A} (r h : rd A) : nofuel r -> nofuel h -> nofuel (or_else r h).
Proof. intros Hr Hh s. unfold or_else. specialize (Hr s). destruct (r s); try discriminate; auto. Qed.
Lemma cons_or_else {A} k (r h : rd A) : cons k r -> cons k h -> cons k (or_else r h).
Proof.
  intros Hr Hh s. unfold or_else. specialize (Hr s). destruct (r s) as [a s1|c s1| |]; auto.
  specialize (Hh s1). destruct (h s1); auto; lia.
Qed.

Lemma nopanic_catch_eof {A} (r : rd A) d : nopanic r -> nopanic (catch_eof r d).
Proof. intros Hr s. unfold catch_eof. specialize (Hr s). destruct (r s); try discriminate; auto. destruct (_ =? _); discriminate. Qed.
Lemma nofuel_catch_eof {A} (r : rd A) d : nofuel r -> nofuel (catch_eof r d).
Proof. intros Hr s. unfold catch_eof. specialize (Hr s). destruct (r s); try discriminate; auto. destruct (_ =? _); discriminate. Qed.

(** ** loops *)
Lemma nopanic_loopS {X} (cont : X -> bool) (body : X -> rd X) :
  (forall x, nopanic (body x)) -> forall fuel x, nopanic (loopS fuel cont body x).
Proof.
  intros Hb. induction fuel as [|f IH]; intros x s; cbn [loopS]; destruct (cont x); try discriminate.
  specialize (Hb x s). destruct (body x s); try discriminate; auto. apply IH.
Qed.
Lemma nopanic_loop {X} (cont : X -> bool) (body : X -> rd X) x :
  (forall x, nopanic (body x)) -> nopanic (loop cont body x).
Proof. intros Hb s. unfold loop. now apply nopanic_loopS. Qed.

Lemma nofuel_loopS {X} (cont : X -> bool) (body : X -> rd X) :
  (forall x, nofuel (body x)) -> (forall x, cons 1 (body x)) ->
  forall fuel x s, (length (s_rest s) < fuel)%nat -> loopS fuel cont body x s <> RFuel.
Proof.
  intros Hb Hc. induction fuel as [|f IH]; intros x s Hl; [lia|].
  cbn [loopS]. destruct (cont x); [|discriminate].
  specialize (Hb x s). specialize (Hc x s). destruct (body x s) as [x' s'|c s'| |]; try discriminate; auto.
  apply IH. lia.
Qed.
Lemma nofuel_loop {X} (cont : X -> bool) (body : X -> rd X) x :
  (forall x, nofuel (body x)) -> (forall x, cons 1 (body x)) -> nofuel (loop cont body x).
Proof. intros Hb Hc s. unfold loop. apply nofuel_loopS; auto. Qed.

Lemma cons_loopS {X} (cont : X -> bool) (body : X -> rd X) :
  (forall x, cons 0 (body x)) -> forall fuel x, cons 0 (loopS fuel cont body x).
Proof.
  intros Hc. induction fuel as [|f IH]; intros x s; cbn [loopS]; destruct (cont x); cbn; try lia; auto.
  specialize (Hc x s). destruct (body x s) as [x' s'|c s'| |]; auto.
  specialize (IH x' s'). destruct (loopS f cont body x' s'); auto; lia.
Qed.
Lemma cons_loop {X} (cont : X -> bool) (body : X -> rd X) x :
  (forall x, cons 0 (body x)) -> cons 0 (loop cont body x).
Proof. intros Hc s. unfold loop. now apply cons_loopS. Qed.

Lemma nopanic_repeat_n n b : nopanic b -> nopanic (repeat_n n b).
Proof.
  intros Hb. unfold repeat_n. apply nopanic_bind; [|intros; apply nopanic_ret].
  apply nopanic_loop. intros x. apply nopanic_bind; [exact Hb | intros; apply nopanic_ret].
Qed.
Lemma nofuel_repeat_n n b : nofuel b -> cons 1 b -> nofuel (repeat_n n b).
Proof.
  intros Hb Hc. unfold repeat_n. apply nofuel_bind; [|intros; apply nofuel_ret].
  apply nofuel_loop; intros x.
  - apply nofuel_bind; [exact Hb | intros; apply nofuel_ret].
  - apply (cons_bind 1 0); [exact Hc | intros; apply cons_ret].
Qed.
Lemma cons_repeat_n n b : cons 0 b -> cons 0 (repeat_n n b).
Proof.
  intros Hc. unfold repeat_n. apply (cons_bind 0 0); [|intros; apply cons_ret].
  apply cons_loop; intros x. apply (cons_bind 0 0); [exact Hc | intros; apply cons_ret].
Qed.

(** ** automation: decompose a reader built from the combinators *)
Ltac rd_case :=
  match goal with
  | |- _ (if ?b then _ else _) => destruct b eqn:?
  | |- _ (match ?x with _ => _ end) => destruct x eqn:?
  end.
Ltac np := repeat first
  [ apply nopanic_ret | apply nopanic_fail | apply nopanic_read_n | apply nopanic_read_le | apply nopanic_read_be
  | apply nopanic_alloc | apply nopanic_read_slice | apply nopanic_seek | apply nopanic_cap_guard
  | match goal with |- nopanic (bind _ _) => apply nopanic_bind; [ | intros ? ] end
  | apply nopanic_or_else | apply nopanic_catch_eof | apply nopanic_repeat_n | (apply nopanic_loop; intros ?)
  | assumption
  | rd_case ].
Ltac nf := repeat first
  [ apply nofuel_ret | apply nofuel_fail | apply nofuel_panic | apply nofuel_read_n | apply nofuel_read_le | apply nofuel_read_be
  | apply nofuel_alloc | apply nofuel_alloc_chk | apply nofuel_read_slice | apply nofuel_seek | apply nofuel_slice_from | apply nofuel_slice_at
  | apply nofuel_cap_guard
  | match goal with |- nofuel (bind _ _) => apply nofuel_bind; [ | intros ? ] end
  | apply nofuel_or_else | apply nofuel_catch_eof
  | assumption
  | rd_case ].
(** [cons 0] of a chain *)
Ltac c0 := repeat first
  [ apply cons_ret | apply cons_fail | apply cons_panic | apply cons_read_n0 | apply cons_read_le0 | apply cons_read_be0
  | apply cons_alloc | apply cons_alloc_chk | apply cons_read_slice | apply cons_cap_guard
  | match goal with |- cons 0 (bind _ _) => apply (cons_bind 0 0); [ | intros ? ] end
  | apply cons_or_else | apply cons_repeat_n | (apply cons_loop; intros ?)
  | assumption
  | rd_case ].
(** [cons 1] of a chain that starts with a read of at least one byte *)
Ltac c1 := match goal with |- cons 1 (bind _ _) => idtac end; apply (cons_bind 1 0); [ first [ apply cons_read_le1; lia | apply cons_read_be1; lia | apply cons_read_n1; lia ] | intros ?; c0 ].

(** * LCP policy data (pkg/tools/lcp.go) *)

Lemma nopanic_lcp_hash a : nopanic (lcp_hash a). Proof. unfold lcp_hash. np. Qed.
Lemma nofuel_lcp_hash a : nofuel (lcp_hash a). Proof. unfold lcp_hash. nf. Qed.
Lemma cons1_lcp_hash a : cons 1 (lcp_hash a).
Proof. unfold lcp_hash. destruct (a =? _); [apply cons_read_n1; lia | apply cons_fail]. Qed.
Lemma cons0_lcp_hash a : cons 0 (lcp_hash a).
Proof. eapply cons_weaken; [apply cons1_lcp_hash | lia]. Qed.

Lemma nopanic_elt_mle : nopanic elt_mle. Proof. unfold elt_mle. np. Qed.
Lemma nofuel_elt_mle : nofuel elt_mle.
Proof. unfold elt_mle. nf. apply nofuel_repeat_n; [nf | apply cons_read_n1; lia]. Qed.
Lemma cons_elt_mle : cons 0 elt_mle. Proof. unfold elt_mle. c0. Qed.

Lemma nopanic_elt_sbios : nopanic elt_sbios.
Proof. unfold elt_sbios. np; apply nopanic_lcp_hash. Qed.
Lemma nofuel_elt_sbios : nofuel elt_sbios.
Proof.
  unfold elt_sbios. nf; try apply nofuel_lcp_hash.
  apply nofuel_repeat_n; [apply nofuel_lcp_hash | apply cons1_lcp_hash].
Qed.
Lemma cons_elt_sbios : cons 0 elt_sbios.
Proof. unfold elt_sbios. c0; apply cons0_lcp_hash. Qed.

Lemma nopanic_sel_loop n : nopanic (sel_loop n). Proof. unfold sel_loop. np. Qed.
Lemma nofuel_sel_loop n : nofuel (sel_loop n).
Proof.
  unfold sel_loop. nf. apply nofuel_loop; intros x; [nf | c1].
Qed.
Lemma cons_sel_loop n : cons 0 (sel_loop n). Proof. unfold sel_loop. c0. Qed.

Lemma nopanic_pcr_info : nopanic pcr_info. Proof. unfold pcr_info. np; apply nopanic_sel_loop. Qed.
Lemma nofuel_pcr_info : nofuel pcr_info. Proof. unfold pcr_info. nf; apply nofuel_sel_loop. Qed.
Lemma cons1_pcr_info : cons 1 pcr_info.
Proof.
  unfold pcr_info. apply (cons_bind 1 0); [apply cons_read_be1; lia|]. intros ?. c0; apply cons_sel_loop.
Qed.

Lemma nopanic_elt_pconf : nopanic elt_pconf. Proof. unfold elt_pconf. np; apply nopanic_pcr_info. Qed.
Lemma nofuel_elt_pconf : nofuel elt_pconf.
Proof. unfold elt_pconf. nf. apply nofuel_repeat_n; [apply nofuel_pcr_info | apply cons1_pcr_info]. Qed.
Lemma cons_elt_pconf : cons 0 elt_pconf.
Proof. unfold elt_pconf. c0. eapply cons_weaken; [apply cons1_pcr_info | lia]. Qed.

(** the only panic site of the LCP decoders: [make([]byte, Size-32)] *)
Lemma nopanic_elt_custom fx size : fx_custom_min fx = true -> nopanic (elt_custom fx size).
Proof.
  intros Hfx. unfold elt_custom. rewrite Hfx. cbn [andb].
  np. apply nopanic_alloc_chk. assumption.
Qed.
Lemma nofuel_elt_custom fx size : nofuel (elt_custom fx size). Proof. unfold elt_custom. nf. Qed.
Lemma cons_elt_custom fx size : cons 0 (elt_custom fx size). Proof. unfold elt_custom. c0. Qed.

Lemma nopanic_element fx : fx_custom_min fx = true -> nopanic (element fx).
Proof.
  intros Hfx. unfold element. np;
    first [apply nopanic_elt_mle | apply nopanic_elt_sbios | apply nopanic_elt_pconf | now apply nopanic_elt_custom].
Qed.
Lemma nofuel_element fx : nofuel (element fx).
Proof.
  unfold element. nf;
    first [apply nofuel_elt_mle | apply nofuel_elt_sbios | apply nofuel_elt_pconf | apply nofuel_elt_custom].
Qed.
Lemma cons1_element fx : cons 1 (element fx).
Proof.
  unfold element. apply (cons_bind 1 0); [apply cons_read_le1; lia|]. intros ?. c0;
    first [apply cons_elt_mle | apply cons_elt_sbios | apply cons_elt_pconf | apply cons_elt_custom].
Qed.
Lemma cons0_element fx : cons 0 (element fx).
Proof. eapply cons_weaken; [apply cons1_element | lia]. Qed.

Lemma nopanic_lcp_signature : nopanic lcp_signature. Proof. unfold lcp_signature. np. Qed.
Lemma nofuel_lcp_signature : nofuel lcp_signature. Proof. unfold lcp_signature. nf. Qed.
Lemma cons_lcp_signature : cons 0 lcp_signature. Proof. unfold lcp_signature. c0. Qed.

Lemma nopanic_list1_loop fx e : fx_custom_min fx = true -> nopanic (list1_loop fx e).
Proof. intros. unfold list1_loop. np. now apply nopanic_element. Qed.
Lemma nofuel_list1_loop fx e : nofuel (list1_loop fx e).
Proof.
  unfold list1_loop. nf. apply nofuel_loop; intros x.
  - nf. apply nofuel_element.
  - apply (cons_bind 1 0); [apply cons1_element | intros; apply cons_ret].
Qed.
Lemma cons_list1_loop fx e : cons 0 (list1_loop fx e).
Proof. unfold list1_loop. c0. apply cons0_element. Qed.

Lemma nopanic_policy_list1 fx : fx_custom_min fx = true -> nopanic (policy_list1 fx).
Proof. intros. unfold policy_list1. np; first [now apply nopanic_list1_loop | apply nopanic_lcp_signature]. Qed.
Lemma nofuel_policy_list1 fx : nofuel (policy_list1 fx).
Proof. unfold policy_list1. nf; first [apply nofuel_list1_loop | apply nofuel_lcp_signature]. Qed.
Lemma cons1_policy_list1 fx : cons 1 (policy_list1 fx).
Proof.
  unfold policy_list1. apply (cons_bind 1 0); [apply cons_read_le1; lia|]. intros ?.
  c0; first [apply cons_list1_loop | apply cons_lcp_signature].
Qed.

Lemma nopanic_policy_list2 fx : fx_custom_min fx = true -> nopanic (policy_list2 fx).
Proof. intros. unfold policy_list2. np. now apply nopanic_element. Qed.
Lemma nofuel_policy_list2 fx : nofuel (policy_list2 fx).
Proof.
  unfold policy_list2. nf. apply nofuel_repeat_n.
  - nf. apply nofuel_element.
  - apply (cons_bind 1 0); [apply cons1_element | intros; apply cons_ret].
Qed.
Lemma cons1_policy_list2 fx : cons 1 (policy_list2 fx).
Proof.
  unfold policy_list2. apply (cons_bind 1 0); [apply cons_read_le1; lia|]. intros ?. c0. apply cons0_element.
Qed.

Theorem policy_data_nopanic fx : fx_custom_min fx = true -> nopanic (policy_data fx).
Proof.
  intros. unfold policy_data. np; first [now apply nopanic_policy_list1 | now apply nopanic_policy_list2].
Qed.
Theorem policy_data_nofuel fx : nofuel (policy_data fx).
Proof.
  unfold policy_data. nf. apply nofuel_repeat_n.
  - nf; first [apply nofuel_policy_list1 | apply nofuel_policy_list2].
  - apply cons_or_else; [apply cons1_policy_list1 | apply cons1_policy_list2].
Qed.

(** closed witnesses against the code before the repairs *)
Definition LCP_SIG : list Z :=
  [73; 110; 116; 101; 108; 40; 82; 41; 32; 84; 88; 84; 32; 76; 67; 80; 95; 80; 79; 76; 73; 67; 89; 95; 68; 65; 84; 65; 0; 0; 0; 0].
(** signature, 3 reserved bytes, NumLists = 1, list (version 0x100, no
    signature, PolicyElementSize 100), one custom element with the given Size *)
Definition custom_witness (size : list Z) : list Z :=
  LCP_SIG ++ [0; 0; 0; 1] ++ [0; 1; 0; 0; 100; 0; 0; 0] ++ size ++ [3; 0; 0; 0; 0; 0; 0; 0]
  ++ [239; 190; 173; 222; 1; 0; 2; 0; 3; 0; 1; 2; 3; 4; 5; 6] ++ [205; 205; 205; 205; 205; 205; 205; 205].

Lemma policy_data_panics : run (policy_data legacy) (custom_witness [20; 0; 0; 0]) = RPanic.
Proof. vm_compute. reflexivity. Qed.
Lemma policy_data_allocates :
  lenZ (custom_witness [0; 0; 0; 64]) = 80 /\
  2147483648 <= res_alloc (run (policy_data legacy) (custom_witness [0; 0; 0; 64])).
Proof. vm_compute. split; [reflexivity | discriminate]. Qed.

(** * LCP policy (ParsePolicy) *)

Lemma nopanic_parse_policy1 : nopanic parse_policy1. Proof. unfold parse_policy1. np. Qed.
Lemma nofuel_parse_policy1 : nofuel parse_policy1. Proof. unfold parse_policy1. nf. Qed.
Lemma nopanic_parse_policy2 b : nopanic (parse_policy2 b). Proof. unfold parse_policy2. np. Qed.
Lemma nofuel_parse_policy2 b : nofuel (parse_policy2 b). Proof. unfold parse_policy2. nf. Qed.
Theorem parse_policy_nopanic b i : nopanic (parse_policy b i).
Proof. unfold parse_policy. np; first [apply nopanic_parse_policy1 | apply nopanic_parse_policy2]. Qed.
Theorem parse_policy_nofuel b i : nofuel (parse_policy b i).
Proof. unfold parse_policy. nf; first [apply nofuel_parse_policy1 | apply nofuel_parse_policy2]. Qed.

(** * ACM *)

Theorem lookup_acm_size_nopanic fx h : fx_bounds fx = true -> nopanic (lookup_acm_size fx h).
Proof. intros H. unfold lookup_acm_size. rewrite H. np. Qed.
Theorem lookup_acm_size_nofuel fx h : nofuel (lookup_acm_size fx h).
Proof. unfold lookup_acm_size. nf. Qed.
Lemma lookup_acm_size_panics : run (lookup_acm_size legacy (repeat 0 16)) (repeat 0 16) = RPanic.
Proof. vm_compute. reflexivity. Qed.
Lemma lookup_acm_size_short h : lenZ h < 32 -> forall s, lookup_acm_size legacy h s = RPanic.
Proof.
  intros H s. unfold lookup_acm_size. destruct (has_len h 32) eqn:E; [apply has_len_true in E; lia | reflexivity].
Qed.
Lemma lookup_acm_size_short_err h : lenZ h < 32 -> forall s, lookup_acm_size faithful h s = RErr E_FIX s.
Proof.
  intros H s. unfold lookup_acm_size. destruct (has_len h 32) eqn:E; [apply has_len_true in E; lia | reflexivity].
Qed.

Theorem acm_info_w_nopanic pw fx t : nopanic (acm_info_w pw fx t). Proof. unfold acm_info_w. np. Qed.
Theorem acm_info_w_nofuel pw fx t : nofuel (acm_info_w pw fx t). Proof. unfold acm_info_w. nf. Qed.
Theorem acm_info_nopanic fx t : nopanic (acm_info fx t). Proof. apply acm_info_w_nopanic. Qed.
Theorem acm_info_nofuel fx t : nofuel (acm_info fx t). Proof. apply acm_info_w_nofuel. Qed.
(** user area: 48 zero bytes (all list offsets 0); module: Chipsets.Count = 0x08000000 *)
Lemma acm_info_allocates :
  2147483648 <= res_alloc (run (acm_info legacy [0; 0; 0; 8]) (repeat 0 48)).
Proof. vm_compute. discriminate. Qed.

(** * TXT register space (pkg/tools/txt.go) *)

Ltac np_slices :=
  repeat first
  [ (apply nopanic_slice_at; assumption)
  | apply nopanic_ret | apply nopanic_fail | apply nopanic_read_n | apply nopanic_read_le | apply nopanic_seek
  | match goal with |- nopanic (bind _ _) => apply nopanic_bind; [ | intros ? ] end
  | rd_case ].

Theorem parse_txt_regs_nopanic fx d : fx_bounds fx = true -> nopanic (parse_txt_regs fx d).
Proof. intros H. unfold parse_txt_regs. np_slices. Qed.
Theorem parse_txt_regs_nofuel fx d : nofuel (parse_txt_regs fx d).
Proof. unfold parse_txt_regs. nf. Qed.
Lemma parse_txt_regs_panics : run (parse_txt_regs legacy (repeat 0 16)) (repeat 0 16) = RPanic.
Proof. vm_compute. reflexivity. Qed.

Theorem parse_bios_data_nopanic : nopanic parse_bios_data. Proof. unfold parse_bios_data. np. Qed.
Theorem parse_bios_data_nofuel : nofuel parse_bios_data. Proof. unfold parse_bios_data. nf. Qed.

Theorem read_acm_status_nopanic fx d : fx_bounds fx = true -> nopanic (read_acm_status fx d).
Proof. intros H. unfold read_acm_status. np_slices. Qed.
Theorem read_acm_status_nofuel fx d : nofuel (read_acm_status fx d). Proof. unfold read_acm_status. nf. Qed.
Lemma read_acm_status_panics : run (read_acm_status legacy (repeat 0 16)) (repeat 0 16) = RPanic.
Proof. vm_compute. reflexivity. Qed.

Theorem read_raw64_at_nopanic d o : nopanic (read_raw64_at d o). Proof. unfold read_raw64_at. np. Qed.
Theorem read_raw64_at_nofuel d o : nofuel (read_raw64_at d o). Proof. unfold read_raw64_at. nf. Qed.

(** * pkg/registers: Read*, ReadTXTRegisters *)

Lemma read_reg_nopanic fx d e : fx_bounds fx = true -> nopanic (read_reg fx d e).
Proof.
  destruct e as [[off w] sl]. intros H. unfold read_reg. destruct sl; np_slices.
Qed.
Lemma read_reg_nofuel fx d e : nofuel (read_reg fx d e).
Proof. destruct e as [[off w] sl]. unfold read_reg. nf. Qed.

Lemma read_txt_loop_nopanic fx d : fx_bounds fx = true -> forall tbl n acc, nopanic (read_txt_loop fx d tbl n acc).
Proof.
  intros Hfx. induction tbl as [|e t IH]; intros n acc s; cbn [read_txt_loop].
  - destruct (0 <? n); discriminate.
  - pose proof (read_reg_nopanic fx d e Hfx s) as Hp.
    destruct (read_reg fx d e s); try congruence; apply IH.
Qed.
Lemma read_txt_loop_nofuel fx d : forall tbl n acc, nofuel (read_txt_loop fx d tbl n acc).
Proof.
  induction tbl as [|e t IH]; intros n acc s; cbn [read_txt_loop].
  - destruct (0 <? n); discriminate.
  - pose proof (read_reg_nofuel fx d e s) as Hp.
    destruct (read_reg fx d e s); try congruence; apply IH.
Qed.

Theorem read_txt_registers_nopanic fx d : fx_bounds fx = true -> nopanic (read_txt_registers fx d).
Proof. intros H. unfold read_txt_registers. now apply read_txt_loop_nopanic. Qed.
Theorem read_txt_registers_nofuel fx d : nofuel (read_txt_registers fx d).
Proof. unfold read_txt_registers. apply read_txt_loop_nofuel. Qed.
Lemma read_txt_registers_panics : run (read_txt_registers legacy (repeat 0 16)) (repeat 0 16) = RPanic.
Proof. vm_compute. reflexivity. Qed.

(** every Read* function (and an index outside the table) returns a value or an error *)
Theorem read_reg_k_nopanic fx d k : fx_bounds fx = true -> nopanic (read_reg_k fx d k).
Proof.
  intros H. unfold read_reg_k. destruct (nth_error _ _); [now apply read_reg_nopanic | apply nopanic_fail].
Qed.
Theorem read_reg_k_nofuel fx d k : nofuel (read_reg_k fx d k).
Proof. unfold read_reg_k. destruct (nth_error _ _); [apply read_reg_nofuel | apply nofuel_fail]. Qed.
(** ... before the repair a slicing reader panicked when the image was shorter than its offset *)
Theorem read_reg_k_panics d k off w :
  nth_error txt_reg_table (Z.to_nat k) = Some (off, w, true) -> lenZ d < off ->
  forall s, read_reg_k legacy d k s = RPanic.
Proof.
  intros Hk Hl s. unfold read_reg_k. rewrite Hk. unfold read_reg, bind, slice_at, slice_from. cbn [fx_bounds legacy].
  destruct (has_len d off) eqn:E; [apply has_len_true in E; lia | reflexivity].
Qed.
(** ... and now the read fails with io.EOF *)
Theorem read_reg_k_short_eof d k off w sl :
  nth_error txt_reg_table (Z.to_nat k) = Some (off, w, sl) -> 0 < w -> 0 <= off -> lenZ d <= off ->
  forall s, read_reg_k faithful d k s = RErr E_EOF (tick (set_rest s [])).
Proof.
  intros Hk Hw Ho Hl s. unfold read_reg_k. rewrite Hk. unfold read_reg, bind, slice_at. cbn [fx_bounds faithful].
  assert (HD : dropZ d off = []).
  { pose proof (dropZ_lenZ d off Ho) as HL. destruct (dropZ d off); [reflexivity|]. unfold lenZ in *. cbn [length] in HL. lia. }
  destruct sl; unfold seek, read_n; cbn [set_rest s_rest]; rewrite HD;
    (destruct (w <=? 0) eqn:E; [apply Z.leb_le in E; lia | reflexivity]).
Qed.

(** * ValueFromBytes *)
Theorem value_from_bytes_nopanic id b : nopanic (value_from_bytes id b).
Proof. unfold value_from_bytes, value_from_bytes_g. np. Qed.
Theorem value_from_bytes_nofuel id b : nofuel (value_from_bytes id b).
Proof. unfold value_from_bytes, value_from_bytes_g. nf. Qed.

(** * sysfs PCR dump *)

Lemma match_lit_total : forall lit l, match_lit lit l <> Panic /\ match_lit lit l <> OutOfFuel.
Proof.
  induction lit as [|c t IH]; intros l; cbn [match_lit]; [split; discriminate|].
  destruct l as [|x l']; [split; discriminate|]. destruct (x =? c); [apply IH | split; discriminate].
Qed.
Lemma hex_string_total : forall n l, (length l <= n)%nat -> hex_string l <> Panic /\ hex_string l <> OutOfFuel.
Proof.
  induction n as [|n IH]; intros l Hl.
  - destruct l; [cbn; split; discriminate | cbn in Hl; lia].
  - destruct l as [|h t]; [cbn; split; discriminate|]. cbn [hex_string].
    destruct (is_hexd h); [|split; discriminate].
    destruct t as [|lo t2]; [split; discriminate|].
    destruct (is_hexd lo); [|split; discriminate].
    cbn in Hl. destruct (IH t2 ltac:(lia)) as [H1 H2].
    destruct (hex_string t2); try congruence; split; discriminate.
Qed.

Lemma scan_tail_total : forall v l3, scan_tail v l3 <> Panic /\ scan_tail v l3 <> OutOfFuel.
Proof.
  intros v l3. unfold scan_tail. destruct (match_lit_total [58] l3) as [N1 N2].
  destruct (match_lit [58] l3) as [l4|c| |]; try congruence; [|split; discriminate].
  destruct (skip_space l4) as [|x5 l5]; [split; discriminate|].
  destruct (hex_string_total _ (x5 :: l5) (le_n _)) as [H1 H2].
  destruct (hex_string (x5 :: l5)) as [[|v0 v']|c| |]; try congruence; split; discriminate.
Qed.

Lemma sscanf_pcr_total : forall line, sscanf_pcr line <> Panic /\ sscanf_pcr line <> OutOfFuel.
Proof.
  intros line. unfold sscanf_pcr.
  destruct (match_lit_total [80; 67; 82; 45] line) as [M1 M2].
  destruct (match_lit [80; 67; 82; 45] line) as [l0|c| |]; try congruence; [|split; discriminate].
  destruct (skip_space l0) as [|c0 t0]; [split; discriminate|]. cbv zeta.
  destruct (if (c0 =? 43) || (c0 =? 45) then t0 else c0 :: t0) as [|d1 t1]; [split; discriminate|].
  destruct (is_digit d1); [apply scan_tail_total | split; discriminate].
Qed.

Lemma set_nth_some : forall l i v, (i < length l)%nat -> exists l', set_nth l i v = Some l' /\ length l' = length l.
Proof.
  induction l as [|x t IH]; intros i v Hi; [cbn in Hi; lia|].
  destruct i as [|i]; cbn [set_nth].
  - eexists; split; [reflexivity | reflexivity].
  - cbn in Hi. destruct (IH i v ltac:(lia)) as [l' [E L]]. rewrite E. eexists; split; [reflexivity|]. cbn. lia.
Qed.

Lemma sysfs_loop_total : forall lines ln pcrs s, length pcrs = 24%nat ->
  sysfs_loop true lines ln pcrs s <> RPanic /\ sysfs_loop true lines ln pcrs s <> RFuel.
Proof.
  induction lines as [|line t IH]; intros ln pcrs s Hl; cbn [sysfs_loop]; [split; discriminate|].
  destruct line as [|c0 lt]; [now apply IH|].
  destruct (sscanf_pcr_total (filter (fun c => negb (c =? 32)) (c0 :: lt))) as [S1 S2].
  destruct (sscanf_pcr _) as [[idx v]|c| |]; try congruence; [|split; discriminate].
  cbn [andb]. destruct ((idx <? 0) || (AMOUNT_OF_PCRS <=? idx)) eqn:Eg; [split; discriminate|].
  destruct (negb (ln =? idx)); [split; discriminate|].
  destruct (negb (lenZ v =? 20)); [split; discriminate|].
  apply orb_false_iff in Eg. destruct Eg as [E1 E2]. apply Z.ltb_ge in E1. apply Z.leb_gt in E2.
  unfold AMOUNT_OF_PCRS in E2.
  destruct (set_nth_some pcrs (Z.to_nat idx) v ltac:(lia)) as [p' [E L]].
  rewrite E. apply IH. lia.
Qed.

Theorem parse_sysfs_pcrs_total d s : parse_sysfs_pcrs d s <> RPanic /\ parse_sysfs_pcrs d s <> RFuel.
Proof.
  unfold parse_sysfs_pcrs, parse_sysfs_pcrs_g, bind.
  destruct (sysfs_loop_total (split_on 10 d) 0 (repeat [] 24) s ltac:(reflexivity)) as [H1 H2].
  destruct (sysfs_loop _ _ _ _ _); try congruence; split; discriminate.
Qed.

(** a 25-line dump: line i is "PCR-ii:" followed by 40 hex digits *)
Definition sysfs_line (i : Z) : list Z := [80; 67; 82; 45; 48 + i / 10; 48 + i mod 10; 58] ++ repeat 48 40 ++ [10].
Definition sysfs_25 : list Z := flat_map sysfs_line (seqZ 0 25).
Lemma sysfs_unguarded_panics :
  run (parse_sysfs_pcrs_g false sysfs_25) sysfs_25 = RPanic /\
  outcome_of (run (parse_sysfs_pcrs sysfs_25) sysfs_25) = Err E_OTHER.
Proof. vm_compute. split; reflexivity. Qed.

(** * TPM detection capability file *)
Lemma caps_loop_total : forall lines s, caps_loop lines s <> RPanic /\ caps_loop lines s <> RFuel.
Proof.
  induction lines as [|l t IH]; intros s; cbn [caps_loop]; [split; discriminate|].
  destruct (split_colon l) as [[k v]|]; [|split; discriminate].
  destruct (zlist_eqb _ _); [split; discriminate | apply IH].
Qed.
Theorem local_caps_total d s : local_caps d s <> RPanic /\ local_caps d s <> RFuel.
Proof.
  unfold local_caps, bind. destruct (caps_loop_total (split_on 10 d) s) as [H1 H2].
  destruct (caps_loop _ _); try congruence; split; discriminate.
Qed.

(** * BytesRange, DecryptPrivKey framing *)
Theorem bytes_range_total l a b s : bytes_range l a b s <> RPanic /\ bytes_range l a b s <> RFuel.
Proof. unfold bytes_range. destruct (_ || _); split; discriminate. Qed.

Theorem decrypt_frame_nopanic fx pw d : fx_bounds fx = true -> nopanic (decrypt_frame fx pw d).
Proof.
  intros H. unfold decrypt_frame. rewrite H. destruct pw; [|apply nopanic_ret].
  destruct (has_len d 12); [apply nopanic_ret | apply nopanic_fail].
Qed.
Lemma decrypt_frame_panics : run (decrypt_frame legacy true [1; 2; 3]) [1; 2; 3] = RPanic.
Proof. vm_compute. reflexivity. Qed.

(** * Steps and allocation of the straight-line decoders

    [cost K r]: whatever [r] returns, it took at most [K] more steps (reads)
    and allocated nothing. *)
Definition cost {A} (K : Z) (r : rd A) : Prop := forall s,
  match r s with
  | ROk _ s' | RErr _ s' => s_steps s' <= s_steps s + K /\ s_alloc s' = s_alloc s
  | _ => True
  end.

Lemma cost_ret {A} K (a : A) : 0 <= K -> cost K (ret a). Proof. intros H s; cbn; lia. Qed.
Lemma cost_fail {A} K c : 0 <= K -> cost K (@fail A c). Proof. intros H s; cbn; lia. Qed.
Lemma cost_panic {A} K : cost K (@panic A). Proof. intros s; exact I. Qed.
Lemma cost_seek K w o : 0 <= K -> cost K (seek w o). Proof. intros H s; cbn; lia. Qed.
Lemma cost_slice_from K w o : 0 <= K -> cost K (slice_from w o).
Proof. intros H s. unfold slice_from. destruct (has_len w o); cbn; auto; lia. Qed.
Lemma cost_slice_at K fx w o : 0 <= K -> cost K (slice_at fx w o).
Proof. intros H. unfold slice_at. destruct (fx_bounds fx); [now apply cost_seek | now apply cost_slice_from]. Qed.
Lemma cost_read_n K n : 1 <= K -> cost K (read_n n).
Proof.
  intros H s. unfold read_n. destruct (n <=? 0); [cbn; lia|]. destruct (s_rest s); [cbn; lia|].
  destruct (takeZ _ _) as [[? ?]|]; cbn; lia.
Qed.
Lemma cost_bind {A B} K k1 (r : rd A) (f : A -> rd B) :
  cost k1 r -> 0 <= K - k1 -> (forall a, cost (K - k1) (f a)) -> cost K (bind r f).
Proof.
  intros Hr Hk Hf s. unfold bind. specialize (Hr s). destruct (r s) as [a s1|c s1| |]; auto; [|lia].
  specialize (Hf a s1). destruct (f a s1); auto; lia.
Qed.
Lemma cost_read_le K n : 1 <= K -> cost K (read_le n).
Proof. intros. apply (cost_bind K 1); [now apply cost_read_n | lia | intros; apply cost_ret; lia]. Qed.
Lemma cost_catch_eof {A} K (r : rd A) d : cost K r -> cost K (catch_eof r d).
Proof. intros Hr s. unfold catch_eof. specialize (Hr s). destruct (r s); auto. destruct (_ =? _); auto. Qed.

Ltac cst := repeat first
  [ (apply cost_ret; lia) | (apply cost_fail; lia) | apply cost_panic
  | match goal with |- cost _ (bind (read_le _) _) => apply (cost_bind _ 1); [apply cost_read_le; lia | lia | intros ?] end
  | match goal with |- cost _ (bind (read_n _) _) => apply (cost_bind _ 1); [apply cost_read_n; lia | lia | intros ?] end
  | match goal with |- cost _ (bind (seek _ _) _) => apply (cost_bind _ 0); [apply cost_seek; lia | lia | intros ?] end
  | match goal with |- cost _ (bind (slice_from _ _) _) => apply (cost_bind _ 0); [apply cost_slice_from; lia | lia | intros ?] end
  | match goal with |- cost _ (bind (slice_at _ _ _) _) => apply (cost_bind _ 0); [apply cost_slice_at; lia | lia | intros ?] end
  | match goal with |- cost _ (bind (catch_eof (read_n _) _) _) => apply (cost_bind _ 1); [apply cost_catch_eof, cost_read_n; lia | lia | intros ?] end
  | (apply cost_read_le; lia) | (apply cost_read_n; lia)
  | match goal with |- cost _ (bind (if ?b then _ else _) _) => destruct b end
  | match goal with |- cost _ (bind _ _) => apply (cost_bind _ 1); [solve [cst] | lia | intros ?] end
  | rd_case ].

Theorem parse_policy_cost b i : cost 15 (parse_policy b i).
Proof.
  unfold parse_policy. apply (cost_bind _ 1); [apply cost_read_le; lia | lia | intros ver].
  destruct (ver <=? LCPPolicyVersion2); [|destruct (ver >=? LCPPolicyVersion3)].
  - unfold parse_policy1. cst.
  - unfold parse_policy2. cst.
  - apply cost_fail; lia.
Qed.
Theorem parse_txt_regs_cost fx d : cost 22 (parse_txt_regs fx d). Proof. unfold parse_txt_regs. cst. Qed.
Theorem parse_bios_data_cost : cost 8 parse_bios_data.
Proof. unfold parse_bios_data. cst. Qed.
Theorem read_acm_status_cost fx d : cost 1 (read_acm_status fx d). Proof. unfold read_acm_status. cst. Qed.
Theorem read_raw64_at_cost d o : cost 1 (read_raw64_at d o). Proof. unfold read_raw64_at. cst. Qed.
Theorem lookup_acm_size_cost fx h : cost 1 (lookup_acm_size fx h). Proof. unfold lookup_acm_size. cst. Qed.
Theorem value_from_bytes_cost id b : cost 1 (value_from_bytes id b). Proof. unfold value_from_bytes, value_from_bytes_g. cst. Qed.
Lemma read_reg_cost fx d e : cost 1 (read_reg fx d e).
Proof. destruct e as [[off w] sl]. unfold read_reg. destruct sl; cst. Qed.
Theorem read_reg_k_cost fx d k : cost 1 (read_reg_k fx d k).
Proof. unfold read_reg_k. destruct (nth_error _ _); [apply read_reg_cost | apply cost_fail; lia]. Qed.
Lemma read_txt_loop_cost fx d : forall tbl n acc, cost (Z.of_nat (length tbl)) (read_txt_loop fx d tbl n acc).
Proof.
  induction tbl as [|e t IH]; intros n acc s; cbn [read_txt_loop length].
  - destruct (0 <? n); cbn; lia.
  - pose proof (read_reg_cost fx d e s) as Hc. destruct (read_reg fx d e s) as [v s1|c s1| |]; auto.
    + specialize (IH n (rev_append v acc) s1). destruct (read_txt_loop fx d t n _ s1); auto; lia.
    + specialize (IH (n + 1) acc s1). destruct (read_txt_loop fx d t _ acc s1); auto; lia.
Qed.
Theorem read_txt_registers_cost fx d : cost 16 (read_txt_registers fx d).
Proof. unfold read_txt_registers. apply (read_txt_loop_cost fx d txt_reg_table 0 []). Qed.

(** from [cost] to the statement about a run *)
Lemma cost_run {A} K (r : rd A) input :
  0 <= K -> cost K r -> res_steps (run r input) <= K /\ res_alloc (run r input) = 0.
Proof.
  intros HK H. unfold run. specialize (H (mkSt input 0 0)).
  destruct (r _); cbn [res_steps res_alloc s_steps s_alloc] in *; lia.
Qed.

(** * Steps of the streaming decoders: a potential argument

    [phi s] = steps taken + bytes left.  A successful read of n >= 1 bytes
    costs one step and gives n bytes back; a failing read costs one step; the
    only place where the potential can grow on success is the fall-back from
    parsePolicyList to parsePolicyList2 (one failed read per list, at most 255
    lists).  Hence steps <= |input| + c. *)
Definition phi (s : st) : Z := s_steps s + lenZ (s_rest s).
Definition pot {A} (eo ee : Z) (r : rd A) : Prop := forall s,
  match r s with
  | ROk _ s' => phi s' <= phi s + eo
  | RErr _ s' => phi s' <= phi s + ee
  | _ => True
  end.
Notation pot01 := (pot 0 1).

Lemma pot_weaken {A} eo ee eo' ee' (r : rd A) : pot eo ee r -> eo <= eo' -> ee <= ee' -> pot eo' ee' r.
Proof. intros H H1 H2 s. specialize (H s). destruct (r s); auto; lia. Qed.
Lemma pot_ret {A} (a : A) : pot01 (ret a). Proof. intros s; cbn; lia. Qed.
Lemma pot_fail {A} c : pot01 (@fail A c). Proof. intros s; cbn; lia. Qed.
Lemma pot_read_n n : pot01 (read_n n).
Proof.
  intros s. unfold read_n, phi. destruct (n <=? 0) eqn:E0; [cbn; lia|]. apply Z.leb_gt in E0.
  destruct (s_rest s) eqn:E; [cbn; rewrite E; cbn; lia|]. rewrite <- E.
  destruct (takeZ (s_rest s) n) as [[a r]|] eqn:T; cbn.
  - apply takeZ_some in T. destruct T as (_ & T & _). specialize (T E0). unfold lenZ. lia.
  - unfold lenZ. cbn. lia.
Qed.
Lemma pot_bind {A B} (r : rd A) (f : A -> rd B) : pot01 r -> (forall a, pot01 (f a)) -> pot01 (bind r f).
Proof.
  intros Hr Hf s. unfold bind. specialize (Hr s). destruct (r s) as [a s1|c s1| |]; auto.
  specialize (Hf a s1). destruct (f a s1); auto; lia.
Qed.
Lemma pot_read_le n : pot01 (read_le n). Proof. apply pot_bind; [apply pot_read_n | intros; apply pot_ret]. Qed.
Lemma pot_read_be n : pot01 (read_be n). Proof. apply pot_bind; [apply pot_read_n | intros; apply pot_ret]. Qed.
Lemma pot_alloc n e : pot01 (alloc n e). Proof. intros s; cbn; unfold phi; cbn; lia. Qed.
Lemma pot_alloc_chk n e : pot01 (alloc_chk n e).
Proof. intros s. unfold alloc_chk. destruct (n <? 0); auto. unfold phi; cbn; lia. Qed.
Lemma pot_cap_guard fx n : pot01 (cap_guard fx n).
Proof. intros s. unfold cap_guard. destruct (_ && _); cbn; lia. Qed.
Lemma pot_read_slice n : pot01 (read_slice n).
Proof. unfold read_slice. destruct (n <=? 0); [apply pot_ret|]. apply pot_bind; [apply pot_alloc | intros; apply pot_read_n]. Qed.
Lemma pot_loopS {X} (cont : X -> bool) (body : X -> rd X) :
  (forall x, pot01 (body x)) -> forall fuel x, pot01 (loopS fuel cont body x).
Proof.
  intros Hb. induction fuel as [|f IH]; intros x s; cbn [loopS]; destruct (cont x); cbn; try lia; auto.
  specialize (Hb x s). destruct (body x s) as [x' s'|c s'| |]; auto.
  specialize (IH x' s'). destruct (loopS f cont body x' s'); auto; lia.
Qed.
Lemma pot_loop {X} (cont : X -> bool) (body : X -> rd X) x : (forall x, pot01 (body x)) -> pot01 (loop cont body x).
Proof. intros Hb s. unfold loop. now apply pot_loopS. Qed.
Lemma pot_repeat_n n b : pot01 b -> pot01 (repeat_n n b).
Proof.
  intros Hb. unfold repeat_n. apply pot_bind; [|intros; apply pot_ret].
  apply pot_loop; intros x. apply pot_bind; [exact Hb | intros; apply pot_ret].
Qed.
Lemma pot_or_else {A} (r h : rd A) : pot01 r -> pot01 h -> pot 1 2 (or_else r h).
Proof.
  intros Hr Hh s. unfold or_else. specialize (Hr s). destruct (r s) as [a s1|c s1| |]; auto; [lia|].
  specialize (Hh s1). destruct (h s1); auto; lia.
Qed.

Ltac pt := repeat first
  [ apply pot_ret | apply pot_fail | apply pot_read_n | apply pot_read_le | apply pot_read_be
  | apply pot_alloc | apply pot_alloc_chk | apply pot_cap_guard | apply pot_read_slice
  | match goal with |- pot 0 1 (bind _ _) => apply pot_bind; [ | intros ? ] end
  | apply pot_repeat_n | (apply pot_loop; intros ?)
  | assumption
  | rd_case ].

Lemma pot_lcp_hash a : pot01 (lcp_hash a). Proof. unfold lcp_hash. pt. Qed.
Lemma pot_elt_mle : pot01 elt_mle. Proof. unfold elt_mle. pt. Qed.
Lemma pot_elt_sbios : pot01 elt_sbios. Proof. unfold elt_sbios. pt; apply pot_lcp_hash. Qed.
Lemma pot_sel_loop n : pot01 (sel_loop n). Proof. unfold sel_loop. pt. Qed.
Lemma pot_pcr_info : pot01 pcr_info. Proof. unfold pcr_info. pt; apply pot_sel_loop. Qed.
Lemma pot_elt_pconf : pot01 elt_pconf. Proof. unfold elt_pconf. pt; apply pot_pcr_info. Qed.
Lemma pot_elt_custom fx sz : pot01 (elt_custom fx sz). Proof. unfold elt_custom. pt. Qed.
Lemma pot_element fx : pot01 (element fx).
Proof. unfold element. pt; first [apply pot_elt_mle | apply pot_elt_sbios | apply pot_elt_pconf | apply pot_elt_custom]. Qed.
Lemma pot_lcp_signature : pot01 lcp_signature. Proof. unfold lcp_signature. pt. Qed.
Lemma pot_list1_loop fx e : pot01 (list1_loop fx e). Proof. unfold list1_loop. pt. apply pot_element. Qed.
Lemma pot_policy_list1 fx : pot01 (policy_list1 fx).
Proof. unfold policy_list1. pt; first [apply pot_list1_loop | apply pot_lcp_signature]. Qed.
Lemma pot_policy_list2 fx : pot01 (policy_list2 fx). Proof. unfold policy_list2. pt. apply pot_element. Qed.

(** the loop over the lists: every iteration may lose one unit of potential *)
Lemma pot_lists_loopS (B : rd (list Z)) : pot 1 2 B ->
  forall fuel st s,
  match loopS fuel (fun st : Z * list Z => 0 <? fst st)
                   (fun st => a <- B ;; ret (fst st - 1, rev_append a (snd st))) st s with
  | ROk _ s' => phi s' <= phi s + Z.max 0 (fst st)
  | RErr _ s' => phi s' <= phi s + Z.max 0 (fst st) + 1
  | _ => True
  end.
Proof.
  intros HB. induction fuel as [|f IH]; intros st s; cbn [loopS]; destruct (0 <? fst st) eqn:E; cbn; try lia; auto.
  apply Z.ltb_lt in E. unfold bind at 1. specialize (HB s). destruct (B s) as [a s1|c s1| |]; auto; [|lia].
  cbn [ret]. specialize (IH (fst st - 1, rev_append a (snd st)) s1). cbn [fst] in IH.
  destruct (loopS f _ _ _ s1); auto; lia.
Qed.

Lemma read_le_value n s v s' : read_le n s = ROk v s' -> 0 <= v < 256 ^ Z.max 0 n.
Proof.
  unfold read_le, bind, read_n. destruct (n <=? 0) eqn:E0.
  - cbn. intros H; inversion H; subst. cbn. apply Z.leb_le in E0. rewrite Z.max_l by lia. cbn. lia.
  - destruct (s_rest s); [discriminate|]. destruct (takeZ _ n) as [[a r]|] eqn:T; [|discriminate].
    cbn. intros H; inversion H; subst. apply takeZ_some in T. destruct T as (_ & _ & _ & T).
    rewrite <- T. apply le_val_bounds.
Qed.

Lemma pot_bind_gen {A B} eo ee (r : rd A) (f : A -> rd B) :
  pot01 r -> (forall a, pot eo ee (f a)) -> 0 <= eo -> 1 <= ee -> pot eo ee (bind r f).
Proof.
  intros Hr Hf H0 H1 s. unfold bind. specialize (Hr s). destruct (r s) as [a s1|c s1| |]; auto; [|lia].
  specialize (Hf a s1). destruct (f a s1); auto; lia.
Qed.
Lemma pot_bind_le {B} eo ee n (f : Z -> rd B) :
  (forall v, 0 <= v < 256 ^ Z.max 0 n -> pot eo ee (f v)) -> 0 <= eo -> 1 <= ee -> pot eo ee (bind (read_le n) f).
Proof.
  intros Hf H0 H1 s. unfold bind. pose proof (pot_read_le n s) as Hr.
  destruct (read_le n s) as [v s1|c s1| |] eqn:E; auto; [|lia].
  apply read_le_value in E. specialize (Hf v E s1). destruct (f v s1); auto; lia.
Qed.
Lemma pot_lists n (B : rd (list Z)) : pot 1 2 B -> 0 <= n <= 255 -> pot 255 256 (repeat_n n B).
Proof.
  intros HB Hn s. unfold repeat_n, bind, loop.
  pose proof (pot_lists_loopS B HB (S (length (s_rest s))) (n, []) s) as HL. cbn [fst] in HL.
  destruct (loopS _ _ _ (n, []) s) as [x s5|c s5| |]; auto; cbn [ret]; lia.
Qed.

Theorem policy_data_pot fx : pot 255 256 (policy_data fx).
Proof.
  unfold policy_data.
  apply pot_bind_gen; [apply pot_read_n | intros sg | lia | lia].
  apply pot_bind_gen; [apply pot_read_n | intros rs | lia | lia].
  apply pot_bind_le; [intros n Hn | lia | lia]. change (256 ^ Z.max 0 1) with 256 in Hn.
  apply pot_bind_gen; [apply pot_alloc | intros _ | lia | lia].
  intros s. unfold bind.
  pose proof (pot_lists n _ (pot_or_else _ _ (pot_policy_list1 fx) (pot_policy_list2 fx)) ltac:(lia) s) as HL.
  destruct (repeat_n n _ s); auto.
Qed.

Theorem policy_data_steps fx input :
  res_steps (run (policy_data fx) input) <= lenZ input + 256.
Proof.
  unfold run. pose proof (policy_data_pot fx (mkSt input 0 0)) as H.
  destruct (policy_data fx _) as [a s|c s| |]; cbn [res_steps]; unfold phi in H; cbn [s_steps s_rest] in H;
    unfold lenZ in *; lia.
Qed.

(** * Run-level vocabulary *)

(** value or error: the run neither panics nor exhausts the loop fuel *)
Definition value_or_error {A} (r : res A) : Prop := r <> RPanic /\ r <> RFuel.

Lemma voe_run {A} (r : rd A) i : nopanic r -> nofuel r -> value_or_error (run r i).
Proof. intros H1 H2. split; [apply H1 | apply H2]. Qed.

(** * ParseRegisters (JSON register dump) *)

Lemma takeZ_shorter : forall l n a r, takeZ l n = Some (a, r) -> (length r <= length l)%nat.
Proof. intros l n a r H. apply takeZ_some in H. lia. Qed.

Lemma parse_registers_total : forall fuel enc acc s, (length enc < fuel)%nat ->
  parse_registers fuel enc acc s <> RPanic /\ parse_registers fuel enc acc s <> RFuel.
Proof.
  induction fuel as [|f IH]; intros enc acc s Hl; [lia|].
  cbn [parse_registers]. destruct enc as [|il t]; [split; discriminate|].
  destruct (takeZ t il) as [[id t1]|] eqn:T1; [|split; discriminate].
  destruct t1 as [|vl t2]; [split; discriminate|].
  destruct (takeZ t2 vl) as [[v t3]|] eqn:T2; [|split; discriminate].
  pose proof (value_from_bytes_nopanic id v (set_rest s v)) as N1.
  pose proof (value_from_bytes_nofuel id v (set_rest s v)) as N2.
  destruct (value_from_bytes id v (set_rest s v)) as [r s'|c s'| |]; try congruence; [|split; discriminate].
  apply IH. apply takeZ_shorter in T1. apply takeZ_shorter in T2. cbn [length] in *. lia.
Qed.

Theorem json_registers_total enc : value_or_error (run (parse_registers (S (length enc)) enc []) []).
Proof. unfold run. apply parse_registers_total. lia. Qed.

(** * steps of the line-oriented decoders: one per line, at most |input|+1 lines *)

Lemma split_on_length : forall sep l, (length (split_on sep l) <= S (length l))%nat.
Proof.
  induction l as [|x t IH]; cbn [split_on length]; [lia|].
  destruct (split_on sep t) as [|cur rest] eqn:E; [cbn; lia|].
  destruct (x =? sep); cbn [length] in *; lia.
Qed.

Lemma sysfs_loop_steps : forall g lines ln pcrs s,
  match sysfs_loop g lines ln pcrs s with
  | ROk _ s' | RErr _ s' => s_steps s' <= s_steps s + Z.of_nat (length lines) /\ s_alloc s' = s_alloc s
  | _ => True
  end.
Proof.
  induction lines as [|line t IH]; intros ln pcrs s; cbn [sysfs_loop length]; [cbn; lia|].
  assert (HT : forall ln' pcrs', match sysfs_loop g t ln' pcrs' (tick s) with
    | ROk _ s' | RErr _ s' => s_steps s' <= s_steps s + Z.of_nat (S (length t)) /\ s_alloc s' = s_alloc s
    | _ => True end).
  { intros ln' pcrs'. specialize (IH ln' pcrs' (tick s)). destruct (sysfs_loop g t ln' pcrs' (tick s)); auto;
      cbn [tick s_steps s_alloc] in IH; lia. }
  destruct line as [|c0 lt]; [apply HT|].
  destruct (sscanf_pcr _) as [[idx v]|c| |]; auto; [|cbn [tick s_steps s_alloc]; lia].
  destruct (_ && _); [cbn [tick s_steps s_alloc]; lia|].
  destruct (negb (ln =? idx)); [cbn [tick s_steps s_alloc]; lia|].
  destruct (negb (lenZ v =? 20)); [cbn [tick s_steps s_alloc]; lia|].
  destruct (set_nth _ _ _); [apply HT | exact I].
Qed.

Theorem parse_sysfs_pcrs_steps d :
  res_steps (run (parse_sysfs_pcrs d) d) <= lenZ d + 1 /\ res_alloc (run (parse_sysfs_pcrs d) d) = 0.
Proof.
  unfold run, parse_sysfs_pcrs, parse_sysfs_pcrs_g, bind.
  pose proof (sysfs_loop_steps true (split_on 10 d) 0 (repeat [] 24) (mkSt d 0 0)) as H.
  pose proof (split_on_length 10 d) as HL.
  destruct (sysfs_loop _ _ _ _ _) as [p s'|c s'| |]; cbn [ret res_steps res_alloc s_steps s_alloc] in *; unfold lenZ; lia.
Qed.

Lemma caps_loop_steps : forall lines s,
  match caps_loop lines s with
  | ROk _ s' | RErr _ s' => s_steps s' <= s_steps s + Z.of_nat (length lines) /\ s_alloc s' = s_alloc s
  | _ => True
  end.
Proof.
  induction lines as [|l t IH]; intros s; cbn [caps_loop length]; [cbn; lia|].
  destruct (split_colon l) as [[k v]|]; [|cbn [tick s_steps s_alloc]; lia].
  destruct (zlist_eqb _ _); [cbn [tick s_steps s_alloc]; lia|].
  specialize (IH (tick s)). destruct (caps_loop t (tick s)); auto; cbn [tick s_steps s_alloc] in IH; lia.
Qed.

Theorem local_caps_steps d :
  res_steps (run (local_caps d) d) <= lenZ d + 1 /\ res_alloc (run (local_caps d) d) = 0.
Proof.
  unfold run, local_caps, bind.
  pose proof (caps_loop_steps (split_on 10 d) (mkSt d 0 0)) as H.
  pose proof (split_on_length 10 d) as HL.
  destruct (caps_loop _ _) as [p s'|c s'| |]; cbn [ret res_steps res_alloc s_steps s_alloc] in *; unfold lenZ; lia.
Qed.

(** * LCP: the panic of the decoder before the repair came from one site only *)

Lemma elt_custom_panic_size size s : elt_custom legacy size s = RPanic -> size < 32.
Proof.
  unfold elt_custom. cbn [fx_custom_min legacy andb].
  intros H. destruct (size - 16 - 16 <? 0) eqn:E; [apply Z.ltb_lt in E; lia|]. exfalso. revert H.
  assert (N : nopanic (d1 <- read_le 4;; d2 <- read_le 2;; d3 <- read_le 2;; d4 <- read_le 2;; d5 <- read_n 6;;
                       cap_guard legacy (size - 16 - 16);;; alloc_chk (size - 16 - 16) 1;;;
                       dt <- read_slice (size - 16 - 16);; ret ([d1; d2; d3; d4] ++ d5 ++ [lenZ dt] ++ dt))).
  { np. apply nopanic_alloc_chk. exact E. }
  apply N.
Qed.

Section PanicSite.
  Variable fx : fixes.
  Hypothesis HC : forall size, nopanic (elt_custom fx size).

  Lemma nopanic_element_g : nopanic (element fx).
  Proof.
    unfold element. np;
      first [apply nopanic_elt_mle | apply nopanic_elt_sbios | apply nopanic_elt_pconf | apply HC].
  Qed.
  Lemma nopanic_list1_loop_g e : nopanic (list1_loop fx e).
  Proof. unfold list1_loop. np. apply nopanic_element_g. Qed.
  Lemma nopanic_policy_list1_g : nopanic (policy_list1 fx).
  Proof. unfold policy_list1. np; first [apply nopanic_list1_loop_g | apply nopanic_lcp_signature]. Qed.
  Lemma nopanic_policy_list2_g : nopanic (policy_list2 fx).
  Proof. unfold policy_list2. np. apply nopanic_element_g. Qed.
  Lemma nopanic_policy_data_g : nopanic (policy_data fx).
  Proof. unfold policy_data. np; first [apply nopanic_policy_list1_g | apply nopanic_policy_list2_g]. Qed.
End PanicSite.

(** the repair 6dfa3ec (reject Size < 32) changes nothing except on the inputs
    on which the decoder used to panic *)
Definition agree {A} (r1 r2 : rd A) : Prop := forall s, r1 s = RPanic \/ r1 s = r2 s.

Lemma agree_refl {A} (r : rd A) : agree r r. Proof. intros s; now right. Qed.
Lemma agree_bind {A B} (r1 r2 : rd A) (f1 f2 : A -> rd B) :
  agree r1 r2 -> (forall a, agree (f1 a) (f2 a)) -> agree (bind r1 f1) (bind r2 f2).
Proof.
  intros Hr Hf s. unfold bind. destruct (Hr s) as [E|E]; [rewrite E; now left|].
  rewrite <- E. destruct (r1 s); auto. apply Hf.
Qed.
Lemma agree_or_else {A} (r1 r2 h1 h2 : rd A) : agree r1 r2 -> agree h1 h2 -> agree (or_else r1 h1) (or_else r2 h2).
Proof.
  intros Hr Hh s. unfold or_else. destruct (Hr s) as [E|E]; [rewrite E; now left|].
  rewrite <- E. destruct (r1 s); auto.
Qed.
Lemma agree_loopS {X} (cont : X -> bool) (b1 b2 : X -> rd X) :
  (forall x, agree (b1 x) (b2 x)) -> forall fuel x, agree (loopS fuel cont b1 x) (loopS fuel cont b2 x).
Proof.
  intros Hb. induction fuel as [|f IH]; intros x s; cbn [loopS]; destruct (cont x); auto.
  destruct (Hb x s) as [E|E]; [rewrite E; now left|]. rewrite <- E. destruct (b1 x s); auto. apply IH.
Qed.
Lemma agree_loop {X} (cont : X -> bool) (b1 b2 : X -> rd X) x :
  (forall x, agree (b1 x) (b2 x)) -> agree (loop cont b1 x) (loop cont b2 x).
Proof. intros Hb s. unfold loop. now apply agree_loopS. Qed.
Lemma agree_repeat_n n (b1 b2 : rd (list Z)) : agree b1 b2 -> agree (repeat_n n b1) (repeat_n n b2).
Proof.
  intros Hb. unfold repeat_n. apply agree_bind; [|intros; apply agree_refl].
  apply agree_loop. intros x. apply agree_bind; [exact Hb | intros; apply agree_refl].
Qed.

Definition fix_custom : fixes := mkFx true false false.

(** [agree_refl] only where both sides are syntactically the same reader (a
    failing unification of two large decoders would normalise both) *)
Ltac ag_same := match goal with |- agree ?a ?b => constr_eq a b; apply agree_refl end.
Ltac ag_prefix := repeat (apply agree_bind; [ag_same | intros ?]).

Lemma agree_elt_custom size : agree (elt_custom legacy size) (elt_custom fix_custom size).
Proof.
  unfold elt_custom, cap_guard. cbn [fx_custom_min fx_cap legacy fix_custom andb].
  ag_prefix.
  destruct (size - 16 - 16 <? 0) eqn:E; [|ag_same].
  intros s. left. unfold bind, alloc_chk. rewrite E. reflexivity.
Qed.

Lemma agree_element : agree (element legacy) (element fix_custom).
Proof.
  unfold element. ag_prefix.
  apply agree_bind; [|intros; apply agree_refl].
  repeat (match goal with |- agree (if ?b then _ else _) _ => destruct b end); try ag_same.
  apply agree_elt_custom.
Qed.

Theorem policy_data_fix_conservative : agree (policy_data legacy) (policy_data fix_custom).
Proof.
  unfold policy_data. ag_prefix.
  apply agree_bind; [|intros; apply agree_refl].
  apply agree_repeat_n. apply agree_or_else.
  - unfold policy_list1. ag_prefix.
    apply agree_bind; [|intros; apply agree_refl].
    unfold list1_loop. apply agree_bind; [|intros; apply agree_refl].
    apply agree_loop. intros x. apply agree_bind; [apply agree_element | intros; apply agree_refl].
  - unfold policy_list2, cap_guard. cbn [fx_cap legacy fix_custom andb]. ag_prefix.
    apply agree_bind; [|intros; apply agree_refl].
    apply agree_repeat_n. apply agree_bind; [apply agree_element | intros; apply agree_refl].
Qed.


(** * Allocation of the LCP policy-data decoder with the size guards

    [psi C s] = bytes allocated so far + C x bytes left.  A reader satisfies
    [J C M] when every allocation is paid for by input it consumes (C bytes of
    allocation per input byte), except that a run which fails because the input
    ended may leave at most [M] bytes unpaid -- and then the reader is exhausted,
    so nothing can be allocated on top of it. *)

Definition psi (C : Z) (s : st) : Z := s_alloc s + C * lenZ (s_rest s).

Definition J (C M : Z) {A} (r : rd A) : Prop := forall s,
  match r s with
  | ROk _ s' => psi C s' <= psi C s
  | RErr _ s' => psi C s' <= psi C s \/ (s_rest s' = [] /\ psi C s' <= psi C s + M)
  | _ => True
  end.

Lemma lenZ_nonneg (l : list Z) : 0 <= lenZ l. Proof. unfold lenZ. lia. Qed.

Lemma takeZ_lenZ : forall l n a r, takeZ l n = Some (a, r) -> lenZ l = Z.max 0 n + lenZ r.
Proof.
  intros l n a r H. apply takeZ_some in H. destruct H as (E & _ & _ & L).
  unfold lenZ in *. rewrite E at 1. rewrite app_length, Nat2Z.inj_add. lia.
Qed.

Lemma J_ret C M {A} (a : A) : J C M (ret a). Proof. intros s; cbn; lia. Qed.
Lemma J_fail C M {A} c : J C M (@fail A c). Proof. intros s; cbn; left; lia. Qed.
Lemma J_read_n C M n : 0 <= C -> J C M (read_n n).
Proof.
  intros HC s. unfold read_n. destruct (n <=? 0); [cbn; lia|].
  destruct (s_rest s) as [|x t] eqn:E.
  - left. unfold psi. cbn [tick s_alloc s_rest]. lia.
  - rewrite <- E. destruct (takeZ (s_rest s) n) as [[a r]|] eqn:T.
    + apply takeZ_lenZ in T. unfold psi. cbn [set_rest tick s_alloc s_rest]. pose proof (lenZ_nonneg r). nia.
    + left. unfold psi. cbn [set_rest tick s_alloc s_rest]. pose proof (lenZ_nonneg (s_rest s)).
      change (lenZ []) with 0. nia.
Qed.
Lemma J_bind C M {A B} (r : rd A) (f : A -> rd B) : J C M r -> (forall a, J C M (f a)) -> J C M (bind r f).
Proof.
  intros Hr Hf s. unfold bind. specialize (Hr s). destruct (r s) as [a s1|c s1| |]; auto.
  specialize (Hf a s1). destruct (f a s1) as [b s2|c s2| |]; auto; [lia|].
  destruct Hf as [H|[H1 H2]]; [left; lia | right; split; [exact H1 | lia]].
Qed.
Lemma J_bind_fail C M {A B} c (f : A -> rd B) : J C M (bind (fail c) f).
Proof. intros s. cbn. left. lia. Qed.
Lemma J_read_le C M n : 0 <= C -> J C M (read_le n).
Proof. intros. apply J_bind; [now apply J_read_n | intros; apply J_ret]. Qed.
Lemma J_read_be C M n : 0 <= C -> J C M (read_be n).
Proof. intros. apply J_bind; [now apply J_read_n | intros; apply J_ret]. Qed.
Lemma J_bind_le C M {B} n (f : Z -> rd B) : 0 <= C ->
  (forall v, 0 <= v < 256 ^ Z.max 0 n -> J C M (f v)) -> J C M (bind (read_le n) f).
Proof.
  intros HC Hf s. unfold bind. pose proof (J_read_le C M n HC s) as Hr.
  destruct (read_le n s) as [v s1|c s1| |] eqn:E; auto.
  apply read_le_value in E. specialize (Hf v E s1). destruct (f v s1) as [b s2|c s2| |]; auto; [lia|].
  destruct Hf as [H|[H1 H2]]; [left; lia | right; split; [exact H1 | lia]].
Qed.
Lemma J_cap_guard C M fx n : J C M (cap_guard fx n).
Proof. intros s. unfold cap_guard. destruct (_ && _); [left; lia | lia]. Qed.

Lemma J_loopS C M {X} (cont : X -> bool) (body : X -> rd X) :
  (forall x, J C M (body x)) -> forall fuel x, J C M (loopS fuel cont body x).
Proof.
  intros Hb. induction fuel as [|f IH]; intros x s; cbn [loopS]; destruct (cont x); try exact I; try lia.
  specialize (Hb x s). destruct (body x s) as [x' s'|c s'| |]; auto.
  specialize (IH x' s'). destruct (loopS f cont body x' s') as [y s2|c s2| |]; auto; [lia|].
  destruct IH as [H|[H1 H2]]; [left; lia | right; split; [exact H1 | lia]].
Qed.
Lemma J_loop C M {X} (cont : X -> bool) (body : X -> rd X) x :
  (forall x, J C M (body x)) -> J C M (loop cont body x).
Proof. intros Hb s. unfold loop. now apply J_loopS. Qed.

(** a larger rate is fine for a reader that never moves backwards *)
Lemma J_mono C C' M {A} (r : rd A) : J C M r -> cons 0 r -> C <= C' -> J C' M r.
Proof.
  intros HJ Hc HC s. specialize (HJ s). specialize (Hc s). unfold psi, lenZ in *.
  destruct (r s) as [a s1|c s1| |]; auto.
  - assert ((C' - C) * Z.of_nat (length (s_rest s1)) <= (C' - C) * Z.of_nat (length (s_rest s))) by nia. lia.
  - assert ((C' - C) * Z.of_nat (length (s_rest s1)) <= (C' - C) * Z.of_nat (length (s_rest s))) by nia.
    destruct HJ as [H1|[H1 H2]]; [left; lia | right; split; [exact H1 | lia]].
Qed.

(** ** readers that do not allocate and fail only at the end of the input *)
Definition rdonly (k : nat) {A} (r : rd A) : Prop := forall s,
  match r s with
  | ROk _ s' => s_alloc s' = s_alloc s /\ lenZ (s_rest s') + Z.of_nat k <= lenZ (s_rest s)
  | RErr _ s' => s_alloc s' = s_alloc s /\ s_rest s' = []
  | _ => True
  end.

Lemma rdonly_ret {A} (a : A) : rdonly 0 (ret a). Proof. intros s; cbn; lia. Qed.
Lemma rdonly_read_n n k : Z.of_nat k <= Z.max 0 n -> rdonly k (read_n n).
Proof.
  intros Hk s. unfold read_n. destruct (n <=? 0) eqn:E0; [apply Z.leb_le in E0; cbn; lia|].
  destruct (s_rest s) as [|x t] eqn:E.
  - cbn [tick s_alloc s_rest]. auto.
  - rewrite <- E. destruct (takeZ (s_rest s) n) as [[a r]|] eqn:T.
    + apply takeZ_lenZ in T. cbn [set_rest tick s_alloc s_rest]. lia.
    + cbn [set_rest tick s_alloc s_rest]. auto.
Qed.
Lemma rdonly_bind {A B} k1 k2 (r : rd A) (f : A -> rd B) :
  rdonly k1 r -> (forall a, rdonly k2 (f a)) -> rdonly (k1 + k2) (bind r f).
Proof.
  intros Hr Hf s. unfold bind. specialize (Hr s). destruct (r s) as [a s1|c s1| |]; auto.
  specialize (Hf a s1). destruct (f a s1) as [b s2|c s2| |]; auto.
  - rewrite Nat2Z.inj_add. lia.
  - destruct Hf, Hr. split; [congruence | assumption].
Qed.
Lemma rdonly_read_le n k : Z.of_nat k <= Z.max 0 n -> rdonly k (read_le n).
Proof. intros. replace k with (k + 0)%nat by lia. apply rdonly_bind; [now apply rdonly_read_n | intros; apply rdonly_ret]. Qed.
Lemma rdonly_read_be n k : Z.of_nat k <= Z.max 0 n -> rdonly k (read_be n).
Proof. intros. replace k with (k + 0)%nat by lia. apply rdonly_bind; [now apply rdonly_read_n | intros; apply rdonly_ret]. Qed.
Lemma rdonly_loopS {X} (cont : X -> bool) (body : X -> rd X) :
  (forall x, rdonly 0 (body x)) -> forall fuel x, rdonly 0 (loopS fuel cont body x).
Proof.
  intros Hb. induction fuel as [|f IH]; intros x s; cbn [loopS]; destruct (cont x); try exact I; try (cbn; lia).
  specialize (Hb x s). destruct (body x s) as [x' s'|c s'| |]; auto.
  specialize (IH x' s'). destruct (loopS f cont body x' s') as [y s2|c s2| |]; auto.
  - lia.
  - destruct IH, Hb. split; [congruence | assumption].
Qed.

Lemma rdonly_sel_loop n : rdonly 0 (sel_loop n).
Proof.
  unfold sel_loop. apply (rdonly_bind 0 0); [|intros; apply rdonly_ret].
  intros s. unfold loop. apply rdonly_loopS. intros x.
  apply (rdonly_bind 0 0); [apply rdonly_read_be; lia | intros; apply rdonly_ret].
Qed.
Lemma rdonly_pcr_info : rdonly 23 pcr_info.
Proof.
  unfold pcr_info. apply (rdonly_bind 2 21); [apply rdonly_read_be; lia | intros ss].
  apply (rdonly_bind 0 21); [apply rdonly_sel_loop | intros sel].
  apply (rdonly_bind 1 20); [apply rdonly_read_be; lia | intros loc].
  apply (rdonly_bind 20 0); [apply rdonly_read_n; lia | intros; apply rdonly_ret].
Qed.

Lemma rdonly_repeat_loopS k (b : rd (list Z)) : rdonly k b -> forall fuel st s,
  match loopS fuel (fun st : Z * list Z => 0 <? fst st)
                   (fun st => a <- b ;; ret (fst st - 1, rev_append a (snd st))) st s with
  | ROk _ s' => s_alloc s' = s_alloc s /\ lenZ (s_rest s') + Z.of_nat k * Z.max 0 (fst st) <= lenZ (s_rest s)
  | RErr _ s' => s_alloc s' = s_alloc s /\ s_rest s' = []
  | _ => True
  end.
Proof.
  intros Hb. induction fuel as [|f IH]; intros st s; cbn [loopS]; destruct (0 <? fst st) eqn:E; try exact I.
  - apply Z.ltb_ge in E. rewrite Z.max_l by lia. split; [reflexivity | lia].
  - apply Z.ltb_lt in E. unfold bind at 1. specialize (Hb s). destruct (b s) as [a s1|c s1| |]; auto.
    cbn [ret]. specialize (IH (fst st - 1, rev_append a (snd st)) s1). cbn [fst] in IH.
    destruct (loopS f _ _ _ s1) as [y s2|c s2| |]; auto.
    + destruct IH as [I1 I2], Hb as [B1 B2]. split; [congruence|].
      rewrite Z.max_r in I2 by lia. rewrite Z.max_r by lia. nia.
    + destruct IH, Hb. split; [congruence | assumption].
  - apply Z.ltb_ge in E. rewrite Z.max_l by lia. split; [reflexivity | lia].
Qed.
Lemma rdonly_repeat_n k (b : rd (list Z)) n : rdonly k b -> forall s,
  match repeat_n n b s with
  | ROk _ s' => s_alloc s' = s_alloc s /\ lenZ (s_rest s') + Z.of_nat k * Z.max 0 n <= lenZ (s_rest s)
  | RErr _ s' => s_alloc s' = s_alloc s /\ s_rest s' = []
  | _ => True
  end.
Proof.
  intros Hb s. unfold repeat_n, bind, loop.
  pose proof (rdonly_repeat_loopS k b Hb (S (length (s_rest s))) (n, []) s) as H. cbn [fst] in H.
  destruct (loopS _ _ _ (n, []) s) as [y s2|c s2| |]; auto.
Qed.

(** [make([]T, n)] followed by n reads of at least k bytes each *)
Lemma J_alloc_repeat C M n e k (b : rd (list Z)) {B} (f : list Z -> rd B) :
  0 <= C -> rdonly k b -> 0 <= e <= C * Z.of_nat k -> Z.max 0 n * e <= M ->
  (forall a, J C M (f a)) ->
  J C M (bind (alloc n e) (fun _ => bind (repeat_n n b) f)).
Proof.
  intros HC Hb He HM Hf s. unfold bind at 1. unfold alloc. unfold bind.
  pose proof (rdonly_repeat_n k b n Hb (add_alloc s (Z.max 0 n * e))) as HR.
  destruct (repeat_n n b (add_alloc s (Z.max 0 n * e))) as [a s2|c s2| |]; auto.
  - destruct HR as [HA HL]. cbn [add_alloc s_alloc s_rest] in HA, HL.
    assert (P2 : psi C s2 <= psi C s).
    { unfold psi. rewrite HA. pose proof (lenZ_nonneg (s_rest s2)).
      assert (Z.max 0 n * e <= C * (Z.of_nat k * Z.max 0 n)) by nia.
      assert (C * (lenZ (s_rest s2) + Z.of_nat k * Z.max 0 n) <= C * lenZ (s_rest s)) by nia. lia. }
    specialize (Hf a s2). destruct (f a s2) as [x s3|c s3| |]; auto; [lia|].
    destruct Hf as [H|[H1 H2]]; [left; lia | right; split; [exact H1 | lia]].
  - destruct HR as [HA HE]. cbn [add_alloc s_alloc s_rest] in HA. right. split; [exact HE|].
    unfold psi. rewrite HA, HE. change (lenZ []) with 0. pose proof (lenZ_nonneg (s_rest s)). nia.
Qed.

(** [make([]byte, n)] followed by [binary.Read] into it (one more scratch buffer) *)
Lemma J_alloc_slice C M n {B} (f : list Z -> rd B) :
  2 <= C -> 2 * Z.max 0 n <= M -> (forall a, J C M (f a)) ->
  J C M (bind (alloc n 1) (fun _ => bind (read_slice n) f)).
Proof.
  intros HC HM Hf s. unfold bind at 1. unfold alloc. unfold bind, read_slice.
  destruct (n <=? 0) eqn:E0.
  - apply Z.leb_le in E0. cbn [ret]. specialize (Hf [] (add_alloc s (Z.max 0 n * 1))).
    assert (P : psi C (add_alloc s (Z.max 0 n * 1)) = psi C s).
    { unfold psi. cbn [add_alloc s_alloc s_rest]. rewrite Z.max_l by lia. lia. }
    rewrite P in Hf. exact Hf.
  - apply Z.leb_gt in E0. unfold bind, alloc, read_n. destruct (n <=? 0) eqn:E1; [apply Z.leb_le in E1; lia|].
    cbn [add_alloc s_rest tick set_rest s_alloc s_steps].
    pose proof (lenZ_nonneg (s_rest s)) as HL.
    destruct (s_rest s) as [|x t] eqn:E.
    + right. unfold psi. cbn [add_alloc s_rest tick set_rest s_alloc s_steps]. rewrite E.
      split; [reflexivity|]. change (lenZ []) with 0. rewrite Z.max_r by lia. lia.
    + rewrite <- E in *. destruct (takeZ (s_rest s) n) as [[a r]|] eqn:T.
      * apply takeZ_lenZ in T. rewrite Z.max_r in T by lia.
        match goal with |- match f a ?s2 with _ => _ end => specialize (Hf a s2);
          assert (P : psi C s2 <= psi C s) end.
        { unfold psi. cbn [add_alloc s_rest tick set_rest s_alloc s_steps]. rewrite Z.max_r by lia.
          pose proof (lenZ_nonneg r). nia. }
        destruct (f a _) as [y s3|c s3| |]; auto; [lia|].
        destruct Hf as [H|[H1 H2]]; [left; lia | right; split; [exact H1 | lia]].
      * right. unfold psi. cbn [add_alloc s_rest tick set_rest s_alloc s_steps].
        split; [reflexivity|]. change (lenZ []) with 0. rewrite Z.max_r by lia. nia.
Qed.

Lemma has_len_takeZ : forall l n, has_len l n = true -> exists a r, takeZ l n = Some (a, r).
Proof.
  induction l as [|x t IH]; intros n H; cbn [has_len takeZ] in *.
  - destruct (n <=? 0); [eauto | discriminate].
  - destruct (n <=? 0); [eauto|]. destruct (IH _ H) as (a & r & E). rewrite E. eauto.
Qed.

(** the custom element with the size guard: the data length is at most what is left *)
Lemma J_custom C M fx n {B} (f : list Z -> rd B) :
  2 <= C -> fx_cap fx = true -> (forall a, J C M (f a)) ->
  J C M (bind (cap_guard fx n) (fun _ => bind (alloc_chk n 1) (fun _ => bind (read_slice n) f))).
Proof.
  intros HC Hfx Hf s. unfold bind at 1. unfold cap_guard. rewrite Hfx. cbn [andb].
  destruct (has_len (s_rest s) n) eqn:HL; cbn [negb]; [|left; lia].
  unfold bind at 1. unfold alloc_chk. destruct (n <? 0) eqn:En; [exact I|]. apply Z.ltb_ge in En.
  unfold bind, read_slice. destruct (n <=? 0) eqn:E0.
  - apply Z.leb_le in E0. cbn [ret]. specialize (Hf [] (add_alloc s (n * 1))).
    assert (P : psi C (add_alloc s (n * 1)) = psi C s).
    { unfold psi. cbn [add_alloc s_alloc s_rest]. lia. }
    rewrite P in Hf. exact Hf.
  - apply Z.leb_gt in E0. unfold bind, alloc, read_n. destruct (n <=? 0) eqn:E1; [apply Z.leb_le in E1; lia|].
    cbn [add_alloc s_rest tick set_rest s_alloc s_steps].
    destruct (has_len_takeZ _ _ HL) as (a & r & T). rewrite T.
    destruct (s_rest s) as [|x t] eqn:E; [cbn [has_len] in HL; rewrite E1 in HL; discriminate|].
    rewrite <- E in *. apply takeZ_lenZ in T. rewrite Z.max_r in T by lia.
    match goal with |- match f a ?s2 with _ => _ end => specialize (Hf a s2);
      assert (P : psi C s2 <= psi C s) end.
    { unfold psi. cbn [add_alloc s_rest tick set_rest s_alloc s_steps]. rewrite Z.max_r by lia.
      pose proof (lenZ_nonneg r). nia. }
    destruct (f a _) as [y s3|c s3| |]; auto; [lia|].
    destruct Hf as [H|[H1 H2]]; [left; lia | right; split; [exact H1 | lia]].
Qed.

(** ** the elements *)
Definition M0 : Z := 3145680.  (* 65535 PCR infos of 48 bytes *)

Ltac jj := repeat first
  [ apply J_ret | apply J_fail | (apply J_read_n; lia) | (apply J_read_le; lia) | (apply J_read_be; lia)
  | apply J_cap_guard
  | match goal with |- J _ _ (bind (read_le _) _) => apply J_bind; [apply J_read_le; lia | intros ?] end
  | match goal with |- J _ _ (bind (read_be _) _) => apply J_bind; [apply J_read_be; lia | intros ?] end
  | match goal with |- J _ _ (bind (read_n _) _) => apply J_bind; [apply J_read_n; lia | intros ?] end ].

Ltac j1 := first
  [ match goal with |- J _ _ (bind (read_le _) _) => apply J_bind; [apply J_read_le; lia | intros ?] end
  | match goal with |- J _ _ (bind (read_be _) _) => apply J_bind; [apply J_read_be; lia | intros ?] end
  | match goal with |- J _ _ (bind (read_n _) _) => apply J_bind; [apply J_read_n; lia | intros ?] end ].

Lemma pow256_1 : 256 ^ Z.max 0 1 = 256. Proof. reflexivity. Qed.
Lemma pow256_2 : 256 ^ Z.max 0 2 = 65536. Proof. reflexivity. Qed.

Lemma J_elt_mle : J 3 M0 elt_mle.
Proof.
  unfold elt_mle. do 2 j1. apply J_bind_le; [lia|]. intros n Hn. rewrite pow256_2 in Hn.
  apply (J_alloc_repeat 3 M0 n 20 20); [lia | apply rdonly_read_n; lia | lia | unfold M0; lia | intros; apply J_ret].
Qed.
Lemma J_elt_sbios : J 3 M0 elt_sbios.
Proof.
  unfold elt_sbios, lcp_hash. apply J_bind; [apply J_read_le; lia | intros ha].
  destruct (ha =? _).
  - do 3 j1. apply J_bind_le; [lia|]. intros n Hn. rewrite pow256_2 in Hn.
    apply (J_alloc_repeat 3 M0 n 40 20); [lia | apply rdonly_read_n; lia | lia | unfold M0; lia | intros; apply J_ret].
  - j1. apply J_bind_fail.
Qed.
Lemma J_elt_pconf : J 3 M0 elt_pconf.
Proof.
  unfold elt_pconf. apply J_bind_le; [lia|]. intros n Hn. rewrite pow256_2 in Hn.
  apply (J_alloc_repeat 3 M0 n 48 23); [lia | apply rdonly_pcr_info | lia | unfold M0; lia | intros; apply J_ret].
Qed.
Lemma J_elt_custom fx size : fx_cap fx = true -> J 3 M0 (elt_custom fx size).
Proof.
  intros Hfx. unfold elt_custom. do 5 j1. destruct (_ && _); [apply J_fail|].
  apply J_custom; [lia | exact Hfx | intros; apply J_ret].
Qed.
Lemma J_element fx : fx_cap fx = true -> J 3 M0 (element fx).
Proof.
  intros Hfx. unfold element. do 3 j1. apply J_bind; [|intros; apply J_ret].
  repeat match goal with |- J _ _ (if ?b then _ else _) => destruct b end;
    first [apply J_elt_mle | apply J_elt_sbios | apply J_elt_pconf | now apply J_elt_custom | apply J_fail].
Qed.
Lemma J_lcp_signature : J 3 M0 lcp_signature.
Proof.
  unfold lcp_signature. j1. apply J_bind_le; [lia|]. intros ks Hk. rewrite pow256_2 in Hk.
  apply J_alloc_slice; [lia | unfold M0; lia | intros pk].
  apply J_alloc_slice; [lia | unfold M0; lia | intros; apply J_ret].
Qed.
Lemma J_policy_list1 fx : fx_cap fx = true -> J 3 M0 (policy_list1 fx).
Proof.
  intros Hfx. unfold policy_list1. do 4 j1. apply J_bind.
  - unfold list1_loop. apply J_bind; [|intros; apply J_ret]. apply J_loop. intros x.
    apply J_bind; [now apply J_element | intros; apply J_ret].
  - intros ce. apply J_bind; [|intros; apply J_ret].
    repeat match goal with |- J _ _ (if ?b then _ else _) => destruct b end;
      first [apply J_ret | apply J_fail | idtac].
    apply J_bind; [apply J_lcp_signature | intros; apply J_ret].
Qed.

(** ** consumption of an element: the 12-byte header *)
Lemma cons_read_n_k n k : Z.of_nat k <= Z.max 0 n -> cons k (read_n n).
Proof.
  intros Hk s. pose proof (rdonly_read_n n k Hk s) as H. destruct (read_n n s) as [a s1|c s1| |]; auto.
  - unfold lenZ in H. lia.
  - destruct H as [_ H]. rewrite H. cbn. lia.
Qed.
Lemma cons_read_le_k n k : Z.of_nat k <= Z.max 0 n -> cons k (read_le n).
Proof. intros. replace k with (k + 0)%nat by lia. apply cons_bind; [now apply cons_read_n_k | intros; apply cons_ret]. Qed.
Lemma cons12_element fx : cons 12 (element fx).
Proof.
  unfold element. apply (cons_bind 4 8); [apply cons_read_le_k; lia | intros ?].
  apply (cons_bind 4 4); [apply cons_read_le_k; lia | intros ?].
  apply (cons_bind 4 0); [apply cons_read_le_k; lia | intros ?].
  c0; first [apply cons_elt_mle | apply cons_elt_sbios | apply cons_elt_pconf | apply cons_elt_custom].
Qed.

(** ** the list level: [JT C M K]: as [J], but a failing run may leave
    [K + M + 48 x bytes left at the start] unpaid (parsePolicyList2 reserves 48
    bytes per announced element, at most one per byte left, and its failure ends
    ParsePolicyData) *)
Definition JT (C M K : Z) {A} (r : rd A) : Prop := forall s,
  match r s with
  | ROk _ s' => psi C s' <= psi C s + K
  | RErr _ s' => psi C s' <= psi C s + K + M + 48 * lenZ (s_rest s)
  | _ => True
  end.

Lemma J_JT C M {A} (r : rd A) : 0 <= M -> J C M r -> JT C M 0 r.
Proof.
  intros HM HJ s. specialize (HJ s). pose proof (lenZ_nonneg (s_rest s)).
  destruct (r s) as [a s1|c s1| |]; auto; [lia|]. destruct HJ as [H1|[_ H1]]; lia.
Qed.

Lemma JT_bind C M K {A B} (r : rd A) (f : A -> rd B) :
  0 <= M -> 0 <= K -> J C M r -> cons 0 r -> (forall a, JT C M K (f a)) -> JT C M K (bind r f).
Proof.
  intros HM HK Hr Hc Hf s. unfold bind. specialize (Hr s). specialize (Hc s).
  pose proof (lenZ_nonneg (s_rest s)).
  destruct (r s) as [a s1|c s1| |]; auto.
  - specialize (Hf a s1). destruct (f a s1) as [b s2|c s2| |]; auto; [lia|]. unfold lenZ in *. lia.
  - destruct Hr as [H1|[_ H1]]; lia.
Qed.
Lemma JT_bind_le C M K {B} n (f : Z -> rd B) : 0 <= C -> 0 <= M -> 0 <= K ->
  (forall v, 0 <= v < 256 ^ Z.max 0 n -> JT C M K (f v)) -> JT C M K (bind (read_le n) f).
Proof.
  intros HC HM HK Hf s. unfold bind. pose proof (J_read_le C M n HC s) as Hr.
  pose proof (cons_read_le0 n s) as Hc. pose proof (lenZ_nonneg (s_rest s)).
  destruct (read_le n s) as [v s1|c s1| |] eqn:E; auto.
  - apply read_le_value in E. specialize (Hf v E s1). destruct (f v s1) as [b s2|c s2| |]; auto; [lia|].
    unfold lenZ in *. lia.
  - destruct Hr as [H1|[_ H1]]; lia.
Qed.

Lemma J_repeat_loopS C M k (b : rd (list Z)) : J C M b -> cons k b -> forall fuel st s,
  match loopS fuel (fun st : Z * list Z => 0 <? fst st)
                   (fun st => a <- b ;; ret (fst st - 1, rev_append a (snd st))) st s with
  | ROk _ s' => psi C s' <= psi C s /\ lenZ (s_rest s') + Z.of_nat k * Z.max 0 (fst st) <= lenZ (s_rest s)
  | RErr _ s' => (psi C s' <= psi C s \/ (s_rest s' = [] /\ psi C s' <= psi C s + M)) /\
                 lenZ (s_rest s') <= lenZ (s_rest s)
  | _ => True
  end.
Proof.
  intros Hb Hc. induction fuel as [|f IH]; intros st s; cbn [loopS]; destruct (0 <? fst st) eqn:E; try exact I.
  - apply Z.ltb_ge in E. rewrite Z.max_l by lia. lia.
  - apply Z.ltb_lt in E. unfold bind at 1. specialize (Hb s). specialize (Hc s).
    destruct (b s) as [a s1|c s1| |]; auto; [|unfold lenZ; split; [exact Hb | lia]].
    cbn [ret]. specialize (IH (fst st - 1, rev_append a (snd st)) s1). cbn [fst] in IH.
    destruct (loopS f _ _ _ s1) as [y s2|c s2| |]; auto.
    + destruct IH as [I1 I2]. split; [lia|]. rewrite Z.max_r in I2 by lia. rewrite Z.max_r by lia.
      unfold lenZ in *. nia.
    + destruct IH as [I1 I2]. split; [|unfold lenZ in *; lia].
      destruct I1 as [H|[H1 H2]]; [left; lia | right; split; [exact H1 | lia]].
  - apply Z.ltb_ge in E. rewrite Z.max_l by lia. lia.
Qed.

Lemma policy_list2_eof fx s : s_rest s = [] -> exists c, policy_list2 fx s = RErr c (tick s).
Proof.
  intros H. unfold policy_list2, bind, read_le, bind, read_n. change (2 <=? 0) with false. cbv iota.
  rewrite H. eauto.
Qed.

Lemma JT_policy_list2 fx : fx_cap fx = true -> JT 7 M0 0 (policy_list2 fx).
Proof.
  intros Hfx. unfold policy_list2.
  apply JT_bind; [unfold M0; lia | lia | apply J_read_le; lia | apply cons_read_le0 | intros ver].
  apply JT_bind; [unfold M0; lia | lia | apply J_read_le; lia | apply cons_read_le0 | intros sa].
  apply JT_bind; [unfold M0; lia | lia | apply J_read_le; lia | apply cons_read_le0 | intros cnt].
  intros s. unfold bind at 1. unfold cap_guard. rewrite Hfx. cbn [andb].
  pose proof (lenZ_nonneg (s_rest s)) as HL0.
  destruct (has_len (s_rest s) cnt) eqn:HL; cbn [negb]; [|unfold M0; lia].
  apply has_len_true in HL. unfold bind at 1. unfold alloc. unfold bind, repeat_n, bind, loop.
  assert (JB : J 3 M0 (x <- element fx;; ret (snd x))) by (apply J_bind; [now apply J_element | intros; apply J_ret]).
  assert (CB : cons 12 (x <- element fx;; ret (snd x))) by (apply (cons_bind 12 0); [apply cons12_element | intros; apply cons_ret]).
  pose proof (J_repeat_loopS 3 M0 12 _ JB CB (S (length (s_rest (add_alloc s (Z.max 0 cnt * 48)))))
                (cnt, []) (add_alloc s (Z.max 0 cnt * 48))) as HR.
  cbn [fst add_alloc s_rest] in HR. cbn [add_alloc s_rest].
  destruct (loopS _ _ _ (cnt, []) _) as [y s2|c s2| |]; auto; cbn [ret].
  - destruct HR as [P L]. unfold psi in *. cbn [add_alloc s_alloc s_rest] in *. change (Z.of_nat 12) with 12 in L.
    pose proof (lenZ_nonneg (s_rest s2)). lia.
  - destruct HR as [P L]. unfold psi in *. cbn [add_alloc s_alloc s_rest] in *. pose proof (lenZ_nonneg (s_rest s2)).
    unfold M0 in *. destruct P as [P|[_ P]]; lia.
Qed.

Lemma JT_or_else C M {A} (r h : rd A) : 0 <= M ->
  J C M r -> cons 0 r -> JT C M 0 h ->
  (forall s, s_rest s = [] -> exists c, h s = RErr c (tick s)) -> JT C M 0 (or_else r h).
Proof.
  intros HM Hr Hc Hh Heof s. unfold or_else. specialize (Hr s). specialize (Hc s).
  pose proof (lenZ_nonneg (s_rest s)).
  destruct (r s) as [a s1|c s1| |]; auto; [lia|].
  destruct Hr as [P|[E P]].
  - specialize (Hh s1). destruct (h s1) as [b s2|c2 s2| |]; auto; [lia|]. unfold lenZ in *. lia.
  - destruct (Heof s1 E) as [c2 E2]. rewrite E2. unfold psi in *. cbn [tick s_alloc s_rest]. lia.
Qed.

Lemma JT_lists_loopS C M (B : rd (list Z)) : JT C M 0 B -> cons 0 B -> forall fuel st s,
  match loopS fuel (fun st : Z * list Z => 0 <? fst st)
                   (fun st => a <- B ;; ret (fst st - 1, rev_append a (snd st))) st s with
  | ROk _ s' => psi C s' <= psi C s /\ lenZ (s_rest s') <= lenZ (s_rest s)
  | RErr _ s' => psi C s' <= psi C s + M + 48 * lenZ (s_rest s)
  | _ => True
  end.
Proof.
  intros Hb Hc. induction fuel as [|f IH]; intros st s; cbn [loopS]; destruct (0 <? fst st) eqn:E; try exact I; try lia.
  unfold bind at 1. specialize (Hb s). specialize (Hc s).
  destruct (B s) as [a s1|c s1| |]; auto; [|lia].
  cbn [ret]. specialize (IH (fst st - 1, rev_append a (snd st)) s1).
  destruct (loopS f _ _ _ s1) as [y s2|c s2| |]; auto; unfold lenZ in *; lia.
Qed.

Theorem policy_data_alloc fx d : fx_cap fx = true ->
  res_alloc (run (policy_data fx) d) <= 55 * lenZ d + 3164040.
Proof.
  intros Hfx.
  assert (HT : JT 7 M0 18360 (policy_data fx)).
  { unfold policy_data.
    apply JT_bind; [unfold M0; lia | lia | apply J_read_n; lia | apply cons_read_n0 | intros sg].
    apply JT_bind; [unfold M0; lia | lia | apply J_read_n; lia | apply cons_read_n0 | intros rs].
    apply JT_bind_le; [lia | unfold M0; lia | lia | intros n Hn]. rewrite pow256_1 in Hn.
    intros s. unfold bind at 1. unfold alloc. unfold bind, repeat_n, bind, loop.
    assert (HB : JT 7 M0 0 (or_else (policy_list1 fx) (policy_list2 fx))).
    { apply JT_or_else; [unfold M0; lia | | | now apply JT_policy_list2 | apply policy_list2_eof].
      - apply (J_mono 3 7); [now apply J_policy_list1 | | lia].
        eapply cons_weaken; [apply cons1_policy_list1 | lia].
      - eapply cons_weaken; [apply cons1_policy_list1 | lia]. }
    assert (CB : cons 0 (or_else (policy_list1 fx) (policy_list2 fx))).
    { apply cons_or_else; eapply cons_weaken; first [apply cons1_policy_list1 | apply cons1_policy_list2 | lia]. }
    pose proof (JT_lists_loopS 7 M0 _ HB CB (S (length (s_rest (add_alloc s (Z.max 0 n * 72)))))
                  (n, []) (add_alloc s (Z.max 0 n * 72))) as HR.
    cbn [add_alloc s_rest] in HR. cbn [add_alloc s_rest].
    destruct (loopS _ _ _ (n, []) _) as [y s2|c s2| |]; auto; cbn [ret];
      unfold psi in *; cbn [add_alloc s_alloc s_rest] in *; lia. }
  unfold run. specialize (HT (mkSt d 0 0)). unfold psi in HT. cbn [s_alloc s_rest] in HT.
  destruct (policy_data fx (mkSt d 0 0)) as [a s|c s| |]; cbn [res_alloc]; try (pose proof (lenZ_nonneg d); lia);
    pose proof (lenZ_nonneg (s_rest s)); pose proof (lenZ_nonneg d); unfold M0 in *; lia.
Qed.


(** * Allocation of ParseACMInfo with the size guards

    [AB T K r]: started with at most [T] bytes in the reader, [r] allocates at
    most [K] bytes and leaves at most [T] bytes in the reader (the decoder seeks
    back and forth inside the module, whose size is at most [T]). *)
Definition AB (T K : Z) {A} (r : rd A) : Prop := forall s, lenZ (s_rest s) <= T ->
  match r s with
  | ROk _ s' | RErr _ s' => s_alloc s' <= s_alloc s + K /\ lenZ (s_rest s') <= T
  | _ => True
  end.

Lemma AB_weaken T K K' {A} (r : rd A) : AB T K r -> K <= K' -> AB T K' r.
Proof. intros H HK s Hs. specialize (H s Hs). destruct (r s); auto; lia. Qed.
Lemma AB_ret T {A} (a : A) : AB T 0 (ret a). Proof. intros s Hs; cbn; lia. Qed.
Lemma AB_bind T K1 K2 {A B} (r : rd A) (f : A -> rd B) :
  0 <= K2 -> AB T K1 r -> (forall a, AB T K2 (f a)) -> AB T (K1 + K2) (bind r f).
Proof.
  intros HK Hr Hf s Hs. unfold bind. specialize (Hr s Hs). destruct (r s) as [a s1|c s1| |]; auto; [|lia].
  destruct Hr as [H1 H2]. specialize (Hf a s1 H2). destruct (f a s1); auto; lia.
Qed.
Lemma AB_read_n T n : 0 <= T -> AB T 0 (read_n n).
Proof.
  intros HT s Hs. unfold read_n. destruct (n <=? 0); [cbn; lia|].
  destruct (s_rest s) as [|x t] eqn:E.
  - cbn [tick s_alloc s_rest]. rewrite E. change (lenZ []) with 0. lia.
  - rewrite <- E in *. destruct (takeZ (s_rest s) n) as [[a r]|] eqn:T1; cbn [set_rest tick s_alloc s_rest].
    + apply takeZ_some in T1. unfold lenZ in *. lia.
    + change (lenZ []) with 0. lia.
Qed.
Lemma AB_read_le T n : 0 <= T -> AB T 0 (read_le n).
Proof. intros. apply (AB_bind T 0 0); [lia | now apply AB_read_n | intros; apply AB_ret]. Qed.
Lemma AB_seek T w o : lenZ w <= T -> AB T 0 (seek w o).
Proof.
  intros Hw s Hs. unfold seek. cbn [set_rest s_alloc s_rest]. pose proof (dropZ_length w o). unfold lenZ in *. lia.
Qed.
Lemma AB_alloc T n e : AB T (Z.max 0 n * e) (alloc n e).
Proof. intros s Hs. unfold alloc. cbn [add_alloc s_alloc s_rest]. lia. Qed.
Lemma AB_read_slice T n : 0 <= T -> AB T (Z.max 0 n) (read_slice n).
Proof.
  intros HT. unfold read_slice. destruct (n <=? 0) eqn:E.
  - eapply AB_weaken; [apply AB_ret | lia].
  - replace (Z.max 0 n) with (Z.max 0 n * 1 + 0) by lia.
    apply AB_bind; [lia | apply AB_alloc | intros; now apply AB_read_n].
Qed.

Lemma AB_bind_le T K n {B} (f : Z -> rd B) : 0 <= T -> 0 <= K ->
  (forall v, 0 <= v < 256 ^ Z.max 0 n -> AB T K (f v)) -> AB T K (bind (read_le n) f).
Proof.
  intros HT HK Hf s Hs. unfold bind. pose proof (AB_read_le T n HT s Hs) as HR.
  destruct (read_le n s) as [v s1|c s1| |] eqn:E; auto; [|lia].
  apply read_le_value in E. destruct HR as [R1 R2]. specialize (Hf v E s1 R2). destruct (f v s1); auto; lia.
Qed.

(** the product of a count below 2^32 and an entry size is what the machine
    computes whenever it fits the width of the multiplication *)
Lemma mul_w_exact w c e : 0 <= c -> 0 <= e -> c * e < 2 ^ w -> mul_w w c e = c * e.
Proof. intros Hc He H. unfold mul_w. apply Z.mod_small. nia. Qed.

(** ... and only then: in 32 bits 0x10000000 entries of 16 bytes are "0 bytes" *)
Lemma mul_w_wraps : mul_w 32 268435456 16 = 0 /\ mul_w 32 178956971 24 = 8 /\ mul_w 64 268435456 16 = 4294967296.
Proof. vm_compute. repeat split. Qed.

(** [if uintW(count)*uintW(elem) > buf.Len() { return error }; make([]T, count); binary.Read]
    with a product that does not wrap *)
Lemma AB_capped T K fx pw c e {B} (f : list Z -> rd B) :
  fx_cap fx = true -> 0 <= c -> 0 < e -> c * e < 2 ^ pw -> 0 <= T -> 0 <= K -> (forall l, AB T K (f l)) ->
  AB T (2 * T + K) (bind (cap_guard fx (mul_w pw c e)) (fun _ => bind (alloc c e) (fun _ => bind (read_slice (c * e)) f))).
Proof.
  intros Hfx Hc He Hw HT HK Hf s Hs. rewrite mul_w_exact by lia.
  unfold bind at 1. unfold cap_guard. rewrite Hfx. cbn [andb].
  destruct (has_len (s_rest s) (c * e)) eqn:HL; cbn [negb]; [|lia].
  apply has_len_true in HL.
  assert (HA : Z.max 0 c * e <= T) by nia.
  assert (HB : Z.max 0 (c * e) <= T) by lia.
  pose proof (AB_bind T (Z.max 0 c * e) (Z.max 0 (c * e) + K) (alloc c e) (fun _ => bind (read_slice (c * e)) f)
                ltac:(lia) (AB_alloc T c e)
                (fun _ => AB_bind T _ K _ f HK (AB_read_slice T (c * e) HT) Hf) s Hs) as H.
  destruct (bind (alloc c e) _ s); auto; lia.
Qed.

(** the bound holds for every width of the guard products from 37 bits on
    (2^32 counts of 24 bytes): in particular for the uint64 of the code *)
Theorem acm_info_w_alloc pw fx total user : fx_cap fx = true -> 37 <= pw ->
  res_alloc (run (acm_info_w pw fx total) user) <= 5 * Z.max (lenZ user) (lenZ total) + 262140.
Proof.
  intros Hfx Hpw. set (T := Z.max (lenZ user) (lenZ total)).
  assert (HT : 0 <= T) by (unfold T, lenZ; lia).
  assert (HW : lenZ total <= T) by (unfold T; lia).
  assert (HP : 2 ^ 37 <= 2 ^ pw) by (apply Z.pow_le_mono_r; lia).
  change (2 ^ 37) with 137438953472 in HP.
  assert (H : AB T (5 * T + 262140) (acm_info_w pw fx total)).
  { unfold acm_info_w. cbv zeta.
    set (A := Z.max 0 (lenZ total) * 1).
    assert (HA : 0 <= A <= T) by (unfold A, lenZ in *; lia).
    replace (5 * T + 262140) with (0 + (A + (0 + (2 * T + (0 + (2 * T + (T - A + 262140))))))) by lia.
    apply AB_bind; [lia | now apply AB_read_n | intros info].
    apply AB_bind; [lia | apply AB_alloc | intros _].
    apply AB_bind; [lia | now apply AB_seek | intros _].
    apply AB_bind_le; [exact HT | lia | intros c1 Hc1]. change (256 ^ Z.max 0 4) with 4294967296 in Hc1.
    apply AB_capped; [exact Hfx | lia | lia | lia | exact HT | lia | intros l1].
    apply AB_bind; [lia | now apply AB_seek | intros _].
    apply AB_bind_le; [exact HT | lia | intros c2 Hc2]. change (256 ^ Z.max 0 4) with 4294967296 in Hc2.
    apply AB_capped; [exact Hfx | lia | lia | lia | exact HT | lia | intros l2].
    eapply AB_weaken; [|instantiate (1 := 0 + (0 + (131070 + 131070))); lia].
    apply AB_bind; [lia | now apply AB_seek | intros _].
    apply AB_bind; [lia | now apply AB_read_le | intros caps].
    apply AB_bind_le; [exact HT | lia | intros c3 Hc3]. change (256 ^ Z.max 0 2) with 65536 in Hc3.
    apply (AB_weaken T (Z.max 0 c3 * 2 + (Z.max 0 (c3 * 2) + 0))); [|lia].
    apply AB_bind; [lia | apply AB_alloc | intros _].
    apply AB_bind; [lia | now apply AB_read_slice | intros; apply AB_ret]. }
  unfold run. specialize (H (mkSt user 0 0)). cbn [s_rest s_alloc] in H.
  assert (HU : lenZ user <= T) by (unfold T; lia). specialize (H HU).
  destruct (acm_info_w pw fx total (mkSt user 0 0)); cbn [res_alloc]; lia.
Qed.

Theorem acm_info_alloc fx total user : fx_cap fx = true ->
  res_alloc (run (acm_info fx total) user) <= 5 * Z.max (lenZ user) (lenZ total) + 262140.
Proof. intros Hfx. unfold acm_info. apply acm_info_w_alloc; [exact Hfx | lia]. Qed.

(** with 32-bit products the same guards do not bound anything: the 8-byte
    module below announces 0x10000000 chipset IDs, 16 * 0x10000000 = 0 (mod 2^32)
    passes the guard and 8 GiB are requested (the slice and the scratch buffer of
    binary.Read); the second one announces 0x0AAAAAAB processor IDs of 24 bytes *)
Definition acm_wrap_user : list Z := repeat 0 48.
Definition acm_wrap_chipsets : list Z := [0; 0; 0; 16; 0; 0; 0; 0].
Definition acm_wrap_processors : list Z := [0; 0; 0; 0; 171; 170; 170; 10; 0; 0; 0; 0; 0; 0; 0; 0].
Definition acm_wrap_user2 : list Z := repeat 0 40 ++ [4; 0; 0; 0] ++ repeat 0 4.

(** * The statements of Props/C15.v *)

Lemma cost_total_run {A} K (r : rd A) i : 0 <= K -> nopanic r -> nofuel r -> cost K r ->
  value_or_error (run r i) /\ res_steps (run r i) <= K /\ res_alloc (run r i) = 0.
Proof. intros HK H1 H2 H3. split; [now apply voe_run | now apply cost_run]. Qed.

Lemma P_parse_policy : forall sha3 d,
  value_or_error (run (parse_policy sha3 d) d) /\ res_steps (run (parse_policy sha3 d) d) <= 15 /\
  res_alloc (run (parse_policy sha3 d) d) = 0.
Proof.
  intros. apply cost_total_run; [lia | apply parse_policy_nopanic | apply parse_policy_nofuel | apply parse_policy_cost].
Qed.

Lemma P_policy_data_terminates : forall fx d,
  run (policy_data fx) d <> RFuel /\ res_steps (run (policy_data fx) d) <= lenZ d + 256.
Proof. intros. split; [apply policy_data_nofuel | apply policy_data_steps]. Qed.

(** the code as it is: total *)
Lemma P_policy_data_partial : forall fx d, fx_custom_min fx = true -> value_or_error (run (policy_data fx) d).
Proof. intros fx d H. apply voe_run; [now apply policy_data_nopanic | apply policy_data_nofuel]. Qed.
Lemma P_policy_data_total : forall d, value_or_error (run (policy_data faithful) d).
Proof. intros d. now apply P_policy_data_partial. Qed.

(** ... which rests on the size check of 6dfa3ec: without it the 80-byte witness panics *)
Lemma P_policy_data_needs_size_check : exists d, lenZ d = 80 /\ run (policy_data legacy) d = RPanic /\
  outcome_of (run (policy_data faithful) d) = Err E_FIX.
Proof. exists (custom_witness [20; 0; 0; 0]). split; [reflexivity | split; [exact policy_data_panics | vm_compute; reflexivity]]. Qed.

Lemma P_policy_data_panic_site :
  (forall size s, elt_custom legacy size s = RPanic -> size < 32) /\
  (forall fx, (forall size, nopanic (elt_custom fx size)) -> forall d, run (policy_data fx) d <> RPanic).
Proof. split; [exact elt_custom_panic_size | intros fx H d; now apply nopanic_policy_data_g]. Qed.

Lemma P_policy_data_fix_conservative : forall d,
  run (policy_data legacy) d = RPanic \/ run (policy_data legacy) d = run (policy_data fix_custom) d.
Proof. intros d. apply policy_data_fix_conservative. Qed.

Lemma P_policy_data_alloc : forall d, res_alloc (run (policy_data faithful) d) <= 55 * lenZ d + 3164040.
Proof. intros d. now apply policy_data_alloc. Qed.
Lemma P_policy_data_alloc_needs_cap : exists d, lenZ d = 80 /\
  2147483648 <= res_alloc (run (policy_data legacy) d) /\ res_alloc (run (policy_data faithful) d) = 72.
Proof. exists (custom_witness [0; 0; 0; 64]). vm_compute. repeat split; try reflexivity. discriminate. Qed.

Lemma P_lookup_total : forall h,
  value_or_error (run (lookup_acm_size faithful h) h) /\ res_steps (run (lookup_acm_size faithful h) h) <= 1 /\
  res_alloc (run (lookup_acm_size faithful h) h) = 0.
Proof.
  intros h. apply cost_total_run; [lia | now apply lookup_acm_size_nopanic | apply lookup_acm_size_nofuel | apply lookup_acm_size_cost].
Qed.
Lemma P_lookup_short_error : forall h, lenZ h < 32 -> outcome_of (run (lookup_acm_size faithful h) h) = Err E_FIX.
Proof. intros h H. unfold run. now rewrite lookup_acm_size_short_err. Qed.
Lemma P_lookup_needs_length_check : forall h, lenZ h < 32 -> run (lookup_acm_size legacy h) h = RPanic.
Proof. intros h H. now apply lookup_acm_size_short. Qed.

Lemma P_acm_info_total : forall fx total user, value_or_error (run (acm_info fx total) user).
Proof. intros. apply voe_run; [apply acm_info_nopanic | apply acm_info_nofuel]. Qed.
Lemma P_acm_info_alloc : forall total user,
  res_alloc (run (acm_info faithful total) user) <= 5 * Z.max (lenZ user) (lenZ total) + 262140.
Proof. intros. now apply acm_info_alloc. Qed.
Lemma P_acm_info_alloc_any_wide : forall pw total user, 37 <= pw ->
  res_alloc (run (acm_info_w pw faithful total) user) <= 5 * Z.max (lenZ user) (lenZ total) + 262140.
Proof. intros. now apply acm_info_w_alloc. Qed.
Lemma P_acm_info_alloc_needs_wide_product :
  (exists total user, lenZ total = 8 /\ lenZ user = 48 /\
     8589934592 <= res_alloc (run (acm_info_w 32 faithful total) user) /\
     outcome_of (run (acm_info faithful total) user) = Err E_FIX /\ res_alloc (run (acm_info faithful total) user) = 8) /\
  (exists total user, lenZ total = 16 /\ lenZ user = 48 /\
     8589934592 <= res_alloc (run (acm_info_w 32 faithful total) user) /\
     outcome_of (run (acm_info faithful total) user) = Err E_FIX /\ res_alloc (run (acm_info faithful total) user) = 16).
Proof.
  split.
  - exists acm_wrap_chipsets, acm_wrap_user. vm_compute. repeat split; try reflexivity; discriminate.
  - exists acm_wrap_processors, acm_wrap_user2. vm_compute. repeat split; try reflexivity; discriminate.
Qed.
Lemma P_acm_info_alloc_needs_cap : exists total user, lenZ total = 4 /\ lenZ user = 48 /\
  2147483648 <= res_alloc (run (acm_info legacy total) user) /\ res_alloc (run (acm_info faithful total) user) = 4.
Proof. exists [0; 0; 0; 8], (repeat 0 48). vm_compute. repeat split; try reflexivity; discriminate. Qed.

Lemma P_txt_regs_total : forall d,
  value_or_error (run (parse_txt_regs faithful d) d) /\ res_steps (run (parse_txt_regs faithful d) d) <= 22 /\
  res_alloc (run (parse_txt_regs faithful d) d) = 0.
Proof.
  intros d. apply cost_total_run; [lia | now apply parse_txt_regs_nopanic | apply parse_txt_regs_nofuel | apply parse_txt_regs_cost].
Qed.
Lemma P_txt_regs_needs_seek : exists d, lenZ d = 16 /\ run (parse_txt_regs legacy d) d = RPanic /\
  outcome_of (run (parse_txt_regs faithful d) d) = Err E_EOF.
Proof. exists (repeat 0 16). split; [reflexivity | split; [exact parse_txt_regs_panics | vm_compute; reflexivity]]. Qed.

Lemma P_bios_data : forall d,
  value_or_error (run parse_bios_data d) /\ res_steps (run parse_bios_data d) <= 8 /\ res_alloc (run parse_bios_data d) = 0.
Proof.
  intros. apply cost_total_run; [lia | apply parse_bios_data_nopanic | apply parse_bios_data_nofuel | apply parse_bios_data_cost].
Qed.

Lemma P_acm_status_total : forall d,
  value_or_error (run (read_acm_status faithful d) d) /\ res_steps (run (read_acm_status faithful d) d) <= 1 /\
  res_alloc (run (read_acm_status faithful d) d) = 0.
Proof.
  intros d. apply cost_total_run; [lia | now apply read_acm_status_nopanic | apply read_acm_status_nofuel | apply read_acm_status_cost].
Qed.
Lemma P_acm_status_needs_seek : exists d, lenZ d = 16 /\ run (read_acm_status legacy d) d = RPanic /\
  outcome_of (run (read_acm_status faithful d) d) = Err E_EOF.
Proof. exists (repeat 0 16). split; [reflexivity | split; [exact read_acm_status_panics | vm_compute; reflexivity]]. Qed.

Lemma P_raw64 : forall d off,
  value_or_error (run (read_raw64_at d off) d) /\ res_steps (run (read_raw64_at d off) d) <= 1 /\
  res_alloc (run (read_raw64_at d off) d) = 0.
Proof.
  intros. apply cost_total_run; [lia | apply read_raw64_at_nopanic | apply read_raw64_at_nofuel | apply read_raw64_at_cost].
Qed.

Lemma P_readtxt_total : forall d,
  value_or_error (run (read_txt_registers faithful d) d) /\ res_steps (run (read_txt_registers faithful d) d) <= 16 /\
  res_alloc (run (read_txt_registers faithful d) d) = 0.
Proof.
  intros d. apply cost_total_run; [lia | now apply read_txt_registers_nopanic | apply read_txt_registers_nofuel | apply read_txt_registers_cost].
Qed.
Lemma P_readtxt_needs_bounds_check : exists d, lenZ d = 16 /\ run (read_txt_registers legacy d) d = RPanic /\
  outcome_of (run (read_txt_registers faithful d) d) = Err E_OTHER.
Proof. exists (repeat 0 16). split; [reflexivity | split; [exact read_txt_registers_panics | vm_compute; reflexivity]]. Qed.
Lemma P_readreg_total : forall d k,
  value_or_error (run (read_reg_k faithful d k) d) /\ res_steps (run (read_reg_k faithful d k) d) <= 1 /\
  res_alloc (run (read_reg_k faithful d k) d) = 0.
Proof.
  intros d k. apply cost_total_run; [lia | now apply read_reg_k_nopanic | apply read_reg_k_nofuel | apply read_reg_k_cost].
Qed.
Lemma P_readreg_short_eof : forall d k off w sl,
  nth_error txt_reg_table (Z.to_nat k) = Some (off, w, sl) -> lenZ d <= off ->
  outcome_of (run (read_reg_k faithful d k) d) = Err E_EOF.
Proof.
  intros d k off w sl Hk Hl. unfold run.
  assert (HT : 0 < w /\ 0 <= off).
  { clear Hl. destruct (Z.to_nat k) as [|[|[|[|[|[|[|[|[|[|[|[|[|[|[|[|n]]]]]]]]]]]]]]]]; cbn in Hk;
      try (inversion Hk; subst; lia). destruct n; discriminate. }
  destruct HT as [Hw Ho]. now rewrite (read_reg_k_short_eof d k off w sl Hk Hw Ho Hl).
Qed.
Lemma P_readreg_needs_bounds_check : forall d k off w,
  nth_error txt_reg_table (Z.to_nat k) = Some (off, w, true) -> lenZ d < off -> run (read_reg_k legacy d k) d = RPanic.
Proof. intros d k off w Hk Hl. eapply read_reg_k_panics; eauto. Qed.

Lemma P_value_from_bytes : forall id b,
  value_or_error (run (value_from_bytes id b) b) /\ res_steps (run (value_from_bytes id b) b) <= 1 /\
  res_alloc (run (value_from_bytes id b) b) = 0.
Proof.
  intros. apply cost_total_run; [lia | apply value_from_bytes_nopanic | apply value_from_bytes_nofuel | apply value_from_bytes_cost].
Qed.

Lemma P_event_data : forall d e isz,
  (EventLog.parse_locality d <> Panic /\ EventLog.parse_locality d <> OutOfFuel) /\
  (EventLog.parse_event_data e isz <> Panic /\ EventLog.parse_event_data e isz <> OutOfFuel).
Proof. intros. split; [apply Proofs.EventLog.parse_locality_no_panic | apply Proofs.EventLog.parse_event_data_total]. Qed.

Lemma P_sysfs : forall d,
  value_or_error (run (parse_sysfs_pcrs d) d) /\ res_steps (run (parse_sysfs_pcrs d) d) <= lenZ d + 1 /\
  res_alloc (run (parse_sysfs_pcrs d) d) = 0.
Proof. intros d. split; [apply parse_sysfs_pcrs_total | apply parse_sysfs_pcrs_steps]. Qed.
Lemma P_sysfs_guard : exists d,
  run (parse_sysfs_pcrs_g false d) d = RPanic /\ outcome_of (run (parse_sysfs_pcrs d) d) = Err E_OTHER.
Proof. exists sysfs_25. exact sysfs_unguarded_panics. Qed.

Lemma P_local_caps : forall d,
  value_or_error (run (local_caps d) d) /\ res_steps (run (local_caps d) d) <= lenZ d + 1 /\ res_alloc (run (local_caps d) d) = 0.
Proof. intros d. split; [apply local_caps_total | apply local_caps_steps]. Qed.

Lemma P_bytes_range : forall len a b i, value_or_error (run (bytes_range len a b) i).
Proof. intros. apply bytes_range_total. Qed.

Lemma P_decrypt_total : forall pw d, value_or_error (run (decrypt_frame faithful pw d) d).
Proof.
  intros pw d. apply voe_run; [now apply decrypt_frame_nopanic|].
  intros s. unfold decrypt_frame. destruct pw; [destruct (has_len d 12); [|destruct (fx_bounds faithful)]|]; discriminate.
Qed.
Lemma P_decrypt_short_error : forall d, lenZ d < 12 -> outcome_of (run (decrypt_frame faithful true d) d) = Err E_FIX.
Proof.
  intros d H. unfold run, decrypt_frame. destruct (has_len d 12) eqn:E; [apply has_len_true in E; lia | reflexivity].
Qed.
Lemma P_decrypt_needs_length_check : forall d, lenZ d < 12 -> run (decrypt_frame legacy true d) d = RPanic.
Proof.
  intros d H. unfold run, decrypt_frame. destruct (has_len d 12) eqn:E; [apply has_len_true in E; lia | reflexivity].
Qed.

(** the PEM block loop terminates because pem.Decode hands back a strictly shorter rest *)
Lemma pem_loop_total decode :
  (forall raw c rest, decode raw = Some (c, rest) -> (length rest < length raw)%nat) ->
  forall fuel raw, (length raw < fuel)%nat ->
  pem_loop decode fuel raw <> OutOfFuel /\ pem_loop decode fuel raw <> Panic.
Proof.
  intros Hd. induction fuel as [|f IH]; intros raw Hl; [lia|]. cbn [pem_loop].
  destruct (decode raw) as [[c rest]|] eqn:E; [|split; discriminate].
  destruct c; [|split; discriminate]. apply IH. apply Hd in E. lia.
Qed.
Lemma P_pem_loop : forall decode,
  (forall raw c rest, decode raw = Some (c, rest) -> (length rest < length raw)%nat) ->
  forall raw, pem_loop decode (S (length raw)) raw <> OutOfFuel /\ pem_loop decode (S (length raw)) raw <> Panic.
Proof. intros decode Hd raw. apply pem_loop_total; [exact Hd | lia]. Qed.
Lemma P_pem_loop_needs_progress : exists decode raw, forall fuel, pem_loop decode fuel raw = OutOfFuel.
Proof.
  exists (fun r => Some (true, r)), [45]. induction fuel as [|f IH]; [reflexivity | exact IH].
Qed.
Lemma ex_pem_decode : exists decode : list Z -> option (bool * list Z),
  (forall raw c rest, decode raw = Some (c, rest) -> (length rest < length raw)%nat) /\
  pem_loop decode 4 [1; 1; 0] = Ok true /\ pem_loop decode 3 [1; 1] = Err E_OTHER.
Proof.
  exists (fun r => match r with [] => None | x :: t => Some (x =? 1, t) end). split.
  - intros raw c rest H. destruct raw; [discriminate|]. inversion H; subst. cbn. lia.
  - split; reflexivity.
Qed.

(** examples: non-trivial values *)
Lemma ex_lookup : 32 <= lenZ (repeat 0 24 ++ [2; 1; 0; 0] ++ repeat 0 4) /\
  outcome_of (run (lookup_acm_size faithful (repeat 0 24 ++ [2; 1; 0; 0] ++ repeat 0 4)) (repeat 0 24 ++ [2; 1; 0; 0] ++ repeat 0 4)) = Ok [1032].
Proof. vm_compute. split; [discriminate | reflexivity]. Qed.
(** a well-formed file: one list with one custom element of Size 40 (8 data bytes) *)
Definition custom_ok : list Z :=
  LCP_SIG ++ [0; 0; 0; 1] ++ [0; 1; 0; 0; 40; 0; 0; 0] ++ [40; 0; 0; 0] ++ [3; 0; 0; 0; 0; 0; 0; 0]
  ++ [239; 190; 173; 222; 1; 0; 2; 0; 3; 0; 1; 2; 3; 4; 5; 6] ++ [205; 205; 205; 205; 205; 205; 205; 205].
Lemma ex_fixes : fx_custom_min faithful = true /\ fx_cap faithful = true /\ fx_bounds faithful = true /\
  outcome_of (run (policy_data faithful) (custom_witness [20; 0; 0; 0])) = Err E_FIX /\
  outcome_of (run (policy_data faithful) (custom_witness [0; 0; 0; 64])) = Err E_FIX /\
  outcome_of (run (policy_data faithful) custom_ok) = outcome_of (run (policy_data legacy) custom_ok) /\
  (exists v, outcome_of (run (policy_data faithful) custom_ok) = Ok v) /\
  res_alloc (run (policy_data faithful) custom_ok) = 88.
Proof. vm_compute. repeat split; try reflexivity. eexists; reflexivity. Qed.
Lemma ex_readreg : nth_error txt_reg_table (Z.to_nat 4) = Some (1024, 32, true) /\
  nth_error txt_reg_table (Z.to_nat 0) = Some (888, 8, false) /\ nth_error txt_reg_table (Z.to_nat 16) = None.
Proof. repeat split; reflexivity. Qed.
Lemma ex_readtxt :
  (exists v, outcome_of (run (read_txt_registers faithful (repeat 7 1056)) (repeat 7 1056)) = Ok v) /\
  outcome_of (run (read_txt_registers faithful (repeat 7 1055)) (repeat 7 1055)) = Err E_OTHER.
Proof. split; [eexists; vm_compute; reflexivity | vm_compute; reflexivity]. Qed.
Lemma ex_decrypt : outcome_of (run (decrypt_frame faithful true (repeat 1 12)) (repeat 1 12)) = Ok [] /\
  outcome_of (run (decrypt_frame faithful true (repeat 1 11)) (repeat 1 11)) = Err E_FIX.
Proof. split; vm_compute; reflexivity. Qed.
