(** C15 — proofs about the decoder models of Model/Decoders.v.

    Three compositional judgements on readers, each closed under the
    combinators of the reader monad:
      [nopanic r]  : r never returns [RPanic];
      [nofuel r]   : r never runs out of loop fuel (termination of the Go loop);
      [cons k r]   : r never moves the reader backwards and consumes at least
                     [k] bytes when it succeeds (what makes |rest|+1 fuel enough);
    plus [cost], a Hoare-style judgement for steps and allocation of
    straight-line readers.  The per-decoder theorems are assembled from them. *)
From CSS Require Import Lib.Base Model.Decoders.
From CSS Require Model.EventLog Proofs.EventLog.
From Coq Require Import Lia ZArith List Bool.

(** * Lists *)

Lemma takeZ_some : forall l n a r, takeZ l n = Some (a, r) ->
  l = a ++ r /\ (0 < n -> (length r < length l)%nat) /\ (length r <= length l)%nat /\ lenZ a = Z.max 0 n.
Proof.
  induction l as [|x t IH]; intros n a r H.
  - cbn [takeZ] in H. destruct (n <=? 0) eqn:E; [|discriminate]. inversion H; subst.
    apply Z.leb_le in E. unfold lenZ. cbn. repeat split; lia.
  - cbn [takeZ] in H. destruct (n <=? 0) eqn:E.
    + inversion H; subst. apply Z.leb_le in E. unfold lenZ. cbn. repeat split; lia.
    + apply Z.leb_gt in E. destruct (takeZ t (n - 1)) as [[a' r']|] eqn:T; [|discriminate].
      inversion H; subst. destruct (IH _ _ _ T) as (E1 & _ & E3 & E4).
      unfold lenZ in *. cbn [length app].
      split; [now rewrite E1 at 1|].
      split; [intros; lia|]. split; [lia|]. rewrite Nat2Z.inj_succ. lia.
Qed.

Lemma has_len_true : forall l n, has_len l n = true <-> n <= lenZ l.
Proof.
  unfold lenZ. induction l as [|x t IH]; intros n; cbn [has_len length].
  - destruct (n <=? 0) eqn:E; [apply Z.leb_le in E | apply Z.leb_gt in E]; split; intros; try lia; try discriminate; auto.
  - destruct (n <=? 0) eqn:E; [apply Z.leb_le in E | apply Z.leb_gt in E].
    + split; intros; auto. lia.
    + rewrite IH. rewrite Nat2Z.inj_succ. lia.
Qed.

Lemma dropZ_length : forall l n, (length (dropZ l n) <= length l)%nat.
Proof.
  induction l as [|x t IH]; intros n; cbn [dropZ]; destruct (n <=? 0); cbn; auto.
Qed.

Lemma dropZ_lenZ : forall l n, 0 <= n -> lenZ (dropZ l n) = Z.max 0 (lenZ l - n).
Proof.
  unfold lenZ. induction l as [|x t IH]; intros n Hn; cbn [dropZ].
  - destruct (n <=? 0); cbn; lia.
  - destruct (n <=? 0) eqn:E; [apply Z.leb_le in E | apply Z.leb_gt in E].
    + assert (n = 0) by lia. subst. cbn [length]. lia.
    + rewrite IH by lia. cbn [length]. rewrite Nat2Z.inj_succ. lia.
Qed.

Lemma le_val_bounds : forall l, 0 <= le_val l < 256 ^ lenZ l.
Proof.
  unfold lenZ. induction l as [|x t IH]; cbn [le_val fold_right length].
  - cbn. lia.
  - fold (le_val t). rewrite Nat2Z.inj_succ, Z.pow_succ_r by lia.
    pose proof (Z.mod_pos_bound x 256 ltac:(lia)). lia.
Qed.

Lemma be_val_acc_bounds : forall l acc, 0 <= acc ->
  0 <= fold_left (fun a x => a * 256 + x mod 256) l acc < (acc + 1) * 256 ^ lenZ l.
Proof.
  unfold lenZ. induction l as [|x t IH]; intros acc Ha; cbn [fold_left length].
  - cbn. lia.
  - pose proof (Z.mod_pos_bound x 256 ltac:(lia)).
    specialize (IH (acc * 256 + x mod 256) ltac:(lia)).
    rewrite Nat2Z.inj_succ, Z.pow_succ_r by lia.
    assert (0 < 256 ^ Z.of_nat (length t)) by (apply Z.pow_pos_nonneg; lia). nia.
Qed.
Lemma be_val_bounds : forall l, 0 <= be_val l < 256 ^ lenZ l.
Proof. intros. unfold be_val. pose proof (be_val_acc_bounds l 0 ltac:(lia)). lia. Qed.

(** * The judgements *)

Definition nopanic {A} (r : rd A) : Prop := forall s, r s <> RPanic.
Definition nofuel {A} (r : rd A) : Prop := forall s, r s <> RFuel.
Definition cons {A} (k : nat) (r : rd A) : Prop := forall s,
  match r s with
  | ROk _ s' => (length (s_rest s') + k <= length (s_rest s))%nat
  | RErr _ s' => (length (s_rest s') <= length (s_rest s))%nat
  | _ => True
  end.

Lemma cons_weaken {A} (k k' : nat) (r : rd A) : cons k r -> (k' <= k)%nat -> cons k' r.
Proof. intros H Hk s. specialize (H s). destruct (r s); auto. lia. Qed.

(** ** ret / fail / bind *)
Lemma nopanic_ret {A} (a : A) : nopanic (ret a). Proof. intros s; discriminate. Qed.
Lemma nofuel_ret {A} (a : A) : nofuel (ret a). Proof. intros s; discriminate. Qed.
Lemma cons_ret {A} (a : A) : cons 0 (ret a). Proof. intros s; cbn; lia. Qed.
Lemma nopanic_fail {A} c : nopanic (@fail A c). Proof. intros s; discriminate. Qed.
Lemma nofuel_fail {A} c : nofuel (@fail A c). Proof. intros s; discriminate. Qed.
Lemma cons_fail {A} k c : cons k (@fail A c). Proof. intros s; cbn; lia. Qed.
Lemma nofuel_panic {A} : nofuel (@panic A). Proof. intros s; discriminate. Qed.
Lemma cons_panic {A} k : cons k (@panic A). Proof. intros s; exact I. Qed.

Lemma nopanic_bind {A B} (r : rd A) (f : A -> rd B) :
  nopanic r -> (forall a, nopanic (f a)) -> nopanic (bind r f).
Proof. intros Hr Hf s. unfold bind. specialize (Hr s). destruct (r s); try discriminate; auto. apply Hf. Qed.
Lemma nofuel_bind {A B} (r : rd A) (f : A -> rd B) :
  nofuel r -> (forall a, nofuel (f a)) -> nofuel (bind r f).
Proof. intros Hr Hf s. unfold bind. specialize (Hr s). destruct (r s); try discriminate; auto. apply Hf. Qed.
Lemma cons_bind {A B} (k1 k2 : nat) (r : rd A) (f : A -> rd B) :
  cons k1 r -> (forall a, cons k2 (f a)) -> cons (k1 + k2) (bind r f).
Proof.
  intros Hr Hf s. unfold bind. specialize (Hr s). destruct (r s) as [a s1|c s1| |]; auto.
  specialize (Hf a s1). destruct (f a s1); auto; lia.
Qed.

(** ** primitives *)
Lemma nopanic_read_n n : nopanic (read_n n).
Proof. intros s. unfold read_n. destruct (n <=? 0); [discriminate|]. destruct (s_rest s); [discriminate|]. destruct (takeZ _ _) as [[? ?]|]; discriminate. Qed.
Lemma nofuel_read_n n : nofuel (read_n n).
Proof. intros s. unfold read_n. destruct (n <=? 0); [discriminate|]. destruct (s_rest s); [discriminate|]. destruct (takeZ _ _) as [[? ?]|]; discriminate. Qed.
Lemma cons_read_n0 n : cons 0 (read_n n).
Proof.
  intros s. unfold read_n. destruct (n <=? 0); [cbn; lia|]. destruct (s_rest s) eqn:E; [cbn; rewrite E; cbn; lia|].
  rewrite <- E. destruct (takeZ (s_rest s) n) as [[a r]|] eqn:T; cbn.
  - apply takeZ_some in T. lia.
  - lia.
Qed.
Lemma cons_read_n1 n : 0 < n -> cons 1 (read_n n).
Proof.
  intros Hn s. unfold read_n. destruct (n <=? 0) eqn:E0; [apply Z.leb_le in E0; lia|].
  destruct (s_rest s) eqn:E; [cbn; rewrite E; cbn; lia|].
  rewrite <- E. destruct (takeZ (s_rest s) n) as [[a r]|] eqn:T; cbn.
  - apply takeZ_some in T. destruct T as (_ & T & _). specialize (T Hn). lia.
  - lia.
Qed.

Lemma nopanic_read_le n : nopanic (read_le n).
Proof. apply nopanic_bind; [apply nopanic_read_n | intros; apply nopanic_ret]. Qed.
Lemma nofuel_read_le n : nofuel (read_le n).
Proof. apply nofuel_bind; [apply nofuel_read_n | intros; apply nofuel_ret]. Qed.
Lemma cons_read_le0 n : cons 0 (read_le n).
Proof. apply (cons_bind 0 0); [apply cons_read_n0 | intros; apply cons_ret]. Qed.
Lemma cons_read_le1 n : 0 < n -> cons 1 (read_le n).
Proof. intros. apply (cons_bind 1 0); [now apply cons_read_n1 | intros; apply cons_ret]. Qed.
Lemma nopanic_read_be n : nopanic (read_be n).
Proof. apply nopanic_bind; [apply nopanic_read_n | intros; apply nopanic_ret]. Qed.
Lemma nofuel_read_be n : nofuel (read_be n).
Proof. apply nofuel_bind; [apply nofuel_read_n | intros; apply nofuel_ret]. Qed.
Lemma cons_read_be0 n : cons 0 (read_be n).
Proof. apply (cons_bind 0 0); [apply cons_read_n0 | intros; apply cons_ret]. Qed.
Lemma cons_read_be1 n : 0 < n -> cons 1 (read_be n).
Proof. intros. apply (cons_bind 1 0); [now apply cons_read_n1 | intros; apply cons_ret]. Qed.

Lemma nopanic_alloc n e : nopanic (alloc n e). Proof. intros s; discriminate. Qed.
Lemma nofuel_alloc n e : nofuel (alloc n e). Proof. intros s; discriminate. Qed.
Lemma cons_alloc n e : cons 0 (alloc n e). Proof. intros s; cbn; lia. Qed.
Lemma nopanic_alloc_chk n e : n <? 0 = false -> nopanic (alloc_chk n e).
Proof. intros H s. unfold alloc_chk. rewrite H. discriminate. Qed.
Lemma nofuel_alloc_chk n e : nofuel (alloc_chk n e).
Proof. intros s. unfold alloc_chk. destruct (n <? 0); discriminate. Qed.
Lemma cons_alloc_chk n e : cons 0 (alloc_chk n e).
Proof. intros s. unfold alloc_chk. destruct (n <? 0); cbn; auto; lia. Qed.

Lemma nopanic_read_slice n : nopanic (read_slice n).
Proof. unfold read_slice. destruct (n <=? 0); [apply nopanic_ret|]. apply nopanic_bind; [apply nopanic_alloc | intros; apply nopanic_read_n]. Qed.
Lemma nofuel_read_slice n : nofuel (read_slice n).
Proof. unfold read_slice. destruct (n <=? 0); [apply nofuel_ret|]. apply nofuel_bind; [apply nofuel_alloc | intros; apply nofuel_read_n]. Qed.
Lemma cons_read_slice n : cons 0 (read_slice n).
Proof. unfold read_slice. destruct (n <=? 0); [apply cons_ret|]. apply (cons_bind 0 0); [apply cons_alloc | intros; apply cons_read_n0]. Qed.

Lemma nopanic_seek w o : nopanic (seek w o). Proof. intros s; discriminate. Qed.
Lemma nofuel_seek w o : nofuel (seek w o). Proof. intros s; discriminate. Qed.
Lemma nofuel_slice_from w o : nofuel (slice_from w o).
Proof. intros s. unfold slice_from. destruct (has_len w o); discriminate. Qed.
Lemma nopanic_slice_from w o : o <= lenZ w -> nopanic (slice_from w o).
Proof. intros H s. unfold slice_from. apply has_len_true in H. rewrite H. discriminate. Qed.

Lemma nopanic_cap_guard fx n : nopanic (cap_guard fx n).
Proof. intros s. unfold cap_guard. destruct (_ && _); discriminate. Qed.
Lemma nofuel_cap_guard fx n : nofuel (cap_guard fx n).
Proof. intros s. unfold cap_guard. destruct (_ && _); discriminate. Qed.
Lemma cons_cap_guard fx n : cons 0 (cap_guard fx n).
Proof. intros s. unfold cap_guard. destruct (_ && _); cbn; lia. Qed.

Lemma nopanic_or_else {A} (r h : rd A) : nopanic r -> nopanic h -> nopanic (or_else r h).
Proof. intros Hr Hh s. unfold or_else. specialize (Hr s). destruct (r s); try discriminate; auto. Qed.
Lemma nofuel_or_else {A} (r h : rd A) : nofuel r -> nofuel h -> nofuel (or_else r h).
Proof. intros Hr Hh s. unfold or_else. specialize (Hr s). destruct (r s); try discriminate; auto. Qed.
Lemma cons_or_else {A} k (r h : rd A) : cons k r -> cons k h -> cons k (or_else r h).
Proof.
  intros Hr Hh s. unfold or_else. specialize (Hr s). destruct (r s) as [a s1|c s1| |]; auto.
  specialize (Hh s1). destruct (h s1); auto; lia.
Qed.

Lemma nopanic_catch_eof {A} (r : rd A) d : nopanic r -> nopanic (catch_eof r d).
Proof. intros Hr s. unfold catch_eof. specialize (Hr s). destruct (r s); try discriminate; auto. destruct (_ =? _); discriminate. Qed.
Lemma nofuel_catch_eof {A} (r : rd A) d : nofuel r -> nofuel (catch_eof r d).
Proof. intros Hr s. unfold catch_eof. specialize (Hr s). destruct (r s); try discriminate; auto. destruct (_ =? _); discriminate. Qed.

(** ** loops *)
Lemma nopanic_loopS {X} (cont : X -> bool) (body : X -> rd X) :
  (forall x, nopanic (body x)) -> forall fuel x, nopanic (loopS fuel cont body x).
Proof.
  intros Hb. induction fuel as [|f IH]; intros x s; cbn [loopS]; destruct (cont x); try discriminate.
  specialize (Hb x s). destruct (body x s); try discriminate; auto. apply IH.
Qed.
Lemma nopanic_loop {X} (cont : X -> bool) (body : X -> rd X) x :
  (forall x, nopanic (body x)) -> nopanic (loop cont body x).
Proof. intros Hb s. unfold loop. now apply nopanic_loopS. Qed.

Lemma nofuel_loopS {X} (cont : X -> bool) (body : X -> rd X) :
  (forall x, nofuel (body x)) -> (forall x, cons 1 (body x)) ->
  forall fuel x s, (length (s_rest s) < fuel)%nat -> loopS fuel cont body x s <> RFuel.
Proof.
  intros Hb Hc. induction fuel as [|f IH]; intros x s Hl; [lia|].
  cbn [loopS]. destruct (cont x); [|discriminate].
  specialize (Hb x s). specialize (Hc x s). destruct (body x s) as [x' s'|c s'| |]; try discriminate; auto.
  apply IH. lia.
Qed.
Lemma nofuel_loop {X} (cont : X -> bool) (body : X -> rd X) x :
  (forall x, nofuel (body x)) -> (forall x, cons 1 (body x)) -> nofuel (loop cont body x).
Proof. intros Hb Hc s. unfold loop. apply nofuel_loopS; auto. Qed.

Lemma cons_loopS {X} (cont : X -> bool) (body : X -> rd X) :
  (forall x, cons 0 (body x)) -> forall fuel x, cons 0 (loopS fuel cont body x).
Proof.
  intros Hc. induction fuel as [|f IH]; intros x s; cbn [loopS]; destruct (cont x); cbn; try lia; auto.
  specialize (Hc x s). destruct (body x s) as [x' s'|c s'| |]; auto.
  specialize (IH x' s'). destruct (loopS f cont body x' s'); auto; lia.
Qed.
Lemma cons_loop {X} (cont : X -> bool) (body : X -> rd X) x :
  (forall x, cons 0 (body x)) -> cons 0 (loop cont body x).
Proof. intros Hc s. unfold loop. now apply cons_loopS. Qed.

Lemma nopanic_repeat_n n b : nopanic b -> nopanic (repeat_n n b).
Proof.
  intros Hb. unfold repeat_n. apply nopanic_bind; [|intros; apply nopanic_ret].
  apply nopanic_loop. intros x. apply nopanic_bind; [exact Hb | intros; apply nopanic_ret].
Qed.
Lemma nofuel_repeat_n n b : nofuel b -> cons 1 b -> nofuel (repeat_n n b).
Proof.
  intros Hb Hc. unfold repeat_n. apply nofuel_bind; [|intros; apply nofuel_ret].
  apply nofuel_loop; intros x.
  - apply nofuel_bind; [exact Hb | intros; apply nofuel_ret].
  - apply (cons_bind 1 0); [exact Hc | intros; apply cons_ret].
Qed.
Lemma cons_repeat_n n b : cons 0 b -> cons 0 (repeat_n n b).
Proof.
  intros Hc. unfold repeat_n. apply (cons_bind 0 0); [|intros; apply cons_ret].
  apply cons_loop; intros x. apply (cons_bind 0 0); [exact Hc | intros; apply cons_ret].
Qed.

(** ** automation: decompose a reader built from the combinators *)
Ltac rd_case :=
  match goal with
  | |- _ (if ?b then _ else _) => destruct b eqn:?
  | |- _ (match ?x with _ => _ end) => destruct x eqn:?
  end.
Ltac np := repeat first
  [ apply nopanic_ret | apply nopanic_fail | apply nopanic_read_n | apply nopanic_read_le | apply nopanic_read_be
  | apply nopanic_alloc | apply nopanic_read_slice | apply nopanic_seek | apply nopanic_cap_guard
  | match goal with |- nopanic (bind _ _) => apply nopanic_bind; [ | intros ? ] end
  | apply nopanic_or_else | apply nopanic_catch_eof | apply nopanic_repeat_n | (apply nopanic_loop; intros ?)
  | assumption
  | rd_case ].
Ltac nf := repeat first
  [ apply nofuel_ret | apply nofuel_fail | apply nofuel_panic | apply nofuel_read_n | apply nofuel_read_le | apply nofuel_read_be
  | apply nofuel_alloc | apply nofuel_alloc_chk | apply nofuel_read_slice | apply nofuel_seek | apply nofuel_slice_from
  | apply nofuel_cap_guard
  | match goal with |- nofuel (bind _ _) => apply nofuel_bind; [ | intros ? ] end
  | apply nofuel_or_else | apply nofuel_catch_eof
  | assumption
  | rd_case ].
(** [cons 0] of a chain *)
Ltac c0 := repeat first
  [ apply cons_ret | apply cons_fail | apply cons_panic | apply cons_read_n0 | apply cons_read_le0 | apply cons_read_be0
  | apply cons_alloc | apply cons_alloc_chk | apply cons_read_slice | apply cons_cap_guard
  | match goal with |- cons 0 (bind _ _) => apply (cons_bind 0 0); [ | intros ? ] end
  | apply cons_or_else | apply cons_repeat_n | (apply cons_loop; intros ?)
  | assumption
  | rd_case ].
(** [cons 1] of a chain that starts with a read of at least one byte *)
Ltac c1 := match goal with |- cons 1 (bind _ _) => idtac end; apply (cons_bind 1 0); [ first [ apply cons_read_le1; lia | apply cons_read_be1; lia | apply cons_read_n1; lia ] | intros ?; c0 ].

(** * LCP policy data (pkg/tools/lcp.go) *)

Lemma nopanic_lcp_hash a : nopanic (lcp_hash a). Proof. unfold lcp_hash. np. Qed.
Lemma nofuel_lcp_hash a : nofuel (lcp_hash a). Proof. unfold lcp_hash. nf. Qed.
Lemma cons1_lcp_hash a : cons 1 (lcp_hash a).
Proof. unfold lcp_hash. destruct (a =? 0); [apply cons_read_n1; lia | apply cons_fail]. Qed.
Lemma cons0_lcp_hash a : cons 0 (lcp_hash a).
Proof. eapply cons_weaken; [apply cons1_lcp_hash | lia]. Qed.

Lemma nopanic_elt_mle : nopanic elt_mle. Proof. unfold elt_mle. np. Qed.
Lemma nofuel_elt_mle : nofuel elt_mle.
Proof. unfold elt_mle. nf. apply nofuel_repeat_n; [nf | apply cons_read_n1; lia]. Qed.
Lemma cons_elt_mle : cons 0 elt_mle. Proof. unfold elt_mle. c0. Qed.

Lemma nopanic_elt_sbios : nopanic elt_sbios.
Proof. unfold elt_sbios. np; apply nopanic_lcp_hash. Qed.
Lemma nofuel_elt_sbios : nofuel elt_sbios.
Proof.
  unfold elt_sbios. nf; try apply nofuel_lcp_hash.
  apply nofuel_repeat_n; [apply nofuel_lcp_hash | apply cons1_lcp_hash].
Qed.
Lemma cons_elt_sbios : cons 0 elt_sbios.
Proof. unfold elt_sbios. c0; apply cons0_lcp_hash. Qed.

Lemma nopanic_sel_loop n : nopanic (sel_loop n). Proof. unfold sel_loop. np. Qed.
Lemma nofuel_sel_loop n : nofuel (sel_loop n).
Proof.
  unfold sel_loop. nf. apply nofuel_loop; intros x; [nf | c1].
Qed.
Lemma cons_sel_loop n : cons 0 (sel_loop n). Proof. unfold sel_loop. c0. Qed.

Lemma nopanic_pcr_info : nopanic pcr_info. Proof. unfold pcr_info. np; apply nopanic_sel_loop. Qed.
Lemma nofuel_pcr_info : nofuel pcr_info. Proof. unfold pcr_info. nf; apply nofuel_sel_loop. Qed.
Lemma cons1_pcr_info : cons 1 pcr_info.
Proof.
  unfold pcr_info. apply (cons_bind 1 0); [apply cons_read_be1; lia|]. intros ?. c0; apply cons_sel_loop.
Qed.

Lemma nopanic_elt_pconf : nopanic elt_pconf. Proof. unfold elt_pconf. np; apply nopanic_pcr_info. Qed.
Lemma nofuel_elt_pconf : nofuel elt_pconf.
Proof. unfold elt_pconf. nf. apply nofuel_repeat_n; [apply nofuel_pcr_info | apply cons1_pcr_info]. Qed.
Lemma cons_elt_pconf : cons 0 elt_pconf.
Proof. unfold elt_pconf. c0. eapply cons_weaken; [apply cons1_pcr_info | lia]. Qed.

(** the only panic site of the LCP decoders: [make([]byte, Size-32)] *)
Lemma nopanic_elt_custom fx size : fx_custom_min fx = true -> nopanic (elt_custom fx size).
Proof.
  intros Hfx. unfold elt_custom. rewrite Hfx. cbn [andb].
  np. apply nopanic_alloc_chk. assumption.
Qed.
Lemma nofuel_elt_custom fx size : nofuel (elt_custom fx size). Proof. unfold elt_custom. nf. Qed.
Lemma cons_elt_custom fx size : cons 0 (elt_custom fx size). Proof. unfold elt_custom. c0. Qed.

Lemma nopanic_element fx : fx_custom_min fx = true -> nopanic (element fx).
Proof.
  intros Hfx. unfold element. np;
    first [apply nopanic_elt_mle | apply nopanic_elt_sbios | apply nopanic_elt_pconf | now apply nopanic_elt_custom].
Qed.
Lemma nofuel_element fx : nofuel (element fx).
Proof.
  unfold element. nf;
    first [apply nofuel_elt_mle | apply nofuel_elt_sbios | apply nofuel_elt_pconf | apply nofuel_elt_custom].
Qed.
Lemma cons1_element fx : cons 1 (element fx).
Proof.
  unfold element. apply (cons_bind 1 0); [apply cons_read_le1; lia|]. intros ?. c0;
    first [apply cons_elt_mle | apply cons_elt_sbios | apply cons_elt_pconf | apply cons_elt_custom].
Qed.
Lemma cons0_element fx : cons 0 (element fx).
Proof. eapply cons_weaken; [apply cons1_element | lia]. Qed.

Lemma nopanic_lcp_signature : nopanic lcp_signature. Proof. unfold lcp_signature. np. Qed.
Lemma nofuel_lcp_signature : nofuel lcp_signature. Proof. unfold lcp_signature. nf. Qed.
Lemma cons_lcp_signature : cons 0 lcp_signature. Proof. unfold lcp_signature. c0. Qed.

Lemma nopanic_list1_loop fx e : fx_custom_min fx = true -> nopanic (list1_loop fx e).
Proof. intros. unfold list1_loop. np. now apply nopanic_element. Qed.
Lemma nofuel_list1_loop fx e : nofuel (list1_loop fx e).
Proof.
  unfold list1_loop. nf. apply nofuel_loop; intros x.
  - nf. apply nofuel_element.
  - apply (cons_bind 1 0); [apply cons1_element | intros; apply cons_ret].
Qed.
Lemma cons_list1_loop fx e : cons 0 (list1_loop fx e).
Proof. unfold list1_loop. c0. apply cons0_element. Qed.

Lemma nopanic_policy_list1 fx : fx_custom_min fx = true -> nopanic (policy_list1 fx).
Proof. intros. unfold policy_list1. np; first [now apply nopanic_list1_loop | apply nopanic_lcp_signature]. Qed.
Lemma nofuel_policy_list1 fx : nofuel (policy_list1 fx).
Proof. unfold policy_list1. nf; first [apply nofuel_list1_loop | apply nofuel_lcp_signature]. Qed.
Lemma cons1_policy_list1 fx : cons 1 (policy_list1 fx).
Proof.
  unfold policy_list1. apply (cons_bind 1 0); [apply cons_read_le1; lia|]. intros ?.
  c0; first [apply cons_list1_loop | apply cons_lcp_signature].
Qed.

Lemma nopanic_policy_list2 fx : fx_custom_min fx = true -> nopanic (policy_list2 fx).
Proof. intros. unfold policy_list2. np. now apply nopanic_element. Qed.
Lemma nofuel_policy_list2 fx : nofuel (policy_list2 fx).
Proof.
  unfold policy_list2. nf. apply nofuel_repeat_n.
  - nf. apply nofuel_element.
  - apply (cons_bind 1 0); [apply cons1_element | intros; apply cons_ret].
Qed.
Lemma cons1_policy_list2 fx : cons 1 (policy_list2 fx).
Proof.
  unfold policy_list2. apply (cons_bind 1 0); [apply cons_read_le1; lia|]. intros ?. c0. apply cons0_element.
Qed.

Theorem policy_data_nopanic fx : fx_custom_min fx = true -> nopanic (policy_data fx).
Proof.
  intros. unfold policy_data. np; first [now apply nopanic_policy_list1 | now apply nopanic_policy_list2].
Qed.
Theorem policy_data_nofuel fx : nofuel (policy_data fx).
Proof.
  unfold policy_data. nf. apply nofuel_repeat_n.
  - nf; first [apply nofuel_policy_list1 | apply nofuel_policy_list2].
  - apply cons_or_else; [apply cons1_policy_list1 | apply cons1_policy_list2].
Qed.

(** closed witnesses against the faithful model *)
Definition LCP_SIG : list Z :=
  [73; 110; 116; 101; 108; 40; 82; 41; 32; 84; 88; 84; 32; 76; 67; 80; 95; 80; 79; 76; 73; 67; 89; 95; 68; 65; 84; 65; 0; 0; 0; 0].
(** signature, 3 reserved bytes, NumLists = 1, list (version 0x100, no
    signature, PolicyElementSize 100), one custom element with the given Size *)
Definition custom_witness (size : list Z) : list Z :=
  LCP_SIG ++ [0; 0; 0; 1] ++ [0; 1; 0; 0; 100; 0; 0; 0] ++ size ++ [3; 0; 0; 0; 0; 0; 0; 0]
  ++ [239; 190; 173; 222; 1; 0; 2; 0; 3; 0; 1; 2; 3; 4; 5; 6] ++ [205; 205; 205; 205; 205; 205; 205; 205].

Lemma policy_data_panics : run (policy_data faithful) (custom_witness [20; 0; 0; 0]) = RPanic.
Proof. vm_compute. reflexivity. Qed.
Lemma policy_data_allocates :
  lenZ (custom_witness [0; 0; 0; 64]) = 80 /\
  2147483648 <= res_alloc (run (policy_data faithful) (custom_witness [0; 0; 0; 64])).
Proof. vm_compute. split; [reflexivity | discriminate]. Qed.

(** * LCP policy (ParsePolicy) *)

Lemma nopanic_parse_policy1 : nopanic parse_policy1. Proof. unfold parse_policy1. np. Qed.
Lemma nofuel_parse_policy1 : nofuel parse_policy1. Proof. unfold parse_policy1. nf. Qed.
Lemma nopanic_parse_policy2 b : nopanic (parse_policy2 b). Proof. unfold parse_policy2. np. Qed.
Lemma nofuel_parse_policy2 b : nofuel (parse_policy2 b). Proof. unfold parse_policy2. nf. Qed.
Theorem parse_policy_nopanic b i : nopanic (parse_policy b i).
Proof. unfold parse_policy. np; first [apply nopanic_parse_policy1 | apply nopanic_parse_policy2]. Qed.
Theorem parse_policy_nofuel b i : nofuel (parse_policy b i).
Proof. unfold parse_policy. nf; first [apply nofuel_parse_policy1 | apply nofuel_parse_policy2]. Qed.

(** * ACM *)

Theorem lookup_acm_size_nopanic h : 32 <= lenZ h -> nopanic (lookup_acm_size h).
Proof. intros H. unfold lookup_acm_size. apply has_len_true in H. rewrite H. np. Qed.
Theorem lookup_acm_size_nofuel h : nofuel (lookup_acm_size h).
Proof. unfold lookup_acm_size. nf. Qed.
Lemma lookup_acm_size_panics : run (lookup_acm_size (repeat 0 16)) (repeat 0 16) = RPanic.
Proof. vm_compute. reflexivity. Qed.
Lemma lookup_acm_size_short h : lenZ h < 32 -> forall s, lookup_acm_size h s = RPanic.
Proof.
  intros H s. unfold lookup_acm_size. destruct (has_len h 32) eqn:E; [apply has_len_true in E; lia | reflexivity].
Qed.

Theorem acm_info_nopanic fx t : nopanic (acm_info fx t). Proof. unfold acm_info. np. Qed.
Theorem acm_info_nofuel fx t : nofuel (acm_info fx t). Proof. unfold acm_info. nf. Qed.
(** user area: 48 zero bytes (all list offsets 0); module: Chipsets.Count = 0x08000000 *)
Lemma acm_info_allocates :
  2147483648 <= res_alloc (run (acm_info faithful [0; 0; 0; 8]) (repeat 0 48)).
Proof. vm_compute. discriminate. Qed.

(** * TXT register space (pkg/tools/txt.go) *)

Ltac np_slices :=
  repeat first
  [ (apply nopanic_slice_from; lia)
  | apply nopanic_ret | apply nopanic_fail | apply nopanic_read_n | apply nopanic_read_le | apply nopanic_seek
  | match goal with |- nopanic (bind _ _) => apply nopanic_bind; [ | intros ? ] end
  | rd_case ].

Theorem parse_txt_regs_nopanic d : 816 <= lenZ d -> nopanic (parse_txt_regs d).
Proof. intros H. unfold parse_txt_regs. np_slices. Qed.
Theorem parse_txt_regs_nofuel d : nofuel (parse_txt_regs d).
Proof. unfold parse_txt_regs. nf. Qed.
Lemma parse_txt_regs_panics : run (parse_txt_regs (repeat 0 16)) (repeat 0 16) = RPanic.
Proof. vm_compute. reflexivity. Qed.

Theorem parse_bios_data_nopanic : nopanic parse_bios_data. Proof. unfold parse_bios_data. np. Qed.
Theorem parse_bios_data_nofuel : nofuel parse_bios_data. Proof. unfold parse_bios_data. nf. Qed.

Theorem read_acm_status_nopanic d : 808 <= lenZ d -> nopanic (read_acm_status d).
Proof. intros H. unfold read_acm_status. np_slices. Qed.
Theorem read_acm_status_nofuel d : nofuel (read_acm_status d). Proof. unfold read_acm_status. nf. Qed.
Lemma read_acm_status_panics : run (read_acm_status (repeat 0 16)) (repeat 0 16) = RPanic.
Proof. vm_compute. reflexivity. Qed.

Theorem read_raw64_at_nopanic d o : nopanic (read_raw64_at d o). Proof. unfold read_raw64_at. np. Qed.
Theorem read_raw64_at_nofuel d o : nofuel (read_raw64_at d o). Proof. unfold read_raw64_at. nf. Qed.

(** * pkg/registers: Read*, ReadTXTRegisters *)

Definition reg_ok (d : list Z) (e : Z * Z * bool) : Prop :=
  let '(off, _, sl) := e in sl = true -> off <= lenZ d.

Lemma read_reg_nopanic d e : reg_ok d e -> nopanic (read_reg d e).
Proof.
  destruct e as [[off w] sl]. cbn [reg_ok]. intros H. unfold read_reg.
  destruct sl; [specialize (H eq_refl)|]; np_slices.
Qed.
Lemma read_reg_nofuel d e : nofuel (read_reg d e).
Proof. destruct e as [[off w] sl]. unfold read_reg. nf. Qed.

Lemma read_txt_loop_nopanic d : forall tbl n acc, Forall (reg_ok d) tbl -> nopanic (read_txt_loop d tbl n acc).
Proof.
  induction tbl as [|e t IH]; intros n acc HF s; cbn [read_txt_loop].
  - destruct (0 <? n); discriminate.
  - inversion HF; subst. pose proof (read_reg_nopanic d e H1 s) as Hp.
    destruct (read_reg d e s); try congruence; now apply IH.
Qed.
Lemma read_txt_loop_nofuel d : forall tbl n acc, nofuel (read_txt_loop d tbl n acc).
Proof.
  induction tbl as [|e t IH]; intros n acc s; cbn [read_txt_loop].
  - destruct (0 <? n); discriminate.
  - pose proof (read_reg_nofuel d e s) as Hp.
    destruct (read_reg d e s); try congruence; apply IH.
Qed.

Lemma txt_table_ok d : 1024 <= lenZ d -> Forall (reg_ok d) txt_reg_table.
Proof.
  intros H. unfold txt_reg_table. repeat constructor; cbn [reg_ok]; intros; lia.
Qed.

Theorem read_txt_registers_nopanic d : 1024 <= lenZ d -> nopanic (read_txt_registers d).
Proof. intros H. unfold read_txt_registers. apply read_txt_loop_nopanic. now apply txt_table_ok. Qed.
Theorem read_txt_registers_nofuel d : nofuel (read_txt_registers d).
Proof. unfold read_txt_registers. apply read_txt_loop_nofuel. Qed.
Lemma read_txt_registers_panics : run (read_txt_registers (repeat 0 16)) (repeat 0 16) = RPanic.
Proof. vm_compute. reflexivity. Qed.

(** the k-th Read* function does not panic when the image reaches the register offset *)
Theorem read_reg_k_nopanic d k e :
  nth_error txt_reg_table (Z.to_nat k) = Some e -> fst (fst e) <= lenZ d -> nopanic (read_reg_k d k).
Proof.
  intros Hk Hl. unfold read_reg_k. rewrite Hk. apply read_reg_nopanic.
  destruct e as [[off w] sl]. cbn in *. intros; lia.
Qed.
Theorem read_reg_k_nofuel d k : nofuel (read_reg_k d k).
Proof. unfold read_reg_k. destruct (nth_error _ _); [apply read_reg_nofuel | apply nofuel_fail]. Qed.
(** ... and it does panic when it is a slicing reader and the image is shorter *)
Theorem read_reg_k_panics d k off w :
  nth_error txt_reg_table (Z.to_nat k) = Some (off, w, true) -> lenZ d < off ->
  forall s, read_reg_k d k s = RPanic.
Proof.
  intros Hk Hl s. unfold read_reg_k. rewrite Hk. unfold read_reg, bind, slice_from.
  destruct (has_len d off) eqn:E; [apply has_len_true in E; lia | reflexivity].
Qed.

(** * ValueFromBytes *)
Theorem value_from_bytes_nopanic id b : nopanic (value_from_bytes id b).
Proof. unfold value_from_bytes. np. Qed.
Theorem value_from_bytes_nofuel id b : nofuel (value_from_bytes id b).
Proof. unfold value_from_bytes. nf. Qed.

(** * sysfs PCR dump *)

Lemma match_lit_total : forall lit l, match_lit lit l <> Panic /\ match_lit lit l <> OutOfFuel.
Proof.
  induction lit as [|c t IH]; intros l; cbn [match_lit]; [split; discriminate|].
  destruct l as [|x l']; [split; discriminate|]. destruct (x =? c); [apply IH | split; discriminate].
Qed.
Lemma hex_string_total : forall n l, (length l <= n)%nat -> hex_string l <> Panic /\ hex_string l <> OutOfFuel.
Proof.
  induction n as [|n IH]; intros l Hl.
  - destruct l; [cbn; split; discriminate | cbn in Hl; lia].
  - destruct l as [|h t]; [cbn; split; discriminate|]. cbn [hex_string].
    destruct (is_hexd h); [|split; discriminate].
    destruct t as [|lo t2]; [split; discriminate|].
    destruct (is_hexd lo); [|split; discriminate].
    cbn in Hl. destruct (IH t2 ltac:(lia)) as [H1 H2].
    destruct (hex_string t2); try congruence; split; discriminate.
Qed.

Lemma scan_tail_total : forall v l3, scan_tail v l3 <> Panic /\ scan_tail v l3 <> OutOfFuel.
Proof.
  intros v l3. unfold scan_tail. destruct (match_lit_total [58] l3) as [N1 N2].
  destruct (match_lit [58] l3) as [l4|c| |]; try congruence; [|split; discriminate].
  destruct (skip_space l4) as [|x5 l5]; [split; discriminate|].
  destruct (hex_string_total _ (x5 :: l5) (le_n _)) as [H1 H2].
  destruct (hex_string (x5 :: l5)) as [[|v0 v']|c| |]; try congruence; split; discriminate.
Qed.

Lemma sscanf_pcr_total : forall line, sscanf_pcr line <> Panic /\ sscanf_pcr line <> OutOfFuel.
Proof.
  intros line. unfold sscanf_pcr.
  destruct (match_lit_total [80; 67; 82; 45] line) as [M1 M2].
  destruct (match_lit [80; 67; 82; 45] line) as [l0|c| |]; try congruence; [|split; discriminate].
  destruct (skip_space l0) as [|c0 t0]; [split; discriminate|]. cbv zeta.
  destruct (if (c0 =? 43) || (c0 =? 45) then t0 else c0 :: t0) as [|d1 t1]; [split; discriminate|].
  destruct (is_digit d1); [apply scan_tail_total | split; discriminate].
Qed.

Lemma set_nth_some : forall l i v, (i < length l)%nat -> exists l', set_nth l i v = Some l' /\ length l' = length l.
Proof.
  induction l as [|x t IH]; intros i v Hi; [cbn in Hi; lia|].
  destruct i as [|i]; cbn [set_nth].
  - eexists; split; [reflexivity | reflexivity].
  - cbn in Hi. destruct (IH i v ltac:(lia)) as [l' [E L]]. rewrite E. eexists; split; [reflexivity|]. cbn. lia.
Qed.

Lemma sysfs_loop_total : forall lines ln pcrs s, length pcrs = 24%nat ->
  sysfs_loop true lines ln pcrs s <> RPanic /\ sysfs_loop true lines ln pcrs s <> RFuel.
Proof.
  induction lines as [|line t IH]; intros ln pcrs s Hl; cbn [sysfs_loop]; [split; discriminate|].
  destruct line as [|c0 lt]; [now apply IH|].
  destruct (sscanf_pcr_total (filter (fun c => negb (c =? 32)) (c0 :: lt))) as [S1 S2].
  destruct (sscanf_pcr _) as [[idx v]|c| |]; try congruence; [|split; discriminate].
  cbn [andb]. destruct ((idx <? 0) || (AMOUNT_OF_PCRS <=? idx)) eqn:Eg; [split; discriminate|].
  destruct (negb (ln =? idx)); [split; discriminate|].
  destruct (negb (lenZ v =? 20)); [split; discriminate|].
  apply orb_false_iff in Eg. destruct Eg as [E1 E2]. apply Z.ltb_ge in E1. apply Z.leb_gt in E2.
  unfold AMOUNT_OF_PCRS in E2.
  destruct (set_nth_some pcrs (Z.to_nat idx) v ltac:(lia)) as [p' [E L]].
  rewrite E. apply IH. lia.
Qed.

Theorem parse_sysfs_pcrs_total d s : parse_sysfs_pcrs d s <> RPanic /\ parse_sysfs_pcrs d s <> RFuel.
Proof.
  unfold parse_sysfs_pcrs, parse_sysfs_pcrs_g, bind.
  destruct (sysfs_loop_total (split_on 10 d) 0 (repeat [] 24) s ltac:(reflexivity)) as [H1 H2].
  destruct (sysfs_loop _ _ _ _ _); try congruence; split; discriminate.
Qed.

(** a 25-line dump: line i is "PCR-ii:" followed by 40 hex digits *)
Definition sysfs_line (i : Z) : list Z := [80; 67; 82; 45; 48 + i / 10; 48 + i mod 10; 58] ++ repeat 48 40 ++ [10].
Definition sysfs_25 : list Z := flat_map sysfs_line (seqZ 0 25).
Lemma sysfs_unguarded_panics :
  run (parse_sysfs_pcrs_g false sysfs_25) sysfs_25 = RPanic /\
  outcome_of (run (parse_sysfs_pcrs sysfs_25) sysfs_25) = Err E_OTHER.
Proof. vm_compute. split; reflexivity. Qed.

(** * TPM detection capability file *)
Lemma caps_loop_total : forall lines s, caps_loop lines s <> RPanic /\ caps_loop lines s <> RFuel.
Proof.
  induction lines as [|l t IH]; intros s; cbn [caps_loop]; [split; discriminate|].
  destruct (split_colon l) as [[k v]|]; [|split; discriminate].
  destruct (zlist_eqb _ _); [split; discriminate | apply IH].
Qed.
Theorem local_caps_total d s : local_caps d s <> RPanic /\ local_caps d s <> RFuel.
Proof.
  unfold local_caps, bind. destruct (caps_loop_total (split_on 10 d) s) as [H1 H2].
  destruct (caps_loop _ _); try congruence; split; discriminate.
Qed.

(** * BytesRange, DecryptPrivKey framing *)
Theorem bytes_range_total l a b s : bytes_range l a b s <> RPanic /\ bytes_range l a b s <> RFuel.
Proof. unfold bytes_range. destruct (_ || _); split; discriminate. Qed.

Theorem decrypt_frame_nopanic pw d : (pw = true -> 12 <= lenZ d) -> nopanic (decrypt_frame pw d).
Proof.
  intros H. unfold decrypt_frame. destruct pw; [|apply nopanic_ret].
  specialize (H eq_refl). apply has_len_true in H. rewrite H. apply nopanic_ret.
Qed.
Lemma decrypt_frame_panics : run (decrypt_frame true [1; 2; 3]) [1; 2; 3] = RPanic.
Proof. vm_compute. reflexivity. Qed.

(** * Steps and allocation of the straight-line decoders

    [cost K r]: whatever [r] returns, it took at most [K] more steps (reads)
    and allocated nothing. *)
Definition cost {A} (K : Z) (r : rd A) : Prop := forall s,
  match r s with
  | ROk _ s' | RErr _ s' => s_steps s' <= s_steps s + K /\ s_alloc s' = s_alloc s
  | _ => True
  end.

Lemma cost_ret {A} K (a : A) : 0 <= K -> cost K (ret a). Proof. intros H s; cbn; lia. Qed.
Lemma cost_fail {A} K c : 0 <= K -> cost K (@fail A c). Proof. intros H s; cbn; lia. Qed.
Lemma cost_panic {A} K : cost K (@panic A). Proof. intros s; exact I. Qed.
Lemma cost_seek K w o : 0 <= K -> cost K (seek w o). Proof. intros H s; cbn; lia. Qed.
Lemma cost_slice_from K w o : 0 <= K -> cost K (slice_from w o).
Proof. intros H s. unfold slice_from. destruct (has_len w o); cbn; auto; lia. Qed.
Lemma cost_read_n K n : 1 <= K -> cost K (read_n n).
Proof.
  intros H s. unfold read_n. destruct (n <=? 0); [cbn; lia|]. destruct (s_rest s); [cbn; lia|].
  destruct (takeZ _ _) as [[? ?]|]; cbn; lia.
Qed.
Lemma cost_bind {A B} K k1 (r : rd A) (f : A -> rd B) :
  cost k1 r -> 0 <= K - k1 -> (forall a, cost (K - k1) (f a)) -> cost K (bind r f).
Proof.
  intros Hr Hk Hf s. unfold bind. specialize (Hr s). destruct (r s) as [a s1|c s1| |]; auto; [|lia].
  specialize (Hf a s1). destruct (f a s1); auto; lia.
Qed.
Lemma cost_read_le K n : 1 <= K -> cost K (read_le n).
Proof. intros. apply (cost_bind K 1); [now apply cost_read_n | lia | intros; apply cost_ret; lia]. Qed.
Lemma cost_catch_eof {A} K (r : rd A) d : cost K r -> cost K (catch_eof r d).
Proof. intros Hr s. unfold catch_eof. specialize (Hr s). destruct (r s); auto. destruct (_ =? _); auto. Qed.

Ltac cst := repeat first
  [ (apply cost_ret; lia) | (apply cost_fail; lia) | apply cost_panic
  | match goal with |- cost _ (bind (read_le _) _) => apply (cost_bind _ 1); [apply cost_read_le; lia | lia | intros ?] end
  | match goal with |- cost _ (bind (read_n _) _) => apply (cost_bind _ 1); [apply cost_read_n; lia | lia | intros ?] end
  | match goal with |- cost _ (bind (seek _ _) _) => apply (cost_bind _ 0); [apply cost_seek; lia | lia | intros ?] end
  | match goal with |- cost _ (bind (slice_from _ _) _) => apply (cost_bind _ 0); [apply cost_slice_from; lia | lia | intros ?] end
  | match goal with |- cost _ (bind (catch_eof (read_n _) _) _) => apply (cost_bind _ 1); [apply cost_catch_eof, cost_read_n; lia | lia | intros ?] end
  | (apply cost_read_le; lia) | (apply cost_read_n; lia)
  | match goal with |- cost _ (bind (if ?b then _ else _) _) => destruct b end
  | match goal with |- cost _ (bind _ _) => apply (cost_bind _ 1); [solve [cst] | lia | intros ?] end
  | rd_case ].

Theorem parse_policy_cost b i : cost 15 (parse_policy b i).
Proof.
  unfold parse_policy. apply (cost_bind _ 1); [apply cost_read_le; lia | lia | intros ver].
  destruct (ver <=? LCPPolicyVersion2); [|destruct (ver >=? LCPPolicyVersion3)].
  - unfold parse_policy1. cst.
  - unfold parse_policy2. cst.
  - apply cost_fail; lia.
Qed.
Theorem parse_txt_regs_cost d : cost 22 (parse_txt_regs d). Proof. unfold parse_txt_regs. cst. Qed.
Theorem parse_bios_data_cost : cost 8 parse_bios_data.
Proof. unfold parse_bios_data. cst. Qed.
Theorem read_acm_status_cost d : cost 1 (read_acm_status d). Proof. unfold read_acm_status. cst. Qed.
Theorem read_raw64_at_cost d o : cost 1 (read_raw64_at d o). Proof. unfold read_raw64_at. cst. Qed.
Theorem lookup_acm_size_cost h : cost 1 (lookup_acm_size h). Proof. unfold lookup_acm_size. cst. Qed.
Theorem value_from_bytes_cost id b : cost 1 (value_from_bytes id b). Proof. unfold value_from_bytes. cst. Qed.
Lemma read_reg_cost d e : cost 1 (read_reg d e).
Proof. destruct e as [[off w] sl]. unfold read_reg. destruct sl; cst. Qed.
Theorem read_reg_k_cost d k : cost 1 (read_reg_k d k).
Proof. unfold read_reg_k. destruct (nth_error _ _); [apply read_reg_cost | apply cost_fail; lia]. Qed.
Lemma read_txt_loop_cost d : forall tbl n acc, cost (Z.of_nat (length tbl)) (read_txt_loop d tbl n acc).
Proof.
  induction tbl as [|e t IH]; intros n acc s; cbn [read_txt_loop length].
  - destruct (0 <? n); cbn; lia.
  - pose proof (read_reg_cost d e s) as Hc. destruct (read_reg d e s) as [v s1|c s1| |]; auto.
    + specialize (IH n (rev_append v acc) s1). destruct (read_txt_loop d t n _ s1); auto; lia.
    + specialize (IH (n + 1) acc s1). destruct (read_txt_loop d t _ acc s1); auto; lia.
Qed.
Theorem read_txt_registers_cost d : cost 16 (read_txt_registers d).
Proof. unfold read_txt_registers. apply (read_txt_loop_cost d txt_reg_table 0 []). Qed.

(** from [cost] to the statement about a run *)
Lemma cost_run {A} K (r : rd A) input :
  0 <= K -> cost K r -> res_steps (run r input) <= K /\ res_alloc (run r input) = 0.
Proof.
  intros HK H. unfold run. specialize (H (mkSt input 0 0)).
  destruct (r _); cbn [res_steps res_alloc s_steps s_alloc] in *; lia.
Qed.

(** * Steps of the streaming decoders: a potential argument

    [phi s] = steps taken + bytes left.  A successful read of n >= 1 bytes
    costs one step and gives n bytes back; a failing read costs one step; the
    only place where the potential can grow on success is the fall-back from
    parsePolicyList to parsePolicyList2 (one failed read per list, at most 255
    lists).  Hence steps <= |input| + c. *)
Definition phi (s : st) : Z := s_steps s + lenZ (s_rest s).
Definition pot {A} (eo ee : Z) (r : rd A) : Prop := forall s,
  match r s with
  | ROk _ s' => phi s' <= phi s + eo
  | RErr _ s' => phi s' <= phi s + ee
  | _ => True
  end.
Notation pot01 := (pot 0 1).

Lemma pot_weaken {A} eo ee eo' ee' (r : rd A) : pot eo ee r -> eo <= eo' -> ee <= ee' -> pot eo' ee' r.
Proof. intros H H1 H2 s. specialize (H s). destruct (r s); auto; lia. Qed.
Lemma pot_ret {A} (a : A) : pot01 (ret a). Proof. intros s; cbn; lia. Qed.
Lemma pot_fail {A} c : pot01 (@fail A c). Proof. intros s; cbn; lia. Qed.
Lemma pot_read_n n : pot01 (read_n n).
Proof.
  intros s. unfold read_n, phi. destruct (n <=? 0) eqn:E0; [cbn; lia|]. apply Z.leb_gt in E0.
  destruct (s_rest s) eqn:E; [cbn; rewrite E; cbn; lia|]. rewrite <- E.
  destruct (takeZ (s_rest s) n) as [[a r]|] eqn:T; cbn.
  - apply takeZ_some in T. destruct T as (_ & T & _). specialize (T E0). unfold lenZ. lia.
  - unfold lenZ. cbn. lia.
Qed.
Lemma pot_bind {A B} (r : rd A) (f : A -> rd B) : pot01 r -> (forall a, pot01 (f a)) -> pot01 (bind r f).
Proof.
  intros Hr Hf s. unfold bind. specialize (Hr s). destruct (r s) as [a s1|c s1| |]; auto.
  specialize (Hf a s1). destruct (f a s1); auto; lia.
Qed.
Lemma pot_read_le n : pot01 (read_le n). Proof. apply pot_bind; [apply pot_read_n | intros; apply pot_ret]. Qed.
Lemma pot_read_be n : pot01 (read_be n). Proof. apply pot_bind; [apply pot_read_n | intros; apply pot_ret]. Qed.
Lemma pot_alloc n e : pot01 (alloc n e). Proof. intros s; cbn; unfold phi; cbn; lia. Qed.
Lemma pot_alloc_chk n e : pot01 (alloc_chk n e).
Proof. intros s. unfold alloc_chk. destruct (n <? 0); auto. unfold phi; cbn; lia. Qed.
Lemma pot_cap_guard fx n : pot01 (cap_guard fx n).
Proof. intros s. unfold cap_guard. destruct (_ && _); cbn; lia. Qed.
Lemma pot_read_slice n : pot01 (read_slice n).
Proof. unfold read_slice. destruct (n <=? 0); [apply pot_ret|]. apply pot_bind; [apply pot_alloc | intros; apply pot_read_n]. Qed.
Lemma pot_loopS {X} (cont : X -> bool) (body : X -> rd X) :
  (forall x, pot01 (body x)) -> forall fuel x, pot01 (loopS fuel cont body x).
Proof.
  intros Hb. induction fuel as [|f IH]; intros x s; cbn [loopS]; destruct (cont x); cbn; try lia; auto.
  specialize (Hb x s). destruct (body x s) as [x' s'|c s'| |]; auto.
  specialize (IH x' s'). destruct (loopS f cont body x' s'); auto; lia.
Qed.
Lemma pot_loop {X} (cont : X -> bool) (body : X -> rd X) x : (forall x, pot01 (body x)) -> pot01 (loop cont body x).
Proof. intros Hb s. unfold loop. now apply pot_loopS. Qed.
Lemma pot_repeat_n n b : pot01 b -> pot01 (repeat_n n b).
Proof.
  intros Hb. unfold repeat_n. apply pot_bind; [|intros; apply pot_ret].
  apply pot_loop; intros x. apply pot_bind; [exact Hb | intros; apply pot_ret].
Qed.
Lemma pot_or_else {A} (r h : rd A) : pot01 r -> pot01 h -> pot 1 2 (or_else r h).
Proof.
  intros Hr Hh s. unfold or_else. specialize (Hr s). destruct (r s) as [a s1|c s1| |]; auto; [lia|].
  specialize (Hh s1). destruct (h s1); auto; lia.
Qed.

Ltac pt := repeat first
  [ apply pot_ret | apply pot_fail | apply pot_read_n | apply pot_read_le | apply pot_read_be
  | apply pot_alloc | apply pot_alloc_chk | apply pot_cap_guard | apply pot_read_slice
  | match goal with |- pot 0 1 (bind _ _) => apply pot_bind; [ | intros ? ] end
  | apply pot_repeat_n | (apply pot_loop; intros ?)
  | assumption
  | rd_case ].

Lemma pot_lcp_hash a : pot01 (lcp_hash a). Proof. unfold lcp_hash. pt. Qed.
Lemma pot_elt_mle : pot01 elt_mle. Proof. unfold elt_mle. pt. Qed.
Lemma pot_elt_sbios : pot01 elt_sbios. Proof. unfold elt_sbios. pt; apply pot_lcp_hash. Qed.
Lemma pot_sel_loop n : pot01 (sel_loop n). Proof. unfold sel_loop. pt. Qed.
Lemma pot_pcr_info : pot01 pcr_info. Proof. unfold pcr_info. pt; apply pot_sel_loop. Qed.
Lemma pot_elt_pconf : pot01 elt_pconf. Proof. unfold elt_pconf. pt; apply pot_pcr_info. Qed.
Lemma pot_elt_custom fx sz : pot01 (elt_custom fx sz). Proof. unfold elt_custom. pt. Qed.
Lemma pot_element fx : pot01 (element fx).
Proof. unfold element. pt; first [apply pot_elt_mle | apply pot_elt_sbios | apply pot_elt_pconf | apply pot_elt_custom]. Qed.
Lemma pot_lcp_signature : pot01 lcp_signature. Proof. unfold lcp_signature. pt. Qed.
Lemma pot_list1_loop fx e : pot01 (list1_loop fx e). Proof. unfold list1_loop. pt. apply pot_element. Qed.
Lemma pot_policy_list1 fx : pot01 (policy_list1 fx).
Proof. unfold policy_list1. pt; first [apply pot_list1_loop | apply pot_lcp_signature]. Qed.
Lemma pot_policy_list2 fx : pot01 (policy_list2 fx). Proof. unfold policy_list2. pt. apply pot_element. Qed.

(** the loop over the lists: every iteration may lose one unit of potential *)
Lemma pot_lists_loopS (B : rd (list Z)) : pot 1 2 B ->
  forall fuel st s,
  match loopS fuel (fun st : Z * list Z => 0 <? fst st)
                   (fun st => a <- B ;; ret (fst st - 1, rev_append a (snd st))) st s with
  | ROk _ s' => phi s' <= phi s + Z.max 0 (fst st)
  | RErr _ s' => phi s' <= phi s + Z.max 0 (fst st) + 1
  | _ => True
  end.
Proof.
  intros HB. induction fuel as [|f IH]; intros st s; cbn [loopS]; destruct (0 <? fst st) eqn:E; cbn; try lia; auto.
  apply Z.ltb_lt in E. unfold bind at 1. specialize (HB s). destruct (B s) as [a s1|c s1| |]; auto; [|lia].
  cbn [ret]. specialize (IH (fst st - 1, rev_append a (snd st)) s1). cbn [fst] in IH.
  destruct (loopS f _ _ _ s1); auto; lia.
Qed.

Lemma read_le_value n s v s' : read_le n s = ROk v s' -> 0 <= v < 256 ^ Z.max 0 n.
Proof.
  unfold read_le, bind, read_n. destruct (n <=? 0) eqn:E0.
  - cbn. intros H; inversion H; subst. cbn. apply Z.leb_le in E0. rewrite Z.max_l by lia. cbn. lia.
  - destruct (s_rest s); [discriminate|]. destruct (takeZ _ n) as [[a r]|] eqn:T; [|discriminate].
    cbn. intros H; inversion H; subst. apply takeZ_some in T. destruct T as (_ & _ & _ & T).
    rewrite <- T. apply le_val_bounds.
Qed.

Lemma pot_bind_gen {A B} eo ee (r : rd A) (f : A -> rd B) :
  pot01 r -> (forall a, pot eo ee (f a)) -> 0 <= eo -> 1 <= ee -> pot eo ee (bind r f).
Proof.
  intros Hr Hf H0 H1 s. unfold bind. specialize (Hr s). destruct (r s) as [a s1|c s1| |]; auto; [|lia].
  specialize (Hf a s1). destruct (f a s1); auto; lia.
Qed.
Lemma pot_bind_le {B} eo ee n (f : Z -> rd B) :
  (forall v, 0 <= v < 256 ^ Z.max 0 n -> pot eo ee (f v)) -> 0 <= eo -> 1 <= ee -> pot eo ee (bind (read_le n) f).
Proof.
  intros Hf H0 H1 s. unfold bind. pose proof (pot_read_le n s) as Hr.
  destruct (read_le n s) as [v s1|c s1| |] eqn:E; auto; [|lia].
  apply read_le_value in E. specialize (Hf v E s1). destruct (f v s1); auto; lia.
Qed.
Lemma pot_lists n (B : rd (list Z)) : pot 1 2 B -> 0 <= n <= 255 -> pot 255 256 (repeat_n n B).
Proof.
  intros HB Hn s. unfold repeat_n, bind, loop.
  pose proof (pot_lists_loopS B HB (S (length (s_rest s))) (n, []) s) as HL. cbn [fst] in HL.
  destruct (loopS _ _ _ (n, []) s) as [x s5|c s5| |]; auto; cbn [ret]; lia.
Qed.

Theorem policy_data_pot fx : pot 255 256 (policy_data fx).
Proof.
  unfold policy_data.
  apply pot_bind_gen; [apply pot_read_n | intros sg | lia | lia].
  apply pot_bind_gen; [apply pot_read_n | intros rs | lia | lia].
  apply pot_bind_le; [intros n Hn | lia | lia]. change (256 ^ Z.max 0 1) with 256 in Hn.
  apply pot_bind_gen; [apply pot_alloc | intros _ | lia | lia].
  intros s. unfold bind.
  pose proof (pot_lists n _ (pot_or_else _ _ (pot_policy_list1 fx) (pot_policy_list2 fx)) ltac:(lia) s) as HL.
  destruct (repeat_n n _ s); auto.
Qed.

Theorem policy_data_steps fx input :
  res_steps (run (policy_data fx) input) <= lenZ input + 256.
Proof.
  unfold run. pose proof (policy_data_pot fx (mkSt input 0 0)) as H.
  destruct (policy_data fx _) as [a s|c s| |]; cbn [res_steps]; unfold phi in H; cbn [s_steps s_rest] in H;
    unfold lenZ in *; lia.
Qed.
