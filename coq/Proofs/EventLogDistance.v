(** Closed form of eventAndMeasurementsDistance (property C13) and what follows from it:
    the distance is compositional, so disabling the two events of one pair changes the
    distance by exactly [2 * BIGN - pair_cost], and a result of the search never pairs two
    events that agree in neither type nor digest when the candidate that leaves both out
    lies inside the space the search enumerated. *)
From CSS Require Import Lib.Base Model.EventLog Model.EventLogAlign Proofs.EventLog Proofs.EventLogAlign.

(** the entries a bitmap leaves enabled, the number it skips *)
Definition en {A} (l : list (bool * A)) : list A := map snd (filter (fun x => negb (fst x)) l).
Definition sk {A} (l : list (bool * A)) : Z := Z.of_nat (length (filter (fun x => fst x) l)).

Fixpoint pcost (cs : list sim_ev) (es : list event) : Z :=
  match cs, es with
  | c :: cs', e :: es' => pair_cost c e + pcost cs' es'
  | _, _ => 0
  end.

Fixpoint lens_ok (cs : list sim_ev) (es : list event) : bool :=
  match cs, es with
  | c :: cs', e :: es' => (length (ev_digest_bytes e) =? length (s_digest c))%nat && lens_ok cs' es'
  | _, _ => true
  end.

Definition distance_spec (cs : list (bool * sim_ev)) (es : list (bool * event)) (acc : Z) : outcome Z :=
  if ((length (en cs) =? length (en es))%nat && lens_ok (en cs) (en es))%bool
  then Ok (acc + BIGN * (sk cs + sk es) + pcost (en cs) (en es))
  else Panic.

Lemma en_cons_true : forall A (x : A) l, en ((true, x) :: l) = en l.
Proof. reflexivity. Qed.
Lemma en_cons_false : forall A (x : A) l, en ((false, x) :: l) = x :: en l.
Proof. reflexivity. Qed.
Lemma sk_cons_true : forall A (x : A) l, sk ((true, x) :: l) = 1 + sk l.
Proof. intros A x l. unfold sk. cbn [filter fst length]. lia. Qed.
Lemma sk_cons_false : forall A (x : A) l, sk ((false, x) :: l) = sk l.
Proof. reflexivity. Qed.
Lemma sk_nonneg : forall A (l : list (bool * A)), 0 <= sk l <= Z.of_nat (length l).
Proof.
  intros A l. unfold sk. induction l as [|[[|] x] l IH]; cbn [filter fst length] in *; lia.
Qed.

Lemma pcost_bounds : forall cs es, 0 <= pcost cs es <= Z.of_nat (length cs) * (2 * BIGN + 1).
Proof.
  induction cs as [|c cs IH]; intros [|e es]; cbn [pcost length]; unfold BIGN in *; try lia.
  pose proof (pair_cost_nonneg c e). pose proof (IH es). unfold BIGN in *. lia.
Qed.

(** ** The closed form: while the uint64 sum cannot wrap, the merge loop returns
    [BIGN] per skipped entry plus the cost of the enabled entries paired in order, and
    panics exactly when the enabled entries are not equally many or a pair has digests of
    different lengths. *)
Theorem distance_closed : forall n cs es acc,
  (length cs + length es <= n)%nat ->
  0 <= acc -> acc + Z.of_nat n * (2 * BIGN + 2) < W64 ->
  distance cs es acc = distance_spec cs es acc.
Proof.
  induction n as [|n IH]; intros cs es acc Hn H0 Hb; rewrite distance_unfold.
  - destruct cs; destruct es; cbn in Hn; try lia. unfold distance_spec. cbn. f_equal. lia.
  - assert (SK : wrap64 (acc + BIGN) = acc + BIGN) by (apply wrap64_small; unfold BIGN, W64 in *; lia).
    destruct cs as [|[[|] c] cs'].
    + destruct es as [|[[|] e] es'].
      * unfold distance_spec. cbn. f_equal. lia.
      * rewrite SK, IH; [|cbn in *; lia|unfold BIGN in *; lia|unfold BIGN, W64 in *; lia].
        unfold distance_spec. rewrite en_cons_true, sk_cons_true.
        destruct ((length (en (@nil (bool * sim_ev))) =? length (en es'))%nat && lens_ok (en []) (en es'))%bool; [|reflexivity].
        f_equal. lia.
      * unfold distance_spec. rewrite en_cons_false. reflexivity.
    + rewrite SK, IH; [|cbn in *; lia|unfold BIGN in *; lia|unfold BIGN, W64 in *; lia].
      unfold distance_spec. rewrite en_cons_true, sk_cons_true.
      destruct ((length (en cs') =? length (en es))%nat && lens_ok (en cs') (en es))%bool; [|reflexivity].
      f_equal. lia.
    + destruct es as [|[[|] e] es'].
      * unfold distance_spec. rewrite en_cons_false. reflexivity.
      * rewrite SK, IH; [|cbn in *; lia|unfold BIGN in *; lia|unfold BIGN, W64 in *; lia].
        unfold distance_spec. rewrite en_cons_true, sk_cons_true.
        destruct ((length (en ((false, c) :: cs')) =? length (en es'))%nat && lens_ok (en ((false, c) :: cs')) (en es'))%bool; [|reflexivity].
        f_equal. lia.
      * unfold distance_spec. rewrite !en_cons_false, !sk_cons_false. cbn [length lens_ok pcost Nat.eqb].
        destruct (length (ev_digest_bytes e) =? length (s_digest c))%nat eqn:EL; cbn [negb].
        -- pose proof (pair_cost_nonneg c e) as PC.
           assert (SP : wrap64 (acc + pair_cost c e) = acc + pair_cost c e) by (apply wrap64_small; unfold BIGN, W64 in *; lia).
           rewrite SP, IH; [|cbn in *; lia|lia|unfold BIGN, W64 in *; lia].
           unfold distance_spec. cbn [andb].
           destruct ((length (en cs') =? length (en es'))%nat && lens_ok (en cs') (en es'))%bool; [|reflexivity].
           f_equal. lia.
        -- rewrite andb_false_r. reflexivity.
Qed.

(** ** Compositionality *)

Lemma Ok_inj : forall (a b : Z), Ok a = Ok b -> a = b.
Proof. intros a b K. inversion K. reflexivity. Qed.

Lemma en_app : forall A (a b : list (bool * A)), en (a ++ b) = en a ++ en b.
Proof. intros A a b. unfold en. rewrite filter_app, map_app. reflexivity. Qed.

Lemma sk_app : forall A (a b : list (bool * A)), sk (a ++ b) = sk a + sk b.
Proof. intros A a b. unfold sk. rewrite filter_app, app_length. lia. Qed.

Lemma pcost_app : forall a1 b1 a2 b2, length a1 = length b1 ->
  pcost (a1 ++ a2) (b1 ++ b2) = pcost a1 b1 + pcost a2 b2.
Proof.
  induction a1 as [|c a1 IH]; intros [|e b1] a2 b2 H; cbn in H; try discriminate; cbn [app pcost]; [lia|].
  rewrite IH by lia. lia.
Qed.

Lemma lens_ok_app : forall a1 b1 a2 b2, length a1 = length b1 ->
  lens_ok (a1 ++ a2) (b1 ++ b2) = (lens_ok a1 b1 && lens_ok a2 b2)%bool.
Proof.
  induction a1 as [|c a1 IH]; intros [|e b1] a2 b2 H; cbn in H; try discriminate; cbn [app lens_ok]; [reflexivity|].
  rewrite IH by lia. rewrite andb_assoc. reflexivity.
Qed.

(** Two enabled entries [c] and [e] are compared by the walk exactly when equally many
    enabled entries precede them ([length (en cs1) = length (en es1)]).  Disabling both
    turns the distance [d] into [d - pair_cost c e + 2 * BIGN]. *)
Theorem distance_disable_pair : forall cs1 c cs2 es1 e es2 d,
  length (en cs1) = length (en es1) ->
  Z.of_nat (length (cs1 ++ (false, c) :: cs2) + length (es1 ++ (false, e) :: es2)) * (2 * BIGN + 2) < W64 ->
  distance (cs1 ++ (false, c) :: cs2) (es1 ++ (false, e) :: es2) 0 = Ok d ->
  distance (cs1 ++ (true, c) :: cs2) (es1 ++ (true, e) :: es2) 0 = Ok (d - pair_cost c e + 2 * BIGN).
Proof.
  intros cs1 c cs2 es1 e es2 d HL Hb E.
  rewrite (distance_closed _ _ _ 0 (le_n _)) in E; [|lia|lia].
  rewrite (distance_closed (length (cs1 ++ (false, c) :: cs2) + length (es1 ++ (false, e) :: es2)));
    [|rewrite !app_length in *; cbn [length] in *; lia|lia|lia].
  unfold distance_spec in *.
  rewrite !en_app, !sk_app in *. rewrite en_cons_false, sk_cons_false in E. rewrite en_cons_false, sk_cons_false in E.
  rewrite !en_cons_true, !sk_cons_true.
  rewrite (pcost_app _ _ _ _ HL), (lens_ok_app _ _ _ _ HL) in E.
  rewrite (pcost_app _ _ _ _ HL), (lens_ok_app _ _ _ _ HL).
  rewrite !app_length in *. cbn [length pcost lens_ok] in E.
  replace (length (en cs1) + S (length (en cs2)) =? length (en es1) + S (length (en es2)))%nat
    with (length (en cs1) + length (en cs2) =? length (en es1) + length (en es2))%nat in E.
  2:{ destruct (Nat.eqb_spec (length (en cs1) + length (en cs2)) (length (en es1) + length (en es2))) as [K|K];
      symmetry; [apply Nat.eqb_eq|apply Nat.eqb_neq]; lia. }
  destruct (length (en cs1) + length (en cs2) =? length (en es1) + length (en es2))%nat; cbn [andb] in *; [|discriminate].
  destruct (lens_ok (en cs1) (en es1)); cbn [andb] in *; [|discriminate].
  destruct (length (ev_digest_bytes e) =? length (s_digest c))%nat; cbn [andb] in *; [|discriminate].
  destruct (lens_ok (en cs2) (en es2)); cbn [andb] in *; [|discriminate].
  apply Ok_inj in E. subst d. f_equal. unfold BIGN. lia.
Qed.

(** The rule of the metric as a statement about whole alignments: bitmaps that pair two
    unrelated events are never of minimal distance -- the bitmaps that leave both out are
    strictly cheaper. *)
Theorem unrelated_pair_not_minimal : forall cs1 c cs2 es1 e es2 d,
  length (en cs1) = length (en es1) ->
  Z.of_nat (length (cs1 ++ (false, c) :: cs2) + length (es1 ++ (false, e) :: es2)) * (2 * BIGN + 2) < W64 ->
  unrelated c e = true ->
  distance (cs1 ++ (false, c) :: cs2) (es1 ++ (false, e) :: es2) 0 = Ok d ->
  exists d', distance (cs1 ++ (true, c) :: cs2) (es1 ++ (true, e) :: es2) 0 = Ok d' /\ d' < d.
Proof.
  intros cs1 c cs2 es1 e es2 d HL Hb HU E.
  exists (d - pair_cost c e + 2 * BIGN). split; [apply distance_disable_pair; assumption|].
  apply unrelated_pair_costs_more in HU. lia.
Qed.

(** ** ... and about the search *)

Lemma flag_map_fst_snd : forall A (l : list (bool * A)), flag (map fst l) (map snd l) = l.
Proof.
  intros A l. unfold flag. induction l as [|[b x] l IH]; [reflexivity|]. cbn [map fst snd combine]. rewrite IH. reflexivity.
Qed.

Lemma flag_length_eq : forall A (bm : list bool) (l : list A), length bm = length l -> length (flag bm l) = length l.
Proof. intros A bm l H. unfold flag. rewrite combine_length. lia. Qed.

(** the bitmaps of a flagged list with one more entry disabled *)
Definition bm_of {A} (l : list (bool * A)) : list bool := map fst l.

(** A result of the search never pairs two unrelated events when the budget allows leaving
    both out: if a result [(d, p)] pairs the recorded event [e] with the simulated event
    [c] (both enabled, equally many enabled entries before them) and the two agree in
    neither type nor digest, then the bitmaps that additionally disable [e] and [c] lie
    OUTSIDE the second-phase space around the first-phase optimum the result was found
    from -- i.e. DisabledEventsMaxDistance (or the greedy first phase) did not allow
    them.  Contrapositive: whenever those bitmaps are inside the space, no result pairs
    [c] with [e]. *)
Theorem search_result_no_unrelated_pair : forall es cs maxdist d p cs1 c cs2 es1 e es2,
  In (d, p) (search_results es cs maxdist) ->
  Z.of_nat (length cs + length es) * (2 * BIGN + 2) < W64 ->
  flag (snd p) cs = cs1 ++ (false, c) :: cs2 ->
  flag (fst p) es = es1 ++ (false, e) :: es2 ->
  length (en cs1) = length (en es1) ->
  unrelated c e = true ->
  exists d1 p1,
    In (d1, p1) (argmins (scored es cs (phase1_cands es cs))) /\
    In p (phase2_space es cs maxdist p1) /\
    ~ In (bm_of (es1 ++ (true, e) :: es2), bm_of (cs1 ++ (true, c) :: cs2)) (phase2_space es cs maxdist p1).
Proof.
  intros es cs maxdist d p cs1 c cs2 es1 e es2 H Hb Fc Fe HL HU.
  pose proof (search_result_balanced _ _ _ _ _ H) as [L1 [L2 _]].
  apply search_result_optimal in H. destruct H as [d1 [p1 [H1 [H2 [Hd Hmin]]]]].
  exists d1, p1. split; [exact H1|]. split; [exact H2|]. intro Hin.
  unfold bm_dist in Hd. rewrite Fc, Fe in Hd.
  destruct (distance (cs1 ++ (false, c) :: cs2) (es1 ++ (false, e) :: es2) 0) as [d0| | |] eqn:E; try discriminate.
  injection Hd as ->.
  assert (LC : length (cs1 ++ (false, c) :: cs2) = length cs) by (rewrite <- Fc; apply flag_length_eq; exact L2).
  assert (LE : length (es1 ++ (false, e) :: es2) = length es) by (rewrite <- Fe; apply flag_length_eq; exact L1).
  destruct (unrelated_pair_not_minimal cs1 c cs2 es1 e es2 d HL ltac:(rewrite LC, LE; exact Hb) HU E) as [d' [E' Hlt]].
  assert (SC : cs = map snd (cs1 ++ (true, c) :: cs2)).
  { rewrite <- (map_snd_flag _ (snd p) cs L2), Fc, !map_app. reflexivity. }
  assert (SE : es = map snd (es1 ++ (true, e) :: es2)).
  { rewrite <- (map_snd_flag _ (fst p) es L1), Fe, !map_app. reflexivity. }
  specialize (Hmin _ d' Hin).
  assert (Hd' : bm_dist es cs (bm_of (es1 ++ (true, e) :: es2), bm_of (cs1 ++ (true, c) :: cs2)) = Some d').
  { unfold bm_dist, bm_of. cbn [fst snd]. rewrite SC at 1. rewrite SE at 1. rewrite !flag_map_fst_snd, E'. reflexivity. }
  specialize (Hmin Hd'). lia.
Qed.

(** ** "The budget allows", spelled out

    [flips k base] are exactly the bitmaps at Hamming distance [k] from [base]; so the
    second-phase space around a first-phase result [p1] is: recorded bitmaps within
    [min maxdist (length es)] flips of [fst p1], and simulated bitmaps that add to
    [snd p1] exactly the entries the balance of the amounts demands. *)

Fixpoint hamming (a b : list bool) : nat :=
  match a, b with
  | x :: a', y :: b' => ((if Bool.eqb x y then 0 else 1) + hamming a' b')%nat
  | _, _ => O
  end.

Lemma flips_iff : forall base k x,
  In x (flips k base) <-> length x = length base /\ hamming x base = k.
Proof.
  induction base as [|b t IH]; intros k x; cbn [flips].
  - split.
    + intro H. destruct k; [destruct H as [<-|[]]; split; reflexivity|contradiction].
    + intros [L Hh]. destruct x; [|discriminate]. cbn in Hh. subst k. left. reflexivity.
  - split.
    + intro H. apply in_app_or in H. destruct H as [H|H].
      * apply in_map_iff in H. destruct H as [y [<- Hy]]. apply IH in Hy. destruct Hy as [L Hh].
        cbn [length hamming]. rewrite Bool.eqb_reflx. split; [f_equal; exact L|exact Hh].
      * destruct k as [|k']; [contradiction|]. apply in_map_iff in H. destruct H as [y [<- Hy]].
        apply IH in Hy. destruct Hy as [L Hh]. cbn [length hamming].
        replace (Bool.eqb (negb b) b) with false by (destruct b; reflexivity).
        split; [f_equal; exact L|rewrite Hh; reflexivity].
    + intros [L Hh]. destruct x as [|a y]; [discriminate|]. cbn [length] in L. cbn [hamming] in Hh.
      apply in_or_app. destruct (Bool.eqb a b) eqn:E.
      * apply Bool.eqb_prop in E. subst a. left. apply in_map. apply IH. split; [lia|exact Hh].
      * right. destruct k as [|k']; [discriminate|].
        replace a with (negb b) by (destruct a; destruct b; try reflexivity; discriminate).
        apply in_map. apply IH. split; [lia|lia].
Qed.

Definition p2_budget (es : list event) (maxdist : Z) : nat := Z.to_nat (Z.min maxdist (Z.of_nat (length es))).
Definition p2_bd (es : list event) (cs : list sim_ev) (p1 : bitmaps) (e : list bool) : Z :=
  Z.of_nat (count_true e) - Z.of_nat (count_true (snd p1)) - amount_diff es cs.

Theorem phase2_space_iff : forall es cs maxdist p1 e m,
  In (e, m) (phase2_space es cs maxdist p1) <->
    length e = length (fst p1) /\ (hamming e (fst p1) <= p2_budget es maxdist)%nat /\
    0 <= p2_bd es cs p1 e /\
    length m = length (snd p1) /\ hamming m (snd p1) = Z.to_nat (p2_bd es cs p1 e) /\
    bm_balanced es cs (e, m) = true.
Proof.
  intros es cs maxdist p1 e m. unfold phase2_space. rewrite in_flat_map. fold (p2_budget es maxdist). split.
  - intros [e0 [He H]]. fold (p2_bd es cs p1 e0) in H.
    destruct (p2_bd es cs p1 e0 <? 0) eqn:EB; [contradiction|]. apply Z.ltb_ge in EB.
    apply filter_In in H. destruct H as [H Hb]. apply in_map_iff in H. destruct H as [m0 [Hm Hm0]].
    injection Hm as -> ->. apply flips_iff in Hm0. destruct Hm0 as [Lm Hm].
    unfold flips_upto in He. apply in_flat_map in He. destruct He as [k [Hk He]].
    apply flips_iff in He. destruct He as [Le Hh]. apply in_seq in Hk.
    repeat split; try assumption. lia.
  - intros [Le [Hh [EB [Lm [Hm Hb]]]]]. exists e. split.
    + unfold flips_upto. apply in_flat_map. exists (hamming e (fst p1)). split; [apply in_seq; lia|].
      apply flips_iff. split; [exact Le|reflexivity].
    + fold (p2_bd es cs p1 e). destruct (p2_bd es cs p1 e <? 0) eqn:EB'; [apply Z.ltb_lt in EB'; lia|].
      apply filter_In. split; [|exact Hb]. apply in_map. apply flips_iff. split; assumption.
Qed.

Lemma hamming_set : forall a1 a2 q,
  length q = length (a1 ++ false :: a2) -> nth (length a1) q true = false ->
  hamming (a1 ++ true :: a2) q = S (hamming (a1 ++ false :: a2) q).
Proof.
  induction a1 as [|x a1 IH]; intros a2 [|y q] L N; cbn [app length] in L; try discriminate.
  - cbn [length nth] in N. subst y. reflexivity.
  - cbn [length nth] in N. cbn [app hamming]. rewrite (IH a2 q) by (try assumption; lia). lia.
Qed.

Lemma count_true_set : forall a1 a2,
  count_true (a1 ++ true :: a2) = S (count_true (a1 ++ false :: a2)).
Proof.
  intros a1 a2. unfold count_true. rewrite !filter_app, !app_length. cbn [filter length]. lia.
Qed.

Lemma bm_of_app_cons : forall A (l1 : list (bool * A)) b x l2, bm_of (l1 ++ (b, x) :: l2) = bm_of l1 ++ b :: bm_of l2.
Proof. intros. unfold bm_of. rewrite map_app. reflexivity. Qed.

(** A result of the search that pairs two unrelated events has used up its budget: if the
    first phase left both events enabled, the recorded bitmap of the result already differs
    from the first-phase one in [min DisabledEventsMaxDistance (length es)] positions, so
    one more recorded entry could not be left out.  Contrapositive: with one flip to spare,
    no result pairs events that agree in neither type nor digest. *)
Theorem search_result_unrelated_pair_budget : forall es cs maxdist d p cs1 c cs2 es1 e es2,
  In (d, p) (search_results es cs maxdist) ->
  Z.of_nat (length cs + length es) * (2 * BIGN + 2) < W64 ->
  flag (snd p) cs = cs1 ++ (false, c) :: cs2 ->
  flag (fst p) es = es1 ++ (false, e) :: es2 ->
  length (en cs1) = length (en es1) ->
  unrelated c e = true ->
  exists d1 p1,
    In (d1, p1) (argmins (scored es cs (phase1_cands es cs))) /\
    In p (phase2_space es cs maxdist p1) /\
    (nth (length es1) (fst p1) true = false -> nth (length cs1) (snd p1) true = false ->
     (p2_budget es maxdist <= hamming (fst p) (fst p1))%nat).
Proof.
  intros es cs maxdist d p cs1 c cs2 es1 e es2 H Hb Fc Fe HL HU.
  pose proof (search_result_balanced _ _ _ _ _ H) as [L1 [L2 _]].
  destruct (search_result_no_unrelated_pair _ _ _ _ _ _ _ _ _ _ _ H Hb Fc Fe HL HU) as [d1 [p1 [H1 [H2 H3]]]].
  exists d1, p1. split; [exact H1|]. split; [exact H2|]. intros Ne Nc.
  destruct (Nat.le_gt_cases (p2_budget es maxdist) (hamming (fst p) (fst p1))) as [K|K]; [exact K|].
  exfalso. apply H3. clear H3.
  assert (Pe : fst p = bm_of es1 ++ false :: bm_of es2).
  { rewrite <- (map_fst_flag _ (fst p) es L1), Fe. apply bm_of_app_cons. }
  assert (Pc : snd p = bm_of cs1 ++ false :: bm_of cs2).
  { rewrite <- (map_fst_flag _ (snd p) cs L2), Fc. apply bm_of_app_cons. }
  destruct p as [pe pc]. cbn [fst snd] in *. subst pe pc.
  apply phase2_space_iff in H2. destruct H2 as [Le [Hh [EB [Lm [Hm Bal]]]]].
  rewrite !bm_of_app_cons. apply phase2_space_iff.
  assert (LE1 : length (bm_of es1) = length es1) by (unfold bm_of; apply map_length).
  assert (LC1 : length (bm_of cs1) = length cs1) by (unfold bm_of; apply map_length).
  assert (HE : hamming (bm_of es1 ++ true :: bm_of es2) (fst p1) = S (hamming (bm_of es1 ++ false :: bm_of es2) (fst p1))).
  { apply hamming_set; [symmetry; exact Le|rewrite LE1; exact Ne]. }
  assert (HC : hamming (bm_of cs1 ++ true :: bm_of cs2) (snd p1) = S (hamming (bm_of cs1 ++ false :: bm_of cs2) (snd p1))).
  { apply hamming_set; [symmetry; exact Lm|rewrite LC1; exact Nc]. }
  unfold p2_bd in *. unfold bm_balanced in *. cbn [fst snd] in *.
  rewrite !count_true_set. apply Z.eqb_eq in Bal.
  repeat split.
  - rewrite <- Le. rewrite !app_length. reflexivity.
  - rewrite HE. lia.
  - lia.
  - rewrite <- Lm. rewrite !app_length. reflexivity.
  - rewrite HC, Hm. lia.
  - apply Z.eqb_eq. lia.
Qed.

(** The second phase only ADDS simulated entries to the ones the first phase disabled (a
    candidate that re-enables one fails the count check of the innermost callback): every
    bitmap pair of the space keeps [snd p1]'s disabled entries disabled. *)
Fixpoint ft (m q : list bool) : nat :=
  match m, q with
  | x :: m', y :: q' => ((if (negb x && y)%bool then 1 else 0) + ft m' q')%nat
  | _, _ => O
  end.

Lemma count_hamming_ft : forall m q, length m = length q ->
  (count_true m + 2 * ft m q = count_true q + hamming m q)%nat.
Proof.
  induction m as [|x m IH]; intros [|y q] L; cbn [length] in L; try discriminate; [reflexivity|].
  rewrite !count_true_cons. cbn [ft hamming]. specialize (IH q ltac:(lia)).
  destruct x; destruct y; cbn [negb andb Bool.eqb]; lia.
Qed.

Lemma ft_zero_nth : forall m q i, length m = length q -> ft m q = O ->
  nth i m true = false -> nth i q true = false.
Proof.
  induction m as [|x m IH]; intros [|y q] i L Z N; cbn [length] in L; try discriminate.
  - destruct i; discriminate.
  - cbn [ft] in Z. destruct i as [|i]; cbn [nth] in *.
    + subst x. destruct y; [cbn in Z; discriminate|reflexivity].
    + apply (IH q i); [lia| |exact N]. destruct (negb x && y)%bool; [discriminate|exact Z].
Qed.

Theorem phase2_keeps_first_phase : forall es cs maxdist p1 e m i,
  In (e, m) (phase2_space es cs maxdist p1) ->
  nth i m true = false -> nth i (snd p1) true = false.
Proof.
  intros es cs maxdist p1 e m i H N.
  apply phase2_space_iff in H. destruct H as [_ [_ [EB [Lm [Hm Bal]]]]].
  unfold bm_balanced in Bal. cbn [fst snd] in Bal. apply Z.eqb_eq in Bal. unfold p2_bd in *.
  pose proof (count_hamming_ft m (snd p1) Lm) as K.
  apply (ft_zero_nth m (snd p1) i Lm); [|exact N]. lia.
Qed.

(** ... so the condition on the simulated side of the budget theorem always holds: *)
Theorem search_result_unrelated_pair_budget' : forall es cs maxdist d p cs1 c cs2 es1 e es2,
  In (d, p) (search_results es cs maxdist) ->
  Z.of_nat (length cs + length es) * (2 * BIGN + 2) < W64 ->
  flag (snd p) cs = cs1 ++ (false, c) :: cs2 ->
  flag (fst p) es = es1 ++ (false, e) :: es2 ->
  length (en cs1) = length (en es1) ->
  unrelated c e = true ->
  exists d1 p1,
    In (d1, p1) (argmins (scored es cs (phase1_cands es cs))) /\
    In p (phase2_space es cs maxdist p1) /\
    (nth (length es1) (fst p1) true = false ->
     (p2_budget es maxdist <= hamming (fst p) (fst p1))%nat).
Proof.
  intros es cs maxdist d p cs1 c cs2 es1 e es2 H Hb Fc Fe HL HU.
  pose proof (search_result_balanced _ _ _ _ _ H) as [L1 [L2 _]].
  destruct (search_result_unrelated_pair_budget _ _ _ _ _ _ _ _ _ _ _ H Hb Fc Fe HL HU) as [d1 [p1 [H1 [H2 H3]]]].
  exists d1, p1. split; [exact H1|]. split; [exact H2|]. intro Ne. apply H3; [exact Ne|].
  destruct p as [pe pc]. apply (phase2_keeps_first_phase _ _ _ _ _ _ (length cs1) H2).
  cbn [snd] in *. rewrite <- (map_fst_flag _ pc cs L2), Fc.
  change (map fst (cs1 ++ (false, c) :: cs2)) with (bm_of (cs1 ++ (false, c) :: cs2)).
  rewrite bm_of_app_cons. rewrite app_nth2; unfold bm_of; rewrite map_length; [|lia].
  rewrite Nat.sub_diag. reflexivity.
Qed.
