(** Proofs about Model/Comb.v (pkg/bruteforcer/indexes.go). *)
From CSS Require Import Lib.Base Model.Comb.

Lemma next_empty m : next m [] = (false, []).
Proof. reflexivity. Qed.
