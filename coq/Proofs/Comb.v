(** Proofs about Model/Comb.v (pkg/bruteforcer/indexes.go). *)
From CSS Require Import Lib.Base Model.Comb.
From Coq Require Import ZifyBool ZifyNat Sorting.Sorted Arith.Wf_nat.

Lemma next_empty m : next m [] = (false, []).
Proof. reflexivity. Qed.

(** * 1. Binomial coefficients *)

Lemma binom_n_0 n : binom n 0 = 1.
Proof. destruct n; reflexivity. Qed.
Lemma binom_0_S k : binom 0 (S k) = 0.
Proof. reflexivity. Qed.
Lemma binom_S_S n k : binom (S n) (S k) = binom n k + binom n (S k).
Proof. reflexivity. Qed.

Lemma binom_nonneg n : forall k, 0 <= binom n k.
Proof.
  induction n; intros [|k]; rewrite ?binom_n_0, ?binom_0_S, ?binom_S_S; try lia.
  pose proof (IHn k); pose proof (IHn (S k)); lia.
Qed.

Lemma binom_gt : forall n k, (n < k)%nat -> binom n k = 0.
Proof.
  induction n; intros [|k] H; try lia.
  - reflexivity.
  - rewrite binom_S_S, !IHn by lia. reflexivity.
Qed.

Lemma binom_diag : forall n, binom n n = 1.
Proof.
  induction n. - reflexivity.
  - rewrite binom_S_S, IHn, binom_gt by lia. reflexivity.
Qed.

Lemma binom_1 : forall n, binom n 1 = Z.of_nat n.
Proof.
  induction n. - reflexivity.
  - rewrite binom_S_S, IHn, binom_n_0. lia.
Qed.

Lemma binom_mono_S n k : binom n k <= binom (S n) k.
Proof.
  destruct k. - rewrite !binom_n_0. lia.
  - rewrite binom_S_S. pose proof (binom_nonneg n k). lia.
Qed.

Lemma binom_mono n n' k : (n <= n')%nat -> binom n k <= binom n' k.
Proof.
  induction 1. - lia.
  - pose proof (binom_mono_S m k). lia.
Qed.

Lemma binom_pos : forall n k, (k <= n)%nat -> 0 < binom n k.
Proof.
  induction n; intros [|k] H; rewrite ?binom_n_0; try lia.
  rewrite binom_S_S. pose proof (IHn k ltac:(lia)). pose proof (binom_nonneg n (S k)). lia.
Qed.

(** The absorption identity (k+1) C(n+1,k+1) = (n+1) C(n,k). *)
Lemma binom_absorb : forall n k,
  Z.of_nat (S k) * binom (S n) (S k) = Z.of_nat (S n) * binom n k.
Proof.
  induction n; intro k.
  - rewrite binom_S_S. destruct k.
    + reflexivity.
    + rewrite !binom_0_S. lia.
  - rewrite binom_S_S. destruct k.
    + rewrite binom_n_0. pose proof (IHn O) as H. rewrite binom_n_0 in H. lia.
    + pose proof (IHn k) as H1. pose proof (IHn (S k)) as H2.
      rewrite (binom_S_S n k) in *.
      set (A := binom n k) in *. set (B := binom n (S k)) in *.
      set (C := binom (S n) (S (S k))) in *.
      rewrite !Nat2Z.inj_succ in *. nia.
Qed.

(** The executable multiplicative formula is Pascal's rule. *)
Lemma binom_fast_eq : forall k n, binom_fast (Z.of_nat n) k = binom n k.
Proof.
  induction k; intro n.
  - rewrite binom_n_0. reflexivity.
  - cbn [binom_fast]. destruct n.
    + reflexivity.
    + replace (Z.of_nat (S n) <=? 0) with false by lia.
      replace (Z.of_nat (S n) - 1) with (Z.of_nat n) by lia.
      rewrite IHk.
      replace (binom n k * Z.of_nat (S n)) with (binom (S n) (S k) * Z.of_nat (S k))
        by (pose proof (binom_absorb n k); lia).
      apply Z.div_mul. lia.
Qed.

Lemma binom_fast_Z n k : 0 <= n -> binom_fast n k = binom (Z.to_nat n) k.
Proof. intro H. rewrite <- binom_fast_eq, Z2Nat.id by lia. reflexivity. Qed.

Definition I63 : Z := 9223372036854775808. (* 2^63 *)

Lemma I63_pow : I63 = 2 ^ 63. Proof. reflexivity. Qed.
Lemma W64_pow : W64 = 2 ^ 64. Proof. reflexivity. Qed.
Lemma W64_val : W64 = 18446744073709551616. Proof. reflexivity. Qed.

Lemma binom64_mod n k : 0 <= n < I63 -> 0 <= k ->
  binom64 n k = binom (Z.to_nat n) (Z.to_nat k) mod W64.
Proof.
  unfold I63. intros Hn Hk. unfold binom64.
  replace (n <? 0) with false by lia. replace (k <? 0) with false by lia.
  replace (9223372036854775808 <=? n) with false by lia. cbn [orb].
  rewrite wrap64_mod, binom_fast_Z by lia. reflexivity.
Qed.

(** [bz]: binomial with a [Z] upper argument, as it appears in [rank]. *)
Definition bz (n : Z) (k : nat) : Z := binom (Z.to_nat n) k.

Lemma bz_0 n : bz n 0 = 1.
Proof. apply binom_n_0. Qed.
Lemma bz_nonneg n k : 0 <= bz n k.
Proof. apply binom_nonneg. Qed.
Lemma bz_mono n n' k : n <= n' -> bz n k <= bz n' k.
Proof. intro. apply binom_mono. lia. Qed.
Lemma bz_pascal n k : 0 <= n -> bz (n + 1) (S k) = bz n k + bz n (S k).
Proof.
  intro. unfold bz. replace (Z.to_nat (n + 1)) with (S (Z.to_nat n)) by lia.
  apply binom_S_S.
Qed.
Lemma bz_diag k : bz (Z.of_nat k) k = 1.
Proof. unfold bz. rewrite Nat2Z.id. apply binom_diag. Qed.

(** * 2. Valid combinations, [seqZ], lexicographic order *)

(** [Inc lo m s]: [s] is strictly increasing with every element in [(lo, m]]. *)
Fixpoint Inc (lo m : Z) (s : list Z) : Prop :=
  match s with
  | [] => True
  | x :: t => lo < x <= m /\ Inc x m t
  end.

Definition Valid (m : Z) (s : list Z) : Prop := Inc (-1) m s.

Lemma Inc_iff lo m s :
  Inc lo m s <-> StronglySorted Z.lt s /\ Forall (fun x => lo < x <= m) s.
Proof.
  revert lo. induction s as [|x t IH]; intro lo; cbn [Inc].
  - split; [intros _; split; constructor | trivial].
  - rewrite IH. split.
    + intros (Hx & Hs & Hf). split.
      * constructor; [exact Hs|]. eapply Forall_impl; [|exact Hf]. cbn. lia.
      * constructor; [exact Hx|]. eapply Forall_impl; [|exact Hf]. cbn. lia.
    + intros (Hs & Hf). inversion Hs as [|? ? Hs' Hlt]; subst.
      inversion Hf as [|? ? Hx Hf']; subst. repeat split; try lia; try assumption.
      rewrite Forall_forall in *. intros y Hy. specialize (Hlt y Hy). specialize (Hf' y Hy). lia.
Qed.

(** The textbook reading of [Valid]. *)
Lemma Valid_iff m s :
  Valid m s <-> StronglySorted Z.lt s /\ Forall (fun x => 0 <= x <= m) s.
Proof.
  unfold Valid. rewrite Inc_iff. split; intros (Hs & Hf); split; try assumption;
    (eapply Forall_impl; [|exact Hf]); cbn; lia.
Qed.

Lemma Inc_weaken lo lo' m s : lo' <= lo -> Inc lo m s -> Inc lo' m s.
Proof. destruct s; cbn [Inc]; [trivial|]. intros ? (? & ?). split; [lia|assumption]. Qed.

Lemma Inc_len : forall t x lo m, Inc lo m (x :: t) -> x + Z.of_nat (length t) <= m.
Proof.
  induction t as [|y t IH]; intros x lo m H.
  - cbn in *. lia.
  - destruct H as (Hx & Ht). pose proof (IH _ _ _ Ht). destruct Ht. cbn [length]. lia.
Qed.

Lemma seqZ_length : forall n v, length (seqZ v n) = n.
Proof. induction n; intro v; cbn [seqZ length]; [reflexivity | now rewrite IHn]. Qed.

Lemma seqZ_snoc : forall n v, seqZ v (S n) = seqZ v n ++ [v + Z.of_nat n].
Proof.
  induction n; intro v.
  - cbn. now rewrite Z.add_0_r.
  - change (seqZ v (S (S n))) with (v :: seqZ (v + 1) (S n)).
    rewrite IHn. cbn [seqZ app]. do 3 f_equal. lia.
Qed.

Lemma last_cons {A} : forall p (x d : A), last (x :: p) d = last p x.
Proof.
  induction p as [|y p IH]; intros x d; [reflexivity|].
  change (last (x :: y :: p) d) with (last (y :: p) d). now rewrite !IH.
Qed.

Lemma Inc_seqZ : forall n v lo m,
  lo < v -> v + Z.of_nat n <= m + 1 -> Inc lo m (seqZ v n).
Proof.
  induction n; intros v lo m Hlo Hm; cbn [seqZ Inc]; [trivial|].
  split; [lia|]. apply IHn; lia.
Qed.

(** A valid tail that fills the room up to [m] completely is the top series. *)
Lemma Inc_top : forall s lo m,
  Inc lo m s -> m <= lo + Z.of_nat (length s) -> s = seqZ (lo + 1) (length s).
Proof.
  induction s as [|x t IH]; intros lo m H Hl; [reflexivity|].
  pose proof (Inc_len _ _ _ _ H) as Hlen. destruct H as (Hx & Ht).
  cbn [length seqZ] in *. assert (x = lo + 1) by lia. subst x.
  f_equal. apply (IH _ m); [assumption | lia].
Qed.

Lemma Inc_app : forall p q lo m,
  Inc lo m (p ++ q) <-> Inc lo m p /\ Inc (last p lo) m q.
Proof.
  induction p as [|x p IH]; intros q lo m.
  - cbn. tauto.
  - rewrite last_cons. cbn [app Inc]. rewrite IH. tauto.
Qed.

(** Lexicographic order on tuples of the same length. *)
Inductive lex : list Z -> list Z -> Prop :=
| lex_head x y s t : x < y -> length s = length t -> lex (x :: s) (y :: t)
| lex_tail x s t : lex s t -> lex (x :: s) (x :: t).

Lemma lex_length s t : lex s t -> length s = length t.
Proof. induction 1; cbn [length]; congruence. Qed.

Lemma lex_irrefl s : ~ lex s s.
Proof. induction s as [|x s IH]; intro H; inversion H; subst; [lia | auto]. Qed.

Lemma lex_trans s t u : lex s t -> lex t u -> lex s u.
Proof.
  intro H. revert u. induction H; intros u Hu; inversion Hu; subst.
  - apply lex_head; [lia | congruence].
  - apply lex_head; [lia |]. apply lex_length in H4. congruence.
  - apply lex_head; [lia |]. apply lex_length in H. congruence.
  - apply lex_tail. auto.
Qed.

Lemma lex_total : forall s t, length s = length t -> lex s t \/ s = t \/ lex t s.
Proof.
  induction s as [|x s IH]; intros [|y t] Hl; try discriminate.
  - auto.
  - injection Hl as Hl. destruct (Z.lt_total x y) as [H | [H | H]].
    + left. now apply lex_head.
    + subst y. destruct (IH t Hl) as [H | [H | H]].
      * left. now apply lex_tail.
      * right. left. now subst.
      * right. right. now apply lex_tail.
    + right. right. now apply lex_head.
Qed.

Lemma lex_app p s t : lex s t -> lex (p ++ s) (p ++ t).
Proof. intro. induction p; [assumption | now apply lex_tail]. Qed.

(** The series [lo+1, lo+2, ...] is the least valid tuple above [lo]. *)
Lemma seqZ_least : forall s lo m,
  Inc lo m s -> s = seqZ (lo + 1) (length s) \/ lex (seqZ (lo + 1) (length s)) s.
Proof.
  induction s as [|x t IH]; intros lo m H; [left; reflexivity|].
  destruct H as (Hx & Ht). cbn [length seqZ].
  destruct (Z.eq_dec x (lo + 1)) as [->|Hne].
  - destruct (IH _ _ Ht) as [E | L].
    + left. now rewrite <- E.
    + right. now apply lex_tail.
  - right. apply lex_head; [lia|]. now rewrite seqZ_length.
Qed.

(** * 3. rank *)

Lemma rank_aux_cons m prev v t :
  rank_aux m prev (v :: t) =
  bz (m - prev) (S (length t)) - bz (m + 1 - v) (S (length t)) + rank_aux m v t.
Proof. reflexivity. Qed.

Lemma rank_aux_bounds : forall s m prev,
  Inc prev m s -> 0 <= rank_aux m prev s < bz (m - prev) (length s).
Proof.
  induction s as [|v t IH]; intros m prev H.
  - cbn [rank_aux length]. rewrite bz_0. lia.
  - rewrite rank_aux_cons. destruct H as (Hv & Ht). specialize (IH _ _ Ht).
    cbn [length].
    pose proof (bz_pascal (m - v) (length t) ltac:(lia)) as P.
    replace (m - v + 1) with (m + 1 - v) in P by lia.
    pose proof (bz_mono (m + 1 - v) (m - prev) (S (length t)) ltac:(lia)).
    pose proof (bz_nonneg (m - v) (S (length t))).
    lia.
Qed.

Lemma rank_lex_mono : forall s t, lex s t -> forall m prev,
  Inc prev m s -> Inc prev m t -> rank_aux m prev s < rank_aux m prev t.
Proof.
  induction 1 as [x y s t Hxy Hl | x s t L IH]; intros m prev Hs Ht.
  - rewrite !rank_aux_cons. destruct Hs as (Hx & Hs). destruct Ht as (Hy & Ht).
    pose proof (rank_aux_bounds _ _ _ Hs) as Bs. pose proof (rank_aux_bounds _ _ _ Ht) as Bt.
    rewrite <- Hl in *.
    pose proof (bz_pascal (m - x) (length s) ltac:(lia)) as P.
    replace (m - x + 1) with (m + 1 - x) in P by lia.
    pose proof (bz_mono (m + 1 - y) (m - x) (S (length s)) ltac:(lia)).
    lia.
  - rewrite !rank_aux_cons. rewrite (lex_length _ _ L).
    destruct Hs as (_ & Hs). destruct Ht as (_ & Ht). specialize (IH _ _ Hs Ht). lia.
Qed.

Lemma rank_aux_inj m prev s t :
  Inc prev m s -> Inc prev m t -> length s = length t ->
  rank_aux m prev s = rank_aux m prev t -> s = t.
Proof.
  intros Hs Ht Hl E. destruct (lex_total s t Hl) as [L | [L | L]]; [|assumption|].
  - pose proof (rank_lex_mono _ _ L _ _ Hs Ht). lia.
  - pose proof (rank_lex_mono _ _ L _ _ Ht Hs). lia.
Qed.

Lemma rank_aux_seqZ : forall n m prev v,
  rank_aux m prev (seqZ v n) = bz (m - prev) n - bz (m + 1 - v) n.
Proof.
  induction n; intros m prev v.
  - cbn [seqZ rank_aux]. rewrite !bz_0. reflexivity.
  - cbn [seqZ]. rewrite rank_aux_cons, seqZ_length, IHn.
    replace (m + 1 - (v + 1)) with (m - v) by lia. lia.
Qed.

Lemma rank_aux_app m : forall p prev l l', length l = length l' ->
  rank_aux m prev (p ++ l) - rank_aux m prev (p ++ l')
  = rank_aux m (last p prev) l - rank_aux m (last p prev) l'.
Proof.
  induction p as [|x p IH]; intros prev l l' Hl.
  - reflexivity.
  - rewrite last_cons. cbn [app]. rewrite !rank_aux_cons, !app_length, Hl.
    specialize (IH x l l' Hl). lia.
Qed.

Lemma rank_first m k : rank m (first_comb k) = 0.
Proof.
  unfold rank, first_comb. rewrite rank_aux_seqZ.
  replace (m - -1) with (m + 1 - 0) by lia. lia.
Qed.

Definition last_comb (m : Z) (k : nat) : list Z := seqZ (m - Z.of_nat k + 1) k.

Lemma rank_last m k : rank m (last_comb m k) = bz (m + 1) k - 1.
Proof.
  unfold rank, last_comb. rewrite rank_aux_seqZ.
  replace (m - -1) with (m + 1) by lia.
  replace (m + 1 - (m - Z.of_nat k + 1)) with (Z.of_nat k) by lia.
  now rewrite bz_diag.
Qed.

Lemma rank_bounds m s : Valid m s -> 0 <= rank m s < bz (m + 1) (length s).
Proof.
  intro H. pose proof (rank_aux_bounds _ _ _ H) as B.
  replace (m - -1) with (m + 1) in B by lia. exact B.
Qed.

Lemma rank_inj m s t :
  Valid m s -> Valid m t -> length s = length t -> rank m s = rank m t -> s = t.
Proof. apply rank_aux_inj. Qed.

Lemma rank_lex m s t : Valid m s -> Valid m t -> lex s t -> rank m s < rank m t.
Proof. intros Hs Ht L. now apply rank_lex_mono. Qed.

Lemma rank_lex_iff m s t : Valid m s -> Valid m t -> length s = length t ->
  (lex s t <-> rank m s < rank m t).
Proof.
  intros Hs Ht Hl. split; [now apply rank_lex|].
  intro R. destruct (lex_total s t Hl) as [L | [L | L]]; [assumption | subst; lia |].
  pose proof (rank_lex _ _ _ Ht Hs L). lia.
Qed.

Lemma first_comb_valid m k : Z.of_nat k <= m + 1 -> Valid m (first_comb k).
Proof. intro. apply Inc_seqZ; lia. Qed.

Lemma last_comb_valid m k : Z.of_nat k <= m + 1 -> Valid m (last_comb m k).
Proof. intro. apply Inc_seqZ; lia. Qed.

(** * 4. next *)

Lemma rev_seqZ_S v n : rev (seqZ v (S n)) = (v + Z.of_nat n) :: rev (seqZ v n).
Proof. rewrite seqZ_snoc, rev_app_distr. reflexivity. Qed.

(** The odometer carry: the [j] last positions are at their maximum, position
    [x] has room; the result re-seeds the tail from [x+1]. *)
Lemma next_rev_carry m : forall j d x rp,
  x + 1 <= m - d - Z.of_nat j ->
  next_rev m d (rev (seqZ (m - d - Z.of_nat j + 1) j) ++ x :: rp)
  = (true, rev (seqZ (x + 1) (S j)) ++ rp).
Proof.
  induction j; intros d x rp Hx.
  - cbn [seqZ rev app next_rev]. replace (x + 1 <=? m - d) with true by lia. reflexivity.
  - rewrite rev_seqZ_S. cbn [app next_rev].
    replace (m - d - Z.of_nat (S j) + 1 + Z.of_nat j + 1 <=? m - d) with false by lia.
    replace (m - d - Z.of_nat (S j) + 1) with (m - (d + 1) - Z.of_nat j + 1) by lia.
    rewrite IHj by lia.
    rewrite (rev_seqZ_S (x + 1) (S j)), (rev_seqZ_S (x + 1) j). cbn [app hd].
    do 2 f_equal. lia.
Qed.

Lemma next_rev_last m : forall j d,
  next_rev m d (rev (seqZ (m - d - Z.of_nat j + 1) j))
  = (false, rev (seqZ (m - d - Z.of_nat j + 2) j)).
Proof.
  induction j; intro d.
  - reflexivity.
  - rewrite !rev_seqZ_S. cbn [next_rev].
    replace (m - d - Z.of_nat (S j) + 1 + Z.of_nat j + 1 <=? m - d) with false by lia.
    replace (m - d - Z.of_nat (S j) + 1) with (m - (d + 1) - Z.of_nat j + 1) by lia.
    rewrite IHj.
    replace (m - (d + 1) - Z.of_nat j + 2) with (m - d - Z.of_nat (S j) + 2) by lia.
    do 2 f_equal. lia.
Qed.

Lemma next_carry m p x j : x + 1 <= m - Z.of_nat j ->
  next m (p ++ x :: seqZ (m - Z.of_nat j + 1) j) = (true, p ++ seqZ (x + 1) (S j)).
Proof.
  intro Hx. unfold next. rewrite rev_app_distr. cbn [rev]. rewrite <- app_assoc. cbn [app].
  replace (m - Z.of_nat j + 1) with (m - 0 - Z.of_nat j + 1) by lia.
  rewrite next_rev_carry by lia.
  now rewrite rev_app_distr, !rev_involutive.
Qed.

(** On the last tuple (and on the empty one) [next] reports exhaustion; the
    slice is left with every element incremented, as in the Go loop. *)
Lemma next_last m k : next m (last_comb m k) = (false, seqZ (m - Z.of_nat k + 2) k).
Proof.
  unfold next, last_comb.
  replace (m - Z.of_nat k + 1) with (m - 0 - Z.of_nat k + 1) by lia.
  rewrite next_rev_last, rev_involutive. do 2 f_equal. lia.
Qed.

(** Every valid tuple is the last one or has a carry position. *)
Lemma Inc_decomp : forall s lo m, Inc lo m s ->
  s = seqZ (m - Z.of_nat (length s) + 1) (length s) \/
  exists p x j, s = p ++ x :: seqZ (m - Z.of_nat j + 1) j /\ x + 1 <= m - Z.of_nat j.
Proof.
  induction s as [|v t IH]; intros lo m H; [left; reflexivity|].
  pose proof (Inc_len _ _ _ _ H) as Hlen. destruct H as (Hv & Ht).
  destruct (IH _ _ Ht) as [E | (p & x & j & E & Hx)].
  - destruct (Z.eq_dec v (m - Z.of_nat (length t))) as [Ev | Nv].
    + left. cbn [length seqZ]. f_equal; [lia|].
      replace (m - Z.of_nat (S (length t)) + 1 + 1) with (m - Z.of_nat (length t) + 1) by lia.
      exact E.
    + right. exists [], v, (length t). cbn [app]. split; [now rewrite <- E | lia].
  - right. exists (v :: p), x, j. split; [now rewrite E | assumption].
Qed.

Lemma rank_carry m prev x j : prev < x -> x + 1 <= m - Z.of_nat j ->
  rank_aux m prev (seqZ (x + 1) (S j))
  = rank_aux m prev (x :: seqZ (m - Z.of_nat j + 1) j) + 1.
Proof.
  intros Hp Hx. rewrite rank_aux_cons, !rank_aux_seqZ, seqZ_length.
  replace (m + 1 - (m - Z.of_nat j + 1)) with (Z.of_nat j) by lia. rewrite bz_diag.
  pose proof (bz_pascal (m - x) j ltac:(lia)) as P.
  replace (m - x + 1) with (m + 1 - x) in P by lia.
  replace (m + 1 - (x + 1)) with (m - x) by lia. lia.
Qed.

(** Main step lemma: on a valid tuple that is not the last one, [next]
    succeeds, stays valid, keeps the length, and increments the rank. *)
Lemma next_step m s : Valid m s -> s <> last_comb m (length s) ->
  exists s', next m s = (true, s') /\ Valid m s' /\ length s' = length s /\
             rank m s' = rank m s + 1.
Proof.
  intros H Hnl. destruct (Inc_decomp _ _ _ H) as [E | (p & x & j & E & Hx)];
    [now elim Hnl|].
  subst s. exists (p ++ seqZ (x + 1) (S j)). split; [now apply next_carry|].
  unfold Valid in *. apply Inc_app in H. destruct H as (Hp & Hq).
  destruct Hq as (Hlx & _).
  split; [|split].
  - apply Inc_app. split; [assumption|]. apply Inc_seqZ; lia.
  - rewrite !app_length. cbn [length]. now rewrite !seqZ_length.
  - unfold rank.
    pose proof (rank_aux_app m p (-1) (seqZ (x + 1) (S j))
                  (x :: seqZ (m - Z.of_nat j + 1) j)) as A.
    rewrite rank_carry in A by lia. cbn [length] in A. rewrite !seqZ_length in A.
    specialize (A eq_refl). lia.
Qed.

Lemma next_true m s s' : Valid m s -> next m s = (true, s') ->
  Valid m s' /\ length s' = length s /\ rank m s' = rank m s + 1 /\
  s <> last_comb m (length s).
Proof.
  intros H N.
  assert (Hnl : s <> last_comb m (length s)).
  { intro E. rewrite E, next_last in N. discriminate. }
  destruct (next_step m s H Hnl) as (s1 & N1 & ?). rewrite N in N1.
  injection N1 as <-. tauto.
Qed.

Lemma next_false m s r : Valid m s -> next m s = (false, r) -> s = last_comb m (length s).
Proof.
  intros H N. destruct (Inc_decomp _ _ _ H) as [E | (p & x & j & E & Hx)]; [exact E|].
  subst s. rewrite next_carry in N by assumption. discriminate.
Qed.

(** [next] is the lexicographic successor among valid tuples of that length. *)
Lemma next_succ m s s' : Valid m s -> next m s = (true, s') ->
  Valid m s' /\ length s' = length s /\ lex s s' /\
  forall t, Valid m t -> length t = length s -> ~ (lex s t /\ lex t s').
Proof.
  intros H N. destruct (next_true _ _ _ H N) as (V' & L' & R & _).
  split; [assumption|]. split; [assumption|]. split.
  - apply (rank_lex_iff m); auto; lia.
  - intros t Vt Lt (L1 & L2).
    pose proof (rank_lex _ _ _ H Vt L1). pose proof (rank_lex _ _ _ Vt V' L2). lia.
Qed.

(** * 5. Enumeration: the i-th visited combination has ID i *)

Fixpoint nth_comb (m : Z) (i : nat) (s : list Z) : option (list Z) :=
  match i with
  | O => Some s
  | S i' => let '(more, s') := next m s in if more then nth_comb m i' s' else None
  end.

Lemma nth_comb_from m : forall i s, Valid m s ->
  rank m s + Z.of_nat i < bz (m + 1) (length s) ->
  exists s', nth_comb m i s = Some s' /\ Valid m s' /\ length s' = length s /\
             rank m s' = rank m s + Z.of_nat i.
Proof.
  induction i; intros s V B.
  - exists s. cbn [nth_comb]. repeat split; auto; lia.
  - assert (Hnl : s <> last_comb m (length s)).
    { intro E. pose proof (rank_last m (length s)) as R. rewrite <- E in R. lia. }
    destruct (next_step m s V Hnl) as (s1 & N & V1 & L1 & R1).
    destruct (IHi s1 V1) as (s' & N' & V' & L' & R'); [rewrite L1; lia|].
    exists s'. cbn [nth_comb]. rewrite N. repeat split; auto; try congruence; lia.
Qed.

Lemma nth_comb_sound m : forall i s s', Valid m s -> nth_comb m i s = Some s' ->
  Valid m s' /\ length s' = length s /\ rank m s' = rank m s + Z.of_nat i.
Proof.
  induction i; intros s s' V N; cbn [nth_comb] in N.
  - injection N as <-. repeat split; auto; lia.
  - destruct (next m s) as [[|] s1] eqn:E; [|discriminate].
    destruct (next_true _ _ _ V E) as (V1 & L1 & R1 & _).
    destruct (IHi _ _ V1 N) as (V' & L' & R'). repeat split; auto; try congruence; lia.
Qed.

(** Walking from the first combination: step [i] exists exactly for
    [i < C(m+1,k)] and carries ID [i]. *)
Lemma rank_enum m k i : Z.of_nat k <= m + 1 ->
  (Z.of_nat i < bz (m + 1) k ->
     exists s, nth_comb m i (first_comb k) = Some s /\ Valid m s /\ length s = k /\
               rank m s = Z.of_nat i) /\
  (bz (m + 1) k <= Z.of_nat i -> nth_comb m i (first_comb k) = None).
Proof.
  intro Hk. pose proof (first_comb_valid m k Hk) as V.
  assert (Lf : length (first_comb k) = k) by apply seqZ_length.
  split.
  - intro B. destruct (nth_comb_from m i _ V) as (s & N & Vs & Ls & Rs).
    + rewrite rank_first, Lf. lia.
    + exists s. rewrite rank_first in Rs. repeat split; auto; congruence.
  - intro B. destruct (nth_comb m i (first_comb k)) as [s|] eqn:N; [|reflexivity].
    destruct (nth_comb_sound _ _ _ _ V N) as (Vs & Ls & Rs).
    pose proof (rank_bounds _ _ Vs). rewrite rank_first in Rs. rewrite Ls, Lf in *. lia.
Qed.

(** rank is onto [0, C(m+1,k)). *)
Lemma rank_surj m k id : Z.of_nat k <= m + 1 -> 0 <= id < bz (m + 1) k ->
  exists s, Valid m s /\ length s = k /\ rank m s = id.
Proof.
  intros Hk B. destruct (proj1 (rank_enum m k (Z.to_nat id) Hk)) as (s & _ & V & L & R);
    [lia|]. exists s. repeat split; auto; lia.
Qed.

Lemma next_step_rank m s : Valid m s -> rank m s + 1 < bz (m + 1) (length s) ->
  exists s', next m s = (true, s') /\ Valid m s' /\ length s' = length s /\
             rank m s' = rank m s + 1.
Proof.
  intros V B. apply next_step; [assumption|].
  intro E. pose proof (rank_last m (length s)) as R. rewrite <- E in R. lia.
Qed.

(** * 6. The uint64 arithmetic: rank64, amount64 *)

Lemma rank64_aux_spec m : m + 1 < I63 ->
  forall s prev p64 acc, -1 <= prev -> p64 = prev mod W64 -> 0 <= acc < W64 ->
  Inc prev m s ->
  rank64_aux m p64 s acc = (acc + rank_aux m prev s) mod W64.
Proof.
  intros Hm. pose proof W64_val as HW. unfold I63 in Hm.
  induction s as [|v t IH]; intros prev p64 acc Hp E Hacc H.
  - cbn [rank64_aux rank_aux]. rewrite Z.add_0_r, Z.mod_small; lia.
  - destruct H as (Hv & Ht). rewrite rank_aux_cons. cbn [rank64_aux length].
    subst p64. rewrite !wrap64_mod.
    replace ((m + 1 - prev mod W64 - 1) mod W64) with (m - prev).
    2:{ replace (m + 1 - prev mod W64 - 1) with (m - prev mod W64) by lia.
        rewrite Zminus_mod_idemp_r. rewrite Z.mod_small; lia. }
    rewrite (Z.mod_small (m + 1 - v)) by lia.
    rewrite !binom64_mod by (unfold I63; lia). rewrite Nat2Z.id.
    fold (bz (m - prev) (S (length t))). fold (bz (m + 1 - v) (S (length t))).
    rewrite <- Zminus_mod, Zplus_mod_idemp_r.
    rewrite (IH v v _ ltac:(lia) ltac:(rewrite Z.mod_small; lia)
               ltac:(apply Z.mod_pos_bound; lia) Ht).
    rewrite Zplus_mod_idemp_l. f_equal. lia.
Qed.

Lemma rank64_mod m s : Valid m s -> m + 1 < I63 -> rank64 m s = rank m s mod W64.
Proof.
  intros V Hm. unfold rank64, rank.
  rewrite (rank64_aux_spec m Hm s (-1) (W64 - 1) 0); try reflexivity; try assumption; try lia.
  rewrite W64_val. lia.
Qed.

Lemma rank64_exact m s : Valid m s -> m + 1 < I63 -> bz (m + 1) (length s) < W64 ->
  rank64 m s = rank m s.
Proof.
  intros V Hm B. rewrite rank64_mod by assumption.
  pose proof (rank_bounds _ _ V). apply Z.mod_small. lia.
Qed.

Lemma amount64_mod m k : 0 <= m + 1 < I63 -> amount64 m k = bz (m + 1) k mod W64.
Proof.
  intros Hm. unfold amount64. pose proof W64_val. unfold I63 in *.
  rewrite wrap64_mod, Z.mod_small by lia.
  rewrite binom64_mod by (unfold I63; lia). now rewrite Nat2Z.id.
Qed.

Lemma amount64_exact m k : 0 <= m + 1 < I63 -> bz (m + 1) k < W64 ->
  amount64 m k = bz (m + 1) k.
Proof.
  intros Hm B. rewrite amount64_mod by assumption. apply Z.mod_small.
  pose proof (bz_nonneg (m + 1) k). lia.
Qed.

(** * 7. seek (setCombinationID): the N-section search terminates and is exact *)

Lemma seek_0 m id : seek m 0 id = Ok [].
Proof. reflexivity. Qed.

Lemma set_series_app m p l v : l <> [] -> v + Z.of_nat (length l) <= m + 1 ->
  set_series m (length p) v (p ++ l) = Ok (p ++ seqZ v (length l)).
Proof.
  intros Hl Hv. unfold set_series.
  rewrite firstn_app, firstn_all, Nat.sub_diag, firstn_O, app_nil_r, app_length.
  replace (length p + length l - length p)%nat with (length l) by lia.
  destruct l as [|y l]; [congruence|]. cbn [length] in *.
  rewrite rev_app_distr, rev_seqZ_S. cbn [app].
  replace (m <? v + Z.of_nat (length l)) with false by lia. reflexivity.
Qed.

(** Soundness needs nothing: whatever [seek] returns has the requested ID. *)
Lemma seek_loop_sound m id : forall fuel idx s r,
  seek_loop fuel m id idx s = Ok r -> rank64 m r = id.
Proof.
  induction fuel; intros idx s r H; cbn [seek_loop] in H; [discriminate|].
  destruct (rank64 m s =? id) eqn:E.
  - injection H as <-. lia.
  - destruct (nth_error s idx); [|discriminate].
    destruct (id <? rank64 m s);
      (destruct (set_series m idx _ s); cbn [bind] in H; try discriminate; eauto).
Qed.

Lemma seek_sound m k id r : (1 <= k)%nat -> seek m k id = Ok r -> rank64 m r = id.
Proof.
  intros Hk H. destruct k; [lia|]. unfold seek in H.
  destruct (set_series m 0 0 (repeat 0 (S k))); cbn [bind] in H; try discriminate.
  eapply seek_loop_sound; eassumption.
Qed.

Section Seek.
  Variables (m id : Z) (t : list Z).
  Hypothesis Hm : m + 1 < I63.
  Hypothesis Vt : Valid m t.
  Hypothesis Bt : bz (m + 1) (length t) < W64.
  Hypothesis Rt : rank m t = id.

  Lemma seek_loop_ok : forall fuel p v tl,
    t = p ++ tl -> tl <> [] -> last p (-1) < v <= hd 0 tl ->
    (Z.to_nat (m - v) + 2 * length tl + 1 <= fuel)%nat ->
    seek_loop fuel m id (length p) (p ++ seqZ v (length tl)) = Ok t.
  Proof.
    induction fuel as [fuel IH] using lt_wf_ind. intros p v tl E Hne Hv Hf.
    destruct fuel as [|f]; [lia|].
    destruct tl as [|u tl2]; [congruence|]. cbn [hd length] in *.
    pose proof Vt as Vt'. unfold Valid in Vt'. rewrite E in Vt'.
    apply Inc_app in Vt'. destruct Vt' as (Vp & Vtl).
    pose proof (Inc_len _ _ _ _ Vtl) as Hlen. destruct Vtl as (Hu & Vtl2).
    assert (Lt : length t = (length p + S (length tl2))%nat)
      by (rewrite E, app_length; reflexivity).
    (* facts about any candidate p ++ seqZ w (S |tl2|) *)
    assert (Cand : forall w, last p (-1) < w -> w + Z.of_nat (length tl2) <= m ->
              Valid m (p ++ seqZ w (S (length tl2))) /\
              rank64 m (p ++ seqZ w (S (length tl2))) = rank m (p ++ seqZ w (S (length tl2)))).
    { intros w Hw1 Hw2.
      assert (V : Valid m (p ++ seqZ w (S (length tl2)))).
      { apply Inc_app. split; [assumption|]. apply Inc_seqZ; lia. }
      split; [assumption|]. apply rank64_exact; try assumption.
      rewrite app_length, seqZ_length, <- Lt. assumption. }
    assert (Lc : forall w, length (p ++ seqZ w (S (length tl2))) = length t).
    { intro w. now rewrite app_length, seqZ_length. }
    set (s := p ++ seqZ v (S (length tl2))).
    destruct (Cand v ltac:(lia) ltac:(lia)) as (Vs & R64s). fold s in Vs, R64s.
    assert (Ord : s = t \/ lex s t).
    { subst s. rewrite E. destruct (Z.eq_dec v u) as [->|Nvu].
      - destruct (seqZ_least _ _ _ Vtl2) as [E2 | L2].
        + left. cbn [seqZ]. now rewrite <- E2.
        + right. apply lex_app. cbn [seqZ]. now apply lex_tail.
      - right. apply lex_app. cbn [seqZ]. apply lex_head; [lia|]. apply seqZ_length. }
    cbn [seek_loop]. rewrite R64s.
    destruct (rank m s =? id) eqn:Eq.
    { f_equal. apply (rank_inj m); try assumption; [apply Lc | lia]. }
    destruct Ord as [Es | Ls]; [rewrite Es in Eq; lia|].
    pose proof (rank_lex _ _ _ Vs Vt Ls) as Rlt.
    assert (Nth : forall w, nth_error (p ++ seqZ w (S (length tl2))) (length p) = Some w).
    { intro w. rewrite nth_error_app2, Nat.sub_diag by lia. reflexivity. }
    unfold s at 1. rewrite Nth.
    replace (id <? rank m s) with false by lia.
    assert (SS : forall w w', w' + Z.of_nat (length tl2) <= m ->
              set_series m (length p) w' (p ++ seqZ w (S (length tl2)))
              = Ok (p ++ seqZ w' (S (length tl2)))).
    { intros w w' Hw. rewrite set_series_app; rewrite ?seqZ_length; try lia; [reflexivity|].
      cbn [seqZ]. discriminate. }
    destruct (Z.eq_dec v u) as [Evu|Nvu].
    - (* at the target value of this position: overshoot, come back, descend *)
      subst v.
      assert (Ntop : tl2 <> seqZ (u + 1) (length tl2)).
      { intro E2. apply (lex_irrefl t). replace t with s at 1; [exact Ls|].
        unfold s. rewrite E. cbn [seqZ]. now rewrite <- E2. }
      assert (Hroom : u + Z.of_nat (length tl2) < m).
      { destruct (Z_lt_le_dec (u + Z.of_nat (length tl2)) m) as [?|Hge]; [assumption|].
        elim Ntop. apply (Inc_top _ _ m); assumption. }
      assert (Hne2 : tl2 <> []) by (intro E2; apply Ntop; now rewrite E2).
      unfold s. rewrite SS by lia. cbn [bind].
      destruct f as [|f']; [lia|]. cbn [seek_loop].
      destruct (Cand (u + 1) ltac:(lia) ltac:(lia)) as (Vs' & R64s').
      set (s' := p ++ seqZ (u + 1) (S (length tl2))) in *.
      assert (Ls' : lex t s').
      { subst s'. rewrite E. apply lex_app. cbn [seqZ]. apply lex_head; [lia|].
        now rewrite seqZ_length. }
      pose proof (rank_lex _ _ _ Vt Vs' Ls') as Rgt.
      rewrite R64s'. replace (rank m s' =? id) with false by lia.
      unfold s' at 1. rewrite Nth. replace (id <? rank m s') with true by lia.
      unfold s'. rewrite SS by lia. cbn [bind].
      replace (u + 1 - 1) with u by lia.
      replace (p ++ seqZ u (S (length tl2))) with ((p ++ [u]) ++ seqZ (u + 1) (length tl2))
        by (rewrite <- app_assoc; reflexivity).
      replace (S (length p)) with (length (p ++ [u])) by (rewrite app_length; cbn; lia).
      apply (IH f' ltac:(lia)).
      + rewrite <- app_assoc. exact E.
      + assumption.
      + rewrite last_last. destruct tl2 as [|y tl3]; [congruence|]. cbn [hd].
        destruct Vtl2 as (Hy & _). lia.
      + lia.
    - (* still left of the target value: move right *)
      unfold s. rewrite SS by lia. cbn [bind].
      apply (IH f ltac:(lia) p (v + 1) (u :: tl2)); try assumption; cbn [hd length]; lia.
  Qed.
End Seek.

Theorem seek_ok m k id : (1 <= k)%nat -> Z.of_nat k <= m + 1 -> m + 1 < I63 ->
  bz (m + 1) k < W64 -> 0 <= id < bz (m + 1) k ->
  exists s, seek m k id = Ok s /\ Valid m s /\ length s = k /\ rank m s = id.
Proof.
  intros Hk1 Hk Hm Bk Hid.
  destruct (rank_surj m k id Hk Hid) as (t & Vt & Lt & Rt).
  exists t. repeat split; try assumption.
  destruct k as [|k']; [lia|]. unfold seek.
  pose proof (set_series_app m [] (repeat 0 (S k')) 0) as SS.
  rewrite repeat_length in SS. cbn [length app] in SS.
  rewrite SS by (cbn [repeat]; (discriminate || lia)). cbn [bind].
  destruct t as [|u tl]; [discriminate|].
  replace (seqZ 0 (S k')) with ([] ++ seqZ 0 (length (u :: tl)))
    by (rewrite Lt; reflexivity).
  apply (seek_loop_ok m id (u :: tl) Hm Vt ltac:(rewrite Lt; exact Bk) Rt
           (seek_fuel m (S k')) [] 0 (u :: tl)).
  - reflexivity.
  - discriminate.
  - cbn [last hd]. destruct Vt. lia.
  - unfold seek_fuel. rewrite Lt. lia.
Qed.

(** The same including [k = 0] (the empty combination, ID 0). *)
Theorem seek_total m k id : Z.of_nat k <= m + 1 -> m + 1 < I63 ->
  bz (m + 1) k < W64 -> 0 <= id < bz (m + 1) k ->
  exists s, seek m k id = Ok s /\ Valid m s /\ length s = k /\ rank m s = id.
Proof.
  intros Hk Hm Bk Hid. destruct k as [|k'].
  - exists []. rewrite bz_0 in Hid. unfold Valid, rank. cbn. repeat split. lia.
  - apply seek_ok; try assumption; lia.
Qed.

(** * 8. Applying a combination: flips *)

Definition memZ (x : Z) (s : list Z) : bool := if in_dec Z.eq_dec x s then true else false.

Lemma memZ_cons x i t : memZ x (i :: t) = (x =? i) || memZ x t.
Proof.
  unfold memZ. destruct (in_dec Z.eq_dec x (i :: t)) as [H|H];
    destruct (in_dec Z.eq_dec x t) as [H'|H']; destruct (Z.eqb_spec x i) as [E|E];
    cbn [orb]; try reflexivity; exfalso.
  - destruct H; [congruence | contradiction].
  - apply H. now right.
  - apply H. now right.
  - apply H. left. congruence.
Qed.

Lemma memZ_In x s : memZ x s = true <-> In x s.
Proof. unfold memZ. destruct (in_dec Z.eq_dec x s); split; (congruence || tauto). Qed.

Lemma upd_spec {A} (f : A -> A) : forall l i, (i < length l)%nat ->
  exists l', upd i f l = Some l' /\ length l' = length l /\
    forall j d, nth j l' d = if (j =? i)%nat then f (nth j l d) else nth j l d.
Proof.
  induction l as [|x l IH]; intros i Hi; cbn [length] in Hi; [lia|].
  destruct i as [|i].
  - exists (f x :: l). cbn [upd]. repeat split. intros [|j] d; reflexivity.
  - destruct (IH i ltac:(lia)) as (l' & U & L & N). exists (x :: l'). cbn [upd]. rewrite U.
    repeat split; [cbn [length]; congruence|]. intros [|j] d; [reflexivity|].
    cbn [nth]. rewrite N. reflexivity.
Qed.

Lemma upd_Forall {A} (P : A -> Prop) (f : A -> A) : (forall x, P x -> P (f x)) ->
  forall l i l', upd i f l = Some l' -> Forall P l -> Forall P l'.
Proof.
  intros Hf. induction l as [|x l IH]; intros i l' U F; [destruct i; discriminate|].
  inversion F; subst. destruct i as [|i]; cbn [upd] in U.
  - injection U as <-. constructor; auto.
  - destruct (upd i f l) as [t'|] eqn:E; [|discriminate]. injection U as <-.
    constructor; eauto.
Qed.

(** ** bools *)

Lemma flip_bools_spec : forall s v,
  NoDup s -> Forall (fun i => 0 <= i < Z.of_nat (length v)) s ->
  exists v', flip_bools s v = Ok v' /\ length v' = length v /\
    forall j, (j < length v)%nat ->
      nth j v' false = if in_dec Z.eq_dec (Z.of_nat j) s then negb (nth j v false)
                       else nth j v false.
Proof.
  induction s as [|i t IH]; intros v ND R.
  - exists v. repeat split.
  - inversion ND as [|? ? Hni NDt]; subst. inversion R as [|? ? Hi Rt]; subst.
    destruct (upd_spec negb v (Z.to_nat i) ltac:(lia)) as (v1 & U & L1 & N1).
    destruct (IH v1 NDt) as (v' & F & L' & N'); [now rewrite L1|].
    exists v'. cbn [flip_bools]. replace (i <? 0) with false by lia. rewrite U.
    split; [exact F|]. split; [congruence|]. intros j Hj.
    rewrite N' by lia. rewrite N1.
    destruct (in_dec Z.eq_dec (Z.of_nat j) (i :: t)) as [H|H];
      destruct (in_dec Z.eq_dec (Z.of_nat j) t) as [H'|H'];
      destruct (Nat.eqb_spec j (Z.to_nat i)) as [E|E]; try reflexivity; exfalso.
    + apply Hni. replace i with (Z.of_nat j) by lia. assumption.
    + destruct H as [H|H]; [lia | contradiction].
    + apply H. now right.
    + apply H. now right.
    + apply H. left. lia.
Qed.

Lemma flip_bools_invol s v v' :
  NoDup s -> Forall (fun i => 0 <= i < Z.of_nat (length v)) s ->
  flip_bools s v = Ok v' -> flip_bools s v' = Ok v.
Proof.
  intros ND R F. destruct (flip_bools_spec s v ND R) as (w & F1 & L1 & N1).
  rewrite F in F1. injection F1 as <-.
  destruct (flip_bools_spec s v' ND) as (w & F2 & L2 & N2); [now rewrite L1|].
  rewrite F2. f_equal. apply (nth_ext _ _ false false); [congruence|].
  intros j Hj. rewrite N2, N1 by lia.
  destruct (in_dec Z.eq_dec (Z.of_nat j) s); [apply negb_involutive | reflexivity].
Qed.

(** ** bytes *)

Lemma flip_bit_testbit bit x b : 0 <= bit -> 0 <= b ->
  Z.testbit (flip_bit bit x) b = xorb (Z.testbit x b) (b =? bit).
Proof.
  intros Hbit Hb. unfold flip_bit. rewrite Z.lxor_spec, Z.shiftl_1_l, Z.pow2_bits_eqb by lia.
  f_equal. lia.
Qed.

Definition is_byte (x : Z) : Prop := 0 <= x < 256.

Lemma flip_bit_byte bit x : 0 <= bit < 8 -> is_byte x -> is_byte (flip_bit bit x).
Proof.
  unfold is_byte, flip_bit. intros Hbit Hx. rewrite Z.shiftl_1_l.
  assert (H2 : 0 <= 2 ^ bit < 256).
  { split; [apply Z.pow_nonneg; lia|]. change 256 with (2 ^ 8). apply Z.pow_lt_mono_r; lia. }
  split; [apply Z.lxor_nonneg; lia|].
  assert (S0 : Z.shiftr (Z.lxor x (2 ^ bit)) 8 = 0).
  { rewrite Z.shiftr_lxor, !Z.shiftr_div_pow2 by lia. change (2 ^ 8) with 256.
    rewrite !Z.div_small by lia. reflexivity. }
  rewrite Z.shiftr_div_pow2 in S0 by lia. change (2 ^ 8) with 256 in S0.
  assert (0 <= Z.lxor x (2 ^ bit)) by (apply Z.lxor_nonneg; lia).
  pose proof (Z.div_mod (Z.lxor x (2 ^ bit)) 256 ltac:(lia)).
  pose proof (Z.mod_pos_bound (Z.lxor x (2 ^ bit)) 256 ltac:(lia)). lia.
Qed.

Lemma shiftr3 i : Z.shiftr i 3 = i / 8.
Proof. rewrite Z.shiftr_div_pow2 by lia. reflexivity. Qed.
Lemma land7 i : Z.land i 7 = i mod 8.
Proof. change 7 with (Z.ones 3). rewrite Z.land_ones by lia. reflexivity. Qed.

Lemma flip_bytes_spec : forall s v,
  NoDup s -> Forall (fun i => 0 <= i < 8 * Z.of_nat (length v)) s ->
  exists v', flip_bytes s v = Ok v' /\ length v' = length v /\
    (Forall is_byte v -> Forall is_byte v') /\
    forall j b, (j < length v)%nat -> 0 <= b ->
      Z.testbit (nth j v' 0) b
      = xorb (Z.testbit (nth j v 0) b) ((b <? 8) && memZ (8 * Z.of_nat j + b) s).
Proof.
  induction s as [|i t IH]; intros v ND R.
  - exists v. repeat split; [auto|]. intros j b _ _. cbn. now rewrite andb_false_r, xorb_false_r.
  - inversion ND as [|? ? Hni NDt]; subst. inversion R as [|? ? Hi Rt]; subst.
    pose proof (Z.div_mod i 8 ltac:(lia)) as DM.
    pose proof (Z.mod_pos_bound i 8 ltac:(lia)) as MB.
    destruct (upd_spec (flip_bit (i mod 8)) v (Z.to_nat (i / 8)) ltac:(lia)) as (v1 & U & L1 & N1).
    destruct (IH v1 NDt) as (v' & F & L' & B' & N'); [now rewrite L1|].
    exists v'. cbn [flip_bytes]. replace (i <? 0) with false by lia.
    rewrite shiftr3, land7, U.
    split; [exact F|]. split; [congruence|]. split.
    { intro Bv. apply B'. eapply upd_Forall; [|exact U|exact Bv].
      intros x Hx. apply flip_bit_byte; [lia | assumption]. }
    intros j b Hj Hb. rewrite N' by lia. rewrite N1, memZ_cons.
    destruct (Nat.eqb_spec j (Z.to_nat (i / 8))) as [Ej|Ej].
    + rewrite flip_bit_testbit by lia.
      destruct (Z.eqb_spec b (i mod 8)) as [Eb|Eb].
      * replace (8 * Z.of_nat j + b =? i) with true by lia.
        replace (b <? 8) with true by lia. cbn [orb andb].
        destruct (memZ (8 * Z.of_nat j + b) t) eqn:M.
        { apply memZ_In in M. replace (8 * Z.of_nat j + b) with i in M by lia. contradiction. }
        now rewrite xorb_false_r.
      * replace (8 * Z.of_nat j + b =? i) with false by lia. cbn [orb].
        now rewrite xorb_false_r.
    + destruct (b <? 8) eqn:Eb8; cbn [andb]; [|reflexivity].
      replace (8 * Z.of_nat j + b =? i) with false by lia. reflexivity.
Qed.

Lemma flip_bytes_invol s v v' :
  NoDup s -> Forall (fun i => 0 <= i < 8 * Z.of_nat (length v)) s ->
  flip_bytes s v = Ok v' -> flip_bytes s v' = Ok v.
Proof.
  intros ND R F. destruct (flip_bytes_spec s v ND R) as (w & F1 & L1 & _ & N1).
  rewrite F in F1. injection F1 as <-.
  destruct (flip_bytes_spec s v' ND) as (w & F2 & L2 & _ & N2); [now rewrite L1|].
  rewrite F2. f_equal. apply (nth_ext _ _ 0 0); [congruence|].
  intros j Hj. apply Z.bits_inj'. intros b Hb. rewrite N2, N1 by lia.
  now rewrite xorb_assoc, xorb_nilpotent, xorb_false_r.
Qed.

(** A valid combination below the data length satisfies the flip hypotheses. *)
Lemma Inc_lt_all : forall s lo m, Inc lo m s -> Forall (fun i => lo < i <= m) s /\ NoDup s.
Proof.
  intros s lo m H. apply Inc_iff in H. destruct H as (SS & F). split; [assumption|].
  clear F. induction SS as [|x t SS IH Hx]; constructor; [|assumption].
  intro Hin. rewrite Forall_forall in Hx. specialize (Hx _ Hin). lia.
Qed.

Lemma Valid_flip_hyps m s n : Valid m s -> m < n ->
  NoDup s /\ Forall (fun i => 0 <= i < n) s.
Proof.
  intros V Hn. destruct (Inc_lt_all _ _ _ V) as (F & ND). split; [assumption|].
  eapply Forall_impl; [|exact F]. cbn. lia.
Qed.

(** * 9. The model's [walk] (what the correspondence check runs) *)

Lemma next_exhausted_iff m s : Valid m s ->
  (fst (next m s) = false <-> s = last_comb m (length s)).
Proof.
  intro V. split.
  - destruct (next m s) as [[|] r] eqn:N; cbn [fst]; [discriminate|]. intros _.
    eapply next_false; eassumption.
  - intro E. rewrite E, next_last. reflexivity.
Qed.

(** With enough fuel the walk from any valid state of rank [i] (counter [i])
    visits every remaining combination, reports exhaustion, ends with the
    counter at C(m+1,k) and never sees an ID different from the visit index. *)
Lemma walk_from m k : m + 1 < I63 -> bz (m + 1) k < W64 ->
  forall fuel s i h b, Valid m s -> length s = k -> rank m s = i ->
  bz (m + 1) k - i <= Z.of_nat fuel ->
  exists h', walk fuel m s i h b = (h', bz (m + 1) k, true, b).
Proof.
  intros Hm Bk. induction fuel as [|f IH]; intros s i h b V L R Hf.
  - pose proof (rank_bounds _ _ V). rewrite L in *. lia.
  - cbn [walk]. rewrite rank64_exact by (rewrite ?L; assumption). rewrite R.
    replace (i =? i) with true by lia. rewrite andb_true_r.
    destruct (next m s) as [[|] s'] eqn:N.
    + destruct (next_true _ _ _ V N) as (V' & L' & R' & _).
      apply IH; try assumption; try congruence; lia.
    + apply next_false in N; [|assumption]. pose proof (rank_last m (length s)) as RL.
      rewrite <- N, L in RL. eexists. repeat f_equal. lia.
Qed.

Lemma walk_first m k fuel h : Z.of_nat k <= m + 1 -> m + 1 < I63 -> bz (m + 1) k < W64 ->
  bz (m + 1) k <= Z.of_nat fuel ->
  exists h', walk fuel m (first_comb k) 0 h true = (h', bz (m + 1) k, true, true).
Proof.
  intros Hk Hm Bk Hf. apply (walk_from m k Hm Bk).
  - now apply first_comb_valid.
  - apply seqZ_length.
  - apply rank_first.
  - lia.
Qed.

(** * 10. Boundary witnesses *)

Lemma bz_1 n : 0 <= n -> bz n 1 = n.
Proof. intro. unfold bz. rewrite binom_1. lia. Qed.

(** [maxValue = MaxInt64]: [m+1] is no longer an int64, the ID is wrong. This is
    why the exactness theorems carry [m + 1 < 2^63]. *)
Lemma rank64_maxint64_refuted :
  exists m s, Valid m s /\ m + 1 = I63 /\ rank64 m s <> rank m s mod W64.
Proof.
  exists (I63 - 1), [1]. split; [|split].
  - unfold Valid, I63. cbn [Inc]. lia.
  - lia.
  - unfold rank. rewrite rank_aux_cons. cbn [rank_aux length].
    rewrite !bz_1 by (unfold I63; lia).
    replace (I63 - 1 - -1 - (I63 - 1 + 1 - 1) + 0) with 1 by lia.
    vm_compute. discriminate.
Qed.

(** C(m+1,k) >= 2^64: the reported amount is only the low 64 bits. *)
Lemma amount_overflow_refuted :
  exists m k, 0 <= m + 1 < I63 /\ W64 <= bz (m + 1) k /\ amount64 m k <> bz (m + 1) k.
Proof.
  exists 4000, 12%nat.
  assert (E : bz (4000 + 1) 12 = 34555303426741432403417275723797000).
  { unfold bz. rewrite <- binom_fast_Z by lia. vm_compute. reflexivity. }
  rewrite E. split; [unfold I63; lia|]. split; [rewrite W64_val; lia|].
  vm_compute. discriminate.
Qed.

(** [id >= amount] is outside [seek]'s contract: the search runs off the end. *)
Lemma seek_oob_refuted :
  exists m k id, (1 <= k)%nat /\ Z.of_nat k <= m + 1 /\ id = bz (m + 1) k /\
                 seek m k id = Panic.
Proof. exists 4, 3%nat, 10. repeat split; try lia. Qed.

(** * 11. Examples: the hypotheses are satisfiable *)

Example ex_valid : Valid 4 [0; 2; 4] /\ [0; 2; 4] <> last_comb 4 3.
Proof. split; [unfold Valid; cbn [Inc]; lia | discriminate]. Qed.

Example ex_next : next 4 [0; 2; 4] = (true, [0; 3; 4]) /\ rank 4 [0; 2; 4] = 4 /\ rank 4 [0; 3; 4] = 5.
Proof. repeat split. Qed.

Example ex_next_last : Valid 4 (last_comb 4 3) /\ next 4 [2; 3; 4] = (false, [3; 4; 5]).
Proof. split; [unfold Valid; cbn; lia | reflexivity]. Qed.

Example ex_seek : seek 4 3 5 = Ok [0; 3; 4] /\ 0 <= 5 < bz (4 + 1) 3 /\ bz (4 + 1) 3 < W64.
Proof. repeat split; vm_compute; congruence. Qed.

(** Beyond the 1000x10 lookup table, still within uint64. *)
Example ex_big_bound : 4000 + 1 < 2 ^ 63 /\ binom (Z.to_nat (4000 + 1)) 5 < 2 ^ 64 /\
  Valid 4000 [5; 17; 1000; 1001; 4000].
Proof.
  split; [change (2 ^ 63) with 9223372036854775808; lia|]. split.
  - rewrite <- binom_fast_Z by lia. vm_compute. reflexivity.
  - unfold Valid. cbn [Inc]. lia.
Qed.

Example ex_flip_bools :
  NoDup [0; 2] /\ Forall (fun i => 0 <= i < Z.of_nat (length [true; true; false])) [0; 2] /\
  flip_bools [0; 2] [true; true; false] = Ok [false; true; true].
Proof.
  split; [repeat constructor; cbn; lia|]. split; [repeat constructor; cbn; lia | reflexivity].
Qed.

Example ex_flip_bytes :
  NoDup [1; 9; 15] /\ Forall (fun i => 0 <= i < 8 * Z.of_nat (length [0; 255])) [1; 9; 15] /\
  flip_bytes [1; 9; 15] [0; 255] = Ok [2; 125].
Proof.
  split; [repeat constructor; cbn; lia|]. split; [repeat constructor; cbn; lia | reflexivity].
Qed.
