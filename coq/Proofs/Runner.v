(** Proofs about the runner model (Model/Runner.v). *)
From CSS Require Import Lib.Base Model.Runner.
From Coq Require Import Arith.

(** * classification *)

Lemma classify_pass o : classify o = RPass <-> o = o_pass.
Proof.
  destruct o as [[rc te] ie]; destruct rc, te, ie; cbn; split; intro H;
    try discriminate; try reflexivity; inversion H.
Qed.

Lemma classify_not_notrun o : classify o <> RNotRun.
Proof. destruct o as [[rc te] ie]; destruct rc, te, ie; cbn; discriminate. Qed.

Lemma classify_not_depfailed o : classify o <> RDepFailed.
Proof. destruct o as [[rc te] ie]; destruct rc, te, ie; cbn; discriminate. Qed.

Lemma is_pass_true r : is_pass r = true <-> r = RPass.
Proof. destruct r; cbn; split; intro H; try discriminate; reflexivity. Qed.

Lemma is_pass_false r : is_pass r = false <-> r <> RPass.
Proof. destruct r; cbn; split; intro H; try discriminate; try reflexivity; try congruence. Qed.

Lemma is_notrun_true r : is_notrun r = true <-> r = RNotRun.
Proof. destruct r; cbn; split; intro H; try discriminate; reflexivity. Qed.

Lemma is_notrun_false r : is_notrun r = false <-> r <> RNotRun.
Proof. destruct r; cbn; split; intro H; try discriminate; try reflexivity; try congruence. Qed.

Lemma result_eq_dec (a b : result) : {a = b} + {a <> b}.
Proof. decide equality. Qed.

Lemma upd_same {A} (f : nat -> A) i v : upd f i v i = v.
Proof. unfold upd. now rewrite Nat.eqb_refl. Qed.

Lemma upd_other {A} (f : nat -> A) i v j : j <> i -> upd f i v j = f j.
Proof. intro H. unfold upd. apply Nat.eqb_neq in H. now rewrite H. Qed.

Lemma res_set_checked_same s id a o : res (set_checked s id a o) id = classify o.
Proof. unfold set_checked. destruct o as [[rc te] ie]. cbn [res]. apply upd_same. Qed.

Lemma res_set_checked_other s id a o j : j <> id -> res (set_checked s id a o) j = res s j.
Proof. intro H. unfold set_checked. destruct o as [[rc te] ie]. cbn [res]. now apply upd_other. Qed.

Lemma trace_set_checked s id a o : trace (set_checked s id a o) = trace s ++ [mkEv id a o].
Proof. unfold set_checked. destruct o as [[rc te] ie]. reflexivity. Qed.

Section Spec.
  Variable ts : nat -> test.
  Variable chk : nat -> nat -> outcome3.
  (** the graph is acyclic: some rank decreases along every dependency edge *)
  Variable rank : nat -> nat.
  Hypothesis Hrank : forall id d, In d (deps (ts id)) -> rank d < rank id.

  Definition deps_done (s : state) (j : nat) : Prop :=
    forall d, In d (deps (ts j)) -> implemented (ts d) = true -> res s d <> RNotRun.
  Definition deps_pass (s : state) (j : nat) : Prop :=
    forall d, In d (deps (ts j)) -> implemented (ts d) = true -> res s d = RPass.
  Definition dep_fails (s : state) (j : nat) : Prop :=
    exists d, In d (deps (ts j)) /\ implemented (ts d) = true /\ res s d <> RPass.

  (** the stored result of [j] is explained by the stored results of its dependencies *)
  Definition LocalOK (s : state) (j : nat) : Prop :=
    deps_done s j /\
    ((res s j = RDepFailed /\ dep_fails s j) \/
     (exists n, res s j = classify (chk j n) /\ deps_pass s j)).

  Lemma LocalOK_ext s s' j :
    res s' j = res s j -> (forall d, In d (deps (ts j)) -> res s' d = res s d) ->
    LocalOK s j -> LocalOK s' j.
  Proof.
    intros Hj Hd [Hdone H]. split.
    - intros d Hin Himp. rewrite (Hd d Hin). now apply Hdone.
    - destruct H as [[Hr [d [Hin [Himp Hnp]]]] | [n [Hr Hp]]].
      + left. split; [congruence|]. exists d. rewrite (Hd d Hin). auto.
      + right. exists n. split; [congruence|]. intros d Hin Himp. rewrite (Hd d Hin). now apply Hp.
  Qed.

  (** ** what one (possibly nested) computation under top-level test [id] does
      to everything except [id] itself *)
  Definition Frame (id : nat) (s s' : state) (new : list event) : Prop :=
    trace s' = trace s ++ new /\
    NoDup (map ev_id new) /\
    (forall e, In e new ->
       (exists n, ev_out e = chk (ev_id e) n) /\ res s' (ev_id e) <> RNotRun /\
       ev_dep e = true /\ res s (ev_id e) = RNotRun /\ rank (ev_id e) < rank id) /\
    (forall j, j <> id -> res s' j <> res s j ->
       res s j = RNotRun /\ rank j < rank id /\ LocalOK s' j).

  Lemma Frame_refl id s : Frame id s s [].
  Proof.
    repeat split; try (now rewrite app_nil_r); try constructor; try contradiction; congruence.
  Qed.

  Lemma Frame_keeps id s s' new j :
    Frame id s s' new -> j <> id -> res s j <> RNotRun -> res s' j = res s j.
  Proof.
    intros (_ & _ & _ & H) Hj Hn.
    destruct (result_eq_dec (res s' j) (res s j)) as [E|E]; [exact E|].
    destruct (H j Hj E) as [E' _]. contradiction.
  Qed.
End Spec.
