(** Proofs about the runner model (Model/Runner.v). *)
From CSS Require Import Lib.Base Model.Runner.
From Coq Require Import Arith.
Local Open Scope nat_scope.

(** * classification *)

Lemma classify_pass o : classify o = RPass <-> o = o_pass.
Proof.
  destruct o as [[rc te] ie]; destruct rc, te, ie; cbn; split; intro H;
    try discriminate; try reflexivity; inversion H.
Qed.

Lemma classify_not_notrun o : classify o <> RNotRun.
Proof. destruct o as [[rc te] ie]; destruct rc, te, ie; cbn; discriminate. Qed.

Lemma classify_not_depfailed o : classify o <> RDepFailed.
Proof. destruct o as [[rc te] ie]; destruct rc, te, ie; cbn; discriminate. Qed.

Lemma is_pass_true r : is_pass r = true <-> r = RPass.
Proof. destruct r; cbn; split; intro H; try discriminate; reflexivity. Qed.

Lemma is_pass_false r : is_pass r = false <-> r <> RPass.
Proof. destruct r; cbn; split; intro H; try discriminate; try reflexivity; try congruence. Qed.

Lemma is_notrun_true r : is_notrun r = true <-> r = RNotRun.
Proof. destruct r; cbn; split; intro H; try discriminate; reflexivity. Qed.

Lemma is_notrun_false r : is_notrun r = false <-> r <> RNotRun.
Proof. destruct r; cbn; split; intro H; try discriminate; try reflexivity; try congruence. Qed.

Lemma result_eq_dec (a b : result) : {a = b} + {a <> b}.
Proof. decide equality. Qed.

Lemma upd_same {A} (f : nat -> A) i v : upd f i v i = v.
Proof. unfold upd. now rewrite Nat.eqb_refl. Qed.

Lemma upd_other {A} (f : nat -> A) i v j : j <> i -> upd f i v j = f j.
Proof. intro H. unfold upd. apply Nat.eqb_neq in H. now rewrite H. Qed.

Lemma res_set_checked_same s id a o : res (set_checked s id a o) id = classify o.
Proof. unfold set_checked. destruct o as [[rc te] ie]. cbn [res]. apply upd_same. Qed.

Lemma res_set_checked_other s id a o j : j <> id -> res (set_checked s id a o) j = res s j.
Proof. intro H. unfold set_checked. destruct o as [[rc te] ie]. cbn [res]. now apply upd_other. Qed.

Lemma trace_set_checked s id a o : trace (set_checked s id a o) = trace s ++ [mkEv id a o].
Proof. unfold set_checked. destruct o as [[rc te] ie]. reflexivity. Qed.

Lemma NoDup_app_intro {A} (l1 l2 : list A) :
  NoDup l1 -> NoDup l2 -> (forall x, In x l1 -> In x l2 -> False) -> NoDup (l1 ++ l2).
Proof.
  induction l1 as [|a l1 IH]; intros H1 H2 H; cbn; auto.
  inversion H1; subst. constructor.
  - intro X. apply in_app_or in X. destruct X as [X|X]; [contradiction|]. apply (H a); cbn; auto.
  - apply IH; auto. intros x X1 X2. apply (H x); cbn; auto.
Qed.

Section Spec.
  Variable ts : nat -> test.
  Variable chk : nat -> nat -> outcome3.
  (** the graph is acyclic: some rank decreases along every dependency edge *)
  Variable rank : nat -> nat.
  Hypothesis Hrank : forall id d, In d (deps (ts id)) -> rank d < rank id.

  Definition deps_done (s : state) (j : nat) : Prop :=
    forall d, In d (deps (ts j)) -> implemented (ts d) = true -> res s d <> RNotRun.
  Definition deps_pass (s : state) (j : nat) : Prop :=
    forall d, In d (deps (ts j)) -> implemented (ts d) = true -> res s d = RPass.
  Definition dep_fails (s : state) (j : nat) : Prop :=
    exists d, In d (deps (ts j)) /\ implemented (ts d) = true /\ res s d <> RPass.

  (** the stored result of [j] is explained by the stored results of its dependencies *)
  Definition LocalOK (s : state) (j : nat) : Prop :=
    deps_done s j /\
    ((res s j = RDepFailed /\ dep_fails s j) \/
     (exists n, res s j = classify (chk j n) /\ deps_pass s j)).

  Lemma LocalOK_ext s s' j :
    res s' j = res s j ->
    (forall d, In d (deps (ts j)) -> implemented (ts d) = true -> res s' d = res s d) ->
    LocalOK s j -> LocalOK s' j.
  Proof.
    intros Hj Hd [Hdone H]. split.
    - intros d Hin Himp. rewrite (Hd d Hin Himp). now apply Hdone.
    - destruct H as [[Hr [d [Hin [Himp Hnp]]]] | [n [Hr Hp]]].
      + left. split; [congruence|]. exists d. rewrite (Hd d Hin Himp). auto.
      + right. exists n. split; [congruence|]. intros d Hin Himp. rewrite (Hd d Hin Himp). now apply Hp.
  Qed.

  (** ** what one (possibly nested) computation under top-level test [id] does
      to everything except [id] itself *)
  Definition Frame (id : nat) (s s' : state) (new : list event) : Prop :=
    trace s' = trace s ++ new /\
    NoDup (map ev_id new) /\
    (forall e, In e new ->
       (exists n, ev_out e = chk (ev_id e) n) /\ res s' (ev_id e) <> RNotRun /\
       ev_dep e = true /\ res s (ev_id e) = RNotRun /\ rank (ev_id e) < rank id) /\
    (forall j, j <> id -> res s' j <> res s j ->
       res s j = RNotRun /\ rank j < rank id /\ implemented (ts j) = true /\ LocalOK s' j).

  Lemma Frame_refl id s : Frame id s s [].
  Proof.
    repeat split; try (now rewrite app_nil_r); try constructor; try contradiction; congruence.
  Qed.

  Lemma Frame_keeps id s s' new j :
    Frame id s s' new -> j <> id -> res s j <> RNotRun -> res s' j = res s j.
  Proof.
    intros (_ & _ & _ & H) Hj Hn.
    destruct (result_eq_dec (res s' j) (res s j)) as [E|E]; [exact E|].
    destruct (H j Hj E) as [E' _]. contradiction.
  Qed.

  Lemma Frame_keeps_notimpl id s s' new j :
    Frame id s s' new -> j <> id -> implemented (ts j) = false -> res s' j = res s j.
  Proof.
    intros (_ & _ & _ & H) Hj Hn.
    destruct (result_eq_dec (res s' j) (res s j)) as [E|E]; [exact E|].
    destruct (H j Hj E) as (_ & _ & E' & _). congruence.
  Qed.

  Lemma Frame_mono id s s' new j :
    Frame id s s' new -> j <> id -> res s' j = RNotRun -> res s j = RNotRun.
  Proof.
    intros HF Hj Hn.
    destruct (result_eq_dec (res s j) RNotRun) as [E|E]; [exact E|].
    rewrite (Frame_keeps _ _ _ _ _ HF Hj E) in Hn. contradiction.
  Qed.

  Lemma Frame_trans id s s1 s2 n1 n2 :
    Frame id s s1 n1 -> Frame id s1 s2 n2 -> Frame id s s2 (n1 ++ n2).
  Proof.
    intros F1 F2.
    pose proof F1 as (T1 & D1 & E1 & C1). pose proof F2 as (T2 & D2 & E2 & C2).
    assert (Hne : forall e, In e n1 -> ev_id e <> id).
    { intros e He. destruct (E1 e He) as (_ & _ & _ & _ & Hr). intro X. rewrite X in Hr. lia. }
    split; [|split; [|split]].
    - rewrite T2, T1. now rewrite app_assoc.
    - rewrite map_app. apply NoDup_app_intro; auto.
      intros x H1 H2. apply in_map_iff in H1. destruct H1 as [e1 [X1 I1]].
      apply in_map_iff in H2. destruct H2 as [e2 [X2 I2]]. subst x.
      destruct (E1 e1 I1) as (_ & Hnr & _). destruct (E2 e2 I2) as (_ & _ & _ & Hr & _).
      rewrite X2 in Hr. contradiction.
    - intros e He. apply in_app_or in He. destruct He as [He|He].
      + destruct (E1 e He) as (A & B & C & D & R). repeat split; auto.
        rewrite (Frame_keeps _ _ _ _ _ F2 (Hne e He) B). exact B.
      + destruct (E2 e He) as (A & B & C & D & R). repeat split; auto.
        apply (Frame_mono _ _ _ _ _ F1); auto. intro X. rewrite X in R. lia.
    - intros j Hj Hch.
      destruct (result_eq_dec (res s1 j) (res s j)) as [E|E].
      + rewrite <- E in Hch. destruct (C2 j Hj Hch) as (A & B & I & L). rewrite E in A. auto.
      + destruct (C1 j Hj E) as (A & B & I & L). split; [exact A|]. split; [exact B|]. split; [exact I|].
        destruct (result_eq_dec (res s2 j) (res s1 j)) as [E2'|E2'].
        * apply (LocalOK_ext s1); auto.
          intros d Hin Himp.
          assert (d <> id) by (intro Y; subst d; specialize (Hrank _ _ Hin); lia).
          apply (Frame_keeps _ _ _ _ _ F2); auto.
          destruct L as [Hdone _]. now apply Hdone.
        * destruct (C2 j Hj E2') as (_ & _ & _ & L2). exact L2.
  Qed.

  (** ** specification of one [run] *)
  Definition EvOK (s s' : state) (id : nat) (asdep : bool) (e : event) : Prop :=
    (exists n, ev_out e = chk (ev_id e) n) /\ res s' (ev_id e) <> RNotRun /\
    ((ev_id e = id /\ ev_dep e = asdep) \/
     (ev_dep e = true /\ res s (ev_id e) = RNotRun /\ rank (ev_id e) < rank id)).

  Definition RunSpec (asdep : bool) (s : state) (id : nat) (s' : state) : Prop :=
    exists new,
      trace s' = trace s ++ new /\
      NoDup (map ev_id new) /\
      (forall e, In e new -> EvOK s s' id asdep e) /\
      (forall j, j <> id -> res s' j <> res s j ->
         res s j = RNotRun /\ rank j < rank id /\ implemented (ts j) = true /\ LocalOK s' j) /\
      LocalOK s' id /\
      ((exists o, res s' id = classify o /\ In (mkEv id asdep o) new) \/
       (res s' id = RDepFailed /\ forall e, In e new -> ev_id e <> id)).

  Lemma RunSpec_done a s id s' : RunSpec a s id s' -> res s' id <> RNotRun.
  Proof.
    intros (new & _ & _ & _ & _ & _ & [[o [H _]]|[H _]]); rewrite H.
    - apply classify_not_notrun.
    - discriminate.
  Qed.

  Lemma Frame_of_run s d s1 id :
    RunSpec true s d s1 -> res s d = RNotRun -> rank d < rank id -> implemented (ts d) = true ->
    (exists new, Frame id s s1 new) /\ res s1 id = res s id.
  Proof.
    intros HR Hn Hr Hi. pose proof (RunSpec_done _ _ _ _ HR) as Hdone.
    destruct HR as (new & T & D & E & C & L & P). split.
    - exists new. split; [exact T|]. split; [exact D|]. split.
      + intros e He. destruct (E e He) as (A & B & [[X Y]|(X & Y & Z)]).
        * rewrite X. repeat split; auto. now rewrite <- X.
        * repeat split; auto. lia.
      + intros j Hj Hch. destruct (Nat.eq_dec j d) as [->|Hjd].
        * repeat split; auto; apply L.
        * destruct (C j Hjd Hch) as (A & B & I & L'). repeat split; auto; try lia; apply L'.
    - destruct (result_eq_dec (res s1 id) (res s id)) as [X|X]; [exact X|].
      assert (id <> d) by (intro Y; subst; lia).
      destruct (C id H X) as (_ & B & _). lia.
  Qed.

  Lemma Frame_setdep id s d : Frame id s (set_depfailed s id d) [].
  Proof.
    split; [cbn; now rewrite app_nil_r|]. split; [constructor|]. split; [intros e []|].
    intros j Hj Hch. exfalso. apply Hch. cbn. now apply upd_other.
  Qed.

  Definition RunfOK (runf : state -> nat -> option state) (id : nat) : Prop :=
    forall s d s', rank d < rank id -> runf s d = Some s' -> RunSpec true s d s'.

  Lemma loop_spec runf id : RunfOK runf id ->
    forall ds s ok s' ok',
      (forall d, In d ds -> rank d < rank id) ->
      deps_loop ts runf id ds s ok = Some (s', ok') ->
      exists new, Frame id s s' new /\
        (res s' id = res s id \/ res s' id = RDepFailed) /\
        (ok' = true -> ok = true /\ res s' id = res s id) /\
        (forall d, In d ds -> implemented (ts d) = true ->
           res s' d <> RNotRun /\ (ok' = true -> res s' d = RPass)) /\
        (ok' = false -> ok = false \/
           (res s' id = RDepFailed /\ exists d, In d ds /\ implemented (ts d) = true /\ res s' d <> RPass)).
  Proof.
    intros Hrunf. induction ds as [|d ds IH]; intros s ok s' ok' Hds Hl.
    - cbn in Hl. inversion Hl; subst. exists []. split; [apply Frame_refl|].
      repeat split; auto; try contradiction.
    - cbn [deps_loop] in Hl.
      assert (Hds' : forall d0, In d0 ds -> rank d0 < rank id) by (intros; apply Hds; now right).
      assert (Hdr : rank d < rank id) by (apply Hds; now left).
      assert (Hdid : d <> id) by (intro X; subst; lia).
      destruct (is_notimpl (stat (ts d))) eqn:Hni.
      + destruct (IH _ _ _ _ Hds' Hl) as (new & F & I1 & I2 & I3 & I4).
        exists new. split; [exact F|]. split; [exact I1|]. split; [exact I2|]. split.
        * intros d0 [<-|Hin] Hi0; [|now apply I3].
          unfold implemented in Hi0. rewrite Hni in Hi0. discriminate.
        * intro Hf. destruct (I4 Hf) as [X|(X & d0 & Y & Z)]; [now left|right].
          split; auto. exists d0. split; [now right|exact Z].
      + assert (Himp : implemented (ts d) = true) by (unfold implemented; now rewrite Hni).
        (* running the dependency when it has no result yet *)
        assert (Hstep : forall s1, (if is_notrun (res s d) then runf s d else Some s) = Some s1 ->
                  (exists n1, Frame id s s1 n1) /\ res s1 id = res s id /\ res s1 d <> RNotRun).
        { intros s1 H1. destruct (is_notrun (res s d)) eqn:Hnr.
          - apply is_notrun_true in Hnr. pose proof (Hrunf _ _ _ Hdr H1) as HR.
            destruct (Frame_of_run _ _ _ id HR Hnr Hdr Himp) as [X Y]. split; [exact X|]. split; [exact Y|].
            apply (RunSpec_done _ _ _ _ HR).
          - inversion H1; subst. split; [exists []; apply Frame_refl|]. split; auto.
            now apply is_notrun_false. }
        destruct (if is_notrun (res s d) then runf s d else Some s) as [s1|] eqn:H1; [|discriminate].
        destruct (Hstep s1 eq_refl) as ([n1 F1] & Hid1 & Hd1).
        destruct (is_pass (res s1 d)) eqn:Hp.
        * apply is_pass_true in Hp.
          destruct (IH _ _ _ _ Hds' Hl) as (n2 & F2 & I1 & I2 & I3 & I4).
          exists (n1 ++ n2). split; [eapply Frame_trans; eauto|].
          assert (Hd' : res s' d = RPass).
          { rewrite (Frame_keeps _ _ _ _ _ F2 Hdid Hd1). exact Hp. }
          split; [rewrite <- Hid1; exact I1|].
          split; [intro X; destruct (I2 X); split; auto; congruence|].
          split.
          -- intros d0 [<-|Hin] Hi0; [|now apply I3].
             split; [rewrite Hd'; discriminate|auto].
          -- intro Hf. destruct (I4 Hf) as [X|(X & d0 & Y & Z)]; [now left|right].
             split; auto. exists d0. split; [now right|exact Z].
        * apply is_pass_false in Hp.
          pose proof (Frame_setdep id s1 d) as Fs.
          destruct (IH _ _ _ _ Hds' Hl) as (n2 & F2 & I1 & I2 & I3 & I4).
          assert (F12 : Frame id s s' (n1 ++ n2)).
          { eapply Frame_trans; [|exact F2]. rewrite <- (app_nil_r n1). eapply Frame_trans; eauto. }
          exists (n1 ++ n2). split; [exact F12|].
          assert (Hid2 : res (set_depfailed s1 id d) id = RDepFailed) by (cbn; apply upd_same).
          assert (Hidf : res s' id = RDepFailed) by (destruct I1 as [X|X]; congruence).
          assert (Hokf : ok' = false).
          { destruct ok'; auto. destruct (I2 eq_refl). discriminate. }
          assert (Hd2 : res (set_depfailed s1 id d) d = res s1 d) by (cbn; now apply upd_other).
          assert (Hd' : res s' d = res s1 d).
          { rewrite (Frame_keeps _ _ _ _ _ F2 Hdid); rewrite Hd2; auto. }
          split; [now right|].
          split; [intro X; congruence|].
          split.
          -- intros d0 [<-|Hin] Hi0; [|now apply I3].
             split; [congruence|intro X; congruence].
          -- intros _. right. split; auto. exists d. split; [now left|]. split; auto. congruence.
  Qed.

  Lemma run_spec : forall fuel asdep s id s',
      run ts chk fuel asdep s id = Some s' -> RunSpec asdep s id s'.
  Proof.
    induction fuel as [|f IH]; intros asdep s id s' H; [discriminate|].
    cbn [run] in H.
    destruct (deps_loop ts (run ts chk f true) id (deps (ts id)) s true) as [[s1 ok']|] eqn:Hl; [|discriminate].
    assert (Hrf : RunfOK (run ts chk f true) id) by (intros s0 d s0' _ H0; now apply IH).
    destruct (loop_spec _ id Hrf _ _ _ _ _ (fun d Hd => Hrank id d Hd) Hl) as (new & F & I1 & I2 & I3 & I4).
    pose proof F as (T & D & E & C).
    assert (Hnid : forall e, In e new -> ev_id e <> id).
    { intros e He X. destruct (E e He) as (_ & _ & _ & _ & R). rewrite X in R. lia. }
    assert (Hdep : forall j d, rank j <= rank id -> In d (deps (ts j)) -> d <> id).
    { intros j d Hj Hin X. subst d. specialize (Hrank _ _ Hin). lia. }
    destruct ok'.
    - inversion H; subst s'; clear H.
      set (o := chk id (evals id (trace s1))).
      destruct (I2 eq_refl) as [_ Hid].
      exists (new ++ [mkEv id asdep o]).
      split; [rewrite trace_set_checked, T, app_assoc; reflexivity|].
      split.
      { rewrite map_app. apply NoDup_app_intro; auto.
        - cbn. constructor; [intros []|constructor].
        - intros x H1 [<-|[]]. apply in_map_iff in H1. destruct H1 as [e [X Y]]. exact (Hnid e Y X). }
      split.
      { intros e He. apply in_app_or in He. destruct He as [He|[<-|[]]].
        - destruct (E e He) as (A & B & Cc & Dd & R). split; [exact A|]. split.
          + rewrite res_set_checked_other; auto.
          + right; auto.
        - cbn. split; [exists (evals id (trace s1)); reflexivity|]. split.
          + rewrite res_set_checked_same. apply classify_not_notrun.
          + left; auto. }
      split.
      { intros j Hj Hch. rewrite res_set_checked_other in Hch by auto.
        destruct (C j Hj Hch) as (A & B & I & L). split; [exact A|]. split; [exact B|]. split; [exact I|].
        apply (LocalOK_ext s1); auto.
        - now apply res_set_checked_other.
        - intros d Hin _. apply res_set_checked_other. apply (Hdep j); auto. lia. }
      split.
      { split.
        - intros d Hin Hi. rewrite res_set_checked_other by (apply (Hdep id); auto). now apply I3.
        - right. exists (evals id (trace s1)). split; [apply res_set_checked_same|].
          intros d Hin Hi. rewrite res_set_checked_other by (apply (Hdep id); auto). now apply I3. }
      left. exists o. split; [apply res_set_checked_same|]. apply in_or_app. right. now left.
    - inversion H; subst s'; clear H.
      destruct (I4 eq_refl) as [X|(X & d & Hin & Hi & Hnp)]; [discriminate|].
      exists new. split; [exact T|]. split; [exact D|]. split.
      { intros e He. destruct (E e He) as (A & B & Cc & Dd & R). split; [exact A|]. split; [exact B|]. right; auto. }
      split; [exact C|]. split.
      { split.
        - intros d0 Hin0 Hi0. now apply I3.
        - left. split; auto. exists d. auto. }
      right. split; auto.
  Qed.

  Lemma NoDup_map_inj {A B} (f : A -> B) (l : list A) a b :
    NoDup (map f l) -> In a l -> In b l -> f a = f b -> a = b.
  Proof.
    induction l as [|x l IH]; cbn; intros Hn Ha Hb E; [contradiction|].
    inversion Hn; subst.
    destruct Ha as [<-|Ha], Hb as [<-|Hb]; auto.
    - exfalso. apply H1. rewrite E. now apply in_map.
    - exfalso. apply H1. rewrite <- E. now apply in_map.
  Qed.

  Lemma NoDup_map_filter {A B} (f : A -> B) (p : A -> bool) (l : list A) :
    NoDup (map f l) -> NoDup (map f (filter p l)).
  Proof.
    induction l as [|x l IH]; cbn; intro Hn; [constructor|].
    inversion Hn; subst. destruct (p x); cbn; auto.
    constructor; auto. intro X. apply H1. apply in_map_iff in X. destruct X as [y [E Y]].
    apply filter_In in Y. rewrite <- E. apply in_map. apply Y.
  Qed.

  (** ** the clauses of the property for one call of Test.Run
      (any initial results, any time-varying checks) *)

  Theorem pass_iff fuel asdep s id s' new :
    run ts chk fuel asdep s id = Some s' -> trace s' = trace s ++ new ->
    (res s' id = RPass <->
     In (mkEv id asdep o_pass) new /\
     forall d, In d (deps (ts id)) -> implemented (ts d) = true -> res s' d = RPass).
  Proof.
    intros H T. destruct (run_spec _ _ _ _ _ H) as (new0 & T0 & D & E & C & [Hdone L] & P).
    rewrite T0 in T. apply app_inv_head in T. subst new0.
    destruct P as [[o [Hr Hin]]|[Hr Hno]].
    - assert (Hp : deps_pass s' id).
      { destruct L as [[X _]|[n [_ X]]]; auto. rewrite Hr in X. now apply classify_not_depfailed in X. }
      split.
      + intro X. rewrite Hr in X. apply classify_pass in X. subst o. split; auto.
      + intros [X _]. assert (Y : mkEv id asdep o_pass = mkEv id asdep o) by (eapply NoDup_map_inj; eauto).
        inversion Y; subst o. rewrite Hr. reflexivity.
    - split; [rewrite Hr; discriminate|]. intros [X _]. exfalso. exact (Hno _ X eq_refl).
  Qed.

  Theorem dep_blocks fuel asdep s id s' new d :
    run ts chk fuel asdep s id = Some s' -> trace s' = trace s ++ new ->
    In d (deps (ts id)) -> implemented (ts d) = true -> res s' d <> RPass ->
    res s' id = RDepFailed /\ forall e, In e new -> ev_id e <> id.
  Proof.
    intros H T Hin Hi Hnp. destruct (run_spec _ _ _ _ _ H) as (new0 & T0 & D & E & C & [Hdone L] & P).
    rewrite T0 in T. apply app_inv_head in T. subst new0.
    destruct P as [[o [Hr Hino]]|[Hr Hno]]; [|auto].
    exfalso. destruct L as [[X _]|[n [_ X]]].
    - rewrite Hr in X. now apply classify_not_depfailed in X.
    - apply Hnp. now apply X.
  Qed.

  Theorem once_per_call fuel asdep s id s' new :
    run ts chk fuel asdep s id = Some s' -> trace s' = trace s ++ new -> NoDup (map ev_id new).
  Proof.
    intros H T. destruct (run_spec _ _ _ _ _ H) as (new0 & T0 & D & _).
    rewrite T0 in T. apply app_inv_head in T. now subst new0.
  Qed.

  Lemma run_keeps fuel asdep s id s' j :
    run ts chk fuel asdep s id = Some s' -> j <> id -> res s j <> RNotRun -> res s' j = res s j.
  Proof.
    intros H Hj Hn. destruct (run_spec _ _ _ _ _ H) as (new & _ & _ & _ & C & _).
    destruct (result_eq_dec (res s' j) (res s j)) as [X|X]; [exact X|].
    destruct (C j Hj X) as [Y _]. contradiction.
  Qed.

  Lemma run_mono fuel asdep s id s' j :
    run ts chk fuel asdep s id = Some s' -> res s j <> RNotRun -> res s' j <> RNotRun.
  Proof.
    intros H Hn. destruct (Nat.eq_dec j id) as [->|Hj].
    - apply (RunSpec_done asdep s). now apply (run_spec fuel).
    - rewrite (run_keeps _ _ _ _ _ _ H Hj Hn). exact Hn.
  Qed.

  (** ** a whole run: every listed test through Test.Run, in any order, with
      repetitions, from any initial results *)
  Lemma run_list_spec : forall order fuel s s' rs,
      run_list ts chk fuel s order = Some (s', rs) ->
      exists new, trace s' = trace s ++ new /\
        NoDup (map ev_id (filter ev_dep new)) /\
        (forall e, In e new -> ev_dep e = true -> res s (ev_id e) = RNotRun) /\
        (forall e, In e new -> res s' (ev_id e) <> RNotRun) /\
        (forall j, res s j <> RNotRun -> res s' j <> RNotRun).
  Proof.
    induction order as [|i rest IH]; intros fuel s s' rs H.
    - cbn in H. inversion H; subst. exists []. rewrite app_nil_r. repeat split; auto; try constructor; contradiction.
    - cbn [run_list] in H.
      destruct (run ts chk fuel false s i) as [s1|] eqn:H1; [|discriminate].
      destruct (run_list ts chk fuel s1 rest) as [[s2 rs2]|] eqn:H2; [|discriminate].
      inversion H; subst s' rs; clear H.
      destruct (IH _ _ _ _ H2) as (n2 & T2 & D2 & A2 & B2 & M2).
      destruct (run_spec _ _ _ _ _ H1) as (n1 & T1 & D1 & E1 & _).
      exists (n1 ++ n2). split; [rewrite T2, T1, app_assoc; reflexivity|].
      assert (A1 : forall e, In e n1 -> ev_dep e = true -> res s (ev_id e) = RNotRun).
      { intros e He Hd. destruct (E1 e He) as (_ & _ & [[_ X]|(_ & X & _)]); [congruence|exact X]. }
      assert (B1 : forall e, In e n1 -> res s1 (ev_id e) <> RNotRun).
      { intros e He. now destruct (E1 e He) as (_ & X & _). }
      split.
      { rewrite filter_app, map_app. apply NoDup_app_intro; auto.
        - now apply NoDup_map_filter.
        - intros x X1 X2. apply in_map_iff in X1. destruct X1 as [e1 [Y1 Z1]].
          apply in_map_iff in X2. destruct X2 as [e2 [Y2 Z2]]. subst x.
          apply filter_In in Z1. apply filter_In in Z2.
          apply (B1 e1); [apply Z1|]. rewrite <- Y2. apply A2; apply Z2. }
      split.
      { intros e He Hd. apply in_app_or in He. destruct He as [He|He]; [now apply A1|].
        destruct (result_eq_dec (res s (ev_id e)) RNotRun) as [X|X]; [exact X|].
        exfalso. apply (run_mono _ _ _ _ _ _ H1 X). now apply A2. }
      split.
      { intros e He. apply in_app_or in He. destruct He as [He|He]; [|now apply B2].
        apply M2. now apply B1. }
      intros j Hj. apply M2. now apply (run_mono _ _ _ _ _ _ H1).
  Qed.

  Theorem dep_once fuel s order s' rs new :
    run_list ts chk fuel s order = Some (s', rs) -> trace s' = trace s ++ new ->
    NoDup (map ev_id (filter ev_dep new)).
  Proof.
    intros H T. destruct (run_list_spec _ _ _ _ _ H) as (new0 & T0 & D & _).
    rewrite T0 in T. apply app_inv_head in T. now subst new0.
  Qed.

  (** ** deterministic checks: a verdict, once stored, never changes, and the
      stored results always explain each other *)
  Definition Inv (s : state) : Prop := forall j, res s j <> RNotRun -> LocalOK s j.

  Lemma Inv_init : Inv init_state.
  Proof. intros j H. cbn in H. congruence. Qed.

  Lemma run_stable fuel asdep s id s' :
    deterministic chk -> Inv s -> run ts chk fuel asdep s id = Some s' ->
    (forall j, res s j <> RNotRun -> res s' j = res s j) /\ Inv s'.
  Proof.
    intros Hdet HI H. pose proof (run_spec _ _ _ _ _ H) as (new & _ & _ & _ & C & L & _).
    assert (Hdepk : forall d, In d (deps (ts id)) -> res s d <> RNotRun -> res s' d = res s d).
    { intros d Hin Hn. apply (run_keeps _ _ _ _ _ _ H); auto.
      intro X. subst d. specialize (Hrank _ _ Hin). lia. }
    assert (Hid : res s id <> RNotRun -> res s' id = res s id).
    { intro Hn. destruct (HI id Hn) as [Hdone [[Hr [d [Hin [Hi Hnp]]]]|[n [Hr Hp]]]].
      - destruct L as [_ [[X _]|[n [_ X]]]]; [congruence|].
        exfalso. apply Hnp. rewrite <- (Hdepk d Hin (Hdone d Hin Hi)). now apply X.
      - destruct L as [_ [[_ [d [Hin [Hi Hnp]]]]|[n' [X _]]]].
        + exfalso. apply Hnp. rewrite (Hdepk d Hin (Hdone d Hin Hi)). now apply Hp.
        + rewrite X, Hr. now rewrite (Hdet id n' n). }
    assert (Hall : forall j, res s j <> RNotRun -> res s' j = res s j).
    { intros j Hn. destruct (Nat.eq_dec j id) as [->|Hj]; [now apply Hid|].
      now apply (run_keeps _ _ _ _ _ _ H). }
    split; [exact Hall|].
    intros j Hn. destruct (Nat.eq_dec j id) as [->|Hj]; [exact L|].
    destruct (result_eq_dec (res s' j) (res s j)) as [X|X].
    - rewrite X in Hn. apply (LocalOK_ext s); auto.
      intros d Hin Hi. apply Hall. destruct (HI j Hn) as [Hdone _]. now apply Hdone.
    - destruct (C j Hj X) as (_ & _ & _ & Y). exact Y.
  Qed.

  Lemma run_list_stable : forall order fuel s s' rs,
      deterministic chk -> Inv s -> run_list ts chk fuel s order = Some (s', rs) ->
      (forall j, res s j <> RNotRun -> res s' j = res s j) /\ Inv s'.
  Proof.
    induction order as [|i rest IH]; intros fuel s s' rs Hdet HI H.
    - cbn in H. inversion H; subst. auto.
    - cbn [run_list] in H.
      destruct (run ts chk fuel false s i) as [s1|] eqn:H1; [|discriminate].
      destruct (run_list ts chk fuel s1 rest) as [[s2 rs2]|] eqn:H2; [|discriminate].
      inversion H; subst s' rs; clear H.
      destruct (run_stable _ _ _ _ _ Hdet HI H1) as [K1 I1].
      destruct (IH _ _ _ _ Hdet I1 H2) as [K2 I2]. split; auto.
      intros j Hn. rewrite K2; [now apply K1|]. rewrite K1; auto.
  Qed.

  Theorem final_consistent fuel order s' rs j :
    deterministic chk -> run_list ts chk fuel init_state order = Some (s', rs) ->
    res s' j <> RNotRun ->
    (res s' j = RPass <->
       classify (chk j 0) = RPass /\
       forall d, In d (deps (ts j)) -> implemented (ts d) = true -> res s' d = RPass)
    /\ ((exists d, In d (deps (ts j)) /\ implemented (ts d) = true /\ res s' d <> RPass) ->
        res s' j = RDepFailed).
  Proof.
    intros Hdet H Hn. destruct (run_list_stable _ _ _ _ _ Hdet Inv_init H) as [_ HI].
    destruct (HI j Hn) as [Hdone [[Hr [d [Hin [Hi Hnp]]]]|[n [Hr Hp]]]].
    - split; [|auto]. split; [congruence|]. intros [_ X]. exfalso. apply Hnp. now apply X.
    - rewrite (Hdet j n 0) in Hr. split.
      + split; [intro X; split; [congruence|exact Hp]|]. intros [X _]. congruence.
      + intros [d [Hin [Hi Hnp]]]. exfalso. apply Hnp. now apply Hp.
  Qed.

  Theorem verdict_stable fuel o1 o2 s1 rs1 s2 rs2 j :
    deterministic chk ->
    run_list ts chk fuel init_state o1 = Some (s1, rs1) ->
    run_list ts chk fuel s1 o2 = Some (s2, rs2) ->
    res s1 j <> RNotRun -> res s2 j = res s1 j.
  Proof.
    intros Hdet H1 H2 Hn. destruct (run_list_stable _ _ _ _ _ Hdet Inv_init H1) as [_ I1].
    destruct (run_list_stable _ _ _ _ _ Hdet I1 H2) as [K _]. now apply K.
  Qed.

  (** ** RunTestsSilent *)
  Lemma run_silent_frame : forall order fuel s s' r,
      run_silent ts chk fuel s order = Some (s', r) ->
      forall j, ~ In j order -> res s j <> RNotRun -> res s' j = res s j.
  Proof.
    induction order as [|i rest IH]; intros fuel s s' r H j Hj Hn.
    - cbn in H. inversion H; subst. reflexivity.
    - cbn [run_silent] in H.
      destruct (run ts chk fuel false s i) as [s1|] eqn:H1; [|discriminate].
      assert (Hji : j <> i) by (intro X; apply Hj; now left).
      assert (Hjr : ~ In j rest) by (intro X; apply Hj; now right).
      pose proof (run_keeps _ _ _ _ _ _ H1 Hji Hn) as K1.
      assert (Hn1 : res s1 j <> RNotRun) by congruence.
      destruct (negb (run_ret s1 i) && required (ts i)).
      + destruct (is_notimpl (stat (ts i))).
        * rewrite (IH _ _ _ _ H j Hjr Hn1). exact K1.
        * destruct (is_interr (res s1 i)); inversion H; subst; exact K1.
      + rewrite (IH _ _ _ _ H j Hjr Hn1). exact K1.
  Qed.

  Theorem silent_sound : forall order fuel s s',
      run_silent ts chk fuel s order = Some (s', SOk) ->
      forall i, In i order -> required (ts i) = true -> implemented (ts i) = true -> res s' i = RPass.
  Proof.
    induction order as [|i0 rest IH]; intros fuel s s' H i Hin Hreq Himp; [contradiction|].
    cbn [run_silent] in H.
    destruct (run ts chk fuel false s i0) as [s1|] eqn:H1; [|discriminate].
    destruct (in_dec Nat.eq_dec i rest) as [Hir|Hir].
    - destruct (negb (run_ret s1 i0) && required (ts i0)).
      + destruct (is_notimpl (stat (ts i0))).
        * eapply IH; eauto.
        * destruct (is_interr (res s1 i0)); discriminate.
      + eapply IH; eauto.
    - destruct Hin as [->|Hin]; [|contradiction].
      unfold implemented in Himp. apply Bool.negb_true_iff in Himp.
      rewrite Hreq, Himp, Bool.andb_true_r in H.
      destruct (run_ret s1 i) eqn:Hret; cbn [negb] in H.
      + unfold run_ret in Hret. apply is_pass_true in Hret.
        rewrite (run_silent_frame _ _ _ _ _ H i Hir); [exact Hret|congruence].
      + destruct (is_interr (res s1 i)); discriminate.
  Qed.

  (** ** termination on acyclic graphs *)
  Lemma loop_total runf id : forall ds,
      (forall s d, In d ds -> exists s', runf s d = Some s') ->
      forall s ok, exists r, deps_loop ts runf id ds s ok = Some r.
  Proof.
    induction ds as [|d ds IH]; intros Hr s ok; cbn [deps_loop]; [eauto|].
    assert (Hr' : forall s d0, In d0 ds -> exists s', runf s d0 = Some s') by (intros; apply Hr; now right).
    destruct (is_notimpl (stat (ts d))); [now apply IH|].
    assert (X : exists s1, (if is_notrun (res s d) then runf s d else Some s) = Some s1).
    { destruct (is_notrun (res s d)); [apply Hr; now left|eauto]. }
    destruct X as [s1 ->]. destruct (is_pass (res s1 d)); now apply IH.
  Qed.

  Theorem run_total : forall fuel id, rank id < fuel ->
      forall asdep s, exists s', run ts chk fuel asdep s id = Some s'.
  Proof.
    induction fuel as [|f IH]; intros id Hlt asdep s; [lia|].
    cbn [run].
    destruct (loop_total (run ts chk f true) id (deps (ts id))) with (s := s) (ok := true) as [[s1 ok'] ->].
    - intros s0 d Hin. apply IH. specialize (Hrank _ _ Hin). lia.
    - destruct ok'; eauto.
  Qed.
End Spec.

(** * a test whose implemented dependencies are all stored as PASS: Test.Run
    enters no dependency and evaluates exactly the check of the test itself.
    No acyclicity is needed (no dependency is entered), any stored results, any
    fuel above zero. *)
Section Prefilled.
  Variable ts : nat -> test.
  Variable chk : nat -> nat -> outcome3.

  Lemma deps_loop_prefilled runf id : forall ds s,
      (forall d, In d ds -> implemented (ts d) = true -> res s d = RPass) ->
      deps_loop ts runf id ds s true = Some (s, true).
  Proof.
    induction ds as [|d ds IH]; intros s H; cbn [deps_loop]; [reflexivity|].
    destruct (is_notimpl (stat (ts d))) eqn:E.
    - apply IH. intros x Hx. apply H. now right.
    - assert (P : res s d = RPass).
      { apply H; [now left|]. unfold implemented. now rewrite E. }
      rewrite P. cbn [is_notrun]. rewrite P. cbn [is_pass]. apply IH. intros x Hx. apply H. now right.
  Qed.

  Lemma run_prefilled fuel asdep s id :
      (forall d, In d (deps (ts id)) -> implemented (ts d) = true -> res s d = RPass) ->
      run ts chk (S fuel) asdep s id = Some (set_checked s id asdep (chk id (evals id (trace s)))).
  Proof.
    intro H. cbn [run]. now rewrite (deps_loop_prefilled _ _ _ _ H).
  Qed.

  Theorem prefilled_check_alone fuel asdep s id :
      (forall d, In d (deps (ts id)) -> implemented (ts d) = true -> res s d = RPass) ->
      let o := chk id (evals id (trace s)) in
      exists s', run ts chk (S fuel) asdep s id = Some s' /\
        trace s' = trace s ++ [mkEv id asdep o] /\
        res s' id = classify o /\
        (res s' id = RPass <-> o = o_pass) /\
        (forall j, j <> id -> res s' j = res s j).
  Proof.
    intros H o. exists (set_checked s id asdep o). split; [now apply run_prefilled|].
    split; [apply trace_set_checked|]. split; [apply res_set_checked_same|].
    split; [rewrite res_set_checked_same; apply classify_pass|].
    intros j Hj. now apply res_set_checked_other.
  Qed.
End Prefilled.

(** * dependency cycles: the model answers [None] for every fuel (the Go code
    recurses until the stack is exhausted) *)
Definition cyc1 : nat -> test := fun _ => mkTest true Implemented [0].

Lemma run_cycle_diverges chk : forall fuel a s, res s 0 = RNotRun -> run cyc1 chk fuel a s 0 = None.
Proof.
  induction fuel as [|f IH]; intros a s H; [reflexivity|].
  cbn [run deps cyc1 deps_loop stat is_notimpl]. rewrite H. cbn [is_notrun]. now rewrite IH.
Qed.

Definition cyc2 : nat -> test := fun i => match i with O => mkTest true Implemented [1] | _ => mkTest true Implemented [0] end.

Lemma run_cycle2_diverges chk : forall fuel a s, res s 0 = RNotRun -> res s 1 = RNotRun ->
    run cyc2 chk fuel a s 0 = None /\ run cyc2 chk fuel a s 1 = None.
Proof.
  induction fuel as [|f IH]; intros a s H0 H1; [split; reflexivity|].
  destruct (IH true s H0 H1) as [A B].
  split; cbn [run deps cyc2 deps_loop stat is_notimpl].
  - rewrite H1. cbn [is_notrun]. now rewrite B.
  - rewrite H0. cbn [is_notrun]. now rewrite A.
Qed.

(** * witnesses *)
Definition ts2 : nat -> test :=
  fun i => match i with O => mkTest true Implemented [1] | _ => mkTest false Implemented [] end.
Definition rank2 : nat -> nat := fun i => match i with O => 1 | _ => 0 end.

Lemma ts2_acyclic : forall id d, In d (deps (ts2 id)) -> rank2 d < rank2 id.
Proof. intros [|id] d; cbn; [intros [<-|[]]; cbn; lia|intros []]. Qed.

Definition chk_pass : nat -> nat -> outcome3 := fun _ _ => o_pass.
(** test 1 passes the first time it is evaluated and fails afterwards *)
Definition chk_flip : nat -> nat -> outcome3 :=
  fun id n => match id, n with 1, S _ => (false, false, false) | _, _ => o_pass end.

Lemma rerun_witness :
  exists s' rs, run_list ts2 chk_pass 3 init_state [0; 1] = Some (s', rs) /\ evals 1 (trace s') = 2.
Proof. eexists. eexists. split; [vm_compute; reflexivity|vm_compute; reflexivity]. Qed.

Lemma flip_witness :
  exists s' rs, run_list ts2 chk_flip 3 init_state [0; 1] = Some (s', rs) /\
                res s' 0 = RPass /\ In 1 (deps (ts2 0)) /\ implemented (ts2 1) = true /\ res s' 1 = RFail.
Proof.
  eexists. eexists. split; [vm_compute; reflexivity|].
  split; [vm_compute; reflexivity|]. split; [cbn; auto|]. split; vm_compute; reflexivity.
Qed.

Lemma flip_witness_silent :
  exists s', run_silent ts2 chk_flip 3 init_state [0; 1] = Some (s', SOk) /\
             res s' 0 = RPass /\ res s' 1 = RFail.
Proof. eexists. split; [vm_compute; reflexivity|]. split; vm_compute; reflexivity. Qed.
