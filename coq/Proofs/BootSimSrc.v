(** Proofs about Model/BootSimSrc.v (property C01): what the data-source
    constructors hand to a measurement, and the digest clause for flows whose
    measurements name their source. *)
From CSS Require Import Lib.Base Model.TPM Proofs.TPM Model.BootSim Proofs.BootSim Model.BootSimSrc.

Section Src.
Variable ref : Type.
Variable bytes_of : ref -> outcome (list Z).
Variable H : Z -> list Z -> list Z.
Variable P : platform ref.

Notation src_data := (BootSimSrc.src_data ref P).
Notation has_forced := (BootSimSrc.has_forced ref P).
Notation concat_loop := (BootSimSrc.concat_loop ref P).
Notation concat_step := (BootSimSrc.concat_step ref P).
Notation resolve := (BootSimSrc.resolve ref P).
Notation resolve_item := (BootSimSrc.resolve_item ref P).
Notation resolve_flow := (BootSimSrc.resolve_flow ref P).
Notation denotes := (denotes ref bytes_of).
Notation mdata := (BootSim.mdata ref).
Notation run_flow := (BootSim.run_flow ref bytes_of H).

(** * 1. Concat *)

(** a sub-source Concat accepts: neither forced bytes nor a converter *)
Definition plain (d : mdata) : Prop := has_forced (d_refs d) = false /\ d_conv d = None.

Lemma concat_step_ok acc x refs :
  concat_step acc x = Ok refs <-> exists d, x = Ok d /\ plain d /\ refs = acc ++ d_refs d.
Proof.
  unfold BootSimSrc.concat_step, plain. split.
  - destruct x as [d|e| |]; try discriminate.
    destruct (has_forced (d_refs d)) eqn:F; [discriminate|].
    destruct (d_conv d) eqn:C; [discriminate|]. intros X. inversion X. exists d. auto.
  - intros (d & -> & (F & C) & ->). rewrite F, C. reflexivity.
Qed.

Lemma concat_loop_ok xs : forall acc refs,
  concat_loop acc xs = Ok refs <->
  exists ds, xs = map (@Ok mdata) ds /\ Forall plain ds /\ refs = acc ++ concat (map (@d_refs ref) ds).
Proof.
  induction xs as [|x rest IH]; intros acc refs; cbn [BootSimSrc.concat_loop].
  - split.
    + intros X. inversion X. exists []. cbn [map concat]. rewrite app_nil_r. auto.
    + intros (ds & E & _ & ->). destruct ds; [|discriminate]. cbn [map concat]. rewrite app_nil_r. reflexivity.
  - split.
    + destruct (concat_step acc x) as [acc'|e| |] eqn:Es; cbn [bind]; try discriminate.
      intros E. apply concat_step_ok in Es. destruct Es as (d & -> & Pd & ->).
      apply IH in E. destruct E as (ds & -> & Fd & ->).
      exists (d :: ds). cbn [map concat]. rewrite <- app_assoc. auto.
    + intros (ds & E & Fd & ->). destruct ds as [|d ds]; [discriminate|]. cbn [map] in E. inversion E; subst.
      inversion Fd as [|? ? Pd Fd']; subst.
      assert (Es : concat_step acc (Ok d) = Ok (acc ++ d_refs d)) by (apply concat_step_ok; exists d; auto).
      rewrite Es. cbn [bind]. apply IH. exists ds. cbn [map concat]. rewrite <- app_assoc. auto.
Qed.

Lemma map_ok_forall2 (l : list (BootSimSrc.source ref)) ds :
  map src_data l = map (@Ok mdata) ds <-> Forall2 (fun s d => src_data s = Ok d) l ds.
Proof.
  revert ds. induction l as [|s l IH]; intros [|d ds]; cbn [map]; split; intros X;
    try discriminate; try (inversion X; fail); try constructor.
  - inversion X. reflexivity.
  - apply IH. inversion X. reflexivity.
  - inversion X; subst. f_equal; [assumption|]. apply IH. assumption.
Qed.

(** ** C01_concat_source: Concat succeeds exactly when every sub-source gives plain
    data, and then gives the references of all of them, in order, no converter *)
Theorem concat_data l d :
  src_data (SConcat l) = Ok d <->
  exists ds, Forall2 (fun s d' => src_data s = Ok d') l ds /\ Forall plain ds /\
             d = mkData (concat (map (@d_refs ref) ds)) None.
Proof.
  cbn [BootSimSrc.src_data]. split.
  - destruct (concat_loop [] (map src_data l)) as [refs|e| |] eqn:E; cbn [bind]; try discriminate.
    intros X. inversion X. apply concat_loop_ok in E. destruct E as (ds & Em & Fd & ->).
    exists ds. split; [apply map_ok_forall2; exact Em|]. auto.
  - intros (ds & F2 & Fd & ->). apply map_ok_forall2 in F2.
    assert (E : concat_loop [] (map src_data l) = Ok ([] ++ concat (map (@d_refs ref) ds))).
    { apply concat_loop_ok. exists ds. auto. }
    rewrite E. reflexivity.
Qed.

(** the first sub-source that is not plain decides the outcome *)
Definition refusal (x : outcome mdata) : outcome mdata :=
  match x with
  | Ok d => if has_forced (d_refs d) then Err ERR_FORCED else Err ERR_CONVERTER
  | Err e => Err e
  | Panic => Panic
  | OutOfFuel => OutOfFuel
  end.

Lemma concat_loop_app xs ys : forall acc,
  concat_loop acc (xs ++ ys) = bind (concat_loop acc xs) (fun a => concat_loop a ys).
Proof.
  induction xs as [|x r IH]; intros acc; cbn [app BootSimSrc.concat_loop bind]; [reflexivity|].
  destruct (concat_step acc x); cbn [bind]; auto.
Qed.

Theorem concat_first_refusal pre x post ds :
  Forall2 (fun s d => src_data s = Ok d) pre ds -> Forall plain ds ->
  (forall d, src_data x = Ok d -> ~ plain d) ->
  src_data (SConcat (pre ++ x :: post)) = refusal (src_data x).
Proof.
  intros F2 Fd Hbad. cbn [BootSimSrc.src_data]. rewrite map_app, concat_loop_app.
  apply map_ok_forall2 in F2.
  assert (E : concat_loop [] (map src_data pre) = Ok ([] ++ concat (map (@d_refs ref) ds))).
  { apply concat_loop_ok. exists ds. auto. }
  rewrite E. cbn [bind map BootSimSrc.concat_loop app]. unfold refusal, BootSimSrc.concat_step.
  destruct (src_data x) as [d|e| |]; cbn [bind]; try reflexivity.
  destruct (has_forced (d_refs d)) eqn:F; [reflexivity|].
  destruct (d_conv d) eqn:C; [reflexivity|].
  exfalso. apply (Hbad d eq_refl). split; assumption.
Qed.

(** * 2. The bytes *)

Lemma denotes_app a b raw :
  denotes (a ++ b) raw <-> exists ra rb, denotes a ra /\ denotes b rb /\ raw = ra ++ rb.
Proof.
  unfold Proofs.BootSim.denotes. split.
  - intros (bs & F & ->). apply Forall2_app_inv_l in F. destruct F as (b1 & b2 & F1 & F2 & ->).
    exists (concat b1), (concat b2). rewrite concat_app. eauto 8.
  - intros (ra & rb & (b1 & F1 & ->) & (b2 & F2 & ->) & ->). exists (b1 ++ b2).
    rewrite concat_app. split; [apply Forall2_app; assumption|reflexivity].
Qed.

Lemma denotes_concat (ds : list mdata) : forall raw,
  denotes (concat (map (@d_refs ref) ds)) raw <->
  exists raws, Forall2 (fun d r => denotes (d_refs d) r) ds raws /\ raw = concat raws.
Proof.
  induction ds as [|d ds IH]; intros raw; cbn [map concat].
  - split.
    + intros (bs & F & ->). inversion F. exists []. split; [constructor|reflexivity].
    + intros (raws & F & ->). inversion F. exists []. split; [constructor|reflexivity].
  - rewrite denotes_app. split.
    + intros (ra & rb & Ha & Hb & ->). apply IH in Hb. destruct Hb as (raws & F & ->).
      exists (ra :: raws). split; [constructor; assumption|reflexivity].
    + intros (raws & F & ->). inversion F as [|? r ? raws' Hd F']; subst.
      exists r, (concat raws'). split; [exact Hd|]. split; [|reflexivity]. apply IH. eauto.
Qed.

(** ** C01_concat_bytes: the bytes a Concat measurement covers are the bytes of its
    sub-sources, each as its own references denote them, concatenated in source order *)
Theorem concat_bytes l d raw :
  src_data (SConcat l) = Ok d -> denotes (d_refs d) raw ->
  d_conv d = None /\
  exists raws, Forall2 (fun s r => exists d', src_data s = Ok d' /\ plain d' /\ denotes (d_refs d') r) l raws /\
               raw = concat raws.
Proof.
  intros E Hd. apply concat_data in E. destruct E as (ds & F2 & Fd & ->). cbn [d_refs d_conv] in *.
  split; [reflexivity|]. apply denotes_concat in Hd. destruct Hd as (raws & Fr & ->).
  exists raws. split; [|reflexivity].
  clear - F2 Fd Fr. revert raws Fr. induction F2 as [|s d' l ds Hs F2 IH]; intros raws Fr.
  - inversion Fr. constructor.
  - inversion Fr as [|? r ? raws' Hr Fr']; subst. inversion Fd as [|? ? Pd Fd']; subst.
    constructor; [exists d'; auto|]. apply IH; assumption.
Qed.

(** * 3. Flows whose measurements name their source *)

(** [item_cmd] with the source in place of its data *)
Definition sitem_cmd (x : sitem ref) (c : cmd) : Prop :=
  match x with
  | SEv p s ty evd =>
      exists d raw a, src_data s = Ok d /\ denotes (d_refs d) raw /\ In a supported /\
      (c = Extend p a (H a (convert H (d_conv d) raw)) \/
       c = LogAdd p a (H a (convert H (d_conv d) raw)) ty evd)
  | SEx p s a =>
      exists d raw, src_data s = Ok d /\ denotes (d_refs d) raw /\
      c = Extend p a (convert H (d_conv d) raw)
  | SI it => item_cmd ref bytes_of H it c
  end.

Lemma resolve_ds s d : resolve s = DS d -> src_data s = Ok d.
Proof. unfold BootSimSrc.resolve. destruct (src_data s); intros X; inversion X. reflexivity. Qed.

Lemma resolve_item_cmd x c : item_cmd ref bytes_of H (resolve_item x) c -> sitem_cmd x c.
Proof.
  destruct x as [p s ty evd|p s a|it]; cbn [BootSimSrc.resolve_item item_cmd sitem_cmd].
  - intros (d & raw & a & E & Hd & Ia & Hc). exists d, raw, a. split; [apply resolve_ds; exact E|auto].
  - intros (d & raw & E & Hd & Hc). exists d, raw. split; [apply resolve_ds; exact E|auto].
  - auto.
Qed.

Lemma concat_resolve_flow fl : concat (resolve_flow fl) = map resolve_item (concat fl).
Proof. unfold BootSimSrc.resolve_flow. rewrite concat_map. reflexivity. Qed.

(** ** C01_digest_is_hash_of_source_bytes *)
Theorem source_digest r fl c :
  In c (cmdlog (s_tpm (fst (run_flow (boot_start r) (resolve_flow fl))))) ->
  exists x, In x (concat fl) /\ sitem_cmd x c.
Proof.
  intros Hi. destruct (digest_is_hash_of_bytes_boot ref bytes_of H r _ c Hi) as (it & Iit & Hc).
  rewrite concat_resolve_flow in Iit. apply in_map_iff in Iit. destruct Iit as (x & <- & Ix).
  exists x. split; [exact Ix|apply resolve_item_cmd; exact Hc].
Qed.

(** a measurement of [datasources.Bytes(b)] covers the bytes the one reference
    NewReference made denotes -- [b] itself when reading that reference gives [b] -- and
    a measurement of a Concat the bytes of its sub-sources in order *)
Theorem bytes_source_digest b raw :
  denotes (d_refs (mkData [p_bytes_ref P b] None)) raw -> bytes_of (p_bytes_ref P b) = Ok b -> raw = b.
Proof.
  cbn [d_refs]. intros (bs & F & ->) E. inversion F as [|? x ? bs' Hx F']; subst. inversion F'; subst.
  rewrite E in Hx. inversion Hx. cbn [concat]. apply app_nil_r.
Qed.

End Src.
