(** Proofs about the runner over failing hardware (Model/RunnerFault.v). *)
From CSS Require Import Lib.Base Model.Runner Model.RunnerFault Proofs.Runner.
From Coq Require Import Arith.
Local Open Scope nat_scope.

(** * one check program on the hardware *)
Section ExecFacts.
  Variable D : Type.

  Lemma exec_acc (k : option D -> prog D) hw c :
    exec (Acc k) hw c =
    (fst (exec (k (hw (S c))) hw (S c)), failed (hw (S c)) :: snd (exec (k (hw (S c))) hw (S c))).
  Proof. cbn [exec]. destruct (exec (k (hw (S c))) hw (S c)). reflexivity. Qed.

  Lemma exec_no_pass (p : prog D) : no_pass p -> forall hw c, fst (exec p hw c) <> o_pass.
  Proof.
    induction 1 as [o Ho|k _ IH]; intros hw c.
    - exact Ho.
    - rewrite exec_acc. cbn [fst]. apply IH.
  Qed.

  (** after a failed access a fail-closed check does not return success *)
  Lemma exec_fail_closed (p : prog D) : fail_closed p ->
    forall hw c, In true (snd (exec p hw c)) -> fst (exec p hw c) <> o_pass.
  Proof.
    induction 1 as [o|k Hn _ IH]; intros hw c Hin.
    - cbn in Hin. contradiction.
    - rewrite exec_acc in *. cbn [fst snd] in *.
      destruct (hw (S c)) as [d|] eqn:Hr.
      + cbn [failed] in Hin. destruct Hin as [X|Hin]; [discriminate|]. now apply IH.
      + now apply exec_no_pass.
  Qed.

  Lemma converts_fail_closed (p : prog D) : converts p -> fail_closed p.
  Proof.
    induction 1 as [o|k [rc Hk] _ IH]; constructor; auto.
    rewrite Hk. constructor. unfold o_pass. intro X. inversion X.
  Qed.

  (** a check that converts errors stops at the first failed access and returns
      an internal error and no test error: the runner stores INTERNAL_ERROR *)
  Lemma exec_converts (p : prog D) : converts p ->
    forall hw c, In true (snd (exec p hw c)) ->
      classify (fst (exec p hw c)) = RIntErr /\
      exists n, snd (exec p hw c) = repeat false n ++ [true].
  Proof.
    induction 1 as [o|k [rc Hk] _ IH]; intros hw c Hin.
    - cbn in Hin. contradiction.
    - rewrite exec_acc in *. cbn [fst snd] in *.
      destruct (hw (S c)) as [d|] eqn:Hr.
      + cbn [failed] in *. destruct Hin as [X|Hin]; [discriminate|].
        destruct (IH d hw (S c) Hin) as [A [n B]]. split; [exact A|].
        exists (S n). cbn [repeat app]. now rewrite B.
      + rewrite Hk. cbn [exec fst snd failed]. split; [destruct rc; reflexivity|].
        exists 0. reflexivity.
  Qed.

  (** the flags are what the hardware answered to calls c+1, c+2, ... *)
  Lemma exec_flags (p : prog D) : forall hw c i,
    i < length (snd (exec p hw c)) ->
    nth i (snd (exec p hw c)) false = failed (hw (S (c + i))).
  Proof.
    induction p as [o|k IH]; intros hw c i Hi.
    - cbn in Hi. lia.
    - rewrite exec_acc in *. cbn [snd] in *. destruct i as [|i].
      + cbn [nth]. now rewrite Nat.add_0_r.
      + cbn [nth length] in *. rewrite IH by lia. f_equal. f_equal. lia.
  Qed.

  (** when every access fails, a check that made an access saw a failed one *)
  Lemma exec_all_fail (p : prog D) hw c :
    (forall n, hw (S n) = None) -> snd (exec p hw c) <> [] -> In true (snd (exec p hw c)).
  Proof.
    intros Hall Hne. destruct (snd (exec p hw c)) as [|b fl] eqn:E; [congruence|].
    pose proof (exec_flags p hw c 0) as X. rewrite E in X. cbn [length nth] in X.
    rewrite X by lia. rewrite Hall. now left.
  Qed.
End ExecFacts.

(** the fault patterns of the property *)
Lemma fails_from_k k n : fails (FFromK k) n = true <-> k <= n.
Proof. cbn. apply Nat.leb_le. Qed.
Lemma fails_only_k k n : fails (FOnlyK k) n = true <-> n = k.
Proof. cbn. apply Nat.eqb_eq. Qed.
Lemma inject_total D k (base : nat -> D) : k <= 1 -> forall n, inject (FFromK k) base (S n) = None.
Proof.
  intros Hk n. unfold inject. replace (fails (FFromK k) (S n)) with true; [reflexivity|].
  symmetry. apply fails_from_k. lia.
Qed.

(** * every clause about one call of Test.Run, for a generic oracle: the stored
    result of every test evaluated in the call is the classification of what
    that evaluation returned *)
Section EventRes.
  Variable ts : nat -> test.
  Variable chk : nat -> nat -> outcome3.
  Variable rank : nat -> nat.
  Hypothesis Hrank : forall id d, In d (deps (ts id)) -> rank d < rank id.

  Definition EvRes (s' : state) (new : list event) : Prop :=
    forall e, In e new -> res s' (ev_id e) = classify (ev_out e).

  Lemma loop_event_res runf id :
    RunfOK ts chk rank runf id ->
    (forall s d s' new, rank d < rank id -> runf s d = Some s' -> trace s' = trace s ++ new -> EvRes s' new) ->
    forall ds s ok s' ok' new,
      (forall d, In d ds -> rank d < rank id) ->
      deps_loop ts runf id ds s ok = Some (s', ok') -> trace s' = trace s ++ new -> EvRes s' new.
  Proof.
    intros Hspec Hres. induction ds as [|d ds IH]; intros s ok s' ok' new Hds Hl T.
    - cbn in Hl. inversion Hl; subst. rewrite <- (app_nil_r (trace s')) in T at 1.
      apply app_inv_head in T. subst new. intros e [].
    - cbn [deps_loop] in Hl.
      assert (Hds' : forall d0, In d0 ds -> rank d0 < rank id) by (intros; apply Hds; now right).
      assert (Hdr : rank d < rank id) by (apply Hds; now left).
      destruct (is_notimpl (stat (ts d))) eqn:Hni; [eapply IH; eauto|].
      destruct (if is_notrun (res s d) then runf s d else Some s) as [s1|] eqn:H1; [|discriminate].
      (* the first step: from s to s1 with events n1 *)
      assert (Hstep : exists n1, trace s1 = trace s ++ n1 /\ EvRes s1 n1 /\ forall e, In e n1 -> ev_id e <> id).
      { destruct (is_notrun (res s d)) eqn:Hnr.
        - destruct (Hspec _ _ _ Hdr H1) as (n1 & T1 & _ & E1 & _).
          exists n1. split; [exact T1|]. split; [eapply Hres; eauto|].
          intros e He X. destruct (E1 e He) as (_ & _ & [[Y _]|(_ & _ & Y)]).
          + rewrite X in Y. subst d. lia.
          + rewrite X in Y. lia.
        - inversion H1; subst. exists []. split; [now rewrite app_nil_r|]. split; intros e []. }
      destruct Hstep as (n1 & T1 & R1 & Hnid).
      (* the rest of the loop: from s1x to s' with events n2 *)
      set (s1x := if is_pass (res s1 d) then s1 else set_depfailed s1 id d).
      set (okx := if is_pass (res s1 d) then ok else false).
      assert (Hl' : deps_loop ts runf id ds s1x okx = Some (s', ok')).
      { unfold s1x, okx. destruct (is_pass (res s1 d)); exact Hl. }
      assert (Tx : trace s1x = trace s1) by (unfold s1x; destruct (is_pass (res s1 d)); reflexivity).
      assert (Rx : forall j, j <> id -> res s1x j = res s1 j).
      { intros j Hj. unfold s1x. destruct (is_pass (res s1 d)); [reflexivity|]. cbn. now apply upd_other. }
      destruct (loop_spec ts chk rank Hrank runf id Hspec _ _ _ _ _ Hds' Hl') as (n2 & F2 & _).
      pose proof F2 as (T2 & _).
      assert (Hnew : new = n1 ++ n2).
      { rewrite T2, Tx, T1, <- app_assoc in T. now apply app_inv_head in T. }
      subst new. intros e He. apply in_app_or in He. destruct He as [He|He].
      + rewrite (Frame_keeps ts chk rank id _ _ _ _ F2); auto.
        * rewrite Rx; auto.
        * rewrite Rx; auto. rewrite (R1 e He). apply classify_not_notrun.
      + eapply IH; eauto.
  Qed.

  Lemma run_event_res : forall fuel asdep s id s' new,
      run ts chk fuel asdep s id = Some s' -> trace s' = trace s ++ new -> EvRes s' new.
  Proof.
    induction fuel as [|f IH]; intros asdep s id s' new H T; [discriminate|].
    cbn [run] in H.
    destruct (deps_loop ts (run ts chk f true) id (deps (ts id)) s true) as [[s1 ok']|] eqn:Hl; [|discriminate].
    assert (Hrf : RunfOK ts chk rank (run ts chk f true) id)
      by (intros s0 d s0' _ H0; now apply (run_spec ts chk rank Hrank f)).
    destruct (loop_spec ts chk rank Hrank _ id Hrf _ _ _ _ _ (fun d Hd => Hrank id d Hd) Hl) as (n1 & F & _).
    pose proof F as (T1 & _ & E1 & _).
    assert (R1 : EvRes s1 n1).
    { assert (Hres : forall s0 d s0' new0, rank d < rank id -> run ts chk f true s0 d = Some s0' ->
                       trace s0' = trace s0 ++ new0 -> EvRes s0' new0) by (intros; eapply IH; eauto).
      eapply (loop_event_res _ id Hrf Hres); eauto. }
    destruct ok'.
    - inversion H; subst s'; clear H.
      set (o := chk id (evals id (trace s1))) in *.
      rewrite trace_set_checked, T1, <- app_assoc in T. apply app_inv_head in T. subst new.
      intros e He. apply in_app_or in He. destruct He as [He|[<-|[]]].
      + rewrite res_set_checked_other; [now apply R1|].
        intro X. destruct (E1 e He) as (_ & _ & _ & _ & R). rewrite X in R. lia.
      + cbn [ev_id ev_out]. apply res_set_checked_same.
    - inversion H; subst s'; clear H.
      rewrite T1 in T. apply app_inv_head in T. now subst new.
  Qed.
End EventRes.

(** * the runner over hardware is the runner of Model/Runner.v for the oracle
    that answers what the checks returned in this very execution *)
Definition chk_tr (tr : list event) : nat -> nat -> outcome3 :=
  fun id n =>
    match nth_error (filter (fun e => Nat.eqb (ev_id e) id) tr) n with
    | Some e => ev_out e
    | None => o_pass
    end.

Definition prefix {A} (l1 l2 : list A) : Prop := exists r, l2 = l1 ++ r.

Lemma prefix_refl {A} (l : list A) : prefix l l.
Proof. exists []. now rewrite app_nil_r. Qed.
Lemma prefix_trans {A} (a b c : list A) : prefix a b -> prefix b c -> prefix a c.
Proof. intros [r1 ->] [r2 ->]. exists (r1 ++ r2). now rewrite app_assoc. Qed.
Lemma prefix_app {A} (a b : list A) : prefix a (a ++ b).
Proof. now exists b. Qed.

Lemma chk_tr_hit tr id a o trf :
  prefix (tr ++ [mkEv id a o]) trf -> chk_tr trf id (evals id tr) = o.
Proof.
  intros [r ->]. unfold chk_tr, evals. rewrite <- app_assoc, filter_app. cbn [app filter ev_id].
  rewrite Nat.eqb_refl. rewrite nth_error_app2 by lia. rewrite Nat.sub_diag. reflexivity.
Qed.

Section Sim.
  Variable D : Type.
  Variable ts : nat -> test.
  Variable progs : nat -> nat -> prog D.
  Variable hw : hardware D.

  (** an evaluation recorded in the ghost trace is an execution of a program
      of its test from the call counter at which it started *)
  Definition wf_hev (h : hev) : Prop :=
    exists n, exec (progs (h_id h) n) hw (h_from h) = (h_out h, h_flags h).

  (** the windows tile the calls [c+1 .. c'] in order, without gaps *)
  Inductive contig : nat -> list hev -> nat -> Prop :=
  | cg_nil c : contig c [] c
  | cg_cons c h l c' : h_from h = c -> contig (c + length (h_flags h)) l c' -> contig c (h :: l) c'.

  Lemma contig_app c1 l1 c2 l2 c3 : contig c1 l1 c2 -> contig c2 l2 c3 -> contig c1 (l1 ++ l2) c3.
  Proof. induction 1; cbn; auto. intro. constructor; auto. Qed.

  Definition Ext (s s' : hstate) (newh : list hev) : Prop :=
    htrace s' = htrace s ++ newh /\
    trace (hs s') = trace (hs s) ++ map hev_ev newh /\
    Forall wf_hev newh /\ contig (hcalls s) newh (hcalls s').

  Lemma Ext_refl s : Ext s s [].
  Proof. repeat split; cbn; try now rewrite app_nil_r. constructor. constructor. Qed.

  Lemma Ext_trans s s1 s2 n1 n2 : Ext s s1 n1 -> Ext s1 s2 n2 -> Ext s s2 (n1 ++ n2).
  Proof.
    intros (A1 & B1 & C1 & D1) (A2 & B2 & C2 & D2). split; [|split; [|split]].
    - now rewrite A2, A1, app_assoc.
    - now rewrite B2, B1, map_app, app_assoc.
    - apply Forall_app. auto.
    - eapply contig_app; eauto.
  Qed.

  Lemma Ext_setdep s id d : Ext s (set_depfailed_h s id d) [].
  Proof. repeat split; cbn; try now rewrite app_nil_r. constructor. constructor. Qed.

  Lemma eval_check_eq s id a :
    eval_check progs hw s id a =
    let r := exec (progs id (evals id (trace (hs s)))) hw (hcalls s) in
    mkHS (set_checked (hs s) id a (fst r)) (hcalls s + length (snd r))
         (htrace s ++ [mkHev id a (hcalls s) (snd r) (fst r)]).
  Proof. unfold eval_check. destruct (exec _ hw (hcalls s)). reflexivity. Qed.

  Lemma Ext_eval s id a :
    Ext s (eval_check progs hw s id a)
        [mkHev id a (hcalls s) (snd (exec (progs id (evals id (trace (hs s)))) hw (hcalls s)))
               (fst (exec (progs id (evals id (trace (hs s)))) hw (hcalls s)))].
  Proof.
    rewrite eval_check_eq. cbn zeta. split; [reflexivity|]. split; [|split].
    - cbn [hs]. now rewrite trace_set_checked.
    - constructor; [|constructor]. exists (evals id (trace (hs s))). cbn [h_id h_from h_out h_flags].
      now destruct (exec _ hw (hcalls s)).
    - cbn [hcalls]. constructor; [reflexivity|]. cbn [h_flags]. constructor.
  Qed.

  Definition RunfExt (runf : hstate -> nat -> option hstate) : Prop :=
    forall s d s', runf s d = Some s' -> exists n, Ext s s' n.

  Lemma loop_ext runf id : RunfExt runf ->
    forall ds s ok s' ok', deps_loop_h ts runf id ds s ok = Some (s', ok') -> exists n, Ext s s' n.
  Proof.
    intro Hr. induction ds as [|d ds IH]; intros s ok s' ok' Hl.
    - cbn in Hl. inversion Hl; subst. exists []. apply Ext_refl.
    - cbn [deps_loop_h] in Hl. destruct (is_notimpl (stat (ts d))); [eapply IH; eauto|].
      destruct (if is_notrun (res (hs s) d) then runf s d else Some s) as [s1|] eqn:H1; [|discriminate].
      assert (X : exists n1, Ext s s1 n1).
      { destruct (is_notrun (res (hs s) d)); [eapply Hr; eauto|]. inversion H1; subst. exists []. apply Ext_refl. }
      destruct X as [n1 E1].
      destruct (is_pass (res (hs s1) d)).
      + destruct (IH _ _ _ _ Hl) as [n2 E2]. exists (n1 ++ n2). eapply Ext_trans; eauto.
      + destruct (IH _ _ _ _ Hl) as [n2 E2]. exists (n1 ++ n2).
        eapply Ext_trans; [|exact E2]. rewrite <- (app_nil_r n1). eapply Ext_trans; [exact E1|apply Ext_setdep].
  Qed.

  Lemma run_h_ext : forall fuel a s id s', run_h ts progs hw fuel a s id = Some s' -> exists n, Ext s s' n.
  Proof.
    induction fuel as [|f IH]; intros a s id s' H; [discriminate|].
    cbn [run_h] in H.
    destruct (deps_loop_h ts (run_h ts progs hw f true) id (deps (ts id)) s true) as [[s1 ok']|] eqn:Hl; [|discriminate].
    assert (Hr : RunfExt (run_h ts progs hw f true)) by (intros s0 d s0' H0; eapply IH; eauto).
    destruct (loop_ext _ id Hr _ _ _ _ _ Hl) as [n1 E1].
    destruct ok'; inversion H; subst s'.
    - eexists. eapply Ext_trans; [exact E1|apply Ext_eval].
    - now exists n1.
  Qed.

  Lemma Ext_prefix s s' n : Ext s s' n -> prefix (trace (hs s)) (trace (hs s')).
  Proof. intros (_ & B & _). rewrite B. apply prefix_app. Qed.

  (** ** simulation *)
  Definition RunfSim (runf : hstate -> nat -> option hstate) (f : nat) : Prop :=
    forall s d s', runf s d = Some s' ->
      forall trf, prefix (trace (hs s')) trf -> run ts (chk_tr trf) f true (hs s) d = Some (hs s').

  Lemma loop_sim runf f id : RunfExt runf -> RunfSim runf f ->
    forall ds s ok s' ok', deps_loop_h ts runf id ds s ok = Some (s', ok') ->
      forall trf, prefix (trace (hs s')) trf ->
        deps_loop ts (run ts (chk_tr trf) f true) id ds (hs s) ok = Some (hs s', ok').
  Proof.
    intros He Hs. induction ds as [|d ds IH]; intros s ok s' ok' Hl trf Hp.
    - cbn in Hl. inversion Hl; subst. reflexivity.
    - cbn [deps_loop_h] in Hl. cbn [deps_loop].
      destruct (is_notimpl (stat (ts d))); [eapply IH; eauto|].
      destruct (if is_notrun (res (hs s) d) then runf s d else Some s) as [s1|] eqn:H1; [|discriminate].
      (* the trace after this step is a prefix of the final one *)
      assert (Hp1 : prefix (trace (hs s1)) trf).
      { apply prefix_trans with (b := trace (hs s')); [|exact Hp].
        destruct (is_pass (res (hs s1) d)).
        - destruct (loop_ext _ id He _ _ _ _ _ Hl) as [n E]. eapply Ext_prefix; eauto.
        - destruct (loop_ext _ id He _ _ _ _ _ Hl) as [n E]. apply Ext_prefix in E. exact E. }
      assert (H1' : (if is_notrun (res (hs s) d) then run ts (chk_tr trf) f true (hs s) d else Some (hs s)) = Some (hs s1)).
      { destruct (is_notrun (res (hs s) d)); [eapply Hs; eauto|]. inversion H1; subst. reflexivity. }
      rewrite H1'. destruct (is_pass (res (hs s1) d)).
      + eapply IH; eauto.
      + apply (IH _ _ _ _ Hl trf Hp).
  Qed.

  Lemma run_h_sim : forall fuel a s id s', run_h ts progs hw fuel a s id = Some s' ->
    forall trf, prefix (trace (hs s')) trf -> run ts (chk_tr trf) fuel a (hs s) id = Some (hs s').
  Proof.
    induction fuel as [|f IH]; intros a s id s' H trf Hp; [discriminate|].
    cbn [run_h] in H. cbn [run].
    destruct (deps_loop_h ts (run_h ts progs hw f true) id (deps (ts id)) s true) as [[s1 ok']|] eqn:Hl; [|discriminate].
    assert (He : RunfExt (run_h ts progs hw f true)) by (intros s0 d s0' H0; eapply run_h_ext; eauto).
    assert (Hs : RunfSim (run_h ts progs hw f true) f) by (intros s0 d s0' H0 trf0 Hp0; eapply IH; eauto).
    destruct ok'; inversion H; subst s'; clear H.
    - pose proof (Ext_eval s1 id a) as (_ & B & _). unfold hev_ev in B. cbn [map h_id h_dep h_out] in B.
      assert (Hp1 : prefix (trace (hs s1)) trf).
      { apply prefix_trans with (b := trace (hs (eval_check progs hw s1 id a))); [|exact Hp]. rewrite B. apply prefix_app. }
      rewrite (loop_sim _ f id He Hs _ _ _ _ _ Hl trf Hp1).
      rewrite B in Hp. rewrite (chk_tr_hit _ _ _ _ _ Hp).
      rewrite eval_check_eq. reflexivity.
    - now rewrite (loop_sim _ f id He Hs _ _ _ _ _ Hl trf Hp).
  Qed.

  (** ** the clauses of the runner carry over, and the fault clauses *)
  Variable rank : nat -> nat.
  Hypothesis Hrank : forall id d, In d (deps (ts id)) -> rank d < rank id.

  Lemma run_h_new fuel a s id s' newh :
    run_h ts progs hw fuel a s id = Some s' -> htrace s' = htrace s ++ newh -> Ext s s' newh.
  Proof.
    intros H T. destruct (run_h_ext _ _ _ _ _ H) as [n E]. pose proof E as (T0 & _).
    rewrite T0 in T. apply app_inv_head in T. now subst n.
  Qed.

  Lemma run_h_as_run fuel a s id s' :
    run_h ts progs hw fuel a s id = Some s' ->
    run ts (chk_tr (trace (hs s'))) fuel a (hs s) id = Some (hs s').
  Proof. intro H. eapply run_h_sim; eauto. apply prefix_refl. Qed.

  Theorem h_event_res fuel a s id s' newh :
    run_h ts progs hw fuel a s id = Some s' -> htrace s' = htrace s ++ newh ->
    forall h, In h newh -> res (hs s') (h_id h) = classify (h_out h).
  Proof.
    intros H T h Hin. pose proof (run_h_new _ _ _ _ _ _ H T) as (_ & B & _).
    apply (run_event_res ts _ rank Hrank _ _ _ _ _ _ (run_h_as_run _ _ _ _ _ H) B (hev_ev h)).
    now apply in_map.
  Qed.

  Theorem h_pass_iff fuel a s id s' newh :
    run_h ts progs hw fuel a s id = Some s' -> htrace s' = htrace s ++ newh ->
    (res (hs s') id = RPass <->
     (exists h, In h newh /\ h_id h = id /\ h_dep h = a /\ h_out h = o_pass) /\
     forall d, In d (deps (ts id)) -> implemented (ts d) = true -> res (hs s') d = RPass).
  Proof.
    intros H T. pose proof (run_h_new _ _ _ _ _ _ H T) as (_ & B & _).
    rewrite (pass_iff ts _ rank Hrank _ _ _ _ _ _ (run_h_as_run _ _ _ _ _ H) B).
    split; intros [X Y]; (split; [|exact Y]).
    - apply in_map_iff in X. destruct X as [h [E Hin]]. exists h. unfold hev_ev in E. inversion E. auto.
    - destruct X as [h [Hin [E1 [E2 E3]]]]. apply in_map_iff. exists h. split; [|exact Hin].
      unfold hev_ev. now rewrite E1, E2, E3.
  Qed.

  Theorem h_dep_blocks fuel a s id s' newh d :
    run_h ts progs hw fuel a s id = Some s' -> htrace s' = htrace s ++ newh ->
    In d (deps (ts id)) -> implemented (ts d) = true -> res (hs s') d <> RPass ->
    res (hs s') id = RDepFailed /\ forall h, In h newh -> h_id h <> id.
  Proof.
    intros H T Hin Hi Hnp. pose proof (run_h_new _ _ _ _ _ _ H T) as (_ & B & _).
    destruct (dep_blocks ts _ rank Hrank _ _ _ _ _ _ d (run_h_as_run _ _ _ _ _ H) B Hin Hi Hnp) as [X Y].
    split; [exact X|]. intros h Hh. apply (Y (hev_ev h)). now apply in_map.
  Qed.

  Theorem h_once_per_call fuel a s id s' newh :
    run_h ts progs hw fuel a s id = Some s' -> htrace s' = htrace s ++ newh -> NoDup (map h_id newh).
  Proof.
    intros H T. pose proof (run_h_new _ _ _ _ _ _ H T) as (_ & B & _).
    pose proof (once_per_call ts _ rank Hrank _ _ _ _ _ _ (run_h_as_run _ _ _ _ _ H) B) as X.
    rewrite map_map in X. exact X.
  Qed.

  (** *** fault clauses, for checks that follow the discipline *)
  Hypothesis Hfc : forall id n, fail_closed (progs id n).

  Lemma wf_failed_not_pass h : wf_hev h -> In true (h_flags h) -> h_out h <> o_pass.
  Proof.
    intros [n E] Hin. pose proof (exec_fail_closed D _ (Hfc (h_id h) n) hw (h_from h)) as X.
    rewrite E in X. now apply X.
  Qed.

  (** a test whose check was handed a failed access in this call is not PASS *)
  Theorem h_failed_access_not_pass fuel a s id s' newh :
    run_h ts progs hw fuel a s id = Some s' -> htrace s' = htrace s ++ newh ->
    forall h, In h newh -> In true (h_flags h) -> res (hs s') (h_id h) <> RPass.
  Proof.
    intros H T h Hin Hf. rewrite (h_event_res _ _ _ _ _ _ H T h Hin).
    pose proof (run_h_new _ _ _ _ _ _ H T) as (_ & _ & W & _).
    rewrite Forall_forall in W. intro X. apply classify_pass in X.
    exact (wf_failed_not_pass h (W h Hin) Hf X).
  Qed.

  (** PASS: the check of the test ran in this call, every access it made
      succeeded, it returned success, and every implemented dependency is PASS *)
  Theorem h_pass_clean fuel a s id s' newh :
    run_h ts progs hw fuel a s id = Some s' -> htrace s' = htrace s ++ newh ->
    res (hs s') id = RPass ->
    (exists h, In h newh /\ h_id h = id /\ h_dep h = a /\ h_out h = o_pass /\
               forall b, In b (h_flags h) -> b = false) /\
    forall d, In d (deps (ts id)) -> implemented (ts d) = true -> res (hs s') d = RPass.
  Proof.
    intros H T Hp. destruct (proj1 (h_pass_iff _ _ _ _ _ _ H T) Hp) as [[h [Hin [E1 [E2 E3]]]] Y].
    split; [|exact Y]. exists h. repeat split; auto.
    intros b Hb. destruct b; [|reflexivity]. exfalso.
    pose proof (run_h_new _ _ _ _ _ _ H T) as (_ & _ & W & _). rewrite Forall_forall in W.
    exact (wf_failed_not_pass h (W h Hin) Hb E3).
  Qed.

  (** a failed access inside the check of an implemented dependency: the
      dependant is DEPENDENCY_FAILED and its check is not evaluated *)
  Theorem h_failed_access_blocks fuel a s id s' newh d h :
    run_h ts progs hw fuel a s id = Some s' -> htrace s' = htrace s ++ newh ->
    In d (deps (ts id)) -> implemented (ts d) = true ->
    In h newh -> h_id h = d -> In true (h_flags h) ->
    res (hs s') id = RDepFailed /\ forall h', In h' newh -> h_id h' <> id.
  Proof.
    intros H T Hin Hi Hh Hd Hf. eapply h_dep_blocks; eauto.
    rewrite <- Hd. eapply h_failed_access_not_pass; eauto.
  Qed.

  (** when every hardware access fails, no check that makes an access passes *)
  Theorem h_total_failure fuel a s id s' newh :
    (forall n, hw (S n) = None) ->
    run_h ts progs hw fuel a s id = Some s' -> htrace s' = htrace s ++ newh ->
    forall h, In h newh -> h_flags h <> [] -> res (hs s') (h_id h) <> RPass.
  Proof.
    intros Hall H T h Hin Hne. eapply h_failed_access_not_pass; eauto.
    pose proof (run_h_new _ _ _ _ _ _ H T) as (_ & _ & W & _). rewrite Forall_forall in W.
    destruct (W h Hin) as [n E]. pose proof (exec_all_fail D (progs (h_id h) n) hw (h_from h) Hall) as X.
    rewrite E in X. now apply X.
  Qed.
End Sim.

(** with checks that convert a failed access into an internal error, the
    stored result is INTERNAL_ERROR *)
Section Converts.
  Variable D : Type.
  Variable ts : nat -> test.
  Variable progs : nat -> nat -> prog D.
  Variable hw : hardware D.
  Variable rank : nat -> nat.
  Hypothesis Hrank : forall id d, In d (deps (ts id)) -> rank d < rank id.
  Hypothesis Hcv : forall id n, converts (progs id n).

  Theorem h_failed_access_internal_error fuel a s id s' newh :
    run_h ts progs hw fuel a s id = Some s' -> htrace s' = htrace s ++ newh ->
    forall h, In h newh -> In true (h_flags h) -> res (hs s') (h_id h) = RIntErr.
  Proof.
    intros H T h Hin Hf. rewrite (h_event_res D ts progs hw rank Hrank _ _ _ _ _ _ H T h Hin).
    pose proof (run_h_new D ts progs hw _ _ _ _ _ _ H T) as (_ & _ & W & _). rewrite Forall_forall in W.
    destruct (W h Hin) as [n E].
    pose proof (exec_converts D _ (Hcv (h_id h) n) hw (h_from h)) as X. rewrite E in X.
    now apply X.
  Qed.
End Converts.

(** * termination over hardware (acyclic graphs) *)
Section Total.
  Variable D : Type.
  Variable ts : nat -> test.
  Variable progs : nat -> nat -> prog D.
  Variable hw : hardware D.
  Variable rank : nat -> nat.
  Hypothesis Hrank : forall id d, In d (deps (ts id)) -> rank d < rank id.

  Lemma loop_h_total runf id : forall ds,
      (forall s d, In d ds -> exists s', runf s d = Some s') ->
      forall s ok, exists r, deps_loop_h ts runf id ds s ok = Some r.
  Proof.
    induction ds as [|d ds IH]; intros Hr s ok; cbn [deps_loop_h]; [eauto|].
    assert (Hr' : forall s d0, In d0 ds -> exists s', runf s d0 = Some s') by (intros; apply Hr; now right).
    destruct (is_notimpl (stat (ts d))); [now apply IH|].
    assert (X : exists s1, (if is_notrun (res (hs s) d) then runf s d else Some s) = Some s1).
    { destruct (is_notrun (res (hs s) d)); [apply Hr; now left|eauto]. }
    destruct X as [s1 ->]. destruct (is_pass (res (hs s1) d)); now apply IH.
  Qed.

  Theorem run_h_total : forall fuel id, rank id < fuel ->
      forall a s, exists s', run_h ts progs hw fuel a s id = Some s'.
  Proof.
    induction fuel as [|f IH]; intros id Hlt a s; [lia|].
    cbn [run_h].
    destruct (loop_h_total (run_h ts progs hw f true) id (deps (ts id))) with (s := s) (ok := true) as [[s1 ok'] ->].
    - intros s0 d Hin. apply IH. specialize (Hrank _ _ Hin). lia.
    - destruct ok'; eauto.
  Qed.
End Total.

(** * without the discipline: a check that drops the error of its second access
    (read 1: register space, read 2: heap; the error of read 2 is not looked at)
    under "only the 2nd call fails" *)
Definition swallow_prog : prog unit :=
  Acc (fun r1 => match r1 with
                 | None => Ret (false, false, true)
                 | Some _ => Acc (fun _ => Ret o_pass)   (* the result of the 2nd access is not examined *)
                 end).
Definition sw_ts : nat -> test :=
  fun i => match i with O => mkTest true Implemented [] | _ => mkTest true Implemented [0] end.
Definition sw_rank : nat -> nat := fun i => match i with O => 0 | _ => 1 end.
Definition sw_progs : nat -> nat -> prog unit :=
  fun i _ => match i with O => swallow_prog | _ => Ret o_pass end.

Lemma sw_acyclic : forall id d, In d (deps (sw_ts id)) -> sw_rank d < sw_rank id.
Proof. intros [|id] d; cbn; [intros []|]. intros [<-|[]]. cbn. lia. Qed.

Lemma swallow_witness :
  exists s', run_h sw_ts sw_progs (inject (FOnlyK 2) (fun _ => tt)) 2 false (init_hstate init_state) 1 = Some s' /\
    res (hs s') 0 = RPass /\ res (hs s') 1 = RPass /\
    htrace s' = [mkHev 0 true 0 [false; true] o_pass; mkHev 1 false 2 [] o_pass] /\
    swallows (htrace s') = [0].
Proof. eexists. split; [vm_compute; reflexivity|]. repeat split; vm_compute; reflexivity. Qed.

Lemma swallow_not_fail_closed : ~ fail_closed swallow_prog.
Proof.
  intro H. inversion H as [|k Hn Hs]; subst. specialize (Hs tt). cbn in Hs.
  inversion Hs as [|k' Hn' _]; subst. inversion Hn' as [o Ho|]; subst. now apply Ho.
Qed.
