(** Proofs about the slice-level model of the reference algebra
    (Model/RefsHeap.v): what an operation does to memory it did not allocate.

    Vocabulary.  [Wok h0 W0]: the range slices [W0] of the caller lie inside
    their arrays and two of them are the same window or disjoint -- whatever
    lies around them (cells in front, spare capacity).  [okw h w]: [w] is one of
    those windows or the whole of an array allocated later.  [SInv st]: every
    [Reference] struct anywhere in memory has such a window as its [Ranges],
    every References variable lies inside its array and two of them do not
    share cells.

    Main results.  [step_inv]: the invariant is kept by every operation.
    [step_others]: after an operation every variable other than the one the
    operation is documented to modify (the receiver of SortAndMerge / Resolve /
    Ranges.SortAndMerge) is the same slice and holds, position by position, the
    same artifact, the same mapper and a permutation of the same ranges -- for
    the operations that do not sort (copy, BySystemArtifact, Ranges, Resolve)
    exactly the same ranges.  [run_others]: the same for every sequence of
    operations, so a result stays valid whatever is done afterwards to other
    variables; [upto_den]: such a list denotes the same set of (artifact,
    address space, offset) triples.  [step_arrays]: cells of the caller's range
    arrays outside every window (spare capacity, cells in front) are never
    written. *)
From Coq Require Import Permutation Lia.
From CSS Require Import Lib.Base Model.Ranges Model.Refs Model.RefsHeap Proofs.Ranges Proofs.Refs.

(** ** Arrays *)

Definition same_win (w w' : sl) : Prop :=
  sl_arr w = sl_arr w' /\ sl_off w = sl_off w' /\ sl_len w = sl_len w'.
Definition sep (w w' : sl) : Prop :=
  sl_arr w <> sl_arr w' \/ (sl_off w + sl_len w <= sl_off w')%nat \/ (sl_off w' + sl_len w' <= sl_off w)%nat.

Lemma sep_sym w w' : sep w w' -> sep w' w.
Proof. unfold sep. intros [H | [H | H]]; auto. Qed.

Lemma upd_nth_length {A} (f : A -> A) : forall n l, length (upd_nth n f l) = length l.
Proof. induction n; destruct l; cbn; auto. Qed.

Lemma nth_upd_nth_same {A} (f : A -> A) d : forall n l, (n < length l)%nat -> nth n (upd_nth n f l) d = f (nth n l d).
Proof. induction n; destruct l; cbn; intros; try lia; auto. apply IHn. lia. Qed.

Lemma nth_upd_nth_other {A} (f : A -> A) d : forall n m l, n <> m -> nth m (upd_nth n f l) d = nth m l d.
Proof. induction n; destruct l, m; cbn; intros; try congruence; auto. Qed.

Lemma upd_nth_beyond {A} (f : A -> A) : forall n l, (length l <= n)%nat -> upd_nth n f l = l.
Proof. induction n; destruct l; cbn; intros; try lia; auto. f_equal. apply IHn. lia. Qed.

Lemma skipn_skipn' {A} (l : list A) : forall y x, skipn x (skipn y l) = skipn (y + x) l.
Proof.
  induction l as [|a l IH]; intros y x.
  - rewrite !skipn_nil. reflexivity.
  - destruct y; [reflexivity|]. cbn [skipn plus]. apply IH.
Qed.

Lemma firstn_skipn_app_l {A} (l1 l2 : list A) o n :
  (o + n <= length l1)%nat -> firstn n (skipn o (l1 ++ l2)) = firstn n (skipn o l1).
Proof.
  intros H. rewrite skipn_app, firstn_app, skipn_length.
  replace (n - (length l1 - o))%nat with 0%nat by lia. cbn [firstn]. apply app_nil_r.
Qed.

Section Arrays.
  Context {A : Type}.
  Implicit Types (h : list (list A)) (w s : sl).

  (** the window lies inside its array *)
  Definition inb h w : Prop := (sl_off w + sl_len w <= length (nth (sl_arr w) h []))%nat.

  (** [h'] has the arrays of [h], of the same lengths, and possibly more *)
  Definition ext h h' : Prop :=
    (length h <= length h')%nat /\ forall a, (a < length h)%nat -> length (nth a h' []) = length (nth a h []).

  Lemma ext_refl h : ext h h.
  Proof. split; auto. Qed.
  Lemma ext_trans h1 h2 h3 : ext h1 h2 -> ext h2 h3 -> ext h1 h3.
  Proof. intros (L1 & E1) (L2 & E2). split; [lia|]. intros a Ha. rewrite E2 by lia. apply E1. exact Ha. Qed.

  Lemma inb_zero h w : inb h w -> (length h <= sl_arr w)%nat -> sl_off w = 0%nat /\ sl_len w = 0%nat.
  Proof. unfold inb. intros H L. rewrite nth_overflow in H by exact L. cbn in H. lia. Qed.

  Lemma inb_ext h h' w : ext h h' -> inb h w -> inb h' w.
  Proof.
    intros (L & E) H. destruct (lt_dec (sl_arr w) (length h)) as [Lt | Ge].
    - unfold inb. rewrite E by exact Lt. exact H.
    - destruct (inb_zero h w H ltac:(lia)) as (O & N). unfold inb. rewrite O, N. lia.
  Qed.

  Lemma splice_length off (vals arr : list A) :
    (off + length vals <= length arr)%nat -> length (splice off vals arr) = length arr.
  Proof. intros H. unfold splice. rewrite !app_length, firstn_length, skipn_length. lia. Qed.

  Lemma rd_splice_same off (vals arr : list A) :
    (off + length vals <= length arr)%nat ->
    firstn (length vals) (skipn off (splice off vals arr)) = vals.
  Proof.
    intros H. unfold splice.
    rewrite skipn_app, skipn_firstn_comm, Nat.sub_diag. cbn [firstn app].
    rewrite firstn_length, Nat.min_l by lia. rewrite Nat.sub_diag. cbn [skipn].
    rewrite firstn_app, Nat.sub_diag, firstn_all. cbn [firstn]. apply app_nil_r.
  Qed.

  Lemma rd_splice_other off (vals arr : list A) o n :
    (off + length vals <= length arr)%nat -> (o + n <= off \/ off + length vals <= o)%nat ->
    firstn n (skipn o (splice off vals arr)) = firstn n (skipn o arr).
  Proof.
    intros H O. unfold splice. destruct O as [O | O].
    - rewrite firstn_skipn_app_l by (rewrite firstn_length; lia).
      transitivity (firstn n (skipn o (firstn off arr ++ skipn off arr))); [|rewrite firstn_skipn; reflexivity].
      rewrite firstn_skipn_app_l by (rewrite firstn_length; lia). reflexivity.
    - rewrite app_assoc, skipn_app.
      rewrite (skipn_all2 (firstn off arr ++ vals)) by (rewrite app_length, firstn_length; lia).
      cbn [app]. rewrite skipn_skipn'. f_equal. f_equal.
      rewrite app_length, firstn_length. lia.
  Qed.

  Lemma nth_as_rd (l : list A) d : forall i, nth i l d = hd d (firstn 1 (skipn i l)).
  Proof.
    induction l as [|x l IH]; intros [|i]; cbn [nth skipn]; auto.
  Qed.

  (** a single cell outside the part just written *)
  Lemma nth_splice_other off (vals arr : list A) i d :
    (off + length vals <= length arr)%nat -> (i < off \/ off + length vals <= i)%nat ->
    nth i (splice off vals arr) d = nth i arr d.
  Proof.
    intros H O.
    assert (E : firstn 1 (skipn i (splice off vals arr)) = firstn 1 (skipn i arr))
      by (apply rd_splice_other; [exact H | lia]).
    rewrite !nth_as_rd, E. reflexivity.
  Qed.

  Lemma wr_lengths h a off vals :
    (off + length vals <= length (nth a h []))%nat ->
    forall b, length (nth b (wr h a off vals) []) = length (nth b h []).
  Proof.
    intros H b. unfold wr. destruct (Nat.eq_dec a b) as [<- | N].
    - destruct (lt_dec a (length h)) as [L | L].
      + rewrite nth_upd_nth_same by exact L. apply splice_length. exact H.
      + rewrite upd_nth_beyond by lia. reflexivity.
    - rewrite nth_upd_nth_other by exact N. reflexivity.
  Qed.

  Lemma wr_length h a off vals : length (wr h a off vals) = length h.
  Proof. apply upd_nth_length. Qed.

  Lemma wr_ext h a off vals : (off + length vals <= length (nth a h []))%nat -> ext h (wr h a off vals).
  Proof. intros H. split; [rewrite wr_length; lia|]. intros b _. apply wr_lengths. exact H. Qed.

  Lemma rd_length h w : inb h w -> length (rd h w) = sl_len w.
  Proof. unfold inb, rd. intros H. rewrite firstn_length, skipn_length. lia. Qed.

  Lemma rd_same_win h w w' : same_win w w' -> rd h w = rd h w'.
  Proof. intros (E & O & N). unfold rd. rewrite E, O, N. reflexivity. Qed.

  Lemma rd_wr_same h s vals w :
    inb h s -> length vals = sl_len s -> same_win w s -> rd (wr h (sl_arr s) (sl_off s) vals) w = vals.
  Proof.
    intros I Lv (E & O & N). unfold rd, wr. rewrite E, O, N. unfold inb in I.
    destruct (lt_dec (sl_arr s) (length h)) as [L | L].
    - rewrite nth_upd_nth_same by exact L. rewrite <- Lv. apply rd_splice_same. lia.
    - rewrite upd_nth_beyond by lia. rewrite nth_overflow in * by lia. cbn [length] in I.
      assert (Z0 : sl_len s = 0%nat) by lia. destruct vals; [|cbn in Lv; lia].
      rewrite Z0. reflexivity.
  Qed.

  Lemma rd_wr_sep h s vals w :
    inb h s -> length vals = sl_len s -> sep w s -> rd (wr h (sl_arr s) (sl_off s) vals) w = rd h w.
  Proof.
    intros I Lv S. unfold rd, wr. unfold inb in I.
    destruct (Nat.eq_dec (sl_arr s) (sl_arr w)) as [E | N].
    - destruct S as [S | S]; [congruence|]. rewrite <- E.
      destruct (lt_dec (sl_arr s) (length h)) as [L | L].
      + rewrite nth_upd_nth_same by exact L. apply rd_splice_other; lia.
      + rewrite upd_nth_beyond by lia. reflexivity.
    - rewrite nth_upd_nth_other by exact N. reflexivity.
  Qed.

  (** *** allocation *)

  Lemma nth_app_old h x a : (a < length h)%nat -> nth a (h ++ x) [] = nth a h [].
  Proof. intros H. apply app_nth1. exact H. Qed.

  Lemma app_ext h x : ext h (h ++ x).
  Proof. split; [rewrite app_length; lia|]. intros a Ha. rewrite nth_app_old by exact Ha. reflexivity. Qed.

  Lemma rd_app_old h x w : inb h w -> rd (h ++ x) w = rd h w.
  Proof.
    intros H. destruct (lt_dec (sl_arr w) (length h)) as [Lt | Ge].
    - unfold rd. rewrite nth_app_old by exact Lt. reflexivity.
    - destruct (inb_zero h w H ltac:(lia)) as (O & N). unfold rd. rewrite N. reflexivity.
  Qed.

  Lemma rd_alloc_new h (vals : list A) : rd (h ++ [vals]) (mkSl (length h) 0 (length vals)) = vals.
  Proof.
    unfold rd. cbn [sl_arr sl_off sl_len]. rewrite app_nth2, Nat.sub_diag by lia. cbn [nth skipn].
    apply firstn_all.
  Qed.

  Lemma inb_alloc_new h (vals : list A) : inb (h ++ [vals]) (mkSl (length h) 0 (length vals)).
  Proof. unfold inb. cbn [sl_arr sl_off sl_len]. rewrite app_nth2, Nat.sub_diag by lia. cbn. lia. Qed.
End Arrays.

(** ** Range windows *)

Definition Wok (h0 : rheap) (W0 : list sl) : Prop :=
  Forall (inb h0) W0 /\ forall w w', In w W0 -> In w' W0 -> same_win w w' \/ sep w w'.

Section Windows.
  Variable h0 : rheap.
  Variable W0 : list sl.
  Hypothesis WF0 : Wok h0 W0.

  (** the whole of an array allocated after the start *)
  Definition fresh (h : rheap) (w : sl) : Prop :=
    (length h0 <= sl_arr w)%nat /\ (sl_arr w < length h)%nat /\ sl_off w = 0%nat /\
    sl_len w = length (nth (sl_arr w) h []).
  Definition okw (h : rheap) (w : sl) : Prop := In w W0 \/ fresh h w.

  Lemma okw_mono h h' w : ext h h' -> okw h w -> okw h' w.
  Proof.
    intros (L & E) [I | (A0 & A1 & O & N)]; [left; exact I|]. right.
    repeat split; try assumption; try lia. rewrite E by exact A1. exact N.
  Qed.

  Lemma okw_inb h w : ext h0 h -> okw h w -> inb h w.
  Proof.
    intros X [I | (A0 & A1 & O & N)].
    - destruct WF0 as (B & _). rewrite Forall_forall in B. apply (inb_ext h0 h w X). apply B. exact I.
    - unfold inb. rewrite O, N. lia.
  Qed.

  Lemma okw_pair h w w' : ext h0 h -> okw h w -> okw h w' -> same_win w w' \/ sep w w'.
  Proof.
    intros X [I | (A0 & A1 & O & N)] [I' | (A0' & A1' & O' & N')].
    - destruct WF0 as (_ & D). apply D; assumption.
    - right. destruct WF0 as (B & _). rewrite Forall_forall in B. specialize (B w I).
      destruct (lt_dec (sl_arr w) (length h0)) as [Lt | Ge]; [left; lia|].
      destruct (inb_zero h0 w B ltac:(lia)) as (Ow & Nw). right. left. lia.
    - right. destruct WF0 as (B & _). rewrite Forall_forall in B. specialize (B w' I').
      destruct (lt_dec (sl_arr w') (length h0)) as [Lt | Ge]; [left; lia|].
      destruct (inb_zero h0 w' B ltac:(lia)) as (Ow & Nw). right. right. lia.
    - destruct (Nat.eq_dec (sl_arr w) (sl_arr w')) as [E | Ne]; [|right; left; exact Ne].
      left. unfold same_win. rewrite E in N. lia.
  Qed.

  (** [h'] is [h] up to the order of the ranges inside the windows, and new arrays *)
  Definition keeps (h h' : rheap) : Prop :=
    ext h h' /\ forall w, okw h w -> Permutation (rd h w) (rd h' w).
  (** ... with the windows exactly as they were *)
  Definition same (h h' : rheap) : Prop :=
    ext h h' /\ forall w, okw h w -> rd h' w = rd h w.

  Lemma same_keeps h h' : same h h' -> keeps h h'.
  Proof. intros (X & S). split; [exact X|]. intros w Hw. rewrite S by exact Hw. reflexivity. Qed.
  Lemma same_refl h : same h h.
  Proof. split; [apply ext_refl | reflexivity]. Qed.
  Lemma keeps_refl h : keeps h h.
  Proof. apply same_keeps, same_refl. Qed.
  Lemma keeps_trans h1 h2 h3 : keeps h1 h2 -> keeps h2 h3 -> keeps h1 h3.
  Proof.
    intros (X1 & P1) (X2 & P2). split; [eapply ext_trans; eassumption|].
    intros w Hw. eapply perm_trans; [apply P1; exact Hw|]. apply P2. eapply okw_mono; eassumption.
  Qed.
  Lemma same_trans h1 h2 h3 : same h1 h2 -> same h2 h3 -> same h1 h3.
  Proof.
    intros (X1 & P1) (X2 & P2). split; [eapply ext_trans; eassumption|].
    intros w Hw. rewrite P2 by (eapply okw_mono; eassumption). apply P1. exact Hw.
  Qed.

  (** *** the two ways the range heap changes *)

  Lemma alloc_same h vals : ext h0 h -> same h (h ++ [vals]).
  Proof.
    intros X. split; [apply app_ext|]. intros w Hw. apply rd_app_old. apply okw_inb; assumption.
  Qed.

  Lemma alloc_okw h vals : ext h0 h -> okw (h ++ [vals]) (mkSl (length h) 0 (length vals)).
  Proof.
    intros (L & _). right. unfold fresh. cbn [sl_arr sl_off sl_len].
    rewrite app_length, app_nth2, Nat.sub_diag by lia. cbn. repeat split; lia.
  Qed.

  Lemma sort_keeps h s : ext h0 h -> okw h s -> keeps h (sort_inplace h s) /\ length (sort_inplace h s) = length h.
  Proof.
    intros X Hs. unfold sort_inplace. destruct (sl_len s <? 2)%nat; [split; [apply keeps_refl | reflexivity]|].
    pose proof (okw_inb h s X Hs) as B.
    assert (Lv : length (sort_off (rd h s)) = sl_len s).
    { rewrite (Permutation_length (sort_off_perm (rd h s))). apply rd_length. exact B. }
    split; [|apply wr_length]. split.
    - apply wr_ext. rewrite Lv. exact B.
    - intros w Hw. destruct (okw_pair h w s X Hw Hs) as [S | S].
      + rewrite (rd_wr_same h s _ w B Lv S), (rd_same_win h w s S). apply Permutation_sym, sort_off_perm.
      + rewrite (rd_wr_sep h s _ w B Lv S). reflexivity.
  Qed.

  (** cells outside every window are not written by a sort *)
  Lemma sort_cells h s a i :
    ext h0 h -> okw h s ->
    (sl_arr s <> a \/ i < sl_off s \/ sl_off s + sl_len s <= i)%nat ->
    nth i (nth a (sort_inplace h s) []) (mkR 0 0) = nth i (nth a h []) (mkR 0 0).
  Proof.
    intros X Hs O. unfold sort_inplace. destruct (sl_len s <? 2)%nat; [reflexivity|].
    pose proof (okw_inb h s X Hs) as B.
    assert (Lv : length (sort_off (rd h s)) = sl_len s).
    { rewrite (Permutation_length (sort_off_perm (rd h s))). apply rd_length. exact B. }
    unfold wr. destruct (Nat.eq_dec (sl_arr s) a) as [<- | Ne].
    - destruct (lt_dec (sl_arr s) (length h)) as [L | L].
      + rewrite nth_upd_nth_same by exact L. apply nth_splice_other; unfold inb in B; lia.
      + rewrite upd_nth_beyond by lia. reflexivity.
    - rewrite nth_upd_nth_other by exact Ne. reflexivity.
  Qed.

  (** *** the functions of the model on Reference structs *)

  Definition hok (h : rheap) (l : list hdr) : Prop := Forall (fun x => okw h (hd_rs x)) l.
  Definition same_key (x y : hdr) : Prop := hd_art x = hd_art y /\ hd_map x = hd_map y.

  Lemma hok_mono h h' l : ext h h' -> hok h l -> hok h' l.
  Proof. intros X. apply Forall_impl. intros x. apply okw_mono. exact X. Qed.

  Lemma rsm_keeps h s h' s' : ext h0 h -> okw h s -> rsm h s = (h', s') ->
    ext h0 h' /\ keeps h h' /\ okw h' s'.
  Proof.
    intros X Hs E. unfold rsm in E. destruct (sl_len s <? 2)%nat.
    - inversion E; subst. split; [exact X|]. split; [apply keeps_refl | exact Hs].
    - unfold alloc in E. inversion E; subst. clear E.
      destruct (sort_keeps h s X Hs) as (K & L).
      assert (X1 : ext h0 (sort_inplace h s)) by (eapply ext_trans; [exact X | apply K]).
      split; [eapply ext_trans; [exact X1 | apply app_ext]|]. split.
      + eapply keeps_trans; [exact K|]. apply same_keeps. apply alloc_same. exact X1.
      + apply alloc_okw. exact X1.
  Qed.

  Lemma rsm_all_keeps : forall l h h' l', ext h0 h -> hok h l -> rsm_all h l = (h', l') ->
    ext h0 h' /\ keeps h h' /\ hok h' l' /\ Forall2 same_key l l'.
  Proof.
    induction l as [|x t IH]; intros h h' l' X F E; cbn [rsm_all] in E.
    - inversion E; subst. split; [exact X|]. split; [apply keeps_refl|]. split; constructor.
    - inversion F as [|? ? Hx Ht]; subst.
      destruct (rsm h (hd_rs x)) as (h1, s1) eqn:E1.
      destruct (rsm_all h1 t) as (h2, t') eqn:E2. inversion E; subst. clear E.
      destruct (rsm_keeps _ _ _ _ X Hx E1) as (X1 & K1 & O1).
      destruct (IH _ _ _ X1 (hok_mono _ _ _ (proj1 K1) Ht) E2) as (X2 & K2 & F2 & S2).
      split; [exact X2|]. split; [eapply keeps_trans; eassumption|]. split.
      + constructor; [|exact F2]. cbn [set_rs hd_rs]. eapply okw_mono; [apply K2 | exact O1].
      + constructor; [split; reflexivity | exact S2].
  Qed.

  Lemma hloop_keeps : forall l h cur h' out, ext h0 h -> okw h (hd_rs cur) -> hok h l ->
    hloop h cur l = (h', out) -> ext h0 h' /\ keeps h h' /\ hok h' out.
  Proof.
    induction l as [|x t IH]; intros h cur h' out X C F E; cbn [hloop] in E.
    - destruct (rsm h (hd_rs cur)) as (h1, s1) eqn:E1. inversion E; subst. clear E.
      destruct (rsm_keeps _ _ _ _ X C E1) as (X1 & K1 & O1).
      split; [exact X1|]. split; [exact K1|]. constructor; [exact O1 | constructor].
    - inversion F as [|? ? Hx Ht]; subst.
      destruct (art_eqb (hd_art x) (hd_art cur) && mapper_eqb (hd_map x) (hd_map cur)).
      + destruct (sl_len (hd_rs x)); [apply (IH _ _ _ _ X C Ht E)|].
        unfold alloc in E.
        set (v := rd h (hd_rs cur) ++ rd h (hd_rs x)) in *.
        assert (X1 : ext h0 (h ++ [v])) by (eapply ext_trans; [exact X | apply app_ext]).
        destruct (IH (h ++ [v]) (set_rs cur (mkSl (length h) 0 (length v))) h' out X1) as (X2 & K2 & F2).
        * cbn [set_rs hd_rs]. apply alloc_okw. exact X.
        * eapply hok_mono; [apply app_ext | exact Ht].
        * exact E.
        * split; [exact X2|]. split; [|exact F2].
          eapply keeps_trans; [apply same_keeps, alloc_same; exact X | exact K2].
      + destruct (sl_len (hd_rs cur)); [apply (IH _ _ _ _ X Hx Ht E)|].
        destruct (rsm h (hd_rs cur)) as (h1, s1) eqn:E1.
        destruct (hloop h1 x t) as (h2, out2) eqn:E2. inversion E; subst. clear E.
        destruct (rsm_keeps _ _ _ _ X C E1) as (X1 & K1 & O1).
        destruct (IH _ _ _ _ X1 (okw_mono _ _ _ (proj1 K1) Hx) (hok_mono _ _ _ (proj1 K1) Ht) E2) as (X2 & K2 & F2).
        split; [exact X2|]. split; [eapply keeps_trans; eassumption|].
        constructor; [|exact F2]. cbn [set_rs hd_rs]. eapply okw_mono; [apply K2 | exact O1].
  Qed.

  Lemma hloop_length : forall l h cur, (length (snd (hloop h cur l)) <= S (length l))%nat.
  Proof.
    induction l as [|x t IH]; intros h cur; cbn [hloop].
    - destruct (rsm h (hd_rs cur)). cbn. lia.
    - destruct (art_eqb (hd_art x) (hd_art cur) && mapper_eqb (hd_map x) (hd_map cur)).
      + destruct (sl_len (hd_rs x)).
        * specialize (IH h cur). cbn [length]. lia.
        * unfold alloc. match goal with |- context [hloop ?a ?b t] => specialize (IH a b) end. cbn [length]. lia.
      + destruct (sl_len (hd_rs cur)).
        * specialize (IH h x). cbn [length]. lia.
        * destruct (rsm h (hd_rs cur)) as (h1, s1). specialize (IH h1 x).
          destruct (hloop h1 x t). cbn [snd length] in *. lia.
  Qed.

  Lemma hins_perm x : forall l, Permutation (hins x l) (x :: l).
  Proof.
    induction l as [|y t IH]; cbn [hins]; [reflexivity|].
    destruct (is_lt (hcmp y x)); [|reflexivity].
    eapply perm_trans; [apply perm_skip; exact IH | apply perm_swap].
  Qed.
  Lemma hsort_perm l : Permutation (hsort l) l.
  Proof.
    induction l as [|x t IH]; cbn [hsort fold_right]; [reflexivity|].
    eapply perm_trans; [apply hins_perm | apply perm_skip; exact IH].
  Qed.
  Lemma hsort_hok h l : hok h l -> hok h (hsort l).
  Proof.
    unfold hok. rewrite !Forall_forall. intros F x Hx. apply F.
    eapply Permutation_in; [apply hsort_perm | exact Hx].
  Qed.

  (** the two-pointer walk only allocates *)
  Lemma excl_walk_h_nil_r h r0 t0 : excl_walk_h h (r0 :: t0) [] = Ok (h, r0 :: t0).
  Proof. reflexivity. Qed.
  Lemma excl_walk_h_cons h r0 t0 r1 t1 :
    excl_walk_h h (r0 :: t0) (r1 :: t1) =
    match hcmp r0 r1 with
    | CPanic => Panic
    | CLt => bind (excl_walk_h h t0 (r1 :: t1)) (fun p => Ok (fst p, r0 :: snd p))
    | CGt => excl_walk_h h (r0 :: t0) t1
    | CEq =>
        match exclude_ranges (rd h (hd_rs r0)) (rd h (hd_rs r1)) with
        | [] => excl_walk_h h t0 t1
        | res =>
            let '(h1, s) := alloc h res in
            bind (excl_walk_h h1 t0 t1) (fun p => Ok (fst p, set_rs r0 s :: snd p))
        end
    end.
  Proof. reflexivity. Qed.

  Lemma excl_walk_h_same : forall s0 s1 h h' out, ext h0 h -> hok h s0 ->
    excl_walk_h h s0 s1 = Ok (h', out) -> ext h0 h' /\ same h h' /\ hok h' out.
  Proof.
    induction s0 as [|r0 t0 IH0]; intros s1 h h' out X F E.
    - cbn in E. inversion E; subst. split; [exact X|]. split; [apply same_refl | constructor].
    - inversion F as [|? ? H0 Ht]; subst.
      revert E. induction s1 as [|r1 t1 IH1]; intros E.
      + rewrite excl_walk_h_nil_r in E. inversion E; subst. split; [exact X|]. split; [apply same_refl | exact F].
      + rewrite excl_walk_h_cons in E. destruct (hcmp r0 r1).
        * destruct (excl_walk_h h t0 (r1 :: t1)) as [[h2 rest]| | |] eqn:E'; try discriminate.
          cbn [bind fst snd] in E. inversion E; subst. clear E.
          destruct (IH0 _ _ _ _ X Ht E') as (X2 & S2 & F2).
          split; [exact X2|]. split; [exact S2|]. constructor; [|exact F2].
          eapply okw_mono; [apply S2 | exact H0].
        * destruct (exclude_ranges (rd h (hd_rs r0)) (rd h (hd_rs r1))) as [|e res].
          -- apply (IH0 _ _ _ _ X Ht E).
          -- unfold alloc in E. set (v := e :: res) in *.
             destruct (excl_walk_h (h ++ [v]) t0 t1) as [[h2 rest]| | |] eqn:E'; try discriminate.
             cbn [bind fst snd] in E. inversion E; subst. clear E.
             assert (X1 : ext h0 (h ++ [v])) by (eapply ext_trans; [exact X | apply app_ext]).
             destruct (IH0 _ _ _ _ X1 (hok_mono _ _ _ (app_ext h [v]) Ht) E') as (X2 & S2 & F2).
             split; [exact X2|]. split; [eapply same_trans; [apply alloc_same; exact X | exact S2]|].
             constructor; [|exact F2]. cbn [set_rs hd_rs].
             eapply okw_mono; [apply S2 | apply alloc_okw; exact X].
        * apply IH1. exact E.
        * discriminate.
  Qed.

  (** [Resolve] only allocates; the structs keep their artifacts *)
  Lemma resolve_h_same : forall l h h' l' e, ext h0 h -> hok h l -> resolve_h h l = (h', l', e) ->
    ext h0 h' /\ same h h' /\ hok h' l' /\ length l' = length l.
  Proof.
    induction l as [|x t IH]; intros h h' l' e X F E; cbn [resolve_h] in E.
    - inversion E; subst. split; [exact X|]. split; [apply same_refl|]. split; [constructor | reflexivity].
    - inversion F as [|? ? Hx Ht]; subst. destruct (is_nil (hd_map x)).
      + destruct (resolve_h h t) as ((h1, t'), e1) eqn:E1. inversion E; subst. clear E.
        destruct (IH _ _ _ _ X Ht E1) as (X1 & S1 & F1 & L1).
        split; [exact X1|]. split; [exact S1|]. split; [|cbn [length]; lia].
        constructor; [|exact F1]. eapply okw_mono; [apply S1 | exact Hx].
      + destruct (resolve (hd_map x) (zlen (acontent (hd_art x))) (rd h (hd_rs x))) as [rs| | |].
        2-4: inversion E; subst; split; [exact X|]; split; [apply same_refl|]; split; [exact F | reflexivity].
        unfold alloc in E.
        destruct (resolve_h (h ++ [rs]) t) as ((h1, t'), e1) eqn:E1. inversion E; subst. clear E.
        assert (X1 : ext h0 (h ++ [rs])) by (eapply ext_trans; [exact X | apply app_ext]).
        destruct (IH _ _ _ _ X1 (hok_mono _ _ _ (app_ext h [rs]) Ht) E1) as (X2 & S2 & F2 & L2).
        split; [exact X2|]. split; [eapply same_trans; [apply alloc_same; exact X | exact S2]|].
        split; [|cbn [length]; lia]. constructor; [|exact F2]. cbn [hd_rs].
        eapply okw_mono; [apply S2 | apply alloc_okw; exact X].
  Qed.

  (** [RawBytes] only sorts windows in place *)
  Lemma ref_rawbytes_h_keeps h x : ext h0 h -> okw h (hd_rs x) ->
    keeps h (fst (ref_rawbytes_h h x)) /\ length (fst (ref_rawbytes_h h x)) = length h.
  Proof. intros X Hx. unfold ref_rawbytes_h. cbn [fst]. apply sort_keeps; assumption. Qed.

  Lemma rawbytes_h_keeps : forall l h, ext h0 h -> hok h l ->
    keeps h (fst (rawbytes_h h l)) /\ length (fst (rawbytes_h h l)) = length h.
  Proof.
    induction l as [|x t IH]; intros h X F; cbn [rawbytes_h].
    - split; [apply keeps_refl | reflexivity].
    - inversion F as [|? ? Hx Ht]; subst.
      destruct (ref_rawbytes_h_keeps h x X Hx) as (K1 & L1).
      unfold ref_rawbytes_h in *. cbn [fst] in *.
      set (h1 := sort_inplace h (hd_rs x)) in *.
      destruct (ref_rawbytes (hval h1 x)); cbn [fst]; try (split; assumption).
      assert (X1 : ext h0 h1) by (eapply ext_trans; [exact X | apply K1]).
      destruct (IH h1 X1 (hok_mono _ _ _ (proj1 K1) Ht)) as (K2 & L2).
      destruct (rawbytes_h h1 t) as (h2, o2). cbn [fst] in *.
      split; [eapply keeps_trans; eassumption | lia].
  Qed.
End Windows.

(** ** Memory: arrays of Reference structs over the range heap *)

Lemma Forall_firstn' {A} (P : A -> Prop) : forall n l, Forall P l -> Forall P (firstn n l).
Proof. induction n; intros l F; cbn; [constructor|]. destruct F; constructor; auto. Qed.
Lemma Forall_skipn' {A} (P : A -> Prop) : forall n l, Forall P l -> Forall P (skipn n l).
Proof. induction n; intros l F; cbn; [exact F|]. destruct F; [constructor | auto]. Qed.
Lemma Forall_upd_nth {A} (P : A -> Prop) (f : A -> A) : (forall x, P x -> P (f x)) ->
  forall n l, Forall P l -> Forall P (upd_nth n f l).
Proof.
  intros Hf. induction n; intros l F; destruct F; cbn; constructor; auto.
Qed.
Lemma Forall2_len {A B} (R : A -> B -> Prop) l l' : Forall2 R l l' -> length l = length l'.
Proof. induction 1; cbn; congruence. Qed.
Lemma upd_nth_id {A} (f : A -> A) : (forall x, f x = x) -> forall n l, upd_nth n f l = l.
Proof. intros Hf. induction n; destruct l; cbn; auto; f_equal; auto. Qed.

Lemma wr_nil {A} (h : list (list A)) a off : wr h a off [] = h.
Proof.
  unfold wr. apply upd_nth_id. intros arr. unfold splice. cbn [app length].
  rewrite Nat.add_0_r. apply firstn_skipn.
Qed.

Lemma nth_error_set_nth_other {A} (x : A) : forall n m l, n <> m -> nth_error (set_nth n x l) m = nth_error l m.
Proof. induction n; destruct l, m; cbn; intros; try congruence; auto. Qed.
Lemma nth_error_set_nth_same {A} (x : A) : forall n l, (n < length l)%nat -> nth_error (set_nth n x l) n = Some x.
Proof. induction n; destruct l; cbn; intros; try lia; auto. apply IHn. lia. Qed.
Lemma set_nth_length {A} (x : A) : forall n l, length (set_nth n x l) = length l.
Proof. induction n; destruct l; cbn; auto. Qed.
Lemma Forall_set_nth {A} (P : A -> Prop) (x : A) : P x -> forall n l, Forall P l -> Forall P (set_nth n x l).
Proof. intros Px. induction n; intros l F; destruct F; cbn; constructor; auto. Qed.

(** the arrays that exist keep their cells; there may be new arrays *)
Definition fsame {A} (f f' : list (list A)) : Prop :=
  ext f f' /\ forall fw, inb f fw -> rd f' fw = rd f fw.

Lemma fsame_refl {A} (f : list (list A)) : fsame f f.
Proof. split; [apply ext_refl | reflexivity]. Qed.
Lemma fsame_trans {A} (f1 f2 f3 : list (list A)) : fsame f1 f2 -> fsame f2 f3 -> fsame f1 f3.
Proof.
  intros (X1 & S1) (X2 & S2). split; [eapply ext_trans; eassumption|].
  intros fw I. rewrite S2 by (eapply inb_ext; eassumption). apply S1. exact I.
Qed.
Lemma fsame_alloc {A} (f : list (list A)) c : fsame f (f ++ [c]).
Proof. split; [apply app_ext|]. intros fw I. apply rd_app_old. exact I. Qed.

(** a window of the old arrays and a window over a later array do not meet *)
Lemma sep_later {A} (f : list (list A)) fw s :
  inb f fw -> (length f <= sl_arr s)%nat -> sl_off s = 0%nat -> sep fw s.
Proof.
  intros I L O. destruct (lt_dec (sl_arr fw) (length f)) as [Lt | Ge]; [left; lia|].
  destruct (inb_zero f fw I ltac:(lia)) as (Of & Nf). right. left. lia.
Qed.

(** writing into an array allocated later *)
Lemma fsame_wr_later {A} (f f1 : list (list A)) s c :
  fsame f f1 -> (length f <= sl_arr s)%nat -> sl_off s = 0%nat -> inb f1 s -> length c = sl_len s ->
  fsame f (wr f1 (sl_arr s) (sl_off s) c).
Proof.
  intros (X & S) L O I Lc. split.
  - eapply ext_trans; [exact X|]. apply wr_ext. rewrite Lc. exact I.
  - intros fw Ifw. rewrite rd_wr_sep; [apply S; exact Ifw | exact I | exact Lc |].
    apply (sep_later f); assumption.
Qed.

Section Memory.
  Variable h0 : rheap.
  Variable W0 : list sl.
  Hypothesis WF0 : Wok h0 W0.

  (** every struct of every array has a good window as its Ranges *)
  Definition fok (h : rheap) (f : list (list hdr)) : Prop := Forall (hok h0 W0 h) f.

  Lemma fok_mono h h' f : ext h h' -> fok h f -> fok h' f.
  Proof. intros X. apply Forall_impl. intros l. apply hok_mono. exact X. Qed.

  Lemma fok_rd h f s : fok h f -> hok h0 W0 h (rd f s).
  Proof.
    intros F. unfold rd. apply Forall_firstn', Forall_skipn'.
    destruct (lt_dec (sl_arr s) (length f)) as [L | G].
    - unfold fok in F. rewrite Forall_forall in F. apply F. apply nth_In. exact L.
    - rewrite nth_overflow by lia. constructor.
  Qed.

  Lemma fok_alloc h f c : fok h f -> hok h0 W0 h c -> fok h (f ++ [c]).
  Proof. intros F C. apply Forall_app. split; [exact F | constructor; [exact C | constructor]]. Qed.

  Lemma fok_wr h f a off c : fok h f -> hok h0 W0 h c -> fok h (wr f a off c).
  Proof.
    intros F C. unfold wr. apply Forall_upd_nth; [|exact F]. intros arr Ha. unfold splice.
    apply Forall_app. split; [apply Forall_firstn'; exact Ha|].
    apply Forall_app. split; [exact C | apply Forall_skipn'; exact Ha].
  Qed.

  (** *** References.SortAndMerge *)

  Lemma sm_h_spec m s m' s' :
    ext h0 (m_r m) -> fok (m_r m) (m_f m) -> inb (m_f m) s -> sm_h m s = Ok (m', s') ->
    ext h0 (m_r m') /\ keeps h0 W0 (m_r m) (m_r m') /\
    (exists c, m_f m' = wr (m_f m) (sl_arr s) (sl_off s) c /\ length c = sl_len s /\ hok h0 W0 (m_r m') c) /\
    sl_arr s' = sl_arr s /\ sl_off s' = sl_off s /\ (sl_len s' <= sl_len s)%nat.
  Proof.
    intros X F I E. unfold sm_h in E.
    pose proof (rd_length (m_f m) s I) as Ll. pose proof (fok_rd _ _ s F) as Hl.
    destruct (rd (m_f m) s) as [|y l] eqn:El.
    - inversion E; subst. split; [exact X|]. split; [apply keeps_refl|]. split; [|repeat split; lia].
      exists []. rewrite wr_nil. cbn [length] in *. repeat split; [lia | constructor].
    - destruct (has_conflict (map hkey (y :: l))); [discriminate|].
      destruct (rsm_all (m_r m) (hsort (y :: l))) as (h1, l2) eqn:E1.
      destruct (rsm_all_keeps h0 W0 WF0 _ _ _ _ X (hsort_hok h0 W0 _ _ Hl) E1) as (X1 & K1 & F1 & S1).
      assert (L2 : length l2 = length (y :: l)).
      { rewrite <- (Forall2_len _ _ _ S1). apply Permutation_length, hsort_perm. }
      destruct l2 as [|x t]; [cbn in L2; lia|].
      destruct (hloop h1 x t) as (h2, out) eqn:E2. inversion E; subst. clear E. cbn [m_r m_f sl_arr sl_off sl_len].
      inversion F1 as [|? ? Fx Ft]; subst.
      destruct (hloop_keeps h0 W0 WF0 _ _ _ _ _ X1 Fx Ft E2) as (X2 & K2 & F2).
      pose proof (hloop_length t h1 x) as Lo. rewrite E2 in Lo. cbn [snd] in Lo.
      split; [exact X2|]. split; [eapply keeps_trans; eassumption|]. split; [|repeat split; cbn [length] in *; lia].
      eexists. split; [reflexivity|]. split.
      + rewrite app_length, skipn_length. cbn [length] in *. lia.
      + apply Forall_app. split; [exact F2|]. apply Forall_skipn'.
        eapply hok_mono; [apply K2 | exact F1].
  Qed.

  (** *** References.Exclude *)

  (** a copy of the structs, sorted and merged: the arrays that existed are not written *)
  Lemma copy_sm_spec m s m0 c0 m1 s1 :
    ext h0 (m_r m) -> fok (m_r m) (m_f m) -> inb (m_f m) s ->
    copy_h m s = (m0, c0) -> sm_h m0 c0 = Ok (m1, s1) ->
    ext h0 (m_r m1) /\ keeps h0 W0 (m_r m) (m_r m1) /\ fok (m_r m1) (m_f m1) /\
    fsame (m_f m) (m_f m1) /\ inb (m_f m1) s1.
  Proof.
    intros X F I Ec Es. unfold copy_h, alloc in Ec. inversion Ec; subst. clear Ec.
    set (f1 := m_f m ++ [rd (m_f m) s]) in *.
    set (c0 := mkSl (length (m_f m)) 0 (length (rd (m_f m) s))) in *.
    assert (F1 : fok (m_r m) f1) by (apply fok_alloc; [exact F | apply fok_rd; exact F]).
    assert (I0 : inb f1 c0) by apply inb_alloc_new.
    destruct (sm_h_spec (mkMem (m_r m) f1) c0 m1 s1 X F1 I0 Es) as (X1 & K1 & (c & Ef & Lc & Hc) & A1 & O1 & N1).
    cbn [m_r m_f] in *.
    split; [exact X1|]. split; [exact K1|]. split; [|split].
    - rewrite Ef. apply fok_wr; [eapply fok_mono; [apply K1 | exact F1] | exact Hc].
    - rewrite Ef. apply (fsame_wr_later (m_f m)); [apply fsame_alloc | cbn; lia | reflexivity | exact I0 | exact Lc].
    - unfold inb. rewrite A1, O1, Ef, wr_lengths by (rewrite Lc; exact I0). unfold inb in I0. lia.
  Qed.

  Lemma exclude_h_spec m s e m' x :
    ext h0 (m_r m) -> fok (m_r m) (m_f m) -> inb (m_f m) s -> inb (m_f m) e ->
    exclude_h m s e = Ok (m', x) ->
    ext h0 (m_r m') /\ keeps h0 W0 (m_r m) (m_r m') /\ fok (m_r m') (m_f m') /\
    fsame (m_f m) (m_f m') /\ inb (m_f m') x /\ (length (m_f m) <= sl_arr x)%nat /\ sl_off x = 0%nat.
  Proof.
    intros X F Is Ie E. unfold exclude_h in E. destruct (sl_len s).
    - unfold alloc in E. inversion E; subst. clear E. cbn [m_r m_f sl_arr sl_off].
      split; [exact X|]. split; [apply keeps_refl|]. split; [apply fok_alloc; [exact F | constructor]|].
      split; [apply fsame_alloc|]. split; [apply (inb_alloc_new (m_f m) [])|]. split; [lia | reflexivity].
    - destruct (copy_h m s) as (m0, c0) eqn:Ec0.
      destruct (sm_h m0 c0) as [[m1 s0]| | |] eqn:Es0; try discriminate. cbn [bind fst snd] in E.
      destruct (copy_sm_spec _ _ _ _ _ _ X F Is Ec0 Es0) as (X1 & K1 & F1 & S1 & I1).
      destruct (copy_h m1 e) as (m1', c1) eqn:Ec1.
      destruct (sm_h m1' c1) as [[m2 s1]| | |] eqn:Es1; try discriminate. cbn [bind fst snd] in E.
      destruct (copy_sm_spec _ _ _ _ _ _ X1 F1 (inb_ext _ _ _ (proj1 S1) Ie) Ec1 Es1) as (X2 & K2 & F2 & S2 & I2).
      destruct (excl_walk_h (m_r m2) (rd (m_f m2) s0) (rd (m_f m2) s1)) as [[h3 out]| | |] eqn:Ew; try discriminate.
      cbn [bind fst snd] in E. unfold alloc in E. inversion E; subst. clear E. cbn [m_r m_f sl_arr sl_off].
      destruct (excl_walk_h_same h0 W0 WF0 _ _ _ _ _ X2 (fok_rd _ _ s0 F2) Ew) as (X3 & S3 & F3).
      split; [exact X3|]. split; [eapply keeps_trans; [exact K1|]; eapply keeps_trans; [exact K2 | apply same_keeps; exact S3]|].
      split; [apply fok_alloc; [eapply fok_mono; [apply S3 | exact F2] | exact F3]|].
      split; [eapply fsame_trans; [exact S1|]; eapply fsame_trans; [exact S2 | apply fsame_alloc]|].
      split; [apply inb_alloc_new|]. split; [|reflexivity].
      destruct S1 as ((L1 & _) & _). destruct S2 as ((L2 & _) & _). lia.
  Qed.

  (** ** Programs *)

  Definition vok (m : mem) (v : value) : Prop :=
    match v with VRefs s => inb (m_f m) s | VRngs s => okw h0 W0 (m_r m) s end.

  (** two References variables do not share cells *)
  Definition env_sep (env : list value) : Prop :=
    forall i j s t, i <> j -> nth_error env i = Some (VRefs s) -> nth_error env j = Some (VRefs t) -> sep s t.

  Record SInv (st : state) : Prop := mkSInv {
    si_ext : ext h0 (m_r (st_m st));
    si_fok : fok (m_r (st_m st)) (m_f (st_m st));
    si_env : Forall (vok (st_m st)) (st_env st);
    si_sep : env_sep (st_env st) }.

  (** the variable an operation is documented to modify *)
  Definition target (o : op) : option nat :=
    match o with OSortMerge v | OResolve v | ORngSM v => Some v | _ => None end.
  (** the operations known to sort range slices in place *)
  Definition sorter (o : op) : bool :=
    match o with OExclude _ _ | OSortMerge _ | ORawBytes _ | ORefBytes _ _ | ORngSM _ => true | _ => false end.

  (** what a step does, as far as the rest of memory is concerned *)
  Record Post (st : state) (o : op) (st' : state) : Prop := mkPost {
    po_keeps : keeps h0 W0 (m_r (st_m st)) (m_r (st_m st'));
    po_same : sorter o = false -> same h0 W0 (m_r (st_m st)) (m_r (st_m st'));
    po_fext : ext (m_f (st_m st)) (m_f (st_m st'));
    po_frame : forall fw, inb (m_f (st_m st)) fw ->
      (forall v s, target o = Some v -> get_refs st v = Some s -> sep fw s) ->
      rd (m_f (st_m st')) fw = rd (m_f (st_m st)) fw;
    po_env : forall u, target o <> Some u -> (u < length (st_env st))%nat ->
      nth_error (st_env st') u = nth_error (st_env st) u }.

  Lemma get_refs_nth st v s : get_refs st v = Some s <-> nth_error (st_env st) v = Some (VRefs s).
  Proof.
    unfold get_refs. destruct (nth_error (st_env st) v) as [[x | x]|]; split; intros H; inversion H; reflexivity.
  Qed.
  Lemma get_rngs_nth st v s : get_rngs st v = Some s <-> nth_error (st_env st) v = Some (VRngs s).
  Proof.
    unfold get_rngs. destruct (nth_error (st_env st) v) as [[x | x]|]; split; intros H; inversion H; reflexivity.
  Qed.

  Lemma env_vok m env v x : Forall (vok m) env -> nth_error env v = Some x -> vok m x.
  Proof. intros F H. rewrite Forall_forall in F. apply F. eapply nth_error_In. exact H. Qed.

  Lemma vok_mono m m' v : ext (m_r m) (m_r m') -> ext (m_f m) (m_f m') -> vok m v -> vok m' v.
  Proof.
    intros Xr Xf. destruct v as [s | s]; cbn [vok].
    - apply inb_ext. exact Xf.
    - apply okw_mono. exact Xr.
  Qed.

  Lemma env_sep_push env v (f : list (list hdr)) :
    env_sep env -> (forall i t, nth_error env i = Some (VRefs t) -> inb f t) ->
    (forall s, v = VRefs s -> (length f <= sl_arr s)%nat /\ sl_off s = 0%nat) ->
    env_sep (env ++ [v]).
  Proof.
    intros Sp In Hv i j s t Ne Hi Hj.
    destruct (lt_dec i (length env)) as [Li | Gi]; destruct (lt_dec j (length env)) as [Lj | Gj].
    - rewrite nth_error_app1 in Hi, Hj by assumption. eapply (Sp i j); eassumption.
    - rewrite nth_error_app1 in Hi by assumption. rewrite nth_error_app2 in Hj by lia.
      destruct (j - length env)%nat as [|k] eqn:Ek; [|destruct k; discriminate]. cbn in Hj. inversion Hj; subst.
      destruct (Hv t eq_refl) as (A & O). apply (sep_later f); [eapply In; exact Hi | exact A | exact O].
    - rewrite nth_error_app1 in Hj by assumption. rewrite nth_error_app2 in Hi by lia.
      destruct (i - length env)%nat as [|k] eqn:Ek; [|destruct k; discriminate]. cbn in Hi. inversion Hi; subst.
      destruct (Hv s eq_refl) as (A & O). apply sep_sym. apply (sep_later f); [eapply In; exact Hj | exact A | exact O].
    - rewrite nth_error_app2 in Hi, Hj by lia.
      destruct (i - length env)%nat as [|k] eqn:Ek; [|destruct k; discriminate].
      destruct (j - length env)%nat as [|k'] eqn:Ek'; [|destruct k'; discriminate]. lia.
  Qed.

  Lemma env_sep_shrink env v s s' :
    env_sep env -> nth_error env v = Some (VRefs s) ->
    sl_arr s' = sl_arr s -> sl_off s' = sl_off s -> (sl_len s' <= sl_len s)%nat ->
    env_sep (set_nth v (VRefs s') env).
  Proof.
    intros Sp Hv A O N i j a b Ne Hi Hj.
    assert (Lv : (v < length env)%nat) by (apply nth_error_Some; congruence).
    assert (Sh : forall t, sep s t -> sep s' t).
    { intros t [D | [D | D]]; unfold sep; rewrite A, O; [left; exact D | right; left; lia | right; right; lia]. }
    destruct (Nat.eq_dec i v) as [-> | Niv]; destruct (Nat.eq_dec j v) as [-> | Njv]; try lia.
    - rewrite nth_error_set_nth_same in Hi by exact Lv. inversion Hi; subst.
      rewrite nth_error_set_nth_other in Hj by lia. apply Sh. eapply (Sp v j); eassumption.
    - rewrite nth_error_set_nth_same in Hj by exact Lv. inversion Hj; subst.
      rewrite nth_error_set_nth_other in Hi by lia. apply sep_sym, Sh. eapply (Sp v i); eauto.
    - rewrite (nth_error_set_nth_other (VRefs s') v i env) in Hi by lia.
      rewrite (nth_error_set_nth_other (VRefs s') v j env) in Hj by lia. eapply (Sp i j); eassumption.
  Qed.

  (** an operation that yields a new variable and is not documented to modify anything *)
  Lemma push_step st m' v o :
    SInv st -> target o = None ->
    ext h0 (m_r m') -> keeps h0 W0 (m_r (st_m st)) (m_r m') ->
    (sorter o = false -> same h0 W0 (m_r (st_m st)) (m_r m')) ->
    fok (m_r m') (m_f m') -> fsame (m_f (st_m st)) (m_f m') -> vok m' v ->
    (forall s, v = VRefs s -> (length (m_f (st_m st)) <= sl_arr s)%nat /\ sl_off s = 0%nat) ->
    SInv (push st m' v) /\ Post st o (push st m' v).
  Proof.
    intros [X F Ev Sp] T X' K S F' (Xf & Sf) Vv Hv. split.
    - constructor; cbn [push st_m st_env].
      + exact X'.
      + exact F'.
      + apply Forall_app. split; [|constructor; [exact Vv | constructor]].
        eapply Forall_impl; [|exact Ev]. intros x. apply vok_mono; [apply K | exact Xf].
      + apply (env_sep_push _ _ (m_f (st_m st))); [exact Sp | | exact Hv].
        intros i t Hi. exact (env_vok _ _ _ _ Ev Hi).
    - constructor; cbn [push st_m st_env].
      + exact K.
      + exact S.
      + exact Xf.
      + intros fw I _. apply Sf. exact I.
      + intros u _ Lu. apply nth_error_app1. exact Lu.
  Qed.

  Theorem step_inv st o st' r : SInv st -> step st o = Some (st', r) -> SInv st' /\ Post st o st'.
  Proof.
    intros Hinv E. pose proof Hinv as [X F Ev Sp]. unfold step in E. destruct o as [v | v a | v | v w | v | v | v | v i | v].
    - (* copy *)
      destruct (get_refs st v) as [s|] eqn:G; [|discriminate].
      unfold copy_h, alloc in E. inversion E; subst. clear E.
      apply push_step; try assumption; try reflexivity; cbn [m_r m_f].
      + apply keeps_refl.
      + intros _. apply same_refl.
      + apply fok_alloc; [exact F | apply fok_rd; exact F].
      + apply fsame_alloc.
      + cbn [vok m_f]. apply inb_alloc_new.
      + intros s' [= <-]. cbn. split; [lia | reflexivity].
    - (* BySystemArtifact *)
      destruct (get_refs st v) as [s|] eqn:G; [|discriminate].
      unfold alloc in E. inversion E; subst. clear E.
      apply push_step; try assumption; try reflexivity; cbn [m_r m_f].
      + apply keeps_refl.
      + intros _. apply same_refl.
      + apply fok_alloc; [exact F|]. pose proof (fok_rd _ _ s F) as Hs.
        unfold hok in *. rewrite Forall_forall in *. intros x Hx. apply filter_In in Hx. apply Hs, Hx.
      + apply fsame_alloc.
      + cbn [vok m_f]. apply inb_alloc_new.
      + intros s' [= <-]. cbn. split; [lia | reflexivity].
    - (* Ranges *)
      destruct (get_refs st v) as [s|] eqn:G; [|discriminate].
      unfold alloc in E. inversion E; subst. clear E.
      apply push_step; try assumption; try reflexivity; cbn [m_r m_f].
      + eapply ext_trans; [exact X | apply app_ext].
      + apply same_keeps, alloc_same; assumption.
      + intros _. apply alloc_same; assumption.
      + eapply fok_mono; [apply app_ext | exact F].
      + apply fsame_refl.
      + cbn [vok m_r]. apply alloc_okw; assumption.
      + intros s' [=].
    - (* Exclude *)
      destruct (get_refs st v) as [s|] eqn:G; [|discriminate].
      destruct (get_refs st w) as [e|] eqn:G'; [|discriminate].
      destruct (exclude_h (st_m st) s e) as [[m' x]| | |] eqn:Ex; try discriminate.
      inversion E; subst. clear E.
      apply get_refs_nth in G, G'.
      pose proof (env_vok _ _ _ _ Ev G) as Is. pose proof (env_vok _ _ _ _ Ev G') as Ie. cbn [vok] in Is, Ie.
      destruct (exclude_h_spec _ _ _ _ _ X F Is Ie Ex) as (X' & K & F' & Sf & Ix & Ax & Ox).
      apply push_step; try assumption; try reflexivity.
      + intros [=].
      + intros s' [= <-]. split; assumption.
    - (* SortAndMerge *)
      destruct (get_refs st v) as [s|] eqn:G; [|discriminate].
      destruct (sm_h (st_m st) s) as [[m' s']| | |] eqn:Es; try discriminate.
      inversion E; subst. clear E.
      pose proof G as G0. apply get_refs_nth in G.
      pose proof (env_vok _ _ _ _ Ev G) as Is. cbn [vok] in Is.
      destruct (sm_h_spec _ _ _ _ X F Is Es) as (X' & K & (c & Ef & Lc & Hc) & A & O & N).
      assert (Xf : ext (m_f (st_m st)) (m_f m')) by (rewrite Ef; apply wr_ext; rewrite Lc; exact Is).
      split.
      + constructor; cbn [st_m st_env].
        * exact X'.
        * rewrite Ef. apply fok_wr; [eapply fok_mono; [apply K | exact F] | exact Hc].
        * apply Forall_set_nth.
          -- cbn [vok]. unfold inb. rewrite A, O, Ef, wr_lengths by (rewrite Lc; exact Is). unfold inb in Is. lia.
          -- eapply Forall_impl; [|exact Ev]. intros y. apply vok_mono; [apply K | exact Xf].
        * eapply env_sep_shrink; eassumption.
      + constructor; cbn [st_m st_env].
        * exact K.
        * intros [=].
        * exact Xf.
        * intros fw I Hs. rewrite Ef. apply rd_wr_sep; [exact Is | exact Lc |]. apply (Hs v s); [reflexivity | exact G0].
        * intros u Nu _. apply nth_error_set_nth_other. cbn [target] in Nu. congruence.
    - (* Resolve *)
      destruct (get_refs st v) as [s|] eqn:G; [|discriminate].
      destruct (resolve_h (m_r (st_m st)) (rd (m_f (st_m st)) s)) as ((h, l), e) eqn:Er.
      inversion E; subst. clear E.
      pose proof G as G0. apply get_refs_nth in G.
      pose proof (env_vok _ _ _ _ Ev G) as Is. cbn [vok] in Is.
      destruct (resolve_h_same h0 W0 WF0 _ _ _ _ _ X (fok_rd _ _ s F) Er) as (X' & S & Hl & Ll).
      rewrite (rd_length _ _ Is) in Ll.
      assert (Xf : ext (m_f (st_m st)) (wr (m_f (st_m st)) (sl_arr s) (sl_off s) l)) by (apply wr_ext; rewrite Ll; exact Is).
      split.
      + constructor; cbn [st_m st_env m_r m_f].
        * exact X'.
        * apply fok_wr; [eapply fok_mono; [apply S | exact F] | exact Hl].
        * eapply Forall_impl; [|exact Ev]. intros y. apply vok_mono; [apply S | exact Xf].
        * exact Sp.
      + constructor; cbn [st_m st_env m_r m_f].
        * apply same_keeps. exact S.
        * intros _. exact S.
        * exact Xf.
        * intros fw I Hs. apply rd_wr_sep; [exact Is | exact Ll |]. apply (Hs v s); [reflexivity | exact G0].
        * reflexivity.
    - (* References.RawBytes *)
      destruct (get_refs st v) as [s|] eqn:G; [|discriminate].
      destruct (rawbytes_h (m_r (st_m st)) (rd (m_f (st_m st)) s)) as (h, ob) eqn:Eb.
      inversion E; subst. clear E.
      destruct (rawbytes_h_keeps h0 W0 WF0 _ _ X (fok_rd _ _ s F)) as (K & _). rewrite Eb in K. cbn [fst] in K.
      split.
      + constructor; cbn [st_m st_env m_r m_f].
        * eapply ext_trans; [exact X | apply K].
        * eapply fok_mono; [apply K | exact F].
        * eapply Forall_impl; [|exact Ev]. intros y. apply vok_mono; [apply K | apply ext_refl].
        * exact Sp.
      + constructor; cbn [st_m st_env m_r m_f]; try reflexivity.
        * exact K.
        * intros [=].
        * apply ext_refl.
    - (* Reference.RawBytes *)
      destruct (get_refs st v) as [s|] eqn:G; [|discriminate].
      destruct (nth_error (rd (m_f (st_m st)) s) i) as [x|] eqn:Ei; [|discriminate].
      destruct (ref_rawbytes_h (m_r (st_m st)) x) as (h, ob) eqn:Eb.
      inversion E; subst. clear E.
      assert (Hx : okw h0 W0 (m_r (st_m st)) (hd_rs x)).
      { pose proof (fok_rd _ _ s F) as Hs. unfold hok in Hs. rewrite Forall_forall in Hs.
        apply Hs. eapply nth_error_In. exact Ei. }
      destruct (ref_rawbytes_h_keeps h0 W0 WF0 _ _ X Hx) as (K & _). rewrite Eb in K. cbn [fst] in K.
      split.
      + constructor; cbn [st_m st_env m_r m_f].
        * eapply ext_trans; [exact X | apply K].
        * eapply fok_mono; [apply K | exact F].
        * eapply Forall_impl; [|exact Ev]. intros y. apply vok_mono; [apply K | apply ext_refl].
        * exact Sp.
      + constructor; cbn [st_m st_env m_r m_f]; try reflexivity.
        * exact K.
        * intros [=].
        * apply ext_refl.
    - (* Ranges.SortAndMerge *)
      destruct (get_rngs st v) as [s|] eqn:G; [|discriminate].
      destruct (rsm (m_r (st_m st)) s) as (h, s') eqn:Er.
      inversion E; subst. clear E.
      apply get_rngs_nth in G.
      pose proof (env_vok _ _ _ _ Ev G) as Is. cbn [vok] in Is.
      destruct (rsm_keeps h0 W0 WF0 _ _ _ _ X Is Er) as (X' & K & Os).
      split.
      + constructor; cbn [st_m st_env m_r m_f].
        * exact X'.
        * eapply fok_mono; [apply K | exact F].
        * apply Forall_set_nth; [exact Os|].
          eapply Forall_impl; [|exact Ev]. intros y. apply vok_mono; [apply K | apply ext_refl].
        * intros i j a b Ne Hi Hj.
          assert (Ni : i <> v) by (intros ->; rewrite nth_error_set_nth_same in Hi by (apply nth_error_Some; congruence); discriminate).
          assert (Nj : j <> v) by (intros ->; rewrite nth_error_set_nth_same in Hj by (apply nth_error_Some; congruence); discriminate).
          rewrite nth_error_set_nth_other in Hi, Hj by lia. eapply (Sp i j); eassumption.
      + constructor; cbn [st_m st_env m_r m_f]; try reflexivity.
        * exact K.
        * intros [=].
        * apply ext_refl.
        * intros u Nu _. apply nth_error_set_nth_other. cbn [target] in Nu. congruence.
  Qed.

  (** ** What the other variables see *)

  (** the same artifact, the same mapper, the same ranges ([sorts]: up to their order) *)
  Definition upto (sorts : bool) (a b : ref) : Prop :=
    rart a = rart b /\ rmap a = rmap b /\
    if sorts then Permutation (rranges a) (rranges b) else rranges a = rranges b.

  Lemma upto_refl b a : upto b a a.
  Proof. repeat split. destruct b; reflexivity. Qed.
  Lemma upto_weaken b x y : upto false x y -> upto b x y.
  Proof. intros (A & M & R). repeat split; try assumption. destruct b; [rewrite R|]; auto. Qed.
  Lemma upto_trans b x y z : upto b x y -> upto b y z -> upto b x z.
  Proof.
    intros (A1 & M1 & R1) (A2 & M2 & R2). repeat split; try congruence.
    destruct b; [eapply perm_trans; eassumption | congruence].
  Qed.
  Lemma upto_false_eq x y : upto false x y -> x = y.
  Proof. destruct x, y. cbn. intros (A & M & R). cbn in *. congruence. Qed.

  Lemma Forall2_refl' {A} (R : A -> A -> Prop) : (forall x, R x x) -> forall l, Forall2 R l l.
  Proof. intros H. induction l; constructor; auto. Qed.
  Lemma Forall2_trans' {A} (R : A -> A -> Prop) : (forall x y z, R x y -> R y z -> R x z) ->
    forall l1 l2 l3, Forall2 R l1 l2 -> Forall2 R l2 l3 -> Forall2 R l1 l3.
  Proof.
    intros H l1 l2 l3 F. revert l3. induction F; intros l3 G; inversion G; subst; constructor; eauto.
  Qed.
  Lemma Forall2_impl' {A} (R R' : A -> A -> Prop) : (forall x y, R x y -> R' x y) ->
    forall l l', Forall2 R l l' -> Forall2 R' l l'.
  Proof. intros H l l' F. induction F; constructor; auto. Qed.

  Lemma hval_keeps h h' l : hok h0 W0 h l -> keeps h0 W0 h h' ->
    Forall2 (upto true) (map (hval h) l) (map (hval h') l).
  Proof.
    intros F (_ & P). induction F as [|x t Hx Ht IH]; cbn [map]; constructor; [|exact IH].
    repeat split. cbn [hval rranges]. apply P. exact Hx.
  Qed.
  Lemma hval_same h h' l : hok h0 W0 h l -> same h0 W0 h h' ->
    Forall2 (upto false) (map (hval h) l) (map (hval h') l).
  Proof.
    intros F (_ & P). induction F as [|x t Hx Ht IH]; cbn [map]; constructor; [|exact IH].
    repeat split. cbn [hval rranges]. symmetry. apply P. exact Hx.
  Qed.

  (** After an operation every References variable other than the one the
      operation is documented to modify is the same slice and holds, position
      by position, the same artifact, the same mapper and the same ranges -- in
      the same order unless the operation is one of those that sort in place. *)
  Theorem step_others st o st' r u s :
    SInv st -> step st o = Some (st', r) -> target o <> Some u ->
    nth_error (st_env st) u = Some (VRefs s) ->
    nth_error (st_env st') u = Some (VRefs s) /\
    Forall2 (upto (sorter o)) (lval (st_m st) s) (lval (st_m st') s).
  Proof.
    intros Hinv E T Hu. destruct (step_inv _ _ _ _ Hinv E) as (_ & [K S Xf Fr En]).
    destruct Hinv as [X F Ev Sp].
    assert (Lu : (u < length (st_env st))%nat) by (apply nth_error_Some; congruence).
    split; [rewrite En by assumption; exact Hu|].
    pose proof (env_vok _ _ _ _ Ev Hu) as Is. cbn [vok] in Is.
    unfold lval. rewrite (Fr s Is).
    - destruct (sorter o) eqn:So.
      + apply hval_keeps; [apply fok_rd; exact F | exact K].
      + apply hval_same; [apply fok_rd; exact F | apply S; reflexivity].
    - intros v t Tv Gv. apply get_refs_nth in Gv. apply (Sp u v); [congruence | exact Hu | exact Gv].
  Qed.

  (** ... and a Ranges variable holds the same ranges (a permutation of them if
      the operation sorts) *)
  Theorem step_others_ranges st o st' r u s :
    SInv st -> step st o = Some (st', r) -> target o <> Some u ->
    nth_error (st_env st) u = Some (VRngs s) ->
    nth_error (st_env st') u = Some (VRngs s) /\
    if sorter o then Permutation (rd (m_r (st_m st)) s) (rd (m_r (st_m st')) s)
    else rd (m_r (st_m st')) s = rd (m_r (st_m st)) s.
  Proof.
    intros Hinv E T Hu. destruct (step_inv _ _ _ _ Hinv E) as (_ & [K S Xf Fr En]).
    destruct Hinv as [X F Ev Sp].
    assert (Lu : (u < length (st_env st))%nat) by (apply nth_error_Some; congruence).
    split; [rewrite En by assumption; exact Hu|].
    pose proof (env_vok _ _ _ _ Ev Hu) as Is. cbn [vok] in Is.
    destruct (sorter o); [apply K; exact Is | apply S; [reflexivity | exact Is]].
  Qed.

  (** *** sequences of operations *)

  Definition targets (ops : list op) : list nat :=
    flat_map (fun o => match target o with Some v => [v] | None => [] end) ops.

  Theorem run_inv : forall ops st st', SInv st -> run st ops = Some st' -> SInv st'.
  Proof.
    induction ops as [|o t IH]; intros st st' Hinv E; cbn [run] in E.
    - inversion E; subst. exact Hinv.
    - destruct (step st o) as [[st1 r]|] eqn:E1; [|discriminate].
      apply (IH st1); [apply (step_inv _ _ _ _ Hinv E1) | exact E].
  Qed.

  (** A variable that no operation of the sequence is documented to modify --
      the receiver of a query, an argument, the result of an earlier operation --
      holds at the end what it held at the start, up to the order of the ranges
      inside each reference. *)
  Theorem run_others : forall ops st st' u s,
    SInv st -> run st ops = Some st' -> ~ In u (targets ops) ->
    nth_error (st_env st) u = Some (VRefs s) ->
    nth_error (st_env st') u = Some (VRefs s) /\
    Forall2 (upto true) (lval (st_m st) s) (lval (st_m st') s).
  Proof.
    induction ops as [|o t IH]; intros st st' u s Hinv E N Hu; cbn [run] in E.
    - inversion E; subst. split; [exact Hu | apply Forall2_refl'; apply upto_refl].
    - destruct (step st o) as [[st1 r]|] eqn:E1; [|discriminate].
      assert (T : target o <> Some u).
      { intros T. apply N. unfold targets. cbn [flat_map]. rewrite T. left. reflexivity. }
      destruct (step_others _ _ _ _ _ _ Hinv E1 T Hu) as (Hu1 & F1).
      destruct (IH st1 st' u s (proj1 (step_inv _ _ _ _ Hinv E1)) E) as (Hu2 & F2); [|exact Hu1|].
      + intros I. apply N. unfold targets in *. cbn [flat_map]. apply in_or_app. right. exact I.
      + split; [exact Hu2|]. eapply Forall2_trans'; [apply upto_trans | | exact F2].
        eapply Forall2_impl'; [|exact F1]. intros x y. destruct (sorter o); [auto | apply upto_weaken].
  Qed.

  (** If moreover no operation of the sequence sorts (copies, BySystemArtifact,
      Ranges, Resolve of other lists), the variable holds exactly what it held. *)
  Theorem run_others_exact : forall ops st st' u s,
    SInv st -> run st ops = Some st' -> ~ In u (targets ops) -> forallb (fun o => negb (sorter o)) ops = true ->
    nth_error (st_env st) u = Some (VRefs s) ->
    nth_error (st_env st') u = Some (VRefs s) /\ lval (st_m st') s = lval (st_m st) s.
  Proof.
    induction ops as [|o t IH]; intros st st' u s Hinv E N Q Hu; cbn [run] in E.
    - inversion E; subst. split; [exact Hu | reflexivity].
    - destruct (step st o) as [[st1 r]|] eqn:E1; [|discriminate].
      cbn [forallb] in Q. apply andb_prop in Q. destruct Q as (Qo & Qt).
      assert (T : target o <> Some u).
      { intros T. apply N. unfold targets. cbn [flat_map]. rewrite T. left. reflexivity. }
      destruct (step_others _ _ _ _ _ _ Hinv E1 T Hu) as (Hu1 & F1).
      destruct (IH st1 st' u s (proj1 (step_inv _ _ _ _ Hinv E1)) E) as (Hu2 & F2); [|exact Qt|exact Hu1|].
      + intros I. apply N. unfold targets in *. cbn [flat_map]. apply in_or_app. right. exact I.
      + split; [exact Hu2|]. rewrite F2. destruct (sorter o); [discriminate|].
        clear -F1. induction F1 as [|x y l l' Hxy _ IHF]; [reflexivity|].
        rewrite IHF, (upto_false_eq _ _ Hxy). reflexivity.
  Qed.
End Memory.

(** lists that agree up to the order of the ranges denote the same triples *)
Lemma upto_den b : forall l l', Forall2 (upto b) l l' -> forall a m k, den l a m k <-> den l' a m k.
Proof.
  intros l l' F a m k. induction F as [|x y l l' (A & M & R) _ IH]; [reflexivity|].
  rewrite !den_cons, IH. unfold hit, ai. rewrite A, M.
  assert (P : Permutation (rranges x) (rranges y)) by (destruct b; [exact R | rewrite R; reflexivity]).
  rewrite (in_ranges_perm_iff _ _ k P). reflexivity.
Qed.

(** ... and, without overflow, have the same normal form of every reference *)
Lemma upto_length b : forall l l', Forall2 (upto b) l l' -> length l = length l'.
Proof. intros l l' F. apply (Forall2_len _ _ _ F). Qed.

(** ** Cells outside every slice: spare capacity, cells in front *)

Lemma okw_incl h0 W0 W1 h w : incl W0 W1 -> okw h0 W0 h w -> okw h0 W1 h w.
Proof. intros I [H | H]; [left; apply I; exact H | right; exact H]. Qed.

Lemma SInv_incl h0 W0 W1 st : incl W0 W1 -> SInv h0 W0 st -> SInv h0 W1 st.
Proof.
  intros I [X F Ev Sp]. constructor; try assumption.
  - unfold fok, hok in *. eapply Forall_impl; [|exact F]. intros l. apply Forall_impl.
    intros x. apply okw_incl. exact I.
  - eapply Forall_impl; [|exact Ev]. intros [s | s]; cbn [vok]; [auto | apply okw_incl; exact I].
Qed.

Lemma perm_single {A} (l l' : list A) d : Permutation l l' -> length l = 1%nat -> hd d l = hd d l'.
Proof.
  intros P L. destruct l as [|x [|y t]]; try discriminate.
  apply Permutation_length_1_inv in P. subst. reflexivity.
Qed.

(** A cell of the caller's range arrays that lies in no range slice is not
    written by any operation. *)
Theorem step_cell h0 W0 st o st' r a i :
  Wok h0 W0 -> SInv h0 W0 st -> step st o = Some (st', r) ->
  (i < length (nth a h0 []))%nat -> (forall w, In w W0 -> sep (mkSl a i 1) w) ->
  nth i (nth a (m_r (st_m st')) []) (mkR 0 0) = nth i (nth a (m_r (st_m st)) []) (mkR 0 0).
Proof.
  intros WF Hinv E Li Hs. set (c := mkSl a i 1).
  assert (WF' : Wok h0 (c :: W0)).
  { destruct WF as (B & D). split.
    - constructor; [unfold inb, c; cbn; lia | exact B].
    - intros w w' [<- | I] [<- | I'].
      + left. repeat split.
      + right. apply Hs. exact I'.
      + right. apply sep_sym, Hs. exact I.
      + apply D; assumption. }
  pose proof (SInv_incl h0 W0 (c :: W0) st (incl_tl c (incl_refl W0)) Hinv) as Hinv'.
  destruct (step_inv h0 (c :: W0) WF' _ _ _ _ Hinv' E) as (_ & [(X & P) _ _ _ _]).
  specialize (P c (or_introl (in_eq c W0))).
  destruct Hinv as [X0 _ _ _].
  assert (L : length (rd (m_r (st_m st)) c) = 1%nat).
  { apply rd_length. apply (inb_ext h0); [exact X0 | unfold inb, c; cbn; lia]. }
  rewrite (nth_as_rd (nth a (m_r (st_m st')) []) (mkR 0 0) i), (nth_as_rd (nth a (m_r (st_m st)) []) (mkR 0 0) i).
  symmetry. apply (perm_single _ _ (mkR 0 0) P L).
Qed.

Theorem run_cell h0 W0 a i :
  Wok h0 W0 -> (i < length (nth a h0 []))%nat -> (forall w, In w W0 -> sep (mkSl a i 1) w) ->
  forall ops st st', SInv h0 W0 st -> run st ops = Some st' ->
  nth i (nth a (m_r (st_m st')) []) (mkR 0 0) = nth i (nth a (m_r (st_m st)) []) (mkR 0 0).
Proof.
  intros WF Li Hs. induction ops as [|o t IH]; intros st st' Hinv E; cbn [run] in E.
  - inversion E; subst. reflexivity.
  - destruct (step st o) as [[st1 r]|] eqn:E1; [|discriminate].
    rewrite (IH st1 st' (proj1 (step_inv h0 W0 WF _ _ _ _ Hinv E1)) E).
    eapply step_cell; eassumption.
Qed.

(** A [Reference] struct that lies in no variable -- spare capacity of a list,
    cells in front of it -- is not written by an operation: the same artifact,
    mapper and slice header. *)
Theorem step_ref_cells h0 W0 st o st' r fw :
  Wok h0 W0 -> SInv h0 W0 st -> step st o = Some (st', r) ->
  inb (m_f (st_m st)) fw -> (forall v s, nth_error (st_env st) v = Some (VRefs s) -> sep fw s) ->
  rd (m_f (st_m st')) fw = rd (m_f (st_m st)) fw.
Proof.
  intros WF Hinv E I Hs. destruct (step_inv h0 W0 WF _ _ _ _ Hinv E) as (_ & [_ _ _ Fr _]).
  apply Fr; [exact I|]. intros v s _ G. apply get_refs_nth in G. eapply Hs. exact G.
Qed.

(** ** The hypotheses are satisfiable: the memory of a hand-written program *)

Definition ex_img := mkArt 1 1 false [1; 2; 3; 4; 5; 6; 7; 8; 9; 10; 11; 12].
Definition ex_rawA := mkArt 2 2 true [21; 22; 23; 24; 25; 26].
Definition ex_rawB := mkArt 3 2 true [31; 32; 33; 34].
Definition ex_h0 : rheap :=
  [ [mkR 4 2; mkR 0 2; mkR 912080 1]; [mkR 0 6]; [mkR 8 2; mkR 6 2; mkR 1 2; mkR 912081 2] ].
Definition ex_W0 : list sl := [mkSl 0 0 2; mkSl 1 0 1; mkSl 2 0 2; mkSl 2 2 1].
Definition ex_st : state :=
  mkSt (mkMem ex_h0
          [ [mkHdr ex_rawB MNil (mkSl 2 2 1); mkHdr ex_img MNil (mkSl 0 0 2); mkHdr ex_rawA MNil (mkSl 1 0 1);
             mkHdr ex_img MNil (mkSl 2 0 2); mkHdr ex_rawB MNil (mkSl 2 2 1); mkHdr ex_rawA MNil (mkSl 1 0 1)];
            [mkHdr ex_img MNil (mkSl 0 0 2); mkHdr ex_rawB MNil (mkSl 2 2 1)] ])
       [VRefs (mkSl 0 1 4); VRefs (mkSl 1 0 2)].

Lemma ex_Wok : Wok ex_h0 ex_W0.
Proof.
  split.
  - unfold ex_W0. repeat (apply Forall_cons; [unfold inb; cbn; lia|]). apply Forall_nil.
  - intros w w' I I'. unfold ex_W0 in I, I'. cbn [In] in I, I'.
    destruct I as [<- | [<- | [<- | [<- | []]]]]; destruct I' as [<- | [<- | [<- | [<- | []]]]];
      first [left; repeat split; reflexivity | right; unfold sep; cbn [sl_arr sl_off sl_len]; lia].
Qed.

Lemma ex_SInv : SInv ex_h0 ex_W0 ex_st.
Proof.
  constructor; cbn [ex_st st_m st_env m_r m_f].
  - apply ext_refl.
  - unfold fok, hok. repeat (apply Forall_cons; [repeat (apply Forall_cons; [left; cbn [hd_rs ex_W0 In]; tauto|]); apply Forall_nil|]). apply Forall_nil.
  - repeat (apply Forall_cons; [unfold vok, inb; cbn; lia|]). apply Forall_nil.
  - intros i j s t Ne Hi Hj.
    destruct i as [|[|i]]; destruct j as [|[|j]]; cbn in Hi, Hj; try lia; try discriminate;
      try (destruct i; discriminate); try (destruct j; discriminate);
      inversion Hi; inversion Hj; subst; left; cbn; lia.
Qed.

Definition ex_ops : list op :=
  [OBy 0 ex_rawA; OBy 0 ex_img; ORawBytes 0; OCopy 0; OSortMerge 4; OExclude 0 1; ORanges 0; ORngSM 6].

Lemma ex_runs : exists st', run ex_st ex_ops = Some st'.
Proof. vm_compute. eexists. reflexivity. Qed.

(** ** The queries against the value-level model (Model/Refs.v) *)

Lemma map_hval_filter h a : forall l,
  map (hval h) (filter (fun y => art_eqb (hd_art y) a) l) = by_artifact (map (hval h) l) a.
Proof.
  unfold by_artifact. induction l as [|y t IH]; [reflexivity|]. cbn [filter map].
  change (rart (hval h y)) with (hd_art y). destruct (art_eqb (hd_art y) a); cbn [map]; rewrite IH; reflexivity.
Qed.

(** [BySystemArtifact] yields a new variable holding the value-level filter of
    what the receiver holds *)
Theorem step_by_value st v a st' r s :
  step st (OBy v a) = Some (st', r) -> get_refs st v = Some s ->
  exists x, st_env st' = st_env st ++ [VRefs x] /\ lval (st_m st') x = by_artifact (lval (st_m st) s) a.
Proof.
  intros E G. unfold step in E. rewrite G in E. unfold alloc in E. inversion E; subst. clear E.
  eexists. split; [reflexivity|]. unfold lval. cbn [push st_m m_r m_f].
  rewrite rd_alloc_new. apply map_hval_filter.
Qed.

Lemma flat_map_hval h : forall l, flat_map (fun y => rd h (hd_rs y)) l = refs_ranges (map (hval h) l).
Proof. unfold refs_ranges. induction l as [|y t IH]; [reflexivity|]. cbn [flat_map map]. rewrite IH. reflexivity. Qed.

(** [Ranges] yields a new variable holding the concatenation *)
Theorem step_ranges_value st v st' r s :
  step st (ORanges v) = Some (st', r) -> get_refs st v = Some s ->
  exists x, st_env st' = st_env st ++ [VRngs x] /\ rd (m_r (st_m st')) x = refs_ranges (lval (st_m st) s).
Proof.
  intros E G. unfold step in E. rewrite G in E. unfold alloc in E. inversion E; subst. clear E.
  eexists. split; [reflexivity|]. cbn [push st_m m_r m_f].
  rewrite rd_alloc_new. apply flat_map_hval.
Qed.

(** [RawBytes] hands back what the value-level model computes from what the
    receiver holds when every reference is read; sorting a reference's ranges in
    place does not change its bytes (the model sorts before it reads). *)
Lemma ranges_sm_sort_off l : ranges_sm (sort_off l) = ranges_sm l.
Proof.
  unfold ranges_sm. f_equal.
  assert (S : forall l', sorted_off l' -> sort_off l' = l').
  { induction l' as [|x t IH]; [reflexivity|]. intros So. cbn [sort_off fold_right].
    change (fold_right ins_off [] t) with (sort_off t).
    destruct t as [|y u]; [reflexivity|]. cbn [sorted_off] in So. destruct So as (Le & So).
    rewrite IH by exact So. cbn [ins_off]. destruct (roff x <=? roff y) eqn:C; [reflexivity|].
    apply Z.leb_gt in C. lia. }
  apply S. apply sort_off_sorted.
Qed.

Lemma read_ranges_ext r r' : rart r = rart r' -> rmap r = rmap r' ->
  forall rs tot cur acc, read_ranges r tot rs cur acc = read_ranges r' tot rs cur acc.
Proof.
  intros A M. induction rs as [|x t IH]; intros tot cur acc; cbn [read_ranges]; [reflexivity|].
  rewrite A, M. destruct (resolve1 (rmap r') (zlen (acontent (rart r'))) x); try reflexivity.
  destruct (read_mapped (rart r') tot a cur acc) as [[c a']| | |]; try reflexivity. apply IH.
Qed.

(** [Reference.RawBytes] through a pointer to a struct in memory hands back what
    the value-level model computes from the ranges the struct held before the
    call (which the call sorts in place). *)
Theorem ref_rawbytes_h_value h x : inb h (hd_rs x) -> snd (ref_rawbytes_h h x) = ref_rawbytes (hval h x).
Proof.
  intros I. unfold ref_rawbytes_h. cbn [snd]. unfold sort_inplace.
  destruct (sl_len (hd_rs x) <? 2)%nat; [reflexivity|].
  unfold ref_rawbytes. cbn [hval rranges].
  rewrite rd_wr_same; [| exact I | | repeat split].
  - rewrite ranges_sm_sort_off. apply read_ranges_ext; reflexivity.
  - rewrite (Permutation_length (sort_off_perm _)). apply rd_length. exact I.
Qed.
