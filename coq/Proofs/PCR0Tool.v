(** C03: proofs about Model/PCR0Tool.v -- filteredMeasurements keeps exactly the
    PCR0 extends of the bank, in order; pcr0tool's printReproducePCR0Result (as
    repaired by /repo 00d338a and 84ad407) replays exactly what the model's
    [replay_result] replays, for every result whose disabled measurements and
    swap indices are in range and for which PCR0_DATA is the first enabled
    measurement when a register is reported ([tool_replay_agrees]); every reported
    result meets these conditions ([reported_wf]), so the tool's replay is the
    independent replay for every reported result ([tool_replay_reported]) and
    confirms it when the hash is collision-free ([tool_confirms_reported]). *)
From CSS Require Import Lib.Base Lib.Cases Model.Comb Proofs.Comb Model.PCR0Search Model.PCR0Tool Model.PCR0SearchCases Proofs.PCR0Search Proofs.PCR0SearchUnique.
From Coq Require Import Arith ZifyBool ZifyNat Sorted Permutation.

(** * filteredMeasurements *)

Section Filter.
  Variable D : Type.
  Notation lcmd := (lcmd D).
  Notation filter_log := (PCR0Tool.filter_log D).

  Lemma filter_log_in alg : forall l i p m,
    In (p, m) (filter_log alg i l) <->
    (i <= p)%nat /\ nth_error l (p - i) = Some (LExt 0 alg m).
  Proof.
    induction l as [|c t IH]; intros i p m.
    - cbn [PCR0Tool.filter_log In]. split; [tauto|]. intros (_ & H). now destruct (p - i)%nat.
    - assert (Tail : In (p, m) (filter_log alg (S i) t) <->
                     (i <= p)%nat /\ p <> i /\ nth_error (c :: t) (p - i) = Some (LExt 0 alg m)).
      { rewrite IH. split.
        - intros (Hp & Hn). split; [lia|]. split; [lia|].
          replace (p - i)%nat with (S (p - S i)) by lia. exact Hn.
        - intros (Hp & Hne & Hn). split; [lia|].
          replace (p - i)%nat with (S (p - S i)) in Hn by lia. exact Hn. }
      destruct c as [loc|pcr a m'|]; cbn [PCR0Tool.filter_log].
      + rewrite Tail. split; [tauto|]. intros (Hp & Hn). split; [exact Hp|]. split; [|exact Hn].
        intros ->. rewrite Nat.sub_diag in Hn. discriminate.
      + destruct ((pcr =? 0) && (a =? alg)) eqn:E.
        * apply andb_prop in E as (E1 & E2). apply Z.eqb_eq in E1, E2. subst pcr a.
          cbn [In]. rewrite Tail. split.
          -- intros [H|H]; [|tauto]. inversion H; subst. split; [lia|]. now rewrite Nat.sub_diag.
          -- intros (Hp & Hn). destruct (Nat.eq_dec p i) as [->|Hne].
             ++ left. rewrite Nat.sub_diag in Hn. cbn in Hn. congruence.
             ++ right. tauto.
        * rewrite Tail. split; [tauto|]. intros (Hp & Hn). split; [exact Hp|]. split; [|exact Hn].
          intros ->. rewrite Nat.sub_diag in Hn. cbn in Hn. inversion Hn; subst.
          rewrite !Z.eqb_refl in E. discriminate.
      + rewrite Tail. split; [tauto|]. intros (Hp & Hn). split; [exact Hp|]. split; [|exact Hn].
        intros ->. rewrite Nat.sub_diag in Hn. discriminate.
  Qed.

  Lemma filter_log_sorted alg : forall l i,
    StronglySorted lt (map fst (filter_log alg i l)) /\
    Forall (fun p => (i <= p)%nat) (map fst (filter_log alg i l)).
  Proof.
    induction l as [|c t IH]; intro i; [split; constructor|].
    destruct (IH (S i)) as (S1 & F1).
    assert (F1' : Forall (fun p => (i <= p)%nat) (map fst (filter_log alg (S i) t))).
    { eapply Forall_impl; [|exact F1]. cbn. lia. }
    destruct c as [loc|pcr a m'|]; cbn [PCR0Tool.filter_log]; try (split; assumption).
    destruct ((pcr =? 0) && (a =? alg)); [|split; assumption].
    cbn [map fst]. split.
    - constructor; [exact S1|]. eapply Forall_impl; [|exact F1]. cbn. lia.
    - constructor; [lia|exact F1'].
  Qed.

  (** what ReproduceExpectedPCR0 works on: exactly the PCR0 extends of the bank,
      each once, in the order of the command log *)
  Theorem filter_log_exact alg cmds :
    (forall p m, In (p, m) (filter_log alg 0 cmds) <-> nth_error cmds p = Some (LExt 0 alg m)) /\
    StronglySorted lt (map fst (filter_log alg 0 cmds)).
  Proof.
    split; [|apply filter_log_sorted].
    intros p m. rewrite filter_log_in, Nat.sub_0_r. split; [tauto|]. intro H. split; [lia|exact H].
  Qed.
End Filter.


(** * List helpers *)

Fixpoint ifilter {A} (P : nat -> bool) (i : nat) (l : list A) : list A :=
  match l with
  | [] => []
  | x :: t => if P i then x :: ifilter P (S i) t else ifilter P (S i) t
  end.

Lemma combine_filter_ifilter {A} (P : nat -> bool) : forall (l : list A) i,
  map snd (filter (fun t => P (fst t)) (combine (seq i (length l)) l)) = ifilter P i l.
Proof.
  induction l as [|x t IH]; intro i; [reflexivity|].
  cbn [length seq combine filter fst ifilter]. destruct (P i); cbn [map snd]; now rewrite IH.
Qed.

Lemma keyed_filter_ifilter {A B} (g : nat * A -> B) (Q P : nat -> bool) : forall (f : list (nat * A)) i,
  (forall k pm, nth_error f k = Some pm -> Q (fst pm) = P (i + k)%nat) ->
  map g (filter (fun pm => Q (fst pm)) f) = ifilter P i (map g f).
Proof.
  induction f as [|pm t IH]; intros i H; [reflexivity|].
  cbn [filter map ifilter]. rewrite (H O pm eq_refl), Nat.add_0_r.
  assert (Ht : forall k pm', nth_error t k = Some pm' -> Q (fst pm') = P (S i + k)%nat).
  { intros k pm' Hk. rewrite (H (S k) pm' Hk). f_equal. lia. }
  destruct (P i); cbn [map]; now rewrite (IH (S i) Ht).
Qed.

Lemma sorted_lt_NoDup : forall l, StronglySorted lt l -> NoDup l.
Proof.
  induction 1 as [|x t S IH F]; constructor; [|exact IH].
  intro Hin. rewrite Forall_forall in F. specialize (F _ Hin). lia.
Qed.

Lemma mem_nat_In x l : mem_nat x l = true <-> In x l.
Proof.
  induction l as [|y t IH]; cbn [mem_nat In]; [split; [discriminate|tauto]|].
  destruct (Nat.eqb_spec x y) as [->|N]; [tauto|]. rewrite IH. split; [tauto|]. intros [E|H]; [congruence|exact H].
Qed.

Lemma mem_nat_positions pos dis k : NoDup pos -> (k < length pos)%nat ->
  Forall (fun i => (i < length pos)%nat) dis ->
  mem_nat (nth k pos O) (map (fun i => nth i pos O) dis) = mem_nat k dis.
Proof.
  intros ND Hk F. destruct (mem_nat k dis) eqn:E.
  - apply mem_nat_In. apply mem_nat_In in E. apply in_map_iff. now exists k.
  - destruct (mem_nat (nth k pos O) _) eqn:E'; [|reflexivity].
    apply mem_nat_In in E'. apply in_map_iff in E' as (i & Ei & Hi).
    rewrite Forall_forall in F. specialize (F _ Hi).
    apply (proj1 (NoDup_nth pos O) ND) in Ei; try assumption. subst i.
    apply mem_nat_In in Hi. congruence.
Qed.

Lemma filter_all {A} (P : A -> bool) (l : list A) : (forall x, P x = true) -> filter P l = l.
Proof. intro H. induction l as [|x t IH]; [reflexivity|]. cbn. now rewrite H, IH. Qed.

Lemma apply_swaps_strict_ok {A} sw : forall l : list A,
  Forall (fun i => (i < length l)%nat) (swap_idx sw) ->
  apply_swaps_strict sw l = Some (apply_swaps sw l).
Proof.
  induction sw as [|[a b] t IH]; intros l H; [reflexivity|].
  cbn [swap_idx flat_map app fst snd] in H. change (flat_map _ t) with (swap_idx t) in H.
  inversion H as [|? ? Ha H']; subst. inversion H' as [|? ? Hb H'']; subst.
  cbn [apply_swaps_strict fst snd]. unfold swap_strict.
  destruct (nth_error l a) as [x|] eqn:Ea; [|apply nth_error_None in Ea; lia].
  destruct (nth_error l b) as [y|] eqn:Eb; [|apply nth_error_None in Eb; lia].
  unfold apply_swaps. cbn [fold_left fst snd]. change (fold_left _ t ?x) with (apply_swaps t x).
  assert (Es : swap_nth a b l = set_nth a y (set_nth b x l)) by (unfold swap_nth; now rewrite Ea, Eb).
  rewrite Es. apply IH. now rewrite !length_set_nth.
Qed.


(** * printReproducePCR0Result *)

Lemma Forall_apply_swaps {A} (P : A -> Prop) s (l : list A) : Forall P l -> Forall P (apply_swaps s l).
Proof. intro H. eapply Permutation.Permutation_Forall; [apply apply_swaps_Permutation|exact H]. Qed.

Lemma filter_map_comm {A B} (f : A -> B) (P : B -> bool) : forall l : list A,
  filter P (map f l) = map f (filter (fun x => P (f x)) l).
Proof. induction l as [|x t IH]; [reflexivity|]. cbn. destruct (P (f x)); cbn; now rewrite IH. Qed.

Lemma filter_ext_Forall {A} (P Q : A -> bool) : forall l : list A,
  Forall (fun x => P x = Q x) l -> filter P l = filter Q l.
Proof. induction 1 as [|x t E _ IH]; [reflexivity|]. cbn. now rewrite E, IH. Qed.

(** positions in the command log of the measurements a result lists as disabled
    (the result itself holds pointers into the log) *)
Definition cmd_positions {D} (f : list (nat * meas D)) (dis_f : list nat) : list nat :=
  map (fun i => nth i (map fst f) O) dis_f.

Section ToolProofs.
  Variable D : Type.

  Notation flog := (PCR0Tool.filter_log D).
  Notation tool_entries := (tool_entries D).

  (** a filtered measurement as an entry of the tool's list *)
  Definition as_entry (alg : Z) (pm : nat * meas D) : nat * lcmd D := (fst pm, LExt 0 alg (snd pm)).

  (** behind the first entry the tool keeps exactly the filtered measurements *)
  Lemma tool_entries_tail alg loc : forall l i, (1 <= i)%nat ->
    tool_entries alg loc i l = map (as_entry alg) (flog alg i l).
  Proof.
    induction l as [|c t IH]; intros i Hi; [reflexivity|].
    destruct c as [l0|pcr a m|]; cbn [PCR0Tool.tool_entries PCR0Tool.filter_log]; unfold tool_keeps.
    - replace (Nat.eqb i 0) with false by (destruct i; [lia|reflexivity]). cbn [andb].
      apply IH. lia.
    - destruct ((pcr =? 0) && (a =? alg)) eqn:E; [|apply IH; lia].
      apply andb_prop in E as (E1 & E2). apply Z.eqb_eq in E1, E2. subst pcr a.
      cbn [map]. unfold as_entry at 1. cbn [fst snd]. f_equal. apply IH. lia.
    - apply IH. lia.
  Qed.

  (** the log's own TPMInit is kept: it is the first command and has the reported locality *)
  Definition head_init (loc : Z) (cmds : list (lcmd D)) : bool :=
    match cmds with LInit l0 :: _ => l0 =? loc | _ => false end.

  Lemma tool_entries_all alg loc cmds :
    tool_entries alg loc 0 cmds
    = (if head_init loc cmds then [(O, LInit loc)] else []) ++ map (as_entry alg) (flog alg 0 cmds).
  Proof.
    destruct cmds as [|c t]; [reflexivity|].
    destruct c as [l0|pcr a m|]; cbn [PCR0Tool.tool_entries PCR0Tool.filter_log head_init]; unfold tool_keeps.
    - cbn [Nat.eqb andb]. destruct (l0 =? loc) eqn:E.
      + apply Z.eqb_eq in E. subst l0. cbn [app]. f_equal. apply tool_entries_tail. lia.
      + cbn [app]. apply tool_entries_tail. lia.
    - cbn [app]. destruct ((pcr =? 0) && (a =? alg)) eqn:E; [|apply tool_entries_tail; lia].
      apply andb_prop in E as (E1 & E2). apply Z.eqb_eq in E1, E2. subst pcr a.
      cbn [map]. unfold as_entry at 1. cbn [fst snd]. f_equal. apply tool_entries_tail. lia.
    - cbn [app]. apply tool_entries_tail. lia.
  Qed.

  Lemma existsb_init_entries alg (f : list (nat * meas D)) :
    existsb (fun e => is_linit D (snd e)) (map (as_entry alg) f) = false.
  Proof. induction f as [|pm t IH]; [reflexivity|]. cbn [map existsb as_entry snd is_linit orb]. exact IH. Qed.

  Lemma flog_positions_ge alg : forall l i p m, In (p, m) (flog alg i l) -> (i <= p)%nat.
  Proof. intros l i p m H. now apply (filter_log_in D alg l i p m) in H as (H & _). Qed.

  (** replaying extends only *)
  Lemma tool_run_entries (pcr_init : Z -> D) (extend : D -> D -> D) alg : forall (f : list (nat * meas D)) p,
    tool_run D pcr_init extend (map snd (map (as_entry alg) f)) (Some p)
    = Some (fold_left extend (map (fun pm => m_dig (snd pm)) f) p).
  Proof.
    induction f as [|pm t IH]; intro p; [reflexivity|].
    cbn [map as_entry snd PCR0Tool.tool_run fold_left]. apply IH.
  Qed.
End ToolProofs.

Lemma combine_seq_In {A} : forall (l : list A) i k x,
  In (k, x) (combine (seq i (length l)) l) -> (i <= k)%nat /\ nth_error l (k - i) = Some x.
Proof.
  induction l as [|y t IH]; intros i k x H; [destruct H|].
  cbn [length seq combine In] in H. destruct H as [H|H].
  - inversion H; subst. split; [lia|]. now rewrite Nat.sub_diag.
  - apply IH in H as (H1 & H2). split; [lia|].
    replace (k - i)%nat with (S (k - S i)) by lia. exact H2.
Qed.

Section Pipeline.
  Variable D : Type.
  Variable pcr0data : Z -> Z -> D.

  (** swaps, then dropping the disabled entries, on the position-tagged list of
      the tool and on the index-tagged digest list of [apply_result] *)
  Lemma pipeline (f1 : list (nat * meas D)) loc dis_f sw :
    NoDup (map fst f1) ->
    Forall (fun i => (i < length f1)%nat) dis_f ->
    map (fun pm => m_dig (snd pm))
        (filter (fun pm => negb (mem_nat (fst pm) (cmd_positions f1 dis_f))) (apply_swaps sw f1))
    = apply_result D pcr0data (map snd f1) (mkResult loc None dis_f sw).
  Proof.
    intros ND HF. unfold apply_result, nlog. cbn [r_reg r_swaps r_disabled]. rewrite map_length.
    set (n := length f1).
    set (T := combine (seq 0 n) f1).
    assert (E1 : f1 = map snd T) by (unfold T, n; now rewrite map_snd_combine by now rewrite seq_length).
    set (h := fun t : nat * (nat * meas D) => (fst t, m_dig (snd (snd t)))).
    assert (E2 : combine (seq 0 n) (map (@m_dig D) (map snd f1)) = map h T).
    { unfold T, h, n. clear. generalize 0%nat. induction f1 as [|x t IH]; intro i; [reflexivity|].
      cbn [length seq map combine fst snd]. f_equal. apply IH. }
    set (X := apply_swaps sw T).
    assert (E3 : apply_swaps sw f1 = map snd X) by (unfold X; now rewrite map_apply_swaps, <- E1).
    assert (E4 : apply_swaps sw (map h T) = map h X) by (unfold X; now rewrite map_apply_swaps).
    rewrite E2, E3, E4. rewrite !filter_map_comm, !map_map. cbn [fst snd h].
    assert (HX : Forall (fun t => (fst t < n)%nat /\ nth (fst t) (map fst f1) O = fst (snd t)) X).
    { apply Forall_apply_swaps. apply Forall_forall. intros [k x] Hin.
      apply combine_seq_In in Hin as (_ & Hn). rewrite Nat.sub_0_r in Hn. cbn [fst snd].
      split; [apply nth_error_Some; congruence|].
      apply nth_error_nth. now apply map_nth_error. }
    rewrite (filter_ext_Forall (fun x => negb (mem_nat (fst (snd x)) (cmd_positions f1 dis_f)))
                               (fun x => negb (mem_nat (fst x) dis_f)) X); [reflexivity|].
    eapply Forall_impl; [|exact HX]. intros t (Hk & Hp). cbn beta. f_equal.
    rewrite <- Hp. unfold cmd_positions. apply mem_nat_positions; try assumption; now rewrite map_length.
  Qed.
End Pipeline.

Lemma first_true_ge fl : forall i p, first_true fl i = Some p -> (i <= p)%nat.
Proof.
  induction fl as [|b t IH]; intros i p H; cbn in H; [discriminate|].
  destruct b; [inversion H; lia|]. apply IH in H. lia.
Qed.

(** PCR0_DATA is the first enabled measurement whenever a register is reported:
    the hypothesis under which "re-hash the first enabled measurement" (the tool,
    and the brute-forcer itself) and [apply_result] mean the same *)
Definition data_first D (log : list (meas D)) (r : result) : Prop :=
  forall v p m, r_reg r = Some v ->
    first_true (map (fun i => negb (mem_nat i (r_disabled r))) (seq 0 (length log))) 0 = Some p ->
    nth_error log p = Some m -> m_data m <> None.

Section Correction.
  Variable D : Type.
  Variable pcr0data : Z -> Z -> D.
  Variable dis_f : list nat.
  Variable v : Z.

  Notation flag := (fun i => negb (mem_nat i dis_f)).

  (** the filtered list with the first enabled measurement re-hashed *)
  Fixpoint corr (k : nat) (fs : list (nat * meas D)) : list (nat * meas D) :=
    match fs with
    | [] => []
    | pm :: t =>
        if mem_nat k dis_f then pm :: corr (S k) t
        else match m_data (snd pm) with
             | Some (tail, _) => (fst pm, mkMeas (pcr0data tail v) (m_data (snd pm))) :: t
             | None => pm :: t
             end
    end.

  Fixpoint first_has_data (k : nat) (fs : list (nat * meas D)) : Prop :=
    match fs with
    | [] => True
    | pm :: t => if mem_nat k dis_f then first_has_data (S k) t else m_data (snd pm) <> None
    end.

  Lemma map_fst_corr : forall fs k, map fst (corr k fs) = map fst fs.
  Proof.
    induction fs as [|pm t IH]; intro k; [reflexivity|]. cbn [corr].
    destruct (mem_nat k dis_f); [cbn [map]; now rewrite IH|].
    destruct (m_data (snd pm)) as [[tail r0]|]; reflexivity.
  Qed.

  Lemma length_corr fs k : length (corr k fs) = length fs.
  Proof. rewrite <- (map_length fst), map_fst_corr. apply map_length. Qed.

  (** [apply_result]'s corrected digest list is the digest list of [corr] *)
  Lemma digs_corr : forall fs k,
    match first_true (map flag (seq k (length fs))) k with
    | Some p =>
        match nth_error (map snd fs) (p - k) with
        | Some m => match m_data m with
                    | Some (tail, _) => set_nth (p - k) (pcr0data tail v) (map (@m_dig D) (map snd fs))
                    | None => map (@m_dig D) (map snd fs)
                    end
        | None => map (@m_dig D) (map snd fs)
        end
    | None => map (@m_dig D) (map snd fs)
    end = map (@m_dig D) (map snd (corr k fs)).
  Proof.
    induction fs as [|pm t IH]; intro k; [reflexivity|].
    cbn [length seq map first_true corr]. destruct (mem_nat k dis_f) eqn:Em; cbn [negb].
    - specialize (IH (S k)). cbn [map snd].
      destruct (first_true (map flag (seq (S k) (length t))) (S k)) as [p|] eqn:Ef; [|now rewrite <- IH].
      pose proof (first_true_ge _ _ _ Ef) as Hp.
      replace (p - k)%nat with (S (p - S k)) by lia. cbn [nth_error].
      destruct (nth_error (map snd t) (p - S k)) as [m|]; [|now rewrite <- IH].
      destruct (m_data m) as [[tail r0]|]; [|now rewrite <- IH].
      cbn [set_nth]. now rewrite <- IH.
    - rewrite Nat.sub_diag. cbn [nth_error map snd].
      destruct (m_data (snd pm)) as [[tail r0]|]; reflexivity.
  Qed.

  Lemma first_has_data_of : forall fs k,
    (forall p m, first_true (map flag (seq k (length fs))) k = Some p ->
                 nth_error (map snd fs) (p - k) = Some m -> m_data m <> None) ->
    first_has_data k fs.
  Proof.
    induction fs as [|pm t IH]; intros k H; [exact I|].
    cbn [first_has_data]. cbn [length seq map first_true] in H.
    destruct (mem_nat k dis_f) eqn:Em; cbn [negb] in H.
    - apply IH. intros p m Ef Hn. pose proof (first_true_ge _ _ _ Ef) as Hp.
      apply (H p m Ef). replace (p - k)%nat with (S (p - S k)) by lia. exact Hn.
    - apply (H k (snd pm) eq_refl). now rewrite Nat.sub_diag.
  Qed.

  (** the tool's correction of its entry list is [corr] *)
  Lemma tool_correct_corr alg dis : forall fs k,
    (forall j pm, nth_error fs j = Some pm -> mem_nat (fst pm) dis = mem_nat (k + j) dis_f) ->
    first_has_data k fs ->
    tool_correct D pcr0data alg dis v (map (as_entry D alg) fs) = Some (map (as_entry D alg) (corr k fs)).
  Proof.
    induction fs as [|pm t IH]; intros k Hm Hd; [reflexivity|].
    cbn [map PCR0Tool.tool_correct corr first_has_data] in *.
    change (as_entry D alg pm) with (fst pm, LExt 0 alg (snd pm)). cbn [PCR0Tool.tool_correct fst snd is_linit].
    rewrite (Hm O pm eq_refl), Nat.add_0_r, orb_false_r.
    destruct (mem_nat k dis_f) eqn:Em.
    - rewrite (IH (S k)); [reflexivity| |exact Hd].
      intros j pm' Hj. rewrite (Hm (S j) pm' Hj). f_equal. lia.
    - cbn [m_data]. destruct (m_data (snd pm)) as [[tail r0]|]; [reflexivity|now elim Hd].
  Qed.
End Correction.

Section Agreement.
  Variable D : Type.
  Variable deqb : D -> D -> bool.
  Variable pcr_init : Z -> D.
  Variable extend : D -> D -> D.
  Variable pcr0data : Z -> Z -> D.

  Notation flog := (PCR0Tool.filter_log D).

  (** the filtered list as the result amends it: PCR0_DATA re-hashed *)
  Definition amended (f : list (nat * meas D)) (r : result) : list (nat * meas D) :=
    match r_reg r with Some v => corr D pcr0data (r_disabled r) v 0 f | None => f end.

  Lemma map_fst_amended f r : map fst (amended f r) = map fst f.
  Proof. unfold amended. destruct (r_reg r); [apply map_fst_corr|reflexivity]. Qed.

  Lemma apply_result_amended (f : list (nat * meas D)) r :
    apply_result D pcr0data (map snd f) r
    = apply_result D pcr0data (map snd (amended f r)) (mkResult (r_loc r) None (r_disabled r) (r_swaps r)).
  Proof.
    unfold amended. destruct r as [loc [v|] dis sw]; cbn [r_reg r_loc r_disabled r_swaps]; [|reflexivity].
    unfold apply_result, nlog. cbn [r_reg r_disabled r_swaps]. rewrite !map_length, length_corr.
    pose proof (digs_corr D pcr0data dis v f 0) as E.
    destruct (first_true (map (fun i => negb (mem_nat i dis)) (seq 0 (length f))) 0) as [p|];
      [rewrite Nat.sub_0_r in E|]; now rewrite E.
  Qed.

  Lemma head_init_positions alg loc cmds : head_init D loc cmds = true ->
    Forall (fun p => (1 <= p)%nat) (map fst (flog alg 0 cmds)).
  Proof.
    destruct cmds as [|[l0|pcr a m|] t]; cbn [head_init]; try discriminate. intros _.
    cbn [PCR0Tool.filter_log]. apply (filter_log_sorted D alg t 1).
  Qed.

  Theorem tool_replay_agrees alg (cmds : list (lcmd D)) target r :
    let f := flog alg 0 cmds in
    Forall (fun i => (i < length f)%nat) (r_disabled r) ->
    Forall (fun i => (i < length f)%nat) (swap_idx (r_swaps r)) ->
    data_first D (map snd f) r ->
    tool_verdict D deqb pcr_init extend pcr0data alg cmds target
                 (r_loc r) (r_reg r) (cmd_positions f (r_disabled r)) (r_swaps r)
    = if deqb (replay_result D pcr_init extend pcr0data (map snd f) r) target then TVOk else TVMismatch.
  Proof.
    intros f Hdis Hsw Hdf.
    set (dis := cmd_positions f (r_disabled r)).
    set (f1 := amended f r).
    assert (ND : NoDup (map fst f)) by (apply sorted_lt_NoDup, (filter_log_exact D alg cmds)).
    assert (Hlen1 : length f1 = length f).
    { rewrite <- (map_length fst f1), <- (map_length fst f). unfold f1. now rewrite map_fst_amended. }
    (* the model side *)
    assert (Hres : replay_result D pcr_init extend pcr0data (map snd f) r
                   = fold_left extend
                       (map (fun pm => m_dig (snd pm))
                            (filter (fun pm => negb (mem_nat (fst pm) dis)) (apply_swaps (r_swaps r) f1)))
                       (pcr_init (r_loc r))).
    { unfold replay_result, PCR0Search.replay. rewrite (apply_result_amended f r). fold f1.
      rewrite <- (pipeline D pcr0data f1 (r_loc r) (r_disabled r) (r_swaps r)).
      - unfold dis, cmd_positions, f1. now rewrite map_fst_amended.
      - unfold f1. now rewrite map_fst_amended.
      - now rewrite Hlen1. }
    rewrite Hres. clear Hres.
    (* the correction of the tool's entries *)
    assert (Hcorr : match r_reg r with
                    | Some v => tool_correct D pcr0data alg dis v (map (as_entry D alg) f)
                    | None => Some (map (as_entry D alg) f)
                    end = Some (map (as_entry D alg) f1)).
    { unfold f1, amended. destruct (r_reg r) as [v|] eqn:Er; [|reflexivity].
      apply tool_correct_corr.
      - intros j pm Hj. cbn [Nat.add]. unfold dis, cmd_positions.
        assert (Hjl : (j < length f)%nat) by (apply nth_error_Some; congruence).
        replace (fst pm) with (nth j (map fst f) O)
          by (apply nth_error_nth; now apply map_nth_error).
        apply mem_nat_positions; try assumption; now rewrite map_length.
      - apply (first_has_data_of D pcr0data). intros p m Ef Hn. rewrite Nat.sub_0_r in Hn.
        apply (Hdf v p m Er); [now rewrite map_length|exact Hn]. }
    assert (Hswaps : apply_swaps_strict (r_swaps r) (map (as_entry D alg) f1)
                     = Some (map (as_entry D alg) (apply_swaps (r_swaps r) f1))).
    { rewrite apply_swaps_strict_ok by (now rewrite map_length, Hlen1). now rewrite map_apply_swaps. }
    assert (Hfilter : forall X : list (nat * meas D),
              map snd (filter (fun e => negb (mem_nat (fst e) dis)) (map (as_entry D alg) X))
              = map snd (map (as_entry D alg) (filter (fun pm => negb (mem_nat (fst pm) dis)) X))).
    { intro X. now rewrite filter_map_comm. }
    unfold PCR0Tool.tool_verdict. rewrite (tool_entries_all D alg (r_loc r) cmds). fold f.
    destruct (head_init D (r_loc r) cmds) eqn:Eh; cbn [app].
    - cbn [existsb snd is_linit orb].
      assert (H0 : mem_nat 0 dis = false).
      { destruct (mem_nat 0 dis) eqn:E; [|reflexivity]. apply mem_nat_In in E.
        unfold dis, cmd_positions in E. apply in_map_iff in E as (i & Ei & Hi).
        rewrite Forall_forall in Hdis. specialize (Hdis _ Hi).
        pose proof (head_init_positions alg _ _ Eh) as Hp. fold f in Hp. rewrite Forall_forall in Hp.
        assert (In (nth i (map fst f) O) (map fst f)) by (apply nth_In; now rewrite map_length).
        specialize (Hp _ H). lia. }
      assert (Hc2 : match r_reg r with
                    | Some v => tool_correct D pcr0data alg dis v ((O, LInit (r_loc r)) :: map (as_entry D alg) f)
                    | None => Some ((O, LInit (r_loc r)) :: map (as_entry D alg) f)
                    end = Some ((O, LInit (r_loc r)) :: map (as_entry D alg) f1)).
      { destruct (r_reg r) as [v|]; [|now inversion Hcorr].
        cbn [PCR0Tool.tool_correct is_linit]. rewrite orb_true_r. now rewrite Hcorr. }
      rewrite Hc2, Hswaps. cbn [filter fst]. rewrite H0. cbn [negb map snd PCR0Tool.tool_run].
      now rewrite Hfilter, tool_run_entries.
    - rewrite existsb_init_entries, Hcorr, Hswaps, Hfilter, tool_run_entries. reflexivity.
  Qed.
End Agreement.

(** * Every reported result meets the side conditions of [tool_replay_agrees] *)

Lemma disabled_of_range D (log : list (meas D)) comb :
  Forall (fun i => (i < length log)%nat) (disabled_of D log comb).
Proof.
  unfold disabled_of, nlog. apply Forall_forall. intros i Hi.
  apply in_map_iff in Hi as (z & <- & Hz). apply filter_In in Hz as (_ & Hz). lia.
Qed.

Lemma reported_wf D (deqb : D -> D -> bool) :
  (forall a b, deqb a b = true <-> a = b) ->
  forall (pcr_init : Z -> D) (extend : D -> D -> D) (pcr0data : Z -> Z -> D) st
         (log : list (meas D)) (target : D) cf r,
  In (FSome r) (outcomes D deqb pcr_init extend pcr0data st log target cf) ->
  Forall (fun i => (i < length log)%nat) (r_disabled r) /\
  Forall (fun i => (i < length log)%nat) (swap_idx (r_swaps r)) /\
  data_first D log r.
Proof.
  intros Hd pcr_init extend pcr0data st log target cf r H.
  apply outcomes_found in H as (loc & _ & H).
  apply (job_found D deqb Hd) in H as (k & ws & _ & _ & cs & c & reg & sw & _ & _ & Ht & ->).
  apply (try_found D deqb Hd) in Ht as (s & s' & -> & Hsp & Hwf & _).
  cbn [r_disabled r_swaps r_reg].
  set (fl := enabled_flags D log c) in *.
  assert (Hfl : length fl = length log) by apply length_enabled_flags.
  assert (Hpos : length (positions fl) = length (select fl log)) by (symmetry; now apply length_select).
  split; [apply disabled_of_range|]. split.
  - apply (swaps_wf_range D extend target) in Hwf. rewrite shift_swaps_lift by (now rewrite Hpos).
    pose proof (lift_swaps_idx fl s ltac:(now rewrite Hpos)) as Hl.
    eapply Forall_impl; [|exact Hl]. intros i Hi. cbn beta in Hi.
    rewrite <- Hfl. apply nth_error_Some. congruence.
  - intros v p m Er Ef Hn. cbn [r_reg r_disabled] in Er, Ef. subst reg.
    change (length log) with (nlog D log) in Ef. rewrite (disabled_flags D deqb Hd pcr_init extend pcr0data log target c) in Ef. fold fl in Ef.
    pose proof (first_true_nth fl log 0 p Hfl Ef) as Hh. rewrite Nat.sub_0_r, Hn in Hh.
    destruct Hsp as (_ & _ & Hreg & _). fold fl in Hreg.
    destruct (select fl log) as [|m0 en]; [discriminate|]. cbn in Hh. inversion Hh; subst m0.
    destruct (m_data m) as [[tail r0]|]; [discriminate|]. discriminate.
Qed.

(** * Statements for Props/C03.v *)

(** for every reported result the tool's replay is the independent replay: any
    disabled set, any swaps, corrected register or not, log with or without its
    own TPMInit; no hypothesis on the hash *)
Theorem tool_replay_reported D (deqb : D -> D -> bool) :
  (forall a b, deqb a b = true <-> a = b) ->
  forall (pcr_init : Z -> D) (extend : D -> D -> D) (pcr0data : Z -> Z -> D) st alg
         (cmds : list (lcmd D)) (target : D) cf r,
  let f := PCR0Tool.filter_log D alg 0 cmds in
  In (FSome r) (outcomes D deqb pcr_init extend pcr0data st (map snd f) target cf) ->
  tool_verdict D deqb pcr_init extend pcr0data alg cmds target
               (r_loc r) (r_reg r) (cmd_positions f (r_disabled r)) (r_swaps r)
  = if deqb (replay_result D pcr_init extend pcr0data (map snd f) r) target then TVOk else TVMismatch.
Proof.
  intros Hd pcr_init extend pcr0data st alg cmds target cf r f Hin.
  destruct (reported_wf D deqb Hd pcr_init extend pcr0data st (map snd f) target cf r Hin) as (H1 & H2 & H3).
  rewrite map_length in H1, H2.
  exact (tool_replay_agrees D deqb pcr_init extend pcr0data alg cmds target r H1 H2 H3).
Qed.

(** search and consumer together, collision-free hash: every reported result is
    confirmed ("Resulting PCR0: <the requested value>") *)
Theorem tool_confirms_reported D (deqb : D -> D -> bool) :
  (forall a b, deqb a b = true <-> a = b) ->
  forall (pcr_init : Z -> D) (extend : D -> D -> D) (pcr0data : Z -> Z -> D) st alg
         (cmds : list (lcmd D)) (target : D) cf r,
  let f := PCR0Tool.filter_log D alg 0 cmds in
  extend_injective extend -> pcr0data_injective pcr0data -> lin_limit st <= 2 ^ 64 ->
  In (FSome r) (outcomes D deqb pcr_init extend pcr0data st (map snd f) target cf) ->
  tool_verdict D deqb pcr_init extend pcr0data alg cmds target
               (r_loc r) (r_reg r) (cmd_positions f (r_disabled r)) (r_swaps r)
  = TVOk.
Proof.
  intros Hd pcr_init extend pcr0data st alg cmds target cf r f He Hp HL Hin.
  pose proof (tool_replay_reported D deqb Hd pcr_init extend pcr0data st alg cmds target cf r Hin) as E.
  cbv zeta in E. fold f in E. rewrite E.
  destruct (sound_cf D deqb Hd pcr_init extend pcr0data st (map snd f) target cf r He Hp HL Hin) as (Hr & _).
  rewrite Hr. now rewrite (proj2 (Hd target target) eq_refl).
Qed.

(** * Closed instances: the witnesses of the two repaired findings, and the side condition *)

Definition t_tool := tool_verdict term term_eqb Init Ext DataH.
Definition t_log (alg : Z) (cmds : list cmd) : list tmeas := map snd (filter_log alg 0 cmds).
Definition t_replay_result := replay_result term Init Ext DataH.

(** 1. a corrected register (default settings; ACM_POLICY_STATUS off by one) *)
Definition cmds_w1 : list cmd := [KInit 3; KExt 0 4 (MD 1 R0); KExt 0 4 (MP (Atom 1))].
Definition st_w1 := mkSettings 4 0 false 2 128.
Definition tgt_w1 : term := Ext (Ext (Init 3) (DataH 1 (R0 - 1))) (Atom 1).
Definition r_w1 : result := mkResult 3 (Some (R0 - 1)) [] [].

(** 2. a swap, in a log that starts with TPMInit(3), found at locality 3 and at 0 *)
Definition cmds_w2 : list cmd :=
  [KInit 3; KExt 0 4 (MD 1 R0); KExt 0 4 (MP (Atom 1)); KExt 0 4 (MP (Atom 2))].
Definition st_w2 := mkSettings 1 1 false 0 1.
Definition tgt_w2 (loc : Z) : term := Ext (Ext (Ext (Init loc) (DataH 1 R0)) (Atom 2)) (Atom 1).
Definition r_w2 (loc : Z) : result := mkResult loc (Some R0) [] [(1, 2)%nat].

(** 3. a dropped measurement and a swap behind it *)
Definition cmds_w3 : list cmd :=
  [KInit 3; KExt 0 4 (MD 1 R0); KExt 0 4 (MP (Atom 1)); KExt 0 4 (MP (Atom 2)); KExt 0 4 (MP (Atom 3))].
Definition st_w3 := mkSettings 2 1 false 0 1.
Definition tgt_w3 : term := Ext (Ext (Ext (Init 0) (DataH 1 R0)) (Atom 3)) (Atom 2).
Definition r_w3 : result := mkResult 0 (Some R0) [1%nat] [(2, 3)%nat].

(** 4. a swap with PCR0_DATA itself in a log that starts with TPMInit(3) *)
Definition cmds_w4 : list cmd := [KInit 3; KExt 0 4 (MD 1 R0); KExt 0 4 (MP (Atom 1))].
Definition tgt_w4 : term := Ext (Ext (Init 3) (Atom 1)) (DataH 1 R0).
Definition r_w4 : result := mkResult 3 (Some R0) [] [(0, 1)%nat].

(** the results are the only outcome, replay to the requested value, and the
    repaired tool confirms every one of them (before 00d338a / 84ad407 it answered
    "internal error", "internal error", an index panic, nothing) *)
Lemma tool_repaired_witnesses :
  (forall cf, In cf [1; 4] ->
     outcomes term term_eqb Init Ext DataH st_w1 (t_log 4 cmds_w1) tgt_w1 cf = [FSome r_w1]) /\
  t_replay_result (t_log 4 cmds_w1) r_w1 = tgt_w1 /\
  t_tool 4 cmds_w1 tgt_w1 3 (Some (R0 - 1)) [] [] = TVOk /\
  (forall loc, In loc [0; 3] ->
     outcomes term term_eqb Init Ext DataH st_w2 (t_log 4 cmds_w2) (tgt_w2 loc) 1 = [FSome (r_w2 loc)] /\
     t_replay_result (t_log 4 cmds_w2) (r_w2 loc) = tgt_w2 loc /\
     t_tool 4 cmds_w2 (tgt_w2 loc) loc (Some R0) [] [(1, 2)%nat] = TVOk) /\
  outcomes term term_eqb Init Ext DataH st_w3 (t_log 4 cmds_w3) tgt_w3 1 = [FSome r_w3] /\
  t_replay_result (t_log 4 cmds_w3) r_w3 = tgt_w3 /\
  t_tool 4 cmds_w3 tgt_w3 0 (Some R0) [2%nat] [(2, 3)%nat] = TVOk /\
  outcomes term term_eqb Init Ext DataH st_w2 (t_log 4 cmds_w4) tgt_w4 1 = [FSome r_w4] /\
  t_replay_result (t_log 4 cmds_w4) r_w4 = tgt_w4 /\
  t_tool 4 cmds_w4 tgt_w4 3 (Some R0) [] [(0, 1)%nat] = TVOk.
Proof.
  split; [intros cf [<-|[<-|[]]]; vm_compute; reflexivity|].
  split; [vm_compute; reflexivity|]. split; [vm_compute; reflexivity|].
  split; [intros loc [<-|[<-|[]]]; (split; [|split]); vm_compute; reflexivity|].
  repeat (split; [vm_compute; reflexivity|]). vm_compute; reflexivity.
Qed.

(** the side conditions of [tool_replay_agrees] on a concrete non-trivial result
    (dropped measurement, swap, corrected register, log with its own TPMInit), and
    what happens without [data_first]: a register reported for a log whose first
    enabled measurement is not PCR0_DATA (never reported by the search) -- the tool
    cannot apply it and prints no verdict, [apply_result] ignores it *)
Definition r_ex1 : result := mkResult 3 (Some (R0 - 1)) [2%nat] [(1, 3)%nat].
Definition tgt_ex1 : term := Ext (Ext (Ext (Init 3) (DataH 1 (R0 - 1))) (Atom 3)) (Atom 1).
Definition r_nd : result := mkResult 0 (Some R0) [0%nat] [].
Definition tgt_nd : term := Ext (Init 0) (Atom 1).

Lemma tool_agreement_examples :
  (let f := filter_log 4 0 cmds_w3 in
   Forall (fun i => (i < length f)%nat) (r_disabled r_ex1) /\
   Forall (fun i => (i < length f)%nat) (swap_idx (r_swaps r_ex1)) /\
   data_first term (map snd f) r_ex1 /\ cmd_positions f (r_disabled r_ex1) = [3%nat] /\
   t_replay_result (map snd f) r_ex1 = tgt_ex1 /\
   t_tool 4 cmds_w3 tgt_ex1 3 (Some (R0 - 1)) [3%nat] [(1, 3)%nat] = TVOk) /\
  (let f := filter_log 4 0 cmds_w1 in
   ~ data_first term (map snd f) r_nd /\
   t_replay_result (map snd f) r_nd = tgt_nd /\
   t_tool 4 cmds_w1 tgt_nd 0 (Some R0) (cmd_positions f (r_disabled r_nd)) [] = TVSilent).
Proof.
  split; cbv zeta.
  - split; [repeat constructor|]. split; [vm_compute; repeat constructor|]. split.
    { intros v p m _ Ef Hn. vm_compute in Ef. inversion Ef; subst p. vm_compute in Hn. inversion Hn. discriminate. }
    split; [reflexivity|]. split; vm_compute; reflexivity.
  - split.
    { intro H. apply (H R0 1%nat (MP (Atom 1)) eq_refl); reflexivity. }
    split; vm_compute; reflexivity.
Qed.
