(** C03: proofs about Model/PCR0Tool.v -- filteredMeasurements keeps exactly the
    PCR0 extends of the bank, in order; pcr0tool's printReproducePCR0Result
    replays what the model's [replay_result] replays for results without swaps
    (any disabled measurements, any log) and for results with swaps only in a
    log that does not start with TPMInit(reported locality), provided the
    reported register does not change the PCR0_DATA digest; closed witnesses of
    the three ways in which it rejects a sound result. *)
From CSS Require Import Lib.Base Lib.Cases Model.Comb Proofs.Comb Model.PCR0Search Model.PCR0Tool Model.PCR0SearchCases Proofs.PCR0Search Proofs.PCR0SearchUnique.
From Coq Require Import Arith ZifyBool ZifyNat Sorted.

(** * filteredMeasurements *)

Section Filter.
  Variable D : Type.
  Notation lcmd := (lcmd D).
  Notation filter_log := (PCR0Tool.filter_log D).

  Lemma filter_log_in alg : forall l i p m,
    In (p, m) (filter_log alg i l) <->
    (i <= p)%nat /\ nth_error l (p - i) = Some (LExt 0 alg m).
  Proof.
    induction l as [|c t IH]; intros i p m.
    - cbn [PCR0Tool.filter_log In]. split; [tauto|]. intros (_ & H). now destruct (p - i)%nat.
    - assert (Tail : In (p, m) (filter_log alg (S i) t) <->
                     (i <= p)%nat /\ p <> i /\ nth_error (c :: t) (p - i) = Some (LExt 0 alg m)).
      { rewrite IH. split.
        - intros (Hp & Hn). split; [lia|]. split; [lia|].
          replace (p - i)%nat with (S (p - S i)) by lia. exact Hn.
        - intros (Hp & Hne & Hn). split; [lia|].
          replace (p - i)%nat with (S (p - S i)) in Hn by lia. exact Hn. }
      destruct c as [loc|pcr a m'|]; cbn [PCR0Tool.filter_log].
      + rewrite Tail. split; [tauto|]. intros (Hp & Hn). split; [exact Hp|]. split; [|exact Hn].
        intros ->. rewrite Nat.sub_diag in Hn. discriminate.
      + destruct ((pcr =? 0) && (a =? alg)) eqn:E.
        * apply andb_prop in E as (E1 & E2). apply Z.eqb_eq in E1, E2. subst pcr a.
          cbn [In]. rewrite Tail. split.
          -- intros [H|H]; [|tauto]. inversion H; subst. split; [lia|]. now rewrite Nat.sub_diag.
          -- intros (Hp & Hn). destruct (Nat.eq_dec p i) as [->|Hne].
             ++ left. rewrite Nat.sub_diag in Hn. cbn in Hn. congruence.
             ++ right. tauto.
        * rewrite Tail. split; [tauto|]. intros (Hp & Hn). split; [exact Hp|]. split; [|exact Hn].
          intros ->. rewrite Nat.sub_diag in Hn. cbn in Hn. inversion Hn; subst.
          rewrite !Z.eqb_refl in E. discriminate.
      + rewrite Tail. split; [tauto|]. intros (Hp & Hn). split; [exact Hp|]. split; [|exact Hn].
        intros ->. rewrite Nat.sub_diag in Hn. discriminate.
  Qed.

  Lemma filter_log_sorted alg : forall l i,
    StronglySorted lt (map fst (filter_log alg i l)) /\
    Forall (fun p => (i <= p)%nat) (map fst (filter_log alg i l)).
  Proof.
    induction l as [|c t IH]; intro i; [split; constructor|].
    destruct (IH (S i)) as (S1 & F1).
    assert (F1' : Forall (fun p => (i <= p)%nat) (map fst (filter_log alg (S i) t))).
    { eapply Forall_impl; [|exact F1]. cbn. lia. }
    destruct c as [loc|pcr a m'|]; cbn [PCR0Tool.filter_log]; try (split; assumption).
    destruct ((pcr =? 0) && (a =? alg)); [|split; assumption].
    cbn [map fst]. split.
    - constructor; [exact S1|]. eapply Forall_impl; [|exact F1]. cbn. lia.
    - constructor; [lia|exact F1'].
  Qed.

  (** what ReproduceExpectedPCR0 works on: exactly the PCR0 extends of the bank,
      each once, in the order of the command log *)
  Theorem filter_log_exact alg cmds :
    (forall p m, In (p, m) (filter_log alg 0 cmds) <-> nth_error cmds p = Some (LExt 0 alg m)) /\
    StronglySorted lt (map fst (filter_log alg 0 cmds)).
  Proof.
    split; [|apply filter_log_sorted].
    intros p m. rewrite filter_log_in, Nat.sub_0_r. split; [tauto|]. intro H. split; [lia|exact H].
  Qed.
End Filter.


(** * List helpers *)

Fixpoint ifilter {A} (P : nat -> bool) (i : nat) (l : list A) : list A :=
  match l with
  | [] => []
  | x :: t => if P i then x :: ifilter P (S i) t else ifilter P (S i) t
  end.

Lemma combine_filter_ifilter {A} (P : nat -> bool) : forall (l : list A) i,
  map snd (filter (fun t => P (fst t)) (combine (seq i (length l)) l)) = ifilter P i l.
Proof.
  induction l as [|x t IH]; intro i; [reflexivity|].
  cbn [length seq combine filter fst ifilter]. destruct (P i); cbn [map snd]; now rewrite IH.
Qed.

Lemma keyed_filter_ifilter {A B} (g : nat * A -> B) (Q P : nat -> bool) : forall (f : list (nat * A)) i,
  (forall k pm, nth_error f k = Some pm -> Q (fst pm) = P (i + k)%nat) ->
  map g (filter (fun pm => Q (fst pm)) f) = ifilter P i (map g f).
Proof.
  induction f as [|pm t IH]; intros i H; [reflexivity|].
  cbn [filter map ifilter]. rewrite (H O pm eq_refl), Nat.add_0_r.
  assert (Ht : forall k pm', nth_error t k = Some pm' -> Q (fst pm') = P (S i + k)%nat).
  { intros k pm' Hk. rewrite (H (S k) pm' Hk). f_equal. lia. }
  destruct (P i); cbn [map]; now rewrite (IH (S i) Ht).
Qed.

Lemma sorted_lt_NoDup : forall l, StronglySorted lt l -> NoDup l.
Proof.
  induction 1 as [|x t S IH F]; constructor; [|exact IH].
  intro Hin. rewrite Forall_forall in F. specialize (F _ Hin). lia.
Qed.

Lemma mem_nat_In x l : mem_nat x l = true <-> In x l.
Proof.
  induction l as [|y t IH]; cbn [mem_nat In]; [split; [discriminate|tauto]|].
  destruct (Nat.eqb_spec x y) as [->|N]; [tauto|]. rewrite IH. split; [tauto|]. intros [E|H]; [congruence|exact H].
Qed.

Lemma mem_nat_positions pos dis k : NoDup pos -> (k < length pos)%nat ->
  Forall (fun i => (i < length pos)%nat) dis ->
  mem_nat (nth k pos O) (map (fun i => nth i pos O) dis) = mem_nat k dis.
Proof.
  intros ND Hk F. destruct (mem_nat k dis) eqn:E.
  - apply mem_nat_In. apply mem_nat_In in E. apply in_map_iff. now exists k.
  - destruct (mem_nat (nth k pos O) _) eqn:E'; [|reflexivity].
    apply mem_nat_In in E'. apply in_map_iff in E' as (i & Ei & Hi).
    rewrite Forall_forall in F. specialize (F _ Hi).
    apply (proj1 (NoDup_nth pos O) ND) in Ei; try assumption. subst i.
    apply mem_nat_In in Hi. congruence.
Qed.

Lemma filter_all {A} (P : A -> bool) (l : list A) : (forall x, P x = true) -> filter P l = l.
Proof. intro H. induction l as [|x t IH]; [reflexivity|]. cbn. now rewrite H, IH. Qed.

Lemma apply_swaps_strict_ok {A} sw : forall l : list A,
  Forall (fun i => (i < length l)%nat) (swap_idx sw) ->
  apply_swaps_strict sw l = Some (apply_swaps sw l).
Proof.
  induction sw as [|[a b] t IH]; intros l H; [reflexivity|].
  cbn [swap_idx flat_map app fst snd] in H. change (flat_map _ t) with (swap_idx t) in H.
  inversion H as [|? ? Ha H']; subst. inversion H' as [|? ? Hb H'']; subst.
  cbn [apply_swaps_strict fst snd]. unfold swap_strict.
  destruct (nth_error l a) as [x|] eqn:Ea; [|apply nth_error_None in Ea; lia].
  destruct (nth_error l b) as [y|] eqn:Eb; [|apply nth_error_None in Eb; lia].
  unfold apply_swaps. cbn [fold_left fst snd]. change (fold_left _ t ?x) with (apply_swaps t x).
  assert (Es : swap_nth a b l = set_nth a y (set_nth b x l)) by (unfold swap_nth; now rewrite Ea, Eb).
  rewrite Es. apply IH. now rewrite !length_set_nth.
Qed.


Section ToolProofs.
  Variable D : Type.
  Variable deqb : D -> D -> bool.
  Variable pcr_init : Z -> D.
  Variable extend : D -> D -> D.
  Variable pcr0data : Z -> Z -> D.

  Notation flog := (PCR0Tool.filter_log D).
  Notation tool_kept := (tool_kept D).
  Notation tool_run := (tool_run D pcr_init extend).
  Notation tool_verdict := (tool_verdict D deqb pcr_init extend).
  Notation replay := (replay D pcr_init extend).

  (** the digests of the PCR0 extends of the bank that are not disabled
      ([dis]: positions in the command log) *)
  Definition kept_digs (alg : Z) (dis : list nat) (i : nat) (l : list (lcmd D)) : list D :=
    map (fun pm => m_dig (snd pm)) (filter (fun pm => negb (mem_nat (fst pm) dis)) (flog alg i l)).

  Definition no_head_init (i : nat) (l : list (lcmd D)) : Prop :=
    i = O -> match l with LInit _ :: _ => False | _ => True end.

  (** behind the first entry no TPMInit is kept: the kept entries are the enabled
      extends, and replaying them extends the PCR in order *)
  Lemma tool_run_tail alg loc dis : forall l i p, no_head_init i l ->
    tool_run (tool_kept alg loc dis i l) (Some p) = Some (fold_left extend (kept_digs alg dis i l) p) /\
    existsb (is_linit D) (tool_kept alg loc dis i l) = false.
  Proof.
    induction l as [|c t IH]; intros i p Hn; [split; reflexivity|].
    assert (Ht : no_head_init (S i) t) by (intro; discriminate).
    destruct c as [l0|pcr a m|]; cbn [PCR0Tool.tool_kept]; unfold tool_keeps.
    - assert (Ei : Nat.eqb i 0 = false).
      { destruct i; [exfalso; now apply Hn|reflexivity]. }
      rewrite Ei. cbn [andb]. rewrite andb_false_r.
      unfold kept_digs. cbn [PCR0Tool.filter_log]. exact (IH (S i) p Ht).
    - unfold kept_digs. cbn [PCR0Tool.filter_log].
      destruct ((pcr =? 0) && (a =? alg)) eqn:E.
      + cbn [filter fst]. destruct (mem_nat i dis); cbn [negb andb].
        * exact (IH (S i) p Ht).
        * cbn [PCR0Tool.tool_run map snd fold_left existsb is_linit orb].
          exact (IH (S i) (extend p (m_dig m)) Ht).
      + rewrite andb_false_r. exact (IH (S i) p Ht).
    - rewrite andb_false_r. unfold kept_digs. cbn [PCR0Tool.filter_log]. exact (IH (S i) p Ht).
  Qed.

  (** whatever the log looks like: the replay of the kept entries starts from
      TPMInit(reported locality) -- the log's own first entry or the tool's -- and
      extends with the enabled digests *)
  Lemma tool_run_kept alg loc dis cmds :
    tool_run (tool_kept alg loc dis 0 cmds)
             (if existsb (is_linit D) (tool_kept alg loc dis 0 cmds) then None else Some (pcr_init loc))
    = Some (replay loc (kept_digs alg dis 0 cmds)).
  Proof.
    unfold PCR0Search.replay.
    destruct cmds as [|c t].
    - reflexivity.
    - destruct c as [l0|pcr a m|].
      + assert (Ht : no_head_init 1 t) by (intro; discriminate).
        destruct (tool_run_tail alg loc dis t 1 (pcr_init loc) Ht) as (R & N).
        cbn [PCR0Tool.tool_kept]. unfold tool_keeps. cbn [Nat.eqb andb].
        unfold kept_digs in *. cbn [PCR0Tool.filter_log].
        destruct (negb (mem_nat 0 dis) && (l0 =? loc)) eqn:E.
        * apply andb_prop in E as (_ & E). apply Z.eqb_eq in E. subst l0.
          cbn [existsb is_linit orb PCR0Tool.tool_run]. exact R.
        * rewrite N. exact R.
      + assert (Hn : no_head_init 0 (LExt pcr a m :: t)) by (intro; exact I).
        destruct (tool_run_tail alg loc dis _ 0 (pcr_init loc) Hn) as (R & N).
        rewrite N. exact R.
      + assert (Hn : no_head_init 0 (@LLog D :: t)) by (intro; exact I).
        destruct (tool_run_tail alg loc dis _ 0 (pcr_init loc) Hn) as (R & N).
        rewrite N. exact R.
  Qed.

  (** ** No swaps: the tool replays the enabled digests from the reported locality *)
  Theorem tool_plain alg cmds target loc dis :
    tool_verdict alg cmds target loc dis []
    = if deqb (replay loc (kept_digs alg dis 0 cmds)) target then TVOk else TVMismatch.
  Proof.
    unfold PCR0Tool.tool_verdict. cbn [apply_swaps_strict]. now rewrite tool_run_kept.
  Qed.

  (** the enabled digests are those of the model's [apply_result] for a result
      without corrected register and without swaps; [dis_f]: positions in the
      filtered list, as in [r_disabled] *)
  Lemma kept_digs_apply_result alg cmds loc dis_f :
    let f := flog alg 0 cmds in
    Forall (fun i => (i < length f)%nat) dis_f ->
    kept_digs alg (map (fun i => nth i (map fst f) O) dis_f) 0 cmds
    = apply_result D pcr0data (map snd f) (mkResult loc None dis_f []).
  Proof.
    intros f HF. unfold apply_result, nlog. cbn [r_reg r_swaps r_disabled apply_swaps fold_left].
    replace (length (map snd f)) with (length (map (@m_dig D) (map snd f))) by (now rewrite map_length).
    rewrite (combine_filter_ifilter (fun i => negb (mem_nat i dis_f))).
    unfold kept_digs. fold f.
    rewrite (keyed_filter_ifilter (fun pm : nat * meas D => m_dig (snd pm))
               (fun p => negb (mem_nat p (map (fun i => nth i (map fst f) O) dis_f)))
               (fun i => negb (mem_nat i dis_f)) f 0).
    - now rewrite map_map.
    - intros k pm Hk. cbn [Nat.add]. f_equal.
      assert (Hlen : (k < length f)%nat) by (apply nth_error_Some; congruence).
      assert (Ep : fst pm = nth k (map fst f) O).
      { symmetry. apply nth_error_nth. now apply map_nth_error. }
      rewrite Ep. apply mem_nat_positions.
      + apply sorted_lt_NoDup. apply (filter_log_exact D alg cmds).
      + now rewrite map_length.
      + now rewrite map_length.
  Qed.

  Theorem tool_plain_model alg cmds target loc dis_f :
    let f := flog alg 0 cmds in
    Forall (fun i => (i < length f)%nat) dis_f ->
    tool_verdict alg cmds target loc (map (fun i => nth i (map fst f) O) dis_f) []
    = if deqb (replay_result D pcr_init extend pcr0data (map snd f) (mkResult loc None dis_f [])) target
      then TVOk else TVMismatch.
  Proof.
    intros f HF. rewrite tool_plain. unfold replay_result. cbn [r_loc].
    pose proof (kept_digs_apply_result alg cmds loc dis_f HF) as E. cbv zeta in E. fold f in E.
    now rewrite E.
  Qed.
End ToolProofs.


Section ToolSwaps.
  Variable D : Type.
  Variable deqb : D -> D -> bool.
  Variable pcr_init : Z -> D.
  Variable extend : D -> D -> D.
  Variable pcr0data : Z -> Z -> D.

  Notation flog := (PCR0Tool.filter_log D).
  Notation tool_kept := (tool_kept D).
  Notation tool_run := (tool_run D pcr_init extend).
  Notation tool_verdict := (tool_verdict D deqb pcr_init extend).
  Notation replay := (replay D pcr_init extend).

  Definition as_ext (alg : Z) (pm : nat * meas D) : lcmd D := LExt 0 alg (snd pm).

  (** nothing disabled: behind the first entry the kept entries are the filtered
      measurements, in order *)
  Lemma tool_kept_all_tail alg loc : forall l i, no_head_init D i l ->
    tool_kept alg loc [] i l = map (as_ext alg) (flog alg i l).
  Proof.
    induction l as [|c t IH]; intros i Hn; [reflexivity|].
    assert (Ht : no_head_init D (S i) t) by (intro; discriminate).
    destruct c as [l0|pcr a m|]; cbn [PCR0Tool.tool_kept PCR0Tool.filter_log]; unfold tool_keeps;
      cbn [mem_nat negb andb].
    - assert (Ei : Nat.eqb i 0 = false).
      { destruct i; [exfalso; now apply Hn|reflexivity]. }
      rewrite Ei. cbn [andb]. exact (IH (S i) Ht).
    - destruct ((pcr =? 0) && (a =? alg)) eqn:E; [|exact (IH (S i) Ht)].
      apply andb_prop in E as (E1 & E2). apply Z.eqb_eq in E1, E2. subst pcr a.
      cbn [map]. unfold as_ext at 1. cbn [snd]. f_equal. exact (IH (S i) Ht).
    - exact (IH (S i) Ht).
  Qed.

  (** the log's TPMInit is not among the kept entries: the log does not start
      with TPMInit(reported locality) *)
  Definition no_init_kept (loc : Z) (cmds : list (lcmd D)) : Prop :=
    match cmds with LInit l0 :: _ => l0 <> loc | _ => True end.

  Lemma tool_kept_all alg loc cmds : no_init_kept loc cmds ->
    tool_kept alg loc [] 0 cmds = map (as_ext alg) (flog alg 0 cmds).
  Proof.
    intro Hn. destruct cmds as [|c t]; [reflexivity|].
    destruct c as [l0|pcr a m|].
    - cbn [no_init_kept] in Hn. cbn [PCR0Tool.tool_kept PCR0Tool.filter_log]. unfold tool_keeps.
      cbn [mem_nat negb Nat.eqb andb]. replace (l0 =? loc) with false by lia.
      apply tool_kept_all_tail. intro; discriminate.
    - apply tool_kept_all_tail. intro; exact I.
    - apply tool_kept_all_tail. intro; exact I.
  Qed.

  Lemma tool_run_exts alg : forall (l : list (nat * meas D)) p,
    tool_run (map (as_ext alg) l) (Some p) = Some (fold_left extend (map (fun pm => m_dig (snd pm)) l) p).
  Proof.
    induction l as [|pm t IH]; intro p; [reflexivity|].
    cbn [map as_ext PCR0Tool.tool_run fold_left]. apply IH.
  Qed.

  Lemma existsb_as_ext alg (l : list (nat * meas D)) : existsb (is_linit D) (map (as_ext alg) l) = false.
  Proof. induction l as [|pm t IH]; [reflexivity|]. cbn [map existsb as_ext is_linit orb]. exact IH. Qed.

  (** ** Swaps only: when nothing is disabled and the log does not start with
      TPMInit(reported locality), the tool applies the swaps to the PCR0
      measurements themselves, as the brute-forcer meant them *)
  Theorem tool_swaps_model alg cmds target loc sw :
    let f := flog alg 0 cmds in
    no_init_kept loc cmds ->
    Forall (fun i => (i < length f)%nat) (swap_idx sw) ->
    tool_verdict alg cmds target loc [] sw
    = if deqb (replay_result D pcr_init extend pcr0data (map snd f) (mkResult loc None [] sw)) target
      then TVOk else TVMismatch.
  Proof.
    intros f Hn Hsw. unfold PCR0Tool.tool_verdict.
    rewrite (tool_kept_all alg loc cmds Hn). fold f.
    rewrite apply_swaps_strict_ok by (now rewrite map_length).
    rewrite existsb_as_ext, <- map_apply_swaps, tool_run_exts.
    unfold replay_result, PCR0Search.replay, apply_result, nlog.
    cbn [r_loc r_reg r_swaps r_disabled].
    rewrite filter_all by reflexivity.
    rewrite !map_apply_swaps, map_snd_combine by (now rewrite seq_length, !map_length).
    now rewrite map_map.
  Qed.
End ToolSwaps.


(** * Closed witnesses: sound results that the tool's own replay rejects *)

Definition t_tool := tool_verdict term term_eqb Init Ext.
Definition t_log (alg : Z) (cmds : list cmd) : list tmeas := map snd (filter_log alg 0 cmds).
Definition t_replay_result := replay_result term Init Ext DataH.

(** 1. a corrected register (default settings; ACM_POLICY_STATUS off by one) *)
Definition cmds_w1 : list cmd := [KInit 3; KExt 0 4 (MD 1 R0); KExt 0 4 (MP (Atom 1))].
Definition st_w1 := mkSettings 4 0 false 2 128.
Definition tgt_w1 : term := Ext (Ext (Init 3) (DataH 1 (R0 - 1))) (Atom 1).
Definition r_w1 : result := mkResult 3 (Some (R0 - 1)) [] [].

(** 2. a swap, in a log that starts with TPMInit(3): found at locality 3 the tool
    swaps the wrong entries, found at locality 0 it swaps the right ones *)
Definition cmds_w2 : list cmd :=
  [KInit 3; KExt 0 4 (MD 1 R0); KExt 0 4 (MP (Atom 1)); KExt 0 4 (MP (Atom 2))].
Definition st_w2 := mkSettings 1 1 false 0 1.
Definition tgt_w2 (loc : Z) : term := Ext (Ext (Ext (Init loc) (DataH 1 R0)) (Atom 2)) (Atom 1).
Definition r_w2 (loc : Z) : result := mkResult loc (Some R0) [] [(1, 2)%nat].

(** 3. a dropped measurement and a swap behind it: the reported indices count the
    dropped entry, the tool's list does not hold it any more *)
Definition cmds_w3 : list cmd :=
  [KInit 3; KExt 0 4 (MD 1 R0); KExt 0 4 (MP (Atom 1)); KExt 0 4 (MP (Atom 2)); KExt 0 4 (MP (Atom 3))].
Definition st_w3 := mkSettings 2 1 false 0 1.
Definition tgt_w3 : term := Ext (Ext (Ext (Init 0) (DataH 1 R0)) (Atom 3)) (Atom 2).
Definition r_w3 : result := mkResult 0 (Some R0) [1%nat] [(2, 3)%nat].

(** 4. a swap with PCR0_DATA itself in a log that starts with TPMInit(3): the tool
    moves the TPMInit entry behind an extend and prints no verdict at all *)
Definition cmds_w4 : list cmd := [KInit 3; KExt 0 4 (MD 1 R0); KExt 0 4 (MP (Atom 1))].
Definition tgt_w4 : term := Ext (Ext (Init 3) (Atom 1)) (DataH 1 R0).
Definition r_w4 : result := mkResult 3 (Some R0) [] [(0, 1)%nat].

Lemma tool_replay_witnesses :
  (* 1 *)
  (forall cf, In cf [1; 4] ->
     outcomes term term_eqb Init Ext DataH st_w1 (t_log 4 cmds_w1) tgt_w1 cf = [FSome r_w1]) /\
  t_replay_result (t_log 4 cmds_w1) r_w1 = tgt_w1 /\
  t_tool 4 cmds_w1 tgt_w1 3 [] [] = TVMismatch /\
  (* 2 *)
  (forall loc, In loc [0; 3] ->
     outcomes term term_eqb Init Ext DataH st_w2 (t_log 4 cmds_w2) (tgt_w2 loc) 1 = [FSome (r_w2 loc)] /\
     t_replay_result (t_log 4 cmds_w2) (r_w2 loc) = tgt_w2 loc) /\
  t_tool 4 cmds_w2 (tgt_w2 3) 3 [] [(1, 2)%nat] = TVMismatch /\
  t_tool 4 cmds_w2 (tgt_w2 0) 0 [] [(1, 2)%nat] = TVOk /\
  (* 3 *)
  outcomes term term_eqb Init Ext DataH st_w3 (t_log 4 cmds_w3) tgt_w3 1 = [FSome r_w3] /\
  t_replay_result (t_log 4 cmds_w3) r_w3 = tgt_w3 /\
  t_tool 4 cmds_w3 tgt_w3 0 [2%nat] [(2, 3)%nat] = TVPanic /\
  (* 4 *)
  outcomes term term_eqb Init Ext DataH st_w2 (t_log 4 cmds_w4) tgt_w4 1 = [FSome r_w4] /\
  t_replay_result (t_log 4 cmds_w4) r_w4 = tgt_w4 /\
  t_tool 4 cmds_w4 tgt_w4 3 [] [(0, 1)%nat] = TVSilent.
Proof.
  split; [intros cf [<-|[<-|[]]]; vm_compute; reflexivity|].
  split; [vm_compute; reflexivity|]. split; [vm_compute; reflexivity|].
  split; [intros loc [<-|[<-|[]]]; split; vm_compute; reflexivity|].
  repeat (split; [vm_compute; reflexivity|]). vm_compute; reflexivity.
Qed.


(** * Statements for Props/C03.v *)

(** positions in the command log of the measurements a result lists as disabled
    (the result itself holds pointers into the log) *)
Definition cmd_positions {D} (f : list (nat * meas D)) (dis_f : list nat) : list nat :=
  map (fun i => nth i (map fst f) O) dis_f.

(** the reported register does not change the digest sequence: none is reported,
    or the recorded PCR0_DATA digest already is the hash with that register *)
Definition reg_neutral D (pcr0data : Z -> Z -> D) (log : list (meas D)) (r : result) : Prop :=
  apply_result D pcr0data log r
  = apply_result D pcr0data log (mkResult (r_loc r) None (r_disabled r) (r_swaps r)).

Lemma reg_neutral_none D pcr0data log r : r_reg r = None -> reg_neutral D pcr0data log r.
Proof. intro H. unfold reg_neutral, apply_result. cbn [r_reg r_disabled r_swaps]. now rewrite H. Qed.

Lemma reg_neutral_same D (pcr0data : Z -> Z -> D) (log : list (meas D)) r v :
  r_reg r = Some v ->
  (forall p m tail reg0,
     first_true (map (fun i => negb (mem_nat i (r_disabled r))) (seq 0 (length log))) 0 = Some p ->
     nth_error log p = Some m -> m_data m = Some (tail, reg0) -> pcr0data tail v = m_dig m) ->
  reg_neutral D pcr0data log r.
Proof.
  intros Hv H. unfold reg_neutral, apply_result, nlog. cbn [r_reg r_disabled r_swaps]. rewrite Hv.
  destruct (first_true _ 0) as [p|] eqn:Ep; [|reflexivity].
  destruct (nth_error log p) as [m|] eqn:Em; [|reflexivity].
  destruct (m_data m) as [[tail reg0]|] eqn:Ed; [|reflexivity].
  rewrite (H p m tail reg0 eq_refl Em Ed).
  rewrite set_nth_same; [reflexivity|]. now apply map_nth_error.
Qed.

Theorem tool_agrees_no_swaps D (deqb : D -> D -> bool) (pcr_init : Z -> D) (extend : D -> D -> D)
    (pcr0data : Z -> Z -> D) alg (cmds : list (lcmd D)) target r :
  let f := PCR0Tool.filter_log D alg 0 cmds in
  Forall (fun i => (i < length f)%nat) (r_disabled r) ->
  r_swaps r = [] -> reg_neutral D pcr0data (map snd f) r ->
  tool_verdict D deqb pcr_init extend alg cmds target (r_loc r) (cmd_positions f (r_disabled r)) (r_swaps r)
  = if deqb (replay_result D pcr_init extend pcr0data (map snd f) r) target then TVOk else TVMismatch.
Proof.
  intros f HF Hs Hn. rewrite Hs. unfold cmd_positions.
  pose proof (tool_plain_model D deqb pcr_init extend pcr0data alg cmds target (r_loc r) (r_disabled r) HF) as E.
  cbv zeta in E. fold f in E. rewrite E. unfold replay_result. rewrite Hn, Hs. reflexivity.
Qed.

Theorem tool_agrees_swaps_only D (deqb : D -> D -> bool) (pcr_init : Z -> D) (extend : D -> D -> D)
    (pcr0data : Z -> Z -> D) alg (cmds : list (lcmd D)) target r :
  let f := PCR0Tool.filter_log D alg 0 cmds in
  r_disabled r = [] -> no_init_kept D (r_loc r) cmds ->
  Forall (fun i => (i < length f)%nat) (swap_idx (r_swaps r)) ->
  reg_neutral D pcr0data (map snd f) r ->
  tool_verdict D deqb pcr_init extend alg cmds target (r_loc r) (cmd_positions f (r_disabled r)) (r_swaps r)
  = if deqb (replay_result D pcr_init extend pcr0data (map snd f) r) target then TVOk else TVMismatch.
Proof.
  intros f Hd Hi Hs Hn. rewrite Hd. unfold cmd_positions. cbn [map].
  pose proof (tool_swaps_model D deqb pcr_init extend pcr0data alg cmds target (r_loc r) (r_swaps r) Hi Hs) as E.
  cbv zeta in E. fold f in E. rewrite E. unfold replay_result. rewrite Hn, Hd. reflexivity.
Qed.

(** with the specification of [deqb]: the tool prints "Resulting PCR0" exactly for
    the results that replay to the requested value *)
Corollary tool_ok_iff D (deqb : D -> D -> bool) (x target : D) :
  (forall a b, deqb a b = true <-> a = b) ->
  ((if deqb x target then TVOk else TVMismatch) = TVOk <-> x = target).
Proof.
  intro Hd. destruct (deqb x target) eqn:E.
  - apply Hd in E. tauto.
  - split; [discriminate|]. intro H. apply Hd in H. congruence.
Qed.

(** the premises of the two agreement theorems are met by non-trivial results *)
Definition r_ex1 : result := mkResult 3 (Some R0) [2%nat] [].
Definition tgt_ex1 : term := Ext (Ext (Ext (Init 3) (DataH 1 R0)) (Atom 1)) (Atom 3).

Lemma tool_agreement_examples :
  (* a dropped measurement, no swaps, log starting with TPMInit(3), found at locality 3 *)
  (let f := filter_log 4 0 cmds_w3 in
   Forall (fun i => (i < length f)%nat) (r_disabled r_ex1) /\ r_swaps r_ex1 = [] /\
   reg_neutral term DataH (map snd f) r_ex1 /\ cmd_positions f (r_disabled r_ex1) = [3%nat] /\
   t_replay_result (map snd f) r_ex1 = tgt_ex1 /\
   t_tool 4 cmds_w3 tgt_ex1 3 [3%nat] [] = TVOk) /\
  (* a swap, log starting with TPMInit(3), found at locality 0 *)
  (let f := filter_log 4 0 cmds_w2 in
   r_disabled (r_w2 0) = [] /\ no_init_kept term (r_loc (r_w2 0)) cmds_w2 /\
   Forall (fun i => (i < length f)%nat) (swap_idx (r_swaps (r_w2 0))) /\
   reg_neutral term DataH (map snd f) (r_w2 0)).
Proof.
  split; cbv zeta.
  - split; [repeat constructor|]. split; [reflexivity|]. split; [vm_compute; reflexivity|].
    split; [reflexivity|]. split; vm_compute; reflexivity.
  - split; [reflexivity|]. split; [cbn; lia|]. split; [vm_compute; repeat constructor|].
    vm_compute; reflexivity.
Qed.


Lemma disabled_of_range D (log : list (meas D)) comb :
  Forall (fun i => (i < length log)%nat) (disabled_of D log comb).
Proof.
  unfold disabled_of, nlog. apply Forall_forall. intros i Hi.
  apply in_map_iff in Hi as (z & <- & Hz). apply filter_In in Hz as (_ & Hz). lia.
Qed.

(** search and consumer together: a reported result without swaps whose register
    leaves the PCR0_DATA digest as recorded is accepted by pcr0tool's replay *)
Theorem tool_accepts_plain D (deqb : D -> D -> bool) :
  (forall a b, deqb a b = true <-> a = b) ->
  forall (pcr_init : Z -> D) (extend : D -> D -> D) (pcr0data : Z -> Z -> D) st alg
         (cmds : list (lcmd D)) (target : D) cf r,
  let f := PCR0Tool.filter_log D alg 0 cmds in
  extend_injective extend -> pcr0data_injective pcr0data -> lin_limit st <= 2 ^ 64 ->
  1 <= cf -> no_overflow D st (map snd f) ->
  In (FSome r) (outcomes D deqb pcr_init extend pcr0data st (map snd f) target cf) ->
  r_swaps r = [] -> reg_neutral D pcr0data (map snd f) r ->
  tool_verdict D deqb pcr_init extend alg cmds target (r_loc r) (cmd_positions f (r_disabled r)) (r_swaps r)
  = TVOk.
Proof.
  intros Hd pcr_init extend pcr0data st alg cmds target cf r f He Hp HL Hcf Hno Hin Hs Hn.
  destruct (sound_cf D deqb Hd pcr_init extend pcr0data st (map snd f) target cf r He Hp HL Hin) as (Hr & _).
  destruct (found_in_space D deqb Hd pcr_init extend pcr0data st (map snd f) target cf r Hcf Hno Hin)
    as (c & reg & s' & _ & _ & _ & Hdis & _).
  pose proof (tool_agrees_no_swaps D deqb pcr_init extend pcr0data alg cmds target r) as E.
  cbv zeta in E. fold f in E. rewrite E; try assumption.
  - rewrite Hr. now rewrite (proj2 (Hd target target) eq_refl).
  - rewrite Hdis. pose proof (disabled_of_range D (map snd f) c) as R. now rewrite map_length in R.
Qed.
